package channelquorum

// TestVerifChannelQuorum is started by the runner (checks/C01..C04.json).
//
//  1. Scripted schedules taken from TLC counterexamples of specs/ChannelQuorum (the F1 family, F2,
//     and the rehearsal variants V_*) are replayed on the real cluster through the link matrix and
//     store gates; the outcome the specification predicts for the code is compared with what the
//     code did.
//  2. A seeded random fault driver (partitions, reply loss, crash/restart, concurrent Install and
//     Commit on different nodes, retries with equal and changed content, write fences, stale
//     authorities) records every store mutation and API call/return; the runner has TLC validate
//     the traces against specs/ChannelQuorum/Trace.tla, which evaluates C01..C04 at every step.

import (
	"context"
	"fmt"
	"math/rand"
	"os"
	"sync"
	"testing"
	"time"

	ch "github.com/WuKongIM/WuKongIM/pkg/channel"
	"github.com/WuKongIM/WuKongIM/pkg/channel/replication"
	channelstore "github.com/WuKongIM/WuKongIM/pkg/channel/store"
	"verif/runner/kit"
)

const callTimeout = 6 * time.Second

func memFactory() channelstore.Factory { return channelstore.NewMemoryFactory() }

func TestVerifChannelQuorum(t *testing.T) {
	env, ok := kit.LoadEnv()
	if !ok {
		t.Skip("not started by the verif runner")
	}
	rep := kit.NewReport(env, "channelquorum")
	rec, err := kit.NewRecorder(env.TraceFile)
	if err != nil {
		t.Fatal(err)
	}
	traces := env.Pick(14, 120)
	steps := env.Pick(45, 70)
	rng := env.Rand()
	if os.Getenv("VERIF_CQ_VOTERS") == "5" {
		// five voters, write quorum 3: leader + one follower is NOT a quorum (stage "five",
		// validated against Trace5.cfg).  The scripted schedules below are written for three voters.
		setVoters(5)
		traces = env.Pick(8, 60)
		for i := 0; i < env.Pick(2, 6); i++ {
			if err := scriptedMinorityRepair(rng, rep, rec); err != nil {
				rep.Infra("scripted minority repair %d: %v", i, err)
				break
			}
		}
	} else {
		runScenarios(env, rep)
	}
	// multi-mutation store calls judged by the store contract (memory store and the real MessageDB store)
	for i := 0; i < env.Pick(4, 16); i++ {
		factory, ferr := factoryFor(env, rep, i%2 == 1)
		if ferr != nil {
			rep.Infra("tempdir: %v", ferr)
			break
		}
		if err := storeContractTrace(rng, rep, rec, factory, env.Pick(25, 60)); err != nil {
			rep.Infra("store contract trace %d: %v", i, err)
			break
		}
	}
	// scripted, recorded, TLC-validated: a follower holding a same-length divergent tail receives the
	// new leader's next proposal (memory store and the real MessageDB store)
	for i := 0; i < env.Pick(2, 6); i++ {
		factory, ferr := factoryFor(env, rep, i%2 == 1)
		if ferr != nil {
			rep.Infra("tempdir: %v", ferr)
			break
		}
		if err := scriptedDivergentTail(rng, rep, rec, factory); err != nil {
			rep.Infra("scripted divergent tail %d: %v", i, err)
			break
		}
	}
	for i := 0; i < traces; i++ {
		// real Pebble-backed message stores (pkg/db/message behind pkg/channel/store): a few traces in
		// the quick tier, every second one in the thorough tier
		factory, ferr := factoryFor(env, rep, (env.Thorough() && i%2 == 1) || (!env.Thorough() && i%7 == 3))
		if ferr != nil {
			rep.Infra("tempdir: %v", ferr)
			break
		}
		if err := randomTrace(rng, rep, rec, steps, factory); err != nil {
			rep.Infra("random trace %d: %v", i, err)
			break
		}
	}
	if err := rec.Close(); err != nil {
		rep.Infra("trace file: %v", err)
	}
	if err := rep.Finish(rec); err != nil {
		t.Fatal(err)
	}
	_ = os.Stdout.Sync()
}

func factoryFor(env kit.Env, rep *kit.Report, messageDB bool) (func() channelstore.Factory, error) {
	if !messageDB {
		return memFactory, nil
	}
	dir, err := os.MkdirTemp(env.OutDir, "mdb-")
	if err != nil {
		return nil, err
	}
	n := 0
	rep.AddExtra("traces_on_messagedb_stores", 1)
	return func() channelstore.Factory {
		n++
		return channelstore.NewMessageDBFactory(fmt.Sprintf("%s/node%d", dir, n))
	}, nil
}

// scriptedDivergentTail: Install(A); Commit(P1) everywhere; A isolated; Commit(P2) on A fails (A's log
// end is 2, uncommitted); Install(B) among the others (its own entry at offset 2); A healed;
// Commit(P3...) on B.  A now holds a tail of the SAME length as the base of B's proposal but with a
// different entry: the store contract (Trace.tla SyncExpect: the predecessor digest must match) demands
// that A's store refuses the proposal until repair replaced the tail.
func scriptedDivergentTail(rng *rand.Rand, rep *kit.Report, rec *kit.Recorder, factory func() channelstore.Factory) error {
	c, err := newCluster(rec, factory, time.Hour, 2, 1<<20)
	if err != nil {
		return err
	}
	defer c.close()
	rec.Begin(map[string]any{"cfg": map[string]any{"hedge_ms": int64(time.Hour / time.Millisecond), "retained": 2, "scripted": "divergent-tail"}}, nil)
	perm := rng.Perm(len(voters))
	A, B := voters[perm[0]], voters[perm[1]]
	a1 := replication.AuthorityID{ChannelEpoch: 1, LeaderTerm: 1, FenceVersion: 1}
	if _, err := c.install(A, mkAuthority(a1, A, false), callTimeout); err != nil {
		return fmt.Errorf("install A: %w", err)
	}
	seq := 2*(50+rng.Intn(400)) + 1 // odd sequences claim server-allocated ids
	if _, err := c.commit(A, a1, mkCommand(seq, 1, 1, 0), false, callTimeout); err != nil {
		return fmt.Errorf("commit P1: %w", err)
	}
	waitLEO := func(n ch.NodeID, want uint64) bool {
		for i := 0; i < 400; i++ {
			if v, err := c.view(n); err == nil && v.leo >= want {
				return true
			}
			time.Sleep(5 * time.Millisecond)
		}
		return false
	}
	for _, v := range voters {
		if !waitLEO(v, 1) {
			return fmt.Errorf("P1 did not reach node %d", v)
		}
	}
	for _, v := range voters {
		if v != A {
			c.setReach(A, v, false)
			c.setReach(v, A, false)
		}
	}
	_, _ = c.commit(A, a1, mkCommand(seq+2, 1, 1, 0), false, 1500*time.Millisecond)
	if !waitLEO(A, 2) {
		return fmt.Errorf("P2 not durable on the deposed leader")
	}
	a2 := replication.AuthorityID{ChannelEpoch: 1, LeaderTerm: 2, FenceVersion: 1}
	if _, err := c.install(B, mkAuthority(a2, B, false), callTimeout); err != nil {
		return nil // fail-closed install: the recorded prefix is still validated
	}
	if v, err := c.view(B); err == nil && v.leo < 2 {
		// no barrier entry at offset 2: give the new leader one entry of its own there
		_, _ = c.commit(B, a2, mkCommand(seq+4, 1, 1, 0), false, callTimeout)
	}
	c.healAll()
	rep.Cover("DivergentTailProposal")
	for k := 0; k < 3; k++ {
		_, _ = c.commit(B, a2, mkCommand(seq+6+2*k, 1+rng.Intn(2), 1, 0), false, callTimeout)
	}
	time.Sleep(30 * time.Millisecond)
	rep.Replayed(1)
	return nil
}

// ---- random fault driver ------------------------------------------------------------------------

type issued struct {
	cmd  command
	node ch.NodeID
	auth replication.AuthorityID
	seq  int
}

func randomTrace(rng *rand.Rand, rep *kit.Report, rec *kit.Recorder, steps int, factory func() channelstore.Factory) error {
	hedge := []time.Duration{2 * time.Millisecond, 20 * time.Millisecond, time.Hour}[rng.Intn(3)]
	retained := 1 + rng.Intn(3)
	c, err := newCluster(rec, factory, hedge, retained, 1<<20)
	if err != nil {
		return err
	}
	defer c.close()
	rec.Begin(map[string]any{"cfg": map[string]any{"hedge_ms": hedge.Milliseconds(), "retained": retained}}, nil)

	epoch, term, fv := uint64(1), uint64(0), uint64(1)
	installed := map[ch.NodeID]replication.AuthorityID{} // what the driver believes is installed and ready
	var history []issued
	cmdSeq := rng.Intn(1000) * 100
	down := ch.NodeID(0)
	upNodes := func() []ch.NodeID {
		out := []ch.NodeID{}
		for _, v := range voters {
			if v != down {
				out = append(out, v)
			}
		}
		return out
	}
	pick := func(xs []ch.NodeID) ch.NodeID { return xs[rng.Intn(len(xs))] }

	lastLeader := ch.NodeID(0) // leader of the newest authority issued
	doInstall := func(n ch.NodeID, id replication.AuthorityID, fenced bool) {
		rep.Cover("Install")
		lastLeader = n
		_, err := c.install(n, mkAuthority(id, n, fenced), callTimeout)
		if err == nil {
			installed[n] = id
		} else if cls := errClass(err); cls != "stale" && cls != "invalid" {
			delete(installed, n)
		}
	}
	doCommit := func(n ch.NodeID, id replication.AuthorityID, cmd command, changed bool) {
		rep.Cover("Commit")
		_, _ = c.commit(n, id, cmd, changed, callTimeout)
	}
	newAuth := func() replication.AuthorityID {
		switch r := rng.Intn(10); {
		case r < 7:
			term++
		case r < 9:
			fv++
		default:
			epoch++
			term++
		}
		return replication.AuthorityID{ChannelEpoch: epoch, LeaderTerm: term, FenceVersion: fv}
	}

	for s := 0; s < steps; s++ {
		switch r := rng.Intn(100); {
		case r < 14 || len(installed) == 0: // install a new authority somewhere
			n := pick(upNodes())
			doInstall(n, newAuth(), rng.Intn(12) == 0)
		case r < 17 && len(history) > 0: // an OLD authority of the SAME node again
			// The control plane never hands one authority id to two leaders, so an earlier authority
			// is only ever re-offered to the node that held it (refused as stale, or a same-authority
			// no-op / re-install after a restart).
			h := history[rng.Intn(len(history))]
			cur, has := installed[h.node]
			// only two environment-legal shapes: (a) the node currently holds a NEWER authority (the
			// old one must be refused as stale), (b) it is the newest authority ever issued and this
			// node is its leader (same-authority re-install, e.g. after a restart)
			stale := has && authInt(h.auth) < authInt(cur)
			newest := h.auth == (replication.AuthorityID{ChannelEpoch: epoch, LeaderTerm: term, FenceVersion: fv}) && h.node == lastLeader
			if h.node == down || !(stale || newest) {
				continue
			}
			rep.Cover("InstallStale")
			_, err := c.install(h.node, mkAuthority(h.auth, h.node, false), callTimeout)
			if err == nil {
				installed[h.node] = h.auth
			}
		case r < 62: // a new command on a node that believes it is the leader
			var cands []ch.NodeID
			for n := range installed {
				if n != down {
					cands = append(cands, n)
				}
			}
			if len(cands) == 0 {
				continue
			}
			sortNodes(cands)
			n := pick(cands)
			cmdSeq++
			cmd := mkCommand(cmdSeq, 1+rng.Intn(3), installed[n].ChannelEpoch, 0)
			history = append(history, issued{cmd: cmd, node: n, auth: installed[n], seq: cmdSeq})
			if rng.Intn(8) == 0 {
				// every follower reply of this round is lost: the proposal stays pending with an unknown
				// outcome; it is then retried with identical or with changed content
				for _, v := range voters {
					if v != n {
						c.setDrop(n, v, true)
					}
				}
				rep.Cover("CommitRepliesLost")
				doCommit(n, installed[n], cmd, false)
				c.healAll()
				if rng.Intn(2) == 0 {
					doCommit(n, installed[n], mkCommand(cmdSeq, len(cmd.records), installed[n].ChannelEpoch, 7), true)
				}
				doCommit(n, installed[n], cmd, false)
				continue
			}
			doCommit(n, installed[n], cmd, false)
		case r < 64 && len(history) > 0: // a proposal that still expects an OLDER authority of the same node
			h := history[rng.Intn(len(history))]
			cur, ok := installed[h.node]
			if !ok || h.node == down || cur == h.auth {
				continue
			}
			cmdSeq++
			cmd := mkCommand(cmdSeq, 1, h.auth.ChannelEpoch, 0)
			rep.Cover("CommitStaleExpectation")
			doCommit(h.node, h.auth, cmd, false)
		case r < 72 && len(history) > 0: // retry: identical content, or the same command id with changed content
			h := history[rng.Intn(len(history))]
			if h.node == down {
				continue
			}
			cur, ok := installed[h.node]
			if !ok {
				cur = h.auth
			}
			if rng.Intn(3) == 0 {
				changedCmd := mkCommand(h.seq, len(h.cmd.records), h.auth.ChannelEpoch, 7)
				rep.Cover("CommitChanged")
				doCommit(h.node, cur, changedCmd, true)
			} else {
				rep.Cover("CommitRetry")
				doCommit(h.node, cur, h.cmd, false)
			}
		case r < 78: // concurrent: a (possibly deposed) leader commits while another node installs
			var cands []ch.NodeID
			for n := range installed {
				if n != down {
					cands = append(cands, n)
				}
			}
			if len(cands) == 0 {
				continue
			}
			sortNodes(cands)
			old := pick(cands)
			var others []ch.NodeID
			for _, v := range upNodes() {
				if v != old {
					others = append(others, v)
				}
			}
			nn := pick(others)
			id := newAuth()
			lastLeader = nn
			cmdSeq++
			cmd := mkCommand(cmdSeq, 1, installed[old].ChannelEpoch, 0)
			oldAuth := installed[old]
			history = append(history, issued{cmd: cmd, node: old, auth: oldAuth, seq: cmdSeq})
			rep.Cover("ConcurrentCommitInstall")
			var wg sync.WaitGroup
			wg.Add(2)
			var instErr error
			go func() { defer wg.Done(); _, _ = c.commit(old, oldAuth, cmd, false, callTimeout) }()
			go func() { defer wg.Done(); _, instErr = c.install(nn, mkAuthority(id, nn, false), callTimeout) }()
			wg.Wait()
			if instErr == nil {
				installed[nn] = id
			} else if cls := errClass(instErr); cls != "stale" && cls != "invalid" {
				delete(installed, nn)
			}
		case r < 88: // change the partition
			rep.Cover("Partition")
			c.healAll()
			switch rng.Intn(6) {
			case 0: // isolate one node completely
				x := pick(voters)
				for _, v := range voters {
					if v != x {
						c.setReach(x, v, false)
						c.setReach(v, x, false)
					}
				}
			case 1: // one direction of one pair
				a, b := pick(voters), pick(voters)
				if a != b {
					c.setReach(a, b, false)
				}
			case 2: // replies lost on one pair
				a, b := pick(voters), pick(voters)
				if a != b {
					c.setDrop(a, b, true)
				}
			case 3: // two pairs cut
				for k := 0; k < 2; k++ {
					a, b := pick(voters), pick(voters)
					if a != b {
						c.setReach(a, b, false)
						c.setReach(b, a, false)
					}
				}
			case 4: // a minority group {a, b} (connected to each other) split from the rest
				a, b := pick(voters), pick(voters)
				for _, v := range voters {
					if v != a && v != b {
						for _, m := range []ch.NodeID{a, b} {
							c.setReach(m, v, false)
							c.setReach(v, m, false)
						}
					}
				}
			default: // healed
			}
		case r < 90 && lastLeader != 0 && down == 0: // owner restart of the newest leader + same-authority re-install + retries
			n := lastLeader
			cur, ok := installed[n]
			if !ok || cur != (replication.AuthorityID{ChannelEpoch: epoch, LeaderTerm: term, FenceVersion: fv}) {
				continue
			}
			rep.Cover("OwnerRestartReinstall")
			c.crash(n)
			if err := c.restart(n); err != nil {
				return err
			}
			delete(installed, n)
			if _, err := c.install(n, mkAuthority(cur, n, false), callTimeout); err != nil {
				continue
			}
			installed[n] = cur
			for k := len(history) - 1; k >= 0 && k >= len(history)-6; k-- {
				if h := history[k]; h.node == n && h.auth == cur {
					if rng.Intn(3) == 0 {
						doCommit(n, cur, mkCommand(h.seq, len(h.cmd.records), h.auth.ChannelEpoch, 7), true)
					}
					doCommit(n, cur, h.cmd, false)
				}
			}
		case r < 94: // crash or restart (at most one replica down)
			if down == 0 {
				down = pick(voters)
				rep.Cover("Crash")
				c.crash(down)
				delete(installed, down)
			} else {
				rep.Cover("Restart")
				if err := c.restart(down); err != nil {
					return err
				}
				down = 0
			}
		default: // let trailing replication and follower repair run
			time.Sleep(time.Duration(1+rng.Intn(4)) * time.Millisecond)
		}
	}
	return nil
}

func sortNodes(xs []ch.NodeID) {
	for i := 1; i < len(xs); i++ {
		for j := i; j > 0 && xs[j] < xs[j-1]; j-- {
			xs[j], xs[j-1] = xs[j-1], xs[j]
		}
	}
}

// scriptedMinorityRepair records (and has TLC validate) the schedule in which an entry that never
// reached a write quorum is spread by the leader's trailing repair to ONE follower, after which the
// other three voters elect a new leader that rewrites that offset.  Five voters, quorum 3.
//
//	Install(L); Commit(P1) on everyone; L cut from all followers; Commit(P2) fails (durable on L only);
//	one follower F reachable again -> trailing repair copies P2 to F (2 of 5 holders);
//	{L, F} cut from the rest; Install(L2) on a third voter answered by the other three; Commit(P3).
//
// The specification's judgement is the trace module's: no replica's committed frontier may cover an
// offset that a write quorum does not hold (C02_CommittedHeldByQuorum), committed prefixes agree
// (C02_Agreement).  Which nodes play L, F, L2 is drawn from rng.
func scriptedMinorityRepair(rng *rand.Rand, rep *kit.Report, rec *kit.Recorder) error {
	c, err := newCluster(rec, memFactory, time.Hour, 2, 1<<20)
	if err != nil {
		return err
	}
	defer c.close()
	rec.Begin(map[string]any{"cfg": map[string]any{"hedge_ms": int64(time.Hour / time.Millisecond), "retained": 2, "scripted": "minority-repair"}}, nil)
	perm := rng.Perm(len(voters))
	L, F, L2 := voters[perm[0]], voters[perm[1]], voters[perm[2]]
	a1 := replication.AuthorityID{ChannelEpoch: 1, LeaderTerm: 1, FenceVersion: 1}
	if _, err := c.install(L, mkAuthority(a1, L, false), callTimeout); err != nil {
		return fmt.Errorf("install L: %w", err)
	}
	seq := 100 + rng.Intn(800)
	if _, err := c.commit(L, a1, mkCommand(seq, 1, 1, 0), false, callTimeout); err != nil {
		return fmt.Errorf("commit P1: %w", err)
	}
	waitLEO := func(n ch.NodeID, want uint64) bool {
		for i := 0; i < 400; i++ {
			if v, err := c.view(n); err == nil && v.leo >= want {
				return true
			}
			time.Sleep(5 * time.Millisecond)
		}
		return false
	}
	for _, v := range voters {
		if !waitLEO(v, 1) {
			return fmt.Errorf("P1 did not reach node %d", v)
		}
	}
	for _, v := range voters {
		if v != L {
			c.setReach(L, v, false)
			c.setReach(v, L, false)
		}
	}
	_, _ = c.commit(L, a1, mkCommand(seq+1, 1+rng.Intn(2), 1, 0), false, 1500*time.Millisecond)
	if !waitLEO(L, 2) {
		return fmt.Errorf("P2 not durable on the leader")
	}
	c.setReach(L, F, true)
	c.setReach(F, L, true)
	if !waitLEO(F, 2) {
		rep.AddExtra("minority_repair_not_observed", 1)
	} else {
		rep.Cover("MinorityTrailingRepair")
	}
	for _, m := range []ch.NodeID{L, F} {
		for _, v := range voters {
			if v != L && v != F {
				c.setReach(m, v, false)
				c.setReach(v, m, false)
			}
		}
	}
	a2 := replication.AuthorityID{ChannelEpoch: 1, LeaderTerm: 2, FenceVersion: 1}
	if _, err := c.install(L2, mkAuthority(a2, L2, false), callTimeout); err != nil {
		return nil // the majority could not install (fail-closed is allowed); the recorded prefix is still validated
	}
	_, _ = c.commit(L2, a2, mkCommand(seq+2, 1, 1, 0), false, callTimeout)
	_, _ = c.commit(L2, a2, mkCommand(seq+3, 1, 1, 0), false, callTimeout)
	c.healAll()
	time.Sleep(30 * time.Millisecond)
	rep.Replayed(1)
	return nil
}

// ---- scripted schedules (TLC counterexamples replayed on the real cluster) -----------------------

type scenarioCtx struct {
	c   *cluster
	rep *kit.Report
	log []string
}

func (s *scenarioCtx) note(format string, a ...any) { s.log = append(s.log, fmt.Sprintf(format, a...)) }

func newScenario(rep *kit.Report) (*scenarioCtx, error) {
	rec, _ := kit.NewRecorder("")
	// one retained command: every retry of an older command goes through the durable command index
	c, err := newCluster(rec, memFactory, time.Hour, 1, 1<<20)
	if err != nil {
		return nil, err
	}
	return &scenarioCtx{c: c, rep: rep}, nil
}

func aid(term uint64) replication.AuthorityID {
	return replication.AuthorityID{ChannelEpoch: 1, LeaderTerm: term, FenceVersion: 1}
}

// isolate makes exchanges between x and every other node fail in both directions.
func (s *scenarioCtx) isolate(x ch.NodeID) {
	for _, v := range voters {
		if v != x {
			s.c.setReach(x, v, false)
			s.c.setReach(v, x, false)
		}
	}
}

func runScenarios(env kit.Env, rep *kit.Report) {
	for _, sc := range []struct {
		name string
		run  func(*scenarioCtx) error
	}{
		{"F1a_ack_on_bare_quorum_then_failover_probe_misses_holder", scenarioF1a},
		{"F2_deferred_barrier_ack_during_install", scenarioF2},
		{"S_ack_then_failover_with_full_probe", scenarioFailoverKeepsAcked},
		{"S_local_suffix_above_committed_is_not_cut", scenarioFailClosedSuffix},
		{"V_minority_tail_is_not_selected", scenarioMinorityTail},
		{"C04_deposed_and_fenced_authority", scenarioAuthorityFencing},
		{"C01_write_quorum_must_intersect", scenarioNonIntersectingQuorum},
		{"C03_retry_after_eviction_and_restart", scenarioRetryStability},
	} {
		s, err := newScenario(rep)
		if err != nil {
			rep.Infra("scenario %s: %v", sc.name, err)
			continue
		}
		if err := sc.run(s); err != nil {
			rep.Infra("scenario %s: %v", sc.name, err)
		}
		s.c.close()
		rep.Replayed(len(s.log))
		rep.Cover("scenario:" + sc.name)
		rep.Sample(map[string]any{"scenario": sc.name, "schedule": s.log})
	}
}

func (s *scenarioCtx) mustInstall(n ch.NodeID, term uint64) (replication.Installed, error) {
	inst, err := s.c.install(n, mkAuthority(aid(term), n, false), callTimeout)
	s.note("Install(node %d, term %d) -> %+v, %v", n, term, inst, err)
	return inst, err
}

func (s *scenarioCtx) views() map[ch.NodeID]replicaView {
	out := map[ch.NodeID]replicaView{}
	for _, v := range voters {
		view, err := s.c.view(v)
		if err != nil {
			s.rep.Infra("view node %d: %v", v, err)
		}
		out[v] = view
	}
	return out
}

func holders(views map[ch.NodeID]replicaView, index uint64, id string) int {
	n := 0
	for _, v := range views {
		if uint64(len(v.ids)) >= index && v.ids[index-1] == id {
			n++
		}
	}
	return n
}

// F1a (TLC: MC_asis.cfg, C01_AckedStays). Entry acknowledged on {1,2}; node 1 unreachable; Install on
// node 2 answered by {2,3}.  Specification with the repair (FixF1): the probe is incomplete (a silent
// voter plus a non-empty reporter could form a write quorum), Install fails closed, node 2 keeps the
// entry.  The pinned tree before the repair returned Installed{LEO:0} and wiped node 2's log.
func scenarioF1a(s *scenarioCtx) error {
	if _, err := s.mustInstall(1, 1); err != nil {
		return fmt.Errorf("setup install: %w", err)
	}
	// commit on the bare quorum {1,2}: node 3 does not receive it
	s.c.setReach(1, 3, false)
	cmd := mkCommand(1, 1, 1, 0)
	rc, err := s.c.commit(1, aid(1), cmd, false, callTimeout)
	s.note("Commit(node 1, cmd 1) with 1->3 cut -> %+v, %v", rc, err)
	if err != nil {
		return fmt.Errorf("setup commit: %w", err)
	}
	before := s.views()
	ackID := before[1].ids[0]
	if holders(before, 1, ackID) != 2 || len(before[3].ids) != 0 {
		return fmt.Errorf("setup: expected the entry on {1,2} only, got %+v", before)
	}
	s.isolate(1)
	inst, ierr := s.mustInstall(2, 2)
	after := s.views()
	if holders(after, 1, ackID) < 2 {
		s.rep.ViolateSig("C01", "scenario", fmt.Sprintf(
			"acknowledged entry (receipt %+v) is left on %d replica(s) after Install(node 2, term 2) answered by {2,3} returned %+v, %v",
			rc, holders(after, 1, ackID), inst, ierr),
			"C01:F1-install-replaces-nonempty-local-log-by-empty-selection", map[string]any{"scenario": "F1a", "schedule": s.log, "after": fmt.Sprint(after)})
		return nil
	}
	if ierr == nil && inst.LEO < rc.Last {
		s.rep.Violate("C01", "scenario", fmt.Sprintf("node 2 became writable with LEO %d below acknowledged sequence %d", inst.LEO, rc.Last),
			map[string]any{"scenario": "F1a", "schedule": s.log})
	}
	return nil
}

// F2 (TLC: MC_f2.cfg, C01_WritableHoldsAcked). Install on node 2 proves an all-empty log and is parked
// before its repair step; the old leader (node 1) then gets its first proposal acknowledged on {1,3};
// the parked Install returns Installed{LEO:0} although an entry of an older authority was
// acknowledged before it returned.  Known finding (deferred barrier; no follower fencing).
func scenarioF2(s *scenarioCtx) error {
	if _, err := s.mustInstall(1, 1); err != nil {
		return fmt.Errorf("setup install: %w", err)
	}
	// park node 2's second plain local Load (= the repair step's re-read of the local frontier)
	var mu sync.Mutex
	plainLoads := 0
	s.c.parkMu.Lock()
	s.c.parkRule = func(op parkOp) bool {
		if op.node != 2 || op.kind != "Load" || !op.plain {
			return false
		}
		mu.Lock()
		defer mu.Unlock()
		plainLoads++
		return plainLoads == 2
	}
	s.c.parkMu.Unlock()
	type instRes struct {
		inst replication.Installed
		err  error
	}
	done := make(chan instRes, 1)
	go func() {
		inst, err := s.c.install(2, mkAuthority(aid(2), 2, false), 20*time.Second)
		done <- instRes{inst, err}
	}()
	var parked *parkedCall
	select {
	case parked = <-s.c.parked:
		s.note("Install(node 2, term 2) parked after its all-empty probe, before repair")
	case r := <-done:
		return fmt.Errorf("install returned before reaching the repair step: %+v %v", r.inst, r.err)
	case <-time.After(15 * time.Second):
		return fmt.Errorf("install never reached the repair step")
	}
	s.c.parkMu.Lock()
	s.c.parkRule = nil
	s.c.parkMu.Unlock()
	// the deposed leader commits its first proposal on {1,3}
	s.c.setReach(1, 2, false)
	cmd := mkCommand(1, 1, 1, 0)
	rc, cerr := s.c.commit(1, aid(1), cmd, false, callTimeout)
	s.note("Commit(node 1 under term 1) with 1->2 cut -> %+v, %v", rc, cerr)
	close(parked.release)
	var r instRes
	select {
	case r = <-done:
	case <-time.After(20 * time.Second):
		return fmt.Errorf("install did not return after release")
	}
	s.note("released: Install(node 2, term 2) -> %+v, %v", r.inst, r.err)
	if cerr == nil && r.err == nil && r.inst.LEO < rc.Last {
		s.rep.ViolateSig("C01", "scenario", fmt.Sprintf(
			"node 2 became writable under term 2 with LEO %d although sequence %d of term 1 was acknowledged before Install returned", r.inst.LEO, rc.Last),
			"C01:F2-deferred-barrier-on-empty-log-ack-during-install", map[string]any{"scenario": "F2", "schedule": s.log})
	}
	return nil
}

// Failover after an acknowledged append, every voter answers the probe: the new leader must come up
// holding the entry and must have written its authority barrier (non-empty foreign frontier).
func scenarioFailoverKeepsAcked(s *scenarioCtx) error {
	if _, err := s.mustInstall(1, 1); err != nil {
		return err
	}
	s.c.setReach(1, 3, false)
	rc, err := s.c.commit(1, aid(1), mkCommand(1, 2, 1, 0), false, callTimeout)
	s.note("Commit(node 1, 2 records) on {1,2} -> %+v, %v", rc, err)
	if err != nil {
		return err
	}
	before := s.views()
	s.c.healAll()
	s.c.crash(1)
	s.note("Crash(node 1)")
	inst, ierr := s.mustInstall(3, 2) // node 3 is the laggard
	if ierr != nil {
		// failing closed is allowed by the property; becoming writable without the entry is not
		return nil
	}
	after := s.views()
	for i := uint64(1); i <= rc.Last; i++ {
		if uint64(len(after[3].ids)) < i || after[3].ids[i-1] != before[1].ids[i-1] {
			s.rep.Violate("C01", "scenario", fmt.Sprintf("laggard node 3 became writable (%+v) without acknowledged sequence %d", inst, i),
				map[string]any{"scenario": "failover", "schedule": s.log, "after": fmt.Sprint(after)})
			return nil
		}
	}
	if inst.LEO != rc.Last+1 {
		s.rep.Violate("C01", "scenario", fmt.Sprintf("installed frontier %+v: expected the recovered prefix plus one authority barrier (LEO %d)", inst, rc.Last+1),
			map[string]any{"scenario": "failover", "schedule": s.log})
	}
	// and the new leader's first append lands right after the barrier
	rc2, err := s.c.commit(3, aid(2), mkCommand(2, 1, 1, 0), false, callTimeout)
	s.note("Commit(node 3 under term 2) -> %+v, %v", rc2, err)
	if err == nil && rc2.First != inst.LEO+1 {
		s.rep.Violate("C03", "scenario", fmt.Sprintf("receipt %+v does not start right after the installed log end %d", rc2, inst.LEO),
			map[string]any{"scenario": "failover", "schedule": s.log})
	}
	return nil
}

// A replica holding an unacknowledged suffix directly above its committed watermark that the quorum
// does not have: Install on it must either keep the suffix out of the selected log by failing closed
// (ErrLogConflict) or repair to the quorum prefix — it must never acknowledge/keep a minority entry as
// committed, and committed must never exceed what a quorum holds.
func scenarioFailClosedSuffix(s *scenarioCtx) error {
	if _, err := s.mustInstall(1, 1); err != nil {
		return err
	}
	rc, err := s.c.commit(1, aid(1), mkCommand(1, 1, 1, 0), false, callTimeout)
	s.note("Commit(node 1) on all -> %+v, %v", rc, err)
	if err != nil {
		return err
	}
	time.Sleep(20 * time.Millisecond) // trailing follower
	// second proposal reaches node 1's local store only
	s.isolate(1)
	rc2, err2 := s.c.commit(1, aid(1), mkCommand(2, 1, 1, 0), false, 2*time.Second)
	s.note("Commit(node 1) isolated -> %+v, %v", rc2, err2)
	if err2 == nil {
		s.rep.Violate("C01", "scenario", "append acknowledged by an isolated leader (no follower vote possible)",
			map[string]any{"scenario": "suffix", "schedule": s.log})
		return nil
	}
	s.c.healAll()
	inst, ierr := s.mustInstall(2, 2)
	after := s.views()
	if ierr == nil {
		// node 1's unacknowledged second entry must not have been adopted as committed anywhere
		for _, v := range voters {
			if after[v].committed > after[v].leo {
				s.rep.Violate("C02", "scenario", fmt.Sprintf("node %d committed %d above its log end %d", v, after[v].committed, after[v].leo),
					map[string]any{"scenario": "suffix", "schedule": s.log})
			}
		}
		_ = inst
	}
	return nil
}

// Rehearsal of V_SelectMaxLEO: the longest log is a minority tail held by an unreachable node.
// Install on node 2 answered by {2,3} must select the quorum prefix (empty, and provably so: one
// silent voter cannot form a write quorum), never node 1's unacknowledged entry.  Node 1 stays
// isolated until the end so that its follower repair cannot spread the entry meanwhile.
func scenarioMinorityTail(s *scenarioCtx) error {
	if _, err := s.mustInstall(1, 1); err != nil {
		return err
	}
	s.isolate(1)
	_, err2 := s.c.commit(1, aid(1), mkCommand(1, 1, 1, 0), false, 2*time.Second)
	s.note("Commit(node 1) isolated (entry on node 1 only) -> %v", err2)
	if err2 == nil {
		s.rep.Violate("C01", "scenario", "append acknowledged by an isolated leader (no follower vote possible)",
			map[string]any{"scenario": "minority-tail", "schedule": s.log})
		return nil
	}
	before := s.views()
	inst, ierr := s.mustInstall(2, 2)
	after := s.views()
	if len(before[1].ids) == 1 && len(after[2].ids) >= 1 && after[2].ids[0] == before[1].ids[0] {
		s.rep.Violate("C01", "scenario", fmt.Sprintf("Install(node 2) %+v, %v adopted an entry held only by the unreachable node 1", inst, ierr),
			map[string]any{"scenario": "minority-tail", "schedule": s.log, "after": fmt.Sprint(after)})
	}
	if ierr == nil && inst.LEO != 0 {
		s.rep.Violate("C01", "scenario", fmt.Sprintf("Install(node 2) answered by two empty replicas returned %+v", inst),
			map[string]any{"scenario": "minority-tail", "schedule": s.log})
	}
	return nil
}


// C04 on one owner: an older authority can never be installed again, an equal authority id with a
// different configuration is refused, proposals expecting the deposed authority are rejected, and a
// write-fenced authority admits nothing.
func scenarioAuthorityFencing(s *scenarioCtx) error {
	if _, err := s.mustInstall(1, 1); err != nil {
		return err
	}
	if _, err := s.c.commit(1, aid(1), mkCommand(1, 1, 1, 0), false, callTimeout); err != nil {
		return fmt.Errorf("setup commit: %w", err)
	}
	inst2, err := s.mustInstall(1, 3)
	if err != nil {
		return fmt.Errorf("setup install term 3: %w", err)
	}
	// older authority again (term 2 < 3, never seen before) and the original one
	for _, term := range []uint64{2, 1} {
		inst, err := s.mustInstall(1, term)
		if err == nil {
			s.rep.Violate("C04", "scenario", fmt.Sprintf("Install of older authority term %d succeeded (%+v) after term 3 was installed", term, inst),
				map[string]any{"scenario": "authority-fencing", "schedule": s.log})
			return nil
		}
	}
	// a proposal expecting the deposed authority
	rc, err := s.c.commit(1, aid(1), mkCommand(2, 1, 1, 0), false, callTimeout)
	s.note("Commit(node 1, expected term 1) after term 3 -> %+v, %v", rc, err)
	if err == nil {
		s.rep.Violate("C04", "scenario", fmt.Sprintf("append proposed under deposed authority term 1 was acknowledged: %+v", rc),
			map[string]any{"scenario": "authority-fencing", "schedule": s.log})
		return nil
	}
	// the owner must still be writable under term 3 (the refused installs changed nothing)
	rc3, err := s.c.commit(1, aid(3), mkCommand(3, 1, 1, 0), false, callTimeout)
	s.note("Commit(node 1, expected term 3) -> %+v, %v", rc3, err)
	if err != nil {
		s.rep.Violate("C04", "scenario", fmt.Sprintf("refused stale Install changed the owner: append under the current authority failed: %v", err),
			map[string]any{"scenario": "authority-fencing", "schedule": s.log})
		return nil
	}
	if rc3.First != inst2.LEO+1 || rc3.Authority != aid(3) {
		s.rep.Violate("C03", "scenario", fmt.Sprintf("receipt %+v: expected first = %d under term 3", rc3, inst2.LEO+1),
			map[string]any{"scenario": "authority-fencing", "schedule": s.log})
	}
	// same authority id, other write quorum -> refused, still writable
	other := mkAuthority(aid(3), 1, false)
	other.WriteQuorum = 3
	if inst, err := s.c.install(1, other, callTimeout); err == nil {
		s.rep.Violate("C04", "scenario", fmt.Sprintf("same authority id with a different configuration was installed: %+v", inst),
			map[string]any{"scenario": "authority-fencing", "schedule": s.log})
		return nil
	}
	// write fence: newer authority with the fence set admits nothing
	_, ferr := s.c.install(1, mkAuthority(aid(4), 1, true), callTimeout)
	s.note("Install(node 1, term 4, write fence set) -> %v", ferr)
	rc4, err := s.c.commit(1, aid(4), mkCommand(4, 1, 1, 0), false, callTimeout)
	s.note("Commit(node 1, expected term 4) under write fence -> %+v, %v", rc4, err)
	if ferr == nil || err == nil {
		s.rep.Violate("C04", "scenario", fmt.Sprintf("write-fenced authority admitted work: install err=%v, receipt %+v err=%v", ferr, rc4, err),
			map[string]any{"scenario": "authority-fencing", "schedule": s.log})
	}
	rc5, err := s.c.commit(1, aid(3), mkCommand(5, 1, 1, 0), false, callTimeout)
	if err == nil {
		s.rep.Violate("C04", "scenario", fmt.Sprintf("append under term 3 acknowledged after term 4 fenced the owner: %+v", rc5),
			map[string]any{"scenario": "authority-fencing", "schedule": s.log})
	}
	return nil
}


// The model's ASSUME 2*Q > N: a write quorum that does not intersect every other quorum cannot keep
// C01 (an entry acknowledged on Q replicas must survive the outage of N-Q of them, i.e. be held by
// N-Q+1).  With voters {1,2} and write quorum 1 an acknowledgement needs only the leader; the code is
// expected to refuse such an authority.  If it is accepted the schedule goes on to the loss.
func scenarioNonIntersectingQuorum(s *scenarioCtx) error {
	a := mkAuthority(aid(1), 1, false)
	a.Voters = []ch.NodeID{1, 2}
	a.WriteQuorum = 1
	inst, err := s.c.install(1, a, callTimeout)
	s.note("Install(node 1, voters {1,2}, write quorum 1) -> %+v, %v", inst, err)
	if err != nil {
		return nil // refused: nothing can be acknowledged under it
	}
	s.isolate(1)
	rc, cerr := s.c.commit(1, aid(1), mkCommand(1, 1, 1, 0), false, 2*time.Second)
	s.note("Commit(node 1) isolated -> %+v, %v", rc, cerr)
	if cerr == nil {
		views := s.views()
		h := 0
		for _, v := range []ch.NodeID{1, 2} {
			if uint64(len(views[v].ids)) >= rc.Last {
				h++
			}
		}
		if h < 2 {
			s.rep.Violate("C01", "scenario", fmt.Sprintf(
				"append acknowledged (%+v) while held by %d of the 2 voters under write quorum 1: an outage of voters-quorum = 1 replica loses it", rc, h),
				map[string]any{"scenario": "non-intersecting-quorum", "schedule": s.log})
		}
	}
	return nil
}


// C03: retries are answered from the retained ring, after eviction from the durable command index,
// and after an owner restart + re-Install of the same authority — always with the original range,
// storing nothing again; changed content under a used command id is rejected on each of these paths.
func scenarioRetryStability(s *scenarioCtx) error {
	if _, err := s.mustInstall(1, 1); err != nil {
		return err
	}
	cmds := []command{mkCommand(1, 3, 1, 0), mkCommand(2, 1, 1, 0), mkCommand(3, 2, 1, 0), mkCommand(4, 1, 1, 0)}
	seqs := []int{1, 2, 3, 4}
	var first []replication.Receipt
	next := uint64(1)
	for i, cmd := range cmds {
		rc, err := s.c.commit(1, aid(1), cmd, false, callTimeout)
		s.note("Commit(cmd %d, %d records) -> %+v, %v", i+1, len(cmd.records), rc, err)
		if err != nil {
			return fmt.Errorf("setup commit %d: %w", i+1, err)
		}
		if rc.First != next || rc.Last != next+uint64(len(cmd.records))-1 {
			s.rep.Violate("C03", "scenario", fmt.Sprintf("receipt %+v of command %d: expected [%d,%d] right after the previous log end", rc, i+1, next, next+uint64(len(cmd.records))-1),
				map[string]any{"scenario": "retry-stability", "schedule": s.log})
			return nil
		}
		next = rc.Last + 1
		first = append(first, rc)
	}
	time.Sleep(20 * time.Millisecond) // trailing follower
	check := func(phase string) bool {
		before := s.views()
		for i, cmd := range cmds {
			rc, err := s.c.commit(1, aid(1), cmd, false, callTimeout)
			s.note("%s: retry cmd %d -> %+v, %v", phase, i+1, rc, err)
			if err != nil {
				// a retry may fail closed; it must never return another range
				continue
			}
			if rc.First != first[i].First || rc.Last != first[i].Last || rc.CommandID != first[i].CommandID {
				s.rep.Violate("C03", "scenario", fmt.Sprintf("%s: retry of command %d returned %+v, the original receipt was %+v", phase, i+1, rc, first[i]),
					map[string]any{"scenario": "retry-stability", "schedule": s.log})
				return false
			}
			changed := mkCommand(seqs[i], len(cmd.records), 1, 9)
			if rc2, err2 := s.c.commit(1, aid(1), changed, true, callTimeout); err2 == nil {
				s.rep.Violate("C03", "scenario", fmt.Sprintf("%s: command id %d re-used with different content was acknowledged: %+v", phase, i+1, rc2),
					map[string]any{"scenario": "retry-stability", "schedule": s.log})
				return false
			}
		}
		after := s.views()
		for _, v := range voters {
			if after[v].leo != before[v].leo {
				s.rep.Violate("C03", "scenario", fmt.Sprintf("%s: retries stored again: node %d log end %d -> %d", phase, v, before[v].leo, after[v].leo),
					map[string]any{"scenario": "retry-stability", "schedule": s.log})
				return false
			}
		}
		return true
	}
	if !check("retained ring / evicted") {
		return nil
	}
	// a retry while the first attempt's outcome is unknown (pending proposal retained): every follower
	// reply is lost, so the round cannot finish; the identical retry must then return the range the
	// pending proposal was sealed on, and a changed-content retry must be rejected
	s.c.setDrop(1, 2, true)
	s.c.setDrop(1, 3, true)
	pend := mkCommand(9, 2, 1, 0)
	_, perr := s.c.commit(1, aid(1), pend, false, 3*time.Second)
	s.note("Commit(cmd 9) with every follower reply lost -> %v", perr)
	s.c.healAll()
	if perr != nil {
		if rcC, errC := s.c.commit(1, aid(1), mkCommand(9, 2, 1, 9), true, callTimeout); errC == nil {
			s.rep.Violate("C03", "scenario", fmt.Sprintf("changed content under the command id of a still-pending proposal was acknowledged: %+v", rcC),
				map[string]any{"scenario": "retry-stability", "schedule": s.log})
			return nil
		}
		rcP, errP := s.c.commit(1, aid(1), pend, false, callTimeout)
		s.note("identical retry of the pending command -> %+v, %v", rcP, errP)
		if errP == nil {
			if rcP.First != next || rcP.Last != next+1 {
				s.rep.Violate("C03", "scenario", fmt.Sprintf("retry of the pending command returned %+v, expected [%d,%d]", rcP, next, next+1),
					map[string]any{"scenario": "retry-stability", "schedule": s.log})
				return nil
			}
			cmds = append(cmds, pend)
			seqs = append(seqs, 9)
			first = append(first, rcP)
		}
	}
	s.c.crash(1)
	if err := s.c.restart(1); err != nil {
		return err
	}
	s.note("Crash(node 1); Restart(node 1)")
	if _, err := s.mustInstall(1, 1); err != nil {
		s.note("re-install of the same authority failed closed: %v", err)
		return nil
	}
	check("after owner restart")
	return nil
}

// ---- store contract under multi-mutation calls ---------------------------------------------------
//
// The cluster's recording store hands the inner store ONE mutation per call (each needs its own
// linearization point), so the store's handling of several mutations of one channel inside ONE call -
// where a later mutation is validated against a predecessor that is only staged - is driven here,
// directly at the exported store seam, and validated by the same Trace.tla store contract
// (SyncExpect): mutations of a call are judged one after the other, each against the log the
// previous ones left.  Shapes: the next proposal, a retry of a stored one, a sibling (same base,
// same term, other content) of a stored or just-staged proposal, and a proposal chained onto a sibling
// the store does not hold (same predecessor index and term, other digest).
func storeContractTrace(rng *rand.Rand, rep *kit.Report, rec *kit.Recorder, factory func() channelstore.Factory, steps int) error {
	f := factory()
	defer func() {
		if cl, ok := f.(interface{ Close() error }); ok {
			_ = cl.Close()
		}
	}()
	adapter, err := replication.NewStoreAdapter(replication.StoreAdapterConfig{Factory: f, MaxBatchItems: replication.MaxExchangeBatchItems, MaxBatchBytes: 4 << 20})
	if err != nil {
		return err
	}
	rec.Begin(map[string]any{"cfg": map[string]any{"hedge_ms": int64(0), "retained": 0, "scripted": "store-contract"}}, nil)
	c := &cluster{rec: rec}
	probe := &recStore{c: c, n: voters[0], inner: adapter}
	type sealed struct {
		m    replication.Mutation
		tail ch.EntryIdentity // identity of its last entry
	}
	seq := 1000 + rng.Intn(1000)*10
	seal := func(base uint64, prev ch.EntryIdentity, nrec int) (sealed, bool) {
		seq++
		cmd := mkCommand(seq, nrec, 1, 0)
		manifest, ids, ok := ch.SealProposalManifest(ch.ProposalManifest{
			Version: ch.ProposalManifestVersion, ChannelEpoch: 1, LeaderTerm: 1, FenceVersion: 1,
			CommandID: cmd.id, BaseOffset: base, LastOffset: base + uint64(nrec),
			PreviousTerm: prev.LeaderTerm, PreviousIndex: base, PreviousDigest: prev.Digest,
		}, cmd.records)
		if !ok || len(ids) != nrec {
			return sealed{}, false
		}
		return sealed{m: replication.Mutation{ChannelKey: chanKey, ChannelID: chanID, Manifest: manifest, Records: cmd.records,
			Class: replication.MutationClassTrailing, ServerAllocatedMessageIDs: cmd.serverAlloc}, tail: ids[nrec-1]}, true
	}
	// what the harness believes is stored: proposals in order (the specification decides; this only
	// steers generation)
	var stored []sealed
	var siblings []sealed // sealed but never offered as "next": same base/term as a stored proposal
	tailOf := func(ps []sealed) (uint64, ch.EntryIdentity) {
		if len(ps) == 0 {
			return 0, ch.EntryIdentity{}
		}
		last := ps[len(ps)-1]
		return last.m.Manifest.LastOffset, last.tail
	}
	for s := 0; s < steps; s++ {
		staged := append([]sealed(nil), stored...)
		var call []sealed
		for k, n := 0, 1+rng.Intn(3); k < n; k++ {
			end, tail := tailOf(staged)
			var p sealed
			ok := false
			switch r := rng.Intn(10); {
			case r < 4 || len(staged) == 0: // the next proposal
				if p, ok = seal(end, tail, 1+rng.Intn(2)); ok {
					staged = append(staged, p)
				}
			case r < 5: // retry of a stored / staged proposal
				p, ok = staged[rng.Intn(len(staged))], true
			case r < 7: // a sibling of the last stored / staged proposal: same base and term, other content
				last := staged[len(staged)-1]
				_, prevTail := tailOf(staged[:len(staged)-1])
				if p, ok = seal(last.m.Manifest.BaseOffset, prevTail, len(last.m.Records)); ok {
					siblings = append(siblings, p)
				}
			default: // chained onto a sibling the store does not hold (index and term match, digest differs)
				var cands []sealed
				for _, sb := range siblings {
					if sb.m.Manifest.LastOffset == end && sb.tail.Digest != tail.Digest {
						cands = append(cands, sb)
					}
				}
				if len(cands) == 0 {
					last := staged[len(staged)-1]
					_, prevTail := tailOf(staged[:len(staged)-1])
					sb, sok := seal(last.m.Manifest.BaseOffset, prevTail, len(last.m.Records))
					if !sok {
						continue
					}
					siblings = append(siblings, sb)
					cands = append(cands, sb)
				}
				sb := cands[rng.Intn(len(cands))]
				p, ok = seal(end, sb.tail, 1)
				rep.Cover("StoreCallChainedOnAbsentSibling")
			}
			if ok {
				call = append(call, p)
			}
		}
		if len(call) == 0 {
			continue
		}
		// Committed stays 0: a single store has no quorum that could have proven a frontier (the trace
		// module's C02_CommittedHeldByQuorum would rightly object); the subject here is the chain.
		muts := make([]replication.Mutation, len(call))
		for i, p := range call {
			muts[i] = p.m
		}
		res := adapter.Sync(context.Background(), muts)
		if len(res) != len(muts) {
			return fmt.Errorf("store answered %d results for %d mutations", len(res), len(muts))
		}
		rep.Cover(fmt.Sprintf("StoreCall/%d", len(muts)))
		post := probe.state()
		for i, m := range muts {
			st := map[string]any{"leo": int64(0), "cm": int64(0), "tail": "", "part": true}
			if i == len(muts)-1 {
				st = post
			}
			c.event(kit.Ev("Sync", "n", int(voters[0]), "cls", "trailing", "base", int64(m.Manifest.BaseOffset),
				"prev", dig(m.Manifest.PreviousDigest), "ents", entriesOf(m.Manifest, m.Records), "cm", int64(m.Committed),
				"res", map[string]any{"out": outcomeName(res[i].Outcome)}, "st", st))
			if res[i].Outcome == ch.AppendOutcomeDurable {
				stored = append(stored, call[i])
			}
		}
	}
	rep.Replayed(1)
	return nil
}

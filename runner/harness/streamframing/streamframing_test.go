package streamframing

// Conformance harness for specs/StreamFraming (property C23, FIRST SENTENCE ONLY: valid encoded
// frames, arbitrary chunk splits).  External package of the runner module; exported API only:
// wkproto.Adapter.Decode fed the way pkg/gateway/core/server.go feeds it (append the chunk to the
// inbound buffer, call Decode, drop `consumed` bytes), frames produced by the real
// codec.WKProto.EncodeFrame for every negotiated protocol version (1..6 and "not negotiated").
//
// spec -> code: a TLC behaviour is a wire of frame kinds (P header-only, S one length byte,
// L multi-byte length prefix) and a sequence of Deliver(frame f, position class) / Decode steps
// with, for every Decode, the frames the specification's decoder yields.  The position classes
// are boundary-relative (H after the header byte, L inside the length prefix, P between prefix
// and body, D inside the body, B at the frame boundary); the harness draws really encoded
// frames of the given kinds and expands every class to every concrete byte offset of that
// class (full cross product when small, else one full sweep per cut with the other cuts at
// seeded representatives, plus seeded combinations).
//
// Compared after every Decode call: no error; the number of frames; every yielded frame is the
// original one at that position (same Go type, re-encodes to the original bytes); consumed is
// exactly the encoded length of the frames yielded (0 when none: no progress on an incomplete
// frame); and the projection (frames out so far, bytes pending).
//
// No code -> spec trace stage: Decode is a pure function of (version, buffer); a recorded call
// would be identical to a replayed step.  Arbitrary / mutated bytes (second sentence of C23)
// are NOT exercised here.

import (
	"bufio"
	"bytes"
	"encoding/json"
	"fmt"
	"math/rand"
	"os"
	"reflect"
	"strings"
	"testing"

	"github.com/WuKongIM/WuKongIM/pkg/gateway/protocol/wkproto"
	"github.com/WuKongIM/WuKongIM/pkg/gateway/session"
	"github.com/WuKongIM/WuKongIM/pkg/gateway/testkit"
	gatewaytypes "github.com/WuKongIM/WuKongIM/pkg/gateway/types"
	codec "github.com/WuKongIM/WuKongIM/pkg/protocol/codec"
	"github.com/WuKongIM/WuKongIM/pkg/protocol/frame"
	"verif/runner/kit"
)

const propID = "C23"

// ---- behaviours ----------------------------------------------------------------------------------

type step struct {
	Ev struct {
		A    string   `json:"a"`
		Wire []string `json:"wire"`
		F    int      `json:"f"`
		Cls  string   `json:"cls"`
		Res  *struct {
			Frames []int `json:"frames"`
		} `json:"res"`
	} `json:"ev"`
	St struct {
		Out     int  `json:"out"`
		Pending bool `json:"pending"`
	} `json:"st"`
}

type behaviour struct {
	Steps []step `json:"steps"`
	raw   json.RawMessage
}

func loadBehaviours(path string) ([]behaviour, error) {
	if path == "" {
		return nil, nil
	}
	f, err := os.Open(path)
	if err != nil {
		return nil, err
	}
	defer f.Close()
	var out []behaviour
	sc := bufio.NewScanner(f)
	sc.Buffer(make([]byte, 1<<20), 1<<28)
	for sc.Scan() {
		line := bytes.TrimSpace(sc.Bytes())
		if len(line) == 0 {
			continue
		}
		var b behaviour
		if err := json.Unmarshal(line, &b); err != nil {
			return nil, fmt.Errorf("behaviour %d: %w", len(out)+1, err)
		}
		b.raw = append(json.RawMessage(nil), line...)
		out = append(out, b)
	}
	return out, sc.Err()
}

// ---- concrete frames -----------------------------------------------------------------------------

var proto = codec.New()

func rstr(r *rand.Rand, n int) string {
	const al = "abcdefghijklmnopqrstuvwxyz0123456789-_@:/\x00\xff\x80"
	b := make([]byte, n)
	for i := range b {
		b[i] = al[r.Intn(len(al))]
	}
	return string(b)
}

func rbytes(r *rand.Rand, n int) []byte {
	b := make([]byte, n)
	r.Read(b)
	// bytes that look like headers / continuation bytes are the interesting content
	for i := 0; i < n; i += 1 + r.Intn(7) {
		b[i] = []byte{0x00, 0x80, 0xff, 0x30, 0x10, 0x7f, 0x81}[r.Intn(7)]
	}
	return b
}

func flags(r *rand.Rand) frame.Framer {
	return frame.Framer{NoPersist: r.Intn(2) == 0, RedDot: r.Intn(2) == 0, SyncOnce: r.Intn(2) == 0, DUP: r.Intn(2) == 0}
}

func seq(r *rand.Rand, version uint8) uint64 {
	if version <= frame.LegacyMessageSeqVersion || r.Intn(2) == 0 {
		return uint64(r.Uint32())
	}
	return r.Uint64()
}

func setting(r *rand.Rand) frame.Setting {
	var s frame.Setting
	for _, bit := range []frame.Setting{frame.SettingTopic, frame.SettingStream, frame.SettingNoEncrypt, frame.SettingReceiptEnabled} {
		if r.Intn(3) == 0 {
			s |= bit
		}
	}
	return s
}

// genFrame draws a frame whose body is about `body` bytes (pad is spread over its variable fields).
func genFrame(r *rand.Rand, version uint8, pad int) frame.Frame {
	split := func(n int) (int, int) {
		if n <= 0 {
			return 0, 0
		}
		a := r.Intn(n + 1)
		return a, n - a
	}
	switch r.Intn(11) {
	case 0:
		a, b := split(pad)
		if a > 30000 {
			a, b = 30000, pad-30000
		}
		if b > 30000 {
			b = 30000
		}
		return &frame.ConnectPacket{Version: uint8(1 + r.Intn(6)), DeviceFlag: frame.DeviceFlag(r.Intn(3)), DeviceID: rstr(r, 4),
			UID: rstr(r, 3), Token: rstr(r, a), ClientTimestamp: r.Int63(), ClientKey: rstr(r, b)}
	case 1, 2, 3:
		if pad > codec.PayloadMaxSize {
			pad = codec.PayloadMaxSize
		}
		a, b := split(pad)
		if r.Intn(2) == 0 || a > 30000 {
			a, b = 0, pad
		}
		return &frame.SendPacket{Framer: flags(r), Setting: setting(r), MsgKey: rstr(r, r.Intn(5)), Expire: r.Uint32(), ClientSeq: uint64(r.Uint32()),
			ClientMsgNo: rstr(r, a), StreamNo: rstr(r, 2), ChannelID: rstr(r, 1+r.Intn(4)), ChannelType: uint8(1 + r.Intn(12)), Topic: rstr(r, r.Intn(3)),
			Payload: rbytes(r, b)}
	case 4:
		return &frame.RecvackPacket{Framer: flags(r), MessageID: r.Int63(), MessageSeq: seq(r, version)}
	case 5:
		if pad > 30000 {
			pad = 30000
		}
		return &frame.DisconnectPacket{ReasonCode: frame.ReasonCode(r.Intn(20)), Reason: rstr(r, pad)}
	case 6:
		if pad > 30000 {
			pad = 30000
		}
		a, b := split(pad)
		return &frame.SubPacket{Framer: flags(r), Setting: setting(r), SubNo: rstr(r, 2), ChannelID: rstr(r, a), ChannelType: uint8(r.Intn(13)),
			Action: frame.Action(r.Intn(2)), Param: rstr(r, b)}
	case 7:
		return &frame.EventPacket{Framer: flags(r), Id: rstr(r, r.Intn(4)), Type: rstr(r, 1+r.Intn(6)), Timestamp: r.Int63(), Data: rbytes(r, pad)}
	case 8:
		if pad > 32000 {
			pad = 32000
		}
		return &frame.RecvPacket{Framer: flags(r), Setting: setting(r), MsgKey: rstr(r, r.Intn(5)), Expire: r.Uint32(), MessageID: r.Int63(),
			MessageSeq: seq(r, version), ClientMsgNo: rstr(r, r.Intn(6)), StreamNo: rstr(r, 2), StreamId: r.Uint64(), StreamFlag: frame.StreamFlag(r.Intn(3)),
			Timestamp: r.Int31(), ChannelID: rstr(r, 1+r.Intn(4)), ChannelType: uint8(1 + r.Intn(12)), Topic: rstr(r, r.Intn(3)), FromUID: rstr(r, 1+r.Intn(4)),
			Payload: rbytes(r, pad)}
	case 9:
		if pad > 30000 {
			pad = 30000
		}
		a, b := split(pad)
		return &frame.ConnackPacket{Framer: frame.Framer{HasServerVersion: r.Intn(2) == 0}, ServerVersion: uint8(1 + r.Intn(6)), ServerKey: rstr(r, a),
			Salt: rstr(r, b), TimeDiff: r.Int63(), ReasonCode: frame.ReasonCode(r.Intn(20)), NodeId: r.Uint64()}
	default:
		if pad > 30000 {
			pad = 30000
		}
		return &frame.SubackPacket{Framer: flags(r), SubNo: rstr(r, 2), ChannelID: rstr(r, pad), ChannelType: uint8(r.Intn(13)), Action: frame.Action(r.Intn(2)),
			ReasonCode: frame.ReasonCode(r.Intn(20))}
	}
}

// concrete is one really encoded frame with its layout.
type concrete struct {
	f      frame.Frame
	enc    []byte
	lenLen int // bytes of the length prefix (0 for PING/PONG)
}

func layoutOf(enc []byte) (int, bool) {
	if len(enc) == 1 {
		return 0, true
	}
	n := 0
	for i := 1; i < len(enc) && i <= 4; i++ {
		n++
		if enc[i]&0x80 == 0 {
			return n, true
		}
	}
	return 0, false
}

// draw produces an encoded frame of abstract kind k for the given encode version.
func draw(r *rand.Rand, k string, version uint8, big bool) (concrete, error) {
	for try := 0; try < 200; try++ {
		var f frame.Frame
		switch k {
		case "P":
			if r.Intn(2) == 0 {
				f = &frame.PingPacket{}
			} else {
				f = &frame.PongPacket{}
			}
		case "S":
			f = genFrame(r, version, r.Intn(60))
		case "L":
			pad := 110 + r.Intn(300)
			if big {
				pad = 16300 + r.Intn(16000) // three-byte length prefix
			}
			f = genFrame(r, version, pad)
		default:
			return concrete{}, fmt.Errorf("unknown frame kind %q", k)
		}
		enc, err := proto.EncodeFrame(f, version)
		if err != nil {
			return concrete{}, fmt.Errorf("EncodeFrame(%T, v%d): %v", f, version, err)
		}
		ll, ok := layoutOf(enc)
		if !ok {
			return concrete{}, fmt.Errorf("cannot read the length prefix of an encoded %T", f)
		}
		switch {
		case k == "P" && ll == 0, k == "S" && ll == 1, k == "L" && !big && ll == 2, k == "L" && big && ll == 3:
			return concrete{f: f, enc: append([]byte(nil), enc...), lenLen: ll}, nil
		}
	}
	return concrete{}, fmt.Errorf("no frame of kind %q found", k)
}

// offsets returns every concrete cut offset (relative to the frame start, = bytes of the frame
// delivered) of a position class; ok is false when the class does not exist in this frame.
func (c concrete) offsets(cls string, r *rand.Rand, capD int) []int {
	size := len(c.enc)
	switch cls {
	case "B":
		return []int{size}
	case "H":
		if size > 1 {
			return []int{1}
		}
	case "L":
		var out []int
		for o := 2; o < 1+c.lenLen; o++ {
			out = append(out, o)
		}
		return out
	case "P":
		if size > 1 && 1+c.lenLen < size {
			return []int{1 + c.lenLen}
		}
	case "D":
		lo, hi := 1+c.lenLen+1, size-1
		if hi < lo {
			return nil
		}
		if hi-lo+1 <= capD {
			out := make([]int, 0, hi-lo+1)
			for o := lo; o <= hi; o++ {
				out = append(out, o)
			}
			return out
		}
		// large body: both ends and a seeded sample
		seen := map[int]bool{}
		var out []int
		add := func(o int) {
			if o >= lo && o <= hi && !seen[o] {
				seen[o] = true
				out = append(out, o)
			}
		}
		for i := 0; i < 8; i++ {
			add(lo + i)
			add(hi - i)
		}
		for i := 0; i < capD/4; i++ {
			add(lo + r.Intn(hi-lo+1))
		}
		return out
	}
	return nil
}

// ---- one run of a behaviour on concrete bytes --------------------------------------------------

type mismatch struct {
	step   int
	kind   string
	detail string
}

func newSession(version uint8) session.Session {
	s := testkit.NewProtocolSession()
	if version != 0 {
		s.SetValue(gatewaytypes.SessionValueProtocolVersion, version)
	}
	return s
}

type runner struct {
	adapter *wkproto.Adapter
	decodes int
	runs    int
}

// feed appends a chunk the way a connection buffer grows: spare capacity behind the live
// bytes holds stale garbage, never zeroes.
func feed(buf, chunk []byte) []byte {
	out := make([]byte, len(buf)+len(chunk), len(buf)+len(chunk)+48)
	copy(out, buf)
	copy(out[len(buf):], chunk)
	spare := out[len(out):cap(out)]
	for i := range spare {
		spare[i] = 0xa5
	}
	return out
}

func safeDecode(a *wkproto.Adapter, s session.Session, in []byte) (frames []frame.Frame, consumed int, err error, panicked any) {
	defer func() {
		if p := recover(); p != nil {
			panicked = p
		}
	}()
	frames, consumed, err = a.Decode(s, in)
	return
}

// run replays the behaviour with the given concrete frames, encode version and cut offsets
// (one absolute wire offset per Deliver step).
func (rn *runner) run(b behaviour, frames []concrete, sessVersion, encVersion uint8, cuts []int) *mismatch {
	var wire []byte
	starts := make([]int, len(frames)+1)
	for i, c := range frames {
		starts[i] = len(wire)
		wire = append(wire, c.enc...)
	}
	starts[len(frames)] = len(wire)
	sess := newSession(sessVersion)
	var inbound []byte
	delivered, out, di := 0, 0, 0
	rn.runs++
	for i, st := range b.Steps {
		switch st.Ev.A {
		case "Init":
		case "Deliver":
			to := cuts[di]
			di++
			inbound = feed(inbound, wire[delivered:to])
			delivered = to
		case "Decode":
			got, consumed, err, panicked := safeDecode(rn.adapter, sess, inbound)
			rn.decodes++
			if panicked != nil {
				return &mismatch{i, "panic", fmt.Sprintf("Decode panicked on %d buffered bytes of valid frames: %v", len(inbound), panicked)}
			}
			if err != nil {
				return &mismatch{i, "error", fmt.Sprintf("Decode reported an error on valid frames (%d bytes buffered): %v", len(inbound), err)}
			}
			if consumed < 0 || consumed > len(inbound) {
				return &mismatch{i, "consumed", fmt.Sprintf("Decode consumed %d of %d buffered bytes", consumed, len(inbound))}
			}
			want := st.Ev.Res.Frames
			if len(got) != len(want) {
				return &mismatch{i, "frames", fmt.Sprintf("Decode yielded %d frames, the specification %d (%v); consumed %d of %d buffered bytes",
					len(got), len(want), want, consumed, len(inbound))}
			}
			wantBytes := 0
			for j, idx := range want {
				orig := frames[idx-1]
				wantBytes += len(orig.enc)
				if got[j] == nil || reflect.TypeOf(got[j]) != reflect.TypeOf(orig.f) {
					return &mismatch{i, "frames", fmt.Sprintf("frame %d of the stream came out as %T, it was sent as %T", idx, got[j], orig.f)}
				}
				re, eerr := proto.EncodeFrame(got[j], encVersion)
				if eerr != nil || !bytes.Equal(re, orig.enc) {
					return &mismatch{i, "frames", fmt.Sprintf("frame %d of the stream (%T, %d bytes) is not the frame that was sent: re-encoding differs (err=%v, first difference at byte %d)",
						idx, orig.f, len(orig.enc), eerr, firstDiff(re, orig.enc))}
				}
			}
			if consumed != wantBytes {
				what := "consumed bytes are not the encoded length of the frames yielded"
				if len(want) == 0 {
					what = "progress reported on an incomplete frame"
				}
				return &mismatch{i, "consumed", fmt.Sprintf("%s: consumed=%d, frames yielded=%d with %d encoded bytes, %d bytes buffered", what, consumed, len(want), wantBytes, len(inbound))}
			}
			out += len(got)
			if consumed == len(inbound) {
				inbound = nil
			} else {
				inbound = inbound[consumed:]
			}
			if out != st.St.Out || (len(inbound) > 0) != st.St.Pending {
				return &mismatch{i, "state", fmt.Sprintf("after Decode: frames out=%d pending=%v, specification out=%d pending=%v", out, len(inbound) > 0, st.St.Out, st.St.Pending)}
			}
		}
	}
	return nil
}

func firstDiff(a, b []byte) int {
	n := len(a)
	if len(b) < n {
		n = len(b)
	}
	for i := 0; i < n; i++ {
		if a[i] != b[i] {
			return i
		}
	}
	return n
}

// ---- expansion of a behaviour --------------------------------------------------------------------

type deliver struct {
	f   int
	cls string
}

func delivers(b behaviour) []deliver {
	var out []deliver
	for _, st := range b.Steps {
		if st.Ev.A == "Deliver" {
			out = append(out, deliver{st.Ev.F, st.Ev.Cls})
		}
	}
	return out
}

func TestVerifStreamFraming(t *testing.T) {
	env, ok := kit.LoadEnv()
	if !ok {
		t.Skip("not started by the verif runner")
	}
	rep := kit.NewReport(env, "streamframing")
	defer func() {
		if err := rep.Finish(nil); err != nil {
			t.Fatal(err)
		}
	}()
	behs, err := loadBehaviours(env.BehFile)
	if err != nil {
		rep.Infra("cannot load behaviours: %v", err)
		return
	}
	if len(behs) == 0 {
		rep.Infra("no behaviours to replay")
		return
	}
	rng := env.Rand()
	rn := &runner{adapter: wkproto.New()}
	versions := []uint8{0, 1, 2, 3, 4, 5, 6} // 0 = the session carries no negotiated version (decoder assumes the latest)
	draws := env.Pick(2, 2)
	capProduct := env.Pick(400, 800)
	capD := env.Pick(160, 400)
	classes := map[string]int{}
	prefixLens := map[int]int{}
	skippedClass := 0
	isReplay := strings.Contains(env.BehFile, "beh_replay")

	report := func(b behaviour, m *mismatch, frames []concrete, sessV uint8, cuts []int) {
		var fs []map[string]any
		for _, c := range frames {
			fs = append(fs, map[string]any{"type": fmt.Sprintf("%T", c.f), "encoded_len": len(c.enc), "length_prefix_bytes": c.lenLen,
				"hex_head": fmt.Sprintf("%x", c.enc[:min(len(c.enc), 24)])})
		}
		rep.Violate(propID, m.kind, fmt.Sprintf("version %d, cuts at wire offsets %v, step %d: %s", sessV, cuts, m.step, m.detail),
			map[string]any{"behaviour": b.raw, "step": m.step, "session_version": sessV, "cuts": cuts, "frames": fs})
	}

	// Self-test of the comparison: one expected frame list altered must be flagged.
	{
		alt := behs[0]
		alt.Steps = append([]step(nil), alt.Steps...)
		flagged := false
		for i := len(alt.Steps) - 1; i >= 0; i-- {
			if alt.Steps[i].Ev.A == "Decode" && len(alt.Steps[i].Ev.Res.Frames) > 0 {
				st := alt.Steps[i]
				res := *st.Ev.Res
				res.Frames = res.Frames[:len(res.Frames)-1]
				st.Ev.Res = &res
				alt.Steps[i] = st
				fr, cuts, ferr := instantiate(rng, alt, 6, false, nil)
				if ferr == nil {
					flagged = (&runner{adapter: wkproto.New()}).run(alt, fr, 6, 6, cuts) != nil
				}
				break
			}
		}
		rep.SelfTest("altered_expectation_detected", flagged)
		if !flagged {
			rep.Infra("self-test: a behaviour with an altered expected frame list was not flagged")
		}
	}

	for bi, b := range behs {
		if len(b.Steps) == 0 || b.Steps[0].Ev.A != "Init" {
			rep.Infra("behaviour %d does not start with Init", bi)
			return
		}
		kinds := b.Steps[0].Ev.Wire
		ds := delivers(b)
		for _, st := range b.Steps {
			rep.Cover(st.Ev.A)
			if st.Ev.A == "Deliver" {
				classes[st.Ev.Cls]++
			}
		}
		for _, v := range versions {
			encV := v
			if v == 0 {
				encV = frame.LatestVersion
			}
			for d := 0; d < draws; d++ {
				// a three-byte length prefix (bodies >= 16 KiB) in some draws of wires that have an L frame
				big := d == draws-1 && (bi+int(v))%5 == 0
				frames := make([]concrete, len(kinds))
				starts := make([]int, len(kinds)+1)
				for i, k := range kinds {
					c, derr := draw(rng, k, encV, big && k == "L")
					if derr != nil {
						rep.Infra("frame generator: %v", derr)
						return
					}
					frames[i] = c
					starts[i+1] = starts[i] + len(c.enc)
					prefixLens[c.lenLen]++
				}
				// candidate offsets per Deliver step
				cands := make([][]int, len(ds))
				feasible := true
				product := 1
				for i, dl := range ds {
					if dl.f < 1 || dl.f > len(frames) {
						rep.Infra("Deliver names frame %d of %d", dl.f, len(frames))
						return
					}
					offs := frames[dl.f-1].offsets(dl.cls, rng, capD)
					if len(offs) == 0 {
						feasible = false // e.g. class L of a frame whose prefix has no interior: cannot happen for kind L
						break
					}
					cands[i] = make([]int, len(offs))
					for j, o := range offs {
						cands[i][j] = starts[dl.f-1] + o
					}
					if product <= capProduct {
						product *= len(offs)
					}
				}
				if !feasible {
					skippedClass++
					continue
				}
				try := func(cuts []int) bool {
					for i := 1; i < len(cuts); i++ {
						if cuts[i] <= cuts[i-1] {
							return true // two cuts of one class in one frame drawn out of order: not a chunking
						}
					}
					if m := rn.run(b, frames, v, encV, cuts); m != nil {
						report(b, m, frames, v, append([]int(nil), cuts...))
						return false
					}
					return true
				}
				cuts := make([]int, len(ds))
				if product <= capProduct {
					// full cross product
					var rec func(i int) bool
					rec = func(i int) bool {
						if i == len(ds) {
							return try(cuts)
						}
						for _, o := range cands[i] {
							cuts[i] = o
							if !rec(i + 1) {
								return false
							}
						}
						return true
					}
					if !rec(0) {
						goto next
					}
				} else {
					// one full sweep per cut, the others at seeded representatives; then seeded combinations
					for i := range ds {
						for j := range ds {
							cuts[j] = cands[j][rng.Intn(len(cands[j]))]
						}
						for _, o := range cands[i] {
							cuts[i] = o
							if !try(cuts) {
								goto next
							}
						}
					}
					for n := 0; n < capProduct/4; n++ {
						for j := range ds {
							cuts[j] = cands[j][rng.Intn(len(cands[j]))]
						}
						if !try(cuts) {
							goto next
						}
					}
				}
			}
		}
	next:
		if rep.Violations() >= 5 {
			break
		}
		rep.Replayed(len(b.Steps))
		if bi%(len(behs)/4+1) == 0 {
			rep.Sample(map[string]any{"behaviour": b.raw})
		}
	}
	if !isReplay {
		for _, c := range []string{"H", "L", "P", "D", "B"} {
			if classes[c] == 0 {
				rep.Infra("no behaviour cut a frame at position class %q", c)
			}
		}
		if prefixLens[0] == 0 || prefixLens[1] == 0 || prefixLens[2] == 0 {
			rep.Infra("frame generator did not produce every length-prefix width (got %v)", prefixLens)
		}
	}
	rep.Extra("concrete_runs", rn.runs)
	rep.Extra("decode_calls", rn.decodes)
	rep.Extra("cut_classes", classes)
	rep.Extra("frames_by_length_prefix_bytes", map[string]int{"0": prefixLens[0], "1": prefixLens[1], "2": prefixLens[2], "3": prefixLens[3]})
	rep.Extra("expansions_skipped_class_absent", skippedClass)
	rep.Extra("versions", "session without negotiated version, and 1..6")
}

// instantiate draws frames and one representative cut per Deliver (used by the self-test).
func instantiate(r *rand.Rand, b behaviour, version uint8, big bool, _ any) ([]concrete, []int, error) {
	kinds := b.Steps[0].Ev.Wire
	frames := make([]concrete, len(kinds))
	starts := make([]int, len(kinds)+1)
	for i, k := range kinds {
		c, err := draw(r, k, version, big && k == "L")
		if err != nil {
			return nil, nil, err
		}
		frames[i] = c
		starts[i+1] = starts[i] + len(c.enc)
	}
	var cuts []int
	for _, dl := range delivers(b) {
		offs := frames[dl.f-1].offsets(dl.cls, r, 64)
		if len(offs) == 0 {
			return nil, nil, fmt.Errorf("class %s absent", dl.cls)
		}
		cuts = append(cuts, starts[dl.f-1]+offs[0])
	}
	return frames, cuts, nil
}

package messageevent

// Conformance harness for the reducer layer of specs/MessageEvent (property C40).
// A package of the runner module: it opens a real metadata DB (Pebble) and drives the
// exported API of github.com/WuKongIM/WuKongIM/pkg/db/meta only.
//
//	Append       DB.ForHashSlot(hs).AppendMessageEvent              (Shard path)
//	AppendBatch  DB.NewWriteBatch + AppendMessageEvent x2 + Commit  (the Slot FSM path)
//	Stage        DB.NewWriteBatch + AppendMessageEvent; the batch stays open over the next calls
//	Commit       WriteBatch.Commit of the open batch (ok, or conflict = ErrStaleMeta)
//
// The projection is ListMessageEventStates of every message of the case. Every case
// uses fresh channel ids / client message numbers, so all rows start absent; the two
// messages of a case share a channel (and hash slot) in even cases.

import (
	"context"
	"encoding/json"
	"errors"
	"fmt"
	"os"
	"strings"
	"testing"

	metadb "github.com/WuKongIM/WuKongIM/pkg/db/meta"
	"verif/runner/kit"
)

const chanType = int64(2)

var (
	msgNames  = []string{"m1", "m2"}
	laneKeys  = []string{"aux", "main"}
	allKeys   = []string{"aux", "main", "__finish__"}
	absentRow = map[string]any{"ex": false, "status": "", "seq": 0, "last": "", "text": "", "reason": 0, "err": 0}
)

type meSUT struct {
	db    *metadb.DB
	n     int
	clock int64
	wb    *metadb.WriteBatch // the open write batch of Stage .. Commit
}

func (s *meSUT) begin(n int) {
	s.n = n
	s.dropBatch()
}

func (s *meSUT) dropBatch() {
	if s.wb != nil {
		_ = s.wb.Close()
		s.wb = nil
	}
}

func (s *meSUT) channel(m string) string {
	if s.n%2 == 0 {
		return fmt.Sprintf("vch-%d", s.n)
	}
	return fmt.Sprintf("vch-%d-%s", s.n, m)
}
func (s *meSUT) slot(m string) uint16 {
	if s.n%2 == 0 || m == "m1" {
		return uint16(3 + s.n%5)
	}
	return uint16(11 + s.n%3)
}
func (s *meSUT) msgNo(m string) string { return fmt.Sprintf("cmn-%d-%s", s.n, m) }

// payload renders the abstract payload of an event as the JSON the reducer decodes.
func payload(typ, p string, r int64, nul bool, variant int64) []byte {
	snap := func() map[string]any { return map[string]any{"kind": "text", "text": p} }
	var v map[string]any
	switch typ {
	case "open":
		return nil
	case "delta":
		v = map[string]any{"kind": "text", "delta": p}
	case "snapshot":
		v = snap()
	case "close", "finish":
		v = map[string]any{"end_reason": r}
	case "error":
		v = map[string]any{"error": errText(r)}
	case "cancel":
		v = map[string]any{}
	}
	terminal := typ == "close" || typ == "error" || typ == "cancel" || typ == "finish"
	if terminal && p != "" {
		v["snapshot"] = snap()
	}
	if terminal && p == "" && nul {
		v["snapshot"] = nil // an optional field marshalled without omitempty
	}
	raw, _ := json.Marshal(v)
	if terminal && p == "" && nul && variant%2 == 0 {
		raw = []byte(strings.Replace(string(raw), `"snapshot":null`, `"snapshot" :  null `, 1))
	}
	return raw
}

func errText(r int64) string {
	if r == 0 {
		return ""
	}
	return fmt.Sprintf("E%d", r)
}

func errCode(s string) (int64, bool) {
	if s == "" {
		return 0, true
	}
	var n int64
	if _, err := fmt.Sscanf(s, "E%d", &n); err != nil {
		return 0, false
	}
	return n, true
}

func textOf(raw []byte) string {
	if len(raw) == 0 {
		return ""
	}
	var v struct {
		Kind string `json:"kind"`
		Text string `json:"text"`
	}
	if err := json.Unmarshal(raw, &v); err != nil || v.Kind != "text" {
		return "?" + string(raw)
	}
	return v.Text
}

func (s *meSUT) event(m string, e map[string]any) metadb.MessageEventAppend {
	s.clock++
	typ := kit.Str(e, "type")
	key := kit.Str(e, "key")
	if key == "main" && s.clock%3 == 0 && typ != "finish" {
		key = "" // the default lane may be addressed by an empty key
	}
	return metadb.MessageEventAppend{
		ChannelID: s.channel(m), ChannelType: chanType, ClientMsgNo: s.msgNo(m),
		EventID: kit.Str(e, "id"), EventKey: key, EventType: "stream." + typ,
		Visibility: metadb.VisibilityPublic, OccurredAt: 1000 + s.clock, UpdatedAt: 2000 + s.clock,
		Payload: payload(typ, kit.Str(e, "p"), kit.Int(e, "r"), kit.Bool(e, "nul"), s.clock/2),
	}
}

func reply(r metadb.MessageEventAppendResult) map[string]any {
	return map[string]any{"key": r.EventKey, "seq": r.MsgEventSeq, "status": r.Status}
}

// refused marks an error by which the reducer itself rejects a call (as opposed to
// trouble of the store underneath): the specification accepts every call the harness
// makes, so a refusal is a disagreement about the reply, not infrastructure trouble.
type refused struct{ err error }

func (r refused) Error() string { return "refused: " + r.err.Error() }

func classify(what string, err error) error {
	if errors.Is(err, metadb.ErrStaleMeta) || errors.Is(err, metadb.ErrInvalidArgument) ||
		errors.Is(err, metadb.ErrNotFound) || errors.Is(err, metadb.ErrCorruptValue) {
		return refused{fmt.Errorf("%s: %w", what, err)}
	}
	return fmt.Errorf("%s: %w", what, err)
}

// apply performs the call described by ev and returns the observed reply.
func (s *meSUT) apply(ev map[string]any) (map[string]any, error) {
	ctx := context.Background()
	m := kit.Str(ev, "m")
	switch kit.Str(ev, "a") {
	case "Append":
		r, err := s.db.ForHashSlot(s.slot(m)).AppendMessageEvent(ctx, s.event(m, kit.Map(ev, "e")))
		if err != nil {
			return nil, classify("AppendMessageEvent", err)
		}
		return reply(r), nil
	case "AppendBatch":
		wb := s.db.NewWriteBatch()
		defer wb.Close()
		rs := []any{}
		for _, x := range kit.List(ev, "es") {
			r, err := wb.AppendMessageEvent(s.slot(m), s.event(m, x.(map[string]any)))
			if err != nil {
				return nil, classify("WriteBatch.AppendMessageEvent", err)
			}
			rs = append(rs, reply(r))
		}
		if err := wb.Commit(); err != nil {
			return nil, classify("WriteBatch.Commit", err)
		}
		return map[string]any{"rs": rs}, nil
	case "Stage":
		s.dropBatch()
		s.wb = s.db.NewWriteBatch()
		r, err := s.wb.AppendMessageEvent(s.slot(m), s.event(m, kit.Map(ev, "e")))
		if err != nil {
			return nil, classify("WriteBatch.AppendMessageEvent", err)
		}
		return reply(r), nil
	case "Commit":
		if s.wb == nil {
			return nil, fmt.Errorf("Commit without an open batch")
		}
		err := s.wb.Commit()
		s.dropBatch()
		if errors.Is(err, metadb.ErrStaleMeta) {
			return map[string]any{"ok": false}, nil
		}
		if err != nil {
			return nil, fmt.Errorf("WriteBatch.Commit: %w", err)
		}
		return map[string]any{"ok": true}, nil
	}
	return nil, fmt.Errorf("unknown action %q", kit.Str(ev, "a"))
}

// proj reads every stored lane of both messages. It also cross-checks the point read.
func (s *meSUT) proj() (map[string]any, string, error) {
	ctx := context.Background()
	out := map[string]any{}
	for _, m := range msgNames {
		lanes := map[string]any{}
		for _, k := range allKeys {
			lanes[k] = absentRow
		}
		rows, err := s.db.ForHashSlot(s.slot(m)).ListMessageEventStates(ctx, s.channel(m), chanType, s.msgNo(m), 50)
		if err != nil {
			return nil, "", fmt.Errorf("ListMessageEventStates: %w", err)
		}
		for _, row := range rows {
			if _, known := lanes[row.EventKey]; !known || row.ClientMsgNo != s.msgNo(m) || row.ChannelID != s.channel(m) {
				return nil, fmt.Sprintf("message %s lists a foreign lane %s/%s/%s", m, row.ChannelID, row.ClientMsgNo, row.EventKey), nil
			}
			code, ok := errCode(row.Error)
			if !ok {
				return nil, fmt.Sprintf("message %s lane %s: unexpected error text %q", m, row.EventKey, row.Error), nil
			}
			lanes[row.EventKey] = map[string]any{"ex": true, "status": row.Status, "seq": row.LastMsgEventSeq,
				"last": row.LastEventID, "text": textOf(row.SnapshotPayload), "reason": int64(row.EndReason), "err": code}
			got, err := s.db.ForHashSlot(s.slot(m)).GetMessageEventState(ctx, s.channel(m), chanType, s.msgNo(m), row.EventKey)
			if err != nil {
				return nil, "", fmt.Errorf("GetMessageEventState(%s): %w", row.EventKey, err)
			}
			if got.Status != row.Status || got.LastMsgEventSeq != row.LastMsgEventSeq || got.LastEventID != row.LastEventID ||
				string(got.SnapshotPayload) != string(row.SnapshotPayload) {
				return nil, fmt.Sprintf("message %s lane %s: point read %+v differs from listed row %+v", m, row.EventKey, got, row), nil
			}
		}
		cached := map[string]any{}
		for _, k := range laneKeys {
			cached[k] = map[string]any{"open": false, "text": ""}
		}
		out[m] = map[string]any{"lanes": lanes, "cached": cached}
	}
	return out, "", nil
}

func openSUT(t *testing.T) (*meSUT, error) {
	dir := ""
	if st, err := os.Stat("/dev/shm"); err == nil && st.IsDir() {
		if d, err := os.MkdirTemp("/dev/shm", "verif-messageevent-"); err == nil {
			dir = d
			t.Cleanup(func() { _ = os.RemoveAll(d) })
		}
	}
	if dir == "" {
		dir = t.TempDir()
	}
	db, err := metadb.Open(dir)
	if err != nil {
		return nil, err
	}
	t.Cleanup(func() { _ = db.Close() })
	return &meSUT{db: db}, nil
}

func TestVerifMessageEvent(t *testing.T) {
	env, ok := kit.LoadEnv()
	if !ok {
		t.Skip("not started by the verif runner")
	}
	rep := kit.NewReport(env, "messageevent")
	rec, err := kit.NewRecorder(env.TraceFile)
	if err != nil {
		t.Fatal(err)
	}
	finish := func() {
		if err := rec.Close(); err != nil {
			rep.Infra("trace file: %v", err)
		}
		if err := rep.Finish(rec); err != nil {
			t.Fatal(err)
		}
	}
	sut, err := openSUT(t)
	if err != nil {
		rep.Infra("open metadb: %v", err)
		finish()
		return
	}
	caseNo := 0

	// ---- spec -> code: replay TLC behaviours ----
	behs, err := kit.LoadBehaviours(env.BehFile)
	if err != nil {
		rep.Infra("load behaviours: %v", err)
	}
	for bi, b := range behs {
		if len(b.Steps) == 0 || kit.Str(b.Steps[0].Ev, "a") != "Init" {
			rep.Infra("behaviour %d does not start with Init", bi)
			continue
		}
		caseNo++
		sut.begin(caseNo)
		for si, st := range b.Steps {
			if si > 0 {
				res, err := sut.apply(st.Ev)
				rep.Cover(kit.Str(st.Ev, "a"))
				var ref refused
				if errors.As(err, &ref) {
					rep.Violate("C40", "reply", fmt.Sprintf("step %d %s: spec=%s impl=%v", si, kit.JSON(kit.CloneEv(st.Ev)), kit.JSON(st.Ev["res"]), ref),
						map[string]any{"behaviour": b, "step": si, "observed": ref.Error()})
					break
				}
				if err != nil {
					rep.Infra("behaviour %d step %d %s: %v", bi, si, kit.JSON(kit.CloneEv(st.Ev)), err)
					break
				}
				if d := kit.Diff(st.Ev["res"], res); d != "" {
					rep.Violate("C40", "reply", fmt.Sprintf("step %d %s: %s", si, kit.JSON(kit.CloneEv(st.Ev)), d),
						map[string]any{"behaviour": b, "step": si, "observed": res})
					break
				}
			}
			proj, bad, err := sut.proj()
			if err != nil {
				rep.Infra("behaviour %d step %d: %v", bi, si, err)
				break
			}
			if bad != "" {
				rep.Violate("C40", "state", fmt.Sprintf("step %d %s: %s", si, kit.JSON(kit.CloneEv(st.Ev)), bad),
					map[string]any{"behaviour": b, "step": si})
				break
			}
			if d := kit.Diff(st.St, proj); d != "" {
				rep.Violate("C40", "state", fmt.Sprintf("step %d %s: %s", si, kit.JSON(kit.CloneEv(st.Ev)), d),
					map[string]any{"behaviour": b, "step": si, "observed": proj})
				break
			}
		}
		rep.Replayed(len(b.Steps) - 1)
		if bi == 0 {
			rep.Sample(b)
		}
	}

	// ---- code -> spec: seeded random driver, trace validated by TLC ----
	rng := env.Rand()
	ids := []string{"e1", "e2", "e3", "e4", "e5", "e6", "e7", "e8"}
	types := []string{"open", "delta", "delta", "delta", "snapshot", "close", "error", "cancel", "finish"}
	toks := []string{"a", "b", "cc", "d"}
	snaps := []string{"S", "TT", "U"}
	traces := env.Pick(120, 1500)
	mkE := func(id, key, typ, p string, r int, nul bool) map[string]any {
		return map[string]any{"id": id, "key": key, "type": typ, "p": p, "r": r, "nul": nul}
	}
	// Scripted traces: a write batch that stays open while other appends commit. The lane
	// row the event was staged against is unchanged in A, B and E; only the per-message
	// cursor (A, B, E) or the applied-event row (D) moved; C touches another message.
	scripts := [][]map[string]any{
		{ // A
			kit.Ev("Append", "m", "m1", "e", mkE("e1", "main", "delta", "a", 0, false)),
			kit.Ev("Stage", "m", "m1", "e", mkE("e2", "aux", "delta", "b", 0, false)),
			kit.Ev("Append", "m", "m1", "e", mkE("e3", "main", "close", "", 2, false)),
			kit.Ev("Commit", "m", "m1"),
			kit.Ev("Append", "m", "m1", "e", mkE("e4", "aux", "delta", "d", 0, false)),
		},
		{ // B
			kit.Ev("Stage", "m", "m2", "e", mkE("e1", "main", "delta", "a", 0, false)),
			kit.Ev("Append", "m", "m2", "e", mkE("e2", "aux", "delta", "b", 0, false)),
			kit.Ev("Commit", "m", "m2"),
			kit.Ev("Append", "m", "m2", "e", mkE("e3", "main", "finish", "", 1, true)),
		},
		{ // C
			kit.Ev("Stage", "m", "m1", "e", mkE("e1", "main", "delta", "a", 0, false)),
			kit.Ev("Append", "m", "m2", "e", mkE("e1", "main", "delta", "b", 0, false)),
			kit.Ev("Commit", "m", "m1"),
			kit.Ev("Append", "m", "m1", "e", mkE("e2", "main", "close", "", 0, true)),
		},
		{ // D
			kit.Ev("Append", "m", "m1", "e", mkE("e1", "main", "delta", "a", 0, false)),
			kit.Ev("Stage", "m", "m1", "e", mkE("e2", "main", "delta", "b", 0, false)),
			kit.Ev("Append", "m", "m1", "e", mkE("e2", "aux", "delta", "cc", 0, false)),
			kit.Ev("Commit", "m", "m1"),
			kit.Ev("Append", "m", "m1", "e", mkE("e2", "main", "delta", "b", 0, false)),
		},
		{ // E
			kit.Ev("Append", "m", "m1", "e", mkE("e1", "aux", "delta", "a", 0, false)),
			kit.Ev("Stage", "m", "m1", "e", mkE("e2", "main", "finish", "", 1, false)),
			kit.Ev("Append", "m", "m1", "e", mkE("e3", "aux", "error", "", 2, true)),
			kit.Ev("Commit", "m", "m1"),
			kit.Ev("Append", "m", "m1", "e", mkE("e4", "main", "finish", "", 1, false)),
		},
	}
	for tr := 0; tr < traces+len(scripts); tr++ {
		caseNo++
		sut.begin(caseNo)
		proj, bad, err := sut.proj()
		if err != nil || bad != "" {
			rep.Infra("driver: fresh case is not empty: %v %s", err, bad)
			break
		}
		rec.Begin(nil, proj)
		// a trace works on a small pool of ids so that replays are frequent
		pool := ids[:3+rng.Intn(len(ids)-2)]
		var hist []map[string]any
		drawEvent := func() map[string]any {
			typ := types[rng.Intn(len(types))]
			e := mkE(pool[rng.Intn(len(pool))], laneKeys[rng.Intn(len(laneKeys))], typ, "", 0, false)
			switch typ {
			case "delta":
				e["p"] = toks[rng.Intn(len(toks))]
			case "snapshot":
				e["p"] = snaps[rng.Intn(len(snaps))]
			case "close", "error", "cancel", "finish":
				switch rng.Intn(4) {
				case 0:
					e["p"] = snaps[rng.Intn(len(snaps))]
				case 1:
					e["nul"] = true
				}
				e["r"] = rng.Intn(4)
				if typ == "finish" {
					e["key"] = "main"
				}
			}
			if rng.Intn(12) == 0 && typ == "close" { // an id of the shape the leader synthesizes
				e["id"] = pool[rng.Intn(len(pool))] + "/flush/" + kit.Str(e, "key")
			}
			return e
		}
		steps := 8 + rng.Intn(25)
		if tr < len(scripts) {
			steps = len(scripts[tr])
		}
		stagedM, stagedKey := "", "" // message and lane of the open write batch
		for i := 0; i < steps; i++ {
			m := msgNames[rng.Intn(len(msgNames))]
			var ev map[string]any
			switch {
			case tr < len(scripts):
				ev = scripts[tr][i]
			case stagedM != "" && (rng.Intn(3) == 0 || i == steps-1):
				ev = kit.Ev("Commit", "m", stagedM)
			case stagedM != "" && rng.Intn(2) == 0:
				// aimed: another lane of the message the open batch was staged for
				e := drawEvent()
				if kit.Str(e, "type") == "finish" {
					e["type"], e["p"], e["nul"] = "delta", "a", false
				}
				if stagedKey == "main" {
					e["key"] = "aux"
				} else {
					e["key"] = "main"
				}
				ev = kit.Ev("Append", "m", stagedM, "e", e)
			case stagedM == "" && rng.Intn(5) == 0 && i < steps-1:
				ev = kit.Ev("Stage", "m", m, "e", drawEvent())
			case rng.Intn(4) == 0:
				e1, e2 := drawEvent(), drawEvent()
				switch rng.Intn(3) {
				case 0:
					e2["id"] = e1["id"]
				case 1:
					if kit.Str(e2, "type") != "finish" {
						e2["key"] = e1["key"]
					}
				}
				ev = kit.Ev("AppendBatch", "m", m, "es", []any{e1, e2})
			default:
				ev = kit.Ev("Append", "m", m, "e", drawEvent())
			}
			switch kit.Str(ev, "a") {
			case "Stage":
				stagedM, stagedKey = kit.Str(ev, "m"), kit.Str(kit.Map(ev, "e"), "key")
			case "Commit":
				stagedM, stagedKey = "", ""
			}
			res, err := sut.apply(ev)
			var ref refused
			if errors.As(err, &ref) {
				rep.Violate("C40", "reply", fmt.Sprintf("%s: the reducer refused a call the specification accepts: %v", kit.JSON(ev), ref),
					map[string]any{"events": append(hist, ev)})
				break
			}
			if err != nil {
				rep.Infra("driver: %s: %v", kit.JSON(ev), err)
				break
			}
			ev["res"] = res
			hist = append(hist, ev)
			proj, bad, err := sut.proj()
			if err != nil {
				rep.Infra("driver: %v", err)
				break
			}
			if bad != "" {
				rep.Violate("C40", "state", fmt.Sprintf("after %s: %s", kit.JSON(ev), bad), map[string]any{"events": hist})
				break
			}
			// straight from the property text: the durable event sequence of a message only
			// increases, so no two lanes of a message hold the same sequence
			if dup := dupSeq(proj); dup != "" {
				rep.Violate("C40", "sequence", fmt.Sprintf("after %s: %s", kit.JSON(ev), dup), map[string]any{"events": hist, "stored": proj})
				break
			}
			rec.Step(ev, proj)
			rep.Cover(kit.Str(ev, "a"))
			if kit.Str(ev, "a") == "Commit" {
				rep.Cover(fmt.Sprintf("commit:ok=%v", kit.Bool(res, "ok")))
			}
			for _, x := range append(kit.List(ev, "es"), ev["e"]) {
				if e, ok := x.(map[string]any); ok {
					rep.Cover("type:" + strings.ToLower(kit.Str(e, "type")))
				}
			}
		}
		sut.dropBatch()
	}
	finish()
}

// dupSeq reports two stored lanes of one message that hold the same event sequence.
func dupSeq(proj map[string]any) string {
	for _, m := range msgNames {
		lanes := kit.Map(kit.Map(proj, m), "lanes")
		seen := map[string]string{}
		for _, k := range allKeys {
			row := kit.Map(lanes, k)
			if !kit.Bool(row, "ex") {
				continue
			}
			seq := fmt.Sprint(row["seq"])
			if other, dup := seen[seq]; dup {
				return fmt.Sprintf("message %s: lanes %s and %s both hold msg_event_seq=%s", m, other, k, seq)
			}
			seen[seq] = k
		}
	}
	return ""
}

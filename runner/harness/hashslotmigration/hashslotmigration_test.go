package hashslotmigration_test

// Conformance harness for specs/HashSlotMigration (property C39).
//
// Two real pkg/slot/fsm state machines over real metadb databases: the source slot 11 owning
// hash slots {5,6} and the target slot 22 owning {7}; hash slot 5 migrates.  The harness plays
// the orchestrator (which is not part of the repository) exactly as the specification's
// environment does: ownership tables through UpdateOwnedHashSlots /
// UpdateOutgoingDeltaTargets / UpdateIncomingDeltaHashSlots, the snapshot phase through
// ExportHashSlotSnapshot / ImportHashSlotSnapshot (all reached by interface assertion on the
// exported constructor's result), and the delta forwarder through SetDeltaForwarder bound to a
// gated channel whose loss, duplication and reordering are chosen by the TLC behaviour.
//
// A target batch (Deliver) may carry, next to its deltas, one command of the target's own
// traffic (the step's "mate"), built with the real encoders: "stale" = a conditional command
// conditioned on a row that does not exist (the write batch's commit fails, the state machine
// re-applies the batch command by command), "refused" = an ordinary write for a hash slot the
// target does not own (ApplyBatch refuses the whole batch).  Either way the specification says
// what must be on the target afterwards; nothing in the comparison knows about the mate.
//
// Oracle for "every accepted write exactly once": a third real state machine (owner of hash
// slot 5) to which every accepted write is applied exactly once, in the order the target first
// saw it (snapshot content first, then first delivery of each delta, then direct writes).  The
// hash slot's exported metadata on the target must equal the oracle's, migration bookkeeping
// rows (table hashslot_migration) excluded.

import (
	"bytes"
	"context"
	"encoding/binary"
	"encoding/hex"
	"errors"
	"fmt"
	"math/rand"
	"os"
	"path/filepath"
	"sort"
	"strings"
	"testing"

	metadb "github.com/WuKongIM/WuKongIM/pkg/db/meta"
	"github.com/WuKongIM/WuKongIM/pkg/slot/fsm"
	"github.com/WuKongIM/WuKongIM/pkg/slot/multiraft"
	"verif/runner/kit"
)

const (
	property = "C39"
	srcSlot  = 11
	tgtSlot  = 22
	oraSlot  = 33
	hsH      = uint16(5) // the migrating hash slot
	hsO      = uint16(6) // another hash slot of the source
	hsT      = uint16(7) // the target's own hash slot
	baseMS   = int64(1750000000000)
)

var bg = context.Background()

// the unexported state machine's exported methods, reached by interface assertion
type migSM interface {
	multiraft.BatchStateMachine
	UpdateOwnedHashSlots([]uint16)
	UpdateOutgoingDeltaTargets(map[uint16]multiraft.SlotID)
	UpdateIncomingDeltaHashSlots([]uint16)
	SetDeltaForwarder(func(context.Context, multiraft.SlotID, multiraft.Command) error)
	ExportHashSlotSnapshot(context.Context, uint16) (metadb.SlotSnapshot, error)
	ImportHashSlotSnapshot(context.Context, metadb.SlotSnapshot) error
}

type node struct {
	dir   string
	db    *metadb.DB
	sm    migSM
	slot  uint64
	idx   uint64 // log index of this slot
	empty []byte
}

var wipeHS = []uint16{hsH, hsO, hsT}

func openNode(dir string, slot uint64) (*node, error) {
	db, err := metadb.Open(dir)
	if err != nil {
		return nil, err
	}
	n := &node{dir: dir, db: db, slot: slot}
	snap, err := db.ExportHashSlotSnapshot(bg, wipeHS)
	if err != nil {
		return nil, err
	}
	n.empty = snap.Data
	return n, nil
}

func (n *node) newSM(owned []uint16) error {
	sm, err := fsm.NewStateMachineWithHashSlots(n.db, n.slot, owned)
	if err != nil {
		return err
	}
	m, ok := sm.(migSM)
	if !ok {
		return fmt.Errorf("state machine %T lacks the migration methods", sm)
	}
	n.sm = m
	return nil
}

// wipe makes the database indistinguishable from a new one (verified), so that one pebble
// directory serves many cases (opening pebble costs ~80 ms).
func (n *node) wipe() error {
	for _, hs := range wipeHS {
		if err := n.db.DeleteHashSlotData(bg, hs); err != nil {
			return err
		}
	}
	if err := n.db.DeleteSlotData(bg, n.slot); err != nil {
		return err
	}
	snap, err := n.db.ExportHashSlotSnapshot(bg, wipeHS)
	if err != nil {
		return err
	}
	if !bytes.Equal(snap.Data, n.empty) {
		return errors.New("database not empty after wipe")
	}
	n.idx = 0
	return nil
}

func (n *node) apply(cmds []multiraft.Command) (res [][]byte, err error, pan any) {
	for i := range cmds {
		n.idx++
		cmds[i].SlotID, cmds[i].Index, cmds[i].Term = multiraft.SlotID(n.slot), n.idx, 1
	}
	defer func() {
		if r := recover(); r != nil {
			pan = r
		}
	}()
	res, err = n.sm.ApplyBatch(bg, cmds)
	return res, err, nil
}

// content: exported metadata of hash slot hs without the hashslot_migration bookkeeping rows.
func (n *node) content(hs uint16) (map[string]string, error) {
	snap, err := n.db.ExportHashSlotSnapshot(bg, []uint16{hs})
	if err != nil {
		return nil, err
	}
	all := parseSnap(snap.Data)
	for k := range all {
		if len(k) >= 9 && k[4] == 0x10 && binary.BigEndian.Uint32([]byte(k[5:9])) == metadb.TableIDHashSlotMigration {
			delete(all, k)
		}
	}
	return all, nil
}

func parseSnap(b []byte) map[string]string {
	out := map[string]string{}
	if len(b) < 4+2+2+8+4 {
		return out
	}
	body := b[:len(b)-4]
	body = body[6:]
	n := int(binary.BigEndian.Uint16(body[:2]))
	body = body[2:]
	if len(body) < n*2+8 {
		return out
	}
	body = body[n*2:]
	cnt := binary.BigEndian.Uint64(body[:8])
	body = body[8:]
	for i := uint64(0); i < cnt; i++ {
		kl, a := binary.Uvarint(body)
		if a <= 0 {
			return out
		}
		body = body[a:]
		vl, a2 := binary.Uvarint(body)
		if a2 <= 0 || uint64(len(body[a2:])) < kl+vl {
			return out
		}
		body = body[a2:]
		out[string(body[:kl])] = string(body[kl : kl+vl])
		body = body[kl+vl:]
	}
	return out
}

func diffContent(want, got map[string]string) string {
	var parts []string
	keys := map[string]bool{}
	for k := range want {
		keys[k] = true
	}
	for k := range got {
		keys[k] = true
	}
	ks := make([]string, 0, len(keys))
	for k := range keys {
		ks = append(ks, k)
	}
	sort.Strings(ks)
	n := 0
	for _, k := range ks {
		w, inw := want[k]
		g, ing := got[k]
		if inw && ing && w == g {
			continue
		}
		n++
		if len(parts) >= 3 {
			continue
		}
		switch {
		case inw && !ing:
			parts = append(parts, "missing key "+hex.EncodeToString([]byte(k)))
		case !inw && ing:
			parts = append(parts, "extra key "+hex.EncodeToString([]byte(k)))
		default:
			parts = append(parts, fmt.Sprintf("key %s: value %s, oracle %s", hex.EncodeToString([]byte(k)), hex.EncodeToString([]byte(g)), hex.EncodeToString([]byte(w))))
		}
	}
	if n == 0 {
		return ""
	}
	return fmt.Sprintf("%d keys differ: %s", n, strings.Join(parts, "; "))
}

// ---------------------------------------------------------------------------------------

type message struct {
	idx    int64
	data   []byte
	copies int
}

type sut struct {
	h     *harness
	src   *node
	tgt   *node
	ora   *node
	rng   *rand.Rand
	phase string // orchestrator phase
	lose  bool   // the forwarder loses what it is handed during the current source batch
	fwd   []int64
	fwdE  string // a malformed forward call
	chanM map[int64]*message
	pay   map[int64][]byte // write payload by source index
	first map[int64]bool   // deltas the harness has delivered at least once (first application feeds the oracle)
	app   []int64          // writes in order of first application on the target (harness bookkeeping)
	tw    int64
	isW   map[int64]bool // source indexes that are accepted writes for H
	bare  bool           // the source was restarted without its delta target / forwarder
}

func (s *sut) srcOwned() []uint16 {
	if s.phase == "done" {
		return []uint16{hsO}
	}
	return []uint16{hsH, hsO}
}

func (s *sut) tgtOwned() []uint16 {
	if s.phase == "done" {
		return []uint16{hsH, hsT}
	}
	return []uint16{hsT}
}

func (s *sut) forward(_ context.Context, target multiraft.SlotID, cmd multiraft.Command) error {
	if target != tgtSlot || cmd.HashSlot != hsH || cmd.SlotID != srcSlot {
		s.fwdE = fmt.Sprintf("forwarder called with target=%d slot=%d hash_slot=%d", target, cmd.SlotID, cmd.HashSlot)
	}
	s.fwd = append(s.fwd, int64(cmd.Index))
	if s.lose {
		return errors.New("forward lost")
	}
	s.enqueue(int64(cmd.Index), cmd.Data)
	return nil
}

func (s *sut) enqueue(idx int64, data []byte) {
	m := s.chanM[idx]
	if m == nil {
		m = &message{idx: idx}
		s.chanM[idx] = m
	}
	m.data = append([]byte(nil), data...) // the latest copy's payload is what gets delivered
	m.copies++
}

// wire (re-)creates the state machine objects with the runtime tables of the current phase.
func (s *sut) wireSrc() error {
	if err := s.src.newSM(s.srcOwned()); err != nil {
		return err
	}
	s.src.sm.SetDeltaForwarder(s.forward)
	if s.phase == "delta" || s.phase == "switching" {
		s.src.sm.UpdateOutgoingDeltaTargets(map[uint16]multiraft.SlotID{hsH: tgtSlot})
	}
	return nil
}

func (s *sut) wireTgt() error {
	if err := s.tgt.newSM(s.tgtOwned()); err != nil {
		return err
	}
	if s.phase == "delta" || s.phase == "switching" {
		s.tgt.sm.UpdateIncomingDeltaHashSlots([]uint16{hsH})
	}
	return nil
}

// write payloads: unconditional metadata writes over a small key space, so that a duplicate
// or a lost write shows in the content.
func (s *sut) payload() []byte {
	r := s.rng
	uid := []string{"u1", "u2"}[r.Intn(2)]
	ch := []string{"ga", "gb"}[r.Intn(2)]
	tok := fmt.Sprintf("t%d", r.Intn(1000))
	if r.Intn(2) == 0 { // half of the writes meet on one key, so that order and repetition show
		return fsm.EncodeUpsertUserCommand(metadb.User{UID: "u1", Token: tok})
	}
	switch r.Intn(9) {
	case 0, 1:
		return fsm.EncodeUpsertUserCommand(metadb.User{UID: uid, Token: tok, DeviceFlag: int64(r.Intn(3))})
	case 2:
		return fsm.EncodeUpsertDeviceCommand(metadb.Device{UID: uid, DeviceFlag: int64(r.Intn(2)), Token: tok})
	case 3, 4:
		return fsm.EncodeUpsertChannelCommand(metadb.Channel{ChannelID: ch, ChannelType: 2, Ban: int64(r.Intn(2)), SendBan: int64(r.Intn(2)), Large: int64(r.Intn(2))})
	case 5:
		return fsm.EncodeDeleteChannelCommand(ch, 2)
	case 6:
		return fsm.EncodeAddSubscribersCommand(ch, 2, []string{uid, "u3"}[:1+r.Intn(2)])
	case 7:
		return fsm.EncodeRemoveSubscribersCommand(ch, 2, []string{uid})
	default:
		return fsm.EncodeBindPluginUserCommand(metadb.PluginUserBinding{UID: uid, PluginNo: fmt.Sprintf("p%d", r.Intn(2)), CreatedAtMS: baseMS, UpdatedAtMS: baseMS + int64(r.Intn(5))})
	}
}

func (s *sut) oracleApply(data []byte) error {
	_, err, pan := s.ora.apply([]multiraft.Command{{HashSlot: hsH, Data: append([]byte(nil), data...)}})
	if pan != nil {
		return fmt.Errorf("panic: %v", pan)
	}
	return err
}

// mateOf: the co-batched command of a target batch ("none" when the step names none).
func mateOf(ev map[string]any) string {
	if m := kit.Str(ev, "mate"); m != "" {
		return m
	}
	return "none"
}

// actName: the action with its mate, for coverage and violation signatures.
func actName(ev map[string]any) string {
	a := kit.Str(ev, "a")
	if a == "Deliver" && mateOf(ev) != "none" {
		return a + "+" + mateOf(ev)
	}
	return a
}

func insertCmd(cmds []multiraft.Command, pos int, c multiraft.Command) []multiraft.Command {
	out := make([]multiraft.Command, 0, len(cmds)+1)
	out = append(out, cmds[:pos]...)
	out = append(out, c)
	return append(out, cmds[pos:]...)
}

// staleMate: a conditional command of the target's ordinary traffic whose observation is stale
// (the row it is conditioned on does not exist): accepted by the encoders and by staging, it
// fails only when the write batch commits.  Built as runner/harness/slotfsm builds its "stale"
// commands.  It addresses a hash slot the target owns: its own one, after the hand-over
// sometimes the migrated one.
func (s *sut) staleMate() (multiraft.Command, uint16) {
	r := s.rng
	hs := hsT
	if s.phase == "done" && r.Intn(2) == 0 {
		hs = hsH
	}
	now := baseMS + 1000 + int64(r.Intn(1000))
	ghost := []string{"ghost", "ga"}[r.Intn(2)] // "ga" has a channel row at times, never runtime metadata or a task
	var data []byte
	switch r.Intn(3) {
	case 0:
		data = fsm.EncodeAdvanceChannelRetentionThroughSeqCommand(metadb.ChannelRetentionAdvance{ChannelID: ghost, ChannelType: 2,
			ExpectedChannelEpoch: 1, ExpectedLeaderEpoch: 1, ExpectedLeader: 1, ExpectedLeaseUntilMS: now, RetentionThroughSeq: 5, RetentionUpdatedAtMS: now})
	case 1:
		data = fsm.EncodeClaimChannelMigrationTaskCommand(metadb.ChannelMigrationTaskClaim{Guard: metadb.ChannelMigrationTaskGuard{ChannelID: ghost, ChannelType: 2,
			TaskID: "TX", ExpectedStatus: metadb.ChannelMigrationStatusPending, ExpectedPhase: metadb.ChannelMigrationPhaseValidate}, Status: metadb.ChannelMigrationStatusRunning,
			Phase: metadb.ChannelMigrationPhaseValidate, OwnerNodeID: 1, OwnerLeaseUntilMS: now + 10, NowMS: now, UpdatedAtMS: now})
	default:
		data = fsm.EncodeAdvanceChannelMigrationTaskCommand(metadb.ChannelMigrationTaskAdvance{Guard: metadb.ChannelMigrationTaskGuard{ChannelID: ghost, ChannelType: 2,
			TaskID: "TX", ExpectedStatus: metadb.ChannelMigrationStatusPending, ExpectedPhase: metadb.ChannelMigrationPhaseValidate}, Status: metadb.ChannelMigrationStatusRunning,
			Phase: metadb.ChannelMigrationPhaseValidate, UpdatedAtMS: now})
	}
	return multiraft.Command{HashSlot: hs, Data: data}, hs
}

type obs struct {
	Outbox []int64 `json:"outbox"`
	Fence  int64   `json:"fence"`
	Deltas []int64 `json:"deltas"`
}

func (s *sut) observe() (obs, error) {
	o := obs{Outbox: []int64{}, Deltas: []int64{}}
	rows, err := s.src.db.ListHashSlotMigrationOutbox(bg, hsH, srcSlot, tgtSlot, 0, 10000)
	if err != nil {
		return o, err
	}
	for _, r := range rows {
		o.Outbox = append(o.Outbox, int64(r.SourceIndex))
	}
	st, err := s.src.db.LoadHashSlotMigrationState(bg, hsH)
	if err == nil {
		o.Fence = int64(st.FenceIndex)
	} else if !errors.Is(err, metadb.ErrNotFound) {
		return o, err
	}
	ds, err := s.tgt.db.ListAppliedHashSlotDeltas(bg, hsH)
	if err != nil {
		return o, err
	}
	for _, d := range ds {
		if d.SourceSlot == srcSlot {
			o.Deltas = append(o.Deltas, int64(d.SourceIndex))
		}
	}
	sort.Slice(o.Outbox, func(i, j int) bool { return o.Outbox[i] < o.Outbox[j] })
	sort.Slice(o.Deltas, func(i, j int) bool { return o.Deltas[i] < o.Deltas[j] })
	return o, nil
}

// contentCheck compares hash slot H on the target with the oracle (after the snapshot import).
func (s *sut) contentCheck() (string, error) {
	if s.phase == "snapshot" {
		// nothing of H may be on the target yet
		got, err := s.tgt.content(hsH)
		if err != nil {
			return "", err
		}
		if len(got) != 0 {
			return fmt.Sprintf("target holds %d rows of hash slot %d before the migration started", len(got), hsH), nil
		}
		return "", nil
	}
	want, err := s.ora.content(hsH)
	if err != nil {
		return "", err
	}
	got, err := s.tgt.content(hsH)
	if err != nil {
		return "", err
	}
	return diffContent(want, got), nil
}

type stepResult struct {
	res map[string]any
	st  map[string]any
}

// do executes one action; ev carries the call (its "res" is ignored).  A non-empty viol names
// a violation that is not expressed by reply/projection (content, forwarder, panic).
func (s *sut) do(ev map[string]any) (out stepResult, viol string, infra error) {
	res := map[string]any{"err": false}
	switch kit.Str(ev, "a") {
	case "SrcApply":
		var cmds []multiraft.Command
		ks := kit.List(ev, "ks")
		base := int64(s.src.idx)
		issued := map[int64][]byte{}
		for j, k := range ks {
			idx := base + int64(j) + 1
			switch k.(string) {
			case "W":
				p := s.payload()
				issued[idx] = p
				cmds = append(cmds, multiraft.Command{HashSlot: hsH, Data: p})
			case "O":
				cmds = append(cmds, multiraft.Command{HashSlot: hsO, Data: s.payload()})
			case "F":
				cmds = append(cmds, multiraft.Command{HashSlot: hsH, Data: fsm.EncodeEnterFenceCommand(hsH)})
			default:
				return out, "", fmt.Errorf("unknown kind %v", k)
			}
		}
		before, err := s.src.content(hsH)
		if err != nil {
			return out, "", err
		}
		s.lose, s.fwd, s.fwdE = kit.Bool(ev, "lose"), nil, ""
		rs, aerr, pan := s.src.apply(cmds)
		s.lose = false
		if pan != nil {
			return out, fmt.Sprintf("source ApplyBatch panicked: %v", pan), nil
		}
		if s.fwdE != "" {
			return out, s.fwdE, nil
		}
		results := []string{}
		fwd := append([]int64{}, s.fwd...)
		if aerr != nil {
			res["err"] = true
			fwd = []int64{}
			if len(s.fwd) != 0 {
				return out, "a refused source batch called the forwarder", nil
			}
		} else {
			for j, r := range rs {
				idx := base + int64(j) + 1
				if string(r) == fsm.ApplyResultHashSlotFenced {
					results = append(results, "fenced")
					continue
				}
				results = append(results, "ok")
				k := ks[j].(string)
				if k == "W" {
					s.pay[idx] = issued[idx]
					s.isW[idx] = true
					if s.phase == "snapshot" {
						if err := s.oracleApply(issued[idx]); err != nil {
							return out, "", fmt.Errorf("oracle: %w", err)
						}
					}
				}
				if k == "F" && s.phase == "delta" {
					s.phase = "switching"
				}
			}
		}
		// a refused or fenced write changes nothing of H on the source
		changedAllowed := false
		for j, r := range results {
			if ks[j].(string) == "W" && r == "ok" {
				changedAllowed = true
			}
		}
		if !changedAllowed {
			after, err := s.src.content(hsH)
			if err != nil {
				return out, "", err
			}
			if d := diffContent(before, after); d != "" {
				return out, "a source batch without an accepted write for the hash slot changed its metadata: " + d, nil
			}
		}
		// forwarded payloads must be the original commands
		for _, i := range fwd {
			if m := s.chanM[i]; m != nil && s.isW[i] && !bytes.Equal(m.data, s.pay[i]) {
				return out, fmt.Sprintf("forwarded payload of source index %d differs from the accepted command", i), nil
			}
		}
		res["results"], res["fwd"] = results, fwd
	case "StartDelta":
		s.phase = "delta"
		s.src.sm.UpdateOutgoingDeltaTargets(map[uint16]multiraft.SlotID{hsH: tgtSlot})
		snap, err := s.src.sm.ExportHashSlotSnapshot(bg, hsH)
		if err != nil {
			return out, "", fmt.Errorf("export: %w", err)
		}
		if err := s.tgt.sm.ImportHashSlotSnapshot(bg, snap); err != nil {
			return out, "", fmt.Errorf("import: %w", err)
		}
		s.tgt.sm.UpdateIncomingDeltaHashSlots([]uint16{hsH})
	case "Deliver":
		var cmds []multiraft.Command
		var ids []int64
		for _, m := range kit.List(ev, "ms") {
			i := kit.ToInt(m)
			msg := s.chanM[i]
			if msg == nil || msg.copies <= 0 {
				return out, "", fmt.Errorf("deliver %d: not in flight", i)
			}
			msg.copies--
			ids = append(ids, i)
			cmds = append(cmds, multiraft.Command{HashSlot: hsH, Data: fsm.EncodeApplyDeltaCommand(srcSlot, uint64(i), hsH, msg.data)})
		}
		// the co-batched command of the target's own traffic
		mate, matePos, mateHS := mateOf(ev), -1, hsT
		var mateBefore map[string]string
		switch mate {
		case "none":
		case "stale":
			var mc multiraft.Command
			mc, mateHS = s.staleMate()
			matePos = s.rng.Intn(len(cmds) + 1)
			cmds = insertCmd(cmds, matePos, mc)
			var err error
			if mateBefore, err = s.tgt.content(mateHS); err != nil {
				return out, "", err
			}
		case "refused":
			// an ordinary write for a hash slot the target never owns
			matePos = len(cmds)
			if s.rng.Intn(3) == 0 {
				matePos = s.rng.Intn(len(cmds) + 1)
			}
			cmds = insertCmd(cmds, matePos, multiraft.Command{HashSlot: hsO, Data: s.payload()})
		default:
			return out, "", fmt.Errorf("unknown mate %q", mate)
		}
		res["mate"] = "none"
		rs, aerr, pan := s.tgt.apply(cmds)
		if pan != nil {
			return out, fmt.Sprintf("target ApplyBatch panicked: %v", pan), nil
		}
		if aerr != nil {
			res["err"] = true
			break
		}
		if len(rs) != len(cmds) {
			return out, fmt.Sprintf("target ApplyBatch answered %d results for %d commands", len(rs), len(cmds)), nil
		}
		if mate == "stale" {
			if string(rs[matePos]) == fsm.ApplyResultStaleMeta {
				res["mate"] = "stale"
			} else {
				res["mate"] = "answered:" + string(rs[matePos])
			}
			if mateHS != hsH { // hash slot H itself is compared with the oracle below
				after, err := s.tgt.content(mateHS)
				if err != nil {
					return out, "", err
				}
				if d := diffContent(mateBefore, after); d != "" {
					return out, "a conditional command answered stale changed metadata: " + d, nil
				}
			}
		}
		for _, i := range ids {
			if s.first[i] {
				continue
			}
			s.first[i] = true
			if s.isW[i] {
				s.app = append(s.app, i)
				if err := s.oracleApply(s.pay[i]); err != nil {
					return out, "", fmt.Errorf("oracle: %w", err)
				}
			}
		}
	case "Dup":
		m := s.chanM[kit.Int(ev, "i")]
		if m == nil || m.copies <= 0 {
			return out, "", fmt.Errorf("dup: not in flight")
		}
		m.copies++
	case "Drop":
		m := s.chanM[kit.Int(ev, "i")]
		if m == nil || m.copies <= 0 {
			return out, "", fmt.Errorf("drop: not in flight")
		}
		m.copies--
	case "Retry":
		rows, err := s.src.db.ListHashSlotMigrationOutbox(bg, hsH, srcSlot, tgtSlot, 0, 10000)
		if err != nil {
			return out, "", err
		}
		byIdx := map[int64][]byte{}
		list := []int64{}
		for _, r := range rows {
			byIdx[int64(r.SourceIndex)] = r.Data
			list = append(list, int64(r.SourceIndex))
		}
		sort.Slice(list, func(i, j int) bool { return list[i] < list[j] })
		res["rows"] = list
		for _, v := range kit.List(ev, "sent") {
			i := kit.ToInt(v)
			data, ok := byIdx[i]
			if !ok {
				return out, fmt.Sprintf("the outbox has no row for source index %d (rows: %v), the delta cannot be re-sent", i, list), nil
			}
			s.enqueue(i, data)
		}
	case "Ack":
		i := kit.Int(ev, "i")
		_, aerr, pan := s.src.apply([]multiraft.Command{{HashSlot: hsH, Data: fsm.EncodeAckHashSlotMigrationOutboxCommand(hsH, srcSlot, tgtSlot, uint64(i))}})
		if pan != nil {
			return out, fmt.Sprintf("source ApplyBatch panicked: %v", pan), nil
		}
		res["err"] = aerr != nil
	case "Switch":
		s.phase = "done"
		s.src.sm.UpdateOwnedHashSlots(s.srcOwned())
		s.src.sm.UpdateOutgoingDeltaTargets(map[uint16]multiraft.SlotID{})
		s.tgt.sm.UpdateOwnedHashSlots(s.tgtOwned())
		s.tgt.sm.UpdateIncomingDeltaHashSlots(nil)
	case "TgtWrite":
		p := s.payload()
		s.tw++
		_, aerr, pan := s.tgt.apply([]multiraft.Command{{HashSlot: hsH, Data: p}})
		if pan != nil {
			return out, fmt.Sprintf("target ApplyBatch panicked: %v", pan), nil
		}
		if aerr != nil {
			res["err"] = true
		} else {
			s.app = append(s.app, 1000+s.tw)
			if err := s.oracleApply(p); err != nil {
				return out, "", fmt.Errorf("oracle: %w", err)
			}
		}
	case "Cleanup":
		st, err := s.src.db.LoadHashSlotMigrationState(bg, hsH)
		if err != nil {
			return out, "", fmt.Errorf("cleanup: %w", err)
		}
		_, aerr, pan := s.src.apply([]multiraft.Command{{HashSlot: hsH, Data: fsm.EncodeCleanupHashSlotMigrationOutboxCommand(hsH, srcSlot, tgtSlot, st.LastOutboxIndex)}})
		if pan != nil {
			return out, fmt.Sprintf("source ApplyBatch panicked: %v", pan), nil
		}
		res["err"] = aerr != nil
	case "RestartBare":
		if err := s.src.newSM(s.srcOwned()); err != nil {
			return out, "", err
		}
		s.bare = true
	case "Resupply":
		s.src.sm.SetDeltaForwarder(s.forward)
		s.src.sm.UpdateOutgoingDeltaTargets(map[uint16]multiraft.SlotID{hsH: tgtSlot})
		s.bare = false
	case "Restart":
		var err error
		if kit.Str(ev, "who") == "src" {
			err = s.wireSrc()
		} else {
			err = s.wireTgt()
		}
		if err != nil {
			return out, "", err
		}
	default:
		return out, "", fmt.Errorf("unknown action %q", kit.Str(ev, "a"))
	}
	o, err := s.observe()
	if err != nil {
		return out, "", err
	}
	d, err := s.contentCheck()
	if err != nil {
		return out, "", err
	}
	if d != "" {
		viol = "hash slot metadata on the target differs from every accepted write applied exactly once: " + d
	}
	app := append([]int64{}, s.app...)
	out = stepResult{res: res, st: map[string]any{"outbox": o.Outbox, "fence": o.Fence, "deltas": o.Deltas, "applied": app}}
	return out, viol, nil
}

// ---------------------------------------------------------------------------------------

type harness struct {
	rep    *kit.Report
	rng    *rand.Rand
	root   string
	src    *node
	tgt    *node
	ora    *node
	maxSrc int64
	seen   map[string]bool
}

func (h *harness) violate(kind, sig, detail string, replay any) {
	if h.seen[sig] {
		h.rep.AddExtra("violations_suppressed_same_signature", 1)
		return
	}
	h.seen[sig] = true
	h.rep.ViolateSig(property, kind, detail, sig, replay)
}

func (h *harness) nodes() error {
	var err error
	if h.src == nil {
		if h.src, err = openNode(filepath.Join(h.root, "src"), srcSlot); err != nil {
			return err
		}
		if h.tgt, err = openNode(filepath.Join(h.root, "tgt"), tgtSlot); err != nil {
			return err
		}
		if h.ora, err = openNode(filepath.Join(h.root, "ora"), oraSlot); err != nil {
			return err
		}
	}
	for _, n := range []*node{h.src, h.tgt, h.ora} {
		if err := n.wipe(); err != nil {
			return err
		}
	}
	return nil
}

func (h *harness) newSUT() (*sut, error) {
	if err := h.nodes(); err != nil {
		return nil, err
	}
	s := &sut{h: h, src: h.src, tgt: h.tgt, ora: h.ora, rng: h.rng, phase: "snapshot", chanM: map[int64]*message{}, pay: map[int64][]byte{},
		first: map[int64]bool{}, isW: map[int64]bool{}, app: []int64{}}
	if err := s.wireSrc(); err != nil {
		return nil, err
	}
	if err := s.wireTgt(); err != nil {
		return nil, err
	}
	if err := s.ora.newSM([]uint16{hsH}); err != nil {
		return nil, err
	}
	return s, nil
}

func sigOf(a string, kind string) string { return kind + ":" + a }

func (h *harness) replayBehaviour(bi int, b kit.Behaviour) {
	s, err := h.newSUT()
	if err != nil {
		h.rep.Infra("set up: %v", err)
		return
	}
	for si, st := range b.Steps[1:] {
		a := actName(st.Ev)
		h.rep.Cover(a)
		out, viol, ierr := s.do(kit.CloneEv(st.Ev))
		replay := map[string]any{"behaviour": b, "step": si + 1, "observed": map[string]any{"res": out.res, "st": out.st}}
		if ierr != nil {
			h.rep.Infra("behaviour %d step %d %s: %v", bi, si+1, a, ierr)
			return
		}
		if viol != "" {
			h.violate("state", sigOf(a, "content"), fmt.Sprintf("step %d %s: %s", si+1, kit.JSON(kit.CloneEv(st.Ev)), viol), replay)
			return
		}
		if d := kit.Diff(st.Ev["res"], out.res); d != "" {
			h.violate("reply", sigOf(a, "reply"), fmt.Sprintf("step %d %s: %s", si+1, kit.JSON(kit.CloneEv(st.Ev)), d), replay)
			return
		}
		if d := kit.Diff(st.St, out.st); d != "" {
			h.violate("state", sigOf(a, "state"), fmt.Sprintf("step %d %s: %s", si+1, kit.JSON(kit.CloneEv(st.Ev)), d), replay)
			return
		}
	}
	h.rep.Replayed(len(b.Steps) - 1)
	if bi == 0 {
		h.rep.Sample(b)
	}
}

// drive: seeded random orchestrator and channel, recorded for TLC.
func (h *harness) drive(rec *kit.Recorder) {
	s, err := h.newSUT()
	if err != nil {
		h.rep.Infra("set up: %v", err)
		return
	}
	var buf []kit.Step
	inflight := func() []int64 {
		var out []int64
		for i, m := range s.chanM {
			if m.copies > 0 {
				out = append(out, i)
			}
		}
		sort.Slice(out, func(i, j int) bool { return out[i] < out[j] })
		return out
	}
	pick := func(xs []int64) int64 { return xs[h.rng.Intn(len(xs))] }
	kinds := func(allowF bool) []any {
		n := 1 + h.rng.Intn(2)
		out := make([]any, n)
		for i := range out {
			switch r := h.rng.Intn(10); {
			case r < 6:
				out[i] = "W"
			case r < 8 && allowF:
				out[i] = "F"
			default:
				out[i] = "O"
			}
		}
		return out
	}
	steps := 18 + h.rng.Intn(22)
	for n := 0; n < steps; n++ {
		if int64(s.src.idx) > h.maxSrc-3 {
			break
		}
		o, err := s.observe()
		if err != nil {
			h.rep.Infra("observe: %v", err)
			return
		}
		applied := map[int64]bool{}
		for _, d := range o.Deltas {
			applied[d] = true
		}
		var ackable []int64
		pendingAll := true
		for _, i := range o.Outbox {
			if applied[i] {
				ackable = append(ackable, i)
			} else {
				pendingAll = false
			}
		}
		fl := inflight()
		var ev map[string]any
		r := h.rng.Intn(100)
		switch s.phase {
		case "snapshot":
			switch {
			case r < 55:
				ev = kit.Ev("SrcApply", "ks", kinds(r < 5), "lose", false)
			case r < 62:
				ev = kit.Ev("TgtWrite", "n", s.tw+1)
			case r < 66:
				ev = kit.Ev("Restart", "who", []string{"src", "tgt"}[h.rng.Intn(2)])
			default:
				ev = kit.Ev("StartDelta")
			}
		case "delta", "switching":
			sw := s.phase == "switching"
			switch {
			case s.bare && r < 55:
				ev = kit.Ev("SrcApply", "ks", kinds(true), "lose", false)
			case s.bare:
				ev = kit.Ev("Resupply")
			case sw && r >= 97:
				ev = kit.Ev("RestartBare")
			case sw && o.Fence != 0 && applied[o.Fence] && pendingAll && r < 30:
				ev = kit.Ev("Switch")
			case r < 30 && !sw, r < 8:
				ev = kit.Ev("SrcApply", "ks", kinds(r%3 == 0), "lose", h.rng.Intn(3) == 0)
			case r < 60 && len(fl) > 0:
				ms := []any{pick(fl)}
				used := map[int64]int{ms[0].(int64): 1}
				for k := 0; k < 2 && h.rng.Intn(5) < 2; k++ {
					j := pick(fl)
					if used[j] < s.chanM[j].copies {
						used[j]++
						ms = append(ms, j)
					}
				}
				// half of the target batches carry only deltas, a third a stale mate, a sixth a refused one
				mate := "none"
				switch d := h.rng.Intn(6); {
				case d >= 5:
					mate = "refused"
				case d >= 3:
					mate = "stale"
				}
				ev = kit.Ev("Deliver", "ms", ms, "mate", mate)
			case r < 68 && len(fl) > 0:
				ev = kit.Ev([]string{"Dup", "Drop"}[h.rng.Intn(2)], "i", pick(fl))
			case r < 80 && len(o.Outbox) > 0:
				var sent []any
				for _, i := range o.Outbox {
					if h.rng.Intn(4) != 0 {
						sent = append(sent, i)
					}
				}
				if len(sent) == 0 {
					sent = append(sent, o.Outbox[0])
				}
				ev = kit.Ev("Retry", "sent", sent)
			case r < 88 && len(ackable) > 0:
				ev = kit.Ev("Ack", "i", pick(ackable))
			case r < 92:
				ev = kit.Ev("TgtWrite", "n", s.tw+1)
			case r < 97:
				ev = kit.Ev("Restart", "who", []string{"src", "tgt"}[h.rng.Intn(2)])
			default:
				ev = kit.Ev("SrcApply", "ks", []any{"F"}, "lose", h.rng.Intn(3) == 0)
			}
		default: // done
			switch {
			case r < 30:
				ev = kit.Ev("TgtWrite", "n", s.tw+1)
			case r < 50:
				ev = kit.Ev("SrcApply", "ks", kinds(true), "lose", false)
			case r < 70 && len(fl) > 0:
				ev = kit.Ev("Deliver", "ms", []any{pick(fl)}, "mate", []string{"none", "stale"}[h.rng.Intn(2)])
			case r < 80 && o.Fence != 0:
				ev = kit.Ev("Cleanup")
			default:
				ev = kit.Ev("Restart", "who", []string{"src", "tgt"}[h.rng.Intn(2)])
			}
		}
		out, viol, ierr := s.do(ev)
		if ierr != nil {
			h.rep.Infra("driver %s: %v", kit.JSON(ev), ierr)
			return
		}
		h.rep.Cover(actName(ev))
		ev["res"] = out.res
		buf = append(buf, kit.Step{Ev: ev, St: out.st})
		if viol != "" {
			h.violate("state", sigOf(actName(ev), "content"), fmt.Sprintf("driver step %d %s: %s", len(buf), kit.JSON(ev), viol), map[string]any{"steps": buf})
			return
		}
	}
	rec.Begin(map[string]any{}, map[string]any{"outbox": []int64{}, "fence": 0, "deltas": []int64{}, "applied": []int64{}})
	for _, st := range buf {
		rec.Step(st.Ev, st.St)
	}
}

func TestVerifHashSlotMigration(t *testing.T) {
	env, ok := kit.LoadEnv()
	if !ok {
		t.Skip("not started by the verif runner")
	}
	rep := kit.NewReport(env, "hashslotmigration")
	rec, err := kit.NewRecorder(env.TraceFile)
	if err != nil {
		t.Fatal(err)
	}
	root, rerr := os.MkdirTemp("/dev/shm", "verif-hsmig-")
	if rerr != nil {
		root = t.TempDir()
	}
	defer os.RemoveAll(root)
	h := &harness{rep: rep, rng: env.Rand(), root: root, seen: map[string]bool{}, maxSrc: 40}
	defer func() {
		for _, n := range []*node{h.src, h.tgt, h.ora} {
			if n != nil && n.db != nil {
				n.db.Close()
			}
		}
	}()

	behs, err := kit.LoadBehaviours(env.BehFile)
	if err != nil {
		rep.Infra("load behaviours: %v", err)
	}
	for bi, b := range behs {
		if len(b.Steps) == 0 || kit.Str(b.Steps[0].Ev, "a") != "Init" {
			rep.Infra("behaviour %d does not start with Init", bi)
			continue
		}
		h.replayBehaviour(bi, b)
	}
	traces := env.Pick(60, 600)
	for i := 0; i < traces; i++ {
		h.drive(rec)
	}
	if err := rec.Close(); err != nil {
		rep.Infra("trace file: %v", err)
	}
	if err := rep.Finish(rec); err != nil {
		t.Fatal(err)
	}
}

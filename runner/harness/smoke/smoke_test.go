package smoke

// Compile-only smoke test: proves that ext harnesses can import the repo's packages through the
// replace directive, and pins the transitive requirements into runner/go.mod.

import (
	"testing"

	_ "github.com/WuKongIM/WuKongIM/pkg/channel/machine"
	_ "github.com/WuKongIM/WuKongIM/pkg/channel/replication"
	_ "github.com/WuKongIM/WuKongIM/pkg/channel/store"
	_ "github.com/WuKongIM/WuKongIM/pkg/controller/fsm"
	_ "github.com/WuKongIM/WuKongIM/pkg/db"
	_ "github.com/WuKongIM/WuKongIM/pkg/gateway/core"
	_ "github.com/WuKongIM/WuKongIM/pkg/hashslot"
	_ "github.com/WuKongIM/WuKongIM/pkg/raftlog"
	_ "github.com/WuKongIM/WuKongIM/pkg/slot/fsm"
	_ "github.com/WuKongIM/WuKongIM/pkg/slot/multiraft"
	_ "github.com/WuKongIM/WuKongIM/pkg/transport"
	_ "github.com/WuKongIM/WuKongIM/pkg/workqueue"
	"verif/runner/kit"
)

func TestSmoke(t *testing.T) {
	if _, ok := kit.LoadEnv(); !ok {
		t.Skip("not started by the verif runner")
	}
}

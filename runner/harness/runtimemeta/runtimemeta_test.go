package runtimemeta

// Conformance harness for specs/RuntimeMeta (property C15). A package of the
// runner module: it opens a real metadata DB (Pebble) in a temporary directory and
// drives the exported API of github.com/WuKongIM/WuKongIM/pkg/db/meta only.
//
//	Upsert   MetaDB.HashSlot(hs).UpsertChannelRuntimeMeta        (MonotonicResult)
//	Advance  MetaDB.HashSlot(hs).AdvanceChannelRetentionThroughSeq
//	Delete   MetaDB.HashSlot(hs).DeleteChannelRuntimeMeta
//	Batch    DB.NewWriteBatch + {Upsert,Create,AdvanceRetention,Delete}... + Commit
//	Reopen   DB.Close + meta.Open
//
// The projection is GetChannelRuntimeMeta of every channel of the case.

import (
	"context"
	"errors"
	"fmt"
	"math/rand"
	"testing"

	metadb "github.com/WuKongIM/WuKongIM/pkg/db/meta"
	"verif/runner/kit"
)

const chanType = 2 // not a person channel: DirectoryGeneration stays out of the picture

type rmSUT struct {
	dir    string
	db     *metadb.DB
	prefix string
	slots  map[string]uint16
	chans  []string
}

func openSUT(dir string) (*rmSUT, error) {
	db, err := metadb.Open(dir)
	if err != nil {
		return nil, err
	}
	return &rmSUT{dir: dir, db: db, chans: []string{"c1", "c2"}}, nil
}

// begin starts a new case: fresh channel ids, so every row starts absent.
func (s *rmSUT) begin(n int) {
	s.prefix = fmt.Sprintf("case%d", n)
	if n%2 == 0 {
		s.slots = map[string]uint16{"c1": 3, "c2": 9}
	} else {
		s.slots = map[string]uint16{"c1": 5, "c2": 5}
	}
}

func (s *rmSUT) id(c string) string { return s.prefix + "-" + c }

func (s *rmSUT) shard(c string) *metadb.Shard {
	return s.db.MetaDB().HashSlot(metadb.HashSlot(s.slots[c]))
}

func u64s(v []any) []uint64 {
	out := make([]uint64, 0, len(v))
	for _, x := range v {
		out = append(out, uint64(kit.ToInt(x)))
	}
	return out
}

// meta builds the candidate row. Fields the specification does not model are
// constant (MinISR, Features, DirectoryGeneration) or a fixed function of a
// modelled field (retention timestamp of the boundary; fence reason/deadline of
// the fence token and version), so the code's tie-breaks on them decide nothing.
func (s *rmSUT) meta(c string, m map[string]any) metadb.ChannelRuntimeMeta {
	out := metadb.ChannelRuntimeMeta{
		ChannelID: s.id(c), ChannelType: chanType,
		ChannelEpoch: uint64(kit.Int(m, "ce")), LeaderEpoch: uint64(kit.Int(m, "le")),
		RouteGeneration: uint64(kit.Int(m, "rg")),
		Replicas:        u64s(kit.List(m, "rep")), ISR: u64s(kit.List(m, "isr")),
		Leader: uint64(kit.Int(m, "leader")), MinISR: 1, Status: uint8(kit.Int(m, "status")),
		LeaseUntilMS:        kit.Int(m, "lease"),
		RetentionThroughSeq: uint64(kit.Int(m, "rts")), RetentionUpdatedAtMS: kit.Int(m, "rts") * 10,
		WriteFenceToken: kit.Str(m, "ftok"), WriteFenceVersion: uint64(kit.Int(m, "fver")),
	}
	if out.WriteFenceToken != "" {
		out.WriteFenceReason = 1
		out.WriteFenceUntilMS = 100000 + kit.Int(m, "fver")
	}
	return out
}

func (s *rmSUT) advance(c string, m map[string]any) metadb.ChannelRetentionAdvance {
	return metadb.ChannelRetentionAdvance{
		ChannelID: s.id(c), ChannelType: chanType,
		ExpectedChannelEpoch: uint64(kit.Int(m, "ce")), ExpectedLeaderEpoch: uint64(kit.Int(m, "le")),
		ExpectedLeader: uint64(kit.Int(m, "leader")), ExpectedLeaseUntilMS: kit.Int(m, "lease"),
		RetentionThroughSeq: uint64(kit.Int(m, "rts")), RetentionUpdatedAtMS: kit.Int(m, "rts") * 10,
	}
}

func ints(v []uint64) []int64 {
	out := make([]int64, 0, len(v))
	for _, x := range v {
		out = append(out, int64(x))
	}
	return out
}

var absentRow = map[string]any{"present": false, "ce": 0, "le": 0, "rg": 0, "leader": 0,
	"rep": []int64{}, "isr": []int64{}, "status": 0, "lease": 0, "rts": 0, "ftok": "", "fver": 0}

// rowOf is GetChannelRuntimeMeta of one channel in the shape of the specification's row.
func (s *rmSUT) rowOf(c string) (map[string]any, error) {
	row, ok, err := s.shard(c).GetChannelRuntimeMeta(context.Background(), s.id(c), chanType)
	if err != nil {
		return nil, fmt.Errorf("GetChannelRuntimeMeta(%s): %w", c, err)
	}
	if !ok {
		return absentRow, nil
	}
	return map[string]any{"present": true, "ce": row.ChannelEpoch, "le": row.LeaderEpoch,
		"rg": row.RouteGeneration, "leader": row.Leader, "rep": ints(row.Replicas), "isr": ints(row.ISR),
		"status": row.Status, "lease": row.LeaseUntilMS, "rts": row.RetentionThroughSeq,
		"ftok": row.WriteFenceToken, "fver": row.WriteFenceVersion}, nil
}

func (s *rmSUT) proj() (map[string]any, error) {
	out := map[string]any{}
	for _, c := range s.chans {
		row, err := s.rowOf(c)
		if err != nil {
			return nil, err
		}
		out[c] = row
	}
	return out, nil
}

// errClass maps an error of the metadata DB to the reply vocabulary of the
// specification. Anything else is harness/infrastructure trouble.
func errClass(err error) (string, error) {
	switch {
	case err == nil:
		return "ok", nil
	case errors.Is(err, metadb.ErrStaleMeta):
		return "conflict", nil
	case errors.Is(err, metadb.ErrNotFound):
		return "notfound", nil
	case errors.Is(err, metadb.ErrInvalidArgument):
		return "invalid", nil // never expected: the specification only issues valid calls
	}
	return "", err
}

// apply performs the call described by ev (its "res" is ignored) and returns the
// observed reply and projection. A non-nil error is infrastructure trouble.
func (s *rmSUT) apply(ev map[string]any) (map[string]any, map[string]any, error) {
	res, err := s.call(ev)
	if err != nil {
		return nil, nil, err
	}
	st, err := s.proj()
	if err != nil {
		return nil, nil, err
	}
	return res, st, nil
}

// call performs the call described by ev and returns the observed reply only (safe for
// concurrent use, except "Reopen").
func (s *rmSUT) call(ev map[string]any) (map[string]any, error) {
	ctx := context.Background()
	var res map[string]any
	switch kit.Str(ev, "a") {
	case "Upsert":
		c := kit.Str(ev, "c")
		r, err := s.shard(c).UpsertChannelRuntimeMeta(ctx, s.meta(c, kit.Map(ev, "m")))
		cls, ierr := errClass(err)
		if ierr != nil {
			return nil, ierr
		}
		switch {
		case r == metadb.MonotonicApplied && cls == "ok":
			res = map[string]any{"r": "applied"}
		case r == metadb.MonotonicIgnoredStale && cls == "ok":
			res = map[string]any{"r": "stale"}
		case r == metadb.MonotonicConflict && cls == "conflict":
			res = map[string]any{"r": "conflict"}
		default:
			res = map[string]any{"r": fmt.Sprintf("result=%d/error=%s", r, cls)}
		}
	case "Advance":
		c := kit.Str(ev, "c")
		cls, ierr := errClass(s.shard(c).AdvanceChannelRetentionThroughSeq(ctx, s.advance(c, kit.Map(ev, "m"))))
		if ierr != nil {
			return nil, ierr
		}
		res = map[string]any{"r": cls}
	case "Delete":
		c := kit.Str(ev, "c")
		cls, ierr := errClass(s.shard(c).DeleteChannelRuntimeMeta(ctx, s.id(c), chanType))
		if ierr != nil {
			return nil, ierr
		}
		res = map[string]any{"r": cls}
	case "Batch":
		ops := kit.List(ev, "ops")
		wb := s.db.NewWriteBatch()
		created := make([]*metadb.ChannelRuntimeMetaCreateResult, len(ops))
		for i, o := range ops {
			op, _ := o.(map[string]any)
			c, m := kit.Str(op, "c"), kit.Map(op, "m")
			var err error
			switch kit.Str(op, "k") {
			case "upsert":
				err = wb.UpsertChannelRuntimeMeta(s.slots[c], s.meta(c, m))
			case "create":
				created[i], err = wb.CreateChannelRuntimeMeta(s.slots[c], s.meta(c, m))
			case "advance":
				err = wb.AdvanceChannelRetentionThroughSeq(s.slots[c], s.advance(c, m))
			case "delete":
				err = wb.DeleteChannelRuntimeMeta(s.slots[c], s.id(c), chanType)
			default:
				err = fmt.Errorf("unknown batch op %q", kit.Str(op, "k"))
			}
			if err != nil {
				_ = wb.Close()
				return nil, fmt.Errorf("staging op %d: %w", i, err)
			}
		}
		cls, ierr := errClass(wb.Commit())
		_ = wb.Close()
		if ierr != nil {
			return nil, ierr
		}
		flags := make([]bool, len(ops))
		if cls == "ok" { // Created is meaningful only after a successful commit
			for i, cr := range created {
				flags[i] = cr != nil && cr.Created
			}
		}
		res = map[string]any{"err": cls, "created": flags}
	case "Get": // concurrent stage only: a read that is part of the history
		row, err := s.rowOf(kit.Str(ev, "c"))
		if err != nil {
			return nil, err
		}
		res = rowView(row)
	case "Reopen":
		if err := s.db.Close(); err != nil {
			return nil, fmt.Errorf("close: %w", err)
		}
		db, err := metadb.Open(s.dir)
		if err != nil {
			return nil, fmt.Errorf("reopen: %w", err)
		}
		s.db = db
		res = map[string]any{"ok": true}
	default:
		return nil, fmt.Errorf("unknown action %q", kit.Str(ev, "a"))
	}
	return res, nil
}

// ---- seeded random driver (code -> spec) -------------------------------------------

var (
	topos = []struct {
		rep, isr []int64
		status   int64
	}{
		{[]int64{1, 2}, []int64{1, 2}, 1}, {[]int64{1, 2, 3}, []int64{1, 2}, 1}, {[]int64{1, 2, 3}, []int64{1, 2, 3}, 1},
		{[]int64{1, 2}, []int64{1, 2}, 2}, {[]int64{1, 2}, []int64{1}, 1}, {[]int64{2, 3, 4}, []int64{2, 4}, 1},
		{[]int64{1, 2, 3}, []int64{2, 3}, 3}, {[]int64{1, 2, 3, 4, 5}, []int64{1, 2, 3}, 1},
	}
	toks = []string{"", "a", "b", "task-7"}
)

func clamp(x int64) int64 {
	if x < 0 {
		return 0
	}
	return x
}

func has(v []int64, x int64) bool {
	for _, y := range v {
		if y == x {
			return true
		}
	}
	return false
}

func validCand(m map[string]any) bool {
	rep, isr := m["rep"].([]int64), m["isr"].([]int64)
	ld := m["leader"].(int64)
	if len(rep) == 0 {
		return false
	}
	for _, x := range isr {
		if !has(rep, x) {
			return false
		}
	}
	if ld != 0 && (!has(rep, ld) || !has(isr, ld)) {
		return false
	}
	if m["ftok"].(string) != "" && m["fver"].(int64) <= 0 {
		return false
	}
	return true
}

func asI(v any) int64 { return kit.ToInt(kit.Canon(v)) }

func asList(v any) []int64 {
	l, _ := kit.Canon(v).([]any)
	out := make([]int64, 0, len(l))
	for _, x := range l {
		out = append(out, kit.ToInt(x))
	}
	return out
}

// genCand draws one valid candidate: random, or aimed at the stored row (one field
// changed, or an epoch moved), with the route generation omitted/stale/equal/newer.
func genCand(rng *rand.Rand, row map[string]any) map[string]any {
	for {
		t := topos[rng.Intn(len(topos))]
		m := map[string]any{"ce": int64(rng.Intn(5)), "le": int64(rng.Intn(6)), "rg": int64(0), "leader": int64(rng.Intn(5)),
			"rep": t.rep, "isr": t.isr, "status": t.status, "lease": int64(rng.Intn(2000)), "rts": int64(rng.Intn(50)),
			"ftok": toks[rng.Intn(len(toks))], "fver": int64(rng.Intn(5))}
		if rng.Intn(3) == 0 {
			m["rg"] = int64(rng.Intn(40))
		}
		present, _ := row["present"].(bool)
		if present && rng.Intn(5) != 0 {
			b := map[string]any{"ce": asI(row["ce"]), "le": asI(row["le"]), "rg": int64(0), "leader": asI(row["leader"]),
				"rep": asList(row["rep"]), "isr": asList(row["isr"]), "status": asI(row["status"]), "lease": asI(row["lease"]),
				"rts": asI(row["rts"]), "ftok": row["ftok"].(string), "fver": asI(row["fver"])}
			switch rng.Intn(5) {
			case 0:
				b["rg"] = clamp(asI(row["rg"]) - 1)
			case 1:
				b["rg"] = asI(row["rg"])
			case 2:
				b["rg"] = asI(row["rg"]) + 1 + int64(rng.Intn(3))
			}
			dl := int64(rng.Intn(5)) - 2
			switch rng.Intn(11) {
			case 0: // identical
			case 1:
				b["rep"], b["isr"], b["status"] = t.rep, t.isr, t.status
			case 2:
				b["lease"] = clamp(asI(row["lease"]) + dl)
			case 3:
				b["rts"] = clamp(asI(row["rts"]) + dl)
			case 4:
				b["ftok"], b["fver"] = m["ftok"], clamp(asI(row["fver"])+int64(rng.Intn(3))-1)
			case 5:
				b["leader"] = m["leader"]
			case 6:
				b["le"], b["leader"], b["lease"] = asI(row["le"])+1, m["leader"], clamp(asI(row["lease"])+dl)
			case 7:
				b["ce"], b["le"], b["leader"], b["lease"] = asI(row["ce"])+1, m["le"], m["leader"], clamp(asI(row["lease"])+dl)
			case 8:
				b["le"], b["lease"] = clamp(asI(row["le"])-1), clamp(asI(row["lease"])+dl)
			case 9:
				b["ce"], b["le"] = clamp(asI(row["ce"])-1), m["le"]
			case 10:
				b["rep"], b["isr"], b["status"] = t.rep, t.isr, t.status
				b["lease"], b["rts"] = clamp(asI(row["lease"])+dl), clamp(asI(row["rts"])+dl)
				b["ftok"], b["fver"] = m["ftok"], clamp(asI(row["fver"])+int64(rng.Intn(3))-1)
			}
			m = b
		}
		if validCand(m) {
			return m
		}
	}
}

var zeroM = map[string]any{"ce": int64(0), "le": int64(0), "rg": int64(0), "leader": int64(0), "rep": []int64{}, "isr": []int64{},
	"status": int64(0), "lease": int64(0), "rts": int64(0), "ftok": "", "fver": int64(0)}

func genReq(rng *rand.Rand, row map[string]any) map[string]any {
	q := map[string]any{}
	for k, v := range zeroM {
		q[k] = v
	}
	present, _ := row["present"].(bool)
	if !present {
		q["ce"], q["le"], q["leader"], q["lease"], q["rts"] = int64(1), int64(1), int64(1), int64(1), int64(rng.Intn(5))
		return q
	}
	q["ce"], q["le"], q["leader"], q["lease"] = asI(row["ce"]), asI(row["le"]), asI(row["leader"]), asI(row["lease"])
	q["rts"] = clamp(asI(row["rts"]) + int64(rng.Intn(5)) - 1)
	switch rng.Intn(9) {
	case 0:
		q["ce"] = asI(row["ce"]) + 1
	case 1:
		q["le"] = clamp(asI(row["le"]) - 1)
	case 2:
		q["leader"] = asI(row["leader"]) + 1
	case 3:
		q["lease"] = asI(row["lease"]) + 1
	}
	return q
}

func genOp(rng *rand.Rand, st map[string]any, chans []string) map[string]any {
	c := chans[rng.Intn(len(chans))]
	row, _ := st[c].(map[string]any)
	switch r := rng.Intn(10); {
	case r < 4:
		return map[string]any{"k": "upsert", "c": c, "m": genCand(rng, row)}
	case r < 6:
		return map[string]any{"k": "create", "c": c, "m": genCand(rng, row)}
	case r < 9:
		return map[string]any{"k": "advance", "c": c, "m": genReq(rng, row)}
	default:
		return map[string]any{"k": "delete", "c": c, "m": zeroM}
	}
}

func TestVerifRuntimeMeta(t *testing.T) {
	env, ok := kit.LoadEnv()
	if !ok {
		t.Skip("not started by the verif runner")
	}
	id := env.Property
	if id == "" {
		id = "C15"
	}
	rep := kit.NewReport(env, "runtimemeta")
	rec, err := kit.NewRecorder(env.TraceFile)
	if err != nil {
		t.Fatal(err)
	}
	finish := func() {
		if err := rec.Close(); err != nil {
			rep.Infra("trace file: %v", err)
		}
		if err := rep.Finish(rec); err != nil {
			t.Fatal(err)
		}
	}
	sut, err := openSUT(t.TempDir())
	if err != nil {
		rep.Infra("open metadata DB: %v", err)
		finish()
		return
	}
	defer func() { _ = sut.db.Close() }()
	caseNo := 0

	// ---- spec -> code: replay TLC behaviours ----
	behs, err := kit.LoadBehaviours(env.BehFile)
	if err != nil {
		rep.Infra("load behaviours: %v", err)
	}
	for bi, b := range behs {
		if len(b.Steps) == 0 || kit.Str(b.Steps[0].Ev, "a") != "Init" {
			rep.Infra("behaviour %d does not start with Init", bi)
			continue
		}
		caseNo++
		sut.begin(caseNo)
		for si, st := range b.Steps[1:] {
			res, proj, err := sut.apply(st.Ev)
			rep.Cover(kit.Str(st.Ev, "a"))
			if err != nil {
				rep.Infra("behaviour %d step %d %s: %v", bi, si+1, kit.JSON(kit.CloneEv(st.Ev)), err)
				break
			}
			if d := kit.Diff(st.Ev["res"], res); d != "" {
				rep.Violate(id, "reply", fmt.Sprintf("step %d %s: %s", si+1, kit.JSON(kit.CloneEv(st.Ev)), d),
					map[string]any{"behaviour": b, "step": si + 1, "observed": res, "observed_state": proj})
				break
			}
			if d := kit.Diff(st.St, proj); d != "" {
				rep.Violate(id, "state", fmt.Sprintf("step %d %s: stored rows %s", si+1, kit.JSON(kit.CloneEv(st.Ev)), d),
					map[string]any{"behaviour": b, "step": si + 1, "observed": proj})
				break
			}
		}
		rep.Replayed(len(b.Steps) - 1)
		if bi == 0 {
			rep.Sample(b)
		}
	}

	// ---- code -> spec: seeded random driver, trace validated by TLC ----
	rng := env.Rand()
	traces := env.Pick(150, 800)
	for tr := 0; tr < traces; tr++ {
		caseNo++
		sut.begin(caseNo)
		st, err := sut.proj()
		if err != nil {
			rep.Infra("projection: %v", err)
			break
		}
		rec.Begin(map[string]any{}, st)
		steps := 10 + rng.Intn(30)
		for i := 0; i < steps; i++ {
			c := sut.chans[rng.Intn(len(sut.chans))]
			row, _ := st[c].(map[string]any)
			var ev map[string]any
			switch r := rng.Intn(100); {
			case r < 45:
				ev = kit.Ev("Upsert", "c", c, "m", genCand(rng, row))
			case r < 60:
				ev = kit.Ev("Advance", "c", c, "m", genReq(rng, row))
			case r < 64:
				ev = kit.Ev("Delete", "c", c)
			case r < 97:
				n := 1 + rng.Intn(3)
				ops := make([]any, 0, n)
				for j := 0; j < n; j++ {
					ops = append(ops, genOp(rng, st, sut.chans))
				}
				ev = kit.Ev("Batch", "ops", ops)
			default:
				ev = kit.Ev("Reopen")
			}
			ev, _ = kit.Canon(ev).(map[string]any) // the JSON shape the specification sees
			res, proj, err := sut.apply(ev)
			if err != nil {
				rep.Infra("trace %d step %d %s: %v", tr, i, kit.JSON(ev), err)
				finish()
				return
			}
			ev["res"] = res
			rec.Step(ev, proj)
			rep.Cover(kit.Str(ev, "a"))
			st = proj
		}
	}
	finish()
}

package runtimemeta

// Concurrent stage of the C15 check (specs/RuntimeMeta/TraceLin.tla).
//
// The sequential stage (runtimemeta_test.go) cannot see a check-then-act race between two direct
// shard calls.  Here several goroutines issue Shard.UpsertChannelRuntimeMeta,
// Shard.AdvanceChannelRetentionThroughSeq, Shard.GetChannelRuntimeMeta and WriteBatch commits for the
// same channel at once.  Every call is logged twice, under one lock that gives the global order:
// "Call" just before it is issued and "Ret" with the observed reply just after it has returned; the
// rows stored when all calls have returned close the history ("Final").  The oracle is
// linearizability against the RuntimeMeta specification: TLC searches for an order of the calls,
// each taking effect between its Call and its Ret line, in which the specification gives exactly the
// logged replies and ends in exactly the logged rows; the C15 action properties are evaluated on the
// steps of that order.  Histories are small (3-4 goroutines x 2-3 calls) so the search stays cheap;
// there are many of them.
//
// Independently of TLC a direct necessary condition is checked on every history without a delete:
// the row stored at the end is not older (channel epoch, leader epoch lexicographically) than any
// candidate a direct upsert reported as applied.

import (
	"fmt"
	"math/rand"
	"sync"
	"testing"

	"verif/runner/kit"
)

func rowSum(row map[string]any) int64 {
	var n int64
	for _, k := range []string{"ce", "le", "rg", "leader", "status", "lease", "rts", "fver"} {
		n += asI(row[k])
	}
	return n
}

// rowView is how a row is logged in the concurrent stage: the row and the sum of its numeric
// fields (redundant on purpose: a trace in which one number was altered can never be explained
// by another order of the calls, which keeps the runner's corrupted-trace self-test sound).
func rowView(row map[string]any) map[string]any {
	return map[string]any{"row": row, "sum": rowSum(row)}
}

func candFromRow(row map[string]any) map[string]any {
	return map[string]any{"ce": asI(row["ce"]), "le": asI(row["le"]), "rg": int64(0), "leader": asI(row["leader"]),
		"rep": asList(row["rep"]), "isr": asList(row["isr"]), "status": asI(row["status"]), "lease": asI(row["lease"]),
		"rts": asI(row["rts"]), "ftok": row["ftok"].(string), "fver": asI(row["fver"])}
}

// concCand draws a candidate aimed at racing upserts: mostly a move to a newer epoch relative to
// the row the generator currently predicts, sometimes a same-epoch change, a stale epoch, or a
// candidate of the sequential generator.
func concCand(rng *rand.Rand, row map[string]any) map[string]any {
	present, _ := row["present"].(bool)
	if !present || rng.Intn(5) == 0 {
		return genCand(rng, row)
	}
	for {
		b := candFromRow(row)
		isr := asList(row["isr"])
		leader := func() int64 {
			if len(isr) == 0 || rng.Intn(6) == 0 {
				return 0
			}
			return isr[rng.Intn(len(isr))]
		}
		switch rng.Intn(9) {
		case 0, 1, 2, 3:
			b["le"], b["leader"] = asI(row["le"])+1+int64(rng.Intn(2)), leader()
			b["lease"] = clamp(asI(row["lease"]) + int64(rng.Intn(5)) - 2)
		case 4:
			b["ce"], b["le"], b["leader"] = asI(row["ce"])+1, int64(rng.Intn(4)), leader()
		case 5:
			b["lease"] = asI(row["lease"]) + 1 + int64(rng.Intn(3))
		case 6:
			b["rts"] = asI(row["rts"]) + 1 + int64(rng.Intn(3))
		case 7:
			b["le"] = clamp(asI(row["le"]) - 1)
		case 8:
			t := topos[rng.Intn(len(topos))]
			b["rep"], b["isr"], b["status"] = t.rep, t.isr, t.status
		}
		if rng.Intn(4) == 0 {
			b["rg"] = clamp(asI(row["rg"]) + int64(rng.Intn(4)) - 1)
		}
		if validCand(b) {
			return b
		}
	}
}

type concOp struct {
	id  int
	ev  map[string]any // the call: {"a": ..., "c": ..., "m"/"ops": ...}
	res map[string]any
}

// genConcOp draws one call relative to the predicted rows st.
func genConcOp(rng *rand.Rand, st map[string]any) map[string]any {
	row1, _ := st["c1"].(map[string]any)
	row2, _ := st["c2"].(map[string]any)
	switch r := rng.Intn(100); {
	case r < 50:
		return kit.Ev("Upsert", "c", "c1", "m", concCand(rng, row1))
	case r < 62:
		return kit.Ev("Advance", "c", "c1", "m", genReq(rng, row1))
	case r < 80:
		n := 1 + rng.Intn(2)
		ops := make([]any, 0, n)
		for j := 0; j < n; j++ {
			c, row := "c1", row1
			if rng.Intn(5) == 0 {
				c, row = "c2", row2
			}
			if rng.Intn(3) == 0 {
				ops = append(ops, map[string]any{"k": "advance", "c": c, "m": genReq(rng, row)})
			} else {
				ops = append(ops, map[string]any{"k": "upsert", "c": c, "m": concCand(rng, row)})
			}
		}
		return kit.Ev("Batch", "ops", ops)
	case r < 92:
		return kit.Ev("Get", "c", "c1")
	case r < 98:
		return kit.Ev("Upsert", "c", "c2", "m", genCand(rng, row2))
	default:
		return kit.Ev("Delete", "c", "c1")
	}
}

func deletes(ev map[string]any, c string) bool {
	switch kit.Str(ev, "a") {
	case "Delete":
		return kit.Str(ev, "c") == c
	case "Batch":
		for _, o := range kit.List(ev, "ops") {
			if op, _ := o.(map[string]any); kit.Str(op, "k") == "delete" && kit.Str(op, "c") == c {
				return true
			}
		}
	}
	return false
}

func lexLess(aCE, aLE, bCE, bLE int64) bool { return aCE < bCE || (aCE == bCE && aLE < bLE) }

func TestVerifRuntimeMetaConcurrent(t *testing.T) {
	env, ok := kit.LoadEnv()
	if !ok {
		t.Skip("not started by the verif runner")
	}
	id := env.Property
	if id == "" {
		id = "C15"
	}
	rep := kit.NewReport(env, "runtimemeta-conc")
	rec, err := kit.NewRecorder(env.TraceFile)
	if err != nil {
		t.Fatal(err)
	}
	finish := func() {
		if err := rec.Close(); err != nil {
			rep.Infra("trace file: %v", err)
		}
		if err := rep.Finish(rec); err != nil {
			t.Fatal(err)
		}
	}
	sut, err := openSUT(t.TempDir())
	if err != nil {
		rep.Infra("open metadata DB: %v", err)
		finish()
		return
	}
	defer func() { _ = sut.db.Close() }()
	// the generator predicts rows by running the calls one after the other on shadow channels
	// of the same database (aiming only; never an oracle)
	shadow := &rmSUT{dir: sut.dir, db: sut.db, chans: sut.chans}

	rng := rand.New(rand.NewSource(env.Seed*104729 + 71))
	histories := env.Pick(220, 1600)
	overlapped, regressions := 0, 0
	for h := 0; h < histories && rep.Violations() < 3; h++ {
		sut.begin(h + 1)
		shadow.begin(h + 1)
		shadow.prefix = sut.prefix + "shadow"
		st, err := shadow.proj()
		if err != nil {
			rep.Infra("projection: %v", err)
			break
		}
		predict := func(ev map[string]any) bool {
			if kit.Str(ev, "a") == "Get" {
				return true
			}
			_, p, err := shadow.apply(ev)
			if err != nil {
				rep.Infra("history %d: shadow %s: %v", h, kit.JSON(ev), err)
				return false
			}
			st = p
			return true
		}
		canon := func(ev map[string]any) map[string]any { m, _ := kit.Canon(ev).(map[string]any); return m }

		// ---- plan: base rows, then the calls of every goroutine ----
		var base []*concOp
		nextID := 0
		if rng.Intn(8) != 0 {
			ev := canon(kit.Ev("Upsert", "c", "c1", "m", genCand(rng, st["c1"].(map[string]any))))
			base = append(base, &concOp{id: nextID, ev: ev})
			nextID++
			if !predict(ev) {
				break
			}
		}
		if rng.Intn(4) == 0 {
			ev := canon(kit.Ev("Upsert", "c", "c2", "m", genCand(rng, st["c2"].(map[string]any))))
			base = append(base, &concOp{id: nextID, ev: ev})
			nextID++
			if !predict(ev) {
				break
			}
		}
		g := 3 + rng.Intn(2)
		var slots []int
		for i := 0; i < g; i++ {
			for k := 2 + rng.Intn(2); k > 0; k-- {
				slots = append(slots, i)
			}
		}
		rng.Shuffle(len(slots), func(i, j int) { slots[i], slots[j] = slots[j], slots[i] })
		plan := make([][]*concOp, g)
		var all []*concOp
		okPlan := true
		for _, gi := range slots {
			ev := canon(genConcOp(rng, st))
			op := &concOp{id: nextID, ev: ev}
			nextID++
			plan[gi] = append(plan[gi], op)
			all = append(all, op)
			if !predict(ev) {
				okPlan = false
				break
			}
		}
		if !okPlan {
			break
		}

		// ---- run ----
		st0, err := sut.proj()
		if err != nil {
			rep.Infra("projection: %v", err)
			break
		}
		var logMu sync.Mutex
		var lines []any
		inflight, maxInflight := 0, 0
		logLine := func(ev map[string]any, st any, d int) {
			logMu.Lock()
			rec.Step(ev, st)
			lines = append(lines, map[string]any{"ev": ev, "st": st})
			inflight += d
			if inflight > maxInflight {
				maxInflight = inflight
			}
			logMu.Unlock()
		}
		rec.Begin(map[string]any{}, st0)
		var infraMu sync.Mutex
		var infraErr error
		exec := func(op *concOp) bool {
			logLine(map[string]any{"a": "Call", "id": op.id, "op": op.ev}, nil, 1)
			res, err := sut.call(op.ev)
			if err != nil {
				infraMu.Lock()
				if infraErr == nil {
					infraErr = fmt.Errorf("%s: %w", kit.JSON(op.ev), err)
				}
				infraMu.Unlock()
				return false
			}
			if kit.Str(op.ev, "a") == "Batch" {
				res = map[string]any{"err": res["err"]} // the created flags are not part of this stage
			}
			op.res = res
			logLine(map[string]any{"a": "Ret", "id": op.id, "res": res}, nil, -1)
			rep.Cover(kit.Str(op.ev, "a"))
			return true
		}
		for _, op := range base {
			if !exec(op) {
				break
			}
		}
		if infraErr == nil {
			start := make(chan struct{})
			var wg sync.WaitGroup
			for gi := range plan {
				wg.Add(1)
				go func(mine []*concOp) {
					defer wg.Done()
					<-start
					for _, op := range mine {
						if !exec(op) {
							return
						}
					}
				}(plan[gi])
			}
			close(start)
			wg.Wait()
		}
		if infraErr != nil {
			rep.Infra("history %d: %v", h, infraErr)
			break
		}
		fin, err := sut.proj()
		if err != nil {
			rep.Infra("projection: %v", err)
			break
		}
		finView := map[string]any{}
		for c, r := range fin {
			finView[c] = rowView(r.(map[string]any))
		}
		logLine(map[string]any{"a": "Final"}, finView, 0)
		if maxInflight > 1 {
			overlapped++
		}
		if h == 0 {
			rep.Sample(map[string]any{"history": lines})
		}

		// ---- direct necessary condition ----
		for _, c := range sut.chans {
			deleted := false
			for _, op := range all {
				deleted = deleted || deletes(op.ev, c)
			}
			if deleted {
				continue
			}
			row := fin[c].(map[string]any)
			for _, op := range append(append([]*concOp{}, base...), all...) {
				if kit.Str(op.ev, "a") != "Upsert" || kit.Str(op.ev, "c") != c || kit.Str(op.res, "r") != "applied" {
					continue
				}
				m := kit.Map(op.ev, "m")
				present, _ := row["present"].(bool)
				if !present || lexLess(asI(row["ce"]), asI(row["le"]), kit.Int(m, "ce"), kit.Int(m, "le")) {
					regressions++
					rep.Violate(id, "regress", fmt.Sprintf("concurrent history %d: upsert %d of channel %s with (channel epoch %d, leader epoch %d) was reported applied, "+
						"but when every call had returned the stored row was at (%d, %d) present=%v: an older candidate overwrote a newer one",
						h, op.id, c, kit.Int(m, "ce"), kit.Int(m, "le"), asI(row["ce"]), asI(row["le"]), present),
						map[string]any{"history": lines, "call": op.ev, "final": fin})
					break
				}
			}
		}
	}
	rep.Extra("histories_with_overlapping_calls", overlapped)
	rep.Extra("histories_failing_the_direct_check", regressions)
	finish()
}

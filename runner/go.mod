module verif/runner

go 1.25.0

toolchain go1.25.11

require (
	github.com/WuKongIM/WuKongIM v0.0.0
	github.com/cockroachdb/pebble/v2 v2.1.4
	go.etcd.io/raft/v3 v3.6.0
)

require (
	github.com/DataDog/zstd v1.5.7 // indirect
	github.com/RaduBerinde/axisds v0.1.0 // indirect
	github.com/RaduBerinde/btreemap v0.0.0-20250419174037-3d62b7205d54 // indirect
	github.com/RussellLuo/timingwheel v0.0.0-20220218152713-54845bda3108 // indirect
	github.com/WuKongIM/wklog v0.0.0-20250123094253-32484fb54d05 // indirect
	github.com/WuKongIM/wkrpc v0.0.0-20250312122115-5e44de72d2c8 // indirect
	github.com/alibabacloud-go/alibabacloud-gateway-pop v0.0.8 // indirect
	github.com/alibabacloud-go/alibabacloud-gateway-spi v0.0.5 // indirect
	github.com/alibabacloud-go/darabonba-openapi/v2 v2.2.2 // indirect
	github.com/alibabacloud-go/debug v1.0.1 // indirect
	github.com/alibabacloud-go/ecs-20140526/v7 v7.9.1 // indirect
	github.com/alibabacloud-go/ims-20190815/v4 v4.4.1 // indirect
	github.com/alibabacloud-go/quotas-20200510/v2 v2.2.2 // indirect
	github.com/alibabacloud-go/ram-20150501/v2 v2.2.1 // indirect
	github.com/alibabacloud-go/sts-20150401/v2 v2.1.0 // indirect
	github.com/alibabacloud-go/tea v1.5.1 // indirect
	github.com/alibabacloud-go/tea-utils/v2 v2.0.9 // indirect
	github.com/alibabacloud-go/vpc-20160428/v6 v6.16.0 // indirect
	github.com/aliyun/alibabacloud-oss-go-sdk-v2 v1.5.1 // indirect
	github.com/aliyun/credentials-go v1.4.5 // indirect
	github.com/beorn7/perks v1.0.1 // indirect
	github.com/bwmarrin/snowflake v0.3.0 // indirect
	github.com/bytedance/gopkg v0.1.3 // indirect
	github.com/bytedance/sonic v1.15.0 // indirect
	github.com/bytedance/sonic/loader v0.5.0 // indirect
	github.com/cespare/xxhash/v2 v2.3.0 // indirect
	github.com/clbanning/mxj/v2 v2.7.0 // indirect
	github.com/clipperhouse/uax29/v2 v2.7.0 // indirect
	github.com/cloudwego/base64x v0.1.6 // indirect
	github.com/cockroachdb/crlib v0.0.0-20241112164430-1264a2edc35b // indirect
	github.com/cockroachdb/errors v1.11.3 // indirect
	github.com/cockroachdb/logtags v0.0.0-20230118201751-21c54148d20b // indirect
	github.com/cockroachdb/redact v1.1.5 // indirect
	github.com/cockroachdb/swiss v0.0.0-20251224182025-b0f6560f979b // indirect
	github.com/cockroachdb/tokenbucket v0.0.0-20230807174530-cc333fc44b06 // indirect
	github.com/davecgh/go-spew v1.1.1 // indirect
	github.com/dustin/go-humanize v1.0.1 // indirect
	github.com/ebitengine/purego v0.10.0 // indirect
	github.com/fsnotify/fsnotify v1.9.0 // indirect
	github.com/gabriel-vasile/mimetype v1.4.12 // indirect
	github.com/getsentry/sentry-go v0.27.0 // indirect
	github.com/gin-contrib/sse v1.1.0 // indirect
	github.com/gin-gonic/gin v1.12.0 // indirect
	github.com/gizak/termui/v3 v3.1.0 // indirect
	github.com/go-ole/go-ole v1.2.6 // indirect
	github.com/go-playground/locales v0.14.1 // indirect
	github.com/go-playground/universal-translator v0.18.1 // indirect
	github.com/go-playground/validator/v10 v10.30.1 // indirect
	github.com/goccy/go-json v0.10.5 // indirect
	github.com/goccy/go-yaml v1.19.2 // indirect
	github.com/gogo/protobuf v1.3.2 // indirect
	github.com/golang-jwt/jwt/v5 v5.3.1 // indirect
	github.com/golang/protobuf v1.5.4 // indirect
	github.com/golang/snappy v0.0.5-0.20231225225746-43d5d4cd4e0e // indirect
	github.com/google/jsonschema-go v0.4.3 // indirect
	github.com/google/pprof v0.0.0-20260709232956-b9395ee17fa0 // indirect
	github.com/google/uuid v1.6.0 // indirect
	github.com/gorilla/websocket v1.5.3 // indirect
	github.com/inconshreveable/mousetrap v1.1.0 // indirect
	github.com/json-iterator/go v1.1.12 // indirect
	github.com/klauspost/compress v1.18.6 // indirect
	github.com/klauspost/cpuid/v2 v2.3.0 // indirect
	github.com/klauspost/crc32 v1.3.0 // indirect
	github.com/kr/pretty v0.3.1 // indirect
	github.com/kr/text v0.2.0 // indirect
	github.com/leodido/go-urn v1.4.0 // indirect
	github.com/lni/goutils v1.4.0 // indirect
	github.com/lufia/plan9stats v0.0.0-20211012122336-39d0f177ccd0 // indirect
	github.com/mattn/go-isatty v0.0.20 // indirect
	github.com/mattn/go-runewidth v0.0.23 // indirect
	github.com/matttproud/golang_protobuf_extensions v1.0.4 // indirect
	github.com/minio/crc64nvme v1.1.1 // indirect
	github.com/minio/md5-simd v1.1.2 // indirect
	github.com/minio/minio-go/v7 v7.2.1 // indirect
	github.com/minio/minlz v1.0.1-0.20250507153514-87eb42fe8882 // indirect
	github.com/mitchellh/go-wordwrap v0.0.0-20150314170334-ad45545899c7 // indirect
	github.com/modelcontextprotocol/go-sdk v1.6.1 // indirect
	github.com/modern-go/concurrent v0.0.0-20180306012644-bacd9c7ef1dd // indirect
	github.com/modern-go/reflect2 v1.0.2 // indirect
	github.com/nsf/termbox-go v0.0.0-20190121233118-02980233997d // indirect
	github.com/panjf2000/ants/v2 v2.11.3 // indirect
	github.com/panjf2000/gnet/v2 v2.9.7 // indirect
	github.com/pelletier/go-toml/v2 v2.3.1 // indirect
	github.com/philhofer/fwd v1.2.0 // indirect
	github.com/pkg/errors v0.9.1 // indirect
	github.com/pmezard/go-difflib v1.0.0 // indirect
	github.com/power-devops/perfstat v0.0.0-20240221224432-82ca36839d55 // indirect
	github.com/prometheus/client_golang v1.16.0 // indirect
	github.com/prometheus/client_model v0.3.0 // indirect
	github.com/prometheus/common v0.42.0 // indirect
	github.com/prometheus/procfs v0.10.1 // indirect
	github.com/quic-go/qpack v0.6.0 // indirect
	github.com/quic-go/quic-go v0.59.0 // indirect
	github.com/robfig/cron/v3 v3.0.1 // indirect
	github.com/rogpeppe/go-internal v1.14.1 // indirect
	github.com/rs/xid v1.6.0 // indirect
	github.com/segmentio/asm v1.1.3 // indirect
	github.com/segmentio/encoding v0.5.4 // indirect
	github.com/shirou/gopsutil/v4 v4.26.5 // indirect
	github.com/spf13/cobra v1.10.2 // indirect
	github.com/spf13/pflag v1.0.10 // indirect
	github.com/stretchr/testify v1.11.1 // indirect
	github.com/tinylib/msgp v1.6.1 // indirect
	github.com/tjfoc/gmsm v1.4.1 // indirect
	github.com/tklauser/go-sysconf v0.3.16 // indirect
	github.com/tklauser/numcpus v0.11.0 // indirect
	github.com/twitchyliquid64/golang-asm v0.15.1 // indirect
	github.com/ugorji/go/codec v1.3.1 // indirect
	github.com/valyala/bytebufferpool v1.0.0 // indirect
	github.com/yosida95/uritemplate/v3 v3.0.2 // indirect
	github.com/yuin/goldmark v1.8.2 // indirect
	github.com/yusufpapurcu/wmi v1.2.4 // indirect
	github.com/zeebo/xxh3 v1.1.0 // indirect
	go.etcd.io/etcd/pkg/v3 v3.5.17 // indirect
	go.mongodb.org/mongo-driver/v2 v2.5.0 // indirect
	go.uber.org/atomic v1.11.0 // indirect
	go.uber.org/multierr v1.11.0 // indirect
	go.uber.org/zap v1.27.0 // indirect
	go.yaml.in/yaml/v3 v3.0.4 // indirect
	golang.org/x/arch v0.22.0 // indirect
	golang.org/x/crypto v0.51.0 // indirect
	golang.org/x/exp v0.0.0-20230626212559-97b1e661b5df // indirect
	golang.org/x/net v0.53.0 // indirect
	golang.org/x/oauth2 v0.35.0 // indirect
	golang.org/x/sync v0.20.0 // indirect
	golang.org/x/sys v0.44.0 // indirect
	golang.org/x/text v0.37.0 // indirect
	golang.org/x/time v0.4.0 // indirect
	google.golang.org/protobuf v1.36.10 // indirect
	gopkg.in/ini.v1 v1.67.2 // indirect
	gopkg.in/natefinch/lumberjack.v2 v2.2.1 // indirect
	gopkg.in/yaml.v3 v3.0.1 // indirect
)

replace github.com/WuKongIM/WuKongIM => /repo

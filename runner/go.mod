module verif/runner

go 1.25.0

toolchain go1.25.11

require github.com/WuKongIM/WuKongIM v0.0.0

replace github.com/WuKongIM/WuKongIM => /repo

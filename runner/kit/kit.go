// Package kit is the stdlib-only glue shared by every conformance harness.
//
// It is compiled in two ways: as verif/runner/kit for harnesses that live in the
// runner module, and, through `go test -overlay`, as
// github.com/WuKongIM/WuKongIM/internal/zzverif/kit for harnesses that are compiled
// into a /repo package.  It therefore imports nothing but the standard library.
//
// Data model (shared with the TLA+ modules, see specs/README.md):
//
//	step      {"ev": {"a": "<Action>", <args...>, "res": <reply>}, "st": <projection>}
//	behaviour {"steps": [step...], "final": <optional end-of-behaviour observation>}
//
// TLC produces behaviours (spec -> code); harnesses produce traces of the same steps
// (code -> spec) as NDJSON, one step per line, each trace starting with an "Init" step.
package kit

import (
	"bufio"
	"bytes"
	"encoding/json"
	"fmt"
	"math/rand"
	"os"
	"path/filepath"
	"reflect"
	"sort"
	"strconv"
	"sync"
	"time"
)

// Step is one action of a behaviour or trace.
type Step struct {
	Ev map[string]any `json:"ev"`
	St any            `json:"st,omitempty"`
}

// Behaviour is one TLC-generated run of a specification.
type Behaviour struct {
	Steps []Step `json:"steps"`
	Final any    `json:"final,omitempty"`
}

// Violation is one property-relevant disagreement between the real code and the
// specification, written out so that it can be replayed.
type Violation struct {
	Property string `json:"property"`
	Kind     string `json:"kind"` // "reply", "state", "final", "invariant", ...
	Detail   string `json:"detail"`
	Replay   string `json:"replay,omitempty"`
	// Signature identifies the history for known-findings matching (optional).
	Signature string `json:"signature,omitempty"`
}

// Result is what a harness reports back to the runner.
type Result struct {
	Harness            string         `json:"harness"`
	Seed               int64          `json:"seed"`
	Tier               string         `json:"tier"`
	BehavioursReplayed int            `json:"behaviours_replayed"`
	StepsReplayed      int            `json:"steps_replayed"`
	TracesRecorded     int            `json:"traces_recorded"`
	StepsRecorded      int            `json:"steps_recorded"`
	ActionsCovered     map[string]int `json:"actions_covered"`
	Violations         []Violation    `json:"violations"`
	KnownFindings      []Violation    `json:"known_findings,omitempty"`
	Infra              []string       `json:"infra,omitempty"` // harness trouble: exit 2, never a violation
	Samples            []any          `json:"samples,omitempty"`
	Extra              map[string]any `json:"extra,omitempty"`
	SelfTest           map[string]any `json:"self_test,omitempty"`
	WallS              float64        `json:"wall_s"`
}

// Env is the harness side of the runner contract.
type Env struct {
	Seed      int64
	Tier      string // "quick" | "thorough"
	BehFile   string // VERIF_BEH: behaviours produced by TLC (may be empty)
	TraceFile string // VERIF_TRACE_OUT: where to write the NDJSON trace
	ResultOut string // VERIF_RESULT: where to write Result
	ReplayDir string // VERIF_REPLAY_DIR: where violations are written
	Property  string // VERIF_PROPERTY: id being checked
	OutDir    string // VERIF_OUT_DIR: scratch directory owned by this run
	start     time.Time
}

// LoadEnv reads the VERIF_* variables. ok is false when the harness was not started
// by the runner (so that `go test ./...` in /repo or in the runner stays a no-op).
func LoadEnv() (Env, bool) {
	res := os.Getenv("VERIF_RESULT")
	if res == "" {
		return Env{}, false
	}
	seed, _ := strconv.ParseInt(os.Getenv("VERIF_SEED"), 10, 64)
	tier := os.Getenv("VERIF_TIER")
	if tier == "" {
		tier = "quick"
	}
	return Env{
		Seed: seed, Tier: tier,
		BehFile: os.Getenv("VERIF_BEH"), TraceFile: os.Getenv("VERIF_TRACE_OUT"),
		ResultOut: res, ReplayDir: os.Getenv("VERIF_REPLAY_DIR"),
		Property: os.Getenv("VERIF_PROPERTY"), OutDir: os.Getenv("VERIF_OUT_DIR"),
		start: time.Now(),
	}, true
}

// Thorough reports whether the thorough tier was requested.
func (e Env) Thorough() bool { return e.Tier == "thorough" }

// Pick returns q in the quick tier and t in the thorough tier.
func (e Env) Pick(q, t int) int {
	if e.Thorough() {
		return t
	}
	return q
}

// Rand returns the seeded generator every random choice of a harness must use.
func (e Env) Rand() *rand.Rand { return rand.New(rand.NewSource(e.Seed*7919 + 17)) }

// LoadBehaviours reads a JSON-lines file of behaviours. An empty path yields none.
func LoadBehaviours(path string) ([]Behaviour, error) {
	if path == "" {
		return nil, nil
	}
	f, err := os.Open(path)
	if err != nil {
		return nil, err
	}
	defer f.Close()
	var out []Behaviour
	sc := bufio.NewScanner(f)
	sc.Buffer(make([]byte, 1<<20), 1<<28)
	for sc.Scan() {
		line := bytes.TrimSpace(sc.Bytes())
		if len(line) == 0 {
			continue
		}
		var b Behaviour
		dec := json.NewDecoder(bytes.NewReader(line))
		dec.UseNumber()
		if err := dec.Decode(&b); err != nil {
			return nil, fmt.Errorf("behaviour %d: %w", len(out)+1, err)
		}
		out = append(out, b)
	}
	return out, sc.Err()
}

// Canon converts any Go value to its canonical JSON-decoded form (maps, slices,
// json.Number normalised to int64 when integral, strings, bools, nil).
func Canon(v any) any {
	raw, err := json.Marshal(v)
	if err != nil {
		panic(fmt.Sprintf("kit.Canon: %v", err))
	}
	var out any
	dec := json.NewDecoder(bytes.NewReader(raw))
	dec.UseNumber()
	if err := dec.Decode(&out); err != nil {
		panic(fmt.Sprintf("kit.Canon: %v", err))
	}
	return normalise(out)
}

func normalise(v any) any {
	switch x := v.(type) {
	case json.Number:
		if i, err := x.Int64(); err == nil {
			return i
		}
		f, _ := x.Float64()
		return f
	case map[string]any:
		for k, e := range x {
			x[k] = normalise(e)
		}
		return x
	case []any:
		for i, e := range x {
			x[i] = normalise(e)
		}
		return x
	default:
		return v
	}
}

// Equal compares two values in canonical JSON form. An empty array equals a nil
// array (TLA+ <<>> / {} both arrive as []).
func Equal(a, b any) bool { return eq(Canon(a), Canon(b)) }

func eq(a, b any) bool {
	switch x := a.(type) {
	case map[string]any:
		y, ok := b.(map[string]any)
		if !ok || len(x) != len(y) {
			return false
		}
		for k, v := range x {
			w, ok := y[k]
			if !ok || !eq(v, w) {
				return false
			}
		}
		return true
	case []any:
		y, ok := b.([]any)
		if !ok {
			return b == nil && len(x) == 0
		}
		if len(x) != len(y) {
			return false
		}
		for i := range x {
			if !eq(x[i], y[i]) {
				return false
			}
		}
		return true
	case nil:
		if y, ok := b.([]any); ok {
			return len(y) == 0
		}
		return b == nil
	default:
		return reflect.DeepEqual(a, b)
	}
}

// JSON renders a value compactly (for messages).
func JSON(v any) string {
	raw, err := json.Marshal(v)
	if err != nil {
		return fmt.Sprintf("%#v", v)
	}
	return string(raw)
}

// Diff names the first differing path between two canonical values.
func Diff(want, got any) string { return diff("", Canon(want), Canon(got)) }

func diff(path string, a, b any) string {
	if eq(a, b) {
		return ""
	}
	if x, ok := a.(map[string]any); ok {
		if y, ok := b.(map[string]any); ok {
			keys := map[string]bool{}
			for k := range x {
				keys[k] = true
			}
			for k := range y {
				keys[k] = true
			}
			ks := make([]string, 0, len(keys))
			for k := range keys {
				ks = append(ks, k)
			}
			sort.Strings(ks)
			for _, k := range ks {
				if d := diff(path+"."+k, x[k], y[k]); d != "" {
					return d
				}
			}
		}
	}
	if x, ok := a.([]any); ok {
		if y, ok := b.([]any); ok && len(x) == len(y) {
			for i := range x {
				if d := diff(fmt.Sprintf("%s[%d]", path, i), x[i], y[i]); d != "" {
					return d
				}
			}
		}
	}
	return fmt.Sprintf("%s: spec=%s impl=%s", path, JSON(a), JSON(b))
}

// Str, Int, Bool, Map, List read fields of decoded JSON with tolerant typing.
func Str(m map[string]any, k string) string { s, _ := m[k].(string); return s }

func Int(m map[string]any, k string) int64 { return ToInt(m[k]) }

func ToInt(v any) int64 {
	switch x := v.(type) {
	case json.Number:
		i, _ := x.Int64()
		return i
	case float64:
		return int64(x)
	case int64:
		return x
	case int:
		return int64(x)
	case uint64:
		return int64(x)
	}
	return 0
}

func Bool(m map[string]any, k string) bool { b, _ := m[k].(bool); return b }

func Map(m map[string]any, k string) map[string]any { x, _ := m[k].(map[string]any); return x }

func List(m map[string]any, k string) []any { x, _ := m[k].([]any); return x }

// Recorder writes traces as NDJSON. It is safe for concurrent use; the sequence
// number is taken under the same lock as the write, so file order is the order of
// the calls to Step (call it at the linearization point).
type Recorder struct {
	mu     sync.Mutex
	f      *os.File
	w      *bufio.Writer
	seq    int64
	traces int
	steps  int
}

// NewRecorder creates the trace file (parent directories included).
func NewRecorder(path string) (*Recorder, error) {
	if path == "" {
		return &Recorder{}, nil
	}
	if err := os.MkdirAll(filepath.Dir(path), 0o755); err != nil {
		return nil, err
	}
	f, err := os.Create(path)
	if err != nil {
		return nil, err
	}
	return &Recorder{f: f, w: bufio.NewWriterSize(f, 1<<20)}, nil
}

// Begin starts a new trace with the given Init event (may carry configuration).
func (r *Recorder) Begin(initEv map[string]any, st any) {
	if initEv == nil {
		initEv = map[string]any{}
	}
	initEv["a"] = "Init"
	r.mu.Lock()
	r.traces++
	r.mu.Unlock()
	r.write(Step{Ev: initEv, St: st}, false)
}

// Step appends one observed step.
func (r *Recorder) Step(ev map[string]any, st any) { r.write(Step{Ev: ev, St: st}, true) }

func (r *Recorder) write(s Step, count bool) {
	r.mu.Lock()
	defer r.mu.Unlock()
	r.seq++
	if count {
		r.steps++
	}
	if r.w == nil {
		return
	}
	raw, err := json.Marshal(s)
	if err != nil {
		panic(fmt.Sprintf("kit.Recorder: %v", err))
	}
	r.w.Write(raw)
	r.w.WriteByte('\n')
}

// Counts returns the number of traces and steps written so far.
func (r *Recorder) Counts() (traces, steps int) {
	r.mu.Lock()
	defer r.mu.Unlock()
	return r.traces, r.steps
}

// Close flushes the trace file.
func (r *Recorder) Close() error {
	r.mu.Lock()
	defer r.mu.Unlock()
	if r.w == nil {
		return nil
	}
	if err := r.w.Flush(); err != nil {
		return err
	}
	return r.f.Close()
}

// Report collects the outcome of a harness run.
type Report struct {
	mu  sync.Mutex
	env Env
	res Result
	max int
}

// NewReport starts a report for the named harness.
func NewReport(env Env, harness string) *Report {
	return &Report{env: env, max: 5, res: Result{Harness: harness, Seed: env.Seed, Tier: env.Tier,
		ActionsCovered: map[string]int{}, Extra: map[string]any{}, SelfTest: map[string]any{}}}
}

// Cover counts an executed action.
func (p *Report) Cover(action string) {
	p.mu.Lock()
	p.res.ActionsCovered[action]++
	p.mu.Unlock()
}

// Replayed counts a replayed behaviour of n steps.
func (p *Report) Replayed(n int) {
	p.mu.Lock()
	p.res.BehavioursReplayed++
	p.res.StepsReplayed += n
	p.mu.Unlock()
}

// Sample keeps up to four written-out cases for the evidence file.
func (p *Report) Sample(v any) {
	p.mu.Lock()
	if len(p.res.Samples) < 4 {
		p.res.Samples = append(p.res.Samples, Canon(v))
	}
	p.mu.Unlock()
}

// Extra records a named measurement.
func (p *Report) Extra(k string, v any) {
	p.mu.Lock()
	p.res.Extra[k] = v
	p.mu.Unlock()
}

// AddExtra increments a named counter.
func (p *Report) AddExtra(k string, n int) {
	p.mu.Lock()
	cur, _ := p.res.Extra[k].(int)
	p.res.Extra[k] = cur + n
	p.mu.Unlock()
}

// SelfTest records the outcome of a harness self-test (corrupted input rejected).
func (p *Report) SelfTest(k string, v any) {
	p.mu.Lock()
	p.res.SelfTest[k] = v
	p.mu.Unlock()
}

// Infra records harness trouble (never a violation).
func (p *Report) Infra(format string, a ...any) {
	p.mu.Lock()
	if len(p.res.Infra) < 20 {
		p.res.Infra = append(p.res.Infra, fmt.Sprintf(format, a...))
	}
	p.mu.Unlock()
}

// Violations returns the number of violations recorded so far.
func (p *Report) Violations() int {
	p.mu.Lock()
	defer p.mu.Unlock()
	return len(p.res.Violations)
}

// Violate records a property violation observed on the real code and writes the
// replay artefact (any JSON value: behaviour, step index, expected and observed).
func (p *Report) Violate(property, kind, detail string, replay any) {
	p.violate(property, kind, detail, "", replay, false)
}

// ViolateSig is Violate with a signature used for known-findings matching.
func (p *Report) ViolateSig(property, kind, detail, signature string, replay any) {
	p.violate(property, kind, detail, signature, replay, false)
}

func (p *Report) violate(property, kind, detail, sig string, replay any, known bool) {
	p.mu.Lock()
	defer p.mu.Unlock()
	if property == "" {
		property = p.env.Property
	}
	v := Violation{Property: property, Kind: kind, Detail: detail, Signature: sig}
	n := len(p.res.Violations)
	if n >= p.max {
		return
	}
	if p.env.ReplayDir != "" && replay != nil {
		_ = os.MkdirAll(p.env.ReplayDir, 0o755)
		name := fmt.Sprintf("%s-%s-seed%d-%d.json", property, p.res.Harness, p.env.Seed, n+1)
		path := filepath.Join(p.env.ReplayDir, name)
		raw, _ := json.MarshalIndent(map[string]any{
			"property": property, "harness": p.res.Harness, "seed": p.env.Seed, "tier": p.env.Tier,
			"kind": kind, "detail": detail, "signature": sig, "case": replay,
		}, "", " ")
		if err := os.WriteFile(path, raw, 0o644); err == nil {
			v.Replay = path
		}
	}
	p.res.Violations = append(p.res.Violations, v)
}

// Finish writes the result file. Call it exactly once, at the end of the harness.
func (p *Report) Finish(rec *Recorder) error {
	p.mu.Lock()
	defer p.mu.Unlock()
	if rec != nil {
		p.res.TracesRecorded, p.res.StepsRecorded = rec.Counts()
	}
	p.res.WallS = time.Since(p.env.start).Seconds()
	raw, err := json.MarshalIndent(p.res, "", " ")
	if err != nil {
		return err
	}
	if err := os.MkdirAll(filepath.Dir(p.env.ResultOut), 0o755); err != nil {
		return err
	}
	return os.WriteFile(p.env.ResultOut, raw, 0o644)
}

// Ev builds an event map: Ev("Bind", "s", "s1", "m", 2).
func Ev(action string, kv ...any) map[string]any {
	m := map[string]any{"a": action}
	for i := 0; i+1 < len(kv); i += 2 {
		m[kv[i].(string)] = kv[i+1]
	}
	return m
}

// CloneEv copies an event without its "res" field (the call part of a step).
func CloneEv(ev map[string]any) map[string]any {
	out := make(map[string]any, len(ev))
	for k, v := range ev {
		if k != "res" {
			out[k] = v
		}
	}
	return out
}

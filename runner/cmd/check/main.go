// Command check decides one listed property:  check <ID> [--tier quick|thorough] [--replay path]
//
// It reads /verif/checks/<ID>.json, runs the stages it names and writes
// /verif/evidence/<ID>.json:
//
//	mc       exhaustive TLC run(s) of the specification (design level)
//	sim      TLC -simulate on the module's Sim spec: behaviours as JSON (spec -> code)
//	harness  go test of the conformance harness against /repo's working tree
//	         (replays the behaviours on the real code, records traces of a seeded driver)
//	trace    TLC validation of the recorded traces against the module's Trace spec
//	         (code -> spec), plus a self-test that a corrupted trace is rejected
//
// Exit codes: 0 held / known findings only; 1 VIOLATION (real-code behaviour, printed as
// "VIOLATION property=<id> replay=<path>"); 2 infrastructure trouble (never a violation).
package main

import (
	"bufio"
	"bytes"
	"context"
	"encoding/json"
	"errors"
	"flag"
	"fmt"
	"os"
	"os/exec"
	"path/filepath"
	"regexp"
	"sort"
	"strconv"
	"strings"
	"syscall"
	"time"

	"verif/runner/kit"
)

const verifRoot = "/verif"

// repoRoot is /repo; VERIF_REPO points a run at a scratch worktree instead (used only to try
// mutations without touching /repo — registered commands never set it).
var repoRoot = envOr("VERIF_REPO", "/repo")

// ---- configuration -------------------------------------------------------------------

// tiered is an int that may be written as 5 or {"quick":5,"thorough":50}.
type tiered struct{ Quick, Thorough int }

func (t *tiered) UnmarshalJSON(b []byte) error {
	var n int
	if json.Unmarshal(b, &n) == nil {
		t.Quick, t.Thorough = n, n
		return nil
	}
	var m map[string]int
	if err := json.Unmarshal(b, &m); err != nil {
		return err
	}
	t.Quick, t.Thorough = m["quick"], m["thorough"]
	if _, ok := m["thorough"]; !ok {
		t.Thorough = t.Quick
	}
	return nil
}
func (t tiered) get(tier string) int {
	if tier == "thorough" {
		return t.Thorough
	}
	return t.Quick
}

// tieredStr is a string that may be written as "x" or {"quick":"x","thorough":"y"}.
type tieredStr struct{ Quick, Thorough string }

func (t *tieredStr) UnmarshalJSON(b []byte) error {
	var s string
	if json.Unmarshal(b, &s) == nil {
		t.Quick, t.Thorough = s, s
		return nil
	}
	var m map[string]string
	if err := json.Unmarshal(b, &m); err != nil {
		return err
	}
	t.Quick, t.Thorough = m["quick"], m["thorough"]
	if t.Thorough == "" {
		t.Thorough = t.Quick
	}
	return nil
}
func (t tieredStr) get(tier string) string {
	if tier == "thorough" {
		return t.Thorough
	}
	return t.Quick
}

type mcStage struct {
	Name     string    `json:"name"`
	Module   string    `json:"module"` // defaults to the check's module
	Spec     string    `json:"spec"`
	Cfg      tieredStr `json:"cfg"`
	Workers  int       `json:"workers"`
	TimeoutS tiered    `json:"timeout_s"`
	// Only: run this stage only in the named tier ("" = both).
	Only string `json:"only"`
	// Coverage: run with -coverage 1 and report actions never taken (thorough only).
	Coverage bool `json:"coverage"`
}

type simStage struct {
	Name     string    `json:"name"`
	Module   string    `json:"module"`
	Spec     string    `json:"spec"`
	Cfg      tieredStr `json:"cfg"`
	Num      tiered    `json:"num"`
	Depth    tiered    `json:"depth"`
	Max      tiered    `json:"max_behaviours"`
	TimeoutS tiered    `json:"timeout_s"`
}

type harnessStage struct {
	Name     string            `json:"name"`
	Kind     string            `json:"kind"` // "overlay" | "ext"
	Pkg      string            `json:"pkg"`
	Files    map[string]string `json:"files"` // overlay: path under /repo -> path under /verif
	Run      string            `json:"run"`
	Race     tieredBool        `json:"race"`
	TimeoutS tiered            `json:"timeout_s"`
	Beh      string            `json:"beh"`  // name of the sim stage whose behaviours are replayed ("" = first)
	Env      map[string]string `json:"env"`  // extra environment
	Tags     string            `json:"tags"` // extra build tags
}

type tieredBool struct{ Quick, Thorough bool }

func (t *tieredBool) UnmarshalJSON(b []byte) error {
	var v bool
	if json.Unmarshal(b, &v) == nil {
		t.Quick, t.Thorough = v, v
		return nil
	}
	var m map[string]bool
	if err := json.Unmarshal(b, &m); err != nil {
		return err
	}
	t.Quick, t.Thorough = m["quick"], m["thorough"]
	return nil
}
func (t tieredBool) get(tier string) bool {
	if tier == "thorough" {
		return t.Thorough
	}
	return t.Quick
}

type traceStage struct {
	Name     string    `json:"name"`
	Module   string    `json:"module"`
	Spec     string    `json:"spec"`
	Cfg      tieredStr `json:"cfg"`
	From     string    `json:"from"` // harness stage name ("" = first)
	TimeoutS tiered    `json:"timeout_s"`
	// Workers for validation; 1 unless the trace spec never needs the high-water mark.
	Workers int `json:"workers"`
	// NoSelfTest disables the corrupted-trace self-test (only for trace specs that
	// deliberately leave the corrupted field class unconstrained).
	NoSelfTest bool `json:"no_self_test"`
	// DFS uses TLC's depth-first state queue (for trace specs that branch).
	DFS bool `json:"dfs"`
}

type checkConfig struct {
	Property    string         `json:"property"`
	Module      string         `json:"module"`
	Level       string         `json:"level"`
	Rule        string         `json:"rule"`
	Assumptions []string       `json:"assumptions"`
	MC          []mcStage      `json:"mc"`
	Sim         []simStage     `json:"sim"`
	Harness     []harnessStage `json:"harness"`
	Trace       []traceStage   `json:"trace"`
}

// ---- known findings --------------------------------------------------------------------

type knownFinding struct {
	Property  string `json:"property"`
	Signature string `json:"signature"`
	Status    string `json:"status"` // "known" | "fixed"
	What      string `json:"what"`
	Commit    string `json:"commit,omitempty"`
}

func loadKnown() []knownFinding {
	raw, err := os.ReadFile(filepath.Join(verifRoot, "known-findings.json"))
	if err != nil {
		return nil
	}
	var f struct {
		Findings []knownFinding `json:"findings"`
	}
	if json.Unmarshal(raw, &f) != nil {
		return nil
	}
	return f.Findings
}

// ---- run state -------------------------------------------------------------------------

type run struct {
	cfg     checkConfig
	tier    string
	seed    int64
	scratch string
	start   time.Time

	states, transitions int64
	mcRuns              []map[string]any
	behaviours          map[string]string // sim name -> file
	behCount            int
	results             []kit.Result
	traceFiles          map[string]string // harness name -> trace file
	tracesValidated     int
	traceLines          int
	traceStates         int64
	selfTests           map[string]any
	samples             []any
	violations          []kit.Violation
	known               []string
	infra               []string
	actionsNever        []string
	warm                bool
}

func (r *run) infraf(format string, a ...any) {
	msg := fmt.Sprintf(format, a...)
	r.infra = append(r.infra, msg)
	fmt.Fprintln(os.Stderr, "INFRA:", msg)
}

func main() {
	tier := flag.String("tier", envOr("VERIF_TIER", "quick"), "quick|thorough")
	replay := flag.String("replay", "", "replay artefact written by an earlier violation")
	keep := flag.Bool("keep", false, "keep the scratch directory")
	// allow `check C32 --tier quick`
	args := os.Args[1:]
	var id string
	if len(args) > 0 && !strings.HasPrefix(args[0], "-") {
		id, args = args[0], args[1:]
	}
	warm := flag.Bool("warm", false, "compile every registered harness (build-cache warm-up) and exit")
	flag.CommandLine.Parse(args)
	if *warm {
		os.Exit(warmAll())
	}
	if id == "" && flag.NArg() > 0 {
		id = flag.Arg(0)
	}
	if id == "" {
		fmt.Fprintln(os.Stderr, "usage: check <ID> [--tier quick|thorough] [--replay path]")
		os.Exit(2)
	}
	if *tier != "quick" && *tier != "thorough" {
		fmt.Fprintln(os.Stderr, "unknown tier", *tier)
		os.Exit(2)
	}
	seed, _ := strconv.ParseInt(envOr("VERIF_SEED", "1"), 10, 64)

	raw, err := os.ReadFile(filepath.Join(verifRoot, "checks", id+".json"))
	if err != nil {
		fmt.Fprintln(os.Stderr, "no check registered for", id, ":", err)
		os.Exit(2)
	}
	var cfg checkConfig
	dec := json.NewDecoder(bytes.NewReader(raw))
	dec.DisallowUnknownFields()
	if err := dec.Decode(&cfg); err != nil {
		fmt.Fprintln(os.Stderr, "bad check config:", err)
		os.Exit(2)
	}
	scratch, err := os.MkdirTemp("", "verif-"+id+"-")
	if err != nil {
		fmt.Fprintln(os.Stderr, err)
		os.Exit(2)
	}
	r := &run{cfg: cfg, tier: *tier, seed: seed, scratch: scratch, start: time.Now(),
		behaviours: map[string]string{}, traceFiles: map[string]string{}, selfTests: map[string]any{}}
	code := r.execute(*replay)
	if !*keep {
		os.RemoveAll(scratch)
	} else {
		fmt.Fprintln(os.Stderr, "scratch kept at", scratch)
	}
	os.Exit(code)
}

func envOr(k, d string) string {
	if v := os.Getenv(k); v != "" {
		return v
	}
	return d
}

func (r *run) execute(replay string) int {
	id := r.cfg.Property
	if replay != "" {
		// Replay: the artefact's "case.behaviour" (if any) is fed to the harnesses as the only behaviour.
		if err := r.prepareReplay(replay); err != nil {
			r.infraf("replay: %v", err)
			return r.finish()
		}
	} else {
		for _, st := range r.cfg.MC {
			if st.Only != "" && st.Only != r.tier {
				continue
			}
			r.runMC(st)
		}
		for _, st := range r.cfg.Sim {
			r.runSim(st)
		}
	}
	for _, st := range r.cfg.Harness {
		r.runHarness(st)
	}
	if replay == "" {
		for _, st := range r.cfg.Trace {
			r.runTrace(st)
		}
	}
	_ = id
	return r.finish()
}

// ---- TLC -------------------------------------------------------------------------------

var (
	reStates   = regexp.MustCompile(`(\d+) states generated, (\d+) distinct states found`)
	reSimGen   = regexp.MustCompile(`The number of states generated: (\d+)`)
	reInvViol  = regexp.MustCompile(`Invariant (\S+) is violated`)
	reActViol  = regexp.MustCompile(`Action property (\S+) is violated`)
	reTempViol = regexp.MustCompile(`Temporal properties were violated`)
	reCovZero  = regexp.MustCompile(`^<(\w+) line .*>: 0:0`)
)

func (r *run) specDir(module string) string {
	if module == "" {
		module = r.cfg.Module
	}
	return filepath.Join(verifRoot, "specs", module)
}

// stageDir copies the module's spec directory into a fresh scratch subdirectory
// (TLC litters states/ and trace files next to the spec).
func (r *run) stageDir(module, name string) (string, error) {
	src := r.specDir(module)
	dst := filepath.Join(r.scratch, name)
	if err := os.MkdirAll(dst, 0o755); err != nil {
		return "", err
	}
	ents, err := os.ReadDir(src)
	if err != nil {
		return "", err
	}
	for _, e := range ents {
		if e.IsDir() {
			continue
		}
		if ext := filepath.Ext(e.Name()); ext != ".tla" && ext != ".cfg" {
			continue
		}
		raw, err := os.ReadFile(filepath.Join(src, e.Name()))
		if err != nil {
			return "", err
		}
		if err := os.WriteFile(filepath.Join(dst, e.Name()), raw, 0o644); err != nil {
			return "", err
		}
	}
	// shared modules
	shared := filepath.Join(verifRoot, "specs", "_shared")
	if ents, err := os.ReadDir(shared); err == nil {
		for _, e := range ents {
			if filepath.Ext(e.Name()) == ".tla" {
				raw, _ := os.ReadFile(filepath.Join(shared, e.Name()))
				_ = os.WriteFile(filepath.Join(dst, e.Name()), raw, 0o644)
			}
		}
	}
	return dst, nil
}

type tlcOut struct {
	out      string
	timedOut bool
	err      error
	wall     float64
}

func runTLC(dir string, timeout time.Duration, dfs bool, args ...string) tlcOut {
	ctx, cancel := context.WithTimeout(context.Background(), timeout)
	defer cancel()
	full := []string{"-XX:+UseParallelGC", "-Xss64m"}
	if dfs {
		full = append(full, "-Dtlc2.tool.queue.IStateQueue=StateDeque")
	}
	full = append(full, "-cp", "/opt/veriftools/tla/tla2tools.jar:/opt/veriftools/tla/CommunityModules-deps.jar", "tlc2.TLC")
	full = append(full, args...)
	cmd := exec.CommandContext(ctx, "java", full...)
	cmd.Dir = dir
	cmd.SysProcAttr = &syscall.SysProcAttr{Setpgid: true}
	cmd.Cancel = func() error { return syscall.Kill(-cmd.Process.Pid, syscall.SIGKILL) }
	var buf bytes.Buffer
	cmd.Stdout = &buf
	cmd.Stderr = &buf
	t0 := time.Now()
	err := cmd.Run()
	o := tlcOut{out: buf.String(), err: err, wall: time.Since(t0).Seconds()}
	if ctx.Err() == context.DeadlineExceeded {
		o.timedOut = true
	}
	return o
}

func tail(s string, n int) string {
	lines := strings.Split(strings.TrimRight(s, "\n"), "\n")
	var keep []string
	for _, l := range lines {
		if strings.HasPrefix(l, "Linting of") || strings.HasPrefix(l, "Semantic processing") || strings.HasPrefix(l, "Parsing file") {
			continue
		}
		if len(l) > 600 {
			l = l[:600] + "…"
		}
		keep = append(keep, l)
	}
	if len(keep) > n {
		keep = keep[len(keep)-n:]
	}
	return strings.Join(keep, "\n")
}

func (r *run) runMC(st mcStage) {
	name := "mc-" + orDefault(st.Name, "main")
	dir, err := r.stageDir(st.Module, name)
	if err != nil {
		r.infraf("%s: %v", name, err)
		return
	}
	workers := st.Workers
	if workers <= 0 {
		workers = 8
	}
	to := st.TimeoutS.get(r.tier)
	if to <= 0 {
		to = 600
	}
	args := []string{"-workers", strconv.Itoa(workers), "-metadir", filepath.Join(dir, "md"), "-config", st.Cfg.get(r.tier)}
	if st.Coverage && r.tier == "thorough" {
		args = append(args, "-coverage", "1")
	}
	args = append(args, st.Spec)
	o := runTLC(dir, time.Duration(to)*time.Second, false, args...)
	info := map[string]any{"stage": name, "cfg": st.Cfg.get(r.tier), "wall_s": round1(o.wall)}
	if o.timedOut {
		r.infraf("%s: TLC timed out after %ds", name, to)
		return
	}
	if m := reStates.FindAllStringSubmatch(o.out, -1); len(m) > 0 {
		last := m[len(m)-1]
		g, _ := strconv.ParseInt(last[1], 10, 64)
		d, _ := strconv.ParseInt(last[2], 10, 64)
		r.transitions += g
		r.states += d
		info["generated"], info["distinct"] = g, d
	}
	if !strings.Contains(o.out, "Model checking completed. No error has been found.") {
		// The exhaustive run speaks about the specification only: a failure here means the
		// model and its stated properties disagree, which is a defect of the machinery.
		r.infraf("%s: exhaustive model check did not pass:\n%s", name, tail(o.out, 40))
		return
	}
	info["exhaustive"] = true
	if st.Coverage && r.tier == "thorough" {
		// only the final coverage dump counts (interim dumps list actions not reached YET)
		covOut := o.out
		if i := strings.LastIndex(covOut, "The coverage statistics at"); i >= 0 {
			covOut = covOut[i:]
		}
		sc := bufio.NewScanner(strings.NewReader(covOut))
		for sc.Scan() {
			if m := reCovZero.FindStringSubmatch(sc.Text()); m != nil {
				r.actionsNever = append(r.actionsNever, m[1])
			}
		}
	}
	r.mcRuns = append(r.mcRuns, info)
}

func (r *run) runSim(st simStage) {
	name := orDefault(st.Name, "sim")
	dir, err := r.stageDir(st.Module, "sim-"+name)
	if err != nil {
		r.infraf("sim %s: %v", name, err)
		return
	}
	num, depth := st.Num.get(r.tier), st.Depth.get(r.tier)
	if num <= 0 {
		num = 50
	}
	if depth <= 0 {
		depth = 20
	}
	to := st.TimeoutS.get(r.tier)
	if to <= 0 {
		to = 300
	}
	// The Sim spec reads its Depth constant from the cfg; write a derived cfg with the tier's depth.
	cfgName := st.Cfg.get(r.tier)
	raw, err := os.ReadFile(filepath.Join(dir, cfgName))
	if err != nil {
		r.infraf("sim %s: %v", name, err)
		return
	}
	reDepth := regexp.MustCompile(`(?m)^(\s*Depth\s*=\s*)\d+`)
	derived := reDepth.ReplaceAll(raw, []byte("${1}"+strconv.Itoa(depth)))
	_ = os.WriteFile(filepath.Join(dir, "Sim_run.cfg"), derived, 0o644)
	o := runTLC(dir, time.Duration(to)*time.Second, false,
		"-workers", "1", "-simulate", "num="+strconv.Itoa(num), "-depth", strconv.Itoa(depth+2),
		"-seed", strconv.FormatInt(r.seed, 10), "-metadir", filepath.Join(dir, "md"), "-config", "Sim_run.cfg", st.Spec)
	if o.timedOut {
		r.infraf("sim %s: TLC timed out after %ds", name, to)
		return
	}
	if strings.Contains(o.out, "Error:") && !strings.Contains(o.out, "BEH ") {
		r.infraf("sim %s: TLC failed:\n%s", name, tail(o.out, 30))
		return
	}
	if m := reSimGen.FindStringSubmatch(o.out); m != nil {
		g, _ := strconv.ParseInt(m[1], 10, 64)
		r.transitions += g
	}
	max := st.Max.get(r.tier)
	if max <= 0 {
		max = 2000
	}
	out := filepath.Join(r.scratch, "beh_"+name+".jsonl")
	f, err := os.Create(out)
	if err != nil {
		r.infraf("sim %s: %v", name, err)
		return
	}
	w := bufio.NewWriter(f)
	n := 0
	seen := map[string]bool{}
	sc := bufio.NewScanner(strings.NewReader(o.out))
	sc.Buffer(make([]byte, 1<<20), 1<<28)
	for sc.Scan() {
		line := sc.Text()
		if !strings.HasPrefix(line, `"BEH `) {
			continue
		}
		s, err := strconv.Unquote(line)
		if err != nil {
			r.infraf("sim %s: cannot unquote behaviour: %v", name, err)
			break
		}
		s = strings.TrimPrefix(s, "BEH ")
		if seen[s] {
			continue
		}
		seen[s] = true
		if n >= max {
			continue
		}
		w.WriteString(s)
		w.WriteByte('\n')
		n++
	}
	w.Flush()
	f.Close()
	if n == 0 {
		r.infraf("sim %s: TLC produced no behaviour:\n%s", name, tail(o.out, 30))
		return
	}
	if strings.Contains(o.out, "is violated") || strings.Contains(o.out, "Error: ") {
		r.infraf("sim %s: TLC reported an error during simulation:\n%s", name, tail(o.out, 30))
	}
	r.behaviours[name] = out
	r.behCount += n
}

// ---- harness ---------------------------------------------------------------------------

func goBinary() string {
	if p := os.Getenv("VERIF_GO"); p != "" {
		return p
	}
	cands := []string{
		"/root/go/pkg/mod/golang.org/toolchain@v0.0.1-go1.25.11.linux-amd64/bin/go",
	}
	for _, c := range cands {
		if _, err := os.Stat(c); err == nil {
			return c
		}
	}
	return "go"
}

func goEnv() []string {
	env := []string{}
	for _, kv := range os.Environ() {
		k := kv[:strings.IndexByte(kv, '=')]
		switch k {
		case "GOFLAGS", "GOPROXY", "GOTOOLCHAIN", "GOSUMDB", "GONOSUMDB", "GONOSUMCHECK":
			continue
		}
		env = append(env, kv)
	}
	env = append(env, "GOFLAGS=-mod=mod", "GOPROXY=off", "GOTOOLCHAIN=local", "GONOSUMDB=*", "GONOSUMCHECK=1", "GOSUMDB=off")
	return env
}

func (r *run) runHarness(st harnessStage) {
	name := orDefault(st.Name, "harness")
	out := filepath.Join(r.scratch, "h-"+name)
	_ = os.MkdirAll(out, 0o755)
	resFile := filepath.Join(out, "result.json")
	traceFile := filepath.Join(out, "trace.ndjson")
	to := st.TimeoutS.get(r.tier)
	if to <= 0 {
		to = 600
	}
	args := []string{"test", "-tags", strings.TrimSpace("verif " + st.Tags), "-vet=off", "-count=1",
		"-timeout", strconv.Itoa(to) + "s", "-run", st.Run}
	if st.Race.get(r.tier) {
		args = append(args, "-race")
	}
	var dir string
	switch st.Kind {
	case "overlay":
		dir = repoRoot
		repl := map[string]string{
			filepath.Join(repoRoot, "internal/zzverif/kit/kit.go"): filepath.Join(verifRoot, "runner/kit/kit.go"),
		}
		for dst, src := range st.Files {
			repl[filepath.Join(repoRoot, dst)] = filepath.Join(verifRoot, src)
		}
		raw, _ := json.Marshal(map[string]any{"Replace": repl})
		ov := filepath.Join(out, "overlay.json")
		_ = os.WriteFile(ov, raw, 0o644)
		args = append(args, "-overlay", ov)
	case "ext":
		dir = filepath.Join(verifRoot, "runner")
		if repoRoot != "/repo" {
			mod, err := os.ReadFile(filepath.Join(dir, "go.mod"))
			if err != nil {
				r.infraf("harness %s: %v", name, err)
				return
			}
			mod = bytes.ReplaceAll(mod, []byte("=> /repo"), []byte("=> "+repoRoot))
			_ = os.WriteFile(filepath.Join(out, "go.mod"), mod, 0o644)
			sum, _ := os.ReadFile(filepath.Join(dir, "go.sum"))
			_ = os.WriteFile(filepath.Join(out, "go.sum"), sum, 0o644)
			args = append(args, "-modfile", filepath.Join(out, "go.mod"))
		}
	default:
		r.infraf("harness %s: unknown kind %q", name, st.Kind)
		return
	}
	args = append(args, st.Pkg)
	ctx, cancel := context.WithTimeout(context.Background(), time.Duration(to+120)*time.Second)
	defer cancel()
	cmd := exec.CommandContext(ctx, goBinary(), args...)
	cmd.Dir = dir
	cmd.SysProcAttr = &syscall.SysProcAttr{Setpgid: true}
	cmd.Cancel = func() error { return syscall.Kill(-cmd.Process.Pid, syscall.SIGKILL) }
	beh := r.behaviours[st.Beh]
	if st.Beh == "" {
		for _, s := range r.cfg.Sim {
			beh = r.behaviours[orDefault(s.Name, "sim")]
			break
		}
		if b, ok := r.behaviours["replay"]; ok {
			beh = b
		}
	}
	env := goEnv()
	env = append(env,
		"VERIF_RESULT="+resFile, "VERIF_TRACE_OUT="+traceFile, "VERIF_BEH="+beh,
		"VERIF_BEH_DIR="+r.scratch,
		"VERIF_SEED="+strconv.FormatInt(r.seed, 10), "VERIF_TIER="+r.tier,
		"VERIF_REPLAY_DIR="+filepath.Join(verifRoot, "replay"), "VERIF_PROPERTY="+r.cfg.Property,
		"VERIF_OUT_DIR="+out, "VERIF_ROOT="+verifRoot)
	for k, v := range st.Env {
		env = append(env, k+"="+v)
	}
	cmd.Env = env
	var buf bytes.Buffer
	cmd.Stdout = &buf
	cmd.Stderr = &buf
	err := cmd.Run()
	if r.warm {
		if err != nil {
			fmt.Fprintf(os.Stderr, "warm: %s does not compile: %v\n%s\n", st.Pkg, err, tail(buf.String(), 20))
		}
		return
	}
	raw, rerr := os.ReadFile(resFile)
	if rerr != nil {
		r.infraf("harness %s produced no result (go test: %v):\n%s", name, err, tail(buf.String(), 40))
		return
	}
	var res kit.Result
	if jerr := json.Unmarshal(raw, &res); jerr != nil {
		r.infraf("harness %s: bad result file: %v", name, jerr)
		return
	}
	if err != nil {
		// A failing go test with a result file: the harness reported through the file; anything
		// else (panic after Finish, timeout) is infrastructure trouble.
		r.infraf("harness %s: go test failed (%v):\n%s", name, err, tail(buf.String(), 40))
	}
	r.results = append(r.results, res)
	for _, s := range res.Infra {
		r.infraf("harness %s: %s", name, s)
	}
	r.violations = append(r.violations, res.Violations...)
	for k, v := range res.SelfTest {
		r.selfTests[name+"."+k] = v
	}
	r.samples = append(r.samples, res.Samples...)
	if res.TracesRecorded > 0 {
		r.traceFiles[name] = traceFile
	}
}

// warmAll compiles the test binary of every registered harness once.
func warmAll() int {
	files, _ := filepath.Glob(filepath.Join(verifRoot, "checks", "*.json"))
	sort.Strings(files)
	done := map[string]bool{}
	rc := 0
	for _, f := range files {
		raw, err := os.ReadFile(f)
		if err != nil {
			continue
		}
		var cfg checkConfig
		if json.Unmarshal(raw, &cfg) != nil {
			fmt.Fprintln(os.Stderr, "warm: bad config", f)
			rc = 2
			continue
		}
		scratch, _ := os.MkdirTemp("", "verif-warm-")
		r := &run{cfg: cfg, tier: "quick", seed: 1, scratch: scratch, start: time.Now(),
			behaviours: map[string]string{}, traceFiles: map[string]string{}, selfTests: map[string]any{}}
		for _, st := range cfg.Harness {
			key := st.Kind + "|" + st.Pkg + "|" + fmt.Sprint(st.Files) + "|" + st.Tags
			if done[key] {
				continue
			}
			done[key] = true
			st.Run = "^$"
			st.Race = tieredBool{}
			t0 := time.Now()
			r.warm = true
			r.runHarness(st)
			fmt.Fprintf(os.Stderr, "warm %s %s (%s): %.0fs\n", cfg.Property, st.Pkg, st.Kind, time.Since(t0).Seconds())
		}
		os.RemoveAll(scratch)
	}
	return rc
}

// ---- trace validation ------------------------------------------------------------------

var reL = regexp.MustCompile(`(?m)^/\\ l = (\d+)`)

func (r *run) runTrace(st traceStage) {
	name := orDefault(st.Name, "trace")
	from := st.From
	if from == "" && len(r.cfg.Harness) > 0 {
		from = orDefault(r.cfg.Harness[0].Name, "harness")
	}
	tf, ok := r.traceFiles[from]
	if !ok {
		r.infraf("trace %s: harness %q recorded no trace", name, from)
		return
	}
	lines, err := readLines(tf)
	if err != nil || len(lines) == 0 {
		r.infraf("trace %s: cannot read trace: %v", name, err)
		return
	}
	to := st.TimeoutS.get(r.tier)
	if to <= 0 {
		to = 600
	}
	accepted, o, dir := r.validate(st, name, lines, time.Duration(to)*time.Second)
	if o.timedOut {
		r.infraf("trace %s: TLC timed out after %ds", name, to)
		return
	}
	traces := 0
	for _, l := range lines {
		if strings.Contains(l, `"a":"Init"`) {
			traces++
		}
	}
	if m := reStates.FindAllStringSubmatch(o.out, -1); len(m) > 0 {
		d, _ := strconv.ParseInt(m[len(m)-1][2], 10, 64)
		r.traceStates += d
	}
	if accepted {
		r.tracesValidated += traces
		r.traceLines += len(lines)
		if len(r.samples) < 6 {
			var smp []any
			for i := 0; i < len(lines) && i < 6; i++ {
				var v any
				_ = json.Unmarshal([]byte(lines[i]), &v)
				smp = append(smp, v)
			}
			r.samples = append(r.samples, map[string]any{"trace_prefix": smp})
		}
	} else {
		r.rejected(st, name, lines, o, dir)
	}
	// Self-test of the binding: a corrupted copy of an accepted trace must be rejected.
	if accepted && !st.NoSelfTest {
		if mut, what := corrupt(lines, r.seed); mut != nil {
			acc2, o2, _ := r.validate(st, name+"-selftest", mut, time.Duration(to)*time.Second)
			switch {
			case o2.timedOut:
				r.infraf("trace %s self-test timed out", name)
			case acc2:
				r.infraf("trace %s self-test: corrupted trace (%s) was ACCEPTED — the trace spec does not bind that field", name, what)
				r.selfTests[name+".corrupted_trace_rejected"] = false
			default:
				r.selfTests[name+".corrupted_trace_rejected"] = true
				r.selfTests[name+".corruption"] = what
			}
		}
	}
}

func (r *run) validate(st traceStage, name string, lines []string, timeout time.Duration) (bool, tlcOut, string) {
	dir, err := r.stageDir(st.Module, "tv-"+name)
	if err != nil {
		return false, tlcOut{err: err, out: err.Error()}, dir
	}
	_ = os.WriteFile(filepath.Join(dir, "trace.ndjson"), []byte(strings.Join(lines, "\n")+"\n"), 0o644)
	workers := st.Workers
	if workers <= 0 {
		workers = 1
	}
	_ = os.RemoveAll(filepath.Join(dir, "md"))
	o := runTLC(dir, timeout, st.DFS, "-workers", strconv.Itoa(workers), "-metadir", filepath.Join(dir, "md"),
		"-config", st.Cfg.get(r.tier), st.Spec)
	ok := strings.Contains(o.out, "Model checking completed. No error has been found.")
	return ok, o, dir
}

// rejected classifies a rejected trace. The trace specs model only what the property
// constrains, so a recorded real-code behaviour that no specification behaviour explains is
// reported as a violation; TLC-level trouble (parse errors, evaluation errors) is infrastructure.
func (r *run) rejected(st traceStage, name string, lines []string, o tlcOut, dir string) {
	what := ""
	switch {
	case reInvViol.MatchString(o.out):
		what = "invariant " + reInvViol.FindStringSubmatch(o.out)[1] + " violated"
	case reActViol.MatchString(o.out):
		what = "action property " + reActViol.FindStringSubmatch(o.out)[1] + " violated"
	case strings.Contains(o.out, "Postcondition") || strings.Contains(o.out, "POSTCONDITION") || strings.Contains(o.out, "postcondition"):
		what = "no specification behaviour explains the trace (not every line could be consumed)"
	default:
		r.infraf("trace %s: TLC failed without a verdict:\n%s", name, tail(o.out, 40))
		return
	}
	// Last value of l printed in the counterexample = first unexplained line + 1.
	at := -1
	if m := reL.FindAllStringSubmatch(o.out, -1); len(m) > 0 {
		at, _ = strconv.Atoi(m[len(m)-1][1])
	}
	if strings.HasPrefix(what, "no specification") {
		// high-water mark is not printed; find it by bisection-free means: TLC generated N states.
		if m := reStates.FindAllStringSubmatch(o.out, -1); len(m) > 0 {
			d, _ := strconv.Atoi(m[len(m)-1][2])
			at = d // distinct states = consumed lines + 1 for deterministic trace specs
		}
	}
	lo, hi := 0, len(lines)
	if at > 0 {
		// invariant/property violation: the state printed last has l = (offending line)+1;
		// unexplained line (postcondition): `at` states = at-1 consumed lines, line `at` is unexplained
		hi = at - 1
		if strings.HasPrefix(what, "no specification") {
			hi = at
		}
		if hi < 1 {
			hi = 1
		}
		if hi > len(lines) {
			hi = len(lines)
		}
		for i := hi - 1; i >= 0; i-- {
			if strings.Contains(lines[i], `"a":"Init"`) {
				lo = i
				break
			}
		}
	}
	var excerpt []any
	for _, l := range lines[lo:hi] {
		var v any
		_ = json.Unmarshal([]byte(l), &v)
		excerpt = append(excerpt, v)
	}
	var offending any
	if len(excerpt) > 0 {
		offending = excerpt[len(excerpt)-1]
	}
	if m := regexp.MustCompile(`/\\ bad = "([^"]+)"`).FindAllStringSubmatch(o.out, -1); len(m) > 0 {
		what += " [" + m[len(m)-1][1] + "]"
	}
	detail := fmt.Sprintf("recorded trace rejected by %s/%s: %s (line %d of %d)", orDefault(st.Module, r.cfg.Module), st.Spec, what, hi, len(lines))
	_ = os.MkdirAll(filepath.Join(verifRoot, "replay"), 0o755)
	path := filepath.Join(verifRoot, "replay", fmt.Sprintf("%s-%s-seed%d.json", r.cfg.Property, name, r.seed))
	raw, _ := json.MarshalIndent(map[string]any{
		"property": r.cfg.Property, "kind": "trace", "detail": detail, "seed": r.seed, "tier": r.tier,
		"trace_up_to_rejection": excerpt, "offending_event": offending, "tlc": tail(o.out, 160),
	}, "", " ")
	_ = os.WriteFile(path, raw, 0o644)
	r.violations = append(r.violations, kit.Violation{Property: r.cfg.Property, Kind: "trace", Detail: detail, Replay: path})
}

// corrupt returns a copy of the trace with one observed value changed (a number in
// "st" or "ev.res" incremented, or a boolean flipped), chosen by the seed.
func corrupt(lines []string, seed int64) ([]string, string) {
	type cand struct {
		line int
		path []string
	}
	var cands []cand
	var walk func(line int, path []string, v any)
	walk = func(line int, path []string, v any) {
		switch x := v.(type) {
		case map[string]any:
			keys := make([]string, 0, len(x))
			for k := range x {
				keys = append(keys, k)
			}
			sort.Strings(keys)
			for _, k := range keys {
				walk(line, append(append([]string{}, path...), k), x[k])
			}
		case float64, bool:
			cands = append(cands, cand{line, path})
		}
	}
	decoded := make([]map[string]any, len(lines))
	for i, l := range lines {
		var m map[string]any
		if json.Unmarshal([]byte(l), &m) != nil {
			continue
		}
		decoded[i] = m
		ev, _ := m["ev"].(map[string]any)
		if ev == nil || ev["a"] == "Init" {
			continue
		}
		if res, ok := ev["res"]; ok {
			walk(i, []string{"ev", "res"}, res)
		}
		if st, ok := m["st"]; ok {
			walk(i, []string{"st"}, st)
		}
	}
	if len(cands) == 0 {
		return nil, ""
	}
	c := cands[int(uint64(seed*2654435761+12345)%uint64(len(cands)))]
	m := decoded[c.line]
	var cur any = m
	for _, k := range c.path[:len(c.path)-1] {
		cur = cur.(map[string]any)[k]
	}
	last := c.path[len(c.path)-1]
	holder := cur.(map[string]any)
	switch x := holder[last].(type) {
	case float64:
		holder[last] = x + 1
	case bool:
		holder[last] = !x
	}
	raw, _ := json.Marshal(m)
	out := append([]string{}, lines...)
	out[c.line] = string(raw)
	return out, fmt.Sprintf("line %d field %s", c.line+1, strings.Join(c.path, "."))
}

func readLines(path string) ([]string, error) {
	f, err := os.Open(path)
	if err != nil {
		return nil, err
	}
	defer f.Close()
	var out []string
	sc := bufio.NewScanner(f)
	sc.Buffer(make([]byte, 1<<20), 1<<28)
	for sc.Scan() {
		if t := strings.TrimSpace(sc.Text()); t != "" {
			out = append(out, t)
		}
	}
	return out, sc.Err()
}

// ---- replay ----------------------------------------------------------------------------

func (r *run) prepareReplay(path string) error {
	raw, err := os.ReadFile(path)
	if err != nil {
		return err
	}
	var art struct {
		Case struct {
			Behaviour json.RawMessage `json:"behaviour"`
		} `json:"case"`
	}
	if err := json.Unmarshal(raw, &art); err != nil {
		return err
	}
	if len(art.Case.Behaviour) == 0 {
		return errors.New("artefact carries no behaviour (trace rejections are replayed by re-running the check with the same VERIF_SEED)")
	}
	var compact bytes.Buffer
	if err := json.Compact(&compact, art.Case.Behaviour); err != nil {
		return err
	}
	out := filepath.Join(r.scratch, "beh_replay.jsonl")
	if err := os.WriteFile(out, append(compact.Bytes(), '\n'), 0o644); err != nil {
		return err
	}
	r.behaviours["replay"] = out
	r.behCount = 1
	return nil
}

// ---- verdict and evidence --------------------------------------------------------------

func (r *run) finish() int {
	id := r.cfg.Property
	known := loadKnown()
	var fresh []kit.Violation
	for _, v := range r.violations {
		matched := false
		for _, k := range known {
			if k.Status == "known" && k.Property == v.Property && v.Signature != "" && k.Signature == v.Signature {
				line := fmt.Sprintf("KNOWN-FINDING: property=%s %s", k.Property, k.What)
				if !contains(r.known, line) {
					r.known = append(r.known, line)
				}
				matched = true
				break
			}
		}
		if !matched {
			fresh = append(fresh, v)
		}
	}
	for _, res := range r.results {
		for _, k := range res.KnownFindings {
			for _, kf := range known {
				if kf.Status == "known" && kf.Property == k.Property && kf.Signature == k.Signature {
					line := fmt.Sprintf("KNOWN-FINDING: property=%s %s", kf.Property, kf.What)
					if !contains(r.known, line) {
						r.known = append(r.known, line)
					}
				}
			}
		}
	}
	for _, l := range r.known {
		fmt.Println(l)
	}

	behReplayed, stepsReplayed, tracesRec, stepsRec := 0, 0, 0, 0
	actions := map[string]int{}
	extra := map[string]any{}
	for _, res := range r.results {
		behReplayed += res.BehavioursReplayed
		stepsReplayed += res.StepsReplayed
		tracesRec += res.TracesRecorded
		stepsRec += res.StepsRecorded
		for k, v := range res.ActionsCovered {
			actions[k] += v
		}
		for k, v := range res.Extra {
			extra[res.Harness+"."+k] = v
		}
	}
	// vacuity floor: a claimed check that exercised nothing is infrastructure trouble
	if len(r.infra) == 0 && len(fresh) == 0 && len(r.cfg.Harness) > 0 && behReplayed+tracesRec == 0 {
		r.infraf("harnesses replayed no behaviour and recorded no trace")
	}

	level := r.cfg.Level
	if level == "" {
		level = "model_checking"
	}
	cov := map[string]any{
		"states":                        r.states + r.traceStates,
		"transitions":                   r.transitions + int64(stepsReplayed) + int64(r.traceLines),
		"traces_validated_against_impl": r.tracesValidated + behReplayed,
		"samples":                       r.samples,
		"exhaustive_model_runs":         r.mcRuns,
		"model_states_distinct":         r.states,
		"behaviours_generated_by_tlc":   r.behCount,
		"behaviours_replayed_on_impl":   behReplayed,
		"steps_replayed_on_impl":        stepsReplayed,
		"impl_traces_recorded":          tracesRec,
		"impl_traces_validated_by_tlc":  r.tracesValidated,
		"impl_trace_steps_validated":    r.traceLines,
		"actions_covered":               actions,
		"distinct_actions_covered":      len(actions),
		"self_tests":                    r.selfTests,
		"rule":                          r.cfg.Rule,
		"evaluations":                   behReplayed + tracesRec,
		"distinct_nontrivial":           behReplayed + r.tracesValidated,
		"exhaustive":                    len(r.mcRuns) > 0 && len(r.mcRuns) == countMC(r.cfg.MC, r.tier),
	}
	if len(r.actionsNever) > 0 {
		cov["actions_never_taken"] = r.actionsNever
	}
	for k, v := range extra {
		cov[k] = v
	}
	if len(r.samples) == 0 {
		cov["samples"] = []any{"(no sample: the run failed before any case was executed)"}
	}
	if r.states+r.traceStates == 0 {
		cov["states"] = 1
	}
	if r.transitions+int64(stepsReplayed)+int64(r.traceLines) == 0 {
		cov["transitions"] = 1
	}
	if len(r.known) > 0 {
		cov["known_findings_reported"] = r.known
	}
	if len(r.infra) > 0 {
		cov["infrastructure_trouble"] = r.infra
	}
	ev := map[string]any{
		"property_id": id, "tier": r.tier, "seed": r.seed, "level": level,
		"coverage": cov, "assumptions": r.cfg.Assumptions,
		"wall_s": round1(time.Since(r.start).Seconds()), "violations": len(fresh),
	}
	raw, _ := json.MarshalIndent(ev, "", " ")
	_ = os.MkdirAll(filepath.Join(verifRoot, "evidence"), 0o755)
	if _, isReplay := r.behaviours["replay"]; isReplay {
		// a replay run reports its verdict only; the evidence of the last full run is kept
	} else if err := os.WriteFile(filepath.Join(verifRoot, "evidence", id+".json"), append(raw, '\n'), 0o644); err != nil {
		fmt.Fprintln(os.Stderr, "cannot write evidence:", err)
		return 2
	}

	if len(fresh) > 0 {
		for _, v := range fresh {
			fmt.Printf("VIOLATION property=%s replay=%s\n", v.Property, v.Replay)
			fmt.Printf("  %s: %s\n", v.Kind, v.Detail)
		}
		return 1
	}
	if len(r.infra) > 0 {
		fmt.Printf("INCONCLUSIVE property=%s (infrastructure trouble, not a violation; see stderr)\n", id)
		return 2
	}
	fmt.Printf("OK property=%s tier=%s seed=%d model_states=%d behaviours_replayed=%d traces_validated=%d wall=%.0fs\n",
		id, r.tier, r.seed, r.states, behReplayed, r.tracesValidated, time.Since(r.start).Seconds())
	return 0
}

func countMC(st []mcStage, tier string) int {
	n := 0
	for _, s := range st {
		if s.Only == "" || s.Only == tier {
			n++
		}
	}
	return n
}

func contains(xs []string, s string) bool {
	for _, x := range xs {
		if x == s {
			return true
		}
	}
	return false
}

func orDefault(s, d string) string {
	if s == "" {
		return d
	}
	return s
}

func round1(f float64) float64 { return float64(int(f*10+0.5)) / 10 }

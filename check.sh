#!/bin/sh
# Entry point registered in MANIFEST.json:  ./check.sh <ID> <quick|thorough> [--replay path]
# Builds the runner if needed (from files on disk only) and runs it.
set -e
cd "$(dirname "$0")"
GOBIN_1_25=/root/go/pkg/mod/golang.org/toolchain@v0.0.1-go1.25.11.linux-amd64/bin/go
if [ -x "$GOBIN_1_25" ]; then GO="$GOBIN_1_25"; else GO=go; fi
if [ ! -x bin/check ] || [ -n "$(find runner/cmd runner/kit -newer bin/check -name '*.go' 2>/dev/null | head -1)" ]; then
  (cd runner && env -u GOSUMDB GOFLAGS=-mod=mod GOPROXY=off GOTOOLCHAIN=local "$GO" build -o ../bin/check ./cmd/check) >&2 || { echo "INCONCLUSIVE: cannot build runner" >&2; exit 2; }
fi
ID="$1"; TIER="${2:-${VERIF_TIER:-quick}}"; shift; [ $# -gt 0 ] && shift
exec ./bin/check "$ID" --tier "$TIER" "$@"

#!/usr/bin/env python3
"""Regenerates /verif/MANIFEST.json from tools/manifest_checks.json (claimed checks) and
tools/not_applicable.json, and validates it against the schema.  The only hand-edited inputs are
those two files and checks/<ID>.json."""
import json, os, sys
root = os.path.dirname(os.path.dirname(os.path.abspath(__file__)))
claimed = json.load(open(os.path.join(root, "tools/manifest_checks.json")))
na = json.load(open(os.path.join(root, "tools/not_applicable.json")))
props = [json.loads(l) for l in open(os.path.join(root, "properties.jsonl"))]
ids = [p["id"] for p in props]
checks = []
for pid in ids:
    if pid not in claimed:
        continue
    c = claimed[pid]
    if not os.path.exists(os.path.join(root, "checks", pid + ".json")):
        sys.exit("no checks/%s.json" % pid)
    checks.append({
        "property_id": pid,
        "quick_cmd": "./check.sh %s quick" % pid,
        "thorough_cmd": "./check.sh %s thorough" % pid,
        "evidence_file": "/verif/evidence/%s.json" % pid,
        "replay_cmd_template": "./check.sh %s quick --replay {path}" % pid,
        "engine": c.get("engine", "tlc+conformance"),
        "level_claimed": {"category": c["level"], "text": c["text"], "design_ref": c.get("design_ref", "DESIGN.md §6 " + pid)},
        "level_note": c["note"],
        "technique": c["technique"],
    })
missing = [i for i in ids if i not in claimed and i not in {n["property_id"] for n in na}]
if missing:
    sys.exit("properties neither claimed nor not_applicable: %s" % missing)
dup = [n["property_id"] for n in na if n["property_id"] in claimed]
if dup:
    sys.exit("both claimed and not_applicable: %s" % dup)
hooks = json.load(open(os.path.join(root, "tools/hooks.json")))
man = {
    "version": 1,
    "setup_cmd": "./setup.sh",
    "hooks": hooks,
    "engines": [
        {"name": "tlc+conformance", "path": "/verif/runner/cmd/check", "serves_properties": [c["property_id"] for c in checks],
         "kind_free_text": "explicit TLA+ specification per subsystem (specs/<Module>), exhaustive TLC model checking, TLC-generated behaviours replayed on the real code, traces recorded from the real code validated by TLC against the specification"},
    ],
    "checks": checks,
    "not_applicable": na,
    "notes": "One entry point: ./check.sh <ID> <quick|thorough> [--replay path]. Pipelines are declared in checks/<ID>.json; specifications in specs/; harnesses in overlay/ (compiled into /repo packages with go test -overlay) and runner/harness/ (external packages importing /repo through a replace directive). Exit 2 = infrastructure trouble, never a violation.",
}
json.dump(man, open(os.path.join(root, "MANIFEST.json"), "w"), indent=1)
open(os.path.join(root, "MANIFEST.json"), "a").write("\n")
try:
    import jsonschema
    jsonschema.validate(man, json.load(open("/root/.vp/MANIFEST.schema.json")))
    print("MANIFEST.json valid:", len(checks), "checks,", len(na), "not applicable")
except ImportError:
    print("MANIFEST.json written (jsonschema not available for validation)")

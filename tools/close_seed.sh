#!/bin/bash
# tools/close_seed.sh <ID-n> <text>: records that a previously missed seeded change is now caught.
d=/verif/seeded/$1; jq --arg t "$2" '.verified_by_main.gap_closed=$t' $d/meta.json > $d/meta.json.new && mv $d/meta.json.new $d/meta.json

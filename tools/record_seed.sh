#!/bin/bash
# tools/record_seed.sh <ID> <n> <seed-out-dir> <result text>
# copies a verified seeded change into /verif/seeded/<ID>-<n>/ and stamps the verification result.
set -e
id=$1; n=$2; src=$3; res=$4
d=/verif/seeded/$id-$n
mkdir -p $d
cp $src/patch.diff $src/demo_test.go $d/
pk=$(jq -r .demo_package_dir $src/meta.json); rx=$(jq -r .demo_run_regex $src/meta.json)
jq --arg ran "tools/try_seed.sh $id $src $pk '$rx' $id" --arg res "$res" '. + {verified_by_main:{ran:$ran,result:$res}}' $src/meta.json > $d/meta.json
echo recorded $d

#!/bin/sh
# usage: tools/try_seed.sh <ID> <seed-out-dir> <pkg-dir-for-demo> <demo-run-regex> [check-id ...]
# Confirms an independently written change (patch.diff + demo_test.go): existing package tests pass
# with it, the demo fails with it and passes without it; then runs our checks against it in a scratch
# worktree (VERIF_REPO), never touching /repo.
set -u
ID="$1"; OUT="$2"; PKG="$3"; RUN="$4"; shift 4
GO=/root/go/pkg/mod/golang.org/toolchain@v0.0.1-go1.25.11.linux-amd64/bin/go
export GOFLAGS=-mod=mod GOPROXY=off
WT=/tmp/tryseed-$$
git -C /repo worktree add -q "$WT" HEAD || exit 2
trap 'git -C /repo worktree remove --force "$WT" >/dev/null 2>&1' EXIT
cd "$WT"
cp "$OUT/demo_test.go" "$WT/$PKG/zz_seed_demo_test.go"
if $GO test -tags verif -count=1 -run "$RUN" "./$PKG/" >/tmp/tryseed-$$.log 2>&1; then echo "demo WITHOUT change: pass"; else echo "demo WITHOUT change: FAIL (bad demo)"; tail -5 /tmp/tryseed-$$.log; fi
rm -f "$WT/$PKG/zz_seed_demo_test.go"
git apply "$OUT/patch.diff" || { echo "patch does not apply"; exit 2; }
if $GO test -count=1 "./$PKG/" >/tmp/tryseed-$$.log 2>&1; then echo "existing tests WITH change: pass"; else echo "existing tests WITH change: FAIL"; tail -5 /tmp/tryseed-$$.log; fi
cp "$OUT/demo_test.go" "$WT/$PKG/zz_seed_demo_test.go"
if $GO test -tags verif -count=1 -run "$RUN" "./$PKG/" >/tmp/tryseed-$$.log 2>&1; then echo "demo WITH change: pass (change does not break the demo!)"; else echo "demo WITH change: fail (as intended)"; fi
rm -f "$WT/$PKG/zz_seed_demo_test.go" /tmp/tryseed-$$.log
for C in "$@"; do
  cd /verif
  VERIF_REPO="$WT" ./bin/check "$C" --tier quick 2>/dev/null | grep -v "^KNOWN" | cut -c1-220 | head -4
  echo "check $C exit=$?"
done

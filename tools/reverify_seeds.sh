#!/bin/bash
# tools/reverify_seeds.sh <lane-name> <seed-dir-name>...
# Re-runs the quick tier of each seeded change's own check against a scratch worktree carrying the
# change (never /repo) and appends "<seed> exit=<rc> <first VIOLATION line>" to /tmp/reverify-<lane>.log.
lane=$1; shift
wt=/tmp/reverify-$lane
git -C /repo worktree remove --force $wt >/dev/null 2>&1
git -C /repo worktree add -q $wt HEAD || exit 2
for s in "$@"; do
  id=${s%%-*}
  git -C $wt checkout -q -- . && git -C $wt clean -fdq
  if ! git -C $wt apply /verif/seeded/$s/patch.diff; then echo "$s patch-does-not-apply" >> /tmp/reverify-$lane.log; continue; fi
  t=$(date +%s)
  out=$(VERIF_REPO=$wt /verif/bin/check $id --tier quick 2>&1); rc=$?
  echo "$s exit=$rc wall=$(( $(date +%s)-t ))s $(echo "$out" | grep -A1 '^VIOLATION' | head -2 | tr '\n' ' ' | cut -c1-260)" >> /tmp/reverify-$lane.log
done
git -C /repo worktree remove --force $wt

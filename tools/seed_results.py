#!/usr/bin/env python3
"""Writes seeded/RESULTS.txt from the logs of tools/reverify_seeds.sh (one line per seeded change)."""
import glob, re, sys, json
rows = {}
for f in sorted(glob.glob(sys.argv[1] + "/*.log")) + sorted(glob.glob(sys.argv[2] + "/reverify-g*.log")):
    for line in open(f):
        m = re.match(r"(C\d\d-\d) exit=(\d) wall=(\d+)s ?(.*)", line.strip())
        if m:
            rows[m.group(1)] = (m.group(2), m.group(4)[:200])
out = ["# final re-verification of every seeded change against the final checks",
       "# (tools/reverify_seeds.sh: change applied in a scratch worktree, VERIF_REPO=<wt> bin/check <id> --tier quick, seed 1)",
       "# exit=1 means the check reported a VIOLATION for the changed tree", ""]
for k in sorted(rows):
    out.append(f"{k} exit={rows[k][0]} {rows[k][1]}")
open("/verif/seeded/RESULTS.txt", "w").write("\n".join(out) + "\n")
print(len(rows), "rows;", sum(1 for v in rows.values() if v[0] == "1"), "caught")

---------------------------------- MODULE MCB ----------------------------------
(* Exhaustive model checking of MessageLogCrashB (MessageLogCrash + the multi-item
   StoreAppendBatch call): the probe lists and the channel order, nothing else. *)
EXTENDS MessageLogCrashB
MCProbeIds   == << 1, 2 >>
MCProbeFroms == << "u1" >>
MCProbeNos   == << "n1" >>
MCChanSeq1   == << "c1" >>
MCChanSeq2   == << "c1", "c2" >>
===============================================================================

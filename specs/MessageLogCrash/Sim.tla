--------------------------------- MODULE Sim ---------------------------------
(* Behaviour generator (spec -> code): `tlc -simulate` prints one sequential mutation
   history per run ("BEH {...}").  Every step carries the call, the reply the specification
   determines and `st`, the projection a store reopened after a crash must show when the
   step is the last one that reached the disk (ColdProj of every channel).  The restore
   cleanup additionally carries `alts`, the projections of its channel between the pages.

   The harness executes the history on the real store over a crash-simulating file system
   and compares every crash image with these projections: an image taken while step k was
   in flight must be st[k-1], one of alts[k], or st[k]; an image taken after step k returned
   must be st[k].

   One successor per action kind (arguments drawn with RandomElement) so that -simulate
   chooses uniformly among kinds; most kinds are aimed at calls that change the durable
   state.  On the compatibility surface channel c2 is kept in exact-proposal mode (only
   exact appends write rows), which keeps its frontier readable for suffix replacements. *)
EXTENDS MessageLogCrash, Json
CONSTANTS Depth
VARIABLE beh

SimProbeIds   == SetToSortSeq(Ids, <)
SimProbeFroms == << "u1", "u2" >>
SimProbeNos   == << "n1", "n2" >>
SimChanSeq    == << "c1", "c2" >>

\* beh keeps raw snapshots (cheap); the projections are computed when the behaviour is printed
Lasts  == [c \in Chans |-> LastOf(hist[c])]
LastsP == [c \in Chans |-> LastOf(hist'[c])]

SimInit == Init9 /\ beh = << [ev |-> ev, sn |-> Lasts, alts |-> << >>] >>

Pick(S) == IF S = {} THEN {} ELSE {RandomElement(S)}
Plain == IF Compat THEN Chans \ {"c2"} ELSE Chans
Exact == IF Compat THEN Chans \cap {"c2"} ELSE {}
Fresh(c) == {i \in Ids : Home(i) = c /\ i \notin DOMAIN idIdx}
CleanRecs(c) == {r \in [id : Fresh(c), from : Froms, no : Nos, p : Pays] : HasKey(r) => KeyOf(r) \notin DOMAIN idem[c]}
HomeRecs(c) == {r \in [id : {i \in Ids : Home(i) = c}, from : Froms, no : Nos, p : Pays] : TRUE}
Ends(c) == {0} \cup {prop[c][q].last : q \in DOMAIN prop[c]}
FreePids(c) == Pids \ DOMAIN prop[c]
CutOK(c, to) == to >= CkHW(c) /\ (Typed /\ ret[c].has => to >= ret[c].local)
Seq1(r) == << r >>

SimStep ==
  \* ---- plain channels: appends
  \/ \E c \in Pick(Plain) : CleanRecs(c) # {} /\ \E m \in Pick(Modes), r \in Pick(CleanRecs(c)) : CAppend(c, m, 0, Seq1(r))
  \/ \E c \in Pick(Plain) : CleanRecs(c) # {} /\
        \E m \in Pick(Modes), r1 \in Pick(CleanRecs(c)) :
          LET R2 == {r \in CleanRecs(c) : r.id # r1.id /\ (HasKey(r) /\ HasKey(r1) => KeyOf(r) # KeyOf(r1))}
          IN R2 # {} /\ \E r2 \in Pick(R2) : CAppend(c, m, 0, << r1, r2 >>)
  \/ \E c \in Pick(Plain) : \E r \in Pick(HomeRecs(c)) : CAppend(c, "strict", 0, Seq1(r))
  \/ Typed /\ \E c \in Pick(Plain) : CleanRecs(c) # {} /\ \E r \in Pick(CleanRecs(c)), b \in Pick({0, 1, 1, 2}) : CAppend(c, "strict", Leo(c) + b, Seq1(r))
  \* ---- plain channels: follower applies with a watermark
  \/ \E c \in Pick(Plain) : CleanRecs(c) # {} /\
        \E m \in Pick({"strict", "trusted"}), r \in Pick(CleanRecs(c)), hw \in Pick({0, Leo(c), Leo(c) + 1}) : CApply(c, m, 0, Seq1(r), hw)
  \/ \E c \in Pick(Plain) : CleanRecs(c) # {} /\
        \E r1 \in Pick(CleanRecs(c)) :
          LET R2 == {r \in CleanRecs(c) : r.id # r1.id /\ (HasKey(r) /\ HasKey(r1) => KeyOf(r) # KeyOf(r1))}
          IN R2 # {} /\ \E r2 \in Pick(R2), hw \in Pick({0, Leo(c) + 1, Leo(c) + 2}) : CApply(c, "trusted", 0, << r1, r2 >>, hw)
  \/ \E c \in Pick(Plain) : Leo(c) > 0 /\ \E hw \in Pick(1..Leo(c)) : CApply(c, "trusted", 0, << >>, hw)
  \* ---- truncation
  \/ \E c \in Pick(Chans) : \E to \in Pick(0..(Leo(c) + 1)) : CutOK(c, to) /\ CTruncate(c, to)
  \/ \E c \in Pick(Chans) : Leo(c) > 0 /\ CutOK(c, Leo(c) - 1) /\ CTruncate(c, Leo(c) - 1)
  \/ \E c \in Pick(Exact) : \E to \in Pick(Ends(c)) : CutOK(c, to) /\ CTruncate(c, to)
  \* ---- retention, page by page
  \/ Compat /\ \E c \in Pick(Chans) : Leo(c) > 0 /\ \E t \in Pick(1..Leo(c)) : CAdopt(c, t)
  \/ Compat /\ \E c \in Pick(Plain) : \E t \in Pick(0..MinOf(MaxSeq, Leo(c) + 2)) : CAdopt(c, t)
  \/ \E c \in Pick(Plain) : \E t \in Pick(0..MinOf(MaxSeq, Leo(c) + 2)), lim \in Pick({0, 1, 2}) : CTrim(c, t, lim)
  \/ \E c \in Pick(Chans) : Leo(c) > 0 /\ (c \in Exact => ret[c].has) /\
        \E t \in Pick(1..(IF c \in Exact THEN MinOf(Leo(c), ret[c].local) ELSE Leo(c))), lim \in Pick({0, 1, 1, 2}) : CTrim(c, t, lim)
  \/ \E c \in Pick(Chans) : ret[c].has /\ \E lim \in Pick({0, 1}) : CTrim(c, ret[c].local, lim)
  \* ---- checkpoints
  \/ \E c \in Pick(Chans) : Leo(c) > 0 /\ \E hw \in Pick(1..Leo(c)) : (c \in Exact => hw >= CkHW(c)) /\ CCkpt(c, hw)
  \/ \E c \in Pick(Chans) : Leo(c) > 0 /\ \E hw \in Pick(1..Leo(c)) : CCkptMono(c, hw)
  \* ---- exact proposals
  \/ \E c \in Pick(Exact) : CleanRecs(c) # {} /\ FreePids(c) # {} /\
        \E q \in Pick(FreePids(c)), r \in Pick(CleanRecs(c)), m \in Pick({"strict", "alloc"}), hw \in Pick({0, 0, Leo(c), Leo(c) + 1}) :
           (hw >= CkHW(c) \/ hw = 0) /\ ExAppend(c, q, Leo(c), Seq1(r), m, hw)
  \/ \E c \in Pick(Exact) : CleanRecs(c) # {} /\ FreePids(c) # {} /\
        \E q \in Pick(FreePids(c)), r1 \in Pick(CleanRecs(c)), m \in Pick({"strict", "alloc"}) :
          LET R2 == {r \in CleanRecs(c) : r.id # r1.id /\ (HasKey(r) /\ HasKey(r1) => KeyOf(r) # KeyOf(r1))}
          IN R2 # {} /\ \E r2 \in Pick(R2) : ExAppend(c, q, Leo(c), << r1, r2 >>, m, 0)
  \* replay of a stored proposal whose rows are still there
  \/ \E c \in Pick(Exact) :
        LET Q == {q \in DOMAIN prop[c] : \A s \in (prop[c][q].base + 1)..prop[c][q].last : s \in RowSeqs(c)}
        IN Q # {} /\ \E q \in Pick(Q) : \E hw \in Pick({0, prop[c][q].last}) :
             (hw = 0 \/ hw >= CkHW(c)) /\
             ExAppend(c, q, prop[c][q].base, [i \in 1..(prop[c][q].last - prop[c][q].base) |-> rows[c][prop[c][q].base + i]], "strict", hw)
  \* a gap, a range that is taken
  \/ \E c \in Pick(Exact) : CleanRecs(c) # {} /\ FreePids(c) # {} /\
        \E q \in Pick(FreePids(c)), r \in Pick(CleanRecs(c)), b \in Pick(Ends(c) \cup {Leo(c) + 1}) : ExAppend(c, q, b, Seq1(r), "strict", 0)
  \* suffix replacement
  \/ \E c \in Pick(Exact) : CleanRecs(c) # {} /\ FreePids(c) # {} /\
        \E keep \in Pick({e \in Ends(c) : e >= CkHW(c)} \cup {Leo(c)}), q \in Pick(FreePids(c)), r \in Pick(CleanRecs(c)) :
           \E hw \in Pick(CkHW(c)..(keep + 1)) : Replace(c, keep, << [pid |-> q, recs |-> Seq1(r)] >>, hw)
  \/ \E c \in Pick(Exact) : Cardinality(FreePids(c)) >= 2 /\
        \E keep \in Pick({e \in Ends(c) : e >= CkHW(c)}), q1 \in Pick(FreePids(c)) :
          LET R1 == CleanRecs(c) \cup {rows[c][s] : s \in {t \in RowSeqs(c) : t > keep}} IN
          R1 # {} /\ \E r1 \in Pick(R1), q2 \in Pick(FreePids(c) \ {q1}) :
            LET R2 == {r \in CleanRecs(c) : r.id # r1.id /\ (HasKey(r) /\ HasKey(r1) => KeyOf(r) # KeyOf(r1))}
            IN R2 # {} /\ \E r2 \in Pick(R2), hw \in Pick(CkHW(c)..(keep + 2)) :
                 Replace(c, keep, << [pid |-> q1, recs |-> Seq1(r1)], [pid |-> q2, recs |-> Seq1(r2)] >>, hw)
  \/ \E c \in Pick(Exact) : \E keep \in Pick({e \in Ends(c) : e >= CkHW(c)}) : Replace(c, keep, << >>, CkHW(c))
  \* ---- restore cleanup (rare)
  \/ Compat /\ RandomElement(1..4) = 1 /\ \E c \in Pick(Chans) : RowSeqs(c) # {} /\ Discard(c)
  \* ---- reads
  \/ RandomElement(1..3) = 1 /\ \E c \in Pick(Chans) : LeoRead(c)

\* the snapshots between the pages of a restore cleanup of channel c
Alts(c) == [i \in 1..(Len(hist'[c]) - Len(hist[c]) - 1) |-> hist'[c][Len(hist[c]) + i]]

SimNext ==
  IF Len(beh) <= Depth
    THEN SimStep /\
         beh' = Append(beh, [ev |-> ev', sn |-> LastsP, alts |-> IF ev'.a = "Discard" THEN Alts(ev'.c) ELSE << >>])
    ELSE UNCHANGED cvars /\ beh' = Append(beh, [ev |-> [a |-> "End"], sn |-> 0, alts |-> << >>])

Out(b) ==
  [ev |-> IF b.ev.a = "Discard"
            THEN [a |-> "Discard", c |-> b.ev.c, res |-> b.ev.res,
                  alts |-> [i \in 1..Len(b.alts) |-> ColdProj(b.alts[i], b.ev.c)]]
            ELSE b.ev,
   st |-> [c \in Chans |-> ColdProj(b.sn[c], c)]]

Emit == Len(beh) = Depth + 2 =>
          PrintT("BEH " \o ToJson([steps |-> [i \in 1..(Depth + 1) |-> TLCEval(Out(TLCEval(beh[i])))]]))
===============================================================================

--------------------------------- MODULE Sim ---------------------------------
(* Behaviour generator (spec -> code): `tlc -simulate` prints one sequential mutation
   history per run ("BEH {...}").  Every step carries the call, the reply the specification
   determines and `st`, the projection a store reopened after a crash must show when the
   step is the last one that reached the disk (ColdProj of every channel).  The restore
   cleanup additionally carries `alts`, the projections of its channel between the pages.

   The harness executes the history on the real store over a crash-simulating file system
   and compares every crash image with these projections: an image taken while step k was
   in flight must be st[k-1], one of alts[k], or st[k]; an image taken after step k returned
   must be st[k].

   One successor per action kind (arguments drawn with RandomElement) so that -simulate
   chooses uniformly among kinds; most kinds are aimed at calls that change the durable
   state.  On the compatibility surface channel c2 is kept in exact-proposal mode (only
   exact appends write rows), which keeps its frontier readable for suffix replacements.

   Every behaviour has a focus, drawn with its initial state: "mix" (everything), or, on the
   compatibility surface, "hist" (epoch history: epochs begun at the log end, follower applies
   that carry an epoch point, truncations of log and history that remove points) or "shrink"
   (a retention state whose retained log-end floor equals the log end, then a suffix
   replacement that ends BELOW the old log end). *)
EXTENDS MessageLogCrashB, Json
CONSTANTS Depth
VARIABLE beh

SimProbeIds   == SetToSortSeq(Ids, <)
SimProbeFroms == << "u1", "u2" >>
SimProbeNos   == << "n1", "n2" >>
SimChanSeq    == << "c1", "c2" >>

\* beh keeps raw snapshots (cheap); the projections are computed when the behaviour is printed
Lasts  == [c \in Chans |-> LastOf(hist[c])]
LastsP == [c \in Chans |-> LastOf(hist'[c])]

SimInit == /\ Init9
           /\ \E f \in (IF cfg.surface = "compat" THEN {"mix", "hist", "shrink", "batch"} ELSE {"mix", "mix2"}) :
                 beh = << [ev |-> ev, sn |-> Lasts, alts |-> << >>, focus |-> f] >>
Focus == beh[1].focus

Pick(S) == IF S = {} THEN {} ELSE {RandomElement(S)}
Plain == IF Compat THEN Chans \ {"c2"} ELSE Chans
Exact == IF Compat THEN Chans \cap {"c2"} ELSE {}
Fresh(c) == {i \in Ids : Home(i) = c /\ i \notin DOMAIN idIdx}
CleanRecs(c) == {r \in [id : Fresh(c), from : Froms, no : Nos, p : Pays] : HasKey(r) => KeyOf(r) \notin DOMAIN idem[c]}
HomeRecs(c) == {r \in [id : {i \in Ids : Home(i) = c}, from : Froms, no : Nos, p : Pays] : TRUE}
Ends(c) == {0} \cup {prop[c][q].last : q \in DOMAIN prop[c]}
FreePids(c) == Pids \ DOMAIN prop[c]
CutOK(c, to) == to >= CkHW(c) /\ (Typed /\ ret[c].has => to >= ret[c].local) /\ (to >= Leo(c) \/ NoneAbove(c, to))
NextEpoch(c) == IF eh[c] = << >> THEN 1 ELSE eh[c][Len(eh[c])].e + 1
\* truncation targets that remove at least one epoch point
PointCuts(c) == {eh[c][i].s - 1 : i \in {j \in 1..Len(eh[c]) : eh[c][j].s >= 1}}
\* suffix replacements by one record that end below the log end
ShortKeeps(c) == {e \in Ends(c) : e >= CkHW(c) /\ (ret[c].has => e >= ret[c].local) /\ e + 1 < Leo(c)}
Seq1(r) == << r >>

SimStep ==
  \* ---- plain channels: appends
  \/ \E c \in Pick(Plain) : CleanRecs(c) # {} /\ \E m \in Pick(Modes), r \in Pick(CleanRecs(c)) : CAppend(c, m, 0, Seq1(r))
  \/ \E c \in Pick(Plain) : CleanRecs(c) # {} /\
        \E m \in Pick(Modes), r1 \in Pick(CleanRecs(c)) :
          LET R2 == {r \in CleanRecs(c) : r.id # r1.id /\ (HasKey(r) /\ HasKey(r1) => KeyOf(r) # KeyOf(r1))}
          IN R2 # {} /\ \E r2 \in Pick(R2) : CAppend(c, m, 0, << r1, r2 >>)
  \/ \E c \in Pick(Plain) : \E r \in Pick(HomeRecs(c)) : CAppend(c, "strict", 0, Seq1(r))
  \/ Typed /\ \E c \in Pick(Plain) : CleanRecs(c) # {} /\ \E r \in Pick(CleanRecs(c)), b \in Pick({0, 1, 1, 2}) : CAppend(c, "strict", Leo(c) + b, Seq1(r))
  \* ---- plain channels: follower applies with a watermark
  \/ \E c \in Pick(Plain) : CleanRecs(c) # {} /\
        \E m \in Pick({"strict", "trusted"}), r \in Pick(CleanRecs(c)), hw \in Pick({0, Leo(c), Leo(c) + 1}) : CApply(c, m, 0, Seq1(r), hw)
  \/ \E c \in Pick(Plain) : CleanRecs(c) # {} /\
        \E r1 \in Pick(CleanRecs(c)) :
          LET R2 == {r \in CleanRecs(c) : r.id # r1.id /\ (HasKey(r) /\ HasKey(r1) => KeyOf(r) # KeyOf(r1))}
          IN R2 # {} /\ \E r2 \in Pick(R2), hw \in Pick({0, Leo(c) + 1, Leo(c) + 2}) : CApply(c, "trusted", 0, << r1, r2 >>, hw)
  \/ \E c \in Pick(Plain) : Leo(c) > 0 /\ \E hw \in Pick(1..Leo(c)) : CApply(c, "trusted", 0, << >>, hw)
  \* ---- truncation
  \/ \E c \in Pick(Chans) : \E to \in Pick(0..(Leo(c) + 1)) : CutOK(c, to) /\ CTruncate(c, to)
  \/ \E c \in Pick(Chans) : Leo(c) > 0 /\ CutOK(c, Leo(c) - 1) /\ CTruncate(c, Leo(c) - 1)
  \/ \E c \in Pick(Exact) : \E to \in Pick(Ends(c)) : CutOK(c, to) /\ CTruncate(c, to)
  \* ---- retention, page by page
  \/ Compat /\ \E c \in Pick(Chans) : Leo(c) > 0 /\ \E t \in Pick(1..Leo(c)) : CAdopt(c, t)
  \/ Compat /\ \E c \in Pick(Plain) : \E t \in Pick(0..MinOf(MaxSeq, Leo(c) + 2)) : CAdopt(c, t)
  \/ \E c \in Pick(Plain) : \E t \in Pick(0..MinOf(MaxSeq, Leo(c) + 2)), lim \in Pick({0, 1, 2}) : CTrim(c, t, lim)
  \/ \E c \in Pick(Chans) : Leo(c) > 0 /\ (c \in Exact => ret[c].has) /\
        \E t \in Pick(1..(IF c \in Exact THEN MinOf(Leo(c), ret[c].local) ELSE Leo(c))), lim \in Pick({0, 1, 1, 2}) : CTrim(c, t, lim)
  \/ \E c \in Pick(Chans) : ret[c].has /\ \E lim \in Pick({0, 1}) : CTrim(c, ret[c].local, lim)
  \* ---- checkpoints
  \/ \E c \in Pick(Chans) : Leo(c) > 0 /\ \E hw \in Pick(1..Leo(c)) : (c \in Exact => hw >= CkHW(c)) /\ CCkpt(c, hw)
  \/ \E c \in Pick(Chans) : Leo(c) > 0 /\ \E hw \in Pick(1..Leo(c)) : CCkptMono(c, hw)
  \* ---- exact proposals
  \/ \E c \in Pick(Exact) : CleanRecs(c) # {} /\ FreePids(c) # {} /\
        \E q \in Pick(FreePids(c)), r \in Pick(CleanRecs(c)), m \in Pick({"strict", "alloc"}), hw \in Pick({0, 0, Leo(c), Leo(c) + 1}) :
           (hw >= CkHW(c) \/ hw = 0) /\ ExAppend(c, q, Leo(c), Seq1(r), m, hw)
  \/ \E c \in Pick(Exact) : CleanRecs(c) # {} /\ FreePids(c) # {} /\
        \E q \in Pick(FreePids(c)), r1 \in Pick(CleanRecs(c)), m \in Pick({"strict", "alloc"}) :
          LET R2 == {r \in CleanRecs(c) : r.id # r1.id /\ (HasKey(r) /\ HasKey(r1) => KeyOf(r) # KeyOf(r1))}
          IN R2 # {} /\ \E r2 \in Pick(R2) : ExAppend(c, q, Leo(c), << r1, r2 >>, m, 0)
  \* replay of a stored proposal whose rows are still there
  \/ \E c \in Pick(Exact) :
        LET Q == {q \in DOMAIN prop[c] : \A s \in (prop[c][q].base + 1)..prop[c][q].last : s \in RowSeqs(c)}
        IN Q # {} /\ \E q \in Pick(Q) : \E hw \in Pick({0, prop[c][q].last}) :
             (hw = 0 \/ hw >= CkHW(c)) /\
             ExAppend(c, q, prop[c][q].base, [i \in 1..(prop[c][q].last - prop[c][q].base) |-> rows[c][prop[c][q].base + i]], "strict", hw)
  \* a gap, a range that is taken
  \/ \E c \in Pick(Exact) : CleanRecs(c) # {} /\ FreePids(c) # {} /\
        \E q \in Pick(FreePids(c)), r \in Pick(CleanRecs(c)), b \in Pick(Ends(c) \cup {Leo(c) + 1}) : ExAppend(c, q, b, Seq1(r), "strict", 0)
  \* suffix replacement
  \/ \E c \in Pick(Exact) : CleanRecs(c) # {} /\ FreePids(c) # {} /\
        \E keep \in Pick({e \in Ends(c) : e >= CkHW(c)} \cup {Leo(c)}), q \in Pick(FreePids(c)), r \in Pick(CleanRecs(c)) :
           \E hw \in Pick(CkHW(c)..(keep + 1)) : Replace(c, keep, << [pid |-> q, recs |-> Seq1(r)] >>, hw)
  \/ \E c \in Pick(Exact) : Cardinality(FreePids(c)) >= 2 /\
        \E keep \in Pick({e \in Ends(c) : e >= CkHW(c)}), q1 \in Pick(FreePids(c)) :
          LET R1 == CleanRecs(c) \cup {rows[c][s] : s \in {t \in RowSeqs(c) : t > keep}} IN
          R1 # {} /\ \E r1 \in Pick(R1), q2 \in Pick(FreePids(c) \ {q1}) :
            LET R2 == {r \in CleanRecs(c) : r.id # r1.id /\ (HasKey(r) /\ HasKey(r1) => KeyOf(r) # KeyOf(r1))}
            IN R2 # {} /\ \E r2 \in Pick(R2), hw \in Pick(CkHW(c)..(keep + 2)) :
                 Replace(c, keep, << [pid |-> q1, recs |-> Seq1(r1)], [pid |-> q2, recs |-> Seq1(r2)] >>, hw)
  \/ \E c \in Pick(Exact) : \E keep \in Pick({e \in Ends(c) : e >= CkHW(c)}) : Replace(c, keep, << >>, CkHW(c))
  \* ---- epoch history (compat)
  \/ Compat /\ \E c \in Pick(Chans) : NextEpoch(c) \in Epochs /\ BeginEpoch(c, NextEpoch(c), Leo(c))
  \/ Compat /\ \E c \in Pick(Plain) : CleanRecs(c) # {} /\ NextEpoch(c) \in Epochs /\
        \E m \in Pick({"strict", "trusted"}), r \in Pick(CleanRecs(c)), hw \in Pick({0, Leo(c)}) : ApplyE(c, m, Seq1(r), hw, NextEpoch(c), Leo(c))
  \/ Compat /\ \E c \in Pick(Chans) : \E to \in Pick(PointCuts(c) \cup {Leo(c)}) : to >= CkHW(c) /\ TruncLH(c, to)
  \/ Compat /\ RandomElement(1..2) = 1 /\ \E c \in Pick(Chans) : \E to \in Pick(0..Leo(c)) : to >= CkHW(c) /\ TruncLH(c, to)
  \* ---- a suffix replacement that ends below the log end
  \/ \E c \in Pick(Exact) : ShortKeeps(c) # {} /\ CleanRecs(c) # {} /\ FreePids(c) # {} /\
        \E keep \in Pick(ShortKeeps(c)), q \in Pick(FreePids(c)), r \in Pick(CleanRecs(c)) :
           \E hw \in Pick({CkHW(c), keep + 1}) : Replace(c, keep, << [pid |-> q, recs |-> Seq1(r)] >>, hw)
  \* ---- restore cleanup (rare)
  \/ Compat /\ RandomElement(1..4) = 1 /\ \E c \in Pick(Chans) : RowSeqs(c) # {} /\ Discard(c)
  \* ---- reads
  \/ RandomElement(1..3) = 1 /\ \E c \in Pick(Chans) : LeoRead(c)

\* ---- focus "hist": the epoch history and the calls that cut it
HistStep ==
  \/ \E c \in Pick(Plain) : CleanRecs(c) # {} /\ \E m \in Pick(Modes), r \in Pick(CleanRecs(c)) : CAppend(c, m, 0, Seq1(r))
  \/ \E c \in Pick(Plain) : CleanRecs(c) # {} /\
        \E r1 \in Pick(CleanRecs(c)) :
          LET R2 == {r \in CleanRecs(c) : r.id # r1.id /\ (HasKey(r) /\ HasKey(r1) => KeyOf(r) # KeyOf(r1))}
          IN R2 # {} /\ \E r2 \in Pick(R2) : CAppend(c, "strict", 0, << r1, r2 >>)
  \/ \E c \in Pick(Exact) : CleanRecs(c) # {} /\ FreePids(c) # {} /\
        \E q \in Pick(FreePids(c)), r \in Pick(CleanRecs(c)), m \in Pick({"strict", "alloc"}) : ExAppend(c, q, Leo(c), Seq1(r), m, 0)
  \/ \E c \in Pick(Chans) : NextEpoch(c) \in Epochs /\ BeginEpoch(c, NextEpoch(c), Leo(c))
  \/ \E c \in Pick(Chans) : Leo(c) > 0 /\ NextEpoch(c) \in Epochs /\ BeginEpoch(c, NextEpoch(c), Leo(c))
  \/ \E c \in Pick(Plain) : CleanRecs(c) # {} /\ NextEpoch(c) \in Epochs /\
        \E m \in Pick({"strict", "trusted"}), r \in Pick(CleanRecs(c)), hw \in Pick({0, Leo(c), Leo(c) + 1}) : ApplyE(c, m, Seq1(r), hw, NextEpoch(c), Leo(c))
  \/ \E c \in Pick(Chans) : PointCuts(c) # {} /\ \E to \in Pick(PointCuts(c)) : to >= CkHW(c) /\ TruncLH(c, to)
  \/ \E c \in Pick(Chans) : \E to \in Pick(0..Leo(c)) : to >= CkHW(c) /\ TruncLH(c, to)
  \* refused points: not at the log end, an epoch that does not advance
  \/ RandomElement(1..2) = 1 /\ \E c \in Pick(Chans) : \E e \in Pick(Epochs), s \in Pick({Leo(c), Leo(c) + 1}) : BeginEpoch(c, e, s)
  \/ RandomElement(1..3) = 1 /\ \E c \in Pick(Chans) : \E e \in Pick(Epochs), s \in Pick(0..Leo(c)) : AppendHist(c, e, s)
  \/ RandomElement(1..3) = 1 /\ \E c \in Pick(Chans) : \E t \in Pick(0..(Leo(c) + 1)) : HistTrunc(c, t)
  \/ RandomElement(1..2) = 1 /\ \E c \in Pick(Chans) : \E to \in Pick(0..(Leo(c) + 1)) : CutOK(c, to) /\ CTruncate(c, to)
  \/ RandomElement(1..2) = 1 /\ \E c \in Pick(Chans) : Leo(c) > 0 /\ \E hw \in Pick(1..Leo(c)) : CCkptMono(c, hw)

\* ---- focus "shrink": the exact channel with a retention floor at the log end, then a shorter suffix
ShrinkStep ==
  \/ \E c \in Pick(Exact) : CleanRecs(c) # {} /\ FreePids(c) # {} /\
        \E q \in Pick(FreePids(c)), r \in Pick(CleanRecs(c)), m \in Pick({"strict", "alloc"}), hw \in Pick({0, 0, Leo(c)}) :
           (hw >= CkHW(c) \/ hw = 0) /\ ExAppend(c, q, Leo(c), Seq1(r), m, hw)
  \/ \E c \in Pick(Exact) : CleanRecs(c) # {} /\ FreePids(c) # {} /\
        \E q \in Pick(FreePids(c)), r1 \in Pick(CleanRecs(c)), m \in Pick({"strict", "alloc"}) :
          LET R2 == {r \in CleanRecs(c) : r.id # r1.id /\ (HasKey(r) /\ HasKey(r1) => KeyOf(r) # KeyOf(r1))}
          IN R2 # {} /\ \E r2 \in Pick(R2) : ExAppend(c, q, Leo(c), << r1, r2 >>, m, 0)
  \/ \E c \in Pick(Exact) : Leo(c) > 1 /\ \E t \in Pick({1, 1, 2} \cap (1..Leo(c))) : CAdopt(c, t)
  \/ \E c \in Pick(Exact) : ret[c].has /\ \E lim \in Pick({0, 1}) : CTrim(c, ret[c].local, lim)
  \/ \E c \in Pick(Exact) : ShortKeeps(c) # {} /\ CleanRecs(c) # {} /\ FreePids(c) # {} /\
        \E keep \in Pick(ShortKeeps(c)), q \in Pick(FreePids(c)), r \in Pick(CleanRecs(c)) :
           \E hw \in Pick({CkHW(c), keep + 1}) : Replace(c, keep, << [pid |-> q, recs |-> Seq1(r)] >>, hw)
  \/ \E c \in Pick(Exact) : ret[c].has /\ ShortKeeps(c) # {} /\ CleanRecs(c) # {} /\ FreePids(c) # {} /\
        \E keep \in Pick(ShortKeeps(c)), q \in Pick(FreePids(c)), r \in Pick(CleanRecs(c)) :
           Replace(c, keep, << [pid |-> q, recs |-> Seq1(r)] >>, CkHW(c))
  \/ \E c \in Pick(Exact) : \E keep \in Pick({e \in Ends(c) : e >= CkHW(c) /\ (ret[c].has => e >= ret[c].local)}) : Replace(c, keep, << >>, CkHW(c))
  \/ RandomElement(1..2) = 1 /\ \E c \in Pick(Exact) : Leo(c) > 0 /\ \E hw \in Pick(1..Leo(c)) : CCkptMono(c, hw)
  \/ RandomElement(1..2) = 1 /\ \E c \in Pick(Exact) : \E to \in Pick(Ends(c)) : CutOK(c, to) /\ CTruncate(c, to)
  \/ RandomElement(1..3) = 1 /\ \E c \in Pick(Plain) : CleanRecs(c) # {} /\ \E m \in Pick(Modes), r \in Pick(CleanRecs(c)) : CAppend(c, m, 0, Seq1(r))
  \/ RandomElement(1..3) = 1 /\ \E c \in Pick(Chans) : LeoRead(c)

\* ---- focus "batch": both channels exact-only, several items in ONE StoreAppendBatch call (MessageLogCrashB);
\* sweep = the harness also enumerates the cancellation points of the call
CleanBut(c, R) == {r \in CleanRecs(c) : \A x \in R : r.id # x.id /\ (HasKey(r) /\ HasKey(x) => KeyOf(r) # KeyOf(x))}
WholeP(c) == {q \in DOMAIN prop[c] : \A s \in (prop[c][q].base + 1)..prop[c][q].last : s \in RowSeqs(c)}
RowsOf(c, q) == [i \in 1..(prop[c][q].last - prop[c][q].base) |-> rows[c][prop[c][q].base + i]]
BMode == {"strict", "alloc"}
BatchStep ==
  \* a single exact proposal (keeps the chains growing)
  \/ \E c \in Pick(Chans) : CleanRecs(c) # {} /\ FreePids(c) # {} /\
        \E q \in Pick(FreePids(c)), r \in Pick(CleanRecs(c)), m \in Pick(BMode), hw \in Pick({0, 0, Leo(c) + 1}) : ExAppend(c, q, Leo(c), Seq1(r), m, hw)
  \* a proposal and its own retry in one call, the retry with or without a committed value; sometimes a further
  \* proposal chained behind, before or after the retry
  \/ \E c \in Pick(Chans) : CleanRecs(c) # {} /\ Cardinality(FreePids(c)) >= 2 /\
        \E q1 \in Pick(FreePids(c)), r1 \in Pick(CleanRecs(c)), m \in Pick(BMode), more \in Pick({0, 0, 1, 2}), sw \in Pick({TRUE, TRUE, FALSE}) :
          \E l1 \in Pick({Seq1(r1)} \cup {<< r1, x >> : x \in CleanBut(c, {r1})}) :
            \E rhw \in Pick({0, 0, Leo(c) + 1, Leo(c) + Len(l1)}) :
              LET i1 == BItem(c, q1, Leo(c), l1, m, 0)
                  rt == BItem(c, q1, Leo(c), l1, m, rhw)
                  R3 == CleanBut(c, {l1[i] : i \in 1..Len(l1)})
              IN IF more = 0 \/ R3 = {} THEN Batch(<< i1, rt >>, sw)
                 ELSE \E q2 \in Pick(FreePids(c) \ {q1}), r3 \in Pick(R3) :
                        LET nx == BItem(c, q2, Leo(c) + Len(l1), Seq1(r3), m, 0)
                        IN IF more = 1 THEN Batch(<< i1, rt, nx >>, sw) ELSE Batch(<< i1, nx, rt >>, sw)
  \* a pipelined chain of two or three new proposals
  \/ \E c \in Pick(Chans) : CleanRecs(c) # {} /\ Cardinality(FreePids(c)) >= 3 /\
        \E q1 \in Pick(FreePids(c)), r1 \in Pick(CleanRecs(c)), m \in Pick(BMode), three \in Pick({TRUE, FALSE}), sw \in Pick({TRUE, FALSE}) : CleanBut(c, {r1}) # {} /\
          \E q2 \in Pick(FreePids(c) \ {q1}), r2 \in Pick(CleanBut(c, {r1})), hw \in Pick({0, 0, Leo(c) + 1, Leo(c) + 2}), hw1 \in Pick({0, 0, Leo(c) + 1}) :
             LET i1 == BItem(c, q1, Leo(c), Seq1(r1), m, hw1)
                 i2 == BItem(c, q2, Leo(c) + 1, Seq1(r2), m, hw)
                 R3 == CleanBut(c, {r1, r2})
             IN IF three /\ R3 # {}
                  THEN \E q3 \in Pick(FreePids(c) \ {q1, q2}), r3 \in Pick(R3) : Batch(<< i1, i2, BItem(c, q3, Leo(c) + 2, Seq1(r3), m, 0) >>, sw)
                  ELSE Batch(<< i1, i2 >>, sw)
  \* the second pipelined proposal repeats the key of the first (refused; the first one alone is the commit)
  \/ \E c \in Pick(Chans) : Cardinality(FreePids(c)) >= 2 /\
        LET K == {r \in CleanRecs(c) : HasKey(r)} IN K # {} /\
        \E q1 \in Pick(FreePids(c)), r1 \in Pick(K), m \in Pick(BMode), sw \in Pick({TRUE, FALSE}) : Fresh(c) \ {r1.id} # {} /\
          \E q2 \in Pick(FreePids(c) \ {q1}), id2 \in Pick(Fresh(c) \ {r1.id}) :
             Batch(<< BItem(c, q1, Leo(c), Seq1(r1), m, 0), BItem(c, q2, Leo(c) + 1, Seq1([r1 EXCEPT !.id = id2]), m, 0) >>, sw)
  \* items of two channels in one call: ONE physical commit; one channel possibly with a chain or a retry
  \/ \E c \in Pick(Chans) : \E d \in Pick(Chans \ {c}) :
        CleanRecs(c) # {} /\ CleanRecs(d) # {} /\ FreePids(c) # {} /\ FreePids(d) # {} /\
        \E q1 \in Pick(FreePids(c)), r1 \in Pick(CleanRecs(c)), qd \in Pick(FreePids(d)), rd \in Pick(CleanRecs(d)), m \in Pick(BMode),
           hw \in Pick({0, 0, Leo(c) + 1}), more \in Pick({0, 1, 2}), sw \in Pick({TRUE, FALSE}) :
          LET i1 == BItem(c, q1, Leo(c), Seq1(r1), m, hw)
              id == BItem(d, qd, Leo(d), Seq1(rd), m, 0)
              R2 == CleanBut(c, {r1})
          IN IF more = 1 /\ R2 # {} /\ FreePids(c) \ {q1} # {}
               THEN \E q2 \in Pick(FreePids(c) \ {q1}), r2 \in Pick(R2) : Batch(<< i1, id, BItem(c, q2, Leo(c) + 1, Seq1(r2), m, 0) >>, sw)
             ELSE IF more = 2 THEN Batch(<< i1, id, id >>, sw)
             ELSE Batch(<< i1, id >>, sw)
  \* the replay of a stored proposal (possibly raising the watermark) next to a new one, in either order
  \/ \E c \in Pick(Chans) : WholeP(c) # {} /\ CleanRecs(c) # {} /\ FreePids(c) # {} /\
        \E q \in Pick(WholeP(c)), q1 \in Pick(FreePids(c)), r1 \in Pick(CleanRecs(c)), m \in Pick(BMode), first \in Pick({TRUE, FALSE}), sw \in Pick({TRUE, FALSE}) :
          \E hw \in Pick({0} \cup (IF CkHW(c) < prop[c][q].last THEN (CkHW(c) + 1)..prop[c][q].last ELSE {})) :
             LET old == BItem(c, q, prop[c][q].base, RowsOf(c, q), "strict", hw)
                 new == BItem(c, q1, Leo(c), Seq1(r1), m, 0)
             IN IF first THEN Batch(<< old, new >>, sw) ELSE Batch(<< new, old >>, sw)
  \* a gap behind the first item
  \/ RandomElement(1..2) = 1 /\ \E c \in Pick(Chans) : CleanRecs(c) # {} /\ Cardinality(FreePids(c)) >= 2 /\
        \E q1 \in Pick(FreePids(c)), r1 \in Pick(CleanRecs(c)), m \in Pick(BMode) : CleanBut(c, {r1}) # {} /\
          \E q2 \in Pick(FreePids(c) \ {q1}), r2 \in Pick(CleanBut(c, {r1})) :
             Batch(<< BItem(c, q1, Leo(c), Seq1(r1), m, 0), BItem(c, q2, Leo(c) + 2, Seq1(r2), m, 0) >>, FALSE)
  \* truncation to the end of a proposal, a watermark, a read of the log end
  \/ RandomElement(1..2) = 1 /\ \E c \in Pick(Chans) : \E to \in Pick(Ends(c)) : CutOK(c, to) /\ CTruncate(c, to)
  \/ RandomElement(1..2) = 1 /\ \E c \in Pick(Chans) : Leo(c) > 0 /\ \E hw \in Pick(1..Leo(c)) : CCkptMono(c, hw)
  \/ RandomElement(1..3) = 1 /\ \E c \in Pick(Chans) : LeoRead(c)

FocusStep == IF Focus = "hist" THEN HistStep ELSE IF Focus = "shrink" THEN ShrinkStep
             ELSE IF Focus = "batch" THEN BatchStep ELSE SimStep

\* the snapshots between the pages of a restore cleanup of channel c
Alts(c) == [i \in 1..(Len(hist'[c]) - Len(hist[c]) - 1) |-> hist'[c][Len(hist[c]) + i]]

SimNext ==
  IF Len(beh) <= Depth
    THEN FocusStep /\
         beh' = Append(beh, [ev |-> ev', sn |-> LastsP, alts |-> IF ev'.a = "Discard" THEN Alts(ev'.c) ELSE << >>])
    ELSE UNCHANGED cvars /\ beh' = Append(beh, [ev |-> [a |-> "End"], sn |-> 0, alts |-> << >>])

Out(b) ==
  [ev |-> IF b.ev.a = "Discard"
            THEN [a |-> "Discard", c |-> b.ev.c, res |-> b.ev.res,
                  alts |-> [i \in 1..Len(b.alts) |-> ColdProj(b.alts[i], b.ev.c)]]
            ELSE b.ev,
   st |-> [c \in Chans |-> ColdProj(b.sn[c], c)]]

Emit == Len(beh) = Depth + 2 =>
          PrintT("BEH " \o ToJson([steps |-> [i \in 1..(Depth + 1) |-> TLCEval(Out(TLCEval(beh[i])))]]))
===============================================================================

SPECIFICATION TraceSpec
CONSTANTS
  Chans = {"c1", "c2"}
  Ids = {1}
  Froms = {""}
  Nos = {""}
  Pays = {0}
  Surfaces = {"compat"}
  MaxSeq = 100000000
  MaxBatch = 1
  MaxOpen = 1
  HWs = {1}
  Pids = {1}
  MaxUnrep = 1000000
  Epochs = {1}
  ProbeIds <- TraceProbeIds
  ProbeFroms <- TraceProbeFroms
  ProbeNos <- TraceProbeNos
  ChanSeq <- TraceChanSeq
  KeepRmaxVariant = FALSE
CONSTRAINT Track
INVARIANTS C07_IndexSound C08_KeyUnique C08_IdOnce C09_ViewIsNewest
POSTCONDITION Accepted
CHECK_DEADLOCK FALSE

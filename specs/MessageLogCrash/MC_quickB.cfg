\* multi-item StoreAppendBatch calls as ONE commit: one channel, compat surface, keyless records (chains of two proposals,
\* a proposal with its retry, cancelled calls), up to 2 unreported commits:
\* 18,353 distinct / 848,224 generated states, depth 11, ~2 min with 4 idle workers (6 min at load 60)
SPECIFICATION Spec9B
CONSTANTS
  Chans = {"c1"}
  Ids = {1, 2}
  Froms = {"u1"}
  Nos = {""}
  Pays = {0}
  Surfaces = {"compat"}
  MaxSeq = 2
  MaxBatch = 1
  MaxOpen = 1
  HWs = {1}
  Pids = {1, 2}
  MaxUnrep = 3
  Epochs = {}
  ProbeIds <- MCProbeIds
  ProbeFroms <- MCProbeFroms
  ProbeNos <- MCProbeNos
  ChanSeq <- MCChanSeq1
  KeepRmaxVariant = FALSE
VIEW View9
INVARIANTS TypeOK C07_IndexSound C08_KeyUnique C08_IdOnce C08_FilterCovers C09_EveryCrashImageSound C09_ViewIsNewest C09_WatermarkBelowLogEnd C09_LogEnd
PROPERTIES C09_RecoversAPrefix C09_ReportKeeps C09_BatchIsOneCommit
CHECK_DEADLOCK FALSE

--------------------------- MODULE MessageLogCrash ---------------------------
(* Crash atomicity of the node-local message store (property C09).

   The module extends MessageLog (the store as a sequential object: rows, secondary
   indexes, retention state, checkpoint register, cached log end) with
     - the exact-proposal records of the compatibility surface (pkg/db/message
       proposal_manifest.go, recovery_replace.go): per channel an entry identity for every
       exactly appended row and the proposal (command) that covers a range of rows,
     - a durable / volatile split.  The MessageLog variables are the volatile view (what
       the running process reads).  hist[c] is the durable side of channel c: the sequence
       of states the channel's storage went through since the last state that was
       *reported durable*, one element per physical commit:
          hist[c][1]            the newest state some returned reply vouches for
          hist[c][2..]          states produced by commits whose reply is still outstanding
       A mutation is one commit (one element) except the restore cleanup
       (DiscardForRestore), which commits page by page and therefore contributes one
       element per page plus the final wipe, as in the code.
     - Report(c, i): a reply is returned for the commit that produced hist[c][i]
       (everything before it stops being a possible crash image),
     - Crash: the process or the machine stops.  Every channel independently comes back
       in one of the states of its hist (a prefix of the channel's issued mutations that
       contains every mutation already reported durable); the commit coordinator groups
       requests of different channels into one physical batch, so across channels any
       combination of per-channel prefixes is allowed.  All volatile state is lost.

   Environment contracts (the callers' obligations, stated in Next and obeyed by the
   harness drivers):
     - a checkpoint watermark is only ever offered at or below the log end the caller was
       told, and a truncation never goes below a watermark that was offered;
     - a message id is used on one channel only (cross-channel id collisions are C08's). *)
EXTENDS MessageLog

CONSTANTS
  Pids,      \* proposal (command) identities offered for exact appends, positive integers
  ChanSeq,   \* sequence of the channel names: ids with id % Len(ChanSeq) = i - 1 belong to ChanSeq[i]
  MaxUnrep,  \* bound on Len(hist[c]) in the exhaustive runs
  Epochs     \* channel epochs offered for epoch-history points, positive integers

VARIABLES
  ident,   \* ident[c] : seq -> pid             entry identities
  prop,    \* prop[c]  : pid -> [base, last]    proposal records (by-command and by-last pair)
  hist,    \* hist[c]  : sequence of channel snapshots, see above
  hbase,   \* hbase[c] : absolute position of hist[c][1] in the channel's commit sequence
  eh       \* eh[c]    : epoch history, the sequence of points [e |-> epoch, s |-> start offset]
           \*            in key order (history.go; written on the compatibility surface only)

cvars == <<rows, ret, ckpt, idem, cli, snd, idIdx, mem, open, dbOpen, cfg, ev, ident, prop, hist, hbase, eh>>

-------------------------------------------------------------------------------
\* Channel snapshots.

IdsOfIn(IX, c) == {i \in DOMAIN IX : IX[i].c = c}

MkSnap(R, RT, CK, IM, CL, SN, IX, ID, PR, EH, c) ==
  [rows |-> R[c], idem |-> IM[c], cli |-> CL[c], snd |-> SN[c],
   ids  |-> [i \in IdsOfIn(IX, c) |-> IX[i].s],
   ret  |-> RT[c], ckpt |-> CK[c], ident |-> ID[c], prop |-> PR[c], eh |-> EH[c], disc |-> FALSE]

Snap(c)  == MkSnap(rows, ret, ckpt, idem, cli, snd, idIdx, ident, prop, eh, c)
SnapP(c) == MkSnap(rows', ret', ckpt', idem', cli', snd', idIdx', ident', prop', eh', c)

EmptySnap == [rows |-> Empty, idem |-> Empty, cli |-> {}, snd |-> {}, ids |-> Empty,
              ret |-> NoRet, ckpt |-> NoCkpt, ident |-> Empty, prop |-> Empty, eh |-> << >>, disc |-> FALSE]

LastOf(q) == q[Len(q)]

\* one commit on channel c (nothing is recorded when the durable state did not change)
Commit1(c) ==
  LET sp == [SnapP(c) EXCEPT !.disc = LastOf(hist[c]).disc]
  IN hist' = [hist EXCEPT ![c] = IF sp = LastOf(@) THEN @ ELSE Append(@, sp)]

\* removal of the rows S of a snapshot together with the index entries derived from them
CutRows(sn, S) ==
  [sn EXCEPT !.rows = Del(sn.rows, S),
             !.ids  = Del(sn.ids, {sn.rows[s].id : s \in S}),
             !.idem = Del(sn.idem, {KeyOf(sn.rows[s]) : s \in {t \in S : HasKey(sn.rows[t])}}),
             !.cli  = sn.cli \ {<<sn.rows[s].no, s>> : s \in S},
             !.snd  = sn.snd \ {<<sn.rows[s].from, s>> : s \in S}]

RECURSIVE IdsAfter(_, _, _, _)
IdsAfter(f, recs, base, i) ==
  IF i > Len(recs) THEN f ELSE IdsAfter(Put(f, recs[i].id, base + i - 1), recs, base, i + 1)

\* staging of recs at base.. on a snapshot (row + every index)
AddRows(sn, recs, base) ==
  LET N == NewSeqs(recs, base) IN
  [sn EXCEPT !.rows = [s \in DOMAIN sn.rows \cup N |-> IF s \in N THEN recs[s - base + 1] ELSE sn.rows[s]],
             !.ids  = IdsAfter(sn.ids, recs, base, 1),
             !.idem = IdemAfter(sn.idem, recs, base, 1),
             !.cli  = sn.cli \cup {<<recs[i].no, base + i - 1>> : i \in {j \in 1..Len(recs) : recs[j].no # "" /\ recs[j].from = ""}},
             !.snd  = sn.snd \cup {<<recs[i].from, base + i - 1>> : i \in {j \in 1..Len(recs) : recs[j].from # ""}}]

\* make snapshot sn the row/index state of channel c
InstallRows(c, sn) ==
  /\ rows'  = [rows EXCEPT ![c] = sn.rows]
  /\ idem'  = [idem EXCEPT ![c] = sn.idem]
  /\ cli'   = [cli EXCEPT ![c] = sn.cli]
  /\ snd'   = [snd EXCEPT ![c] = sn.snd]
  /\ idIdx' = [i \in (DOMAIN idIdx \ IdsOfIn(idIdx, c)) \cup DOMAIN sn.ids |->
                 IF i \in DOMAIN sn.ids THEN [c |-> c, s |-> sn.ids[i]] ELSE idIdx[i]]

SnapLogEnd(sn) == MaxOf(SetMax(DOMAIN sn.rows), IF sn.ret.has THEN sn.ret.rmax ELSE 0)
CkHW(c) == IF ckpt[c].has THEN ckpt[c].hw ELSE 0

Home(id) == ChanSeq[(id % Len(ChanSeq)) + 1]
HomeOK(c, recs) == \A i \in 1..Len(recs) : Home(recs[i].id) = c

-------------------------------------------------------------------------------
\* The MessageLog mutations as commits.

KeepX == UNCHANGED <<ident, prop, hbase, eh>>

CAppend(c, mode, base, recs)     == DoAppend(c, mode, base, recs) /\ KeepX /\ Commit1(c)
CApply(c, mode, base, recs, hw)  == DoApply(c, mode, base, recs, hw) /\ KeepX /\ Commit1(c)
CAdopt(c, t)                     == Adopt(c, t) /\ KeepX /\ Commit1(c)
CTrim(c, t, lim)                 == Trim(c, t, lim) /\ KeepX /\ Commit1(c)
CCkpt(c, hw)                     == Ckpt(c, hw) /\ KeepX /\ Commit1(c)
CCkptMono(c, hw)                 == CkptMono(c, hw) /\ KeepX /\ Commit1(c)

(* Truncation also removes the complete proposals above the target with their entry
   identities (stageTruncateDurableProposals, same batch); a target inside a proposal is
   refused. *)
CTruncate(c, to) ==
  LET leo      == Leo(c)
      refused  == Compat /\ (to > leo \/ (to < leo /\ ret[c].has /\ to < ret[c].local))
      cuts     == ~refused /\ to < leo
      straddle == \E q \in DOMAIN prop[c] : prop[c][q].base < to /\ to < prop[c][q].last
  IN IF cuts /\ straddle
       THEN /\ Usable(c)
            /\ ev' = [a |-> "Truncate", c |-> c, to |-> to, res |-> [err |-> "rejected"]]
            /\ UNCHANGED <<durable, mem, open, dbOpen, cfg, ident, prop, hist, hbase, eh>>
       ELSE /\ Truncate(c, to)
            /\ UNCHANGED <<hbase, eh>>
            /\ ident' = IF cuts THEN [ident EXCEPT ![c] = Del(@, {s \in DOMAIN @ : s > to})] ELSE ident
            /\ prop'  = IF cuts THEN [prop EXCEPT ![c] = Del(@, {q \in DOMAIN @ : @[q].last > to})] ELSE prop
            /\ Commit1(c)

\* LEO() of a leased channel: the cached log end, which the code documents as durable.
LeoRead(c) ==
  /\ Usable(c)
  /\ ev' = [a |-> "Leo", c |-> c, res |-> [leo |-> Leo(c)]]
  /\ UNCHANGED <<durable, mem, open, dbOpen, cfg, ident, prop, hist, hbase, eh>>

-------------------------------------------------------------------------------
(* ExAppend(c, pid, b, recs, mode, hw): StoreAppendBatch with one exact item
   (ExactBaseOffset, ExpectedBaseOffset = b, Proposal = the manifest of command pid chained
   to the entry at b, Committed = hw).  Rows, indexes, one entry identity per row, the
   proposal record (both of its keys) and the raised checkpoint are one commit.  Replaying
   a stored command is AlreadyDurable and writes at most the checkpoint. *)
XRes(err, out, b, l) == [err |-> err, out |-> out, base |-> b, last |-> l]

ExAppend(c, pid, b, recs, mode, hw) ==
  /\ Usable(c) /\ Compat
  /\ UNCHANGED eh
  /\ mode \in {"strict", "alloc"}
  /\ recs # <<>>
  /\ b + Len(recs) <= MaxSeq
  /\ hw <= b + Len(recs)
  /\ LET leo     == Leo(c)
         last    == b + Len(recs)
         present == pid \in DOMAIN prop[c]
         predOK  == b = 0 \/ \E q \in DOMAIN prop[c] : prop[c][q].last = b
         lastTaken == \E q \in DOMAIN prop[c] \ {pid} : prop[c][q].last = last
         entTaken  == \E s \in (b + 1)..last : s \in DOMAIN ident[c]
         fresh   == mode = "alloc" /\ b = leo
         v       == Validate(c, mode, recs, b + 1)
         E(r)    == [a |-> "ExAppend", c |-> c, pid |-> pid, b |-> b, recs |-> recs, mode |-> mode, hw |-> hw, res |-> r]
         Refuse  == /\ ev' = E(XRes("rejected", "none", 0, 0))
                    /\ UNCHANGED <<durable, mem, ident, prop, hist>>
         RaiseHW == IF hw > CkHW(c) THEN [ckpt EXCEPT ![c] = [has |-> TRUE, hw |-> hw]] ELSE ckpt
     IN \* a stored command is only replayed with its own range and content
        /\ (present => /\ prop[c][pid] = [base |-> b, last |-> last]
                       /\ \A i \in 1..Len(recs) : b + i \in RowSeqs(c) /\ rows[c][b + i] = recs[i])
        /\ (~present => EnvOK(c, mode, recs) /\ HomeOK(c, recs))
        /\ IF b > leo \/ ~predOK THEN Refuse
           ELSE IF ~fresh /\ ~present /\ (lastTaken \/ entTaken) THEN Refuse
           ELSE IF hw > 0 /\ CkHW(c) > MaxOf(leo, last) THEN Refuse
           ELSE IF present
             THEN IF leo < last THEN Refuse
                  ELSE /\ ckpt' = RaiseHW
                       /\ ev' = E(XRes("", "already", b + 1, last))
                       /\ UNCHANGED <<rows, ret, idem, cli, snd, idIdx, mem, ident, prop>>
                       /\ Commit1(c)
           ELSE IF b # leo THEN Refuse
           ELSE IF v.err # ""
             THEN /\ ev' = E(XRes("rejected", "none", 0, 0))
                  /\ mem' = [mem EXCEPT ![c].fl = v.fl, ![c].fk = v.fk]
                  /\ UNCHANGED <<durable, ident, prop, hist>>
           ELSE /\ Stage(c, recs, b + 1)
                /\ ckpt'  = RaiseHW
                /\ ident' = [ident EXCEPT ![c] = [s \in DOMAIN @ \cup ((b + 1)..last) |-> IF s > b THEN pid ELSE @[s]]]
                /\ prop'  = [prop EXCEPT ![c] = Put(@, pid, [base |-> b, last |-> last])]
                /\ mem'   = [mem EXCEPT ![c].fl = v.fl, ![c].fk = v.fk, ![c].leo = last]
                /\ ev'    = E(XRes("", "durable", b + 1, last))
                /\ UNCHANGED ret
                /\ Commit1(c)
  /\ UNCHANGED <<open, dbOpen, cfg, hbase>>

(* Replace(c, keep, ps, hw): ReplaceRecoverySuffix.  Everything above `keep` is deleted
   (rows, indexes, identities, proposals, epoch points that start above it), the proposals ps = <<[pid, recs], ...>> are
   installed after it and the checkpoint is set to hw, in one commit.  The request carries
   the frontier the caller inspected (taken here as the current one). *)
RECURSIVE Flat(_, _)
Flat(ps, i) == IF i > Len(ps) THEN <<>> ELSE ps[i].recs \o Flat(ps, i + 1)
RECURSIVE PropsAfter(_, _, _, _)
PropsAfter(f, ps, base, i) ==
  IF i > Len(ps) THEN f
  ELSE PropsAfter(Put(f, ps[i].pid, [base |-> base, last |-> base + Len(ps[i].recs)]), ps, base + Len(ps[i].recs), i + 1)
RECURSIVE IdentAfter(_, _, _, _)
IdentAfter(f, ps, base, i) ==
  IF i > Len(ps) THEN f
  ELSE LET n == Len(ps[i].recs) IN
       IdentAfter([s \in DOMAIN f \cup ((base + 1)..(base + n)) |-> IF s > base THEN ps[i].pid ELSE f[s]],
                  ps, base + n, i + 1)

TailOK(sn, leo) ==
  leo = 0 \/ (leo \in DOMAIN sn.ident /\ sn.ident[leo] \in DOMAIN sn.prop /\ sn.prop[sn.ident[leo]].last = leo)

Replace(c, keep, ps, hw) ==
  /\ Usable(c) /\ Compat
  /\ \A i \in 1..Len(ps) : ps[i].recs # <<>>
  /\ LET leo   == Leo(c)
         all   == Flat(ps, 1)
         final == keep + Len(all)
         S     == {s \in RowSeqs(c) : s > keep}
         kept  == CutRows(Snap(c), S)
         pids  == {ps[i].pid : i \in 1..Len(ps)}
         dupPid  == Cardinality(pids) # Len(ps)
         reuse   == \E q \in pids : q \in DOMAIN prop[c] /\ prop[c][q].last <= keep
         dupId   == \E i, j \in 1..Len(all) : i < j /\ all[i].id = all[j].id
         dupKey  == \E i, j \in 1..Len(all) : i < j /\ HasKey(all[i]) /\ HasKey(all[j]) /\ KeyOf(all[i]) = KeyOf(all[j])
         idBusy  == \E i \in 1..Len(all) : all[i].id \in DOMAIN idIdx /\ (idIdx[all[i].id].c # c \/ idIdx[all[i].id].s <= keep)
         keyBusy == \E i \in 1..Len(all) : HasKey(all[i]) /\ KeyOf(all[i]) \in DOMAIN idem[c] /\ idem[c][KeyOf(all[i])].s <= keep
         refused == \/ keep > leo \/ keep < CkHW(c) \/ hw < CkHW(c)
                    \/ (ret[c].has /\ keep < ret[c].local)
                    \/ (keep > 0 /\ ~\E q \in DOMAIN prop[c] : prop[c][q].last = keep)
                    \/ dupPid \/ reuse \/ dupId \/ dupKey \/ idBusy \/ keyBusy
         new   == AddRows(kept, all, keep + 1)
         E(r)  == [a |-> "Replace", c |-> c, keep |-> keep, ps |-> ps, hw |-> hw, res |-> r]
     IN /\ final <= MaxSeq
        /\ hw <= final
        /\ HomeOK(c, all)
        \* the caller could read a frontier
        /\ CkHW(c) <= leo /\ TailOK(Snap(c), leo)
        /\ IF refused
             THEN /\ ev' = E([err |-> "rejected", out |-> "none", last |-> 0])
                  /\ UNCHANGED <<durable, mem, ident, prop, hist, eh>>
             ELSE /\ InstallRows(c, new)
                  /\ ckpt'  = [ckpt EXCEPT ![c] = [has |-> TRUE, hw |-> hw]]
                  /\ ret'   = IF ret[c].has /\ ret[c].rmax > final THEN [ret EXCEPT ![c].rmax = final] ELSE ret
                  /\ ident' = [ident EXCEPT ![c] = IdentAfter(Del(@, {s \in DOMAIN @ : s > keep}), ps, keep, 1)]
                  /\ prop'  = [prop EXCEPT ![c] = PropsAfter(Del(@, {q \in DOMAIN @ : @[q].last > keep}), ps, keep, 1)]
                  /\ mem'   = [mem EXCEPT ![c].leo = final,
                                          ![c].fk = IF mem[c].fl
                                                      THEN @ \cup {KeyOf(all[i]) : i \in {j \in 1..Len(all) : HasKey(all[j])}}
                                                      ELSE @]
                  /\ eh'    = [eh EXCEPT ![c] = SelectSeq(@, LAMBDA p : p.s <= keep)]
                  /\ ev'    = E([err |-> "", out |-> "durable", last |-> final])
                  /\ Commit1(c)
  /\ UNCHANGED <<open, dbOpen, cfg, hbase>>

(* Discard(c): DiscardForRestore.  The rows are deleted with their indexes page by page,
   lowest sequences first, one commit per page; a last commit removes the whole channel
   partition (retention state, checkpoint, identities, proposals, epoch history).  The page boundaries
   are an implementation detail (1024 rows or 8 MiB), so every row count is admitted as
   a boundary.  The states between the pages (marked disc) are states of the code, not of
   the property: rows are missing from the front without a retention boundary and, once
   the last row is gone, the checkpoint sits above an empty log until the final commit
   (reported as a finding; C09_EveryCrashImageSound exempts exactly these states from the
   contiguity and watermark clauses). *)
Discard(c) ==
  /\ Usable(c) /\ Compat
  /\ LET Q    == Asc(RowSeqs(c))
         s0   == Snap(c)
         mids == [i \in 1..Len(Q) |-> [CutRows(s0, {s \in RowSeqs(c) : s <= Q[i]}) EXCEPT !.disc = TRUE]]
     IN /\ InstallRows(c, EmptySnap)
        /\ ret'   = [ret EXCEPT ![c] = NoRet]
        /\ ckpt'  = [ckpt EXCEPT ![c] = NoCkpt]
        /\ ident' = [ident EXCEPT ![c] = Empty]
        /\ prop'  = [prop EXCEPT ![c] = Empty]
        /\ eh'    = [eh EXCEPT ![c] = << >>]
        /\ mem'   = [mem EXCEPT ![c].leo = 0]
        /\ hist'  = [hist EXCEPT ![c] =
                       IF s0 = EmptySnap THEN @ ELSE @ \o mids \o << EmptySnap >>]
        /\ ev' = [a |-> "Discard", c |-> c, res |-> [err |-> ""]]
  /\ UNCHANGED <<open, dbOpen, cfg, hbase>>

-------------------------------------------------------------------------------
(* Epoch history (history.go, compat.go; compatibility surface).  A point [e, s] says that
   epoch e owns the offsets from s on (its first row is s + 1).  The rows are keyed by
   (start offset, epoch); a point is only ever added after the last one
   (shouldAppendHistoryPoint: a higher epoch at the same or a higher offset; repeating the
   last point is a no-op; anything else is refused), so eh[c] is in key order.
     BeginEpoch(c, e, s)        BeginEpoch(point, expectedLEO = s): refused unless s is the log end
     AppendHist(c, e, s)        AppendHistory(point): no log-end check (the caller's obligation,
                                see Next9: offered at or below the log end only)
     ApplyE(c, mode, recs, hw, e, s)
                                StoreApplyFetchWithEpoch / StoreApplyFetchTrustedWithEpoch: rows,
                                raised watermark and the point [e, s] (s = the log end before
                                the rows) in one commit
     TruncLH(c, to)             TruncateLogAndHistory(to): the rows above `to` with their indexes,
                                identities and proposals AND the points that start above `to`,
                                one commit (also when to is the log end)
     HistTrunc(c, t)            TruncateHistoryTo(t): the points that start above t
   A plain Truncate leaves the history alone; the callers only use it where no point starts
   above the target (Next9). *)
ShouldAppend(h, e, s) ==
  IF e = 0 THEN "bad"
  ELSE IF h = << >> THEN "write"
  ELSE LET l == h[Len(h)] IN
       IF e > l.e THEN (IF s < l.s THEN "bad" ELSE "write")
       ELSE IF e = l.e /\ s = l.s THEN "same" ELSE "bad"

HistBelow(h, to) == SelectSeq(h, LAMBDA p : p.s <= to)
NoneAbove(c, to) == \A i \in 1..Len(eh[c]) : eh[c][i].s <= to

HistPoint(a, c, e, s, bad) ==
  /\ Usable(c) /\ Compat
  /\ LET sa == IF bad THEN "bad" ELSE ShouldAppend(eh[c], e, s)
     IN /\ eh' = IF sa = "write" THEN [eh EXCEPT ![c] = Append(@, [e |-> e, s |-> s])] ELSE eh
        /\ ev' = [a |-> a, c |-> c, e |-> e, s |-> s, res |-> [err |-> IF sa = "bad" THEN "rejected" ELSE ""]]
  /\ UNCHANGED <<durable, mem, open, dbOpen, cfg, ident, prop, hbase>>
  /\ Commit1(c)

BeginEpoch(c, e, s) == HistPoint("BeginEpoch", c, e, s, s # Leo(c))
AppendHist(c, e, s) == HistPoint("AppendHist", c, e, s, FALSE)

HistTrunc(c, t) ==
  /\ Usable(c) /\ Compat
  /\ eh' = [eh EXCEPT ![c] = HistBelow(@, t)]
  /\ ev' = [a |-> "HistTrunc", c |-> c, t |-> t, res |-> [err |-> ""]]
  /\ UNCHANGED <<durable, mem, open, dbOpen, cfg, ident, prop, hbase>>
  /\ Commit1(c)

ApplyE(c, mode, recs, hw, e, s) ==
  /\ Usable(c) /\ Compat
  /\ mode \in {"strict", "trusted"}
  /\ EnvOK(c, mode, recs)
  /\ Leo(c) + Len(recs) <= MaxSeq
  /\ LET exp    == Leo(c) + 1
         next   == Leo(c) + Len(recs)
         v      == Validate(c, mode, recs, exp)
         hwBad  == hw > 0 /\ hw > next
         hwSet  == hw > 0 /\ (~ckpt[c].has \/ hw > ckpt[c].hw)
         sa     == ShouldAppend(eh[c], e, s)
         ptBad  == s # Leo(c) \/ sa = "bad"
         walked == recs # <<>> /\ ~hwBad /\ ~ptBad
         err    == IF hwBad \/ ptBad THEN "rejected" ELSE IF recs # <<>> /\ v.err # "" THEN v.err ELSE ""
     IN /\ ev' = [a |-> "ApplyE", c |-> c, mode |-> mode, recs |-> recs, hw |-> hw, e |-> e, s |-> s,
                  res |-> AppRes(err, exp, Len(recs))]
        /\ IF err # ""
             THEN /\ mem' = IF walked THEN [mem EXCEPT ![c].fl = v.fl, ![c].fk = v.fk] ELSE mem
                  /\ UNCHANGED <<durable, eh>>
             ELSE /\ IF recs # <<>>
                       THEN /\ Stage(c, recs, exp)
                            /\ mem' = [mem EXCEPT ![c].fl = v.fl, ![c].fk = v.fk, ![c].leo = next]
                       ELSE UNCHANGED <<rows, idIdx, idem, cli, snd, mem>>
                  /\ ckpt' = IF hwSet THEN [ckpt EXCEPT ![c] = [has |-> TRUE, hw |-> hw]] ELSE ckpt
                  /\ eh'   = IF sa = "write" THEN [eh EXCEPT ![c] = Append(@, [e |-> e, s |-> s])] ELSE eh
                  /\ UNCHANGED ret
  /\ UNCHANGED <<open, dbOpen, cfg, ident, prop, hbase>>
  /\ Commit1(c)

TruncLH(c, to) ==
  /\ Usable(c) /\ Compat
  /\ LET leo      == Leo(c)
         refused  == to > leo \/ (ret[c].has /\ to < ret[c].local)
         S        == {s \in RowSeqs(c) : s > to}
         straddle == \E q \in DOMAIN prop[c] : prop[c][q].base < to /\ to < prop[c][q].last
         E(err)   == [a |-> "TruncLH", c |-> c, to |-> to, res |-> [err |-> err]]
     IN IF refused \/ straddle
          THEN /\ ev' = E("rejected")
               /\ UNCHANGED <<durable, mem, ident, prop, hist, eh>>
          ELSE /\ Unstage(c, S)
               /\ ret'   = IF ret[c].has /\ ret[c].rmax > to THEN [ret EXCEPT ![c].rmax = to] ELSE ret
               /\ mem'   = [mem EXCEPT ![c].leo = to]
               /\ ident' = [ident EXCEPT ![c] = Del(@, {s \in DOMAIN @ : s > to})]
               /\ prop'  = [prop EXCEPT ![c] = Del(@, {q \in DOMAIN @ : @[q].last > to})]
               /\ eh'    = [eh EXCEPT ![c] = HistBelow(@, to)]
               /\ ev'    = E("")
               /\ UNCHANGED ckpt
               /\ Commit1(c)
  /\ UNCHANGED <<open, dbOpen, cfg, hbase>>

-------------------------------------------------------------------------------
\* Replies and crashes.

\* a reply is returned for the commit that produced hist[c][i]
Report(c, i) ==
  /\ i \in 2..Len(hist[c])
  /\ hist'  = [hist EXCEPT ![c] = SubSeq(@, i, Len(@))]
  /\ hbase' = [hbase EXCEPT ![c] = @ + i - 1]
  /\ ev' = [a |-> "Report", c |-> c, i |-> i]
  /\ UNCHANGED <<durable, mem, open, dbOpen, cfg, ident, prop, eh>>

MergeIds(sn) ==  \* sn : channel -> snapshot
  LET D == UNION {DOMAIN sn[c].ids : c \in Chans}
  IN [i \in D |-> LET c == CHOOSE d \in Chans : i \in DOMAIN sn[d].ids IN [c |-> c, s |-> sn[c].ids[i]]]

\* power loss or process kill followed by reopening the database; k[c] = surviving commit of c
Crash(k) ==
  /\ dbOpen
  /\ \A c \in Chans : k[c] \in 1..Len(hist[c])
  /\ LET sn == [c \in Chans |-> hist[c][k[c]]]
     IN /\ rows'  = [c \in Chans |-> sn[c].rows]
        /\ idem'  = [c \in Chans |-> sn[c].idem]
        /\ cli'   = [c \in Chans |-> sn[c].cli]
        /\ snd'   = [c \in Chans |-> sn[c].snd]
        /\ ret'   = [c \in Chans |-> sn[c].ret]
        /\ ckpt'  = [c \in Chans |-> sn[c].ckpt]
        /\ ident' = [c \in Chans |-> sn[c].ident]
        /\ prop'  = [c \in Chans |-> sn[c].prop]
        /\ eh'    = [c \in Chans |-> sn[c].eh]
        /\ idIdx' = MergeIds(sn)
        /\ hist'  = [c \in Chans |-> << sn[c] >>]
        /\ hbase' = [c \in Chans |-> hbase[c] + k[c] - 1]
  /\ mem'  = [c \in Chans |-> NoMem]
  /\ open' = [c \in Chans |-> 0]
  /\ ev' = [a |-> "Crash", k |-> k]
  /\ UNCHANGED <<dbOpen, cfg>>

Lease(c) == open[c] = 0 /\ OpenLease(c) /\ UNCHANGED <<ident, prop, hist, hbase, eh>>

-------------------------------------------------------------------------------
\* The store right after Init with every channel leased (how the harness starts).

CInit ==
  /\ rows  = [c \in Chans |-> Empty]
  /\ ret   = [c \in Chans |-> NoRet]
  /\ ckpt  = [c \in Chans |-> NoCkpt]
  /\ idem  = [c \in Chans |-> Empty]
  /\ cli   = [c \in Chans |-> {}]
  /\ snd   = [c \in Chans |-> {}]
  /\ idIdx = Empty
  /\ mem   = [c \in Chans |-> [st |-> "live", leo |-> 0, fl |-> FALSE, fk |-> {}]]
  /\ open  = [c \in Chans |-> 1]
  /\ dbOpen = TRUE
  /\ ident = [c \in Chans |-> Empty]
  /\ prop  = [c \in Chans |-> Empty]
  /\ hist  = [c \in Chans |-> << EmptySnap >>]
  /\ hbase = [c \in Chans |-> 1]
  /\ eh    = [c \in Chans |-> << >>]

Init9 ==
  /\ CInit
  /\ cfg \in [surface : Surfaces, ids : {ProbeIds}, froms : {ProbeFroms}, nos : {ProbeNos}, pids : {SetToSortSeq(Pids, <)}]
  /\ ev = [a |-> "Init", cfg |-> cfg]

\* small proposal lists for Replace
\* (an operator with a parameter: TLC would otherwise enumerate the set when it loads the module)
PSets(n) == {<<>>} \cup {<< [pid |-> p, recs |-> << r >>] >> : p \in Pids, r \in Recs}
              \cup {<< [pid |-> p, recs |-> << r >>], [pid |-> q, recs |-> << r2 >>] >> : p \in Pids, q \in Pids, r \in Recs, r2 \in Recs}

\* bound of the exhaustive runs; after a crash in the middle of a restore cleanup the cleanup
\* is run again before anything else
Room(c) == Len(hist[c]) < MaxUnrep /\ ~LastOf(hist[c]).disc

MAppend   == \E c \in Chans, m \in Modes, recs \in Batches : Room(c) /\ HomeOK(c, recs) /\ CAppend(c, m, 0, recs)
MApply    == \E c \in Chans, m \in {"strict", "trusted"}, recs \in Batches, hw \in {0} \cup HWs :
                Room(c) /\ HomeOK(c, recs) /\ CApply(c, m, 0, recs, hw)
MTruncate == \E c \in Chans, to \in 0..MaxSeq : Room(c) /\ to >= CkHW(c) /\ (to >= Leo(c) \/ NoneAbove(c, to)) /\ CTruncate(c, to)
MAdopt    == \E c \in Chans, t \in 0..MaxSeq : Room(c) /\ CAdopt(c, t)
MTrim     == \E c \in Chans, t \in 0..MaxSeq, lim \in {0, 1} : Room(c) /\ CTrim(c, t, lim)
MCkpt     == \E c \in Chans, hw \in HWs : Room(c) /\ hw <= Leo(c) /\ CCkpt(c, hw)
MCkptMono == \E c \in Chans, hw \in HWs : Room(c) /\ hw <= Leo(c) /\ CCkptMono(c, hw)
MExAppend == \E c \in Chans, pid \in Pids, b \in 0..MaxSeq, recs \in Batches, mode \in {"strict", "alloc"}, hw \in {0} \cup HWs :
                Room(c) /\ ExAppend(c, pid, b, recs, mode, hw)
MReplace  == \E c \in Chans, keep \in 0..MaxSeq, ps \in PSets(0), hw \in {0} \cup HWs : Room(c) /\ Replace(c, keep, ps, hw)
MDiscard  == \E c \in Chans : Len(hist[c]) < MaxUnrep /\ Discard(c)
MLeo      == \E c \in Chans : LeoRead(c)
MReport   == \E c \in Chans, i \in 2..(MaxUnrep + MaxSeq + 2) : Report(c, i)
MCrash    == \E k \in [Chans -> 1..(MaxUnrep + MaxSeq + 2)] : Crash(k)
MLease    == \E c \in Chans : Lease(c)
MBeginEpoch == \E c \in Chans, e \in Epochs, s \in 0..MaxSeq : Room(c) /\ BeginEpoch(c, e, s)
MAppendHist == \E c \in Chans, e \in Epochs, s \in 0..MaxSeq : Room(c) /\ s <= Leo(c) /\ AppendHist(c, e, s)
MApplyE     == \E c \in Chans, m \in {"strict", "trusted"}, recs \in Batches, hw \in {0} \cup HWs, e \in Epochs :
                  Room(c) /\ HomeOK(c, recs) /\ ApplyE(c, m, recs, hw, e, Leo(c))
MTruncLH    == \E c \in Chans, to \in 0..MaxSeq : Room(c) /\ to >= CkHW(c) /\ TruncLH(c, to)
MHistTrunc  == \E c \in Chans, t \in 0..MaxSeq : Room(c) /\ HistTrunc(c, t)

Next9 ==
  \/ MAppend \/ MApply \/ MTruncate \/ MAdopt \/ MTrim \/ MCkpt \/ MCkptMono
  \/ MExAppend \/ MReplace \/ MDiscard \/ MLeo \/ MReport \/ MCrash \/ MLease
  \/ MBeginEpoch \/ MAppendHist \/ MApplyE \/ MTruncLH \/ MHistTrunc

Spec9 == Init9 /\ [][Next9]_cvars

-------------------------------------------------------------------------------
(* What a reopened store shows for channel c when it comes back in snapshot sn: the full
   MessageLog projection read through a fresh lease (cold log end, filter not loaded),
   the retention state, and, on the compatibility surface, the exact frontier
   (LoadDurableFrontier: fails closed on a missing tail proof or a checkpoint above the
   log end), the entry identities of the probe window, the proposal of every probe
   command and the epoch history (LoadHistory). *)
ColdS(sn, c) ==
  [rows |-> [d \in {c} |-> sn.rows], ckpt |-> [d \in {c} |-> sn.ckpt], idem |-> [d \in {c} |-> sn.idem],
   cli |-> [d \in {c} |-> sn.cli], snd |-> [d \in {c} |-> sn.snd],
   idIdx |-> [i \in DOMAIN sn.ids |-> [c |-> c, s |-> sn.ids[i]]],
   mem |-> [d \in {c} |-> [st |-> "live", leo |-> SnapLogEnd(sn), fl |-> FALSE, fk |-> {}]],
   open |-> [d \in {c} |-> 1], dbOpen |-> TRUE, cfg |-> cfg]

ExProj(sn, c) ==
  LET leo  == SnapLogEnd(sn)
      hw   == IF sn.ckpt.has THEN sn.ckpt.hw ELSE 0
      ok   == cfg.surface = "compat" /\ hw <= leo /\ TailOK(sn, leo)
      S    == ColdS(sn, c)
      W    == Asc(Window(S, c))
      Whole(q) == \A s \in (sn.prop[q].base + 1)..sn.prop[q].last :
                     s \in DOMAIN sn.rows /\ s \in DOMAIN sn.ident /\ sn.ident[s] = q
  IN [ok   |-> ok,
      leo  |-> IF ok THEN leo ELSE 0,
      hw   |-> IF ok THEN hw ELSE 0,
      tail |-> IF ok /\ leo > 0 THEN sn.ident[leo] ELSE 0,
      ents |-> [i \in 1..Len(W) |-> IF ok /\ W[i] \in DOMAIN sn.ident THEN sn.ident[W[i]] ELSE 0],
      cmds |-> [i \in 1..Len(cfg.pids) |->
                  LET q == cfg.pids[i] IN
                  IF cfg.surface # "compat" \/ q \notin DOMAIN sn.prop THEN [p |-> 0, base |-> 0, last |-> 0]
                  ELSE IF Whole(q) THEN [p |-> 1, base |-> sn.prop[q].base, last |-> sn.prop[q].last]
                  ELSE [p |-> -1, base |-> 0, last |-> 0]]]

ColdProj(sn, c) ==
  [m   |-> ProjChan(ColdS(sn, c), c),
   ret |-> [has |-> sn.ret.has, local |-> sn.ret.local, phys |-> sn.ret.phys, rmax |-> sn.ret.rmax],
   ex  |-> ExProj(sn, c),
   eh  |-> sn.eh]

-------------------------------------------------------------------------------
\* Properties.

\* every state a channel can come back in is a sound store: indexes match rows, the
\* retained rows are contiguous, the watermark does not exceed the log end, identities and
\* proposals cover each other, the epoch history is ordered and no epoch starts beyond the log end
SnapIndexSound(sn) ==
  LET leo == SnapLogEnd(sn) IN
     /\ \A s \in DOMAIN sn.rows :
          LET r == sn.rows[s] IN
          /\ r.id \in DOMAIN sn.ids /\ sn.ids[r.id] = s
          /\ (HasKey(r) => KeyOf(r) \in DOMAIN sn.idem /\ sn.idem[KeyOf(r)] = [s |-> s, id |-> r.id, p |-> r.p])
          /\ (r.no # "" /\ r.from = "" => <<r.no, s>> \in sn.cli)
          /\ (r.from # "" => <<r.from, s>> \in sn.snd)
     /\ \A i \in DOMAIN sn.ids : sn.ids[i] \in DOMAIN sn.rows /\ sn.rows[sn.ids[i]].id = i
     /\ \A k \in DOMAIN sn.idem : sn.idem[k].s \in DOMAIN sn.rows /\ KeyOf(sn.rows[sn.idem[k].s]) = k
     /\ \A e \in sn.cli : e[2] \in DOMAIN sn.rows /\ sn.rows[e[2]].no = e[1] /\ sn.rows[e[2]].from = ""
     /\ \A e \in sn.snd : e[2] \in DOMAIN sn.rows /\ sn.rows[e[2]].from = e[1]
     /\ \A q \in DOMAIN sn.prop : \A s \in (sn.prop[q].base + 1)..sn.prop[q].last : s \in DOMAIN sn.ident /\ sn.ident[s] = q
     /\ \A s \in DOMAIN sn.ident : sn.ident[s] \in DOMAIN sn.prop
                                   /\ sn.prop[sn.ident[s]].base < s /\ s <= sn.prop[sn.ident[s]].last
     /\ \A i \in 1..(Len(sn.eh) - 1) : sn.eh[i].e < sn.eh[i + 1].e /\ sn.eh[i].s <= sn.eh[i + 1].s

SnapLogSound(sn) ==
  LET lo    == sn.ret.local
      Upper == {s \in DOMAIN sn.rows : s > lo}
      last  == SetMax(DOMAIN sn.rows)
      leo   == SnapLogEnd(sn)
  IN /\ Upper = {} \/ Upper = (lo + 1)..last
     /\ \A s \in DOMAIN sn.rows : s > sn.ret.phys
     /\ leo >= lo
     /\ (Upper # {} => leo = last)
     /\ (sn.ckpt.has => sn.ckpt.hw <= leo)
     /\ \A s \in DOMAIN sn.ident : s <= leo
     \* no epoch starts beyond the log end (its first row would be s + 1 <= log end + 1)
     /\ \A i \in 1..Len(sn.eh) : sn.eh[i].s <= leo

C09_EveryCrashImageSound ==
  \A c \in Chans : \A i \in 1..Len(hist[c]) :
     SnapIndexSound(hist[c][i]) /\ (~hist[c][i].disc => SnapLogSound(hist[c][i]))

\* the volatile view is the newest durable state
C09_ViewIsNewest == \A c \in Chans : [Snap(c) EXCEPT !.disc = LastOf(hist[c]).disc] = LastOf(hist[c])

\* the committed watermark never exceeds the log end, the log end is Max(last row, RetainedMaxSeq),
\* and a cached log end is the one storage would recover
C09_WatermarkBelowLogEnd == \A c \in Chans : ckpt[c].has /\ ~LastOf(hist[c]).disc => ckpt[c].hw <= LogEnd(c)
C09_LogEnd == \A c \in Chans : mem[c].st # "none" => mem[c].leo = LogEnd(c)

\* after a stop every channel is back in a state of its commit sequence that is not older than
\* the newest one a returned reply vouched for (hist[c][1]), nothing volatile survives, and
\* channels recover independently of each other
C09_RecoversAPrefix ==
  [][ev'.a = "Crash" =>
       /\ \A c \in Chans : \E i \in 1..Len(hist[c]) :
             [SnapP(c) EXCEPT !.disc = hist[c][i].disc] = hist[c][i] /\ hist'[c] = << hist[c][i] >>
       /\ \A c \in Chans : mem'[c] = NoMem]_cvars

\* a reply only ever discards older crash images, never the state it vouches for
C09_ReportKeeps ==
  [][ev'.a = "Report" => \A c \in Chans : LastOf(hist'[c]) = LastOf(hist[c]) /\ durable' = durable]_cvars

View9 == <<rows, ret, ckpt, idem, cli, snd, idIdx, mem, open, dbOpen, cfg, ident, prop, hist, eh>>
===============================================================================

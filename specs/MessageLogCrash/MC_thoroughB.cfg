\* multi-item StoreAppendBatch calls over TWO channels (one id / one row per channel, up to 1 unreported commit per channel):
\* 66,564 distinct / 1,651,566 generated states, depth 21, ~8 min with 4 workers on a loaded machine
SPECIFICATION Spec9B
CONSTANTS
  Chans = {"c1", "c2"}
  Ids = {1, 2}
  Froms = {"u1"}
  Nos = {"n1"}
  Pays = {0}
  Surfaces = {"compat"}
  MaxSeq = 1
  MaxBatch = 1
  MaxOpen = 1
  HWs = {1}
  Pids = {1}
  MaxUnrep = 2
  Epochs = {}
  ProbeIds <- MCProbeIds
  ProbeFroms <- MCProbeFroms
  ProbeNos <- MCProbeNos
  ChanSeq <- MCChanSeq2
  KeepRmaxVariant = FALSE
VIEW View9
INVARIANTS TypeOK C07_IndexSound C08_KeyUnique C08_IdOnce C08_FilterCovers C09_EveryCrashImageSound C09_ViewIsNewest C09_WatermarkBelowLogEnd C09_LogEnd
PROPERTIES C09_RecoversAPrefix C09_ReportKeeps C09_BatchIsOneCommit
CHECK_DEADLOCK FALSE

-------------------------- MODULE MessageLogCrashB --------------------------
(* MessageLogCrash plus the multi-item call of the compatibility surface (property C09):

     Batch(items)   ONE message.StoreAppendBatch call that carries several exact items
                    items[i] = [c, pid, b, recs, mode, hw], for one or more channels
                    (compat.go storeAppendBatchOwner; specs/MessageLog/MessageLogX.tla ExBatch is
                    the same call in the model of C07 / C08).

   The items of a channel are prepared in the order of the call against the state INCLUDING
   the earlier items of the same call (P = the log end before the call, V = the virtual log
   end raised by every item that stages rows):
       b > V                  a gap: refused
       P <= b < V  (V > P)    only the replay of a proposal staged by this very call: reported
                              "already" durable, but ONLY TOGETHER WITH THE GROUP'S COMMIT
       b = V > P              pipelined behind a staged item
       b <= P                 as the single-item call ExAppend
   and everything they stage, for every channel of the call, is ONE commit request = one
   physical batch of the commit coordinator.  Crash atomicity therefore is:
       - every channel of the call gains exactly one element of its commit sequence hist[c]
         (all of its items or none);
       - no item may be reported durable / already durable unless the group's commit is
         durable: the reply of an item that writes nothing itself (a replay inside the call)
         depends on the commit exactly like the reply of the item it replays.

   A call whose context is cancelled before the group is handed to the commit coordinator
   (BatchCancelled) changes nothing durable; its replies are not a function of the state
   (the cancellation may be noticed before, between or after the items are prepared), the
   property only constrains them: no item is reported durable, and an item is reported
   already durable only if its proposal is stored with that very content.

   Environment contract in addition to ExAppend's (as in MessageLogX.ExBatch): ids of
   different channels differ; an item that was validated but not staged leaves its ids and
   keys in the call's duplicate tracker, later items of that channel in the call do not reuse
   them; a pipelined item is chained on one predecessor. *)
EXTENDS MessageLogCrash

BItem(c, pid, b, recs, mode, hw) == [c |-> c, pid |-> pid, b |-> b, recs |-> recs, mode |-> mode, hw |-> hw]
IdsOf(recs)  == {recs[i].id : i \in 1..Len(recs)}
KeysOf(recs) == {KeyOf(recs[i]) : i \in {j \in 1..Len(recs) : HasKey(recs[j])}}
ChansOf(items) == {items[i].c : i \in 1..Len(items)}

\* the proposal of item it is stored with that very range and content
StoredSame(it) ==
  LET c == it.c IN
  /\ it.pid \in DOMAIN prop[c]
  /\ prop[c][it.pid] = [base |-> it.b, last |-> it.b + Len(it.recs)]
  /\ \A i \in 1..Len(it.recs) : it.b + i \in RowSeqs(c) /\ rows[c][it.b + i] = it.recs[i]

\* per channel: what the call has staged so far; r / w / dep = reply of the item just prepared,
\* whether its rows were validated without being staged, whether the reply waits for the commit
BAcc0(c) == [V |-> Leo(c), sp |-> Empty, sid |-> << >>, recs |-> << >>, ck |-> 0,
             sI |-> {}, sK |-> {}, fl |-> mem[c].fl, fk |-> mem[c].fk,
             r |-> XRes("", "none", 0, 0), w |-> FALSE, dep |-> FALSE]

BStep(c, a0, it) ==
  LET a     == [a0 EXCEPT !.w = FALSE, !.dep = FALSE]
      P     == Leo(c)
      b     == it.b
      recs  == it.recs
      last  == b + Len(recs)
      me    == [base |-> b, last |-> last, recs |-> recs]
      raise == IF it.hw > CkHW(c) THEN it.hw ELSE 0
      v     == Walk(c, it.mode, recs, 1, b + 1, a.sI, a.sK, a.fl, a.fk)
      Ref   == [a EXCEPT !.r = XRes("rejected", "none", 0, 0)]
      RefW  == [a EXCEPT !.r = XRes("rejected", "none", 0, 0), !.fl = v.fl, !.fk = v.fk, !.w = TRUE]
      Already(dep) == [a EXCEPT !.r = XRes("", "already", b + 1, last), !.ck = MaxOf(@, raise),
                                !.dep = dep \/ raise > 0]
      Staged == [a EXCEPT !.r = XRes("", "durable", b + 1, last), !.ck = MaxOf(@, raise), !.V = last,
                          !.sp = Put(@, it.pid, me), !.sid = @ \o [i \in 1..Len(recs) |-> it.pid],
                          !.recs = @ \o recs, !.sI = @ \cup IdsOf(recs), !.sK = @ \cup KeysOf(recs),
                          !.fl = v.fl, !.fk = v.fk, !.dep = TRUE]
      present   == it.pid \in DOMAIN prop[c]
      predOK    == b = 0 \/ \E q \in DOMAIN prop[c] : prop[c][q].last = b
      lastTaken == \E q \in DOMAIN prop[c] \ {it.pid} : prop[c][q].last = last
      entTaken  == \E s \in (b + 1)..last : s \in DOMAIN ident[c]
      fresh     == it.mode = "alloc" /\ b = P
  IN IF b > a.V THEN Ref
     ELSE IF a.V > P /\ b >= P /\ b < a.V
       THEN IF it.pid \in DOMAIN a.sp /\ a.sp[it.pid] = me /\ ~(it.hw > 0 /\ CkHW(c) > a.V)
              THEN Already(TRUE) ELSE Ref
     ELSE IF b > P
       THEN IF it.pid \in DOMAIN a.sp \/ present \/ lastTaken \/ entTaken THEN Ref
            ELSE IF v.err # "" THEN RefW
            ELSE IF it.hw > 0 /\ CkHW(c) > last THEN RefW
            ELSE Staged
     ELSE IF ~predOK THEN Ref
     ELSE IF ~fresh /\ ~present /\ (lastTaken \/ entTaken) THEN Ref
     ELSE IF it.hw > 0 /\ CkHW(c) > MaxOf(P, last) THEN Ref
     ELSE IF present THEN (IF P < last THEN Ref ELSE Already(FALSE))
     ELSE IF b # P THEN Ref
     ELSE IF v.err # "" THEN RefW
     ELSE Staged

RECURSIVE BFold(_, _, _)
BFold(items, i, st) ==
  IF i > Len(items) THEN st
  ELSE LET c == items[i].c
           a == BStep(c, st.A[c], items[i])
       IN BFold(items, i + 1, [A |-> [st.A EXCEPT ![c] = a], res |-> Append(st.res, a.r),
                               wk |-> Append(st.wk, a.w), dep |-> Append(st.dep, a.dep)])
BRun(items) == BFold(items, 1, [A |-> [c \in Chans |-> BAcc0(c)], res |-> << >>, wk |-> << >>, dep |-> << >>])

\* what every item of a call obeys, whether the call is cancelled or not
ItemEnv(items) ==
  /\ Compat /\ Len(items) >= 1
  /\ \A i \in 1..Len(items) :
       LET it == items[i] IN
       /\ Usable(it.c)
       /\ it.mode \in {"strict", "alloc"}
       /\ it.recs # << >>
       /\ it.b + Len(it.recs) <= MaxSeq
       /\ it.hw <= it.b + Len(it.recs)
       /\ (it.mode = "alloc" /\ it.b = Leo(it.c) => it.pid \notin DOMAIN prop[it.c])
       \* a stored command is only replayed with its own range and content
       /\ (it.pid \in DOMAIN prop[it.c] => StoredSame(it))
       /\ (it.pid \notin DOMAIN prop[it.c] => EnvOK(it.c, it.mode, it.recs) /\ HomeOK(it.c, it.recs))

BatchEnv(items, run) ==
  /\ ItemEnv(items)
  /\ \A i, j \in 1..Len(items) : i < j =>
       /\ (items[i].c = items[j].c /\ run.wk[i] =>
             /\ IdsOf(items[i].recs) \cap IdsOf(items[j].recs) = {}
             /\ KeysOf(items[i].recs) \cap KeysOf(items[j].recs) = {})
       /\ \A k \in 1..Len(items) : k < j /\ items[i].c = items[j].c /\ items[k].c = items[j].c /\ items[j].b > Leo(items[j].c)
                                     /\ items[i].b + Len(items[i].recs) = items[j].b /\ items[k].b + Len(items[k].recs) = items[j].b
                                     => items[i].pid = items[k].pid /\ items[i].b = items[k].b /\ items[i].recs = items[k].recs

RECURSIVE IdIdxAll(_, _, _)
IdIdxAll(f, S, F) ==
  IF S = {} THEN f
  ELSE LET c == CHOOSE x \in S : TRUE
       IN IdIdxAll(IdIdxAfter(f, c, F[c].recs, Leo(c) + 1, 1), S \ {c}, F)

\* the group's commit: ONE new element of the commit sequence of every channel of the call
BatchCommit(F, T) ==
  /\ rows'  = [c \in Chans |-> IF c \in T THEN RowsAfter(c, F[c].recs, Leo(c) + 1) ELSE rows[c]]
  /\ idIdx' = IdIdxAll(idIdx, T, F)
  /\ idem'  = [c \in Chans |-> IF c \in T THEN IdemAfter(idem[c], F[c].recs, Leo(c) + 1, 1) ELSE idem[c]]
  /\ cli'   = [c \in Chans |-> IF c \in T THEN CliAfter(c, F[c].recs, Leo(c) + 1) ELSE cli[c]]
  /\ snd'   = [c \in Chans |-> IF c \in T THEN SndAfter(c, F[c].recs, Leo(c) + 1) ELSE snd[c]]
  /\ ckpt'  = [c \in Chans |-> IF c \in T /\ F[c].ck > CkHW(c) THEN [has |-> TRUE, hw |-> F[c].ck] ELSE ckpt[c]]
  /\ ident' = [c \in Chans |->
                 IF c \notin T THEN ident[c]
                 ELSE [s \in DOMAIN ident[c] \cup ((Leo(c) + 1)..(Leo(c) + Len(F[c].recs))) |->
                         IF s > Leo(c) THEN F[c].sid[s - Leo(c)] ELSE ident[c][s]]]
  /\ prop'  = [c \in Chans |->
                 IF c \notin T THEN prop[c]
                 ELSE [q \in DOMAIN prop[c] \cup DOMAIN F[c].sp |->
                         IF q \in DOMAIN F[c].sp THEN [base |-> F[c].sp[q].base, last |-> F[c].sp[q].last] ELSE prop[c][q]]]
  /\ mem'   = [c \in Chans |-> IF c \in T THEN [mem[c] EXCEPT !.fl = F[c].fl, !.fk = F[c].fk, !.leo = F[c].V] ELSE mem[c]]
  /\ hist'  = [c \in Chans |->
                 IF c \notin T THEN hist[c]
                 ELSE LET sp == [SnapP(c) EXCEPT !.disc = LastOf(hist[c]).disc]
                      IN IF sp = LastOf(hist[c]) THEN hist[c] ELSE Append(hist[c], sp)]

BRes(reps, cancelled) == [err |-> "", items |-> reps, cancelled |-> cancelled]

\* sweep: the harness first makes the call with its context cancelled at every poll that comes
\* before the commit coordinator (attempts without effect, see BatchCancelled), then this call
Batch(items, sweep) ==
  LET run == BRun(items) IN
  /\ BatchEnv(items, run)
  /\ UNCHANGED <<ret, open, dbOpen, cfg, hbase, eh>>
  /\ BatchCommit(run.A, ChansOf(items))
  /\ ev' = [a |-> "Batch", items |-> items, sweep |-> sweep, res |-> BRes(run.res, FALSE)]

\* a call that noticed the cancellation of its context before the group reached the commit
\* coordinator; reps = the replies it returned
CancelledOK(items, reps) ==
  /\ Len(reps) = Len(items)
  /\ \A i \in 1..Len(items) :
       /\ reps[i].out # "durable"
       /\ (reps[i].out = "already" => StoredSame(items[i]))

BatchCancelled(items, reps) ==
  /\ ItemEnv(items)
  /\ CancelledOK(items, reps)
  /\ ev' = [a |-> "Batch", items |-> items, sweep |-> FALSE, res |-> BRes(reps, TRUE)]
  /\ UNCHANGED <<durable, mem, open, dbOpen, cfg, ident, prop, hist, hbase, eh>>

-------------------------------------------------------------------------------
\* exhaustive runs: pairs of items of one record (one or two channels) and the triples a
\* pipelining leader produces (a proposal, a second one at the log end or chained, and the
\* replay of one of them / a third one chained)
I1(c, p, b, r, m, hw) == BItem(c, p, b, << r >>, m, hw)
RoomB(items) == \A c \in ChansOf(items) : Room(c)

MBatch2 ==
  \E c1 \in Chans, c2 \in Chans, m \in {"strict", "alloc"}, p1 \in Pids, p2 \in Pids,
     r1 \in Recs, r2 \in Recs, b1 \in 0..MaxSeq, b2 \in 0..MaxSeq, hw2 \in {0} \cup HWs :
       LET items == << I1(c1, p1, b1, r1, m, 0), I1(c2, p2, b2, r2, m, hw2) >>
       IN RoomB(items) /\ Batch(items, FALSE)

MBatch3 ==
  \E c \in Chans, m \in {"strict", "alloc"}, p1 \in Pids, p2 \in Pids, r1 \in Recs, r2 \in Recs, d2 \in {0, 1} :
     LET i1 == I1(c, p1, Leo(c), r1, m, 0)
         i2 == I1(c, p2, Leo(c) + d2, r2, m, 0)
     IN Room(c) /\ (\/ Batch(<< i1, i2, i1 >>, FALSE)
                    \/ Batch(<< i1, i2, i2 >>, FALSE)
                    \/ \E p3 \in Pids, r3 \in Recs, d3 \in {1, 2} : Batch(<< i1, i2, I1(c, p3, Leo(c) + d3, r3, m, 0) >>, FALSE))

\* cancelled calls: every reply vector over {refused, cancelled, already} the property admits
CRes == {XRes("rejected", "none", 0, 0), XRes("cancelled", "none", 0, 0)}
MBatchCancelled ==
  \E c \in Chans, m \in {"strict", "alloc"}, p1 \in Pids, r1 \in Recs, b1 \in 0..MaxSeq, alr \in BOOLEAN, x \in CRes :
     LET i1 == I1(c, p1, b1, r1, m, 0)
     IN BatchCancelled(<< i1, i1 >>, << IF alr THEN XRes("", "already", b1 + 1, b1 + 1) ELSE x, x >>)

Next9B ==
  \/ MAppend \/ MApply \/ MTruncate \/ MAdopt \/ MTrim \/ MCkpt \/ MCkptMono
  \/ MExAppend \/ MReplace \/ MDiscard \/ MLeo \/ MReport \/ MCrash \/ MLease
  \/ MBeginEpoch \/ MAppendHist \/ MApplyE \/ MTruncLH \/ MHistTrunc
  \/ MBatch2 \/ MBatch3 \/ MBatchCancelled

Spec9B == Init9 /\ [][Next9B]_cvars

-------------------------------------------------------------------------------
\* Properties of the call.

\* C09: one call = one commit: every channel gains at most one element of its commit
\* sequence, and that element holds ALL the items of the channel the call reports durable or
\* already durable (rows, identities, proposals); channels outside the call are untouched.
Holds(sn, it) ==
  /\ it.pid \in DOMAIN sn.prop /\ sn.prop[it.pid] = [base |-> it.b, last |-> it.b + Len(it.recs)]
  /\ \A n \in 1..Len(it.recs) :
        /\ it.b + n \in DOMAIN sn.ident /\ sn.ident[it.b + n] = it.pid
        /\ (it.b + n \in DOMAIN sn.rows => sn.rows[it.b + n] = it.recs[n])

C09_BatchIsOneCommit ==
  [][ev'.a = "Batch" =>
       LET items == ev'.items
           reps  == ev'.res.items
       IN /\ \A c \in Chans :
               /\ Len(hist'[c]) \in {Len(hist[c]), Len(hist[c]) + 1}
               /\ SubSeq(hist'[c], 1, Len(hist[c])) = hist[c]
               /\ (c \notin ChansOf(items) => hist'[c] = hist[c])
          /\ \A i \in 1..Len(items) :
               reps[i].out \in {"durable", "already"} => Holds(LastOf(hist'[items[i].c]), items[i])
          /\ (ev'.res.cancelled => \A c \in Chans : hist'[c] = hist[c])]_cvars
===============================================================================

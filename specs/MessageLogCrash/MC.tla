---------------------------------- MODULE MC ----------------------------------
(* Exhaustive model checking of MessageLogCrash: the probe lists and the channel order
   (sequences cannot be written in a TLC configuration file) and nothing else. *)
EXTENDS MessageLogCrash
MCProbeIds   == << 1, 2 >>
MCProbeFroms == << "u1" >>
MCProbeNos   == << "n1" >>
MCChanSeq1   == << "c1" >>
MCChanSeq2   == << "c1", "c2" >>
===============================================================================

-------------------------------- MODULE Trace --------------------------------
(* Validation of recorded crash histories (code -> spec).

   The harness runs a mutation history on the real store, on one or several goroutines,
   over a crash-simulating file system.  It logs, in one global order,
      Issue(op, call)      a call is about to be made
      Reply(op, res)       the call has returned res
      Recovered(st)        a power-loss / kill image of the file system was taken at this
                           instant (between two file-system mutations of the engine); the
                           store was reopened on the image and st is what it shows
   Several Recovered lines may follow each other (different amounts of unsynced data kept).

   A history is accepted iff there is a linearization of the calls (each takes effect at
   one instant between its Issue and its Reply, with exactly the logged reply) such that at
   every Recovered line every channel shows one of the states of its commit sequence that is
   not older than the newest state a reply logged before that line vouches for.  Calls are
   linearized lazily (only just before a Reply or a Recovered line), which loses no
   behaviour.  A reply vouches for the state its call produced when the call changed the
   durable state or when it is AlreadyDurable.

   The cached log end is read without a lock (LEO()) and the code publishes it only after
   the commit has returned, so a call is two instants here: Exec (the call runs under the
   channel's lock: reply and durable effect are determined, the commit sequence grows) and
   Publish (the cached log end other goroutines read is updated; in the order of the Execs,
   before the Reply).  A LEO() read returns the published value and, because the code
   documents that value as durable, vouches for the state whose publication it saw.
   Acceptance is by the high-water mark of consumed lines. *)
EXTENDS MessageLogCrashB, Json
VARIABLES l, pend, done, unpub, vis, visAt

Log == ndJsonDeserialize("trace.ndjson")
tvars == <<cvars, l, pend, done, unpub, vis, visAt>>

TraceProbeIds   == << 1 >>
TraceProbeFroms == << "u1" >>
TraceProbeNos   == << "n1" >>
TraceChanSeq    == << "c1", "c2" >>

NoQueue == [c \in Chans |-> << >>]
Zero    == [c \in Chans |-> 0]
One     == [c \in Chans |-> 1]
TraceInit == Init9 /\ l = 1 /\ pend = Empty /\ done = Empty /\ unpub = NoQueue /\ vis = Zero /\ visAt = One

Reset0 ==
  /\ rows'  = [c \in Chans |-> Empty]
  /\ ret'   = [c \in Chans |-> NoRet]
  /\ ckpt'  = [c \in Chans |-> NoCkpt]
  /\ idem'  = [c \in Chans |-> Empty]
  /\ cli'   = [c \in Chans |-> {}]
  /\ snd'   = [c \in Chans |-> {}]
  /\ idIdx' = Empty
  /\ mem'   = [c \in Chans |-> [st |-> "live", leo |-> 0, fl |-> FALSE, fk |-> {}]]
  /\ open'  = [c \in Chans |-> 1]
  /\ dbOpen' = TRUE
  /\ ident' = [c \in Chans |-> Empty]
  /\ prop'  = [c \in Chans |-> Empty]
  /\ hist'  = [c \in Chans |-> << EmptySnap >>]
  /\ hbase' = [c \in Chans |-> 1]
  /\ eh'    = [c \in Chans |-> << >>]
  /\ cfg' = Log[l].ev.cfg
  /\ ev' = Log[l].ev
  /\ pend' = Empty /\ done' = Empty /\ unpub' = NoQueue /\ vis' = Zero /\ visAt' = One

Call(k) ==
  CASE k.a = "Append"   -> CAppend(k.c, k.mode, k.base, k.recs)
    [] k.a = "Apply"    -> CApply(k.c, k.mode, k.base, k.recs, k.hw)
    [] k.a = "Truncate" -> CTruncate(k.c, k.to)
    [] k.a = "Adopt"    -> CAdopt(k.c, k.through)
    [] k.a = "Trim"     -> CTrim(k.c, k.through, k.lim)
    [] k.a = "Ckpt"     -> CCkpt(k.c, k.hw)
    [] k.a = "CkptMono" -> CCkptMono(k.c, k.hw)
    [] k.a = "ExAppend" -> ExAppend(k.c, k.pid, k.b, k.recs, k.mode, k.hw)
    [] k.a = "Replace"  -> Replace(k.c, k.keep, k.ps, k.hw)
    [] k.a = "Discard"  -> Discard(k.c)
    [] k.a = "Leo"      -> LeoRead(k.c)
    [] k.a = "BeginEpoch" -> BeginEpoch(k.c, k.e, k.s)
    [] k.a = "AppendHist" -> AppendHist(k.c, k.e, k.s)
    [] k.a = "ApplyE"     -> ApplyE(k.c, k.mode, k.recs, k.hw, k.e, k.s)
    [] k.a = "TruncLH"    -> TruncLH(k.c, k.to)
    [] k.a = "HistTrunc"  -> HistTrunc(k.c, k.t)

Lazy == l <= Len(Log) /\ Log[l].ev.a \in {"Reply", "Recovered"}

\* the call runs (under its lock)
Exec(op) ==
  /\ Lazy
  /\ op \in DOMAIN pend /\ pend[op].a \notin {"Leo", "Batch"}
  /\ LET k == pend[op]
         c == k.c IN
       /\ Call(k)
       /\ LET at  == hbase'[c] + Len(hist'[c]) - 1
              chg == SnapP(c) # Snap(c)
          IN /\ done' = Put(done, op, [res |-> ev'.res, c |-> c, at |-> at,
                                       claim |-> chg \/ (k.a = "ExAppend" /\ ev'.res.out = "already")])
             /\ unpub' = IF k.a \in {"Ckpt", "CkptMono"} THEN unpub
                         ELSE [unpub EXCEPT ![c] = Append(@, [op |-> op, leo |-> mem'[c].leo, at |-> at, chg |-> chg])]
  /\ pend' = Del(pend, {op})
  /\ UNCHANGED <<l, vis, visAt>>

\* the cached log end of channel c becomes the one left by the oldest unpublished call
Publish(c) ==
  /\ Lazy
  /\ unpub[c] # << >>
  /\ LET h == Head(unpub[c]) IN
       /\ vis'   = [vis EXCEPT ![c] = h.leo]
       /\ visAt' = IF h.chg THEN [visAt EXCEPT ![c] = h.at] ELSE visAt
  /\ unpub' = [unpub EXCEPT ![c] = Tail(@)]
  /\ UNCHANGED <<cvars, l, pend, done>>

\* a lock-free read of the cached log end
ExecLeo(op) ==
  /\ Lazy
  /\ op \in DOMAIN pend /\ pend[op].a = "Leo"
  /\ LET c == pend[op].c IN
       done' = Put(done, op, [res |-> [leo |-> vis[c]], c |-> c, at |-> visAt[c], claim |-> TRUE])
  /\ pend' = Del(pend, {op})
  /\ UNCHANGED <<cvars, l, unpub, vis, visAt>>

KeepStore == UNCHANGED <<rows, ret, ckpt, idem, cli, snd, idIdx, mem, open, dbOpen, cfg, ev, ident, prop, eh>>

Explains(st) ==
  \A c \in Chans : \E i \in 1..Len(hist[c]) : ColdProj(hist[c][i], c) = st[c]

(* A multi-item StoreAppendBatch call (MessageLogCrashB): ONE Exec for all of its channels, one
   element of the commit sequence of each, one pending publication of the cached log end per
   channel.  An attempt whose context was cancelled before the group reached the commit
   coordinator (the harness attaches the reply it returned to the call: k.rep) has no effect and
   must satisfy BatchCancelled: nothing reported durable, "already" only for a proposal that is
   stored.  A reply vouches, per channel, for the state the call left when it changed the
   channel or reported one of its items already durable. *)
ExecB(op) ==
  /\ Lazy
  /\ op \in DOMAIN pend /\ pend[op].a = "Batch"
  /\ LET k == pend[op]
         T == ChansOf(k.items) IN
       /\ IF "rep" \in DOMAIN k /\ k.rep.cancelled THEN BatchCancelled(k.items, k.rep.items) ELSE Batch(k.items, FALSE)
       /\ LET ats == [c \in T |-> hbase'[c] + Len(hist'[c]) - 1]
              chg == [c \in T |-> SnapP(c) # Snap(c)]
              alr == [c \in T |-> \E i \in 1..Len(k.items) : k.items[i].c = c /\ ev'.res.items[i].out = "already"]
          IN /\ done' = Put(done, op, [res |-> ev'.res, T |-> T, ats |-> ats, claims |-> [c \in T |-> chg[c] \/ alr[c]]])
             /\ unpub' = [c \in Chans |-> IF c \in T THEN Append(unpub[c], [op |-> op, leo |-> mem'[c].leo, at |-> ats[c], chg |-> chg[c]])
                                          ELSE unpub[c]]
  /\ pend' = Del(pend, {op})
  /\ UNCHANGED <<l, vis, visAt>>

ReplyB(e) ==
  LET d == done[e.op]
      Cut(c) == c \in d.T /\ d.claims[c] /\ d.ats[c] > hbase[c]
  IN /\ \A c \in d.T : \A i \in 1..Len(unpub[c]) : unpub[c][i].op # e.op
     /\ d.res = e.res
     /\ done'  = Del(done, {e.op})
     /\ hist'  = [c \in Chans |-> IF Cut(c) THEN SubSeq(hist[c], d.ats[c] - hbase[c] + 1, Len(hist[c])) ELSE hist[c]]
     /\ hbase' = [c \in Chans |-> IF Cut(c) THEN d.ats[c] ELSE hbase[c]]
     /\ UNCHANGED <<rows, ret, ckpt, idem, cli, snd, idIdx, mem, open, dbOpen, cfg, ev, ident, prop, eh>>
     /\ UNCHANGED <<pend, unpub, vis, visAt>>

Read ==
  /\ l <= Len(Log)
  /\ l' = l + 1
  /\ LET e == Log[l].ev IN
       CASE e.a = "Init"  -> Reset0
         [] e.a = "Issue" -> /\ pend' = Put(pend, e.op, e.call)
                             /\ KeepStore /\ UNCHANGED <<hist, hbase, done, unpub, vis, visAt>>
         [] e.a = "Reply" /\ e.op \in DOMAIN done /\ "T" \in DOMAIN done[e.op] -> ReplyB(e)
         [] e.a = "Reply" ->
              /\ e.op \in DOMAIN done
              /\ \A i \in 1..Len(unpub[done[e.op].c]) : unpub[done[e.op].c][i].op # e.op
              /\ done[e.op].res = e.res
              /\ done' = Del(done, {e.op})
              /\ LET c == done[e.op].c
                     at == done[e.op].at
                 IN IF done[e.op].claim /\ at > hbase[c]
                      THEN /\ hist'  = [hist EXCEPT ![c] = SubSeq(@, at - hbase[c] + 1, Len(@))]
                           /\ hbase' = [hbase EXCEPT ![c] = at]
                      ELSE UNCHANGED <<hist, hbase>>
              /\ KeepStore /\ UNCHANGED <<pend, unpub, vis, visAt>>
         [] e.a = "Recovered" ->
              /\ Explains(Log[l].st)
              /\ KeepStore /\ UNCHANGED <<hist, hbase, pend, done, unpub, vis, visAt>>

TraceNext == Read \/ (\E op \in DOMAIN pend : Exec(op) \/ ExecLeo(op) \/ ExecB(op)) \/ (\E c \in Chans : Publish(c))

TraceSpec == TraceInit /\ [][TraceNext]_tvars

\* Acceptance: every line was consumed on some branch.
HW       == TLCSet(1, IF l > TLCGet(1) THEN l ELSE TLCGet(1))
Track    == HW
Accepted == IF TLCGet(1) = Len(Log) + 1 THEN TRUE
            ELSE PrintT(<<"unexplained line", TLCGet(1), Log[TLCGet(1)].ev>>) /\ FALSE
ASSUME TLCSet(1, 0)
===============================================================================

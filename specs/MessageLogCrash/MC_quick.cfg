\* one channel, both surfaces, up to 2 unreported commits (chains of 3 crash images):
\* 14,722 distinct / 238,767 generated states, depth 12, ~90 s with 6 workers on a loaded machine
SPECIFICATION Spec9
CONSTANTS
  Chans = {"c1"}
  Ids = {1, 2}
  Froms = {"u1"}
  Nos = {"n1"}
  Pays = {0}
  Surfaces = {"typed", "compat"}
  MaxSeq = 2
  MaxBatch = 1
  MaxOpen = 1
  HWs = {1}
  Pids = {1, 2}
  MaxUnrep = 3
  Epochs = {}
  ProbeIds <- MCProbeIds
  ProbeFroms <- MCProbeFroms
  ProbeNos <- MCProbeNos
  ChanSeq <- MCChanSeq1
  KeepRmaxVariant = FALSE
VIEW View9
INVARIANTS TypeOK C07_IndexSound C08_KeyUnique C08_IdOnce C08_FilterCovers C09_EveryCrashImageSound C09_ViewIsNewest C09_WatermarkBelowLogEnd C09_LogEnd
PROPERTIES C09_RecoversAPrefix C09_ReportKeeps
CHECK_DEADLOCK FALSE

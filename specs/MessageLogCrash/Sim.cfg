INIT SimInit
NEXT SimNext
CONSTANTS
  Chans = {"c1", "c2"}
  Ids = {1, 2, 3, 4, 5, 6, 7, 8, 9, 10}
  Froms = {"", "u1", "u2"}
  Nos = {"", "n1", "n2"}
  Pays = {0, 1, 3, 4, 5, 9}
  Surfaces = {"typed", "compat"}
  MaxSeq = 14
  MaxBatch = 2
  MaxOpen = 1
  HWs = {1}
  Pids = {1, 2, 3, 4, 5, 6}
  MaxUnrep = 1000
  Epochs = {1, 2, 3, 4, 5, 6}
  ProbeIds <- SimProbeIds
  ProbeFroms <- SimProbeFroms
  ProbeNos <- SimProbeNos
  ChanSeq <- SimChanSeq
  KeepRmaxVariant = FALSE
  Depth = 10
INVARIANT Emit
CHECK_DEADLOCK FALSE

\* one channel, both surfaces, up to 3 unreported commits (chains of 4 crash images):
\* 88,204 distinct / 1,686,891 generated states, depth 14, ~5 min with 6 workers on a loaded machine
SPECIFICATION Spec9
CONSTANTS
  Chans = {"c1"}
  Ids = {1, 2}
  Froms = {"u1"}
  Nos = {"n1"}
  Pays = {0}
  Surfaces = {"typed", "compat"}
  MaxSeq = 2
  MaxBatch = 1
  MaxOpen = 1
  HWs = {1}
  Pids = {1, 2}
  MaxUnrep = 4
  ProbeIds <- MCProbeIds
  ProbeFroms <- MCProbeFroms
  ProbeNos <- MCProbeNos
  ChanSeq <- MCChanSeq1
  KeepRmaxVariant = FALSE
VIEW View9
INVARIANTS TypeOK C07_IndexSound C08_KeyUnique C08_IdOnce C08_FilterCovers C09_EveryCrashImageSound C09_ViewIsNewest C09_WatermarkBelowLogEnd C09_LogEnd
PROPERTIES C09_RecoversAPrefix C09_ReportKeeps
CHECK_DEADLOCK FALSE

\* epoch history: one channel, compat surface, two epochs, no exact proposals, up to 1 unreported commit:
\* 13,379 distinct / 133,965 generated states, ~60 s with 4 workers on a loaded machine
SPECIFICATION Spec9
CONSTANTS
  Chans = {"c1"}
  Ids = {1, 2}
  Froms = {"u1"}
  Nos = {"n1"}
  Pays = {0}
  Surfaces = {"compat"}
  MaxSeq = 2
  MaxBatch = 1
  MaxOpen = 1
  HWs = {1}
  Pids = {}
  MaxUnrep = 2
  Epochs = {1, 2}
  ProbeIds <- MCProbeIds
  ProbeFroms <- MCProbeFroms
  ProbeNos <- MCProbeNos
  ChanSeq <- MCChanSeq1
  KeepRmaxVariant = FALSE
VIEW View9
INVARIANTS TypeOK C07_IndexSound C08_KeyUnique C08_IdOnce C08_FilterCovers C09_EveryCrashImageSound C09_ViewIsNewest C09_WatermarkBelowLogEnd C09_LogEnd
PROPERTIES C09_RecoversAPrefix C09_ReportKeeps
CHECK_DEADLOCK FALSE

\* table mutators + <= 2 concurrent migrations over 3 and 4 hash slots, plans on the 3-hash-slot tables: 382,212 distinct / 45.6M generated (~1.5 min on an idle machine)
SPECIFICATION Spec
CONSTANTS
  Hs = {3, 4}
  Ps = {1, 2}
  Ss = {3}
  Phases = {0, 1, 2}
  MaxMig = 2
  PlanH = 3
VIEW View
INVARIANTS TypeOK PlanExists
PROPERTIES C20_VersionStrict C20_DvExact C20_CodecIdentity C20_PlanMovesOnce C20_PlanBounds C20_PlanSubject C20_PlanLiteral C20_ApplyMovesExactly C20_ApplySubject C20_ApplyLiteral C20_ApplySlotSet
CHECK_DEADLOCK FALSE

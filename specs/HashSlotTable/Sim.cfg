INIT SimInit
NEXT SimNext
CONSTANTS
  Hs = {1, 2, 3, 4, 5, 8, 12, 16}
  Ps = {1, 2, 3}
  Ss = {2, 3, 4}
  Phases = {0, 1, 2, 3}
  MaxMig = 100
  PlanH = 4
  Depth = 25
INVARIANT Emit
CHECK_DEADLOCK FALSE

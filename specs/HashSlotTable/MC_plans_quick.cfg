\* plans as a relation, no migrations: 108 distinct tables, every valid plan of every request carried out; seconds
SPECIFICATION Spec
CONSTANTS
  Hs = {3, 4}
  Ps = {2}
  Ss = {3}
  Phases = {0}
  MaxMig = 0
  PlanH = 5
VIEW View
INVARIANTS TypeOK PlanExists
PROPERTIES C20_VersionStrict C20_DvExact C20_CodecIdentity C20_PlanMovesOnce C20_PlanBounds C20_PlanSubject C20_PlanLiteral C20_ApplyMovesExactly C20_ApplySubject C20_ApplyLiteral C20_ApplySlotSet
CHECK_DEADLOCK FALSE

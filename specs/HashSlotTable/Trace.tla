-------------------------------- MODULE Trace --------------------------------
(* Trace validation: the NDJSON file written by the harness (one step per line,
   traces concatenated, each starting with an "Init" line) must be a behaviour of
   HashSlotTable.  Call arguments are bound from the log.  For the table mutators
   and the codec round trip the reply and the projection are determined by the
   specification and compared in Conform.  For planner calls the logged plan is
   taken as is and the C20_Plan* action properties decide whether it belongs to
   the relation; an "ApplyPlan" line is explained only by a valid plan. *)
EXTENDS HashSlotTable, Json, TLC
VARIABLE l

Log == ndJsonDeserialize("trace.ndjson")

TraceInit == Init /\ l = 1

Reset0 ==
  LET c == Log[l].ev.cfg IN
  /\ cfg' = c
  /\ assign' = Layout(c.H, c.P)
  /\ mig' = [h \in 0..(c.H - 1) |-> NoMig]
  /\ version' = 1
  /\ ev' = Log[l].ev

Step(e) ==
  CASE e.a = "Init"              -> Reset0
    [] e.a = "Reassign"          -> Reassign(e.h, e.s)
    [] e.a = "StartMigration"    -> StartMigration(e.h, e.src, e.tgt)
    [] e.a = "AdvanceMigration"  -> AdvanceMigration(e.h, e.phase)
    [] e.a = "FinalizeMigration" -> FinalizeMigration(e.h)
    [] e.a = "AbortMigration"    -> AbortMigration(e.h)
    [] e.a = "Roundtrip"         -> Roundtrip
    [] e.a = "Plan"              -> PlanLogged(e.kind, e.subj, e.plan)
    [] e.a = "ApplyPlan"         -> ApplyPlan(e.kind, e.subj, e.mode, e.plan)

TraceNext == l <= Len(Log) /\ l' = l + 1 /\ Step(Log[l].ev)

TraceSpec == TraceInit /\ [][TraceNext]_<<vars, l>>

\* Deterministic step: the logged reply and projection must be the specification's.
Conform ==
  l > 1 =>
    /\ Log[l - 1].ev.a # "Init" => ev.res = Log[l - 1].ev.res
    /\ Proj = Log[l - 1].st

\* Acceptance: every line was consumed.
HW       == TLCSet(1, IF l > TLCGet(1) THEN l ELSE TLCGet(1))
Track    == HW
Accepted == TLCGet(1) = Len(Log) + 1
ASSUME TLCSet(1, 0)
===============================================================================

SPECIFICATION TraceSpec
CONSTANTS
  Hs = {1}
  Ps = {1}
  Ss = {1}
  Phases = {0}
  MaxMig = 1000000
  PlanH = 0
CONSTRAINT Track
INVARIANTS Conform TypeOK
PROPERTIES C20_VersionStrict C20_DvExact C20_CodecIdentity C20_PlanMovesOnce C20_PlanBounds C20_PlanSubject C20_PlanLiteral C20_ApplyMovesExactly C20_ApplySubject C20_ApplyLiteral C20_ApplySlotSet
POSTCONDITION Accepted
CHECK_DEADLOCK FALSE

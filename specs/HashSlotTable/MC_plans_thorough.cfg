\* plans as a relation, no migrations: 1,089 distinct / 577,670 generated, ~2.5 min with 4 workers
SPECIFICATION Spec
CONSTANTS
  Hs = {2, 3, 4, 5, 6}
  Ps = {2}
  Ss = {3}
  Phases = {0}
  MaxMig = 0
  PlanH = 6
VIEW View
INVARIANTS TypeOK PlanExists
PROPERTIES C20_VersionStrict C20_DvExact C20_CodecIdentity C20_PlanMovesOnce C20_PlanBounds C20_PlanSubject C20_PlanLiteral C20_ApplyMovesExactly C20_ApplySubject C20_ApplyLiteral C20_ApplySlotSet
CHECK_DEADLOCK FALSE

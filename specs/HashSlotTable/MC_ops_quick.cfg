\* table mutators + migrations, no plans: 12,663 distinct / 1.15M generated, seconds on an idle machine
SPECIFICATION Spec
CONSTANTS
  Hs = {3}
  Ps = {2}
  Ss = {3}
  Phases = {0, 1}
  MaxMig = 2
  PlanH = 0
VIEW View
INVARIANTS TypeOK PlanExists
PROPERTIES C20_VersionStrict C20_DvExact C20_CodecIdentity C20_PlanMovesOnce C20_PlanBounds C20_PlanSubject C20_PlanLiteral C20_ApplyMovesExactly C20_ApplySubject C20_ApplyLiteral C20_ApplySlotSet
CHECK_DEADLOCK FALSE

\* table mutators + migrations (<= 1 at a time), plans on every table: 1,485 distinct / 199,522 generated, seconds on an idle machine
SPECIFICATION Spec
CONSTANTS
  Hs = {3}
  Ps = {2}
  Ss = {3}
  Phases = {0, 1, 2}
  MaxMig = 1
  PlanH = 3
VIEW View
INVARIANTS TypeOK PlanExists
PROPERTIES C20_VersionStrict C20_DvExact C20_CodecIdentity C20_PlanMovesOnce C20_PlanBounds C20_PlanSubject C20_PlanLiteral C20_ApplyMovesExactly C20_ApplySubject C20_ApplyLiteral C20_ApplySlotSet
CHECK_DEADLOCK FALSE

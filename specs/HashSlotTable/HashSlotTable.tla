---------------------------- MODULE HashSlotTable ----------------------------
(* Hash-slot routing table and rebalance planning (pkg/hashslot/hashslottable.go,
   pkg/hashslot/rebalancer.go).

   Abstract state: `assign` (hash slot -> physical slot), the active migrations
   and a version counter.  One action per exported mutator of HashSlotTable, one
   for the Encode/DecodeHashSlotTable round trip, one for a planner call and one
   for applying a plan through the table's own mutators.

   The planners (ComputeAddSlotPlan / ComputeRemoveSlotPlan / ComputeRebalancePlan)
   are NOT modelled as the greedy algorithm the code happens to use: a planner
   call may return any element of the relation IsValidPlan below (Observation O2
   of DESIGN.md).  The code's output is logged and checked for membership, so the
   greedy can be refactored freely.

   Only the sign of a version change is observable (`dv`): the property demands a
   strict increase on every effective change, not a particular step width. *)
EXTENDS Integers, Sequences, FiniteSets, SequencesExt

CONSTANTS
  Hs,       \* hash-slot counts tried (cfg.H)
  Ps,       \* initial physical slot counts tried (cfg.P)
  Ss,       \* largest physical slot id in use (cfg.S); slot ids are 1..cfg.S
  Phases,   \* migration phase numbers used by AdvanceMigration
  MaxMig,   \* bound on simultaneously active migrations (exhaustive runs)
  PlanH     \* plans are enumerated only for tables with at most PlanH hash slots

VARIABLES
  assign,   \* [0..H-1 -> 1..S]
  mig,      \* [0..H-1 -> [src, tgt, phase]]; src = 0 means "no migration"
  version,  \* abstract version counter
  cfg,      \* [H |-> hash slots, P |-> initial slots, S |-> largest slot id]
  ev        \* last call and its observable reply

vars == <<assign, mig, version, cfg, ev>>

H      == cfg.H
HSlots == 0..(H - 1)
Slots  == 1..cfg.S
NoMig  == [src |-> 0, tgt |-> 0, phase |-> 0]
HasMig(h) == h \in HSlots /\ mig[h].src # 0
MigCount  == Cardinality({h \in HSlots : mig[h].src # 0})

\* NewHashSlotTable: contiguous ranges, the first (H mod P) slots get one more.
Layout(Hn, Pn) ==
  LET base == Hn \div Pn
      rem  == Hn % Pn
      cut  == rem * (base + 1)
  IN [h \in 0..(Hn - 1) |->
        IF h < cut THEN (h \div (base + 1)) + 1
        ELSE rem + ((h - cut) \div base) + 1]

Init ==
  /\ cfg \in {c \in [H : Hs, P : Ps, S : Ss] : c.P <= c.S}
  /\ assign = Layout(cfg.H, cfg.P)
  /\ mig = [h \in 0..(cfg.H - 1) |-> NoMig]
  /\ version = 1
  /\ ev = [a |-> "Init", cfg |-> cfg]

Table == <<assign, mig>>
\* Reply shared by every mutator: did the version go up (1), stay (0)?
Dv(changed) == IF changed THEN 1 ELSE 0
Bump(changed) == version' = IF changed THEN version + 1 ELSE version

-------------------------------------------------------------------------------
\* Table mutators.  `h` may be H (one past the end): the code ignores it.

Reassign(h, s) ==
  LET eff == h \in HSlots /\ assign[h] # s IN
  /\ assign' = IF eff THEN [assign EXCEPT ![h] = s] ELSE assign
  /\ mig' = mig
  /\ Bump(eff)
  /\ ev' = [a |-> "Reassign", h |-> h, s |-> s, res |-> [dv |-> Dv(eff)]]
  /\ UNCHANGED cfg

\* src/tgt may be 0 (invalid slot id): ignored.
StartMigration(h, src, tgt) ==
  LET eff == /\ h \in HSlots /\ src # 0 /\ tgt # 0 /\ src # tgt
             /\ assign[h] = src /\ ~HasMig(h)
  IN
  /\ eff => MigCount < MaxMig
  /\ mig' = IF eff THEN [mig EXCEPT ![h] = [src |-> src, tgt |-> tgt, phase |-> 0]] ELSE mig
  /\ assign' = assign
  /\ Bump(eff)
  /\ ev' = [a |-> "StartMigration", h |-> h, src |-> src, tgt |-> tgt, res |-> [dv |-> Dv(eff)]]
  /\ UNCHANGED cfg

AdvanceMigration(h, ph) ==
  LET eff == HasMig(h) /\ mig[h].phase # ph IN
  /\ mig' = IF eff THEN [mig EXCEPT ![h].phase = ph] ELSE mig
  /\ assign' = assign
  /\ Bump(eff)
  /\ ev' = [a |-> "AdvanceMigration", h |-> h, phase |-> ph, res |-> [dv |-> Dv(eff)]]
  /\ UNCHANGED cfg

\* Finalize hands the hash slot to the migration target (whoever owns it now).
FinalizeMigration(h) ==
  LET eff == HasMig(h) IN
  /\ assign' = IF eff THEN [assign EXCEPT ![h] = mig[h].tgt] ELSE assign
  /\ mig' = IF eff THEN [mig EXCEPT ![h] = NoMig] ELSE mig
  /\ Bump(eff)
  /\ ev' = [a |-> "FinalizeMigration", h |-> h, res |-> [dv |-> Dv(eff)]]
  /\ UNCHANGED cfg

AbortMigration(h) ==
  LET eff == HasMig(h) IN
  /\ mig' = IF eff THEN [mig EXCEPT ![h] = NoMig] ELSE mig
  /\ assign' = assign
  /\ Bump(eff)
  /\ ev' = [a |-> "AbortMigration", h |-> h, res |-> [dv |-> Dv(eff)]]
  /\ UNCHANGED cfg

\* table := DecodeHashSlotTable(table.Encode()).  Identity on the abstract table
\* (version included): `same` is the comparison of the decoded table with the
\* original, and the decoded table replaces the original for the following calls.
Roundtrip ==
  /\ UNCHANGED <<assign, mig, version, cfg>>
  /\ ev' = [a |-> "Roundtrip", res |-> [ok |-> TRUE, same |-> TRUE, dv |-> 0]]

-------------------------------------------------------------------------------
\* Plans.  A plan is a sequence of moves [h, from, to].

Kinds == {"add", "remove", "rebalance"}
Cnt(a, s) == Cardinality({h \in DOMAIN a : a[h] = s})
Act(a)    == {a[h] : h \in DOMAIN a}

\* c hash slots are within one hash slot of the ideal share H/n.
WithinOne(c, n) == (c - 1) * n <= H /\ H <= (c + 1) * n
Balanced(a) == LET act == Act(a) n == Cardinality(act) IN \A s \in act : WithinOne(Cnt(a, s), n)

\* The slots that exist once the plan has been carried out.
SlotsAfter(kind, subj, a) ==
  CASE kind = "add"       -> Act(a) \cup {subj}
    [] kind = "remove"    -> Act(a) \ {subj}
    [] kind = "rebalance" -> Act(a)

\* Requests the planners answer with a plan (anything else yields no plan).
ValidRequest(kind, subj, a) ==
  CASE kind = "add"       -> subj \in Slots \ Act(a)
    [] kind = "remove"    -> subj \in Act(a)
    [] kind = "rebalance" -> subj = 0

PlanHs(p)   == {p[i].h : i \in DOMAIN p}
Donors(p)   == {p[i].from : i \in DOMAIN p}
Receivers(p) == {p[i].to : i \in DOMAIN p}
\* Hash slots of s once the plan is applied (meaningful when MovesOnce holds).
CntAfter(a, p, s) ==
  Cnt(a, s) - Cardinality({i \in DOMAIN p : p[i].from = s})
            + Cardinality({i \in DOMAIN p : p[i].to = s})

\* -- clauses of the relation ---------------------------------------------------
\* Every hash slot at most once, only away from its current owner, to a slot that
\* exists after the operation.
MovesOnce(kind, subj, a, p) ==
  LET tgt == SlotsAfter(kind, subj, a) IN
  /\ Cardinality(PlanHs(p)) = Len(p)
  /\ \A i \in DOMAIN p :
        /\ p[i].h \in DOMAIN a
        /\ p[i].from = a[p[i].h]
        /\ p[i].to # p[i].from
        /\ p[i].to \in tgt

\* A donor is never taken below its (integer) ideal share, a receiver never
\* lifted above it.  The slot being removed is the one donor that is emptied.
Bounds(kind, subj, a, p) ==
  LET n  == Cardinality(SlotsAfter(kind, subj, a))
      lo == H \div n
      hi == (H + n - 1) \div n
  IN n > 0 =>
     /\ \A s \in Donors(p) : (kind = "remove" /\ s = subj) \/ CntAfter(a, p, s) >= lo
     /\ \A s \in Receivers(p) : CntAfter(a, p, s) <= hi

\* The subject of the plan ends where the operation wants it.
Subject(kind, subj, a, p) ==
  LET n == Cardinality(SlotsAfter(kind, subj, a)) IN
  CASE kind = "add"       -> WithinOne(CntAfter(a, p, subj), n)
    [] kind = "remove"    -> n > 0 => CntAfter(a, p, subj) = 0
    [] kind = "rebalance" -> \A s \in Act(a) : WithinOne(CntAfter(a, p, s), n)

\* The literal clause of the property, asserted for balanced inputs only (O2):
\* every participating slot that still exists ends within one of its ideal share.
Participants(kind, subj, a, p) ==
  (Donors(p) \cup Receivers(p) \cup (IF kind = "add" THEN {subj} ELSE {}))
     \cap SlotsAfter(kind, subj, a)
Literal(kind, subj, a, p) ==
  LET n == Cardinality(SlotsAfter(kind, subj, a)) IN
  (Balanced(a) /\ n > 0) =>
     \A s \in Participants(kind, subj, a, p) : WithinOne(CntAfter(a, p, s), n)

IsValidPlan(kind, subj, a, p) ==
  /\ MovesOnce(kind, subj, a, p)
  /\ Bounds(kind, subj, a, p)
  /\ Subject(kind, subj, a, p)
  /\ Literal(kind, subj, a, p)

\* Enumeration (small tables): a moves-once plan is the same thing as the
\* assignment it leads to.
PlanOf(a, b) ==
  LET hs == SetToSortSeq({h \in DOMAIN a : b[h] # a[h]}, <) IN
  [i \in 1..Len(hs) |-> [h |-> hs[i], from |-> a[hs[i]], to |-> b[hs[i]]]]
ValidPlans(kind, subj, a) ==
  LET tgt == SlotsAfter(kind, subj, a)
      bs  == {b \in [DOMAIN a -> tgt \cup Act(a)] : \A h \in DOMAIN a : b[h] = a[h] \/ b[h] \in tgt}
  IN {p \in {PlanOf(a, b) : b \in bs} : IsValidPlan(kind, subj, a, p)}

\* Applying a plan move by move (Reassign, or Start/Advance/FinalizeMigration).
After(a, p) == FoldLeft(LAMBDA acc, m : [acc EXCEPT ![m.h] = m.to], a, p)

\* A planner call: observes a plan, changes nothing.  (The plan is carried next
\* to `res`: it is validated by the C20_Plan* properties, not by equality.)
PlanLogged(kind, subj, p) ==
  /\ ValidRequest(kind, subj, assign)
  /\ UNCHANGED <<assign, mig, version, cfg>>
  /\ ev' = [a |-> "Plan", kind |-> kind, subj |-> subj, plan |-> p,
            res |-> [moves |-> Len(p), dv |-> 0]]

\* (Stand-alone form of a planner call; Next inlines it next to ApplyPlan so that
\* ValidPlans is enumerated once per request.)
Plan(kind, subj) ==
  /\ H <= PlanH
  /\ ValidRequest(kind, subj, assign)
  /\ \E p \in ValidPlans(kind, subj, assign) : PlanLogged(kind, subj, p)

\* Carrying a plan out.  mode "reassign": Reassign per move; mode "migrate":
\* StartMigration, AdvanceMigration, FinalizeMigration per move (only when none
\* of the moved hash slots has a migration under way).  Same abstract effect; the
\* abstract version counts one step per move (the code takes 1 resp. 4 - only the
\* sign of a version change is observable).
Modes == {"reassign", "migrate"}
ApplyPlan(kind, subj, mode, p) ==
  /\ ValidRequest(kind, subj, assign)
  /\ IsValidPlan(kind, subj, assign, p)
  /\ mode = "migrate" => \A i \in DOMAIN p : ~HasMig(p[i].h)
  /\ assign' = After(assign, p)
  /\ mig' = mig
  /\ version' = version + Len(p)
  /\ ev' = [a |-> "ApplyPlan", kind |-> kind, subj |-> subj, mode |-> mode, plan |-> p,
            res |-> [dv |-> Dv(Len(p) > 0)]]
  /\ UNCHANGED cfg

Requests == {<<"rebalance", 0>>} \cup {<<k, s>> : k \in {"add", "remove"}, s \in Slots}

Next ==
  \/ \E h \in 0..H, s \in Slots : Reassign(h, s)
  \/ \E h \in 0..H, src \in 0..cfg.S, tgt \in 0..cfg.S : StartMigration(h, src, tgt)
  \/ \E h \in 0..H, ph \in Phases : AdvanceMigration(h, ph)
  \/ \E h \in 0..H : FinalizeMigration(h)
  \/ \E h \in 0..H : AbortMigration(h)
  \/ Roundtrip
  \* planner calls and carrying a plan out (ValidPlans is enumerated once per request)
  \/ \E r \in Requests :
        /\ H <= PlanH
        /\ ValidRequest(r[1], r[2], assign)
        /\ \E p \in ValidPlans(r[1], r[2], assign) :
              \/ PlanLogged(r[1], r[2], p)
              \/ \E mode \in Modes : ApplyPlan(r[1], r[2], mode, p)

Spec == Init /\ [][Next]_vars

-------------------------------------------------------------------------------
\* Observable projection (Lookup, HashSlotsOf, AssignedSlotIDs, ActiveMigrations).
MigSeq ==
  LET hs == SetToSortSeq({h \in HSlots : mig[h].src # 0}, <) IN
  [i \in 1..Len(hs) |-> [h |-> hs[i], src |-> mig[hs[i]].src, tgt |-> mig[hs[i]].tgt,
                         phase |-> mig[hs[i]].phase]]
Proj == [assign |-> [i \in 1..H |-> assign[i - 1]],
         owned  |-> [s \in Slots |-> SetToSortSeq({h \in HSlots : assign[h] = s}, <)],
         active |-> SetToSortSeq(Act(assign), <),
         migs   |-> MigSeq]

-------------------------------------------------------------------------------
\* Property C20.

\* Every hash slot maps to exactly one physical slot.
TypeOK ==
  /\ DOMAIN assign = HSlots
  /\ \A h \in HSlots : assign[h] \in Slots
  /\ DOMAIN mig = HSlots
  /\ version >= 1

\* The version strictly increases on every effective change and only then.
C20_VersionStrict ==
  [][ev'.a # "Init" =>
        /\ (Table' # Table) => version' > version
        /\ (Table' = Table) => version' = version ]_vars
\* ... and the reply reports exactly that.
C20_DvExact ==
  [][ev'.a # "Init" => ev'.res.dv = IF Table' # Table THEN 1 ELSE 0]_vars

\* Encode/decode is the identity on the table, active migrations included.
C20_CodecIdentity ==
  [][ev'.a = "Roundtrip" => ev'.res.ok /\ ev'.res.same /\ Table' = Table /\ version' = version]_vars

\* Planner output (the state is unchanged by a Plan step, so `assign` is the
\* table the planner saw).
IsPlanEv == ev'.a = "Plan"
C20_PlanMovesOnce == [][IsPlanEv => MovesOnce(ev'.kind, ev'.subj, assign, ev'.plan)]_vars
C20_PlanBounds ==
  [][IsPlanEv /\ MovesOnce(ev'.kind, ev'.subj, assign, ev'.plan) =>
        Bounds(ev'.kind, ev'.subj, assign, ev'.plan)]_vars
C20_PlanSubject ==
  [][IsPlanEv /\ MovesOnce(ev'.kind, ev'.subj, assign, ev'.plan) =>
        Subject(ev'.kind, ev'.subj, assign, ev'.plan)]_vars
C20_PlanLiteral ==
  [][IsPlanEv /\ MovesOnce(ev'.kind, ev'.subj, assign, ev'.plan) =>
        Literal(ev'.kind, ev'.subj, assign, ev'.plan)]_vars

\* Post-conditions of carrying a valid plan out, stated on the real transition.
IsApplyEv == ev'.a = "ApplyPlan"
C20_ApplyMovesExactly ==
  [][IsApplyEv =>
       LET hs == PlanHs(ev'.plan) IN
       \A h \in HSlots :
         IF h \in hs THEN assign'[h] # assign[h] ELSE assign'[h] = assign[h]]_vars
C20_ApplySubject ==
  [][IsApplyEv =>
       LET n == Cardinality(SlotsAfter(ev'.kind, ev'.subj, assign)) IN
       CASE ev'.kind = "add"       -> WithinOne(Cnt(assign', ev'.subj), n)
         [] ev'.kind = "remove"    -> n > 0 => ev'.subj \notin Act(assign')
         [] ev'.kind = "rebalance" -> Balanced(assign')]_vars
C20_ApplyLiteral ==
  [][IsApplyEv /\ Balanced(assign) =>
       LET n == Cardinality(SlotsAfter(ev'.kind, ev'.subj, assign)) IN
       n > 0 => \A s \in Participants(ev'.kind, ev'.subj, assign, ev'.plan) :
                  WithinOne(Cnt(assign', s), n)]_vars
\* A donor is never emptied by an add or rebalance plan: the set of slots after the
\* operation is the one the ideal share was computed for.
C20_ApplySlotSet ==
  [][IsApplyEv /\ SlotsAfter(ev'.kind, ev'.subj, assign) # {} =>
       Act(assign') \subseteq SlotsAfter(ev'.kind, ev'.subj, assign)]_vars

\* Non-vacuity of the relation: every request has at least one valid plan.
PlanExists ==
  H <= PlanH => \A r \in Requests :
     ValidRequest(r[1], r[2], assign) => ValidPlans(r[1], r[2], assign) # {}

\* `version` carries no information the actions depend on: hide it (and `ev`).
View == <<assign, mig, cfg>>
===============================================================================

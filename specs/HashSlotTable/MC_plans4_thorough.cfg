\* plans over 4 slot ids: 1,280 distinct / 1,535,906 generated, ~3.5 min with 4 workers
SPECIFICATION Spec
CONSTANTS
  Hs = {4, 5}
  Ps = {2}
  Ss = {4}
  Phases = {0}
  MaxMig = 0
  PlanH = 5
VIEW View
INVARIANTS TypeOK PlanExists
PROPERTIES C20_VersionStrict C20_DvExact C20_CodecIdentity C20_PlanMovesOnce C20_PlanBounds C20_PlanSubject C20_PlanLiteral C20_ApplyMovesExactly C20_ApplySubject C20_ApplyLiteral C20_ApplySlotSet
CHECK_DEADLOCK FALSE

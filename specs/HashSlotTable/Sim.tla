--------------------------------- MODULE Sim ---------------------------------
(* Behaviour generator: `tlc -simulate` prints one JSON behaviour per line
   ("BEH {...}") when a run reaches Depth steps: the call, the reply the
   specification determines and the projection of the abstract table after every
   step.  Planner calls (action Plan) are not generated here: their reply is a
   relation, it is checked in the other direction (Trace.tla).  ApplyPlan steps
   carry a plan the specification chose among the valid ones (small tables). *)
EXTENDS HashSlotTable, Json, TLC
CONSTANT Depth
VARIABLE hist

SimInit == Init /\ hist = << [ev |-> ev, st |-> Proj] >>
\* One successor per disjunct: arguments are drawn with RandomElement so that
\* `-simulate` chooses uniformly among action kinds, not among argument tuples.
Pick(S) == {RandomElement(S)}
None == 99999
Migrating == {h \in HSlots : mig[h].src # 0}
OrNone(S) == IF S = {} THEN {None} ELSE S
SimStep ==
  \/ \E h \in Pick(0..H), s \in Pick(Slots) : Reassign(h, s)
  \/ \E h \in Pick(HSlots), s \in Pick(Slots) : Reassign(h, s)
  \* aimed: hand a migrating hash slot to its target / to a third slot
  \/ \E h \in Pick(OrNone(Migrating)) : h # None /\ \E s \in Pick({mig[h].tgt, mig[h].src}) : Reassign(h, s)
  \/ \E h \in Pick(0..H), src \in Pick(0..cfg.S), tgt \in Pick(0..cfg.S) : StartMigration(h, src, tgt)
  \* aimed: source is the current owner
  \/ \E h \in Pick(HSlots), tgt \in Pick(Slots) : StartMigration(h, assign[h], tgt)
  \/ \E h \in Pick(HSlots), tgt \in Pick(Slots) : StartMigration(h, assign[h], tgt)
  \/ \E h \in Pick(0..H), ph \in Pick(Phases) : AdvanceMigration(h, ph)
  \/ \E h \in Pick(OrNone(Migrating)) : h # None /\ \E ph \in Pick(Phases) : AdvanceMigration(h, ph)
  \/ \E h \in Pick(0..H) : FinalizeMigration(h)
  \/ \E h \in Pick(OrNone(Migrating)) : h # None /\ FinalizeMigration(h)
  \/ \E h \in Pick(0..H) : AbortMigration(h)
  \/ \E h \in Pick(OrNone(Migrating)) : h # None /\ AbortMigration(h)
  \/ Roundtrip
  \/ Roundtrip
  \/ /\ H <= PlanH
     /\ \E r \in Pick({r \in Requests : ValidRequest(r[1], r[2], assign)}), mode \in Pick(Modes) :
          \E p \in Pick(ValidPlans(r[1], r[2], assign)) : ApplyPlan(r[1], r[2], mode, p)
SimNext == SimStep /\ hist' = Append(hist, [ev |-> ev', st |-> Proj'])
Emit    == Len(hist) = Depth + 1 => PrintT("BEH " \o ToJson([steps |-> hist]))
===============================================================================

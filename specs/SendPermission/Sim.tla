--------------------------------- MODULE Sim ---------------------------------
(* Test-table generator.  TLC evaluates invariants on every initial state (also
   in -simulate mode), so the invariant Emit prints one "BEH {json}" line for every
   fact combination: the Init event carrying the facts and the Decide event
   carrying the decision both real paths must return (and, for a command that
   shares its SendBatch call with its mate, the mate's decision).  The random walks
   of -simulate add nothing (Decide is the only step) and print nothing. *)
EXTENDS SendPermission, Json
CONSTANT Depth

\* Aimed: the fact combinations of the module already give a command a mate (same sender,
\* same channel, other device kind, either order) exactly where the device matters.
SimInit == Init
SimNext == Next
Row == [steps |-> << [ev |-> ev, st |-> Proj],
                     [ev |-> [a |-> "Decide", res |-> Result(f)],
                      st |-> [decided |-> TRUE]] >>]
Emit == ~done => PrintT("BEH " \o ToJson(Row))
===============================================================================

--------------------------------- MODULE Sim ---------------------------------
(* Test-table generator.  TLC evaluates invariants on every initial state (also
   in -simulate mode), so the invariant Emit prints one "BEH {json}" line for every
   fact combination: the Init event carrying the facts and the Decide event
   carrying the decision both real paths must return.  The random walks of
   -simulate add nothing (Decide is the only step) and print nothing. *)
EXTENDS SendPermission, Json
CONSTANT Depth

SimInit == Init
SimNext == Next
Row == [steps |-> << [ev |-> ev, st |-> Proj],
                     [ev |-> [a |-> "Decide", res |-> [send |-> Decision(f), batch |-> Decision(f)]],
                      st |-> [decided |-> TRUE]] >>]
Emit == ~done => PrintT("BEH " \o ToJson(Row))
===============================================================================

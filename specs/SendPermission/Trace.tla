-------------------------------- MODULE Trace --------------------------------
(* Trace validation: the harness records, for seeded random fact combinations,
   an "Init" line carrying the facts and a "Decide" line carrying what App.Send and
   App.SendBatch really returned.  Each pair must be a behaviour of SendPermission:
   the decision is determined by the facts and compared in the invariant Conform. *)
EXTENDS SendPermission, Json
VARIABLE l

Log == ndJsonDeserialize("trace.ndjson")

\* The first line of the log is an Init event: start from its facts (enumerating every
\* fact combination of Init here would only be overwritten by Reset0).
TraceInit ==
  /\ f = Log[1].ev.cfg
  /\ done = FALSE
  /\ ev = [a |-> "Init", cfg |-> f]
  /\ l = 1

Reset0 ==
  /\ f' = Log[l].ev.cfg
  /\ done' = FALSE
  /\ ev' = Log[l].ev

Step(e) ==
  CASE e.a = "Init"   -> Reset0
    [] e.a = "Decide" -> Decide

TraceNext == l <= Len(Log) /\ l' = l + 1 /\ Step(Log[l].ev)

TraceSpec == TraceInit /\ [][TraceNext]_<<vars, l>>

Conform ==
  l > 1 /\ Log[l - 1].ev.a # "Init" =>
    /\ ev.res = Log[l - 1].ev.res
    /\ Proj = Log[l - 1].st

\* The recorded facts are facts of the model (with or without a failing read).
KnownFacts ==
  /\ f.type \in Types
  /\ f.sender \in {"none", "ok", "ban"}
  /\ f.target \in {"none", "ok", "ban", "disband", "ban_disband"}
  /\ f.receiver \in {"none", "closed", "stranger"}
  /\ f.mix \in Mixes

HW       == TLCSet(1, IF l > TLCGet(1) THEN l ELSE TLCGet(1))
Track    == HW
Accepted == TLCGet(1) = Len(Log) + 1
ASSUME TLCSet(1, 0)
===============================================================================

---------------------------- MODULE SendPermission ----------------------------
(* Send permission decision (internal/usecase/message/permission.go: per-send
   path checkSendPermission reached through App.Send; permission_batch.go: raw-fact
   batch path reached through App.SendBatch for group and person channels).

   The decision is a function of finitely many facts, so the specification is a
   one-step machine: every initial state is one combination of facts (`f`, carried
   by the Init event), the single action Decide records the decision the two
   paths must both return.  TLC enumerates all initial states; the harness loads
   fake permission stores with each combination and requires App.Send and
   App.SendBatch to return exactly this reason.

   The decision is written as the ordered list of checks the code performs: each
   check reads one fact source; if that read fails the decision is system_error
   (with an error), if the check hits it is the check's reason, otherwise the next
   check runs; no check left means success. *)
EXTENDS Integers, Sequences, FiniteSets, TLC

CONSTANT FailScope \* which cases are also enumerated with one failing fact source each:
                   \* "none", "ordinary" (ordinary senders with an unbanned record), "all"

VARIABLES
  f,      \* the facts of this case
  done,   \* the decision was taken
  ev      \* last event (observation only)

vars == <<f, done, ev>>

Types == {"person", "group", "cs", "info", "visitors", "agent", "other"}

\* facts every channel type has
Common ==
  [sysuid : BOOLEAN,                       \* sender is a system UID
   sysdev : BOOLEAN,                       \* sender session uses the system device id
   sender : {"none", "ok", "ban"},         \* sender's own channel record: absent / present / SendBan
   target : {"none", "ok", "ban", "disband", "ban_disband"}]   \* target channel record

Neutral ==
  [denied |-> FALSE, subscriber |-> FALSE, hasallow |-> FALSE, allow |-> FALSE,
   rsys |-> FALSE, wl |-> FALSE, receiver |-> "none", member |-> FALSE]

Lists == [denied : BOOLEAN, subscriber : BOOLEAN, hasallow : BOOLEAN, allow : BOOLEAN]

\* facts that exist for one channel type only (everything else stays neutral)
Extra(t) ==
  CASE t = "group"    -> {l @@ Neutral : l \in Lists}
    [] t = "visitors" -> {[member |-> m] @@ l @@ Neutral : l \in Lists, m \in BOOLEAN}   \* member: sender is the visitor
    [] t = "agent"    -> {[member |-> m] @@ Neutral : m \in BOOLEAN}                      \* member: sender is a party of the agent channel
    [] t = "person"   -> {[denied |-> d, allow |-> a, rsys |-> r, wl |-> w, receiver |-> rc] @@ Neutral :
                             d \in BOOLEAN, a \in BOOLEAN, r \in BOOLEAN, w \in BOOLEAN,
                             rc \in {"none", "closed", "stranger"}}   \* receiver's channel record: absent / AllowStranger=0 / =1
    [] OTHER          -> {Neutral}

\* the fact source whose read fails with an infrastructure error ("none" = no failure)
Fails(t) ==
  {"none", "sender", "target"} \cup
  CASE t \in {"group", "visitors"} -> {"denied", "subscriber", "hasallow", "allow"}
    [] t = "person"                -> {"denied", "allow", "receiver"}
    [] OTHER                       -> {}

FailsFor(c, t) ==
  IF FailScope = "all" \/ (FailScope = "ordinary" /\ ~c.sysuid /\ ~c.sysdev /\ c.sender = "ok")
    THEN Fails(t) ELSE {"none"}

\* How the command travels in the SendBatch call.  "none": on its own.  "first" / "second":
\* the same call also carries the sender's command to the same channel from a device of the
\* other kind (system device <-> ordinary device), the mate; this command comes first / second.
\* Both commands are decided under the same facts (one sender, one channel, one store); only
\* `sysdev` differs.  SendBatch coalesces items that share one permission decision: the mate
\* must not share this command's decision.
Mixes == {"none", "first", "second"}

\* every fact combination, the command travelling on its own
Alone == UNION {{[type |-> p[2], fail |-> x, mix |-> "none"] @@ p[1] @@ e :
                    e \in Extra(p[2]), x \in FailsFor(p[1], p[2])} : p \in Common \X Types}

\* the facts of the mate's command
Mate(x) == [x EXCEPT !.sysdev = ~x.sysdev,
                     !.mix = CASE x.mix = "first" -> "second" [] x.mix = "second" -> "first" [] OTHER -> "none"]

-------------------------------------------------------------------------------
Chk(read, hit, reason) == [read |-> read, hit |-> hit, reason |-> reason]

Disbanded(x) == x.target \in {"disband", "ban_disband"}
Banned(x)    == x.target \in {"ban", "ban_disband"}

\* the terminal check no trusted sender bypasses: a disbanded source channel
Terminal(x)  == Chk("target", Disbanded(x), "disband")
SenderBan(x) == Chk("sender", x.sender = "ban", "send_ban")

\* deny list, membership, allow list (checkCommonMemberPermission); a check whose
\* reason is "success" ends the evaluation successfully
Member(x) ==
  << Chk("denied", x.denied, "in_blacklist"),
     Chk("subscriber", ~x.subscriber, "subscriber_not_exist"),
     Chk("hasallow", ~x.hasallow, "success"),
     Chk("allow", ~x.allow, "not_in_whitelist") >>

Person(x) ==
  IF x.rsys THEN <<>>
  ELSE << Chk("denied", x.denied, "in_blacklist") >> \o
       (IF ~x.wl THEN <<>>
        ELSE << Chk("allow", x.allow, "success"),
                Chk("receiver", x.receiver # "stranger", "not_in_whitelist") >>)

Checks(x) ==
  IF x.sysuid THEN << Terminal(x) >>
  ELSE IF x.sysdev THEN << SenderBan(x), Terminal(x) >>
  ELSE << SenderBan(x) >> \o
       CASE x.type = "person"   -> << Terminal(x) >> \o Person(x)
         [] x.type = "group"    -> << Chk("target", x.target = "none", "channel_not_exist"),
                                      Chk("target", Banned(x), "ban"),
                                      Chk("target", Disbanded(x), "disband") >> \o Member(x)
         [] x.type = "agent"    -> << Terminal(x), Chk("-", ~x.member, "not_allow_send") >>
         [] x.type = "visitors" -> << Terminal(x) >> \o (IF x.member THEN <<>> ELSE Member(x))
         [] OTHER               -> << Terminal(x) >>

RECURSIVE Walk(_, _)
Walk(x, cs) ==
  IF cs = <<>> THEN [reason |-> "success", err |-> FALSE, sent |-> TRUE]
  ELSE LET c == Head(cs) IN
       IF c.read = x.fail THEN [reason |-> "system_error", err |-> TRUE, sent |-> FALSE]
       ELSE IF c.hit THEN [reason |-> c.reason, err |-> FALSE, sent |-> c.reason = "success"]
       ELSE Walk(x, Tail(cs))

Decision(x) == Walk(x, Checks(x))

\* A mate is enumerated where the device matters: the two commands must get different
\* decisions (sender not a subscriber / denylisted / not allowlisted, group banned or absent,
\* a failing read only the ordinary device consults, ...).  Elsewhere a leaked decision
\* would not be observable.
DeviceMatters(x) == Decision(x) # Decision(Mate(x))
Facts == Alone \cup {[x EXCEPT !.mix = m] : x \in {y \in Alone : DeviceMatters(y)}, m \in {"first", "second"}}

Init ==
  /\ f \in Facts
  /\ done = FALSE
  /\ ev = [a |-> "Init", cfg |-> f]

\* Both paths return the one decision, whatever else travels in the same SendBatch call;
\* with a mate in the call the mate's command gets the decision of its own device.
Both(x)   == [send |-> Decision(x), batch |-> Decision(x)]
Result(x) == IF x.mix = "none" THEN Both(x) ELSE Both(x) @@ [mate |-> Both(Mate(x))]

Decide ==
  /\ ~done
  /\ done' = TRUE
  /\ ev' = [a |-> "Decide", res |-> Result(f)]
  /\ UNCHANGED f

Next == Decide
Spec == Init /\ [][Next]_vars

Proj == [decided |-> done]

-------------------------------------------------------------------------------
\* Property C36 on the design (the decision table itself).

D == Decision(f)
TypeOK ==
  /\ D.reason \in {"success", "system_error", "send_ban", "disband", "ban", "channel_not_exist",
                   "in_blacklist", "subscriber_not_exist", "not_in_whitelist", "not_allow_send"}
  /\ D.err <=> D.reason = "system_error"
  /\ D.sent <=> D.reason = "success"

\* System senders bypass only the non-terminal checks: a system UID is stopped by a
\* disbanded channel and by nothing else; a system device additionally by its own ban.
C36_SystemBypass ==
  /\ f.sysuid =>
       D.reason = IF f.fail = "target" THEN "system_error"
                  ELSE IF Disbanded(f) THEN "disband" ELSE "success"
  /\ (~f.sysuid /\ f.sysdev) =>
       D.reason = IF f.fail = "sender" THEN "system_error"
                  ELSE IF f.sender = "ban" THEN "send_ban"
                  ELSE IF f.fail = "target" THEN "system_error"
                  ELSE IF Disbanded(f) THEN "disband" ELSE "success"

\* Nobody sends into a disbanded channel; and disbanded comes first for trusted senders
\* (above), right after the sender's own ban for everybody else except that a group
\* reports its ban before its disbanding.
C36_DisbandTerminal ==
  /\ (Disbanded(f) /\ f.fail = "none") => D.reason # "success"
  /\ (Disbanded(f) /\ f.fail = "none" /\ f.sender # "ban") =>
        D.reason = IF f.type = "group" /\ ~f.sysuid /\ ~f.sysdev /\ Banned(f) THEN "ban" ELSE "disband"

\* Fixed precedence of the remaining reasons for ordinary senders.
C36_Precedence ==
  (~f.sysuid /\ ~f.sysdev /\ f.fail = "none") =>
    /\ f.sender = "ban" => D.reason = "send_ban"
    /\ (f.sender # "ban" /\ ~Disbanded(f) /\ f.type = "group") =>
         D.reason = IF f.target = "none" THEN "channel_not_exist"
                    ELSE IF Banned(f) THEN "ban"
                    ELSE IF f.denied THEN "in_blacklist"
                    ELSE IF ~f.subscriber THEN "subscriber_not_exist"
                    ELSE IF f.hasallow /\ ~f.allow THEN "not_in_whitelist" ELSE "success"
    /\ (f.sender # "ban" /\ ~Disbanded(f) /\ f.type = "person") =>
         D.reason = IF f.rsys THEN "success"
                    ELSE IF f.denied THEN "in_blacklist"
                    ELSE IF ~f.wl \/ f.allow \/ f.receiver = "stranger" THEN "success" ELSE "not_in_whitelist"
    /\ (f.sender # "ban" /\ ~Disbanded(f) /\ f.type \in {"cs", "info", "other"}) => D.reason = "success"

\* An infrastructure error is reported only for a fact the decision needed.
C36_ErrorsOnlyWhenConsulted ==
  D.err => \E i \in 1..Len(Checks(f)) : Checks(f)[i].read = f.fail

\* The company a command keeps in a batch is not a permission fact: the decision with a
\* mate in the same SendBatch call is the decision of the command alone, and the mate's is
\* that of the same facts on the other device kind (differing exactly by the device bypass).
C36_CompanyIrrelevant ==
  /\ D = Decision([f EXCEPT !.mix = "none"])
  /\ Decision(Mate(f)) = Decision([f EXCEPT !.sysdev = ~f.sysdev, !.mix = "none"])
  /\ f.sysuid => Decision(Mate(f)) = D

\* Both paths agree, for the command and for its mate (by construction of Decide; evaluated
\* on recorded traces).
C36_PathsAgree ==
  [][ev'.a = "Decide" =>
       /\ ev'.res.send = ev'.res.batch
       /\ "mate" \in DOMAIN ev'.res => ev'.res.mate.send = ev'.res.mate.batch]_vars
===============================================================================

SPECIFICATION TraceSpec
CONSTANTS FailScope = "none"
CONSTRAINT Track
INVARIANTS Conform KnownFacts TypeOK C36_SystemBypass C36_DisbandTerminal C36_Precedence C36_ErrorsOnlyWhenConsulted C36_CompanyIrrelevant
PROPERTIES C36_PathsAgree
POSTCONDITION Accepted
CHECK_DEADLOCK FALSE

SPECIFICATION TraceSpec
CONSTANTS FailScope = "none"
CONSTRAINT Track
INVARIANTS Conform KnownFacts TypeOK C36_SystemBypass C36_DisbandTerminal C36_Precedence C36_ErrorsOnlyWhenConsulted
PROPERTIES C36_PathsAgree
POSTCONDITION Accepted
CHECK_DEADLOCK FALSE

\* every fact combination (6,060), ordinary-sender combinations additionally with every single failing read: 8,750 initial states, 17,500 distinct states
SPECIFICATION Spec
CONSTANTS FailScope = "ordinary"
INVARIANTS TypeOK C36_SystemBypass C36_DisbandTerminal C36_Precedence C36_ErrorsOnlyWhenConsulted
PROPERTIES C36_PathsAgree
CHECK_DEADLOCK FALSE

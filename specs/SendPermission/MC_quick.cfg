\* all fact combinations without failing reads: 6,060 initial states, 12,120 distinct states
SPECIFICATION Spec
CONSTANTS FailsOn = FALSE
INVARIANTS TypeOK C36_SystemBypass C36_DisbandTerminal C36_Precedence C36_ErrorsOnlyWhenConsulted
PROPERTIES C36_PathsAgree
CHECK_DEADLOCK FALSE

\* every fact combination (6,060), ordinary-sender combinations additionally with every single failing read (8,750), and each of those where the device kind changes the decision additionally with its mate in the same batch, before and after (2,382): 11,132 initial states, 22,264 distinct states
SPECIFICATION Spec
CONSTANTS FailScope = "ordinary"
INVARIANTS TypeOK C36_SystemBypass C36_DisbandTerminal C36_Precedence C36_ErrorsOnlyWhenConsulted C36_CompanyIrrelevant
PROPERTIES C36_PathsAgree
CHECK_DEADLOCK FALSE

\* every fact combination with every possible single failing read: 38,340 initial states, 76,680 distinct states
SPECIFICATION Spec
CONSTANTS FailScope = "all"
INVARIANTS TypeOK C36_SystemBypass C36_DisbandTerminal C36_Precedence C36_ErrorsOnlyWhenConsulted
PROPERTIES C36_PathsAgree
CHECK_DEADLOCK FALSE

\* every fact combination with every possible single failing read (38,340), each additionally with its mate in the same batch (before / after) where the device kind changes the decision: 44,388 initial states, 88,776 distinct states
SPECIFICATION Spec
CONSTANTS FailScope = "all"
INVARIANTS TypeOK C36_SystemBypass C36_DisbandTerminal C36_Precedence C36_ErrorsOnlyWhenConsulted C36_CompanyIrrelevant
PROPERTIES C36_PathsAgree
CHECK_DEADLOCK FALSE

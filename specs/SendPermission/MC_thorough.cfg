\* all fact combinations, each with every possible single failing read: 32,040 initial states, 64,080 distinct states
SPECIFICATION Spec
CONSTANTS FailsOn = TRUE
INVARIANTS TypeOK C36_SystemBypass C36_DisbandTerminal C36_Precedence C36_ErrorsOnlyWhenConsulted
PROPERTIES C36_PathsAgree
CHECK_DEADLOCK FALSE

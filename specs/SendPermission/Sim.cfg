INIT SimInit
NEXT SimNext
CONSTANTS
  FailsOn = TRUE
  Depth = 1
INVARIANT Emit
CHECK_DEADLOCK FALSE

INIT SimInit
NEXT SimNext
CONSTANTS
  FailScope = "all"
  Depth = 1
INVARIANT Emit
CHECK_DEADLOCK FALSE

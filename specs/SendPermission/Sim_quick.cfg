INIT SimInit
NEXT SimNext
CONSTANTS
  FailScope = "ordinary"
  Depth = 1
INVARIANT Emit
CHECK_DEADLOCK FALSE

INIT SimInit
NEXT SimNext
CONSTANTS
  FailsOn = FALSE
  Depth = 1
INVARIANT Emit
CHECK_DEADLOCK FALSE

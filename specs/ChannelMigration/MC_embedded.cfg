\* measured: 30,460 distinct states, 2,571,598 transitions without NxBatch2, 2-3 min at load 40; with NxBatch2
\* the same 30,460 distinct states (4,297,246 transitions with BatchRGs = {"none", "ok", "le"}, fewer with the
\* two variants below); every Nx action non-zero under -coverage 1 (NxBatch2 included)
\* replica replacement whose source is the leader (embedded leader transfer first), a task
\* row created mid-flight after its cutover, leader changes from outside, blocked tasks
SPECIFICATION Spec
CONSTANTS
  Tasks = {"t1", "t2"}
  Owners = {1, 2}
  Cfgs <- CfgsEmbedded
  ProofStales <- StalesQuick
  RGs = {"ok", "le", "ld"}
  TGs = {"ok", "stale"}
  Exts = {"le", "ld1", "ld2"}
  WfExtra = {"blocked"}
  BatchRGs = {"none", "le"}
  MaxCE = 12
  MaxLE = 22
  MaxFver = 6
  LateReset = FALSE
VIEW View
INVARIANTS TypeOK C17_MetaValid C17_OneActive C17_Irreversible
PROPERTIES C17_ProofCurrent C17_CutoverOnlyByCommit C17_FenceOwner C17_RejectedUnchanged C17_AbortOnlyBeforeCutover C17_BatchAsSequence
CHECK_DEADLOCK FALSE

\* measured: 30,460 distinct states, 2,571,598 transitions, 2-3 min at load 40; every Nx action non-zero
\* replica replacement whose source is the leader (embedded leader transfer first), a task
\* row created mid-flight after its cutover, leader changes from outside, blocked tasks
SPECIFICATION Spec
CONSTANTS
  Tasks = {"t1", "t2"}
  Owners = {1, 2}
  Cfgs <- CfgsEmbedded
  ProofStales <- StalesQuick
  RGs = {"ok", "le", "ld"}
  TGs = {"ok", "stale"}
  Exts = {"le", "ld1", "ld2"}
  WfExtra = {"blocked"}
  MaxCE = 12
  MaxLE = 22
  MaxFver = 6
  LateReset = FALSE
VIEW View
INVARIANTS TypeOK C17_MetaValid C17_OneActive C17_Irreversible
PROPERTIES C17_ProofCurrent C17_CutoverOnlyByCommit C17_FenceOwner C17_RejectedUnchanged C17_AbortOnlyBeforeCutover
CHECK_DEADLOCK FALSE

-------------------------------- MODULE Trace --------------------------------
(* Trace validation: the NDJSON file written by the harness (one step per line, traces
   concatenated, each starting with an "Init" line that carries the configuration) must
   be a behaviour of ChannelMigration.  The command arguments are bound from the log;
   reply and projection are then determined by the specification and compared in the
   invariant Conform, so a divergence is reported with the expected values.  The C17
   properties are evaluated on every step of the recorded traces. *)
EXTENDS ChannelMigration, Json
VARIABLE l

Log == ndJsonDeserialize("trace.ndjson")

SetOf(sq) == {sq[i] : i \in 1..Len(sq)}
MetaOf(m) == [ce |-> m.ce, le |-> m.le, leader |-> m.leader, rep |-> SetOf(m.rep), isr |-> SetOf(m.isr),
              minisr |-> m.minisr, ftok |-> m.ftok, fver |-> m.fver]
CfgOf(c) == [tmpl |-> [t \in Tasks |-> c.tmpl[t]], meta |-> MetaOf(c.meta)]

TraceInit ==
  /\ l = 1
  /\ cfg = CfgOf(Log[1].ev.cfg)
  /\ meta = cfg.meta
  /\ tasks = [t \in Tasks |-> AbsentT]
  /\ active = ""
  /\ cut = [t \in Tasks |-> "none"]
  /\ ev = [a |-> "Init"]

Reset0 ==
  /\ cfg' = CfgOf(Log[l].ev.cfg)
  /\ meta' = cfg'.meta
  /\ tasks' = [t \in Tasks |-> AbsentT]
  /\ active' = ""
  /\ cut' = [t \in Tasks |-> "none"]
  /\ ev' = [a |-> "Init"]

\* a batch command of the log without the guard (Batch2 derives it from the pre-batch row;
\* Conform then compares the whole event, guards included)
BCmdOf(c) == [a |-> c.a, t |-> c.t, rg |-> c.rg, k |-> c.k]

Step(e) ==
  CASE e.a = "Init"       -> Reset0
    [] e.a = "Create"     -> Create(e.t, e.rg)
    [] e.a = "Claim"      -> Claim(e.t, e.o, e.exp, e.tg)
    [] e.a = "Advance"    -> Advance(e.t, e.to, e.st, e.p, e.embd, e.tg)
    [] e.a = "SetFence"   -> SetFence(e.t, e.tg, e.rg)
    [] e.a = "ResetFence" -> ResetFence(e.t, e.to, e.late, e.tg, e.rg)
    [] e.a = "Commit"     -> Commit(e.t, e.late, e.nle, e.tg, e.rg)
    [] e.a = "AddLearner" -> AddLearner(e.t, e.tg, e.rg)
    [] e.a = "Promote"    -> Promote(e.t, e.late, e.tg, e.rg)
    [] e.a = "ClearFence" -> ClearFence(e.t, e.tg, e.rg)
    [] e.a = "Abort"      -> Abort(e.t, e.tg, e.rg)
    [] e.a = "GC"         -> GC(e.lim, e.old)
    [] e.a = "Ext"        -> Ext(e.k)
    [] e.a = "Batch2"     -> Batch2(BCmdOf(e.cs[1]), BCmdOf(e.cs[2]))

TraceNext == l <= Len(Log) /\ l' = l + 1 /\ Step(Log[l].ev)

TraceSpec == TraceInit /\ [][TraceNext]_<<vars, l>>

\* Deterministic step: the logged reply and projection must be the specification's.
Conform ==
  l > 1 /\ Log[l - 1].ev.a # "Init" =>
    /\ ev.res = Log[l - 1].ev.res
    /\ (ev.a = "Batch2" => ev.cs = Log[l - 1].ev.cs)
    /\ Proj = Log[l - 1].st

\* Acceptance: every line was consumed.
HW       == TLCSet(1, IF l > TLCGet(1) THEN l ELSE TLCGet(1))
Track    == HW
Accepted0 == TLCGet(1) = Len(Log) + 1
ASSUME TLCSet(1, 0)
===============================================================================

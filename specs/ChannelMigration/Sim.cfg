INIT SimInit
NEXT SimNext
CONSTANTS
  Tasks = {"t1", "t2"}
  Owners = {1, 2}
  Cfgs <- CfgsSim
  ProofStales <- StalesThorough
  RGs = {"ok", "ce", "le", "ld", "ftok", "fver"}
  TGs = {"ok", "stale"}
  Exts = {"le", "ce", "fence", "ld1", "ld2", "ld3"}
  WfExtra = {"blocked", "failed"}
  BatchRGs = {"none", "ok", "ce", "le", "ld", "ftok", "fver"}
  MaxCE = 1000000
  MaxLE = 1000000
  MaxFver = 1000000
  LateReset = FALSE
  Depth = 50
INVARIANT Emit
CHECK_DEADLOCK FALSE

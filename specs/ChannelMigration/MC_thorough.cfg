\* measured: 743,441 distinct states, 118,663,494 transitions with NxBatch2 (110,907,642 without), 11 min at load 40 (8 workers), 33 min at load 60;
\* same configuration as MC_quick with larger domains (its action coverage carries over)
\* leader transfer + replica replacement, with tasks failing at any phase (stranded fences)
SPECIFICATION Spec
CONSTANTS
  Tasks = {"t1", "t2"}
  Owners = {1}
  Cfgs <- CfgsQuick
  ProofStales <- StalesMid
  RGs = {"ok", "ce", "le", "ld", "ftok", "fver"}
  TGs = {"ok", "stale"}
  Exts = {"le", "fence"}
  WfExtra = {"failed"}
  BatchRGs = {"none"}
  MaxCE = 12
  MaxLE = 21
  MaxFver = 6
  LateReset = FALSE
VIEW View
INVARIANTS TypeOK C17_MetaValid C17_OneActive C17_Irreversible
PROPERTIES C17_ProofCurrent C17_CutoverOnlyByCommit C17_FenceOwner C17_RejectedUnchanged C17_AbortOnlyBeforeCutover C17_BatchAsSequence
CHECK_DEADLOCK FALSE

--------------------------------- MODULE Sim ---------------------------------
(* Behaviour generator: `tlc -simulate` prints one JSON behaviour per run of Depth
   steps.  Arguments are drawn with RandomElement so that a step chooses among action
   KINDS; "Progress" walks a task along the executor's workflow with fresh guards and
   a fresh proof (otherwise a random walk hardly ever reaches a cutover), the aimed
   disjuncts put a stale proof / stale guard / outside meta change right before a
   cutover, try a second task while one is active, abort around the cutover,
   strand a fence on a failed task, and put two commands into ONE apply batch (two
   creates for different / the same task id while no task is active, a create next to a
   runtime-meta upsert or to a create for another channel). *)
EXTENDS ChannelMigration, Json
CONSTANT Depth
VARIABLE hist

SimInit == Init /\ hist = << [ev |-> ev, st |-> Proj] >>

Pick(S) == {RandomElement(S)}
None == "none"
Present == {t \in Tasks : tasks[t].present}
Live    == {t \in Tasks : Active(tasks[t])}
OrNone(S) == IF S = {} THEN {None} ELSE S
Fresh == MkProof(meta, {})

Coin(k) == RandomElement(1..k) = 1

\* the workflow's next command for task t, everything fresh
Progress(t) ==
  LET T == tasks[t] IN
  IF ~T.present THEN Create(t, RandomElement({"none", "ok"}))
  ELSE IF Terminal(T) THEN Claim(t, RandomElement(Owners), FALSE, "ok")
  ELSE IF T.status = "pending" \/ T.owner = 0 THEN Claim(t, RandomElement(Owners), FALSE, "ok")
  ELSE IF T.status = "blocked" THEN Advance(t, T.phase, "running", NoProof, 0, "ok")
  ELSE IF T.phase \in {"WriteFence", "WarmCatchUp"} THEN SetFence(t, "ok", "ok")
  \* a proof that is no longer current sends the task back to the final catch-up (as the executor does)
  \* (every other time; otherwise the cutover is attempted with the stale proof)
  ELSE IF T.phase \in {"CommitLeaderMeta", "PromoteAndRemove"} /\ ~ProofCurrent(T, meta, meta.fver) /\ Coin(2)
    THEN Advance(t, "FinalCatchUp", "running", NoProof, 0, "ok")
  ELSE IF T.phase = "CommitLeaderMeta" THEN Commit(t, FALSE, 1, "ok", "ok")
  ELSE IF T.phase = "AddLearner" THEN AddLearner(t, "ok", "ok")
  ELSE IF T.phase = "PromoteAndRemove" THEN Promote(t, FALSE, "ok", "ok")
  ELSE IF T.phase \in {"VerifyNewLeader", "VerifyMembership"} THEN ClearFence(t, "ok", "ok")
  ELSE LET ws == {w \in Workflow(T) : w[2] = "running" /\ (w[1] # T.phase \/ w[3])} IN
       /\ ws # {}
       /\ \E w \in Pick(ws) : Advance(t, w[1], w[2], IF w[3] THEN Fresh ELSE NoProof, w[4], "ok")

AtCutover == {t \in Tasks : Active(tasks[t]) /\ tasks[t].phase \in {"CommitLeaderMeta", "PromoteAndRemove"}}
Drained   == {t \in Tasks : Active(tasks[t]) /\ tasks[t].phase \in {"DrainLeader", "FinalCatchUp", "CutoverFence"}}
Fenced    == {t \in Tasks : Active(tasks[t]) /\ HasFence(tasks[t])}
Cutover(t, late, nle, tg, rg) ==
  IF tasks[t].phase = "PromoteAndRemove" THEN Promote(t, late, tg, rg) ELSE Commit(t, late, nle, tg, rg)

\* TLC picks the next state uniformly among the successors, i.e. among the enabled
\* disjuncts below; Coin(k) thins a disjunct out so that about every third step is a
\* workflow step and a task regularly lives long enough to reach its cutover.
SimStep ==
  \* ---- workflow progress (weighted) ----
  \/ \E t \in Pick(OrNone(Live)) : t # None /\ Progress(t)
  \/ \E t \in Pick(OrNone(Live)) : t # None /\ Progress(t)
  \/ \E t \in Pick(OrNone(Live)) : t # None /\ Progress(t)
  \/ \E t \in Pick(OrNone(Live)) : t # None /\ Progress(t)
  \/ \E t \in Pick(OrNone(Live)) : t # None /\ Progress(t)
  \/ \E t \in Pick(Tasks) : Progress(t)
  \* ---- every command with random arguments ----
  \/ Coin(3) /\ \E t \in Pick(Tasks), rg \in Pick(RGs \cup {"none"}) : Create(t, rg)
  \/ Coin(3) /\ \E t \in Pick(OrNone(Present)), o \in Pick(Owners), exp \in Pick(BOOLEAN), tg \in Pick(TGs) :
        t # None /\ Claim(t, o, exp, tg)
  \/ Coin(2) /\ \E t \in Pick(OrNone(Live)), tg \in Pick(TGs) :
        t # None /\ \E w \in Pick({w \in Workflow(tasks[t]) : w[2] # "failed"}) :
                       \E p \in Pick(IF w[3] THEN Proofs ELSE {NoProof}) : Advance(t, w[1], w[2], p, w[4], tg)
  \/ Coin(3) /\ \E t \in Pick(OrNone(Present)), tg \in Pick(TGs), rg \in Pick(RGs) : t # None /\ SetFence(t, tg, rg)
  \/ Coin(3) /\ \E t \in Pick(OrNone(Present)), late \in Pick(BOOLEAN), tg \in Pick(TGs), rg \in Pick(RGs) :
        t # None /\ (LateReset \/ PreCutover(tasks[t]))
        /\ \E to \in Pick(ResetTargets(tasks[t])) : ResetFence(t, to, late, tg, rg)
  \/ Coin(3) /\ \E t \in Pick(OrNone(Present)), late \in Pick(BOOLEAN), nle \in Pick({0, 1}), tg \in Pick(TGs), rg \in Pick(RGs) :
        t # None /\ Commit(t, late, nle, tg, rg)
  \/ Coin(3) /\ \E t \in Pick(OrNone(Present)), tg \in Pick(TGs), rg \in Pick(RGs) : t # None /\ AddLearner(t, tg, rg)
  \/ Coin(3) /\ \E t \in Pick(OrNone(Present)), late \in Pick(BOOLEAN), tg \in Pick(TGs), rg \in Pick(RGs) :
        t # None /\ Promote(t, late, tg, rg)
  \/ Coin(3) /\ \E t \in Pick(OrNone(Present)), tg \in Pick(TGs), rg \in Pick(RGs) : t # None /\ ClearFence(t, tg, rg)
  \/ Coin(3) /\ \E t \in Pick(OrNone(Present)), tg \in Pick(TGs), rg \in Pick(RGs) : t # None /\ Abort(t, tg, rg)
  \/ Coin(4) /\ \E lim \in Pick(1..Cardinality(Tasks)), old \in Pick(BOOLEAN) : GC(lim, old)
  \/ Coin(6) /\ \E k \in Pick(Exts) : Ext(k)
  \* ---- aimed: a proof with one or more stale fields recorded right before the cutover phase ----
  \/ Coin(3) /\ \E t \in Pick(OrNone(Drained)) :
        t # None /\ \E S \in Pick(ProofStales \ {{}}) :
           Advance(t, IF LTishSet(tasks[t]) THEN "CommitLeaderMeta" ELSE "PromoteAndRemove", "running",
                   MkProof(meta, S), 0, "ok")
  \/ Coin(2) /\ \E t \in Pick(OrNone(Drained)) :
        t # None /\ \E f \in Pick({"fv", "ce", "le", "ld"}) :            \* exactly one stale field
           Advance(t, IF LTishSet(tasks[t]) THEN "CommitLeaderMeta" ELSE "PromoteAndRemove", "running",
                   MkProof(meta, {f}), 0, "ok")
  \* ---- aimed: cutover attempts: fresh, one stale guard field, late, no epoch increment ----
  \/ \E t \in Pick(OrNone(AtCutover)) : t # None /\ Cutover(t, FALSE, 1, "ok", "ok")
  \/ \E t \in Pick(OrNone(AtCutover)), rg \in Pick(RGs \ {"ok"}) : t # None /\ Cutover(t, FALSE, 1, "ok", rg)
  \/ Coin(2) /\ \E t \in Pick(OrNone(AtCutover)), late \in Pick(BOOLEAN), nle \in Pick({0, 1}), tg \in Pick(TGs) :
        t # None /\ Cutover(t, late, nle, tg, "ok")
  \* ---- aimed: the meta row moves between drain and cutover ----
  \/ Coin(4) /\ \E t \in Pick(OrNone(AtCutover)), k \in Pick(Exts) : t # None /\ Ext(k)
  \* ---- aimed: leadership moves onto the replica that a replacement is about to remove ----
  \/ Coin(3) /\ \E t \in Pick(OrNone({t \in Live : tasks[t].kind = "RR" /\ ~tasks[t].emb /\ tasks[t].phase \in UnpromotedPhases})) :
        t # None /\ \E k \in {k \in DOMAIN LdKinds : LdKinds[k] = tasks[t].src} : Ext(k)
  \* ---- aimed: a second task while one is active; the same create again ----
  \/ Coin(2) /\ \E t \in Pick(OrNone(Tasks \ Live)), rg \in Pick({"none", "ok"}) : t # None /\ Live # {} /\ Create(t, rg)
  \/ Coin(2) /\ \E t \in Pick(OrNone({t \in Tasks : Terminal(tasks[t])})), o \in Pick(Owners) :
        t # None /\ Live # {} /\ Claim(t, o, TRUE, "ok")
  \/ Coin(4) /\ \E t \in Pick(OrNone(Present)) : t # None /\ Create(t, RandomElement({"none", "ok", "le"}))
  \* ---- two commands in one apply batch ----
  \* any pair of the modelled shapes
  \/ Coin(3) /\ \E c1 \in Pick(BCmds), c2 \in Pick(BCmds) : BatchShape(c1, c2) /\ Batch2(c1, c2)
  \* aimed: two racing planners: creates for two different task ids (or the same one twice)
  \* in one batch while no task is active (both would pass the commit-time index check)
  \/ Live = {} /\ \E t1 \in Pick(Tasks), t2 \in Pick(Tasks), g1 \in Pick({"none", "ok"}), g2 \in Pick({"none", "ok"}) :
        (t1 # t2 \/ Coin(4)) /\ Batch2(BCreate(t1, g1), BCreate(t2, g2))
  \/ Coin(3) /\ \E t1 \in Pick(Tasks), g1 \in Pick(BatchRGs), g2 \in Pick(BatchRGs) :
        \E t2 \in Tasks \ {t1} : Batch2(BCreate(t1, g1), BCreate(t2, g2))
  \* aimed: a create next to an upsert from outside (the guard is stale before / fresh after
  \* the upsert, or the other way round) and next to a create for another channel
  \/ Coin(3) /\ \E t \in Pick(Tasks), k \in Pick(Exts), rg \in Pick({"none", "ok", "le", "ce"}), first \in Pick(BOOLEAN) :
        IF first THEN Batch2(BExt(k), BCreate(t, rg)) ELSE Batch2(BCreate(t, rg), BExt(k))
  \/ Coin(3) /\ \E t \in Pick(Tasks), rg \in Pick({"none", "ok"}), first \in Pick(BOOLEAN) :
        IF first THEN Batch2(BOther, BCreate(t, rg)) ELSE Batch2(BCreate(t, rg), BOther)
  \* ---- aimed: abort / clear / reset / renew by a fence holder, or against somebody else's fence ----
  \/ Coin(12) /\ \E t \in Pick(OrNone(Live)) : t # None /\ Abort(t, "ok", "ok")
  \/ \E t \in Pick(OrNone(Live)) : t # None /\ tasks[t].phase \in PostCutoverPhases /\ Abort(t, "ok", "ok")
  \/ Coin(5) /\ \E t \in Pick(OrNone(Fenced)) :
        t # None /\ (LateReset \/ PreCutover(tasks[t]))
        /\ \E to \in Pick(ResetTargets(tasks[t])) : ResetFence(t, to, RandomElement(1..4) # 1, "ok", "ok")
  \/ Coin(8) /\ \E t \in Pick(OrNone(Fenced)) : t # None /\ SetFence(t, "ok", "ok")
  \/ \E t \in Pick(OrNone(Live)) : t # None /\ meta.ftok \notin {"", t} /\ ClearFence(t, "ok", "ok")
  \/ \E t \in Pick(OrNone(Live)) : t # None /\ meta.ftok \notin {"", t} /\ Abort(t, "ok", "ok")
  \* ---- aimed: strand the fence on a failed task ----
  \/ Coin(12) /\ \E t \in Pick(OrNone(Fenced)) : t # None /\ Advance(t, tasks[t].phase, "failed", NoProof, 0, "ok")

\* The last step is a fixed no-op (a cleanup with a cutoff before every completion), so that
\* a run prints ONE behaviour instead of one per successor of its last state.
SimNext == /\ IF Len(hist) = Depth THEN GC(1, FALSE) ELSE SimStep
           /\ hist' = Append(hist, [ev |-> ev', st |-> Proj'])
Emit    == Len(hist) = Depth + 1 => PrintT("BEH " \o ToJson([steps |-> hist]))
===============================================================================

SPECIFICATION TraceSpec
CONSTANTS
  Tasks = {"t1", "t2"}
  Owners = {1, 2}
  Cfgs <- CfgsSim
  ProofStales <- StalesThorough
  RGs = {"ok", "ce", "le", "ld", "ftok", "fver"}
  TGs = {"ok", "stale"}
  Exts = {"le", "ce", "fence", "ld1", "ld2", "ld3"}
  WfExtra = {"blocked", "failed"}
  BatchRGs = {"none", "ok", "ce", "le", "ld", "ftok", "fver"}
  MaxCE = 1000000
  MaxLE = 1000000
  MaxFver = 1000000
  LateReset = FALSE
CONSTRAINT Track
INVARIANTS Conform TypeOK C17_MetaValid C17_OneActive C17_Irreversible
PROPERTIES C17_ProofCurrent C17_CutoverOnlyByCommit C17_FenceOwner C17_RejectedUnchanged C17_AbortOnlyBeforeCutover C17_BatchAsSequence
POSTCONDITION Accepted0
CHECK_DEADLOCK FALSE

--------------------------- MODULE ChannelMigration ---------------------------
(* Channel migration commands of the slot state machine
   (pkg/slot/fsm/channel_migration_cmds.go -> pkg/db/meta/compat.go
   WriteBatch.{Create,Claim,Advance}ChannelMigrationTask, SetChannelWriteFence,
   ResetChannelWriteFenceToPreCutover, CommitChannelLeaderTransfer, AddChannelLearner,
   PromoteLearnerAndRemoveReplica, ClearChannelWriteFence, AbortChannelMigration,
   DeleteTerminalChannelMigrationTasksBefore; helpers in
   compat_channel_migration_helpers.go and table_channel_migration.go).

   One channel.  State = its runtime meta row, the migration task table and the
   active-task index entry of the channel.  One action per FSM command, applied as a
   one-command apply batch, plus Batch2: two commands in ONE apply batch (creates, a
   runtime-meta upsert, a create for another channel; see the section "Two commands in
   one apply batch").  The reply is the apply result: "ok" or "stale" (stale_meta:
   every ErrConflict / ErrNotFound / ErrAlreadyExists of these commands ends there and
   leaves the database untouched).

   What is transcribed, not idealised:
     * every command loads (task, meta), runs its transition / fence / proof checks,
       then requires BOTH guards (task guard, runtime guard) to match, refuses to change
       a terminal task, and stages the task through stageUpsertChannelMigrationTask,
       which maintains the active index (ensureChannelMigrationActiveAvailable);
     * Claim and Advance are task-only and check nothing but the task guard (and, for
       Claim, the owner lease), so they may move a terminal task back to an active
       status; the active index then decides;
     * the cutover proof is stored on the task by Advance and compared with the CURRENT
       meta row by Commit / Promote.

   Argument domains.  The commands carry free status / phase fields.  Next draws them as
   the real callers do (pkg/cluster/channels/migration_store.go and the executor's
   workflow, see Workflow below); the action definitions themselves accept any value, so
   that Trace.tla can bind whatever the driver issued.

   Abstractions: time is two-valued per call (a fence / owner lease is expired or not:
   the harness derives NowMS from the stored deadline); UpdatedAtMS is always "stored
   value + 1" (so the idempotent-replay fast paths, which need an equal UpdatedAtMS, are
   outside the domain, except the create replay which is modelled by `pristine`);
   RouteGeneration, leases, progress, error strings are not modelled or compared. *)
EXTENDS Integers, Sequences, FiniteSets, SequencesExt, TLC

CONSTANTS
  Tasks,        \* task ids (strings)
  Owners,       \* executor node ids that claim tasks
  Cfgs,         \* set of [tmpl : [Tasks -> template], meta : meta row] initial configurations
  ProofStales,  \* sets of proof fields recorded stale by Advance (subsets of {"fv","ce","le","ld"})
  RGs,          \* runtime-guard variants: "ok" or the name of the one stale field
  TGs,          \* task-guard variants: "ok" / "stale"
  Exts,         \* kinds of runtime-meta upserts from outside the migration: "le","ce","fence","ld<n>"
  WfExtra,      \* which of the executor's side exits Next explores: subset of {"blocked", "failed"}
  BatchRGs,     \* guard variants of the creates inside two-command batches: "none", "ok", stale field
  MaxCE, MaxLE, MaxFver,   \* bounds for exhaustive runs (enabling conditions of Next)
  LateReset     \* TRUE: Next also resets an expired fence AFTER the cutover (named deviation)

VARIABLES
  meta,     \* runtime meta row [ce, le, leader, rep, isr, minisr, ftok, fver]
  tasks,    \* [Tasks -> task row]
  active,   \* raw active-index entry of the channel: a task id or ""
  cut,      \* ghost: [Tasks -> "none" | "embedded" | "committed" | "promoted"]
  cfg,      \* configuration of this instance (templates, initial meta)
  ev        \* last command and its reply (observation only)

vars == <<meta, tasks, active, cut, cfg, ev>>

-------------------------------------------------------------------------------
\* Phases (ChannelMigrationPhase*) and the phase classes of the helpers file.
LTPhases      == {"Validate", "ProbeTarget", "WriteFence", "DrainLeader", "FinalCatchUp",
                  "CommitLeaderMeta", "VerifyNewLeader", "ClearFence"}      \* isLeaderTransferPhase
LTFencePhases == {"WriteFence", "DrainLeader", "FinalCatchUp", "CommitLeaderMeta",
                  "VerifyNewLeader", "ClearFence"}                          \* isLeaderTransferFencePhase
RRFencePhases == {"CutoverFence", "FinalCatchUp", "PromoteAndRemove", "VerifyMembership",
                  "ClearFence"}                                             \* isReplicaReplaceFencePhase
LTAbortPhases == {"Validate", "ProbeTarget", "WriteFence", "DrainLeader", "FinalCatchUp",
                  "CommitLeaderMeta"}                                       \* isLeaderTransferAbortPhase
RRAbortPhases == {"Validate", "AddLearner", "Bootstrap", "WarmCatchUp", "CutoverFence",
                  "FinalCatchUp", "PromoteAndRemove"}                       \* isReplicaReplaceAbortPhase
UnpromotedPhases == {"Bootstrap", "WarmCatchUp", "CutoverFence", "FinalCatchUp",
                     "PromoteAndRemove"}            \* canAbortRemoveUnpromotedChannelMigrationLearner
PostCutoverPhases == {"VerifyNewLeader", "VerifyMembership", "ClearFence"}

TerminalStatus == {"completed", "failed", "aborted"}

NoProof == [fv |-> 0, ce |-> 0, le |-> 0, ld |-> 0]
AbsentT == [present |-> FALSE, kind |-> "", status |-> "", phase |-> "", owner |-> 0,
            src |-> 0, tgt |-> 0, desired |-> 0, ftok |-> "", fver |-> 0,
            proof |-> NoProof, emb |-> FALSE, embd |-> 0, pristine |-> FALSE]

\* The row CreateChannelMigrationTask stores for a template.
Row(tp) == [present |-> TRUE, kind |-> tp.kind, status |-> tp.status, phase |-> tp.phase,
            owner |-> 0, src |-> tp.src, tgt |-> tp.tgt, desired |-> tp.desired,
            ftok |-> "", fver |-> 0, proof |-> NoProof, emb |-> FALSE, embd |-> 0,
            pristine |-> TRUE]

Active(T)   == T.present /\ T.status \notin TerminalStatus     \* ChannelMigrationTask.IsActive
Terminal(T) == T.present /\ T.status \in TerminalStatus
HasFence(T) == T.ftok # "" \/ T.fver # 0
Mutated(T)  == [T EXCEPT !.pristine = FALSE]

IsLT(T)     == T.kind = "LT"                                   \* leader transfer or failover
\* "leader-transfer-ish": the kind, or a replica replace inside its embedded transfer
LTishSet(T)   == IsLT(T) \/ (T.kind = "RR" /\ T.emb /\ T.phase \in LTPhases)
LTishReset(T) == IsLT(T) \/ (T.kind = "RR" /\ T.emb /\ T.phase \in LTFencePhases)
\* isChannelMigrationFencePhaseAllowed
FencePhaseAllowed(T) ==
  IF IsLT(T) THEN T.phase \in LTFencePhases
  ELSE T.phase \in RRFencePhases \/ (T.emb /\ T.phase \in LTFencePhases)

\* channelMigrationTaskDesiredLeader (metadb) and channelMigrationDesiredLeader (caller)
DbDesired(T)     == IF T.emb /\ T.embd # 0 THEN T.embd ELSE T.desired
CallerDesired(T) == IF T.emb /\ T.embd # 0 THEN T.embd
                    ELSE IF T.desired # 0 THEN T.desired ELSE T.tgt

\* requireActiveChannelMigrationTaskFence(task, meta, expectedFenceVersion)
OwnFence(t, T, M, efv) ==
  /\ T.ftok # "" /\ T.fver # 0 /\ T.ftok = t
  /\ T.ftok = M.ftok /\ T.fver = M.fver /\ T.fver = efv
\* requireMatchingFence(meta, token, version, ...) without the deadline part
MatchFence(M, tok, ver) == tok # "" /\ ver # 0 /\ M.ftok = tok /\ M.fver = ver
\* requireChannelMigrationCutoverProof (CutoverLEO/HW and the runtime generation are
\* non-zero exactly when the proof is not NoProof; the harness ties them)
Partial(p) == p.fv = 0 \/ p.ce = 0 \/ p.le = 0 \/ p.ld = 0
ProofCurrent(T, M, efv) ==
  /\ efv # 0 /\ T.proof # NoProof /\ ~Partial(T.proof)
  /\ T.proof.fv = efv /\ M.fver = efv
  /\ T.proof.ce = M.ce /\ T.proof.le = M.le /\ T.proof.ld = M.leader

\* The runtime guard the command carries: the current row with at most one stale field.
Guard(M, rg) ==
  [ce   |-> IF rg = "ce" THEN M.ce + 1 ELSE M.ce,
   le   |-> IF rg = "le" THEN M.le + 1 ELSE M.le,
   ld   |-> IF rg = "ld" THEN (IF M.leader = 1 THEN 2 ELSE 1) ELSE M.leader,
   ftok |-> IF rg = "ftok" THEN "zz" ELSE M.ftok,
   fver |-> IF rg = "fver" THEN M.fver + 1 ELSE M.fver]
GuardMatches(M, g) ==
  M.ce = g.ce /\ M.le = g.le /\ M.leader = g.ld /\ M.ftok = g.ftok /\ M.fver = g.fver

ClearMetaFence(M) == [M EXCEPT !.ftok = "", !.fver = M.fver + 1]
ClearTaskFenceProof(T) == [T EXCEPT !.ftok = "", !.fver = 0, !.proof = NoProof]

\* stageUpsertChannelMigrationTask: the active index follows the task's status.
\* (tk, ac): the task table and the raw index entry the statement reads and writes.
UpsertOn(tk, ac, t, nT) ==
  IF Active(nT)
    THEN IF ac \notin {"", t} /\ tk[ac].present /\ Active(tk[ac])
           THEN [ok |-> FALSE, tasks |-> tk, active |-> ac]             \* ErrAlreadyExists
           ELSE [ok |-> TRUE, tasks |-> [tk EXCEPT ![t] = nT], active |-> t]
    ELSE [ok |-> TRUE, tasks |-> [tk EXCEPT ![t] = nT],
          active |-> IF tk[t].present /\ Active(tk[t]) THEN "" ELSE ac]
Upsert(t, nT) == UpsertOn(tasks, active, t, nT)

\* Common tail of every command: accepted (and the index admits the row) or stale.
Done(e, t, ok, nT, nM, nc) ==
  LET up == Upsert(t, nT) IN
  IF ok /\ up.ok
    THEN /\ tasks' = up.tasks /\ active' = up.active /\ meta' = nM
         /\ cut' = [cut EXCEPT ![t] = nc]
         /\ ev' = e @@ [res |-> [r |-> "ok"]]
    ELSE /\ UNCHANGED <<tasks, active, meta, cut>>
         /\ ev' = e @@ [res |-> [r |-> "stale"]]

\* stageChannelMigrationTaskAndMeta: guards, and a terminal task is never changed.
Guarded(T, tg, g) == T.present /\ tg = "ok" /\ GuardMatches(meta, g) /\ ~Terminal(T)

SortedSeq(S) == SetToSortSeq(S, <)
EvMeta(M) == [ce |-> M.ce, le |-> M.le, leader |-> M.leader, rep |-> SortedSeq(M.rep),
              isr |-> SortedSeq(M.isr), minisr |-> M.minisr, ftok |-> M.ftok, fver |-> M.fver]

-------------------------------------------------------------------------------
Init ==
  /\ cfg \in Cfgs
  /\ meta = cfg.meta
  /\ tasks = [t \in Tasks |-> AbsentT]
  /\ active = ""
  /\ cut = [t \in Tasks |-> "none"]
  /\ ev = [a |-> "Init", cfg |-> [tmpl |-> cfg.tmpl, meta |-> EvMeta(cfg.meta)]]

\* The state a command reads and writes, as a value (so that commands can be composed).
St == [meta |-> meta, tasks |-> tasks, active |-> active, cut |-> cut]

\* CreateChannelMigrationTask / ...WithRuntimeGuard (rg = "none": the unguarded command)
\* as a one-command apply batch on state S with runtime guard g: new state and reply.
CreateOn(S, t, rg, g) ==
  LET T  == S.tasks[t]
      up == UpsertOn(S.tasks, S.active, t, Row(cfg.tmpl[t]))
  IN IF T.present
       THEN \* the same row again is an accepted no-op (before any guard is looked at)
            [st |-> S, r |-> IF T.pristine THEN "ok" ELSE "stale"]
       ELSE IF (rg = "none" \/ GuardMatches(S.meta, g)) /\ up.ok
              THEN [st |-> [S EXCEPT !.tasks = up.tasks, !.active = up.active, !.cut[t] = "none"],
                    r |-> "ok"]
              ELSE [st |-> S, r |-> "stale"]

Create(t, rg) ==
  LET g == Guard(meta, IF rg = "none" THEN "ok" ELSE rg)
      e == [a |-> "Create", t |-> t, rg |-> rg, g |-> g]
      o == CreateOn(St, t, rg, g)
  IN /\ UNCHANGED cfg
     /\ tasks' = o.st.tasks /\ active' = o.st.active /\ meta' = o.st.meta /\ cut' = o.st.cut
     /\ ev' = e @@ [res |-> [r |-> o.r]]

\* ClaimChannelMigrationTask as MigrationStore.Claim issues it: Status = Running, Phase kept.
\* `exp`: the stored owner lease is expired at the claimant's NowMS.
Claim(t, o, exp, tg) ==
  LET T  == tasks[t]
      ok == /\ T.present /\ tg = "ok"
            /\ (T.owner = 0 \/ T.owner = o \/ exp)            \* canClaimChannelMigrationTask
      nT == Mutated([T EXCEPT !.status = "running", !.owner = o])
      e  == [a |-> "Claim", t |-> t, o |-> o, exp |-> exp, tg |-> tg]
  IN /\ UNCHANGED cfg
     /\ Done(e, t, ok, nT, meta, cut[t])

\* AdvanceChannelMigrationTask: task-only; p # NoProof overwrites the stored proof,
\* embd # 0 starts an embedded leader transfer.
Advance(t, to, st, p, embd, tg) ==
  LET T  == tasks[t]
      ok == T.present /\ tg = "ok"
      nT == Mutated([T EXCEPT !.status = st, !.phase = to,
                              !.proof = IF p # NoProof THEN p ELSE T.proof,
                              !.emb = IF embd # 0 THEN TRUE ELSE T.emb,
                              !.embd = IF embd # 0 THEN embd ELSE T.embd])
      e  == [a |-> "Advance", t |-> t, to |-> to, st |-> st, p |-> p, embd |-> embd, tg |-> tg]
  IN /\ UNCHANGED cfg
     /\ Done(e, t, ok, nT, meta, cut[t])

\* SetChannelWriteFence with Phase = migrationFencePhase(task) (set or renew).
FencePhase(T) ==
  IF IsLT(T) \/ T.emb
    THEN (IF T.phase = "WriteFence" THEN "DrainLeader" ELSE T.phase)
    ELSE (IF T.phase = "WarmCatchUp" THEN "CutoverFence" ELSE T.phase)
SetFence(t, tg, rg) ==
  LET T   == tasks[t]
      g   == Guard(meta, rg)
      to  == FencePhase(T)
      tr  == IF LTishSet(T)          \* requireChannelMigrationSetFenceTransition
               THEN (T.phase = "WriteFence" /\ to = "DrainLeader") \/ (T.phase \in LTFencePhases /\ to = T.phase)
               ELSE T.kind = "RR" /\ ((T.phase = "WarmCatchUp" /\ to = "CutoverFence")
                                       \/ (T.phase \in RRFencePhases /\ to = T.phase))
      nof == \/ ~HasFence(T) /\ meta.ftok = ""            \* requireNoForeignChannelMigrationFence
             \/ HasFence(T) /\ meta.ftok # "" /\ OwnFence(t, T, meta, meta.fver)
      ok  == Guarded(T, tg, g) /\ tr /\ nof
      nT  == Mutated([T EXCEPT !.status = "running", !.phase = to, !.proof = NoProof,
                               !.ftok = t, !.fver = meta.fver + 1])
      nM  == [meta EXCEPT !.ftok = t, !.fver = meta.fver + 1]
      e   == [a |-> "SetFence", t |-> t, tg |-> tg, rg |-> rg, g |-> g]
  IN /\ UNCHANGED cfg
     /\ Done(e, t, ok, nT, nM, cut[t])

\* ResetChannelWriteFenceToPreCutover; `late`: NowMS is past the fence deadline.
ResetFence(t, to, late, tg, rg) ==
  LET T  == tasks[t]
      g  == Guard(meta, rg)
      tr == /\ FencePhaseAllowed(T)            \* requireChannelMigrationResetFenceTransition
            /\ IF LTishReset(T) THEN to \in {"ProbeTarget", "WriteFence"}
               ELSE T.kind = "RR" /\ to = "WarmCatchUp"
      ok == /\ Guarded(T, tg, g) /\ tr /\ late
            /\ OwnFence(t, T, meta, g.fver) /\ MatchFence(meta, g.ftok, g.fver)
      nT == Mutated([ClearTaskFenceProof(T) EXCEPT !.status = "running", !.phase = to])
      e  == [a |-> "ResetFence", t |-> t, to |-> to, late |-> late, tg |-> tg, rg |-> rg, g |-> g]
  IN /\ UNCHANGED cfg
     /\ Done(e, t, ok, nT, ClearMetaFence(meta), cut[t])

\* CommitChannelLeaderTransfer; `late`: NowMS past the fence deadline; nle: epoch increment.
Commit(t, late, nle, tg, rg) ==
  LET T  == tasks[t]
      g  == Guard(meta, rg)
      dl == CallerDesired(T)
      tr == T.phase = "CommitLeaderMeta" /\ (IsLT(T) \/ (T.kind = "RR" /\ T.emb))
      ok == /\ Guarded(T, tg, g) /\ tr /\ ~late
            /\ MatchFence(meta, g.ftok, g.fver) /\ OwnFence(t, T, meta, g.fver)
            /\ ProofCurrent(T, meta, g.fver)
            /\ dl = DbDesired(T) /\ dl \in meta.isr /\ nle > 0
      nT == Mutated([T EXCEPT !.status = "running", !.phase = "VerifyNewLeader"])
      nM == [meta EXCEPT !.leader = dl, !.le = meta.le + nle]
      e  == [a |-> "Commit", t |-> t, late |-> late, nle |-> nle, tg |-> tg, rg |-> rg, g |-> g]
  IN /\ UNCHANGED cfg
     /\ Done(e, t, ok, nT, nM, IF ok THEN (IF IsLT(T) THEN "committed" ELSE "embedded") ELSE cut[t])

\* AddChannelLearner (TargetNode = task target).
SrcRemovable(T, M) == ~(T.src \notin M.isr /\ Cardinality(M.isr) < M.minisr)
AddLearner(t, tg, rg) ==
  LET T  == tasks[t]
      g  == Guard(meta, rg)
      ok == /\ Guarded(T, tg, g)
            /\ T.kind = "RR" /\ T.phase = "AddLearner"
            /\ meta.leader # T.src /\ T.src \in meta.rep /\ SrcRemovable(T, meta)
            /\ T.tgt \notin meta.rep /\ T.tgt \notin meta.isr
      nT == Mutated([T EXCEPT !.status = "running", !.phase = "Bootstrap"])
      nM == [meta EXCEPT !.rep = meta.rep \cup {T.tgt}, !.ce = meta.ce + 1]
      e  == [a |-> "AddLearner", t |-> t, tg |-> tg, rg |-> rg, g |-> g]
  IN /\ UNCHANGED cfg
     /\ Done(e, t, ok, nT, nM, cut[t])

\* PromoteLearnerAndRemoveReplica (source / target = the task's).
Promote(t, late, tg, rg) ==
  LET T  == tasks[t]
      g  == Guard(meta, rg)
      ok == /\ Guarded(T, tg, g)
            /\ T.kind = "RR" /\ T.phase = "PromoteAndRemove" /\ ~late
            /\ MatchFence(meta, g.ftok, g.fver) /\ OwnFence(t, T, meta, g.fver)
            /\ ProofCurrent(T, meta, g.fver)
            /\ T.src # T.tgt /\ meta.leader # T.src /\ T.src \in meta.rep /\ T.tgt \in meta.rep
            /\ SrcRemovable(T, meta) /\ T.tgt \notin meta.isr
      nT == Mutated([T EXCEPT !.status = "running", !.phase = "VerifyMembership"])
      nM == [meta EXCEPT !.rep = (meta.rep \ {T.src}) \cup {T.tgt},
                         !.isr = (meta.isr \ {T.src}) \cup {T.tgt},
                         !.ce = meta.ce + 1]
      e  == [a |-> "Promote", t |-> t, late |-> late, tg |-> tg, rg |-> rg, g |-> g]
  IN /\ UNCHANGED cfg
     /\ Done(e, t, ok, nT, nM, IF ok THEN "promoted" ELSE cut[t])

\* ClearChannelWriteFence with the transition migrationClearFenceTransition chooses:
\* an embedded transfer hands over to the replica replacement, anything else completes.
ClearFence(t, tg, rg) ==
  LET T   == tasks[t]
      g   == Guard(meta, rg)
      hand == T.kind = "RR" /\ T.emb /\ T.phase = "VerifyNewLeader"
      tr  == /\ FencePhaseAllowed(T)           \* requireChannelMigrationClearFenceTransition
             /\ IF hand THEN TRUE
                ELSE IF IsLT(T) THEN T.phase = "VerifyNewLeader" \/ (Terminal(T) /\ T.phase = "ClearFence")
                ELSE T.phase = "VerifyMembership" \/ (Terminal(T) /\ T.phase = "ClearFence")
      ok  == /\ Guarded(T, tg, g) /\ tr
             /\ OwnFence(t, T, meta, g.fver) /\ MatchFence(meta, g.ftok, g.fver)
      nT  == Mutated(IF hand
                       THEN [ClearTaskFenceProof(T) EXCEPT !.status = "running", !.phase = "AddLearner",
                                                            !.emb = FALSE, !.embd = 0]
                       ELSE [ClearTaskFenceProof(T) EXCEPT !.status = "completed", !.phase = "ClearFence"])
      e   == [a |-> "ClearFence", t |-> t, tg |-> tg, rg |-> rg, g |-> g]
  IN /\ UNCHANGED cfg
     /\ Done(e, t, ok, nT, ClearMetaFence(meta), IF ok /\ hand THEN "none" ELSE cut[t])

\* AbortChannelMigration (Phase kept, as MigrationStore.Abort issues it).
Abort(t, tg, rg) ==
  LET T   == tasks[t]
      g   == Guard(meta, rg)
      tr  == IF IsLT(T) THEN T.phase \in LTAbortPhases   \* requireChannelMigrationAbortTransition
             ELSE IF T.emb /\ T.phase \in LTPhases THEN T.phase \in LTAbortPhases
             ELSE T.phase \in RRAbortPhases
      fen == IF meta.ftok # ""
               THEN OwnFence(t, T, meta, g.fver) /\ MatchFence(meta, g.ftok, g.fver)
               ELSE ~HasFence(T)
      ok  == Guarded(T, tg, g) /\ tr /\ fen
      m1  == IF meta.ftok # "" THEN ClearMetaFence(meta) ELSE meta
      rm  == T.kind = "RR" /\ T.phase \in UnpromotedPhases /\ T.tgt \in m1.rep /\ T.tgt \notin m1.isr
      nM  == IF rm THEN [m1 EXCEPT !.rep = m1.rep \ {T.tgt}, !.ce = m1.ce + 1] ELSE m1
      nT  == Mutated([ClearTaskFenceProof(T) EXCEPT !.status = "aborted"])
      e   == [a |-> "Abort", t |-> t, tg |-> tg, rg |-> rg, g |-> g]
  IN /\ UNCHANGED cfg
     /\ Done(e, t, ok, nT, nM, cut[t])

\* GarbageCollectTerminalChannelMigrationTasks: the first `lim` terminal tasks (primary
\* key order) completed before the cutoff are deleted; `old` = the cutoff is after every
\* completion time (otherwise before all of them).  The reply carries the count.
TaskSeq == SelectSeq(<<"t1", "t2">>, LAMBDA t : t \in Tasks)
GC(lim, old) ==
  LET term == IF old THEN SelectSeq(TaskSeq, LAMBDA t : Terminal(tasks[t])) ELSE <<>>
      n    == IF Len(term) < lim THEN Len(term) ELSE lim
      gone == {term[i] : i \in 1..n}
  IN /\ tasks' = [t \in Tasks |-> IF t \in gone THEN AbsentT ELSE tasks[t]]
     /\ cut' = [t \in Tasks |-> IF t \in gone THEN "none" ELSE cut[t]]
     /\ UNCHANGED <<meta, active, cfg>>
     /\ ev' = [a |-> "GC", lim |-> lim, old |-> old, res |-> [r |-> "ok", n |-> n]]

\* A runtime-meta upsert from outside the migration (UpsertChannelRuntimeMeta command):
\* a leader-epoch bump by the same leader ("le") or by a new leader n ("ld1", "ld2", ...),
\* a channel-epoch bump ("ce"), or a row with a newer write fence of somebody else
\* ("fence", token "x").  The monotonic resolver (property C15) applies each of them; the
\* fence fields of the others are zero and are preserved.
LdKinds == [ld1 |-> 1, ld2 |-> 2, ld3 |-> 3, ld4 |-> 4]
IsLd(k) == k \in DOMAIN LdKinds
ExtMeta(M, k) ==
  CASE k = "le" -> [M EXCEPT !.le = M.le + 1]
    [] k = "ce" -> [M EXCEPT !.ce = M.ce + 1]
    [] k = "fence" -> [M EXCEPT !.ftok = "x", !.fver = M.fver + 1]
    [] OTHER -> [M EXCEPT !.le = M.le + 1, !.leader = LdKinds[k]]
ExtOK(M, k) == IsLd(k) => LdKinds[k] \in M.isr /\ LdKinds[k] # M.leader
Ext(k) ==
  LET nM == ExtMeta(meta, k)
  IN /\ ExtOK(meta, k)
     /\ meta' = nM
     /\ UNCHANGED <<tasks, active, cut, cfg>>
     /\ ev' = [a |-> "Ext", k |-> k, m |-> EvMeta(nM), res |-> [r |-> "ok"]]

-------------------------------------------------------------------------------
\* Two commands in one apply batch (stateMachine.ApplyBatch with two entries, as Raft
\* delivers the proposals of two racing planners).  Batch commands are the creates
\* (plain / guarded), a runtime-meta upsert from outside (at most one per batch) and
\* "Other": the unguarded create of a task for ANOTHER channel of the same hash slot
\* (always the same row, so its reply is "ok" whatever came before).  Both commands were
\* built by proposers that read the state BEFORE the batch: the runtime guards (g) and
\* the upserted row refer to the pre-batch meta row.  Batches that contain Claim /
\* Advance / ... / GC are outside the domain: the commit-time index maintenance reads
\* the committed database instead of the batch (known finding
\* channel-migration-multi-command-batch of C13); create batches do not depend on it
\* BECAUSE of the stage-time reservation transcribed below (C17_BatchAsSequence).
\*
\* What the code does (pkg/slot/fsm/statemachine.go ApplyBatch, pkg/db/meta/compat.go
\* WriteBatch.CreateChannelMigrationTask[WithRuntimeGuard], batch.go Batch.Commit):
\*   stage, command by command, on one WriteBatch:
\*     guarded create: its guard operation is queued first, unconditionally; then
\*     create: a task id already staged in this batch (WriteBatch.migrationCreates, same
\*       row) -> reply ok, nothing queued; else the channel's active-index key already
\*       reserved in this batch (Batch.migrationActive) -> ErrAlreadyExists, reply stale,
\*       nothing queued, the batch goes on; else reserve the key, queue the create;
\*     upsert: queued;
\*   commit: the queued operations run in order over the batch overlay of task rows and
\*     meta rows (batchCommitState.loadChannelMigrationTask / loadRuntimeMeta), but
\*     ensureChannelMigrationActiveAvailable reads the COMMITTED index entry and row;
\*     any ErrConflict / ErrNotFound / ErrAlreadyExists fails the whole batch, nothing is
\*     written, and ApplyBatch applies every command again as a one-command batch
\*     (applyCommandsIndividuallyAfterStaleCommit); otherwise the staged replies stand.
BCreate(t, rg) == [a |-> "Create", t |-> t, rg |-> rg, k |-> ""]
BExt(k)        == [a |-> "Ext", t |-> "", rg |-> "", k |-> k]
BOther         == [a |-> "Other", t |-> "", rg |-> "", k |-> ""]
\* the command as proposed against meta row M (its guard; uniform shape)
Proposed(c, M) == c @@ [g |-> Guard(M, IF c.a = "Create" /\ c.rg # "none" THEN c.rg ELSE "ok")]

\* one command (with its guard) as a one-command apply batch on S
One(S, c) ==
  CASE c.a = "Create" -> CreateOn(S, c.t, c.rg, c.g)
    [] c.a = "Ext"    -> [st |-> [S EXCEPT !.meta = ExtMeta(S.meta, c.k)], r |-> "ok"]
    [] OTHER          -> [st |-> S, r |-> "ok"]
SeqOut(S, c1, c2) ==
  LET o1 == One(S, c1)
      o2 == One(o1.st, c2)
  IN [st |-> o2.st, rs |-> <<o1.r, o2.r>>]

\* staging: bs = [resv: the channel's active-index key is reserved, staged: task ids with
\* a queued create, ops: queued operations, rs: replies so far]
StageOne(bs, c) ==
  LET gops == IF c.a = "Create" /\ c.rg # "none"
                THEN Append(bs.ops, [op |-> "guard", t |-> c.t, g |-> c.g, k |-> ""]) ELSE bs.ops
  IN CASE c.a = "Create" ->
            IF c.t \in bs.staged THEN [bs EXCEPT !.ops = gops, !.rs = Append(@, "ok")]
            ELSE IF bs.resv /\ Active(Row(cfg.tmpl[c.t])) THEN [bs EXCEPT !.ops = gops, !.rs = Append(@, "stale")]
            ELSE [resv |-> bs.resv \/ Active(Row(cfg.tmpl[c.t])), staged |-> bs.staged \cup {c.t},
                  ops |-> Append(gops, [op |-> "create", t |-> c.t, g |-> c.g, k |-> ""]),
                  rs |-> Append(bs.rs, "ok")]
       [] c.a = "Ext" -> [bs EXCEPT !.ops = Append(@, [op |-> "ext", t |-> "", g |-> c.g, k |-> c.k]),
                                    !.rs = Append(@, "ok")]
       [] OTHER -> [bs EXCEPT !.rs = Append(@, "ok")]    \* touches nothing of this channel
\* one queued operation at commit: O = [st: overlay, ok: no error so far], S0 = committed
CommitOp(O, S0, op) ==
  IF ~O.ok THEN O
  ELSE CASE op.op = "guard" ->
              LET T == O.st.tasks[op.t] IN
              IF T.present THEN [O EXCEPT !.ok = T.pristine]
              ELSE [O EXCEPT !.ok = GuardMatches(O.st.meta, op.g)]
         [] op.op = "create" ->
              LET T    == O.st.tasks[op.t]
                  nT   == Row(cfg.tmpl[op.t])
                  busy == /\ Active(nT) /\ S0.active \notin {"", op.t}
                          /\ S0.tasks[S0.active].present /\ Active(S0.tasks[S0.active])
              IN IF T.present THEN [O EXCEPT !.ok = T.pristine]
                 ELSE IF busy THEN [O EXCEPT !.ok = FALSE]
                 ELSE [O EXCEPT !.st.tasks[op.t] = nT, !.st.cut[op.t] = "none",
                                !.st.active = IF Active(nT) THEN op.t ELSE @]
         [] OTHER -> [O EXCEPT !.st.meta = ExtMeta(@, op.k)]
BatchOut(S, c1, c2) ==
  LET bs == StageOne(StageOne([resv |-> FALSE, staged |-> {}, ops |-> <<>>, rs |-> <<>>], c1), c2)
      O  == FoldLeft(LAMBDA o, op : CommitOp(o, S, op), [st |-> S, ok |-> TRUE], bs.ops)
  IN IF O.ok THEN [st |-> O.st, rs |-> bs.rs] ELSE SeqOut(S, c1, c2)

Batch2(c1, c2) ==
  LET p1 == Proposed(c1, meta)
      p2 == Proposed(c2, meta)
      o  == BatchOut(St, p1, p2)
  IN /\ \A c \in {c1, c2} : c.a = "Ext" => ExtOK(meta, c.k)
     /\ UNCHANGED cfg
     /\ tasks' = o.st.tasks /\ active' = o.st.active /\ meta' = o.st.meta /\ cut' = o.st.cut
     /\ ev' = [a |-> "Batch2", cs |-> <<p1, p2>>,
               res |-> [r |-> IF "ok" \in {o.rs[1], o.rs[2]} THEN "ok" ELSE "stale", rs |-> o.rs]]

-------------------------------------------------------------------------------
\* Argument domains of Next.

Stale(x) == x - 1
MkProof(M, S) ==
  [fv |-> IF "fv" \in S THEN Stale(M.fver) ELSE M.fver,
   ce |-> IF "ce" \in S THEN Stale(M.ce) ELSE M.ce,
   le |-> IF "le" \in S THEN Stale(M.le) ELSE M.le,
   ld |-> IF "ld" \in S THEN (IF M.leader = 1 THEN 2 ELSE 1) ELSE M.leader]
Proofs == {NoProof} \cup {MkProof(meta, S) : S \in ProofStales}

\* The executor's workflow (migration_leader_transfer.go, migration_replica_replace.go):
\* <<to-phase, status, proof allowed, embedded desired leader>> for a task row.
Workflow(T) ==
  LET lt == LTishSet(T)
      run == CASE lt /\ T.phase = "Validate"         -> {<<"ProbeTarget", FALSE, 0>>}
               [] lt /\ T.phase = "ProbeTarget"      -> {<<"WriteFence", FALSE, 0>>}
               [] lt /\ T.phase = "DrainLeader"      -> {<<"FinalCatchUp", TRUE, 0>>, <<"CommitLeaderMeta", TRUE, 0>>}
               [] lt /\ T.phase = "FinalCatchUp"     -> {<<"FinalCatchUp", TRUE, 0>>, <<"CommitLeaderMeta", TRUE, 0>>}
               [] lt /\ T.phase = "CommitLeaderMeta" -> {<<"FinalCatchUp", FALSE, 0>>}
               [] ~lt /\ T.phase = "Validate"        -> {<<"AddLearner", FALSE, 0>>}
                                                          \cup {<<"ProbeTarget", FALSE, d>> : d \in (meta.isr \ {meta.leader})}
               [] ~lt /\ T.phase = "Bootstrap"       -> {<<"WarmCatchUp", FALSE, 0>>}
               [] ~lt /\ T.phase = "CutoverFence"    -> {<<"FinalCatchUp", TRUE, 0>>}
               [] ~lt /\ T.phase = "FinalCatchUp"    -> {<<"FinalCatchUp", TRUE, 0>>, <<"PromoteAndRemove", TRUE, 0>>}
               [] ~lt /\ T.phase = "PromoteAndRemove" -> {<<"FinalCatchUp", FALSE, 0>>}
               [] OTHER -> {}
  IN {<<w[1], "running", w[2], w[3]>> : w \in run}
       \cup (IF T.status = "blocked" THEN {<<T.phase, "running", FALSE, 0>>}
             ELSE IF "blocked" \in WfExtra THEN {<<T.phase, "blocked", FALSE, 0>>} ELSE {})
       \cup (IF "failed" \in WfExtra THEN {<<T.phase, "failed", FALSE, 0>>} ELSE {})

Bound == meta.ce <= MaxCE /\ meta.le <= MaxLE /\ meta.fver <= MaxFver

ResetTargets(T) == IF LTishReset(T) THEN {"ProbeTarget", "WriteFence"} ELSE {"WarmCatchUp"}
PreCutover(T)   == T.phase \notin PostCutoverPhases

\* Guard / timing variants of one command: everything fresh, or exactly one deviation
\* (a stale task guard, one stale runtime-guard field, a passed fence deadline, no epoch
\* increment).  Deviations only ever turn an accepted command into a rejected one, so
\* their combinations add nothing but rejected self-loops.
Variants == {<<"ok", "ok", FALSE, 1>>, <<"ok", "ok", TRUE, 1>>, <<"ok", "ok", FALSE, 0>>}
              \cup {<<tg, "ok", FALSE, 1>> : tg \in TGs} \cup {<<"ok", rg, FALSE, 1>> : rg \in RGs}
GVariants == {v \in Variants : ~v[3] /\ v[4] = 1}      \* commands without deadline / epoch
LVariants == {v \in Variants : v[4] = 1}               \* commands with a deadline

NxCreate     == \E t \in Tasks, rg \in RGs \cup {"none"} : Create(t, rg)
NxClaim      == \E t \in Tasks, o \in Owners, exp \in BOOLEAN, tg \in TGs :
                  tasks[t].present /\ Claim(t, o, exp, tg)
NxAdvance    == \E t \in Tasks, tg \in TGs :
                  /\ Active(tasks[t])
                  /\ \E w \in Workflow(tasks[t]) :
                       \E p \in (IF w[3] THEN Proofs ELSE {NoProof}) : Advance(t, w[1], w[2], p, w[4], tg)
NxSetFence   == \E t \in Tasks, v \in GVariants : tasks[t].present /\ SetFence(t, v[1], v[2]) /\ Bound'
NxResetFence == \E t \in Tasks, v \in LVariants :
                  /\ tasks[t].present /\ (LateReset \/ PreCutover(tasks[t]))
                  /\ \E to \in ResetTargets(tasks[t]) : ResetFence(t, to, ~v[3], v[1], v[2]) /\ Bound'
NxCommit     == \E t \in Tasks, v \in Variants : tasks[t].present /\ Commit(t, v[3], v[4], v[1], v[2]) /\ Bound'
NxAddLearner == \E t \in Tasks, v \in GVariants : tasks[t].present /\ AddLearner(t, v[1], v[2]) /\ Bound'
NxPromote    == \E t \in Tasks, v \in LVariants : tasks[t].present /\ Promote(t, v[3], v[1], v[2]) /\ Bound'
NxClearFence == \E t \in Tasks, v \in GVariants : tasks[t].present /\ ClearFence(t, v[1], v[2]) /\ Bound'
NxAbort      == \E t \in Tasks, v \in GVariants : tasks[t].present /\ Abort(t, v[1], v[2]) /\ Bound'
NxGC         == \E lim \in 1..Cardinality(Tasks), old \in BOOLEAN : GC(lim, old)
NxExt        == \E k \in Exts : Ext(k) /\ Bound'
\* two-command batches: at least one create, at most one upsert from outside
BCmds        == {BCreate(t, rg) : t \in Tasks, rg \in BatchRGs} \cup {BExt(k) : k \in Exts} \cup {BOther}
BatchShape(c1, c2) == "Create" \in {c1.a, c2.a} /\ ~(c1.a = "Ext" /\ c2.a = "Ext")
NxBatch2     == \E c1, c2 \in BCmds : BatchShape(c1, c2) /\ Batch2(c1, c2) /\ Bound'

Next ==
  \/ NxCreate \/ NxClaim \/ NxAdvance \/ NxSetFence \/ NxResetFence \/ NxCommit
  \/ NxAddLearner \/ NxPromote \/ NxClearFence \/ NxAbort \/ NxGC \/ NxExt \/ NxBatch2

Spec == Init /\ [][Next]_vars

\* Observable projection: the runtime meta row, every task row, and the task
\* GetActiveChannelMigrationTask reports.
ProjT(T) == [present |-> T.present, kind |-> T.kind, status |-> T.status, phase |-> T.phase,
             owner |-> T.owner, ftok |-> T.ftok, fver |-> T.fver, proof |-> T.proof,
             emb |-> T.emb, embd |-> T.embd]
ActiveSeen == IF active # "" /\ tasks[active].present /\ Active(tasks[active]) THEN active ELSE ""
Proj == [meta |-> EvMeta(meta), tasks |-> [t \in Tasks |-> ProjT(tasks[t])], active |-> ActiveSeen]

-------------------------------------------------------------------------------
\* Property C17 on the design.

TypeOK ==
  /\ \A t \in Tasks : ~tasks[t].present => tasks[t] = AbsentT
  /\ active \in Tasks \cup {""}

\* Every accepted step leaves the channel metadata valid.
C17_MetaValid ==
  /\ meta.leader \in meta.isr
  /\ meta.isr \subseteq meta.rep
  /\ meta.minisr >= 1 /\ meta.minisr <= Cardinality(meta.isr)

\* At most one migration task is active per channel, and the index names it.
C17_OneActive ==
  /\ Cardinality({t \in Tasks : Active(tasks[t])}) <= 1
  /\ \A t \in Tasks : Active(tasks[t]) => active = t

\* A committed or promoted task is never aborted afterwards.
C17_Irreversible ==
  \A t \in Tasks : cut[t] \in {"committed", "promoted", "embedded"} => tasks[t].status # "aborted"

\* A transfer / promotion commits only with a drain proof equal to the channel's
\* current (fence version, channel epoch, leader epoch, leader), under its own fence.
Accepted == ev'.res.r = "ok"
C17_ProofCurrent ==
  [][(ev'.a \in {"Commit", "Promote"} /\ Accepted) =>
        /\ tasks[ev'.t].proof = [fv |-> meta.fver, ce |-> meta.ce, le |-> meta.le, ld |-> meta.leader]
        /\ meta.ftok = ev'.t /\ tasks[ev'.t].ftok = ev'.t /\ tasks[ev'.t].fver = meta.fver]_vars

\* the step is, or carries, a runtime-meta upsert from outside the migration
HasExt(e) == e.a = "Ext" \/ (e.a = "Batch2" /\ \E i \in 1..2 : e.cs[i].a = "Ext")

\* Membership and leadership move only by the commands that are meant to move them.
C17_CutoverOnlyByCommit ==
  [][ev'.a # "Init" =>
       /\ (meta'.leader # meta.leader => ev'.a = "Commit" \/ HasExt(ev'))
       /\ (meta'.isr # meta.isr => ev'.a = "Promote")
       /\ (meta'.rep # meta.rep => ev'.a \in {"AddLearner", "Promote", "Abort"})]_vars

\* No command overwrites or clears a fence whose token belongs to another task.
C17_FenceOwner ==
  [][(ev'.a # "Init" /\ ~HasExt(ev') /\ (meta'.ftok # meta.ftok \/ meta'.fver # meta.fver)) =>
        /\ ev'.a \in {"SetFence", "ResetFence", "ClearFence", "Abort"}
        /\ meta.ftok \in {"", ev'.t}
        /\ meta'.ftok \in {"", ev'.t}
        /\ meta'.fver = meta.fver + 1]_vars

\* A rejected command changes nothing.
C17_RejectedUnchanged ==
  [][(ev'.a # "Init" /\ ev'.res.r = "stale") => (meta' = meta /\ tasks' = tasks /\ active' = active)]_vars

\* A two-command batch of the modelled shapes ends exactly where the same two commands,
\* applied one after the other as one-command batches, end, reply by reply.  (Model lemma:
\* it is what keeps Batch2 clear of the known batch-transparency finding of C13, and it
\* rests on the stage-time reservation: without `resv` in StageOne two creates for
\* different task ids would both commit and C17_OneActive would fail.)
C17_BatchAsSequence ==
  [][ev'.a = "Batch2" =>
       LET s == SeqOut(St, ev'.cs[1], ev'.cs[2])
       IN meta' = s.st.meta /\ tasks' = s.st.tasks /\ active' = s.st.active /\ cut' = s.st.cut
          /\ ev'.res.rs = s.rs]_vars

\* An abort is accepted only before the cutover.
C17_AbortOnlyBeforeCutover ==
  [][(ev'.a = "Abort" /\ Accepted) =>
        /\ tasks[ev'.t].phase \notin PostCutoverPhases
        /\ tasks'[ev'.t].status = "aborted" /\ ~HasFence(tasks'[ev'.t])
        /\ (meta.ftok # "" => meta.ftok = ev'.t /\ meta'.ftok = "")]_vars

View == <<meta, tasks, active, cut, cfg>>

-------------------------------------------------------------------------------
\* Domains used by the configurations (records cannot be written in a .cfg).
LT12 == [kind |-> "LT", src |-> 1, tgt |-> 2, desired |-> 2, status |-> "pending", phase |-> "Validate"]
RR34 == [kind |-> "RR", src |-> 3, tgt |-> 4, desired |-> 0, status |-> "pending", phase |-> "Validate"]
RR14 == [kind |-> "RR", src |-> 1, tgt |-> 4, desired |-> 0, status |-> "pending", phase |-> "Validate"]
\* a task row created mid-flight (restore / backfill): post-cutover phase, no fence of its own
LTv  == [kind |-> "LT", src |-> 1, tgt |-> 2, desired |-> 2, status |-> "running", phase |-> "VerifyNewLeader"]

M3 == [ce |-> 10, le |-> 20, leader |-> 1, rep |-> {1, 2, 3}, isr |-> {1, 2, 3}, minisr |-> 2, ftok |-> "", fver |-> 3]
M2 == [ce |-> 10, le |-> 20, leader |-> 1, rep |-> {1, 2, 3}, isr |-> {1, 2},    minisr |-> 2, ftok |-> "", fver |-> 3]
M13 == [ce |-> 10, le |-> 20, leader |-> 1, rep |-> {1, 2, 3}, isr |-> {1, 3},   minisr |-> 2, ftok |-> "", fver |-> 3]

Tm(a, b) == [t \in Tasks |-> IF t = "t1" THEN a ELSE b]
CfgsQuick    == {[tmpl |-> Tm(LT12, RR34), meta |-> M3]}
CfgsEmbedded == {[tmpl |-> Tm(RR14, LTv), meta |-> M2]}
CfgsSim      == {[tmpl |-> Tm(a, b), meta |-> m] : a \in {LT12, RR34, RR14}, b \in {LT12, RR34, RR14, LTv}, m \in {M3, M2, M13}}

StalesFresh    == {{}}
StalesQuick3   == {{}, {"fv"}, {"le"}}
StalesQuick    == {{}, {"fv"}, {"ce"}, {"le"}, {"ld"}}
StalesMid      == StalesQuick \cup {{"fv", "ce", "le", "ld"}}
StalesThorough == SUBSET {"fv", "ce", "le", "ld"}
===============================================================================

\* leader transfer (t1) + replica replacement (t2); measured: 28,108 distinct states, 2,694,476 transitions,
\* ~2.5 min at machine load 40 (6-8 workers); every Nx action non-zero under -coverage 1
SPECIFICATION Spec
CONSTANTS
  Tasks = {"t1", "t2"}
  Owners = {1}
  Cfgs <- CfgsQuick
  ProofStales <- StalesQuick
  RGs = {"ok", "le", "fver"}
  TGs = {"ok", "stale"}
  Exts = {"le", "fence"}
  WfExtra = {}
  MaxCE = 12
  MaxLE = 21
  MaxFver = 5
  LateReset = FALSE
VIEW View
INVARIANTS TypeOK C17_MetaValid C17_OneActive C17_Irreversible
PROPERTIES C17_ProofCurrent C17_CutoverOnlyByCommit C17_FenceOwner C17_RejectedUnchanged C17_AbortOnlyBeforeCutover
CHECK_DEADLOCK FALSE

\* leader transfer (t1) + replica replacement (t2), two-command batches (NxBatch2) included;
\* measured: 20,752 distinct states, 2,518,216 transitions, 1.5 min at machine load 20 (4 workers).
\* (With ProofStales <- StalesQuick: 28,108 distinct states with and without NxBatch2 - a batch
\* reaches nothing two one-command steps do not reach - and 3,513,004 / 2,694,476 transitions.)
SPECIFICATION Spec
CONSTANTS
  Tasks = {"t1", "t2"}
  Owners = {1}
  Cfgs <- CfgsQuick
  ProofStales <- StalesQuick3
  RGs = {"ok", "le", "fver"}
  TGs = {"ok", "stale"}
  Exts = {"le", "fence"}
  WfExtra = {}
  BatchRGs = {"none", "le"}
  MaxCE = 12
  MaxLE = 21
  MaxFver = 5
  LateReset = FALSE
VIEW View
INVARIANTS TypeOK C17_MetaValid C17_OneActive C17_Irreversible
PROPERTIES C17_ProofCurrent C17_CutoverOnlyByCommit C17_FenceOwner C17_RejectedUnchanged C17_AbortOnlyBeforeCutover C17_BatchAsSequence
CHECK_DEADLOCK FALSE

\* Not part of the check: shows the known deviation C17:reset-fence-after-cutover-reopens-abort.
\* With LateReset = TRUE Next also issues ResetChannelWriteFenceToPreCutover in the fence
\* phases AFTER the cutover (which the real command accepts); C17_Irreversible then fails
\* (9-step counterexample: create, claim, advance x2, set fence, advance with proof, commit,
\* late reset, abort).
SPECIFICATION Spec
CONSTANTS
  Tasks = {"t1", "t2"}
  Owners = {1}
  Cfgs <- CfgsQuick
  ProofStales <- StalesFresh
  RGs = {"ok"}
  TGs = {"ok"}
  Exts = {}
  WfExtra = {}
  BatchRGs = {"none"}
  MaxCE = 12
  MaxLE = 22
  MaxFver = 6
  LateReset = TRUE
VIEW View
INVARIANTS C17_Irreversible
CHECK_DEADLOCK FALSE

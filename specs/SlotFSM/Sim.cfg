INIT SimInit
NEXT SimNext
CONSTANTS
  Lens = {4, 5, 6}
  Kinds = {"A", "S", "U", "M"}
  MaxOdd = 2
  MaxBatch = 4
  MaxSnaps = 3
  Depth = 12
INVARIANT Emit
CHECK_DEADLOCK FALSE

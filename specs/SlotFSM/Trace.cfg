SPECIFICATION TraceSpec
CONSTANTS
  Lens = {1}
  Kinds = {"A", "S", "U", "M"}
  MaxOdd = 1000000
  MaxBatch = 1000000
  MaxSnaps = 1000000
CONSTRAINT Track
INVARIANTS Conform
PROPERTIES C13_RefusedNoEffect C13_RefusedUnchanged
POSTCONDITION Accepted
CHECK_DEADLOCK FALSE

\* measured: 189,698 distinct / 2,602,086 generated states, depth 13
SPECIFICATION Spec
CONSTANTS
  Lens = {4, 5}
  Kinds = {"A", "S", "U", "M"}
  MaxOdd = 5
  MaxBatch = 4
  MaxSnaps = 2
VIEW View
INVARIANTS TypeOK C13_Deterministic C13_DurableSafe C13_SnapshotExact
PROPERTIES C13_RefusedNoEffect C13_RefusedUnchanged
CHECK_DEADLOCK FALSE

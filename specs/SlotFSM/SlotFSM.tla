------------------------------- MODULE SlotFSM -------------------------------
(* Slot metadata state machine (pkg/slot/fsm/statemachine.go over pkg/db/meta) as one
   replica sees it: a committed command log is fed to the state machine in apply
   batches by the Raft runtime, the replica may restart (and replay the log from the
   durable applied index) and may be restored from a snapshot taken at any applied
   index.

   The commands themselves are NOT transcribed (that would be a second
   implementation).  A command is one of four kinds:
     "A"  accepted by ApplyBatch (it may or may not change metadata),
     "S"  accepted, never changes metadata, and the code may leave the durable
          applied index behind it (a stale conditional mutation whose commit is
          refused: `ApplyResultStaleMeta` without a commit),
     "U"  addressed to a hash slot this slot does not own  -> ApplyBatch fails,
     "M"  malformed payload                                 -> ApplyBatch fails.
   An "A" command may also be a forwarded hash-slot-migration delta (ApplyDelta for an
   owned hash slot h) that wraps a multi-item batch command whose items span h and
   other hash slots: only the items of h belong to its effect.  Hash slots the slot
   does not own are outside the abstract metadata altogether: no action of this
   module writes there, and the harness checks directly, after every command of the
   one-at-a-time run (accepted or refused), that their exported content is unchanged
   (an empty one and one that holds another slot's rows).
   The abstract metadata is the sequence `hist` of "A" log indexes whose effect it
   contains; the real metadata is compared with the one-at-a-time run of the same
   log by the conformance harness (differential oracle), which maps `pos` to the
   reference metadata after `pos` log entries.

   One action per call the Raft runtime makes on the state machine:
     ApplyBatch  stateMachine.ApplyBatch(cmds[pos+1 .. pos+k])   (one WriteBatch, one commit)
     Skip        the runtime drops a log entry the state machine refused
     RestartTo   process restart: new state machine on the same database, replay
                 from the durable applied index (crash) or from pos (clean stop)
     Snapshot    stateMachine.Snapshot at the applied index pos
     Restore     stateMachine.Restore(snapshot) on this or on an empty database     *)
EXTENDS Integers, Sequences, FiniteSets, SequencesExt

CONSTANTS
  Lens,      \* set of log lengths tried
  Kinds,     \* subset of {"A", "S", "U", "M"}
  MaxOdd,    \* at most this many non-"A" commands per log
  MaxBatch,  \* largest apply batch
  MaxSnaps   \* snapshots kept

VARIABLES
  cfg,       \* [kinds |-> <<...>>]  the log of this instance (kinds only)
  pos,       \* log entries consumed by the runtime (its applied index)
  durable,   \* applied index persisted atomically with the metadata
  hist,      \* abstract metadata: "A" indexes applied, in order of application
  snaps,     \* snapshots taken: set of [idx, hist]
  ev         \* last call and reply (observation only)

vars == <<cfg, pos, durable, hist, snaps, ev>>

N          == Len(cfg.kinds)
Refused(i) == cfg.kinds[i] \in {"U", "M"}
Eff(i)     == cfg.kinds[i] = "A"
MaxOf(S)   == CHOOSE x \in S : \A y \in S : y <= x

Logs == UNION {{ks \in [1..n -> Kinds] : Cardinality({i \in 1..n : ks[i] # "A"}) <= MaxOdd} : n \in Lens}

Init ==
  /\ cfg \in [kinds : Logs]
  /\ pos = 0
  /\ durable = 0
  /\ hist = <<>>
  /\ snaps = {}
  /\ ev = [a |-> "Init", cfg |-> cfg]

-------------------------------------------------------------------------------
\* ApplyBatch of the k entries after pos, the commit leaving the durable index at d.
\* A batch that contains a refused command fails as a whole: nothing is committed.
\* Otherwise every "A" entry takes effect once and the applied index is committed
\* with the batch; only trailing "S" entries may stay above the durable index (their
\* commit is refused and they are no-ops when replayed).
DurableChoices(k) ==
  LET B == (pos + 1)..(pos + k) IN MaxOf({durable} \cup {i \in B : Eff(i)})..(pos + k)

ApplyBatchD(k, d) ==
  /\ k \in 1..MaxBatch
  /\ pos + k <= N
  /\ LET B == (pos + 1)..(pos + k) IN
       IF \E i \in B : Refused(i)
         THEN /\ UNCHANGED <<pos, durable, hist>>
              /\ ev' = [a |-> "ApplyBatch", from |-> pos + 1, to |-> pos + k, res |-> [err |-> TRUE]]
         ELSE /\ d \in DurableChoices(k)
              /\ hist' = hist \o SetToSortSeq({i \in B : Eff(i)}, <)
              /\ pos' = pos + k
              /\ durable' = d
              /\ ev' = [a |-> "ApplyBatch", from |-> pos + 1, to |-> pos + k, res |-> [err |-> FALSE]]
  /\ UNCHANGED <<cfg, snaps>>

ApplyBatch(k) == \E d \in 0..N : ApplyBatchD(k, d)

\* The runtime gives up on a refused entry (the entry keeps its log index).
Skip ==
  /\ pos < N
  /\ Refused(pos + 1)
  /\ pos' = pos + 1
  /\ ev' = [a |-> "Skip", res |-> [err |-> FALSE]]
  /\ UNCHANGED <<cfg, durable, hist, snaps>>

\* Restart; the log is replayed from entry d + 1.  d = durable after a crash,
\* d = pos after a clean stop (the runtime's own applied mark was persisted).
RestartTo(d, mode) ==
  /\ pos' = d
  /\ durable' = IF mode = "crash" THEN d ELSE durable   \* (a no-op in Next; binds the observed index in traces)
  /\ ev' = [a |-> "Restart", d |-> d, mode |-> mode, res |-> [err |-> FALSE]]
  /\ UNCHANGED <<cfg, hist, snaps>>

Snapshot ==
  /\ pos > 0
  /\ Cardinality(snaps) < MaxSnaps
  /\ \A s \in snaps : s.idx # pos
  /\ snaps' = snaps \cup {[idx |-> pos, hist |-> hist]}
  /\ ev' = [a |-> "Snapshot", idx |-> pos, res |-> [err |-> FALSE]]
  /\ UNCHANGED <<cfg, pos, durable, hist>>

\* Restore replaces the metadata by the snapshot's and persists its index.
Restore(s, fresh) ==
  /\ s \in snaps
  /\ hist' = s.hist
  /\ pos' = s.idx
  /\ durable' = s.idx
  /\ ev' = [a |-> "Restore", idx |-> s.idx, fresh |-> fresh, res |-> [err |-> FALSE]]
  /\ UNCHANGED <<cfg, snaps>>

Next ==
  \/ \E k \in 1..MaxBatch : ApplyBatch(k)
  \/ Skip
  \/ RestartTo(durable, "crash")
  \/ RestartTo(pos, "clean")
  \/ Snapshot
  \/ \E s \in snaps, f \in BOOLEAN : Restore(s, f)

Spec == Init /\ [][Next]_vars

\* What the harness can ask the real replica for: the index j such that the exported
\* metadata equals the reference metadata after j entries.
Proj == [pos |-> pos]

-------------------------------------------------------------------------------
\* Property C13 on the design.

\* The metadata is a function of the consumed log prefix alone: every accepted
\* command up to pos took effect exactly once, in log order -- whatever the batch
\* partition, the restarts and the snapshot/restore steps were.
C13_Deterministic == hist = SetToSortSeq({i \in 1..pos : Eff(i)}, <)

\* Replay after a crash starts at durable + 1: nothing at or below the durable index
\* is applied again and nothing effective above it was applied before.
C13_DurableSafe == durable <= pos /\ \A i \in (durable + 1)..pos : ~Eff(i)

\* A snapshot taken at index i holds exactly the effect of the first i entries.
C13_SnapshotExact == \A s \in snaps : s.hist = SetToSortSeq({i \in 1..s.idx : Eff(i)}, <)

\* Unowned-hash-slot and malformed commands are refused without side effects.
C13_RefusedNoEffect ==
  [][(ev'.a = "ApplyBatch" /\ ev'.res.err) <=>
       (ev'.a = "ApplyBatch" /\ \E i \in ev'.from..ev'.to : Refused(i))]_vars
C13_RefusedUnchanged ==
  [][(ev'.a = "ApplyBatch" /\ ev'.res.err) => UNCHANGED <<pos, durable, hist, snaps>>]_vars

TypeOK == pos \in 0..N /\ durable \in 0..N

View == <<cfg, pos, durable, hist, snaps>>
===============================================================================

INIT SimInit
NEXT SimNext
CONSTANTS
  Reps = {"a", "b"}
  Lens = {3, 4, 5, 6}
  Kinds = {"V", "S", "C"}
  GroupFailsTogether = FALSE
  Depth = 26
INVARIANT Emit
CHECK_DEADLOCK FALSE

-------------------------------- MODULE Trace --------------------------------
(* Trace validation: the NDJSON file written by the harness' seeded driver (one step
   per line, traces concatenated, each starting with an "Init" line that carries the
   kinds of its log) must be a behaviour of SlotFSM.  Arguments are bound from the
   log; reply and position are then determined by the specification and compared in
   Conform.  The replay point of a restart is the durable index the real state
   machine reported (it is an input here, not an observation that is judged). *)
EXTENDS SlotFSM, Json, TLC
VARIABLE l

Log == ndJsonDeserialize("trace.ndjson")

TraceInit ==
  /\ l = 1
  /\ cfg = [kinds |-> <<"A">>]
  /\ pos = 0 /\ durable = 0 /\ hist = <<>> /\ snaps = {}
  /\ ev = [a |-> "Init", cfg |-> cfg]

Reset0 ==
  /\ cfg' = Log[l].ev.cfg
  /\ pos' = 0 /\ durable' = 0 /\ hist' = <<>> /\ snaps' = {}
  /\ ev' = Log[l].ev

Step(e) ==
  CASE e.a = "Init"       -> Reset0
    [] e.a = "ApplyBatch" -> e.from = pos + 1 /\ ApplyBatchD(e.to - pos, e.to)
    [] e.a = "Skip"       -> Skip
    [] e.a = "Restart"    -> e.d \in 0..N /\ RestartTo(e.d, e.mode)
    [] e.a = "Snapshot"   -> Snapshot
    [] e.a = "Restore"    -> \E s \in snaps : s.idx = e.idx /\ Restore(s, e.fresh)

TraceNext == l <= Len(Log) /\ l' = l + 1 /\ Step(Log[l].ev)

TraceSpec == TraceInit /\ [][TraceNext]_<<vars, l>>

Conform ==
  l > 1 /\ Log[l - 1].ev.a # "Init" =>
    /\ ev.res = Log[l - 1].ev.res
    /\ Proj = Log[l - 1].st

HW       == TLCSet(1, IF l > TLCGet(1) THEN l ELSE TLCGet(1))
Track    == HW
Accepted == TLCGet(1) = Len(Log) + 1
ASSUME TLCSet(1, 0)
===============================================================================

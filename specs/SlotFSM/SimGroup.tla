------------------------------- MODULE SimGroup -------------------------------
(* Behaviour generator for SlotGroup (`tlc -simulate`): one JSON behaviour per line
   ("BEH {...}").  A behaviour is a pair of slot logs (kinds) and a schedule in which
   replica "a" mostly lets both slots apply their next entries concurrently (ApplyPair; an
   ApplyOne now and then shifts which entries of the two logs meet) while replica "b" applies
   the same logs strictly one command at a time.  Run with GroupFailsTogether = FALSE: reply
   and projection after every step are then determined by the specification (the design).
   -simulate computes the initial states once, hence the `draw` quantifier around the random
   log construction. *)
EXTENDS SlotGroup, Json, TLC
CONSTANT Depth
VARIABLE steps

Pick(S)  == {RandomElement(S)}
W        == <<"V", "V", "V", "V", "S", "S", "C">>
K(i)     == W[RandomElement(1..Len(W))]
RandLog(d) == SubSeq(<<K(1), K(2), K(3), K(4), K(5), K(6)>>, 1, RandomElement(Lens))

SimInit ==
  /\ \E d \in 1..48 : cfg = [logs |-> <<RandLog(d), RandLog(d + 100)>>]
  /\ pos = [r \in Reps |-> <<0, 0>>]
  /\ durable = [r \in Reps |-> <<0, 0>>]
  /\ meta = [r \in Reps |-> << <<>>, <<>> >>]
  /\ ev = [a |-> "Init", cfg |-> cfg]
  /\ steps = << [ev |-> ev, st |-> Proj] >>

Can(r, s)  == pos[r][s] < NLog(s)
Busy(r)    == \E s \in Slots : Can(r, s)
AnyOne(r)  == \E s \in Pick({t \in Slots : Can(r, t)}) : ApplyOne(r, s)

SimStep ==
  \E d \in Pick(1..100) :
    LET r == IF ~Busy("a") THEN "b" ELSE IF ~Busy("b") THEN "a" ELSE IF d <= 55 THEN "a" ELSE "b" IN
    IF r = "a"
      THEN IF Can("a", 1) /\ Can("a", 2) /\ d % 5 # 0 THEN ApplyPair("a") ELSE AnyOne("a")
      ELSE AnyOne("b")

SimNext == (Busy("a") \/ Busy("b")) /\ SimStep /\ steps' = Append(steps, [ev |-> ev', st |-> Proj'])
Done    == ~Busy("a") /\ ~Busy("b")
Emit    == (Len(steps) = Depth + 1 \/ (Done /\ Len(steps) > 1)) => PrintT("BEH " \o ToJson([steps |-> steps]))
===============================================================================

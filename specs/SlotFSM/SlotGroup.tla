------------------------------ MODULE SlotGroup ------------------------------
(* Two slot state machines of ONE node over ONE metadata store (pkg/slot/fsm state machines
   created with fsm.NewStateMachineWithHashSlots(db, slot, hashSlots) for two Raft groups of the
   node, sharing the node's metadb).  Slot s owns hash slot set s; the two sets are disjoint, so
   a command of slot 1 and a command of slot 2 never touch the same row.  Each slot has its own
   committed command log; the Raft runtimes of the two groups call ApplyBatch independently, so
   the two slots may apply an entry each "at the same time".

   The specification's meaning (property C13: "applying the same committed command log yields
   identical metadata on every replica regardless of how the log is grouped into apply batches"):
   the outcome of a command -- its result and the metadata of its slot's hash slots -- is the
   outcome of the one-at-a-time run of that slot's log alone.  It does not depend on what the
   other slot applies concurrently, nor on whether the store coalesced the two commits.

   Commands are not transcribed.  A command is of one of three kinds:
     "V"  valid: accepted (result "ok") and effective (it changes the slot's metadata),
     "S"  stale no-op: a conditional mutation whose guard misses when the write batch commits
          (ErrNotFound: the guarded row does not exist) -> result "stale", nothing is written and
          the durable applied index stays behind,
     "C"  conflicting: a mutation whose commit-time guard finds another value (ErrConflict =
          ErrStaleMeta) -> result "stale", nothing is written.
   The abstract metadata of (replica, slot) is the sequence of "V" indexes whose effect it holds.

   Actions (per replica of the node; Reps are replicas that apply the SAME two logs):
     ApplyOne(r, s)  slot s applies its next entry while the other slot is idle
     ApplyPair(r)    both slots apply their next entry concurrently; the store's group-commit
                     coordinator (pkg/db/internal/commit Coordinator.collect / commit) may or may
                     not coalesce the two write batches into one physical commit (timing).

   GroupFailsTogether is the model variant flag for the coordinator's CURRENT behaviour: when
   the requests were coalesced and ONE request's Build returns a guard error, commit() calls
   reqs.completeAll(Err: err): every request of the group fails with the foreign error;
   fsm.ApplyBatch of the other slot maps it to "stale" for its own valid command, which is not
   applied although the runtime's applied index advances.  With the flag FALSE (the design) the
   properties below hold (MC_group.cfg); with the flag TRUE TLC finds the counterexample
   (MC_group_defect.cfg, fails by design: C13_NeighbourIndependent, C13_GroupDeterministic,
   C13_ReplicaEq) -- see known finding "commit-group-foreign-guard-error".                     *)
EXTENDS Integers, Sequences, FiniteSets, SequencesExt

CONSTANTS
  Reps,               \* replicas of the node (strings)
  Lens,               \* set of log lengths tried (per slot)
  Kinds,              \* subset of {"V", "S", "C"}
  GroupFailsTogether  \* BOOLEAN: a guard failure of one coalesced request fails the whole group

Slots == 1..2

VARIABLES
  cfg,       \* [logs |-> <<kinds of slot 1's log, kinds of slot 2's log>>]
  pos,       \* pos[r][s]: entries of slot s's log the runtime of replica r has fed (applied index)
  durable,   \* durable[r][s]: applied index of slot s persisted with the metadata
  meta,      \* meta[r][s]: "V" indexes of slot s's log whose effect the store of r contains
  ev         \* last call and replies (observation only)

vars == <<cfg, pos, durable, meta, ev>>

KindAt(s, i) == cfg.logs[s][i]
NLog(s)      == Len(cfg.logs[s])
GuardMiss(k) == k \in {"S", "C"}
Own(k)       == IF k = "V" THEN "ok" ELSE "stale"     \* the one-at-a-time result of a command

LogsOf == UNION {[1..n -> Kinds] : n \in Lens}

Init ==
  /\ cfg \in [logs : LogsOf \X LogsOf]
  /\ pos = [r \in Reps |-> <<0, 0>>]
  /\ durable = [r \in Reps |-> <<0, 0>>]
  /\ meta = [r \in Reps |-> << <<>>, <<>> >>]
  /\ ev = [a |-> "Init", cfg |-> cfg]

-------------------------------------------------------------------------------
\* The slots in S of replica r apply their next entry; gf: the commits were coalesced and the
\* group was failed by the guard error of one of them.
Step(r, S, gf, name) ==
  /\ \A s \in S : pos[r][s] < NLog(s)
  /\ LET i(s)   == pos[r][s] + 1
         app(s) == s \in S /\ ~gf /\ KindAt(s, i(s)) = "V"
         np(s)  == IF s \in S THEN i(s) ELSE pos[r][s]
         nm(s)  == IF app(s) THEN Append(meta[r][s], i(s)) ELSE meta[r][s]
         nd(s)  == IF app(s) THEN i(s) ELSE durable[r][s]
         rs(s)  == IF s \notin S THEN "-" ELSE IF gf THEN "stale" ELSE Own(KindAt(s, i(s)))
     IN /\ pos' = [pos EXCEPT ![r] = <<np(1), np(2)>>]
        /\ meta' = [meta EXCEPT ![r] = <<nm(1), nm(2)>>]
        /\ durable' = [durable EXCEPT ![r] = <<nd(1), nd(2)>>]
        /\ ev' = [a |-> name, r |-> r, slots |-> SetToSortSeq(S, <), res |-> <<rs(1), rs(2)>>]
  /\ UNCHANGED cfg

ApplyOne(r, s) == Step(r, {s}, FALSE, "ApplyOne")

ApplyPair(r) ==
  \E grouped \in BOOLEAN :
    Step(r, Slots,
         GroupFailsTogether /\ grouped /\ \E s \in Slots : pos[r][s] < NLog(s) /\ GuardMiss(KindAt(s, pos[r][s] + 1)),
         "ApplyPair")

Next ==
  \E r \in Reps :
    \/ \E s \in Slots : ApplyOne(r, s)
    \/ ApplyPair(r)

Spec == Init /\ [][Next]_vars

\* What the harness can ask a real replica for: per slot, how many effective commands the
\* exported metadata of the slot's hash slots contains (it maps the exported bytes to a position
\* of the one-at-a-time reference run of that slot's log).
Proj == [nv |-> [r \in Reps |-> <<Len(meta[r][1]), Len(meta[r][2])>>]]

-------------------------------------------------------------------------------
\* Property C13 for slots that share a store.

VIdx(s, n) == SetToSortSeq({i \in 1..n : KindAt(s, i) = "V"}, <)

\* The result of a command is its one-at-a-time result: independent of the neighbour slot.
C13_NeighbourIndependent ==
  [][\A s \in Slots : ev'.res[s] # "-" => ev'.res[s] = Own(KindAt(s, pos'[ev'.r][s]))]_vars

\* The metadata of a slot is a function of the consumed prefix of ITS log alone.
C13_GroupDeterministic == \A r \in Reps, s \in Slots : meta[r][s] = VIdx(s, pos[r][s])

\* Two replicas that consumed the same prefix of a slot's log hold the same metadata for it,
\* however each of them interleaved / coalesced the two slots.
C13_ReplicaEq ==
  \A r1 \in Reps, r2 \in Reps, s \in Slots : pos[r1][s] = pos[r2][s] => meta[r1][s] = meta[r2][s]

\* Nothing effective lies between the durable and the runtime's applied index (a crash replay
\* from durable + 1 neither skips nor repeats an effective command).
C13_GroupDurableSafe ==
  \A r \in Reps, s \in Slots :
    /\ durable[r][s] <= pos[r][s]
    /\ meta[r][s] = VIdx(s, durable[r][s])

TypeOK ==
  \A r \in Reps, s \in Slots : pos[r][s] \in 0..NLog(s) /\ durable[r][s] \in 0..NLog(s)

View == <<cfg, pos, durable, meta>>
===============================================================================

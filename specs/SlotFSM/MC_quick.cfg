\* measured: 25,319 distinct / 261,662 generated states, depth 11
SPECIFICATION Spec
CONSTANTS
  Lens = {3, 4}
  Kinds = {"A", "S", "U", "M"}
  MaxOdd = 4
  MaxBatch = 3
  MaxSnaps = 2
VIEW View
INVARIANTS TypeOK C13_Deterministic C13_DurableSafe C13_SnapshotExact
PROPERTIES C13_RefusedNoEffect C13_RefusedUnchanged
CHECK_DEADLOCK FALSE

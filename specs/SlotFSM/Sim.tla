--------------------------------- MODULE Sim ---------------------------------
(* Behaviour generator: `tlc -simulate` prints one JSON behaviour per line ("BEH {...}")
   when a run has consumed its whole log or reaches Depth steps.  A behaviour is a log
   (kinds) plus a schedule of apply batches, skips, restarts and snapshot/restore
   steps with the reply and the position the specification determines after every
   step.  The durable index is taken as the last index of a successful batch (the
   most the code persists); the harness follows the real durable index and
   re-synchronises by log index.  One die `r` per step weights the action kinds. *)
EXTENDS SlotFSM, Json, TLC
CONSTANT Depth
VARIABLE steps

SimInit == Init /\ steps = << [ev |-> ev, st |-> Proj] >>
Pick(S) == {RandomElement(S)}
Rest    == N - pos
Cap(k)  == IF k > MaxBatch THEN MaxBatch ELSE k
HeadRefused == pos < N /\ Refused(pos + 1)
\* distance to the next refused entry (0 = none ahead)
NextRefused == LET R == {i \in (pos + 1)..N : Refused(i)} IN
               IF R = {} THEN 0 ELSE (CHOOSE i \in R : \A j \in R : i <= j) - pos
SnapEn  == pos > 0 /\ Cardinality(snaps) < MaxSnaps /\ \A s \in snaps : s.idx # pos
Batch(k)    == ApplyBatchD(k, pos + k)
SafeMax     == IF NextRefused = 0 THEN Cap(Rest) ELSE Cap(NextRefused - 1)
AnyBatch    == \E k \in Pick(1..Cap(Rest)) : Batch(k)
SafeBatch   == \E k \in Pick(1..SafeMax) : Batch(k)      \* only when the head entry is not refused
AnyRestore  == \E s \in Pick(snaps), f \in Pick(BOOLEAN) : Restore(s, f)

SimStep ==
  \E r \in Pick(1..100) :
    IF HeadRefused THEN
      \/ (r <= 55 /\ Skip)
      \/ (r > 55 /\ r <= 75 /\ AnyBatch)                         \* refused batch
      \/ (r > 75 /\ r <= 85 /\ RestartTo(durable, "crash"))
      \/ (r > 85 /\ r <= 92 /\ IF SnapEn THEN Snapshot ELSE Skip)
      \/ (r > 92 /\ IF snaps # {} THEN AnyRestore ELSE Skip)
    ELSE IF Rest >= 1 THEN
      \/ (r <= 30 /\ SafeBatch)
      \/ (r > 30 /\ r <= 42 /\ Batch(SafeMax))                   \* as much as fits before a refused entry
      \/ (r > 42 /\ r <= 50 /\ AnyBatch)
      \/ (r > 50 /\ r <= 58 /\ IF NextRefused >= 2 /\ NextRefused <= MaxBatch THEN Batch(NextRefused) ELSE Batch(1))
      \/ (r > 58 /\ r <= 70 /\ RestartTo(durable, "crash"))
      \/ (r > 70 /\ r <= 76 /\ RestartTo(pos, "clean"))
      \/ (r > 76 /\ r <= 89 /\ IF SnapEn THEN Snapshot ELSE SafeBatch)
      \/ (r > 89 /\ IF snaps # {} THEN AnyRestore ELSE SafeBatch)
    ELSE
      \* log consumed: only a detour that makes the replica replay part of it
      \/ (r <= 40 /\ SnapEn /\ Snapshot)
      \/ (r > 40 /\ snaps # {} /\ AnyRestore)
      \/ (durable < pos /\ RestartTo(durable, "crash"))
SimNext == SimStep /\ steps' = Append(steps, [ev |-> ev', st |-> Proj'])
Arrived == Len(steps) > 1 /\ pos = N /\ steps[Len(steps) - 1].st.pos < N
Emit    == (Len(steps) = Depth + 1 \/ Arrived) => PrintT("BEH " \o ToJson([steps |-> steps]))
===============================================================================

\* Two slots over one store, the design (a guard failure of one coalesced request does not
\* touch the other request): all properties hold.
\* measured: 275,625 distinct / 1,397,745 generated states, depth 7; both actions (ApplyOne, ApplyPair)
\* covered (-coverage 1); 3 min 20 s with 4 workers at machine load 90.
SPECIFICATION Spec
CONSTANTS
  Reps = {"a", "b"}
  Lens = {1, 2, 3}
  Kinds = {"V", "S", "C"}
  GroupFailsTogether = FALSE
VIEW View
INVARIANTS TypeOK C13_GroupDeterministic C13_ReplicaEq C13_GroupDurableSafe
PROPERTIES C13_NeighbourIndependent
CHECK_DEADLOCK FALSE

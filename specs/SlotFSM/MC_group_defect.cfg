\* NOT registered: fails by design.  The coordinator's current behaviour (Coordinator.commit ->
\* reqs.completeAll(Err: err) on the first Build error): TLC finds the 3-state counterexample
\* Init(logs <<"V">>, <<"S">>); ApplyPair(r) coalesced -> slot 1's valid command answered "stale"
\* and not applied.  Violates C13_NeighbourIndependent (listed first), C13_GroupDeterministic,
\* C13_ReplicaEq and C13_GroupDurableSafe (check them one at a time with -continue or by
\* reordering).  This is known finding C13 "commit-group-foreign-guard-error".
SPECIFICATION Spec
CONSTANTS
  Reps = {"a", "b"}
  Lens = {1, 2}
  Kinds = {"V", "S", "C"}
  GroupFailsTogether = TRUE
VIEW View
INVARIANTS TypeOK C13_GroupDeterministic C13_ReplicaEq C13_GroupDurableSafe
PROPERTIES C13_NeighbourIndependent
CHECK_DEADLOCK FALSE

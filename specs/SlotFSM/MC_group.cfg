\* Two slots over one store, the design (a guard failure of one coalesced request does not
\* touch the other request): all properties hold.
\* measured: 1,936 distinct / 8,100 generated states, depth 5 (2-3 s of search; 18-45 s wall at machine
\* load 55-90, all JVM start-up).  Pair of MC_group_defect.cfg (same bounds plus kind "C", flag TRUE: fails).
\* Registered for the thorough tier with MC_group_thorough.cfg; kept out of the quick tier for its JVM start.
SPECIFICATION Spec
CONSTANTS
  Reps = {"a", "b"}
  Lens = {1, 2}
  Kinds = {"V", "S"}
  GroupFailsTogether = FALSE
VIEW View
INVARIANTS TypeOK C13_GroupDeterministic C13_ReplicaEq C13_GroupDurableSafe
PROPERTIES C13_NeighbourIndependent
CHECK_DEADLOCK FALSE

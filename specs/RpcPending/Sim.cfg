INIT SimInit
NEXT SimNext
CONSTANTS
  Calls = {"a", "b", "c", "d", "e", "f", "g", "h", "i", "j", "k", "l"}
  MaxConn = 6
  Variant = "code"
  Depth = 30
INVARIANTS Emit SimOwn C26_ChanOwn C26_OneDelivery
CHECK_DEADLOCK FALSE

-------------------------------- MODULE Trace --------------------------------
(* Trace validation for property C26, second sentence (code -> spec).

   The harness runs many concurrent Client.Call invocations over loopback against a real
   Server whose handler echoes the request token after a seeded delay (or fails with an
   error that carries the token), with random caller timeouts and cancellations and random
   connection resets.  Logged, each with a stamp from one shared atomic counter and written
   in stamp order:

     Call(c)       taken before Client.Call is entered
     Server(c)     the handler was entered with token c
     Done(c, ok)   the handler is about to return token c (ok) / the error for c
     Return(c, r)  Client.Call returned: r.kind = "resp" with the token found in the payload,
                   "rerr" with the token found in the remote error, or "err" (any local error)
     Cancel(c), Reset   faults injected by the harness (not constrained)

   Store, Enqueue, Write, CliRecv and ConnLost of RpcPending are internal: they do not
   change the history fields (hCalled, hServed, hOK, hFail, hRet) of the state, and the
   C26 properties below speak about those fields and the logged replies only.  So the
   trace spec advances the history fields from the log and evaluates the properties at
   every Return: the payload is the caller's own token, the handler had produced exactly
   that response before (Done is logged before the handler returns), and the call had not
   returned before. *)
EXTENDS RpcPending, Json, TLC
VARIABLE l

Log == ndJsonDeserialize("trace.ndjson")

TraceInit == Init /\ l = 1

Reset0 == s' = S0 /\ ev' = Log[l].ev

LogStep(e) ==
  CASE e.a = "Init"   -> Reset0
    [] e.a = "Call"   -> e.c \notin s.hCalled /\ s' = [s EXCEPT !.hCalled = @ \cup {e.c}] /\ ev' = e
    [] e.a = "Server" -> s' = [s EXCEPT !.hServed = @ \cup {e.c}] /\ ev' = e
    [] e.a = "Done"   -> s' = [s EXCEPT !.hOK = IF e.ok THEN @ \cup {e.c} ELSE @,
                                        !.hFail = IF e.ok THEN @ ELSE @ \cup {e.c}] /\ ev' = e
    [] e.a = "Return" -> s' = [s EXCEPT !.hRet = @ \cup {e.c}] /\ ev' = e
    [] e.a \in {"Cancel", "Reset"} -> s' = s /\ ev' = e

TraceNext == l <= Len(Log) /\ l' = l + 1 /\ LogStep(Log[l].ev)

TraceSpec == TraceInit /\ [][TraceNext]_<<vars, l>>

\* A request the server handles was issued by a caller.
C26_ServedWasCalled == [][ev'.a = "Server" => ev'.c \in s.hCalled]_vars

Conform == l > 1 /\ Log[l - 1].ev.a # "Init" => HistProj = Log[l - 1].st

HW       == TLCSet(1, IF l > TLCGet(1) THEN l ELSE TLCGet(1))
Track    == HW
Accepted == TLCGet(1) = Len(Log) + 1
ASSUME TLCSet(1, 0)
===============================================================================

------------------------------ MODULE RpcPending ------------------------------
(* Node-transport RPC correlation (pkg/transport: Client.Call -> peer.Manager.Acquire ->
   conn.Conn.Call / readLoop / writeLoop / shutdown, internal/rpc.PendingTable, Server
   dispatchRPCRequest).  Second sentence of property C26 only.

   One connection slot (PoolSize 1): connection generation g is dialled when the slot has
   no live connection.  Every generation has its own request-id counter and its own pending
   table id -> caller channel (capacity 1, non-blocking sends).

     caller      Acquire (pick/dial g); Store (id := counter+1, entries[id] := ch, or an
                 error into ch when the table is already closed); Enqueue (scheduler queue,
                 or failure -> Delete, return error); then the select of Conn.Call:
                 Return with the channel's content / after ctx.Done (Delete) / after the
                 connection's shutdown (channel content if any, else ErrStopped)
     writeLoop   Write: head of the queue goes on the wire, unless its context is done
                 (dropped, Delete)
     server      SrvRecv (handler starts), Respond (handlers finish in any order; the
                 response frame carries the request id; dropped when the connection is gone)
     readLoop    CliRecv: Complete(id) -- remove the entry, non-blocking send -- or drop the
                 frame when there is no entry (late response)
     faults      Cancel (timeout or cancellation of the caller's context), ConnLost (shutdown:
                 FailAll + closed table, everything in flight is lost)

   The state is one record `s` and every step is a function on it (CanX / DoX), so that
   Sim.tla can compose steps into the coarser steps a harness can enact with gates.  The
   h* fields are history (what callers and handlers observed); the property speaks about them
   and the replies only.  Tokens: a call is named by its token; the handler echoes it.

   Variant # "code" selects a named mistake (design-time mutation rehearsal only). *)
EXTENDS Integers, Sequences, FiniteSets, SequencesExt

CONSTANTS
  Calls,     \* call names = tokens
  MaxConn,   \* connection generations
  Variant    \* "code" | "reuse" | "nodelete" | "sharedkey"

VARIABLES s, ev
vars == <<s, ev>>

Conns == 1..MaxConn
Empty   == [kind |-> "empty", tok |-> ""]
LErr    == [kind |-> "err", tok |-> ""]            \* local error (cancelled, stopped, ...)
Resp(t, ok) == [kind |-> IF ok THEN "resp" ELSE "rerr", tok |-> t]   \* payload / remote error of the handler for token t
C0 == [ph |-> "new", g |-> 0, id |-> 0, ctx |-> FALSE, ch |-> Empty, out |-> Empty]

S0 == [gen |-> 0,
       alive  |-> [g \in Conns |-> FALSE],
       nextId |-> [g \in Conns |-> 0],
       pend   |-> [g \in Conns |-> {}],          \* set of <<id, call>>
       call   |-> [c \in Calls |-> C0],
       wq     |-> [g \in Conns |-> <<>>],        \* scheduler queue: calls
       c2s    |-> [g \in Conns |-> <<>>],        \* requests on the wire: [id, tok]
       srv    |-> {},                            \* running handlers: [g, id, tok]
       s2c    |-> [g \in Conns |-> <<>>],        \* responses on the wire: [id, tok, ok]
       deliv  |-> [c \in Calls |-> 0],           \* sends attempted on the call's channel
       hCalled |-> {}, hServed |-> {}, hOK |-> {}, hFail |-> {}, hRet |-> {}]

Init == s = S0 /\ ev = [a |-> "Init"]

Fill(ch, v) == IF ch.kind = "empty" THEN v ELSE ch        \* non-blocking send on a 1-buffered channel
Without(P, id) == {p \in P : p[1] # id}                   \* map delete
Key(id) == IF Variant = "sharedkey" THEN id % 2 ELSE id   \* the map key an id is stored under

-------------------------------------------------------------------------------
\* Caller.

LiveGen(t) == t.gen > 0 /\ t.alive[t.gen]
CanAcquire(t, c) == t.call[c].ph = "new" /\ (LiveGen(t) \/ t.gen < MaxConn)
DoAcquire(t, c) ==
  LET g == IF LiveGen(t) THEN t.gen ELSE t.gen + 1 IN
  [t EXCEPT !.gen = g, !.alive[g] = TRUE, !.call[c].ph = "acq", !.call[c].g = g,
            !.hCalled = @ \cup {c}]

NewId(t, g) ==
  IF Variant = "reuse"
    THEN CHOOSE i \in 1..(Cardinality(t.pend[g]) + 1) : \A p \in t.pend[g] : p[1] # i
    ELSE t.nextId[g] + 1

CanStore(t, c) == t.call[c].ph = "acq"
DoStore(t, c) ==
  LET g == t.call[c].g  id == NewId(t, g) IN
  IF t.alive[g]
    THEN [t EXCEPT !.nextId[g] = IF id > @ THEN id ELSE @,
                   !.pend[g] = Without(@, Key(id)) \cup {<<Key(id), c>>},
                   !.call[c].ph = "stored", !.call[c].id = id]
    ELSE [t EXCEPT !.nextId[g] = IF id > @ THEN id ELSE @,
                   !.call[c].ph = "stored", !.call[c].id = id,
                   !.call[c].ch = Fill(@, LErr), !.deliv[c] = @ + 1]

CanEnqueue(t, c) == t.call[c].ph = "stored"
DoEnqueue(t, c) ==
  LET g == t.call[c].g IN
  IF t.alive[g] /\ ~t.call[c].ctx
    THEN [t EXCEPT !.wq[g] = Append(@, c), !.call[c].ph = "queued"]
    ELSE [t EXCEPT !.pend[g] = Without(@, Key(t.call[c].id)), !.call[c].ph = "failed"]

CanCancel(t, c) == t.call[c].ph \in {"acq", "stored", "queued"} /\ ~t.call[c].ctx
DoCancel(t, c) == [t EXCEPT !.call[c].ctx = TRUE]

\* What Conn.Call may return now.  `how` tells the branch of the select.
RetOptions(t, c) ==
  LET cl == t.call[c] IN
  IF cl.ph = "failed" THEN {[how |-> "send", res |-> LErr]}
  ELSE IF cl.ph # "queued" THEN {}
  ELSE (IF cl.ch.kind # "empty" THEN {[how |-> "chan", res |-> cl.ch]} ELSE {})
       \cup (IF cl.ctx THEN {[how |-> "ctx", res |-> LErr]} ELSE {})
       \cup (IF ~t.alive[cl.g] THEN {[how |-> "down", res |-> IF cl.ch.kind # "empty" THEN cl.ch ELSE LErr]} ELSE {})

DoReturn(t, c, o) ==
  LET cl == t.call[c]
      t1 == IF o.how = "ctx" /\ Variant # "nodelete"
              THEN [t EXCEPT !.pend[cl.g] = Without(@, Key(cl.id))] ELSE t
  IN [t1 EXCEPT !.call[c].ph = "done", !.call[c].out = o.res, !.hRet = @ \cup {c}]

-------------------------------------------------------------------------------
\* Connection loops, server, faults.

CanWrite(t, g) == t.alive[g] /\ t.wq[g] # <<>>
DoWrite(t, g) ==
  LET c == Head(t.wq[g]) IN
  IF t.call[c].ctx
    THEN [t EXCEPT !.wq[g] = Tail(@),
                   !.pend[g] = IF Variant = "nodelete" THEN @ ELSE Without(@, Key(t.call[c].id))]
    ELSE [t EXCEPT !.wq[g] = Tail(@), !.c2s[g] = Append(@, [id |-> t.call[c].id, tok |-> c])]

CanSrvRecv(t, g) == t.c2s[g] # <<>>
DoSrvRecv(t, g) ==
  LET m == Head(t.c2s[g]) IN
  [t EXCEPT !.c2s[g] = Tail(@), !.srv = @ \cup {[g |-> g, id |-> m.id, tok |-> m.tok]},
            !.hServed = @ \cup {m.tok}]

CanRespond(t, r) == r \in t.srv
DoRespond(t, r, ok) ==
  LET t1 == [t EXCEPT !.srv = @ \ {r},
                      !.hOK = IF ok THEN @ \cup {r.tok} ELSE @,
                      !.hFail = IF ok THEN @ ELSE @ \cup {r.tok}]
  IN IF t.alive[r.g] THEN [t1 EXCEPT !.s2c[r.g] = Append(@, [id |-> r.id, tok |-> r.tok, ok |-> ok])] ELSE t1

CanCliRecv(t, g) == t.alive[g] /\ t.s2c[g] # <<>>
CliRecvTo(t, g) ==
  LET m == Head(t.s2c[g])  hit == {p \in t.pend[g] : p[1] = Key(m.id)} IN
  IF hit = {} THEN "none" ELSE (CHOOSE p \in hit : TRUE)[2]
DoCliRecv(t, g) ==
  LET m == Head(t.s2c[g])  to == CliRecvTo(t, g) IN
  IF to = "none" THEN [t EXCEPT !.s2c[g] = Tail(@)]
  ELSE [t EXCEPT !.s2c[g] = Tail(@), !.pend[g] = Without(@, Key(m.id)),
                 !.call[to].ch = Fill(@, Resp(m.tok, m.ok)), !.deliv[to] = @ + 1]

CanConnLost(t, g) == t.alive[g]
DoConnLost(t, g) ==
  LET hit == {p[2] : p \in t.pend[g]} IN
  [t EXCEPT !.alive[g] = FALSE, !.pend[g] = {}, !.wq[g] = <<>>, !.c2s[g] = <<>>, !.s2c[g] = <<>>,
            !.call = [c \in Calls |-> IF c \in hit THEN [t.call[c] EXCEPT !.ch = Fill(@, LErr)] ELSE t.call[c]],
            !.deliv = [c \in Calls |-> IF c \in hit THEN t.deliv[c] + 1 ELSE t.deliv[c]]]

-------------------------------------------------------------------------------
Acquire(c)  == CanAcquire(s, c) /\ s' = DoAcquire(s, c) /\ ev' = [a |-> "Call", c |-> c]
Store(c)    == CanStore(s, c) /\ s' = DoStore(s, c) /\ ev' = [a |-> "Store", c |-> c]
Enqueue(c)  == CanEnqueue(s, c) /\ s' = DoEnqueue(s, c) /\ ev' = [a |-> "Enqueue", c |-> c]
Cancel(c)   == CanCancel(s, c) /\ s' = DoCancel(s, c) /\ ev' = [a |-> "Cancel", c |-> c]
Return(c)   == \E o \in RetOptions(s, c) :
                 s' = DoReturn(s, c, o) /\ ev' = [a |-> "Return", c |-> c, how |-> o.how, res |-> o.res]
Write(g)    == CanWrite(s, g) /\ s' = DoWrite(s, g) /\ ev' = [a |-> "Write", g |-> g]
SrvRecv(g)  == CanSrvRecv(s, g) /\ s' = DoSrvRecv(s, g) /\ ev' = [a |-> "Server", c |-> Head(s.c2s[g]).tok]
Respond(r, ok) == CanRespond(s, r) /\ s' = DoRespond(s, r, ok) /\ ev' = [a |-> "Done", c |-> r.tok, ok |-> ok]
CliRecv(g)  == CanCliRecv(s, g) /\ s' = DoCliRecv(s, g)
                 /\ ev' = [a |-> "CliRecv", g |-> g, tok |-> Head(s.s2c[g]).tok, to |-> CliRecvTo(s, g)]
ConnLost(g) == CanConnLost(s, g) /\ s' = DoConnLost(s, g) /\ ev' = [a |-> "Reset", g |-> g]

Next ==
  \/ \E c \in Calls : Acquire(c) \/ Store(c) \/ Enqueue(c) \/ Cancel(c) \/ Return(c)
  \/ \E g \in Conns : Write(g) \/ SrvRecv(g) \/ CliRecv(g) \/ ConnLost(g)
  \/ \E r \in s.srv, ok \in BOOLEAN : Respond(r, ok)

Spec == Init /\ [][Next]_vars

\* History projection (what a recorded run determines).
HistProj == [called |-> Cardinality(s.hCalled), served |-> Cardinality(s.hServed),
             ok |-> Cardinality(s.hOK), fail |-> Cardinality(s.hFail), ret |-> Cardinality(s.hRet)]

-------------------------------------------------------------------------------
\* Property C26, second sentence.

IsReturn == ev'.a = "Return"
IsResponse(r) == r.kind \in {"resp", "rerr"}

\* A call returns its own response or an error, never another call's response.
C26_OwnOrError == [][IsReturn /\ IsResponse(ev'.res) => ev'.res.tok = ev'.c]_vars

\* The response a call returns is the one its handler produced.
C26_ResponseProduced ==
  [][IsReturn => /\ ev'.res.kind = "resp" => ev'.c \in s.hOK
                 /\ ev'.res.kind = "rerr" => ev'.c \in s.hFail]_vars

\* A call completes at most once.
C26_AtMostOnce == [][IsReturn => ev'.c \notin s.hRet]_vars

\* A response frame is handed to the call it answers, and only while that call is waiting;
\* a late response is delivered to nobody.
C26_LateToNobody ==
  [][ev'.a = "CliRecv" /\ ev'.to # "none" => ev'.to = ev'.tok /\ ev'.to \notin s.hRet]_vars

\* At most one send is ever attempted on a caller's channel, and what sits in it is the
\* caller's own response or an error.
C26_OneDelivery == \A c \in Calls : s.deliv[c] <= 1
C26_ChanOwn == \A c \in Calls : IsResponse(s.call[c].ch) => s.call[c].ch.tok = c

TypeOK ==
  /\ s.gen \in 0..MaxConn
  /\ \A g \in Conns : \A p \in s.pend[g] : p[2] \in Calls
  /\ \A c \in Calls : s.call[c].ph \in {"new", "acq", "stored", "queued", "failed", "done"}

View == s
===============================================================================

\* 2 calls, 2 connection generations.  Measured: 35,221 states generated, 10,645 distinct, depth 21 (22 s).
SPECIFICATION Spec
CONSTANTS
  Calls = {"a", "b"}
  MaxConn = 2
  Variant = "code"
VIEW View
INVARIANTS TypeOK C26_OneDelivery C26_ChanOwn
PROPERTIES C26_OwnOrError C26_ResponseProduced C26_AtMostOnce C26_LateToNobody
CHECK_DEADLOCK FALSE

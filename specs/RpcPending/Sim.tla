--------------------------------- MODULE Sim ---------------------------------
(* Behaviour generator (spec -> code) for the gated harness.  The harness owns three gates
   per client connection -- the handler of every request parks until it is told to respond,
   the client side of the socket can hold its writes (requests stay in the client) and its
   reads (responses stay on the wire) -- plus cancellation of a caller's context and closing
   the socket.  Each step below is the composition of RpcPending steps that such a command
   brings about once the system is quiescent again, with the replies of all calls that
   return as a consequence.  wh / rh = writes / reads of the current connection are held.

   Schedules this reaches: responses in any order, remote errors, timeout-then-response
   (Cancel, then Respond to the cancelled call, then more calls on the same connection),
   response on the wire while the caller gives up (HoldReads, Respond, Cancel, OpenReads),
   reset during send (HoldWrites, Call, Reset), reset with handlers running, redial. *)
EXTENDS RpcPending, Json, TLC
CONSTANT Depth
VARIABLES wh, rh, hist

Pick(S) == {RandomElement(S)}
None == "-"
PickOr(S) == IF S = {} THEN {None} ELSE Pick(S)

Ready(t) == {c \in Calls : t.call[c].ph = "queued"
                            /\ (t.call[c].ch.kind # "empty" \/ ~t.alive[t.call[c].g])}
RECURSIVE RetAll(_, _)
RetAll(t, acc) ==
  IF Ready(t) = {} THEN [t |-> t, rets |-> acc]
  ELSE LET c == CHOOSE x \in Ready(t) : TRUE
           o == CHOOSE x \in RetOptions(t, c) : x.how \in {"chan", "down"}
       IN RetAll(DoReturn(t, c, o), Append(acc, [c |-> c, res |-> o.res]))

RECURSIVE Drain(_, _, _)
Drain(t, g, acc) ==
  IF t.wq[g] = <<>> THEN [t |-> t, reach |-> acc]
  ELSE LET c == Head(t.wq[g])  t1 == DoWrite(t, g) IN
       IF t1.c2s[g] # <<>> THEN Drain(DoSrvRecv(t1, g), g, Append(acc, c)) ELSE Drain(t1, g, acc)

RECURSIVE Deliver(_, _)
Deliver(t, g) == IF t.s2c[g] = <<>> THEN t ELSE Deliver(DoCliRecv(t, g), g)

\* While writes are held only one request is issued (the harness can see that one reach the
\* held socket; further ones would sit in the client's scheduler, invisible to it).
MCall(c) ==
  /\ CanAcquire(s, c)
  /\ wh => s.wq[s.gen] = <<>>
  /\ LET t1 == DoEnqueue(DoStore(DoAcquire(s, c), c), c)
         g  == t1.call[c].g
         t2 == IF wh THEN t1 ELSE DoSrvRecv(DoWrite(t1, g), g)
     IN s' = t2 /\ ev' = [a |-> "Call", c |-> c, reach |-> ~wh]
  /\ UNCHANGED <<wh, rh>>

MRespond(c, ok) ==
  /\ \E r \in s.srv : r.tok = c
  /\ LET r  == CHOOSE x \in s.srv : x.tok = c
         t1 == DoRespond(s, r, ok)
         t2 == IF t1.alive[r.g] /\ ~rh THEN Deliver(t1, r.g) ELSE t1
         x  == RetAll(t2, <<>>)
     IN s' = x.t /\ ev' = [a |-> "Respond", c |-> c, ok |-> ok, rets |-> x.rets]
  /\ UNCHANGED <<wh, rh>>

MCancel(c) ==
  /\ s.call[c].ph = "queued" /\ ~s.call[c].ctx
  /\ LET t1 == DoCancel(s, c)
         t2 == DoReturn(t1, c, [how |-> "ctx", res |-> LErr])
     IN s' = t2 /\ ev' = [a |-> "Cancel", c |-> c, rets |-> << [c |-> c, res |-> LErr] >>]
  /\ UNCHANGED <<wh, rh>>

MReset ==
  /\ LiveGen(s)
  /\ LET x == RetAll(DoConnLost(s, s.gen), <<>>)
     IN s' = x.t /\ ev' = [a |-> "Reset", rets |-> x.rets]
  /\ wh' = FALSE /\ rh' = FALSE

MHoldWrites == LiveGen(s) /\ ~wh /\ wh' = TRUE /\ ev' = [a |-> "HoldWrites"] /\ UNCHANGED <<s, rh>>
MOpenWrites ==
  /\ LiveGen(s) /\ wh
  /\ LET x == Drain(s, s.gen, <<>>) IN s' = x.t /\ ev' = [a |-> "OpenWrites", reach |-> x.reach]
  /\ wh' = FALSE /\ UNCHANGED rh
MHoldReads == LiveGen(s) /\ ~rh /\ rh' = TRUE /\ ev' = [a |-> "HoldReads"] /\ UNCHANGED <<s, wh>>
MOpenReads ==
  /\ LiveGen(s) /\ rh
  /\ LET x == RetAll(Deliver(s, s.gen), <<>>) IN s' = x.t /\ ev' = [a |-> "OpenReads", rets |-> x.rets]
  /\ rh' = FALSE /\ UNCHANGED wh

New      == {c \in Calls : s.call[c].ph = "new"}
Waiting  == {c \in Calls : s.call[c].ph = "queued"}
Handling == {r.tok : r \in s.srv}
\* handlers whose caller has already given up (a late response) / is still waiting
LateH    == {c \in Handling : s.call[c].ph = "done"}
LiveH    == {c \in Handling : s.call[c].ph = "queued"}

SimInit == Init /\ wh = FALSE /\ rh = FALSE /\ hist = << [ev |-> ev, st |-> [ret |-> 0]] >>

SimStep ==
  \/ \E c \in PickOr(New) : c # None /\ MCall(c)
  \/ \E c \in PickOr(New) : c # None /\ MCall(c)
  \/ \E c \in PickOr(LiveH) : c # None /\ MRespond(c, TRUE)
  \/ \E c \in PickOr(LiveH) : c # None /\ \E ok \in Pick(BOOLEAN) : MRespond(c, ok)
  \/ \E c \in PickOr(LateH) : c # None /\ \E ok \in Pick(BOOLEAN) : MRespond(c, ok)
  \/ \E c \in PickOr(LateH) : c # None /\ MRespond(c, TRUE)
  \/ (RandomElement(1..2) = 1 /\ \E c \in PickOr(Waiting) : c # None /\ MCancel(c))
  \/ \E c \in PickOr(Waiting \cap Handling) : c # None /\ MCancel(c)
  \/ (RandomElement(1..3) = 1 /\ MReset)
  \/ (RandomElement(1..2) = 1 /\ MHoldWrites)
  \/ MOpenWrites
  \/ (RandomElement(1..2) = 1 /\ MHoldReads)
  \/ MOpenReads

SimNext == SimStep /\ hist' = Append(hist, [ev |-> ev', st |-> [ret |-> Cardinality(s'.hRet)]])

\* Checked on the composed steps as well (they are sequences of module steps).
SimOwn == \A c \in Calls : IsResponse(s.call[c].out) => s.call[c].out.tok = c

Emit == Len(hist) = Depth + 1 => PrintT("BEH " \o ToJson([steps |-> hist]))
===============================================================================

SPECIFICATION TraceSpec
CONSTANTS
  Calls = {}
  MaxConn = 1
  Variant = "code"
CONSTRAINT Track
INVARIANTS Conform
PROPERTIES C26_OwnOrError C26_ResponseProduced C26_AtMostOnce C26_ServedWasCalled
POSTCONDITION Accepted
CHECK_DEADLOCK FALSE

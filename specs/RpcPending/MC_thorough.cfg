\* 3 calls, 2 connection generations.  Measured: 8,207,421 states generated, 1,736,957 distinct, depth 30 (6 min with -coverage, 4 workers, loaded box).
SPECIFICATION Spec
CONSTANTS
  Calls = {"a", "b", "c"}
  MaxConn = 2
  Variant = "code"
VIEW View
INVARIANTS TypeOK C26_OneDelivery C26_ChanOwn
PROPERTIES C26_OwnOrError C26_ResponseProduced C26_AtMostOnce C26_LateToNobody
CHECK_DEADLOCK FALSE

INIT SimInit
NEXT SimNext
CONSTANTS
  Users = {"u1", "u2"}
  NCh = 3
  MemSlots <- NoSlots
  CmdSlots <- NoSlots
  Kinds <- KindsAll
  Tombs = {FALSE, TRUE}
  Vals = {0, 1, 2, 3}
  Ats = {0, 1, 2, 3}
  SVs = {0, 1, 2, 3}
  Sizes = {1, 1, 2, 3, 4}
  Stray = TRUE
  BVals = {}
  BSVs = {}
  Depth = 30
INVARIANT Emit
CHECK_DEADLOCK FALSE

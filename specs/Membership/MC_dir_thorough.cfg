\* measured: 17,164 distinct / 2,271,165 generated states, ~45 s with 6 workers; channels = (g1,1),(g1,2),(g2,1)
SPECIFICATION Spec
CONSTANTS
  Users = {"u1", "u2"}
  NCh = 3
  MemSlots <- SlotsDir
  CmdSlots <- NoSlots
  Kinds <- KindsDir
  Tombs = {FALSE, TRUE}
  Vals = {0}
  Ats = {0, 1, 2}
  SVs = {0}
  Sizes = {1, 2, 3}
  Stray = FALSE
  BVals = {}
  BSVs = {0}
VIEW View
INVARIANTS TypeOK C16_PassExact
PROPERTIES C16_SourceVersionForward C16_CursorsForward C16_RecreateOnlyNewer C16_OlderSourceRefused C16_AckForward C16_FailedUnchanged
CHECK_DEADLOCK FALSE

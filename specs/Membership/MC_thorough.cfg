\* measured: 2,282 distinct / 2,293,411 generated states, ~65 s with 4 workers
SPECIFICATION Spec
CONSTANTS
  Users = {"u1"}
  NCh = 1
  MemSlots <- SlotsOne
  CmdSlots <- SlotsOne
  Kinds <- KindsAll
  Tombs = {FALSE, TRUE}
  Vals = {0, 1, 2}
  Ats = {0, 1, 2}
  SVs = {0, 1, 2}
  Sizes = {1}
  Stray = FALSE
  BVals = {2}
  BSVs = {1, 2}
VIEW View
INVARIANTS TypeOK C16_PassExact
PROPERTIES C16_SourceVersionForward C16_CursorsForward C16_RecreateOnlyNewer C16_OlderSourceRefused C16_AckForward C16_FailedUnchanged
CHECK_DEADLOCK FALSE

--------------------------------- MODULE Sim ---------------------------------
(* Behaviour generator: `tlc -simulate` on this module prints one JSON behaviour
   per line ("BEH {...}") when a run reaches Depth steps.  Arguments are drawn with
   RandomElement; half of them are "aimed" (the stored value of the row minus one,
   equal, plus one; activation times copied from the row with the same channel id and
   the other channel type), batches with two operations on the same row, directory
   passes are continued with the returned cursor, and earlier calls are replayed. *)
EXTENDS Membership, Json, TLC
CONSTANT Depth
VARIABLE hist

SimInit == Init /\ hist = << [ev |-> ev, st |-> Proj] >>
Pick(S) == {RandomElement(S)}
Clamp(x) == IF x < 0 THEN 0 ELSE x

KindBag == {"upsert", "upsert2", "upsert3", "ensure", "ensure2", "ensure3", "read", "read2", "activate", "activate2",
            "hide", "delete", "cupsert", "cupsert2", "cack", "cack2", "ctomb"}
Base(k) == CASE k \in {"upsert2", "upsert3"} -> "upsert" [] k \in {"ensure2", "ensure3"} -> "ensure"
             [] k = "read2" -> "read" [] k = "activate2" -> "activate" [] k = "cupsert2" -> "cupsert"
             [] k = "cack2" -> "cack" [] OTHER -> k

\* Only the fields an operation kind reads are kept.
Shape(k, m) ==
  CASE k \in {"upsert", "ensure"} -> [m EXCEPT !.ack = 0]
    [] k = "read"     -> [ZeroArg EXCEPT !.read = m.read]
    [] k = "activate" -> [ZeroArg EXCEPT !.at = IF m.at = 0 THEN 1 ELSE m.at]
    [] k = "hide"     -> [ZeroArg EXCEPT !.del = m.del]
    [] k = "cupsert"  -> [ZeroArg EXCEPT !.tomb = m.tomb, !.ack = m.ack]
    [] k = "cack"     -> [ZeroArg EXCEPT !.ack = m.ack]
    [] OTHER          -> ZeroArg

\* sib: the activation time is copied from the row of the same user with the same
\* channel id and the other channel type (equal activation times make the channel
\* type the only thing that orders two entries of the directory index).
Arg(ex, cx, sx, sib, near, t, dr, dd, da, ds, dk, r, d, a, s, k2) ==
  [tomb |-> t = 1,
   read |-> IF near THEN Clamp(ex.read + dr) ELSE r,
   del  |-> IF near THEN Clamp(ex.del + dd) ELSE d,
   at   |-> IF sib THEN sx.at ELSE IF near THEN Clamp(ex.at + da) ELSE a,
   sv   |-> IF near THEN Clamp(ex.sv + ds) ELSE s,
   ack  |-> IF near THEN Clamp(cx.ack + dk) ELSE k2]

AllSlots == Users \X Chans
PresentM == {s \in AllSlots : mem[s[1]][s[2]].present}
PresentC == {s \in AllSlots : cmd[s[1]][s[2]].present}
OrAll(S) == IF S = {} THEN AllSlots ELSE S
IsCmd(k) == k \in {"cupsert", "cack", "ctomb"}
Creates(k) == k \in {"upsert", "ensure", "cupsert"}
\* the channel with the same id and the other type (itself when there is none)
Partner(c) == IF c % 2 = 1 THEN (IF c + 1 <= NCh THEN c + 1 ELSE c) ELSE c - 1

\* One operation of a kind drawn from kb.  fixed = FALSE: mutators are aimed at rows
\* that exist (3 of 4), creators at any slot (1 of 2); fixed = TRUE: on slot fs.
Draw(kb, fixed, fs) ==
  {LET kk == Base(k)
       sl == IF fixed THEN fs
             ELSE IF coin = 1 \/ (Creates(kk) /\ coin = 2) THEN sr ELSE IF IsCmd(kk) THEN sc ELSE sm
   IN [k |-> kk, u |-> sl[1], c |-> sl[2],
       m |-> Shape(kk, Arg(mem[sl[1]][sl[2]], cmd[sl[1]][sl[2]], mem[sl[1]][Partner(sl[2])], sib = 1,
                           near, t, dr, dd, da, ds, dk, r, d, a, s, k2))] :
     k \in Pick(kb), sm \in Pick(OrAll(PresentM)), sc \in Pick(OrAll(PresentC)), sr \in Pick(AllSlots),
     coin \in Pick(1..4), sib \in Pick(1..3), near \in Pick(BOOLEAN), t \in Pick(1..4),
     dr \in Pick({-1, 0, 1}), dd \in Pick({-1, 0, 1}), da \in Pick({-1, 0, 1}), ds \in Pick({-1, 0, 1}),
     dk \in Pick({-1, 0, 1}), r \in Pick(Vals), d \in Pick(Vals), a \in Pick(Ats), s \in Pick(SVs), k2 \in Pick(Vals)}
RandOp == Draw(KindBag, FALSE, <<"u1", 1>>)

CallStep  == \E o \in RandOp : Call(o)
BatchStep == \E n \in Pick({1, 2, 3}) : \E o1 \in RandOp, o2 \in RandOp, o3 \in RandOp :
               Batch(SubSeq(<<o1, o2, o3>>, 1, n))
\* Two (or three) operations on the SAME row in one batch: the later ones are resolved
\* against what the earlier ones staged.  Command-channel binding: a (re-)bind followed
\* by ack / tombstone / bind; conversation membership: a source write followed by a
\* live-row mutator or another source write, and the opposite order.
AckedC == {s \in PresentC : cmd[s[1]][s[2]].ack > 0 /\ ~cmd[s[1]][s[2]].tomb}
LiveM  == {s \in PresentM : ~mem[s[1]][s[2]].tomb}
PairStep ==
  \E mode \in Pick(1..5) :
    \E sl \in Pick(IF mode <= 2 THEN (IF AckedC # {} THEN AckedC ELSE OrAll(PresentC))
                   ELSE (IF LiveM # {} THEN LiveM ELSE OrAll(PresentM))), nn \in Pick(1..4) :
      \E o1 \in Draw(IF mode <= 2 THEN {"cupsert"} ELSE IF mode <= 4 THEN {"upsert", "ensure"}
                     ELSE {"read", "hide", "activate"}, TRUE, sl),
         o2 \in Draw(IF mode <= 2 THEN {"cack", "ctomb", "cupsert"}
                     ELSE IF mode <= 4 THEN {"read", "hide", "activate", "upsert", "ensure"}
                     ELSE {"upsert", "ensure"}, TRUE, sl),
         o3 \in Draw(IF mode <= 2 THEN {"cack", "ctomb", "cupsert"} ELSE KindBag \ {"cupsert", "cupsert2", "cack", "cack2", "ctomb"},
                     TRUE, sl) :
        Batch(SubSeq(<<o1, o2, o3>>, 1, IF nn = 4 THEN 3 ELSE 2))
Busy == {u \in Users : Cardinality({c \in Chans : mem[u][c].present}) >= 2}
InPass == {u \in Users : pass[u].on}
ListStep  ==
  \E u \in Pick(IF InPass # {} THEN InPass ELSE IF Busy # {} THEN Busy ELSE Users),
     ur \in Pick(Users), nn \in Pick(1..6), mode \in Pick(1..8), sc \in Pick(Chans), sa \in Pick(Ats) :
    LET n == IF nn <= 3 THEN 1 ELSE nn - 2
        w == IF mode = 7 THEN ur ELSE u
    IN ListPage(w, IF pass[w].on /\ mode <= 6 THEN pass[w].cur
                   ELSE IF mode = 8 THEN [c |-> sc, at |-> sa] ELSE ZeroCur, n)
ReplayStep ==
  /\ Len(hist) >= 2
  /\ \E i \in Pick(2..Len(hist)) :
       LET e == hist[i].ev IN
       \/ e.a = "Call" /\ Call(e.op)
       \/ e.a = "Batch" /\ Batch(e.ops)

SimStep ==
  \/ CallStep
  \/ CallStep
  \/ CallStep
  \/ BatchStep
  \/ BatchStep
  \/ PairStep
  \/ PairStep
  \/ ListStep
  \/ ListStep
  \/ ListStep
  \/ ReplayStep
  \/ (RandomElement(1..10) = 1 /\ Reopen)
SimNext == SimStep /\ hist' = Append(hist, [ev |-> ev', st |-> Proj'])
Emit    == Len(hist) = Depth + 1 => PrintT("BEH " \o ToJson([steps |-> hist]))
===============================================================================

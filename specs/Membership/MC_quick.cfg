\* measured: 763 distinct / 655,418 generated states (incl. same-row batch pairs), ~35 s with 6 workers
SPECIFICATION Spec
CONSTANTS
  Users = {"u1"}
  NCh = 1
  MemSlots <- SlotsOne
  CmdSlots <- SlotsOne
  Kinds <- KindsAll
  Tombs = {FALSE, TRUE}
  Vals = {0, 1, 2}
  Ats = {0, 1}
  SVs = {0, 1, 2}
  Sizes = {}
  Stray = FALSE
  BVals = {1}
  BSVs = {1, 2}
VIEW View
INVARIANTS TypeOK C16_PassExact
PROPERTIES C16_SourceVersionForward C16_CursorsForward C16_RecreateOnlyNewer C16_OlderSourceRefused C16_AckForward C16_FailedUnchanged
CHECK_DEADLOCK FALSE

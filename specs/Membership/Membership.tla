------------------------------ MODULE Membership ------------------------------
(* Per-user conversation membership rows and command-channel membership rows of the
   Pebble-backed metadata DB (pkg/db/meta/table_user_channel_membership.go,
   table_user_cmd_channel_membership.go), and the activation-ordered directory scan.

   Abstract state: mem[u][c] (conversation membership of user u in channel c) and
   cmd[u][c] (command-channel binding), each absent or a record of the fields
   property C16 speaks about.  The resolvers (resolveUserChannelMembership,
   resolveEnsuredUserChannelMembership, resolveUserCMDChannelMembership) and the
   live-row mutators are transcribed, not idealised.

   Actions:
     Call(op)    one operation through the Shard method of the same name
     Batch(ops)  the same operations staged on a WriteBatch and committed atomically
                 (resolved in order against the rows written earlier in the batch; an
                 operation on a missing row fails the whole batch)
     ListPage    ListUserChannelMembershipPage(uid, cursor, limit)
     Reopen      Close + Open of the database
   Operation kinds [k, u, c, m]:
     upsert   UpsertUserChannelMembership       (subscriber-derived, source-version fenced)
     ensure   EnsureUserChannelMembership       (source projection: create or fence advance)
     read     AdvanceUserChannelMembershipReadSeq
     activate ActivateUserChannelMembership / SetUserChannelMembershipActivatedAt
     hide     HideUserChannelMembership
     delete   DeleteUserChannelMembership
     cupsert  UpsertUserCMDChannelMembership
     cack     AdvanceUserCMDChannelMembershipAckSeq
     ctomb    TombstoneUserCMDChannelMembership

   Two deliberate incarnation boundaries of the code are named, not hidden:
     Recreate  a source write with a strictly newer source version may replace the
               cursors (ensure on a fenced row; upsert of a live row over a tombstone)
     Rebind    upserting a live command-channel binding over a tombstoned one resets
               its acknowledgement ("Rebinding a tombstoned row resets its start and
               acknowledgement boundaries")

   Not modelled: JoinSeq/StartSeq, UpdatedAt, TombstoneAt (held constant by the
   harness, not compared).

   Channels: a channel is a pair (channel id, channel type) - the type is part of the
   primary key and of the activation index key, so one user may hold the SAME channel
   id under several types.  Channels are numbered 1..NCh in key order; channel n has
   id ChId(n) = (n+1) \div 2 and type ChType(n) = 2 - n % 2, i.e.
       1 = (g1, type 1)   2 = (g1, type 2)   3 = (g2, type 1)   4 = (g2, type 2)
   so channels 1/2 (and 3/4) share one id and differ in type only, and channel 3
   sorts after channel 2 although its type is smaller (id-major order).  The harness
   names channel n "g<ChId(n)>" with channel type ChType(n); command channels get the
   same id with the "____cmd" suffix and the same type. *)
EXTENDS Integers, Sequences, FiniteSets, SequencesExt

CONSTANTS
  Users,     \* user names (strings)
  NCh,       \* channels are 1..NCh
  MemSlots,  \* <<u, c>> pairs on which conversation-membership calls are tried by Next
  CmdSlots,  \* <<u, c>> pairs on which command-channel calls are tried by Next
  Kinds,     \* operation kinds tried by Next
  Tombs,     \* tombstone flags tried in candidates
  Vals,      \* cursor values tried (read, delete-to, ack)
  Ats,       \* activation times tried
  SVs,       \* source versions tried
  Sizes,     \* page sizes tried
  Stray,     \* BOOLEAN: also try cursors that do not continue a pass
  BVals,     \* cursor values tried inside batches by Next
  BSVs       \* source versions tried inside batches by Next

VARIABLES
  mem,       \* [Users -> [1..NCh -> row]]
  cmd,       \* [Users -> [1..NCh -> row]]
  pass,      \* [Users -> directory pass in progress] (history, not observable)
  ev         \* last call and reply (observation only)

vars == <<mem, cmd, pass, ev>>
Chans == 1..NCh
ChId(c)   == (c + 1) \div 2
ChType(c) == 2 - (c % 2)
\* key order of (channel id, channel type)
KeyLess(c, d) == ChId(c) < ChId(d) \/ (ChId(c) = ChId(d) /\ ChType(c) < ChType(d))

MAbsent == [present |-> FALSE, tomb |-> FALSE, read |-> 0, del |-> 0, at |-> 0, sv |-> 0]
CAbsent == [present |-> FALSE, tomb |-> FALSE, ack |-> 0]
ZeroArg == [tomb |-> FALSE, read |-> 0, del |-> 0, at |-> 0, sv |-> 0, ack |-> 0]
ZeroCur == [c |-> 0, at |-> 0]
Off     == [on |-> FALSE, cur |-> ZeroCur, acc |-> <<>>, fin |-> FALSE]

Max2(a, b) == IF a >= b THEN a ELSE b
MRow(m) == [present |-> TRUE, tomb |-> m.tomb, read |-> m.read, del |-> m.del, at |-> m.at, sv |-> m.sv]

\* resolveUserChannelMembership
ResolveUpsert(ex, m) ==
  IF ~ex.present THEN MRow(m)
  ELSE IF m.sv < ex.sv THEN ex
  ELSE IF m.sv = ex.sv THEN (IF ex.tomb /\ ~m.tomb THEN [ex EXCEPT !.tomb = FALSE] ELSE ex)
  ELSE IF m.tomb THEN [ex EXCEPT !.tomb = TRUE, !.sv = m.sv]
  ELSE IF ex.tomb THEN MRow(m)                                    \* Recreate (rejoin)
  ELSE [ex EXCEPT !.sv = m.sv]

\* resolveEnsuredUserChannelMembership
ResolveEnsure(ex, m) ==
  IF ~ex.present THEN MRow(m)
  ELSE IF m.sv <= ex.sv THEN ex
  ELSE IF ex.sv = 0
    THEN [ex EXCEPT !.read = Max2(ex.read, m.read), !.del = Max2(ex.del, m.del), !.sv = m.sv]
    ELSE [ex EXCEPT !.read = m.read, !.del = m.del, !.sv = m.sv]    \* Recreate

\* resolveUserCMDChannelMembership
ResolveCmd(ex, m) ==
  IF ~ex.present \/ (ex.tomb /\ ~m.tomb) THEN [present |-> TRUE, tomb |-> m.tomb, ack |-> m.ack]  \* create / Rebind
  ELSE IF ex.tomb THEN ex
  ELSE [ex EXCEPT !.ack = Max2(ex.ack, m.ack)]

\* One operation against the state st = [mem, cmd]; returns the new state and error.
ApplyOp(st, op) ==
  LET u  == op.u
      c  == op.c
      m  == op.m
      ex == st.mem[u][c]
      cx == st.cmd[u][c]
      setm(r) == [mem |-> [st.mem EXCEPT ![u][c] = r], cmd |-> st.cmd, err |-> "ok"]
      setc(r) == [mem |-> st.mem, cmd |-> [st.cmd EXCEPT ![u][c] = r], err |-> "ok"]
      same    == [mem |-> st.mem, cmd |-> st.cmd, err |-> "ok"]
      missing == [mem |-> st.mem, cmd |-> st.cmd, err |-> "notfound"]
      \* mutators of a live conversation membership: missing row fails, tombstone ignores
      live(r) == IF ~ex.present THEN missing ELSE IF ex.tomb THEN same ELSE setm(r)
      clive(r) == IF ~cx.present THEN missing ELSE IF cx.tomb THEN same ELSE setc(r)
  IN CASE op.k = "upsert"   -> setm(ResolveUpsert(ex, m))
       [] op.k = "ensure"   -> setm(ResolveEnsure(ex, m))
       [] op.k = "read"     -> live([ex EXCEPT !.read = Max2(ex.read, m.read)])
       [] op.k = "activate" -> live([ex EXCEPT !.at = Max2(ex.at, m.at)])
       [] op.k = "hide"     -> live([ex EXCEPT !.del = Max2(ex.del, m.del), !.at = 0])
       [] op.k = "delete"   -> setm(MAbsent)
       [] op.k = "cupsert"  -> setc(ResolveCmd(cx, m))
       [] op.k = "cack"     -> clive([cx EXCEPT !.ack = Max2(cx.ack, m.ack)])
       [] op.k = "ctomb"    -> clive([cx EXCEPT !.tomb = TRUE])

RECURSIVE RunOps(_, _)
RunOps(st, ops) ==
  IF ops = <<>> THEN st
  ELSE LET r == ApplyOp(st, Head(ops)) IN
       IF r.err # "ok" THEN r ELSE RunOps(r, Tail(ops))

\* A directory pass survives a step only if no row of its user changed.
PassAfter(mem2) == [u \in Users |-> IF mem2[u] = mem[u] THEN pass[u] ELSE Off]

Commit(ops, name, evrec) ==
  LET r  == RunOps([mem |-> mem, cmd |-> cmd, err |-> "ok"], ops)
      ok == r.err = "ok"
      m2 == IF ok THEN r.mem ELSE mem
  IN /\ mem' = m2
     /\ cmd' = IF ok THEN r.cmd ELSE cmd
     /\ pass' = PassAfter(m2)
     /\ ev' = [evrec EXCEPT !.res = [err |-> r.err]]

Call(op)   == Commit(<<op>>, "Call", [a |-> "Call", op |-> op, res |-> [err |-> "ok"]])
Batch(ops) == Commit(ops, "Batch", [a |-> "Batch", ops |-> ops, res |-> [err |-> "ok"]])

\* ---- directory scan --------------------------------------------------------------
\* Index order: activation time descending, then channel id, then channel type.
Before(a, b) == a.at > b.at \/ (a.at = b.at /\ KeyLess(a.c, b.c))
Entries(mm, u, livOnly) ==
  SetToSortSeq({[c |-> c, at |-> mm[u][c].at] :
                  c \in {x \in Chans : mm[u][x].present /\ (livOnly => ~mm[u][x].tomb)}}, Before)
LiveSorted(mm, u) == Entries(mm, u, TRUE)

ListPage(u, cur, n) ==
  LET all   == Entries(mem, u, FALSE)                 \* tombstoned rows are indexed too
      after == SelectSeq(all, LAMBDA e : cur.c = 0 \/ Before(cur, e))
      page  == SubSeq(after, 1, IF n < Len(after) THEN n ELSE Len(after))
      done  == Len(after) <= n
      next  == IF Len(page) = 0 THEN cur ELSE page[Len(page)]
      liv   == SelectSeq(page, LAMBDA e : ~mem[u][e.c].tomb)
      fresh == cur.c = 0
      cont  == pass[u].on /\ cur = pass[u].cur
      p2    == IF fresh THEN [on |-> ~done, cur |-> next, acc |-> liv, fin |-> done]
               ELSE IF cont THEN [on |-> ~done, cur |-> next, acc |-> pass[u].acc \o liv, fin |-> done]
               ELSE Off
  IN /\ pass' = [pass EXCEPT ![u] = p2]
     /\ ev' = [a |-> "ListPage", u |-> u, cur |-> cur, n |-> n,
               res |-> [rows |-> liv, next |-> next, done |-> done]]
     /\ UNCHANGED <<mem, cmd>>

Reopen ==
  /\ ev' = [a |-> "Reopen", res |-> [ok |-> TRUE]]
  /\ UNCHANGED <<mem, cmd, pass>>

Init ==
  /\ mem = [u \in Users |-> [c \in Chans |-> MAbsent]]
  /\ cmd = [u \in Users |-> [c \in Chans |-> CAbsent]]
  /\ pass = [u \in Users |-> Off]
  /\ ev = [a |-> "Init"]

\* ---- arguments tried by the exhaustive runs -------------------------------------
MCands(T, V, A, S) == {[ZeroArg EXCEPT !.tomb = t, !.read = r, !.del = d, !.at = a, !.sv = s] :
                         t \in T, r \in V, d \in V, a \in A, s \in S}
OpsOn(slots, kinds, T, V, A, S, isCmd) ==
  LET mk(k, s, m) == [k |-> k, u |-> s[1], c |-> s[2], m |-> m] IN
  IF isCmd
    THEN {mk("cupsert", s, [ZeroArg EXCEPT !.tomb = t, !.ack = v]) : s \in slots, t \in T, v \in V}
           \cup {mk("cack", s, [ZeroArg EXCEPT !.ack = v]) : s \in slots, v \in V}
           \cup {mk("ctomb", s, ZeroArg) : s \in slots}
    ELSE {mk(k, s, m) : k \in {"upsert", "ensure"}, s \in slots, m \in MCands(T, V, A, S)}
           \cup {mk("read", s, [ZeroArg EXCEPT !.read = v]) : s \in slots, v \in V}
           \cup {mk("activate", s, [ZeroArg EXCEPT !.at = a]) : s \in slots, a \in A \ {0}}
           \cup {mk("hide", s, [ZeroArg EXCEPT !.del = v]) : s \in slots, v \in V}
           \cup {mk("delete", s, ZeroArg) : s \in slots}
AllOps(T, V, A, S) ==
  {o \in OpsOn(MemSlots, Kinds, T, V, A, S, FALSE) \cup OpsOn(CmdSlots, Kinds, T, V, A, S, TRUE) : o.k \in Kinds}
SingleOps == AllOps(Tombs, Vals, Ats, SVs)
BOps      == AllOps(Tombs, BVals, {1} \cap Ats, BSVs)
\* Two operations on the SAME row inside one batch (the second is resolved against
\* what the first staged, not against the stored row), with the full value domain:
\*   command-channel binding: every pair of cupsert / cack / ctomb
\*   conversation membership: a source write (upsert / ensure, batch source versions)
\*                            followed by a live-row mutator (read / hide / activate);
\*                            the opposite order is in BOps x BOps with the batch values
SameRow(o1, o2) == o1.u = o2.u /\ o1.c = o2.c
CPairOps  == {o \in SingleOps : o.k \in {"cupsert", "cack", "ctomb"}}
MSrcOps   == {o \in AllOps({FALSE}, Vals, {0}, BSVs) : o.k \in {"upsert", "ensure"}}
MMutOps   == {o \in SingleOps : o.k \in {"read", "hide", "activate"}}
SamePair(o1, o2) == SameRow(o1, o2) /\ ((o1 \in CPairOps /\ o2 \in CPairOps) \/ (o1 \in MSrcOps /\ o2 \in MMutOps))
Cursors(u) == {ZeroCur} \cup (IF pass[u].on THEN {pass[u].cur} ELSE {})
                \cup (IF Stray THEN {[c |-> c, at |-> a] : c \in Chans, a \in Ats} ELSE {})

Next ==
  \/ \E o \in SingleOps : Call(o)
  \/ \E o \in BOps : Batch(<<o>>)
  \/ \E o1 \in BOps, o2 \in BOps : Batch(<<o1, o2>>)
  \/ \E o1 \in CPairOps \cup MSrcOps, o2 \in CPairOps \cup MMutOps : SamePair(o1, o2) /\ Batch(<<o1, o2>>)
  \/ \E u \in Users, n \in Sizes : \E cur \in Cursors(u) : ListPage(u, cur, n)
  \/ Reopen

Spec == Init /\ [][Next]_vars

\* Observable projection: Get of every conversation and command-channel row.
Proj == [mem |-> mem, cmd |-> cmd]

-------------------------------------------------------------------------------
\* Property C16 on the design.

TypeOK ==
  \A u \in Users, c \in Chans :
    /\ ~mem[u][c].present => mem[u][c] = MAbsent
    /\ ~cmd[u][c].present => cmd[u][c] = CAbsent

OpsOf(e) == IF e.a = "Call" THEN <<e.op>> ELSE IF e.a = "Batch" THEN e.ops ELSE <<>>
Touches(e, u, c, k) == \E i \in 1..Len(OpsOf(e)) :
                         OpsOf(e)[i].k = k /\ OpsOf(e)[i].u = u /\ OpsOf(e)[i].c = c
\* A delete ends the history of a row; what is created afterwards is a new row.
Continues(u, c) == mem[u][c].present /\ mem'[u][c].present /\ ~Touches(ev', u, c, "delete")

\* The source version of a row never decreases.
C16_SourceVersionForward ==
  [][\A u \in Users, c \in Chans : Continues(u, c) => mem'[u][c].sv >= mem[u][c].sv]_vars

\* Within one membership incarnation (source version unchanged, or an unfenced row
\* receiving its first source projection through one ensure) the read cursor and the
\* delete-to boundary never move backwards.  (A batch may carry two projections of
\* the same row: the first fences it, the second is then a Recreate.)
NTouch(e, u, c, k) == Cardinality({i \in 1..Len(OpsOf(e)) :
                                     OpsOf(e)[i].k = k /\ OpsOf(e)[i].u = u /\ OpsOf(e)[i].c = c})
C16_CursorsForward ==
  [][\A u \in Users, c \in Chans :
       Continues(u, c) /\ (mem'[u][c].sv = mem[u][c].sv
                           \/ (mem[u][c].sv = 0 /\ ~Touches(ev', u, c, "upsert")
                                                /\ NTouch(ev', u, c, "ensure") <= 1)) =>
         /\ mem'[u][c].read >= mem[u][c].read
         /\ mem'[u][c].del >= mem[u][c].del]_vars

\* Recreate: cursors are reset only together with a strictly newer source version and
\* only through the source projection paths (upsert / ensure).
C16_RecreateOnlyNewer ==
  [][\A u \in Users, c \in Chans :
       Continues(u, c) /\ (mem'[u][c].read < mem[u][c].read \/ mem'[u][c].del < mem[u][c].del) =>
         /\ mem'[u][c].sv > mem[u][c].sv
         /\ Touches(ev', u, c, "upsert") \/ Touches(ev', u, c, "ensure")]_vars

\* Subscriber-derived writes carrying an older source version are refused (for the
\* projection path also an equal one).
Single(e) == e.a = "Call" \/ (e.a = "Batch" /\ Len(e.ops) = 1)
C16_OlderSourceRefused ==
  [][Single(ev') =>
       LET o == OpsOf(ev')[1] IN
       (/\ o.k \in {"upsert", "ensure"}
        /\ mem[o.u][o.c].present
        /\ o.m.sv < mem[o.u][o.c].sv \/ (o.k = "ensure" /\ o.m.sv = mem[o.u][o.c].sv))
       => mem' = mem]_vars

\* The command-channel acknowledgement never moves backwards, except at a Rebind of
\* a tombstoned binding.
C16_AckForward ==
  [][\A u \in Users, c \in Chans :
       cmd[u][c].present /\ cmd'[u][c].present /\ cmd'[u][c].ack < cmd[u][c].ack =>
         /\ Touches(ev', u, c, "cupsert")
         /\ cmd[u][c].tomb \/ Touches(ev', u, c, "ctomb")]_vars

\* A failed call or batch writes nothing.
C16_FailedUnchanged ==
  [][ev'.a \in {"Call", "Batch"} /\ ev'.res.err # "ok" => mem' = mem /\ cmd' = cmd]_vars

\* A completed directory pass listed each live membership exactly once, in
\* (activation time descending, channel id, channel type) order.
C16_PassExact ==
  \A u \in Users : pass[u].fin => pass[u].acc = LiveSorted(mem, u)

View == <<mem, cmd, pass>>

-------------------------------------------------------------------------------
\* Domains used by the configurations (tuples cannot be written in a .cfg).
SlotsOne   == {<<"u1", 1>>}
SlotsDir   == {<<"u1", 1>>, <<"u1", 2>>, <<"u1", 3>>, <<"u2", 1>>}
SlotsDirQ  == {<<"u1", 1>>, <<"u1", 2>>, <<"u2", 1>>}
NoSlots    == {}
KindsAll   == {"upsert", "ensure", "read", "activate", "hide", "delete", "cupsert", "cack", "ctomb"}
KindsDir   == {"upsert", "activate", "hide", "delete"}
===============================================================================

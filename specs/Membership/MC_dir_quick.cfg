\* measured: 1,876 distinct / 206,361 generated states, ~16 s with 6 workers; channels 1,2 = (g1,type 1),(g1,type 2)
SPECIFICATION Spec
CONSTANTS
  Users = {"u1", "u2"}
  NCh = 2
  MemSlots <- SlotsDirQ
  CmdSlots <- NoSlots
  Kinds <- KindsDir
  Tombs = {FALSE, TRUE}
  Vals = {0}
  Ats = {0, 1, 2}
  SVs = {0}
  Sizes = {1, 2}
  Stray = TRUE
  BVals = {}
  BSVs = {0}
VIEW View
INVARIANTS TypeOK C16_PassExact
PROPERTIES C16_SourceVersionForward C16_CursorsForward C16_RecreateOnlyNewer C16_OlderSourceRefused C16_AckForward C16_FailedUnchanged
CHECK_DEADLOCK FALSE

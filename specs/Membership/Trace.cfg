SPECIFICATION TraceSpec
CONSTANTS
  Users = {"u1", "u2"}
  NCh = 3
  MemSlots <- NoSlots
  CmdSlots <- NoSlots
  Kinds <- KindsAll
  Tombs = {}
  Vals = {}
  Ats = {}
  SVs = {}
  Sizes = {}
  Stray = FALSE
  BVals = {}
  BSVs = {}
CONSTRAINT Track
INVARIANTS Conform TypeOK C16_PassExact
PROPERTIES C16_SourceVersionForward C16_CursorsForward C16_RecreateOnlyNewer C16_OlderSourceRefused C16_AckForward C16_FailedUnchanged
POSTCONDITION Accepted
CHECK_DEADLOCK FALSE

-------------------------------- MODULE Trace --------------------------------
(* Trace validation: the NDJSON file written by the harness (one step per line,
   traces concatenated, each starting with an "Init" line) must be a behaviour of
   Membership.  The call arguments are bound from the log; reply and projection are
   then determined by the specification and compared in the invariant Conform.  The
   C16 properties (including the exactness of every completed directory pass) are
   evaluated on every step. *)
EXTENDS Membership, Json, TLC
VARIABLE l

Log == ndJsonDeserialize("trace.ndjson")

TraceInit == Init /\ l = 1

Reset0 ==
  /\ mem' = [u \in Users |-> [c \in Chans |-> MAbsent]]
  /\ cmd' = [u \in Users |-> [c \in Chans |-> CAbsent]]
  /\ pass' = [u \in Users |-> Off]
  /\ ev' = Log[l].ev

Step(e) ==
  CASE e.a = "Init"     -> Reset0
    [] e.a = "Call"     -> Call(e.op)
    [] e.a = "Batch"    -> Batch(e.ops)
    [] e.a = "ListPage" -> ListPage(e.u, e.cur, e.n)
    [] e.a = "Reopen"   -> Reopen

TraceNext == l <= Len(Log) /\ l' = l + 1 /\ Step(Log[l].ev)

TraceSpec == TraceInit /\ [][TraceNext]_<<vars, l>>

\* Deterministic step: the logged reply and projection must be the specification's.
Conform ==
  l > 1 /\ Log[l - 1].ev.a # "Init" =>
    /\ ev.res = Log[l - 1].ev.res
    /\ Proj = Log[l - 1].st

\* Acceptance: every line was consumed.
HW       == TLCSet(1, IF l > TLCGet(1) THEN l ELSE TLCGet(1))
Track    == HW
Accepted == TLCGet(1) = Len(Log) + 1
ASSUME TLCSet(1, 0)
===============================================================================

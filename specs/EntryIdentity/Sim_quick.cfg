\* quick: sub-cubes (4 of 14 fields held at 0 in the sealed proposal; all 14 are perturbed).
INIT SimInit
NEXT SimNext
CONSTANTS
  RecCounts = {1, 2, 3}
  GenModes = {TRUE, FALSE}
  MaxDist = 99
  Depth = 25
  EnumRecCounts1 = {1}
  EnumFixed1 = {"setting", "fence", "pterm", "ts"}
  EnumRecCounts2 = {2}
  EnumFixed2 = {"setting", "ts", "id", "sync", "payload", "fence", "pterm", "epoch", "term"}
INVARIANT Emit
CHECK_DEADLOCK FALSE

\* Every sealed single-record genesis proposal (no reliance on the value symmetry) with every
\* single-field perturbation, Adopt included.
SPECIFICATION Spec
CONSTANTS
  RecCounts = {1}
  GenModes = {TRUE}
  MaxDist = 1
VIEW View
CONSTRAINT Bound
INVARIANTS TypeOK C05_DigestBindsEveryField C05_VerifyExactRecord C05_VerifyExactHeader
CHECK_DEADLOCK FALSE

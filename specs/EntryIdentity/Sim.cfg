\* thorough: every single-record proposal (2^14 with predecessor + 2^11 at genesis) and a
\* sub-cube of two-record proposals, each with all single-field perturbations; plus random walks.
INIT SimInit
NEXT SimNext
CONSTANTS
  RecCounts = {1, 2, 3}
  GenModes = {TRUE, FALSE}
  MaxDist = 99
  Depth = 25
  EnumRecCounts1 = {1}
  EnumFixed1 = {}
  EnumRecCounts2 = {2}
  EnumFixed2 = {"setting", "ts", "id", "sync", "fence", "pterm", "epoch"}
INVARIANT Emit
CHECK_DEADLOCK FALSE

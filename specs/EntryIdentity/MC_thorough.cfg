\* All candidates within 5 field changes of the all-zero sealed proposal, 1 and 2 records.
SPECIFICATION SpecZero
CONSTANTS
  RecCounts = {1, 2}
  GenModes = {TRUE, FALSE}
  MaxDist = 5
VIEW View
CONSTRAINT Bound
INVARIANTS TypeOK C05_DigestBindsEveryField C05_VerifyExactRecord C05_VerifyExactHeader
CHECK_DEADLOCK FALSE

\* All candidates within 3 field changes of the all-zero sealed proposal (see InitZero in the
\* module for why one sealed proposal suffices), proposals of 1 and 2 records, with and
\* without predecessor.  Measured: 3,252 distinct states, < 5 s.
SPECIFICATION SpecZero
CONSTANTS
  RecCounts = {1, 2}
  GenModes = {TRUE, FALSE}
  MaxDist = 3
VIEW View
CONSTRAINT Bound
INVARIANTS TypeOK C05_DigestBindsEveryField C05_VerifyExactRecord C05_VerifyExactHeader
CHECK_DEADLOCK FALSE

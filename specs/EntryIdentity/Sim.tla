--------------------------------- MODULE Sim ---------------------------------
(* Behaviour generator for EntryIdentity (spec -> code).  Two sources, both printed as
   "BEH {json}" lines:

   1. The enumeration the property quantifies over ("all records and manifests within field
      domains, and all single-field perturbations of them"): evaluated once, as an ASSUME, for
      every well-formed proposal whose fields outside EnumFixed range over both values.  One
      behaviour per proposal: Init(p), then for every perturbable field Perturb(k, f); Reset.
      The expected projection after each step is the module's own Obs.
   2. `-simulate` random walks of the module's Next (multi-field perturbations, Adopt),
      emitted when a run reaches Depth steps. *)
EXTENDS EntryIdentity, Json, TLC, SequencesExt
CONSTANTS Depth,
          \* Two enumerated families (so that short proposals can be enumerated over the full cube and
          \* longer ones over a sub-cube): proposal lengths, and the fields held at 0 in the enumerated
          \* sealed proposals (every field is still perturbed).
          EnumRecCounts1, EnumFixed1, EnumRecCounts2, EnumFixed2
VARIABLE hist

\* ---- 1. exhaustive enumeration ---------------------------------------------------------
Toggle(p, k, f) == IF k = 0 THEN [p EXCEPT !.hdr[f] = 1 - @] ELSE [p EXCEPT !.recs[k][f] = 1 - @]
Slots(p) == SetToSeq({<<0, f>> : f \in FreeHdr(p.gen)}) \o SetToSeq((1..N(p)) \X RecFields)
EnumSteps(p) ==
  LET slots == Slots(p)
      rest  == [ev |-> [a |-> "Reset"], st |-> Obs(p, p)]
  IN << [ev |-> [a |-> "Init", p |-> p], st |-> Obs(p, p)] >> \o
     FlattenSeq([i \in 1..Len(slots) |->
        << [ev |-> [a |-> "Perturb", k |-> slots[i][1], f |-> slots[i][2]],
            st |-> Obs(p, Toggle(p, slots[i][1], slots[i][2]))], rest >>])
\* Built from the free fields only (filtering the full cube would enumerate it).
EnumFamily(counts, fixed) ==
  { [gen |-> g,
     hdr |-> [f \in HdrFields |-> IF f \in DOMAIN h THEN h[f] ELSE 0],
     recs |-> [k \in 1..Len(rs) |-> [f \in RecFields |-> IF f \in DOMAIN rs[k] THEN rs[k][f] ELSE 0]]] :
       g \in GenModes,
       h \in UNION {[FreeHdr(gg) \ fixed -> Bit] : gg \in GenModes},
       rs \in UNION {[1..n -> [RecFields \ fixed -> Bit]] : n \in counts} }
EnumSet == {p \in EnumFamily(EnumRecCounts1, EnumFixed1) \cup EnumFamily(EnumRecCounts2, EnumFixed2) : Wellformed(p)}
ASSUME \A p \in EnumSet : PrintT("BEH " \o ToJson([steps |-> EnumSteps(p)]))

\* ---- 2. random walks ------------------------------------------------------------------
Pick(S) == {RandomElement(S)}
RecVals == [RecFields -> Bit]
InitDraws == 12
SimInit ==
  \* TLC computes the set of initial states once per run and starts every trace from a random
  \* member: draw InitDraws random proposals for every shape.
  /\ \E g \in GenModes, n \in RecCounts, draw \in 1..InitDraws :
       \E h \in Pick([HdrFields -> Bit]), r1 \in Pick(RecVals), r2 \in Pick(RecVals), r3 \in Pick(RecVals) :
          sealed = [gen |-> g,
                    hdr |-> [f \in HdrFields |-> IF g /\ f \in PredFields \cup {"base"} THEN 0 ELSE h[f]],
                    recs |-> SubSeq(<<r1, r2, r3>>, 1, n)]
  /\ cand = sealed
  /\ ev = [a |-> "Init", p |-> sealed]
  /\ hist = << [ev |-> ev, st |-> Proj] >>
DiffSlots == {<<0, f>> : f \in HdrDiff(sealed, cand)} \cup
             {<<k, f>> \in (1..N(sealed)) \X RecFields : sealed.recs[k][f] # cand.recs[k][f]}
SimStep ==
  \/ \E f \in Pick(FreeHdr(sealed.gen)) : PerturbHdr(f)
  \/ \E k \in Pick(1..N(sealed)), f \in Pick(RecFields) : PerturbRec(k, f)
  \/ \E k \in Pick(1..N(sealed)), f \in Pick(RecFields) : PerturbRec(k, f)
  \* aimed: undo one difference (walk back towards "same")
  \/ DiffSlots # {} /\ \E s \in Pick(DiffSlots) : IF s[1] = 0 THEN PerturbHdr(s[2]) ELSE PerturbRec(s[1], s[2])
  \/ (RandomElement(1..3) = 1 /\ Reset)
  \/ (RandomElement(1..3) = 1 /\ Adopt)
SimNext == SimStep /\ hist' = Append(hist, [ev |-> ev', st |-> Proj'])
Emit == Len(hist) = Depth + 1 => PrintT("BEH " \o ToJson([steps |-> hist]))
===============================================================================

----------------------------- MODULE EntryIdentity -----------------------------
(* Tuple model of the durable entry identity (pkg/quorumlog/proposal.go,
   pkg/channel/proposal.go) -- property C05.

   The code derives, for every record of a contiguous proposal, an identity
   (authority triple, index, predecessor, command, digest) where the digest is a
   SHA-256 over a length-prefixed serialisation.  The hash is outside TLA+; what
   the specification contributes is WHICH fields an identity binds.  Here the
   digest of an entry is the tuple of all semantic fields itself (`Tuple`), so
   "digest equal" is tuple equality and `VerifyEntry(identity, record)` is
   "the tuple rebuilt from the identity's header and the presented record equals
   the identity's digest".

   Every field ranges over two abstract values {0, 1}; the harness maps them to
   concrete values (several tables, see runner/harness/entryidentity).

   State: a sealed proposal and a candidate obtained from it by toggling single
   fields.  `Obs` -- the projection the real code is asked for after every step --
   says for every entry position k
     same[k]  the candidate's digest k equals the sealed digest k
     accR[k]  VerifyEntry(sealed identity k, candidate record k) accepts
     accH[k]  VerifyEntry(candidate header k + sealed digest k, sealed record k) accepts
   The C05 invariants state these three against the explicit list of semantic
   fields of the property text. *)
EXTENDS Integers, Sequences, FiniteSets

CONSTANTS
  RecCounts,  \* set of proposal lengths explored, e.g. {1, 2}
  GenModes,   \* subset of BOOLEAN: TRUE = proposal at genesis (no predecessor)
  MaxDist     \* bound on the number of differing fields (exhaustive runs only)

VARIABLES
  sealed,     \* the proposal the identities were sealed from
  cand,       \* the candidate proposal (same shape)
  ev          \* last call (observation only)

vars == <<sealed, cand, ev>>

Bit == {0, 1}

\* Semantic fields of the message (property text: id, sender, client message number,
\* setting, sync-once flag, server timestamp, payload).
RecFields == {"id", "sender", "cmn", "setting", "sync", "ts", "payload"}
\* Authority triple, command, index (base offset; the position adds to it) and external
\* predecessor (term and digest of the entry at the base offset).
AuthFields == {"epoch", "term", "fence"}
PredFields == {"pterm", "pdig"}
HdrFields  == AuthFields \cup {"cmd", "base"} \cup PredFields
\* At genesis there is no predecessor and the base offset is 0: those three are fixed.
FreeHdr(gen) == IF gen THEN AuthFields \cup {"cmd"} ELSE HdrFields

Proposals ==
  [gen : GenModes, hdr : [HdrFields -> Bit], recs : UNION {[1..n -> [RecFields -> Bit]] : n \in RecCounts}]
N(p) == Len(p.recs)
Wellformed(p) == p.gen => \A f \in PredFields \cup {"base"} : p.hdr[f] = 0

\* ---- the identity tuple ---------------------------------------------------------------
\* Predecessor of the first entry: nothing at genesis, else the external (term, index, digest).
Pred0(p) == IF p.gen THEN [kind |-> "genesis", term |-> 0, at |-> 0, dig |-> 0]
                     ELSE [kind |-> "ext", term |-> p.hdr["pterm"], at |-> p.hdr["base"], dig |-> p.hdr["pdig"]]

RECURSIVE Tuple(_, _)
\* Header of entry k: authority, command, index, predecessor (for k > 1 the identity of
\* entry k-1 of the same proposal: its term, its index and its digest = its tuple).
Header(p, k) ==
  [auth |-> <<p.hdr["epoch"], p.hdr["term"], p.hdr["fence"]>>,
   cmd  |-> p.hdr["cmd"],
   idx  |-> <<p.gen, p.hdr["base"], k>>,
   pred |-> IF k = 1 THEN [first |-> TRUE,  ext |-> Pred0(p), chain |-> <<>>]
                     ELSE [first |-> FALSE, ext |-> Pred0(p),
                           chain |-> <<p.hdr["term"], Tuple(p, k - 1)>>]]
Tuple(p, k) == [hdr |-> Header(p, k), rec |-> p.recs[k]]

\* VerifyEntry(identity with header h and digest d, record r)
Verify(h, d, r) == [hdr |-> h, rec |-> r] = d

Obs(s, c) ==
  [same |-> [k \in 1..N(s) |-> Tuple(c, k) = Tuple(s, k)],
   accR |-> [k \in 1..N(s) |-> Verify(Header(s, k), Tuple(s, k), c.recs[k])],
   accH |-> [k \in 1..N(s) |-> Verify(Header(c, k), Tuple(s, k), s.recs[k])]]
Proj == Obs(sealed, cand)

\* ---- field-wise view (used by the properties and the distance bound) -------------------
HdrDiff(s, c)    == {f \in HdrFields : s.hdr[f] # c.hdr[f]}
RecDiff(s, c, k) == {f \in RecFields : s.recs[k][f] # c.recs[k][f]}
Dist(s, c) == Cardinality(HdrDiff(s, c)) + Cardinality({<<k, f>> \in (1..N(s)) \X RecFields : s.recs[k][f] # c.recs[k][f]})

\* ---- actions ----------------------------------------------------------------------------
Init ==
  /\ sealed \in {p \in Proposals : Wellformed(p)}
  /\ cand = sealed
  /\ ev = [a |-> "Init", p |-> sealed]
\* No operator of this module inspects a field value (values are only copied and compared),
\* so the model is symmetric under renaming the two values of any field: exploring every
\* candidate against the all-zero sealed proposal covers every (sealed, candidate) pair up to
\* that renaming.  Used by the configurations that go beyond single-field distance.
InitZero ==
  /\ \E g \in GenModes, n \in RecCounts :
       sealed = [gen |-> g, hdr |-> [f \in HdrFields |-> 0], recs |-> [k \in 1..n |-> [f \in RecFields |-> 0]]]
  /\ cand = sealed
  /\ ev = [a |-> "Init", p |-> sealed]

\* Toggle one header field of the candidate (k = 0) ...
PerturbHdr(f) ==
  /\ f \in FreeHdr(sealed.gen)
  /\ cand' = [cand EXCEPT !.hdr[f] = 1 - @]
  /\ ev' = [a |-> "Perturb", k |-> 0, f |-> f]
  /\ UNCHANGED sealed
\* ... or one field of record k.
PerturbRec(k, f) ==
  /\ k \in 1..N(sealed) /\ f \in RecFields
  /\ cand' = [cand EXCEPT !.recs[k][f] = 1 - @]
  /\ ev' = [a |-> "Perturb", k |-> k, f |-> f]
  /\ UNCHANGED sealed
\* Forget all perturbations.
Reset ==
  /\ cand # sealed
  /\ cand' = sealed
  /\ ev' = [a |-> "Reset"]
  /\ UNCHANGED sealed
\* Seal the candidate: it becomes the reference.
Adopt ==
  /\ cand # sealed
  /\ sealed' = cand
  /\ ev' = [a |-> "Adopt"]
  /\ UNCHANGED cand

Next ==
  \/ \E f \in HdrFields : PerturbHdr(f)
  \/ \E k \in 1..N(sealed), f \in RecFields : PerturbRec(k, f)
  \/ Reset
  \/ Adopt

Spec == Init /\ [][Next]_vars
\* Without Adopt the sealed proposal never moves.
NextFixed ==
  \/ \E f \in HdrFields : PerturbHdr(f)
  \/ \E k \in 1..N(sealed), f \in RecFields : PerturbRec(k, f)
  \/ Reset
SpecZero == InitZero /\ [][NextFixed]_vars

View == <<sealed, cand>>
Bound == Dist(sealed, cand) <= MaxDist

TypeOK ==
  /\ sealed \in Proposals /\ Wellformed(sealed)
  /\ cand \in Proposals /\ Wellformed(cand)
  /\ cand.gen = sealed.gen /\ N(cand) = N(sealed)

\* ---- property C05 ------------------------------------------------------------------------
\* First sentence: the digest of entry k changes whenever a semantic field of its message,
\* its index, its authority, its command or its predecessor changes.  The predecessor of
\* entry k > 1 is entry k-1, so every field of an earlier record of the proposal is in scope.
C05_DigestBindsEveryField ==
  \A k \in 1..N(sealed) :
     Proj.same[k] <=> ( /\ HdrDiff(sealed, cand) = {}
                        /\ \A j \in 1..k : RecDiff(sealed, cand, j) = {} )
\* Second sentence: verification accepts a record under an identity exactly when it is the
\* content the identity was sealed from ...
C05_VerifyExactRecord ==
  \A k \in 1..N(sealed) : Proj.accR[k] <=> RecDiff(sealed, cand, k) = {}
\* ... and an identity whose header differs from the sealed one in any bound field does not
\* certify the sealed record under the sealed digest.
C05_VerifyExactHeader ==
  \A k \in 1..N(sealed) :
     Proj.accH[k] <=> ( /\ HdrDiff(sealed, cand) = {}
                        /\ \A j \in 1..(k - 1) : RecDiff(sealed, cand, j) = {} )
===============================================================================

\* Reducer level, exhaustive: one message, three event ids, every event kind and the batch pairs.
\* Measured: 19,210 distinct states, 4.96M transitions.
SPECIFICATION SpecDirect
CONSTANTS
  Msgs = {"m1"}
  Ids = {"e1", "e2", "e3"}
  Toks = {"a"}
  Snaps = {"S"}
  Reasons = {0, 1}
  DirectOn = TRUE
  LeaderOn = FALSE
  LeaderTerms = {"close"}
  DeltaAfterLoss = TRUE
VIEW MCView
INVARIANTS TypeOK C40_SeqShape
PROPERTIES C40_SeqMonotone C40_TerminalOnce C40_ReplayNoop C40_CacheIsNotDurable
CHECK_DEADLOCK FALSE

INIT SimInit
NEXT SimNext
CONSTANTS
  Msgs = {"m1", "m2"}
  Ids = {"e1", "e2", "e3", "e4", "e5", "e6"}
  Toks = {"a", "b"}
  Snaps = {"S", "T"}
  Reasons = {0, 1, 2}
  DirectOn = FALSE
  LeaderOn = TRUE
  LeaderTerms = {"close"}
  DeltaAfterLoss = TRUE
  Depth = 25
INVARIANT Emit
CHECK_DEADLOCK FALSE

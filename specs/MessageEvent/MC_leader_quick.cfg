\* Leader level (cache + durable), exhaustive: one message, two event ids, lane "main" with every
\* cache-only kind, close and finish, lane "aux" with deltas, cache loss anywhere.  Schedules in which
\* cache-only events are accepted after a loss are excluded so that the strong fail-closed formula
\* C40_FinishFailClosed can be checked (MC_finding.cfg shows the counterexample otherwise).
\* Measured: 49,146 distinct states, 1,014,091 transitions.
SPECIFICATION SpecLeader
CONSTANTS
  Msgs = {"m1"}
  Ids = {"e1", "e2"}
  Toks = {"a"}
  Snaps = {"S"}
  Reasons = {1}
  DirectOn = FALSE
  LeaderOn = TRUE
  LeaderTerms = {"close"}
  DeltaAfterLoss = FALSE
VIEW MCView
INVARIANTS TypeOK C40_SeqShape
PROPERTIES C40_SeqMonotone C40_TerminalOnce C40_ReplayNoop C40_CacheIsNotDurable C40_FinishCacheMiss C40_FinishFailClosed
CHECK_DEADLOCK FALSE

--------------------------------- MODULE Sim ---------------------------------
(* Behaviour generator: `tlc -simulate` prints one JSON behaviour per run.  The same
   module serves both layers: with DirectOn the behaviours are reducer calls (single
   appends, two-event write batches, and a write batch that stays open (Stage) while
   aimed appends - another lane of the same message, the same id - commit before its
   Commit), with LeaderOn they are leader calls with cache losses; terminal payloads are
   drawn with a real snapshot, without one, or with an explicit JSON null.  Event ids are drawn from a small pool so that replays are frequent. *)
EXTENDS MessageEvent, Json, TLC
CONSTANT Depth
VARIABLE hist

SimInit == Init /\ hist = << [ev |-> ev, st |-> Proj] >>

Pick(S) == {RandomElement(S)}

Applied(m)   == {i \in Ids : db[m].applied[i].ex}
Fresh(m)     == Ids \ Applied(m)
CacheIds(m)  == {i \in Ids : cache[m].ex /\ cache[m].applied[i].ex}
OrNone(S)    == S \cup {"none"}
OpenDurable(m)  == {k \in LaneKeys : db[m].lanes[k].ex /\ ~Terminal(db[m].lanes[k].status)}
FinalDurable(m) == {k \in LaneKeys : db[m].lanes[k].ex /\ Terminal(db[m].lanes[k].status)}

\* A random event of type t for lane k with id i.
\* Terminal payloads: a real snapshot, no snapshot key, an explicit JSON null.
Ev(i, k, t) ==
  CASE t = "open"     -> Event(i, k, t, "", 0, FALSE)
    [] t = "delta"    -> Event(i, k, t, RandomElement(Toks), 0, FALSE)
    [] t = "snapshot" -> Event(i, k, t, RandomElement(Snaps), 0, FALSE)
    [] t = "finish"   -> LET pn == RandomElement({<<"S", 1>>, <<"T", 1>>, <<"", 1>>, <<"", 2>>, <<"", 3>>, <<"", 4>>})
                         IN Event(i, "main", t, IF pn[1] \in Snaps THEN pn[1] ELSE "", RandomElement(Reasons), pn[2] >= 3)
    [] OTHER          -> LET pn == RandomElement({<<"S", 1>>, <<"T", 1>>, <<"", 1>>, <<"", 2>>, <<"", 3>>})
                         IN Event(i, k, t, IF pn[1] \in Snaps THEN pn[1] ELSE "", RandomElement(Reasons), pn[2] >= 3)

\* The drawn event is bound once (an operator argument would be re-drawn at every use).
DoAppend(m, i, k, t) == \E e \in {Ev(i, k, t)} : AppendEvent(m, e)
DoLeader(m, i, k, t) == \E e \in {Ev(i, k, t)} : LeaderAppend(m, e)
DoStage(m, i, k, t)  == \E e \in {Ev(i, k, t)} : StageAppend(m, e)
DoBatch(m, i1, k1, t1, i2, k2, t2) == \E e1 \in {Ev(i1, k1, t1)}, e2 \in {Ev(i2, k2, t2)} : AppendBatch(m, e1, e2)

OtherLane(k) == IF k = "aux" THEN "main" ELSE "aux"

\* While a write batch is open: appends that commit before it (aimed: another lane of the
\* same message, the same lane, the same id), then the commit.
StagedStep ==
  \/ \E i \in Pick(OrNone(Fresh(staged.m) \ {staged.e.id})), t \in Pick({"delta", "delta", "close", "snapshot"}) :
        i # "none" /\ staged.e.type # "finish" /\ DoAppend(staged.m, i, OtherLane(staged.e.key), t)
  \/ \E i \in Pick(OrNone(Fresh(staged.m) \ {staged.e.id})), k \in Pick(LaneKeys), t \in Pick(Types) :
        i # "none" /\ RandomElement(1..2) = 1 /\ DoAppend(staged.m, i, k, t)
  \/ \E k \in Pick(LaneKeys), t \in Pick(Types) :
        RandomElement(1..4) = 1 /\ DoAppend(staged.m, staged.e.id, k, t)
  \/ \E m \in Pick(Msgs), i \in Pick(Ids), k \in Pick(LaneKeys), t \in Pick(Types) :
        RandomElement(1..3) = 1 /\ DoAppend(m, i, k, t)
  \/ CommitStaged
  \/ CommitStaged

UnstagedStep ==
  \* a write batch that stays open over the next steps
  \/ \E m \in Pick(Msgs) : \E i \in Pick(OrNone(Fresh(m))), k \in Pick(LaneKeys), t \in Pick({"delta", "delta", "close", "finish", "snapshot", "open"}) :
        i # "none" /\ DoStage(m, i, k, t)
  \/ \E m \in Pick(Msgs), i \in Pick(Ids), k \in Pick(LaneKeys), t \in Pick(Types) :
        RandomElement(1..2) = 1 /\ DoStage(m, i, k, t)
  \/ \E m \in Pick(Msgs), i \in Pick(Ids), k \in Pick(LaneKeys), t \in Pick(Types) : DoAppend(m, i, k, t)
  \* a new id: deltas keep the lane growing
  \/ \E m \in Pick(Msgs) : \E i \in Pick(OrNone(Fresh(m))), k \in Pick(LaneKeys) :
        i # "none" /\ DoAppend(m, i, k, "delta")
  \/ \E m \in Pick(Msgs) : \E i \in Pick(OrNone(Fresh(m))), k \in Pick(LaneKeys), t \in Pick(Types) :
        i # "none" /\ DoAppend(m, i, k, t)
  \* aimed: replay an applied id, with the same or with a different lane / type
  \/ \E m \in Pick(Msgs) : \E i \in Pick(OrNone(Applied(m))), k \in Pick(LaneKeys), t \in Pick(Types) :
        i # "none" /\ DoAppend(m, i, k, t)
  \* aimed: a new id on a lane that is already final
  \/ \E m \in Pick(Msgs) : \E i \in Pick(OrNone(Fresh(m))), k \in Pick(OrNone(FinalDurable(m))), t \in Pick(Types \ {"finish"}) :
        i # "none" /\ k # "none" /\ DoAppend(m, i, k, t)
  \* aimed: finalize an open lane
  \/ \E m \in Pick(Msgs) : \E i \in Pick(OrNone(Fresh(m))), k \in Pick(OrNone(OpenDurable(m))), t \in Pick(LaneTerm) :
        i # "none" /\ k # "none" /\ DoAppend(m, i, k, t)
  \* batches: leader-shaped (flush close + finish), same id twice, same lane twice, anything
  \/ \E m \in Pick(Msgs) : \E i \in Pick(OrNone(Fresh(m))), j \in Pick(Ids), k \in Pick(LaneKeys) :
        i # "none" /\ DoBatch(m, FlushId(j, k), k, "close", j, "main", "finish")
  \/ \E m \in Pick(Msgs), i \in Pick(Ids), k \in Pick(LaneKeys), t1 \in Pick(Types), t2 \in Pick(Types) :
        DoBatch(m, i, k, t1, i, k, t2)
  \/ \E m \in Pick(Msgs), i \in Pick(Ids), j \in Pick(Ids), k \in Pick(LaneKeys), t1 \in Pick(Types), t2 \in Pick(Types) :
        DoBatch(m, i, k, t1, j, k, t2)
  \/ \E m \in Pick(Msgs), i \in Pick(Ids), j \in Pick(Ids), k1 \in Pick(LaneKeys), k2 \in Pick(LaneKeys),
        t1 \in Pick(Types), t2 \in Pick(Types) : DoBatch(m, i, k1, t1, j, k2, t2)

DirectStep == IF staged.ex THEN StagedStep ELSE UnstagedStep

LeaderStep ==
  \/ \E m \in Pick(Msgs), i \in Pick(Ids), k \in Pick(LaneKeys), t \in Pick(Types) : DoLeader(m, i, k, t)
  \/ \E m \in Pick(Msgs), i \in Pick(Ids), k \in Pick(LaneKeys) : DoLeader(m, i, k, "delta")
  \/ \E m \in Pick(Msgs) : \E i \in Pick(OrNone(Ids \ CacheIds(m))), k \in Pick(LaneKeys) :
        i # "none" /\ DoLeader(m, i, k, "delta")
  \/ \E m \in Pick(Msgs) : \E i \in Pick(OrNone(Ids \ CacheIds(m))), k \in Pick(LaneKeys), t \in Pick(CacheOnly) :
        i # "none" /\ DoLeader(m, i, k, t)
  \* aimed: replay a cached id
  \/ \E m \in Pick(Msgs) : \E i \in Pick(OrNone(CacheIds(m))), k \in Pick(LaneKeys), t \in Pick(CacheOnly) :
        i # "none" /\ DoLeader(m, i, k, t)
  \* aimed: terminal event on a lane with cached content / on a final lane / replayed
  \/ \E m \in Pick(Msgs) : \E i \in Pick(OrNone(Fresh(m))), k \in Pick(OrNone(OpenCached(m))), t \in Pick(LaneTerm) :
        i # "none" /\ k # "none" /\ RandomElement(1..2) = 1 /\ DoLeader(m, i, k, t)
  \/ \E m \in Pick(Msgs) : \E i \in Pick(OrNone(Applied(m))), k \in Pick(LaneKeys), t \in Pick(LaneTerm) :
        i # "none" /\ DoLeader(m, i, k, t)
  \* finish: with open cached lanes, right after a loss, replayed
  \/ \E m \in Pick(Msgs), i \in Pick(Ids) : DoLeader(m, i, "main", "finish")
  \/ \E m \in Pick(Msgs) : \E i \in Pick(OrNone(Fresh(m))) :
        i # "none" /\ OpenCached(m) # {} /\ RandomElement(1..2) = 1 /\ DoLeader(m, i, "main", "finish")
  \/ \E m \in Pick(Msgs) : \E i \in Pick(OrNone(Fresh(m))) :
        i # "none" /\ HasLost(m) /\ DoLeader(m, i, "main", "finish")
  \/ (RandomElement(1..3) = 1 /\ CacheLoss)
  \/ (\E m \in Msgs : OpenCached(m) # {}) /\ RandomElement(1..3) = 1 /\ CacheLoss

SimStep == DirectStep \/ LeaderStep

SimNext == SimStep /\ hist' = Append(hist, [ev |-> ev', st |-> Proj'])
\* TLC evaluates the invariant on every candidate successor; printing the common prefix
\* one level later yields exactly one behaviour of Depth steps per simulated run.
Emit    == Len(hist) = Depth + 2 => PrintT("BEH " \o ToJson([steps |-> SubSeq(hist, 1, Depth + 1)]))
===============================================================================

\* Leader level, exhaustive: one message, two event ids, every event kind on both lanes, cache loss
\* anywhere (schedules with cache-only events accepted after a loss excluded, see MC_finding.cfg).
\* Measured: 627,838 distinct states, 34.4M transitions.
SPECIFICATION SpecLeader
CONSTANTS
  Msgs = {"m1"}
  Ids = {"e1", "e2"}
  Toks = {"a"}
  Snaps = {"S"}
  Reasons = {1}
  DirectOn = FALSE
  LeaderOn = TRUE
  LeaderTerms = {"close", "error", "cancel"}
  DeltaAfterLoss = FALSE
VIEW MCView
INVARIANTS TypeOK C40_SeqShape
PROPERTIES C40_SeqMonotone C40_TerminalOnce C40_ReplayNoop C40_CacheIsNotDurable C40_FinishCacheMiss C40_FinishFailClosed
CHECK_DEADLOCK FALSE

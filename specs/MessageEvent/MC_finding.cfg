\* NOT part of the check pipeline. With cache-only events accepted after a cache loss (what the
\* code does) the strong fail-closed formula has a counterexample: delta; CacheLoss; delta; finish.
SPECIFICATION SpecLeader
CONSTANTS
  Msgs = {"m1"}
  Ids = {"e1", "e2"}
  Toks = {"a"}
  Snaps = {"S"}
  Reasons = {1}
  DirectOn = FALSE
  LeaderOn = TRUE
  LeaderTerms = {"close"}
  DeltaAfterLoss = TRUE
VIEW MCView
INVARIANTS TypeOK C40_SeqShape
PROPERTIES C40_FinishFailClosed
CHECK_DEADLOCK FALSE

----------------------------- MODULE MessageEvent -----------------------------
(* Message event projection of stream messages.

   Two layers of the real code are described, each action cut at one exported call:

   (1) the durable reducer  pkg/db/meta/table_message_event.go
         Append(m, e)           Shard.AppendMessageEvent
         AppendBatch(m, e1, e2) WriteBatch.AppendMessageEvent x2 + Commit (the Slot FSM path)
         StageAppend(m, e)      DB.NewWriteBatch + WriteBatch.AppendMessageEvent, the batch stays open
         CommitStaged           WriteBatch.Commit of that batch: other appends may have committed in
                                between; the commit re-reads the lane row, the applied-event row and the
                                per-message cursor row and fails (conflict, nothing written) when any of
                                them is no longer what the event was staged against
       Per message m: lanes (one projected state per event key), the per-message event
       cursor and the applied-event table (event id -> lane, sequence, status).

   (2) the Slot-leader front  pkg/cluster/node_message_event_stream_cache.go
         LeaderAppend(m, e)     Node.AppendMessageEvent on the leader:
                                  open/delta/snapshot  -> node-local, NON-durable cache only
                                  close/error/cancel   -> cached snapshot merged into the payload,
                                                          durable reducer, cache marked terminal
                                  finish               -> every still-open cached lane is flushed as a
                                                          synthesized close, then the finish marker, in
                                                          one durable batch; with no open cached lane and
                                                          no snapshot in the payload it FAILS (cache miss)
         CacheLoss              the leader loses its cache (restore, lost authority)

   Payloads are abstracted to text: a delta appends a token, a snapshot replaces the
   text, a terminal event may carry a snapshot ("" = none; nul = the payload then carries
   an explicit JSON null under "snapshot", which every layer treats like an absent key), a
   reason code (close -> end_reason, error -> error text).  Visibility, timestamps and non-text payloads are
   not modelled.  Property C40 is stated at the end. *)
EXTENDS Integers, Sequences, FiniteSets

CONSTANTS
  Msgs,            \* set of message names
  Ids,             \* set of client event ids (strings)
  Toks,            \* delta tokens (non-empty strings)
  Snaps,           \* snapshot texts (non-empty strings)
  Reasons,         \* reason codes carried by terminal events
  DirectOn,        \* BOOLEAN: reducer-level actions (1) enabled
  LeaderOn,        \* BOOLEAN: leader-level actions (2) enabled
  LeaderTerms,     \* lane-terminal event types the exhaustive leader-level runs try (subset of LaneTerm)
  DeltaAfterLoss   \* BOOLEAN: the leader accepts cache-only events for a message whose cached
                   \*          content was lost (what the code does; FALSE excludes those schedules)

VARIABLES
  db,      \* [Msgs -> [lanes, cursor, applied]]  durable projection
  cache,   \* [Msgs -> session]                   leader cache (non-durable)
  lost,    \* [Msgs -> [LaneKeys -> BOOLEAN]]     ghost: acknowledged cache-only content of the lane was lost
  staged,  \* the open write batch (one staged event) and the rows it was staged against
  ev       \* last call and reply (observation only)

vars == <<db, cache, lost, staged, ev>>

FinishKey == "__finish__"
LaneKeys  == {"aux", "main"}
KeyOrder  == <<"aux", "main">>          \* openStatesForFinish sorts by event key
AllKeys   == LaneKeys \cup {FinishKey}
FlushId(i, k) == i \o "/flush/" \o k     \* finishFlushMessageEventID
AllIds    == Ids \cup {FlushId(i, k) : i \in Ids, k \in LaneKeys}

CacheOnly == {"open", "delta", "snapshot"}
LaneTerm  == {"close", "error", "cancel"}
Types     == CacheOnly \cup LaneTerm \cup {"finish"}
Terminal(s) == s \in {"closed", "error", "cancelled"}

NoLane    == [ex |-> FALSE, status |-> "", seq |-> 0, last |-> "", text |-> "", reason |-> 0, err |-> 0]
NoApplied == [ex |-> FALSE, key |-> "", seq |-> 0, status |-> ""]
NoSession == [ex |-> FALSE, lanes |-> [k \in AllKeys |-> NoLane], applied |-> [i \in AllIds |-> NoApplied]]
EmptyDB   == [lanes |-> [k \in AllKeys |-> NoLane], cursor |-> 0, applied |-> [i \in AllIds |-> NoApplied]]

\* An event: id, lane key, type, p (delta token / snapshot text / terminal snapshot or ""), r (reason),
\* nul (terminal events without snapshot only: the payload says "snapshot": null).
Event(i, k, t, p, r, n) == [id |-> i, key |-> k, type |-> t, p |-> p, r |-> r, nul |-> n]
NoEvent  == Event("", "", "", "", 0, FALSE)
NoStaged == [ex |-> FALSE, m |-> "", e |-> NoEvent, did |-> FALSE, bl |-> NoLane, bc |-> 0, ba |-> NoApplied,
             nl |-> NoLane, na |-> NoApplied]

Init ==
  /\ db = [m \in Msgs |-> EmptyDB]
  /\ cache = [m \in Msgs |-> NoSession]
  /\ lost = [m \in Msgs |-> [k \in LaneKeys |-> FALSE]]
  /\ staged = NoStaged
  /\ ev = [a |-> "Init"]

-------------------------------------------------------------------------------
\* (1) The reducer: reduceMessageEventAppend and the applied-table fast path.
\* Returns the new durable state of the message, the reply (lane, sequence, status),
\* the full lane state carried by the reply and whether anything was written.

NormKey(e) == IF e.type = "finish" THEN FinishKey ELSE e.key
Reply(k, ln) == [key |-> k, seq |-> ln.seq, status |-> ln.status]

Reduce(d, e) ==
  LET k  == NormKey(e)
      ap == d.applied[e.id]
      ln == d.lanes[k]
  IN
  IF ap.ex
    THEN \* replayed event id: answered from the applied table, nothing written
         LET cur == d.lanes[ap.key]
             st  == IF cur.ex /\ cur.last = e.id /\ cur.seq = ap.seq
                      THEN cur
                      ELSE [NoLane EXCEPT !.ex = TRUE, !.status = ap.status, !.seq = ap.seq, !.last = e.id]
         IN [d |-> d, res |-> [key |-> ap.key, seq |-> ap.seq, status |-> ap.status], state |-> st, did |-> FALSE]
  ELSE IF ln.ex /\ Terminal(ln.status)
    THEN \* the lane is final: the event is dropped (and not memoised)
         [d |-> d, res |-> Reply(k, ln), state |-> ln, did |-> FALSE]
  ELSE
    LET base == IF ln.ex THEN ln ELSE [NoLane EXCEPT !.ex = TRUE, !.status = "open"]
        n    == d.cursor + 1
        st   == CASE e.type = "close"  -> "closed"
                  [] e.type = "error"  -> "error"
                  [] e.type = "cancel" -> "cancelled"
                  [] e.type = "finish" -> "closed"
                  [] e.type = "open"   -> base.status
                  [] OTHER             -> "open"
        tx   == CASE e.type = "delta"    -> base.text \o e.p
                  [] e.type = "snapshot" -> e.p
                  [] e.type \in LaneTerm -> IF e.p # "" THEN e.p ELSE base.text
                  [] OTHER               -> base.text
        nl   == [ex |-> TRUE, status |-> st, seq |-> n, last |-> e.id, text |-> tx,
                 reason |-> IF e.type = "close" THEN e.r ELSE base.reason,
                 err |-> IF e.type = "error" THEN e.r ELSE base.err]
        nd   == [lanes |-> [d.lanes EXCEPT ![k] = nl], cursor |-> n,
                 applied |-> [d.applied EXCEPT ![e.id] = [ex |-> TRUE, key |-> k, seq |-> n, status |-> st]]]
    IN [d |-> nd, res |-> Reply(k, nl), state |-> nl, did |-> TRUE]

AppendEvent(m, e) ==
  /\ DirectOn
  /\ LET r == Reduce(db[m], e) IN
       /\ db' = [db EXCEPT ![m] = r.d]
       /\ ev' = [a |-> "Append", m |-> m, e |-> e, res |-> r.res]
  /\ UNCHANGED <<cache, lost, staged>>

\* Two events staged in one write batch (the second sees the first), committed atomically.
AppendBatch(m, e1, e2) ==
  /\ DirectOn
  /\ LET r1 == Reduce(db[m], e1)
         r2 == Reduce(r1.d, e2)
     IN /\ db' = [db EXCEPT ![m] = r2.d]
        /\ ev' = [a |-> "AppendBatch", m |-> m, es |-> <<e1, e2>>, res |-> [rs |-> <<r1.res, r2.res>>]]
  /\ UNCHANGED <<cache, lost, staged>>

\* One event staged in a write batch that stays open: the reply is computed from the rows
\* as they are now; nothing is written until the batch commits.
StageAppend(m, e) ==
  /\ DirectOn
  /\ ~staged.ex
  /\ LET r == Reduce(db[m], e)
         k == NormKey(e)
     IN /\ staged' = [ex |-> TRUE, m |-> m, e |-> e, did |-> r.did,
                      bl |-> db[m].lanes[k], bc |-> db[m].cursor, ba |-> db[m].applied[e.id],
                      nl |-> r.d.lanes[k], na |-> r.d.applied[e.id]]
        /\ ev' = [a |-> "Stage", m |-> m, e |-> e, res |-> r.res]
  /\ UNCHANGED <<db, cache, lost>>

\* Commit of the open batch.  A staged event that wrote nothing (replayed id, final lane)
\* has no operation and the commit succeeds trivially.  Otherwise the applied-event row,
\* the lane row and the per-message cursor row are compared with what the event was staged
\* against: any difference is a conflict and nothing is written.
StagedConflict ==
  LET d == db[staged.m]
      k == NormKey(staged.e)
  IN staged.did /\ (\/ d.applied[staged.e.id] # staged.ba
                    \/ d.lanes[k] # staged.bl
                    \/ d.cursor # staged.bc)

CommitStaged ==
  /\ DirectOn
  /\ staged.ex
  /\ LET m == staged.m
         d == db[m]
         k == NormKey(staged.e)
     IN /\ db' = IF staged.did /\ ~StagedConflict
                   THEN [db EXCEPT ![m] = [lanes |-> [d.lanes EXCEPT ![k] = staged.nl], cursor |-> staged.bc + 1,
                                           applied |-> [d.applied EXCEPT ![staged.e.id] = staged.na]]]
                   ELSE db
        /\ ev' = [a |-> "Commit", m |-> m, res |-> [ok |-> ~StagedConflict]]
  /\ staged' = NoStaged
  /\ UNCHANGED <<cache, lost>>

-------------------------------------------------------------------------------
\* (2) The leader.

OkRes(r) == [ok |-> TRUE, key |-> r.key, seq |-> r.seq, status |-> r.status]
Failed   == [ok |-> FALSE, key |-> "", seq |-> 0, status |-> ""]

\* appendCachedObserved
CacheAppend(m, e) ==
  LET s0  == IF cache[m].ex THEN cache[m] ELSE [NoSession EXCEPT !.ex = TRUE]
      ap  == s0.applied[e.id]
      ln  == s0.lanes[e.key]
      cur == IF ln.ex THEN ln ELSE [NoLane EXCEPT !.ex = TRUE, !.status = "open", !.last = e.id]
  IN
  IF ap.ex
    THEN [s |-> s0, res |-> [key |-> ap.key, seq |-> ap.seq, status |-> ap.status], wrote |-> FALSE]
  ELSE IF Terminal(cur.status)
    THEN [s |-> [s0 EXCEPT !.applied[e.id] = [ex |-> TRUE, key |-> e.key, seq |-> cur.seq, status |-> cur.status]],
          res |-> Reply(e.key, cur), wrote |-> FALSE]
  ELSE
    LET nl == [cur EXCEPT !.status = "open", !.last = e.id,
                          !.text = CASE e.type = "delta"    -> cur.text \o e.p
                                     [] e.type = "snapshot" -> e.p
                                     [] OTHER               -> cur.text]
    IN [s |-> [s0 EXCEPT !.lanes[e.key] = nl,
                         !.applied[e.id] = [ex |-> TRUE, key |-> e.key, seq |-> nl.seq, status |-> "open"]],
        res |-> Reply(e.key, nl), wrote |-> TRUE]

HasLost(m) == \E k \in LaneKeys : lost[m][k]

LeaderCacheOnly(m, e) ==
  /\ e.type \in CacheOnly
  /\ DeltaAfterLoss \/ ~HasLost(m)
  /\ LET r == CacheAppend(m, e) IN
       /\ cache' = [cache EXCEPT ![m] = r.s]
       \* a snapshot event re-establishes the complete content of its lane
       /\ lost' = IF e.type = "snapshot" /\ r.wrote THEN [lost EXCEPT ![m][e.key] = FALSE] ELSE lost
       /\ ev' = [a |-> "LeaderAppend", m |-> m, e |-> e, res |-> OkRes(r.res), silent |-> FALSE]
  /\ UNCHANGED db

\* mergeTerminalPayload: the cached text of the lane becomes the terminal snapshot unless
\* the payload already carries one.
Merged(m, e) ==
  IF cache[m].ex /\ cache[m].lanes[e.key].ex /\ cache[m].lanes[e.key].text # "" /\ e.p = ""
    THEN [e EXCEPT !.p = cache[m].lanes[e.key].text] ELSE e

\* markTerminalPersisted: only an existing session is updated.
Marked(s, id, r) ==
  IF s.ex THEN [s EXCEPT !.lanes[r.res.key] = r.state,
                         !.applied[id] = [ex |-> TRUE, key |-> r.res.key, seq |-> r.res.seq, status |-> r.res.status]]
          ELSE s

LeaderLaneTerminal(m, e) ==
  /\ e.type \in LaneTerm
  /\ LET r == Reduce(db[m], Merged(m, e)) IN
       /\ db' = [db EXCEPT ![m] = r.d]
       /\ cache' = [cache EXCEPT ![m] = Marked(cache[m], e.id, r)]
       /\ ev' = [a |-> "LeaderAppend", m |-> m, e |-> e, res |-> OkRes(r.res), silent |-> FALSE]
  /\ UNCHANGED lost

OpenCached(m) == {k \in LaneKeys : cache[m].ex /\ cache[m].lanes[k].ex /\ ~Terminal(cache[m].lanes[k].status)}

\* finishFlushMessageEvent
FlushEvent(m, e, k) ==
  Event(FlushId(e.id, k), k, "close", IF e.p # "" THEN e.p ELSE cache[m].lanes[k].text, e.r, FALSE)

\* Fold the reducer over the flush events (in key order) and the finish marker.
FinishFold(m, e) ==
  LET ks == SelectSeq(KeyOrder, LAMBDA k : k \in OpenCached(m))
      d1 == IF Len(ks) >= 1 THEN Reduce(db[m], FlushEvent(m, e, ks[1])).d ELSE db[m]
      d2 == IF Len(ks) >= 2 THEN Reduce(d1, FlushEvent(m, e, ks[2])).d ELSE d1
  IN Reduce(d2, e)

\* Ghost: cache-only content of lane k was acknowledged, lost, and the lane is not final.
Dropped(m) == {k \in LaneKeys : lost[m][k] /\ ~(db[m].lanes[k].ex /\ Terminal(db[m].lanes[k].status))}

LeaderFinish(m, e) ==
  /\ e.type = "finish"
  /\ IF OpenCached(m) = {} /\ e.p = ""
       THEN \* ErrMessageEventStreamCacheMiss: nothing proposed, nothing written
            /\ ev' = [a |-> "LeaderAppend", m |-> m, e |-> e, res |-> Failed, silent |-> FALSE]
            /\ UNCHANGED <<db, cache, lost>>
       ELSE LET r == FinishFold(m, e) IN
            /\ db' = [db EXCEPT ![m] = r.d]
            /\ cache' = [cache EXCEPT ![m] = NoSession]
            \* the stream is complete now: whatever was dropped was dropped by this finish
            /\ lost' = [lost EXCEPT ![m] = [k \in LaneKeys |-> FALSE]]
            /\ ev' = [a |-> "LeaderAppend", m |-> m, e |-> e, res |-> OkRes(r.res),
                      silent |-> (e.p = "" /\ Dropped(m) # {})]

LeaderAppend(m, e) ==
  /\ LeaderOn
  /\ \/ LeaderCacheOnly(m, e)
     \/ LeaderLaneTerminal(m, e)
     \/ LeaderFinish(m, e)
  /\ UNCHANGED staged

\* resetAfterRestore / authority loss: every session goes, nothing durable changes.
CacheLoss ==
  /\ LeaderOn
  /\ cache' = [m \in Msgs |-> NoSession]
  /\ lost' = [m \in Msgs |-> [k \in LaneKeys |->
                lost[m][k] \/ (cache[m].ex /\ cache[m].lanes[k].ex /\ ~Terminal(cache[m].lanes[k].status)
                               /\ cache[m].lanes[k].text # "")]]
  /\ ev' = [a |-> "CacheLoss", res |-> [done |-> TRUE]]
  /\ UNCHANGED <<db, staged>>

-------------------------------------------------------------------------------
\* Event domains of the exhaustive runs.
\* Terminal payloads: a real snapshot, no "snapshot" key, or an explicit JSON null.
TermSnaps == {<<p, FALSE>> : p \in Snaps \cup {""}} \cup {<<"", TRUE>>}
DirectEvents ==
  {Event(i, k, "open", "", 0, FALSE) : i \in Ids, k \in LaneKeys}
    \cup {Event(i, k, "delta", p, 0, FALSE) : i \in Ids, k \in LaneKeys, p \in Toks}
    \cup {Event(i, k, "snapshot", p, 0, FALSE) : i \in Ids, k \in LaneKeys, p \in Snaps}
    \cup {Event(i, k, t, pn[1], r, pn[2]) : i \in Ids, k \in LaneKeys, t \in LaneTerm, pn \in TermSnaps, r \in Reasons}
    \cup {Event(i, "main", "finish", pn[1], r, pn[2]) : i \in Ids, pn \in TermSnaps, r \in Reasons}

\* Batches as the leader builds them: a flush close followed by a finish marker, plus
\* pairs that replay an id or hit the same lane inside one batch.
BatchPairs ==
  {<<e1, e2>> \in DirectEvents \X DirectEvents :
     /\ e1.type \in {"close", "delta"} /\ e1.p \in {"", CHOOSE p \in Toks : TRUE} /\ e1.r = 0 /\ e2.r = 0 /\ e2.p = ""
     /\ ~e1.nul /\ ~e2.nul
     /\ \/ e2.type = "finish" /\ e2.id # e1.id
        \/ e2.id = e1.id
        \/ e2.key = e1.key /\ e2.type \in {"delta", "close"}}

\* Leader-level runs: every event kind with the lane-terminal types of LeaderTerms; the
\* second lane ("aux") only receives deltas unless LeaderTerms is all of LaneTerm.
LeaderEvents ==
  {e \in DirectEvents :
     /\ e.type \in LaneTerm => e.type \in LeaderTerms
     /\ (LeaderTerms # LaneTerm /\ e.key = "aux") => e.type = "delta"}

\* Events staged in an open batch, and the appends tried while a batch is open: one payload
\* per type (the interleaving is what matters, not the payload).
StageEvents ==
  {e \in DirectEvents :
     /\ e.type \in {"delta", "close", "finish"}
     /\ ~e.nul
     /\ (e.type # "delta" => e.p = "")
     /\ e.r = (CHOOSE r \in Reasons \cup {0} : \A q \in Reasons \cup {0} : r <= q)}

NextDirect ==
  \/ ~staged.ex /\ \E m \in Msgs, e \in DirectEvents : AppendEvent(m, e)
  \/ ~staged.ex /\ \E m \in Msgs, es \in BatchPairs : AppendBatch(m, es[1], es[2])
  \/ \E m \in Msgs, e \in StageEvents : StageAppend(m, e)
  \/ staged.ex /\ \E m \in Msgs, e \in StageEvents : AppendEvent(m, e)
  \/ CommitStaged

NextLeader ==
  \/ \E m \in Msgs, e \in LeaderEvents : LeaderCacheOnly(m, e) /\ UNCHANGED staged
  \/ \E m \in Msgs, e \in LeaderEvents : LeaderLaneTerminal(m, e) /\ UNCHANGED staged
  \/ \E m \in Msgs, e \in LeaderEvents : LeaderFinish(m, e) /\ UNCHANGED staged
  \/ CacheLoss

Next == NextDirect \/ NextLeader

Spec       == Init /\ [][Next]_vars
SpecDirect == Init /\ [][NextDirect]_vars     \* reducer layer only
SpecLeader == Init /\ [][NextLeader]_vars     \* leader layer only

\* Observable projections: the stored lane states of every message (ListMessageEventStates)
\* and, at the leader, the text of every open cached lane (what a finish would flush).
LaneView(ln) == [ex |-> ln.ex, status |-> ln.status, seq |-> ln.seq, last |-> ln.last, text |-> ln.text,
                 reason |-> ln.reason, err |-> ln.err]
Durable(m)   == [k \in AllKeys |-> LaneView(db[m].lanes[k])]
OpenView(m)  == [k \in LaneKeys |-> IF k \in OpenCached(m)
                                     THEN [open |-> TRUE, text |-> cache[m].lanes[k].text]
                                     ELSE [open |-> FALSE, text |-> ""]]
Proj == [m \in Msgs |-> [lanes |-> Durable(m), cached |-> OpenView(m)]]

-------------------------------------------------------------------------------
\* Property C40 on the design.

LaneDom ==
  [ex : BOOLEAN, status : {"", "open", "closed", "error", "cancelled"}, seq : Nat, last : AllIds \cup {""},
   text : STRING, reason : Nat, err : Nat]

TypeOK ==
  /\ \A m \in Msgs : \A k \in AllKeys : db[m].lanes[k] \in LaneDom /\ cache[m].lanes[k] \in LaneDom
  /\ \A m \in Msgs : db[m].cursor \in Nat

\* Sequences are allocated densely and uniquely: the cursor is the number of applied
\* events, every applied event and every lane carries a distinct sequence <= cursor.
C40_SeqShape ==
  \A m \in Msgs :
    LET d  == db[m]
        ai == {i \in AllIds : d.applied[i].ex}
    IN /\ Cardinality(ai) = d.cursor
       /\ {d.applied[i].seq : i \in ai} = 1..d.cursor
       /\ \A k \in AllKeys : d.lanes[k].ex =>
            /\ d.lanes[k].seq \in 1..d.cursor
            /\ d.applied[d.lanes[k].last].ex /\ d.applied[d.lanes[k].last].seq = d.lanes[k].seq
            /\ d.applied[d.lanes[k].last].key = k
       /\ \A k1, k2 \in AllKeys : k1 # k2 /\ d.lanes[k1].ex /\ d.lanes[k2].ex => d.lanes[k1].seq # d.lanes[k2].seq

\* The durable event sequence only increases, and only by applied events.
C40_SeqMonotone ==
  [][ev'.a # "Init" => \A m \in Msgs :
       /\ db'[m].cursor >= db[m].cursor
       /\ \A i \in AllIds : db[m].applied[i].ex => db'[m].applied[i] = db[m].applied[i]]_vars

\* A terminal event finalizes its lane once: a final lane never changes again.
C40_TerminalOnce ==
  [][ev'.a # "Init" => \A m \in Msgs, k \in AllKeys :
       db[m].lanes[k].ex /\ Terminal(db[m].lanes[k].status) => db'[m].lanes[k] = db[m].lanes[k]]_vars

\* A replayed event id is not applied twice: it changes nothing and is answered with the
\* lane, sequence and status of its first application.
C40_ReplayNoop ==
  [][/\ (ev'.a = "Append" /\ db[ev'.m].applied[ev'.e.id].ex) =>
          /\ db' = db
          /\ ev'.res = [key |-> db[ev'.m].applied[ev'.e.id].key, seq |-> db[ev'.m].applied[ev'.e.id].seq,
                        status |-> db[ev'.m].applied[ev'.e.id].status]
     /\ (ev'.a = "LeaderAppend" /\ ev'.e.type \in LaneTerm /\ db[ev'.m].applied[ev'.e.id].ex) => db' = db
     /\ (ev'.a = "LeaderAppend" /\ ev'.e.type \in CacheOnly /\ cache[ev'.m].ex /\ cache[ev'.m].applied[ev'.e.id].ex) =>
          cache'[ev'.m].lanes = cache[ev'.m].lanes]_vars

\* A write batch that commits after other appends: it either fails with a conflict and
\* writes nothing, or its event takes the next free sequence of the message (together with
\* C40_SeqShape: no two events of a message share a sequence, the cursor never falls back).
C40_StagedCommit ==
  [][ev'.a = "Commit" =>
       IF ev'.res.ok /\ staged.did
         THEN /\ db'[staged.m].cursor = db[staged.m].cursor + 1
              /\ db'[staged.m].applied[staged.e.id].seq = db'[staged.m].cursor
              /\ db'[staged.m].lanes[NormKey(staged.e)].seq = db'[staged.m].cursor
         ELSE db' = db]_vars

\* What the leader guarantees: without an open cached lane and without a real snapshot in
\* the payload (key absent or JSON null) a finish fails and nothing is written.
C40_FinishCacheMiss ==
  [][(ev'.a = "LeaderAppend" /\ ev'.e.type = "finish" /\ ev'.e.p = "" /\ OpenCached(ev'.m) = {}) =>
       ~ev'.res.ok /\ db' = db]_vars

\* What the property asks: a finish that would drop lost cache-only content fails and
\* writes no completed projection.  Holds when no cache-only event is accepted after a
\* loss (DeltaAfterLoss = FALSE); MC_finding.cfg shows the counterexample otherwise.
C40_FinishFailClosed ==
  [][(ev'.a = "LeaderAppend" /\ ev'.e.type = "finish" /\ ev'.e.p = "" /\ Dropped(ev'.m) # {}) =>
       ~ev'.res.ok /\ db' = db]_vars

\* Nothing but a durable path writes the projection; a cache loss changes nothing durable.
C40_CacheIsNotDurable ==
  [][(ev'.a = "CacheLoss" \/ (ev'.a = "LeaderAppend" /\ ev'.e.type \in CacheOnly)) => db' = db]_vars

MCView == <<db, cache, lost, staged>>
===============================================================================

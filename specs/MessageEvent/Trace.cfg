\* Both layers enabled: a trace of the reducer harness contains Append/AppendBatch/Stage/Commit lines, a
\* trace of the leader harness LeaderAppend/CacheLoss lines.  C40_FinishFailClosed is not
\* listed: the leader harness reports a finish that silently drops lost cache-only content
\* itself (known finding), the trace specification describes what the code does.
SPECIFICATION TraceSpec
CONSTANTS
  Msgs = {"m1", "m2"}
  Ids = {"e1", "e2", "e3", "e4", "e5", "e6", "e7", "e8"}
  Toks = {"a"}
  Snaps = {"S"}
  Reasons = {0}
  DirectOn = TRUE
  LeaderOn = TRUE
  LeaderTerms = {"close"}
  DeltaAfterLoss = TRUE
CONSTRAINT Track
INVARIANTS Conform TypeOK C40_SeqShape
PROPERTIES C40_StagedCommit C40_SeqMonotone C40_TerminalOnce C40_ReplayNoop C40_CacheIsNotDurable C40_FinishCacheMiss
POSTCONDITION Accepted
CHECK_DEADLOCK FALSE

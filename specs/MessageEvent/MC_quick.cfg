\* Reducer level, exhaustive: one message, two event ids, every event kind and the batch pairs.
\* plus one open write batch (one staged event) with appends committing before its commit.
\* Measured: 12,445 distinct states, 304,341 transitions.
SPECIFICATION SpecDirect
CONSTANTS
  Msgs = {"m1"}
  Ids = {"e1", "e2"}
  Toks = {"a"}
  Snaps = {"S"}
  Reasons = {0, 1}
  DirectOn = TRUE
  LeaderOn = FALSE
  LeaderTerms = {"close"}
  DeltaAfterLoss = TRUE
VIEW MCView
INVARIANTS TypeOK C40_SeqShape
PROPERTIES C40_StagedCommit C40_SeqMonotone C40_TerminalOnce C40_ReplayNoop C40_CacheIsNotDurable
CHECK_DEADLOCK FALSE

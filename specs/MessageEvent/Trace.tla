-------------------------------- MODULE Trace --------------------------------
(* Trace validation: the NDJSON file written by a harness (one step per line, traces
   concatenated, each starting with an "Init" line) must be a behaviour of MessageEvent.
   The call arguments are bound from the log; reply and projection are then determined
   by the specification and compared in the invariant Conform. *)
EXTENDS MessageEvent, Json, TLC
VARIABLE l

Log == ndJsonDeserialize("trace.ndjson")

TraceInit == Init /\ l = 1

Reset0 ==
  /\ db' = [m \in Msgs |-> EmptyDB]
  /\ cache' = [m \in Msgs |-> NoSession]
  /\ lost' = [m \in Msgs |-> [k \in LaneKeys |-> FALSE]]
  /\ staged' = NoStaged
  /\ ev' = [a |-> "Init"]

\* JSON objects arrive as records with the fields of an event.
E(x) == Event(x.id, x.key, x.type, x.p, x.r, x.nul)

Step(e) ==
  CASE e.a = "Init"         -> Reset0
    [] e.a = "Append"       -> AppendEvent(e.m, E(e.e))
    [] e.a = "AppendBatch"  -> AppendBatch(e.m, E(e.es[1]), E(e.es[2]))
    [] e.a = "Stage"        -> StageAppend(e.m, E(e.e))
    [] e.a = "Commit"       -> CommitStaged
    [] e.a = "LeaderAppend" -> LeaderAppend(e.m, E(e.e))
    [] e.a = "CacheLoss"    -> CacheLoss

TraceNext == l <= Len(Log) /\ l' = l + 1 /\ Step(Log[l].ev)

TraceSpec == TraceInit /\ [][TraceNext]_<<vars, l>>

\* Deterministic step: the logged reply and projection must be the specification's.
Conform ==
  l > 1 =>
    /\ Log[l - 1].ev.a # "Init" => ev.res = Log[l - 1].ev.res
    /\ Proj = Log[l - 1].st

\* Acceptance: every line was consumed.
HW       == TLCSet(1, IF l > TLCGet(1) THEN l ELSE TLCGet(1))
Track    == HW
Accepted == TLCGet(1) = Len(Log) + 1
ASSUME TLCSet(1, 0)
===============================================================================

-------------------------------- MODULE Trace --------------------------------
(* Trace validation: the NDJSON file written by the harness (one step per line,
   traces concatenated, each starting with an "Init" line) must be a behaviour of
   AckTracker.  The call arguments are bound from the log; the reply and the
   projection are then determined by the specification and compared in the
   invariant Conform, so a divergence is reported with the expected values. *)
EXTENDS AckTracker, Json, TLC
VARIABLE l

Log == ndJsonDeserialize("trace.ndjson")

TraceInit == Init /\ l = 1

Reset0 ==
  /\ entries' = [k \in Keys |-> Absent]
  /\ nextTok' = 1
  /\ clock' = 1
  /\ cfg' = Log[l].ev.cfg
  /\ ev' = Log[l].ev

Step(e) ==
  CASE e.a = "Init"          -> Reset0
    [] e.a = "Bind"          -> Bind(e.s, e.m, e.at)
    [] e.a = "BindBatch"     -> BindBatch(e.items[1].s, e.items[1].m, e.items[2].s, e.items[2].m)
    [] e.a = "Finish"        -> Finish(e.s, e.m, e.tok)
    [] e.a = "FinishBatch"   -> FinishBatch(e.items[1].s, e.items[1].m, e.items[1].tok,
                                            e.items[2].s, e.items[2].m, e.items[2].tok)
    [] e.a = "Cancel"        -> Cancel(e.s, e.m, e.tok)
    [] e.a = "Ack"           -> Ack(e.s, e.m)
    [] e.a = "SessionClosed" -> SessionClosed(e.s)
    [] e.a = "Expire"        -> Expire(e.ttl)
    [] e.a = "Tick"          -> Tick
    [] e.a = "Reset"         -> Reset

TraceNext == l <= Len(Log) /\ l' = l + 1 /\ Step(Log[l].ev)

TraceSpec == TraceInit /\ [][TraceNext]_<<vars, l>>

\* Deterministic step: the logged reply and projection must be the specification's.
Conform ==
  l > 1 /\ Log[l - 1].ev.a # "Init" =>
    /\ ev.res = Log[l - 1].ev.res
    /\ Proj = Log[l - 1].st

\* Acceptance: every line was consumed.
HW       == TLCSet(1, IF l > TLCGet(1) THEN l ELSE TLCGet(1))
Track    == HW
Accepted == TLCGet(1) = Len(Log) + 1
ASSUME TLCSet(1, 0)
===============================================================================

SPECIFICATION Spec
CONSTANTS
  Sessions = {"s1", "s2"}
  Msgs = {1, 2}
  MaxPers = {0, 1, 2}
  MaxTok = 4
  MaxClock = 4
  TTLs = {0, 1, 2}
VIEW View
INVARIANTS TypeOK
PROPERTIES C32_CountExact C32_AckOnlyMatching C32_CancelKeepsCommitted C32_CloseExact C32_ExpireExact
CHECK_DEADLOCK FALSE

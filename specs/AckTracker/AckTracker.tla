------------------------------ MODULE AckTracker ------------------------------
(* Receive-acknowledgement tracker (internal/runtime/delivery/ack_tracker.go).

   Abstract state: the set of outstanding (session, message) deliveries.  For each
   outstanding key the tracker keeps whether some delivery attempt already
   completed ("committed", with the delivery time of the last completed attempt)
   and the set of still in-flight bind reservations (token, delivery time).

   One action per exported method; every action records the call and its reply in
   `ev` (hidden by VIEW in exhaustive runs).  Property C32 is stated at the end. *)
EXTENDS Integers, Sequences, FiniteSets, SequencesExt

CONSTANTS
  Sessions,   \* set of strings, e.g. {"s1","s2"}
  Msgs,       \* set of message numbers, e.g. 1..2
  MaxPers,    \* set of MaxPendingPerSession values tried (0 = unlimited)
  MaxTok,     \* bound on issued bind tokens
  MaxClock,   \* bound on the injected clock (Unix seconds)
  TTLs        \* set of TTL values (seconds) tried by Expire

VARIABLES
  entries,    \* [Keys -> entry]   (entry.present = FALSE means "not outstanding")
  nextTok,    \* next bind token to issue
  clock,      \* injected clock
  cfg,        \* configuration of this tracker instance: [maxPer |-> n]
  ev          \* last call and reply (observation only)

vars == <<entries, nextTok, clock, cfg, ev>>
MaxPer == cfg.maxPer

Keys   == Sessions \X Msgs
Absent == [present |-> FALSE, committed |-> FALSE, cAt |-> 0, att |-> {}]

Count(e)      == Cardinality({k \in Keys : e[k].present})
PerSession(s) == Cardinality({m \in Msgs : entries[<<s, m>>].present})

\* Delivery times that protect an entry from expiry.
Times(en) == {a[2] : a \in en.att} \cup (IF en.committed THEN {en.cAt} ELSE {})

Init ==
  /\ entries = [k \in Keys |-> Absent]
  /\ nextTok = 1
  /\ clock = 1
  /\ cfg \in [maxPer : MaxPers]
  /\ ev = [a |-> "Init", cfg |-> cfg]

-------------------------------------------------------------------------------
\* One reservation.  `at` = 0 means "stamp with the clock".  Returns the new
\* entries function and the reply record as a pair so that Bind and BindBatch
\* share one definition.
BindOne(e, tok, s, m, at) ==
  LET k       == <<s, m>>
      existed == e[k].present
      inSess  == Cardinality({m2 \in Msgs : e[<<s, m2>>].present})
      full    == MaxPer > 0 /\ ~existed /\ inSess >= MaxPer
      stamp   == IF at = 0 THEN clock ELSE at
  IN IF full
       THEN [e |-> e, bound |-> FALSE, added |-> FALSE]
       ELSE [e |-> [e EXCEPT ![k] = [present |-> TRUE, committed |-> e[k].committed,
                                     cAt |-> e[k].cAt,
                                     att |-> e[k].att \cup {<<tok, stamp>>}]],
             bound |-> TRUE, added |-> ~existed]

Bind(s, m, at) ==
  /\ nextTok <= MaxTok
  /\ LET r == BindOne(entries, nextTok, s, m, at) IN
       /\ entries' = r.e
       /\ nextTok' = IF r.bound THEN nextTok + 1 ELSE nextTok
       /\ ev' = [a |-> "Bind", s |-> s, m |-> m, at |-> at,
                 res |-> [bound |-> r.bound, added |-> r.added,
                          tok |-> IF r.bound THEN nextTok ELSE 0,
                          pending |-> Count(r.e)]]
  /\ UNCHANGED <<clock, cfg>>

\* A batch of two reservations (duplicates allowed); replies are item aligned.
BindBatch(s1, m1, s2, m2) ==
  /\ nextTok + 1 <= MaxTok
  /\ LET r1 == BindOne(entries, nextTok, s1, m1, 0)
         t2 == IF r1.bound THEN nextTok + 1 ELSE nextTok
         r2 == BindOne(r1.e, t2, s2, m2, 0)
         n  == (IF r1.bound THEN 1 ELSE 0) + (IF r2.bound THEN 1 ELSE 0)
     IN
       /\ entries' = r2.e
       /\ nextTok' = nextTok + n
       /\ ev' = [a |-> "BindBatch",
                 items |-> << [s |-> s1, m |-> m1], [s |-> s2, m |-> m2] >>,
                 res |-> [toks |-> << IF r1.bound THEN nextTok ELSE 0,
                                      IF r2.bound THEN t2 ELSE 0 >>,
                          bound |-> n,
                          added |-> (IF r1.added THEN 1 ELSE 0) + (IF r2.added THEN 1 ELSE 0),
                          pending |-> Count(r2.e)]]
  /\ UNCHANGED <<clock, cfg>>

\* Finishing / cancelling is token scoped: a token that is not in flight for this
\* key (stale, already finished, or belonging to another key) changes nothing.
Holds(en, tok) == en.present /\ \E a \in en.att : a[1] = tok
AttOf(en, tok) == CHOOSE a \in en.att : a[1] = tok

FinishOne(e, s, m, tok) ==
  LET k == <<s, m>> IN
  IF Holds(e[k], tok)
    THEN [e |-> [e EXCEPT ![k] = [present |-> TRUE, committed |-> TRUE,
                                  cAt |-> AttOf(e[k], tok)[2],
                                  att |-> e[k].att \ {AttOf(e[k], tok)}]],
          ok |-> TRUE]
    ELSE [e |-> e, ok |-> FALSE]

Finish(s, m, tok) ==
  /\ LET r == FinishOne(entries, s, m, tok) IN
       /\ entries' = r.e
       /\ ev' = [a |-> "Finish", s |-> s, m |-> m, tok |-> tok,
                 res |-> [ok |-> r.ok, pending |-> Count(r.e)]]
  /\ UNCHANGED <<nextTok, clock, cfg>>

FinishBatch(s1, m1, t1, s2, m2, t2) ==
  /\ LET r1 == FinishOne(entries, s1, m1, t1)
         r2 == FinishOne(r1.e, s2, m2, t2)
     IN
       /\ entries' = r2.e
       /\ ev' = [a |-> "FinishBatch",
                 items |-> << [s |-> s1, m |-> m1, tok |-> t1], [s |-> s2, m |-> m2, tok |-> t2] >>,
                 res |-> [finished |-> (IF r1.ok THEN 1 ELSE 0) + (IF r2.ok THEN 1 ELSE 0),
                          pending |-> Count(r2.e)]]
  /\ UNCHANGED <<nextTok, clock, cfg>>

Cancel(s, m, tok) ==
  /\ LET k  == <<s, m>>
         en == entries[k]
     IN
       IF Holds(en, tok)
         THEN LET rest == en.att \ {AttOf(en, tok)}
                  gone == ~en.committed /\ rest = {}
                  e2   == [entries EXCEPT ![k] = IF gone THEN Absent
                                                   ELSE [en EXCEPT !.att = rest]]
              IN /\ entries' = e2
                 /\ ev' = [a |-> "Cancel", s |-> s, m |-> m, tok |-> tok,
                           res |-> [canceled |-> TRUE, removed |-> gone, pending |-> Count(e2)]]
         ELSE /\ entries' = entries
              /\ ev' = [a |-> "Cancel", s |-> s, m |-> m, tok |-> tok,
                        res |-> [canceled |-> FALSE, removed |-> FALSE, pending |-> Count(entries)]]
  /\ UNCHANGED <<nextTok, clock, cfg>>

Ack(s, m) ==
  /\ LET k  == <<s, m>>
         e2 == [entries EXCEPT ![k] = Absent]
     IN /\ entries' = e2
        /\ ev' = [a |-> "Ack", s |-> s, m |-> m,
                  res |-> [ok |-> entries[k].present, pending |-> Count(e2)]]
  /\ UNCHANGED <<nextTok, clock, cfg>>

SessionClosed(s) ==
  /\ LET gone == {m \in Msgs : entries[<<s, m>>].present}
         e2   == [k \in Keys |-> IF k[1] = s THEN Absent ELSE entries[k]]
     IN /\ entries' = e2
        /\ ev' = [a |-> "SessionClosed", s |-> s,
                  res |-> [removed |-> SetToSortSeq(gone, <), pending |-> Count(e2)]]
  /\ UNCHANGED <<nextTok, clock, cfg>>

\* Expire(ttl): an entry is removed exactly when every delivery time it carries
\* (committed snapshot and in-flight attempts) is at or before clock - ttl.
Idle(en, ttl) == en.present /\ \A t \in Times(en) : t <= clock - ttl

Expire(ttl) ==
  /\ LET gone == IF ttl <= 0 THEN {} ELSE {k \in Keys : Idle(entries[k], ttl)}
         e2   == [k \in Keys |-> IF k \in gone THEN Absent ELSE entries[k]]
     IN /\ entries' = e2
        /\ ev' = [a |-> "Expire", ttl |-> ttl,
                  res |-> [removed |-> [s \in Sessions |-> SetToSortSeq({m \in Msgs : <<s, m>> \in gone}, <)],
                           pending |-> Count(e2)]]
  /\ UNCHANGED <<nextTok, clock, cfg>>

Tick ==
  /\ clock < MaxClock
  /\ clock' = clock + 1
  /\ ev' = [a |-> "Tick", res |-> [pending |-> Count(entries)]]
  /\ UNCHANGED <<entries, nextTok, cfg>>

Reset ==
  /\ entries' = [k \in Keys |-> Absent]
  /\ ev' = [a |-> "Reset", res |-> [pending |-> 0]]
  /\ UNCHANGED <<nextTok, clock, cfg>>

Toks == 1..MaxTok

Next ==
  \/ \E s \in Sessions, m \in Msgs, at \in {0, clock - 1} : at >= 0 /\ Bind(s, m, at)
  \/ \E s1 \in Sessions, m1 \in Msgs, s2 \in Sessions, m2 \in Msgs : BindBatch(s1, m1, s2, m2)
  \/ \E s \in Sessions, m \in Msgs, t \in Toks : t < nextTok /\ Finish(s, m, t)
  \/ \E s1 \in Sessions, m1 \in Msgs, t1 \in Toks, s2 \in Sessions, m2 \in Msgs, t2 \in Toks :
        t1 < nextTok /\ t2 < nextTok /\ FinishBatch(s1, m1, t1, s2, m2, t2)
  \/ \E s \in Sessions, m \in Msgs, t \in Toks : t < nextTok /\ Cancel(s, m, t)
  \/ \E s \in Sessions, m \in Msgs : Ack(s, m)
  \/ \E s \in Sessions : SessionClosed(s)
  \/ \E ttl \in TTLs : Expire(ttl)
  \/ Tick
  \/ Reset

Spec == Init /\ [][Next]_vars

\* Observable projection: what the real tracker exposes without consuming state.
Proj == [pending |-> Count(entries)]

\* Destructive full observation used at the end of a replayed behaviour: the keys
\* an Ack of every (session, message) would find.
Outstanding == [s \in Sessions |-> SetToSortSeq({m \in Msgs : entries[<<s, m>>].present}, <)]

-------------------------------------------------------------------------------
\* Property C32 on the design.

TypeOK ==
  /\ \A k \in Keys : entries[k].present =>
        (entries[k].committed \/ entries[k].att # {})   \* an outstanding key has a reason to exist
  /\ \A k \in Keys : ~entries[k].present => entries[k] = Absent
  /\ \A k1, k2 \in Keys : k1 # k2 =>                    \* a token reserves one key only
        {a[1] : a \in entries[k1].att} \cap {a[1] : a \in entries[k2].att} = {}

\* The reported count is the number of distinct outstanding deliveries.  (An action
\* property rather than an invariant: `ev` is hidden by VIEW, and TLC evaluates
\* invariants only on the first representative of a view class.)
C32_CountExact == [][ev'.a # "Init" => ev'.res.pending = Count(entries')]_vars

Others(k) == Keys \ {k}
Same(K)   == \A k \in K : entries'[k] = entries[k]

\* An acknowledgement removes only the matching delivery.
C32_AckOnlyMatching ==
  [][ev'.a = "Ack" => Same(Others(<<ev'.s, ev'.m>>)) /\ ~entries'[<<ev'.s, ev'.m>>].present]_vars

\* Rolling back a failed re-delivery never removes an earlier successful one.
C32_CancelKeepsCommitted ==
  [][ev'.a = "Cancel" =>
       /\ Same(Others(<<ev'.s, ev'.m>>))
       /\ entries[<<ev'.s, ev'.m>>].committed =>
            /\ entries'[<<ev'.s, ev'.m>>].present
            /\ entries'[<<ev'.s, ev'.m>>].committed
            /\ entries'[<<ev'.s, ev'.m>>].cAt = entries[<<ev'.s, ev'.m>>].cAt]_vars

\* Closing a session removes exactly that session's entries.
C32_CloseExact ==
  [][ev'.a = "SessionClosed" =>
       \A k \in Keys : IF k[1] = ev'.s THEN ~entries'[k].present ELSE entries'[k] = entries[k]]_vars

\* Expiry removes only entries idle past the TTL, and all of them.
C32_ExpireExact ==
  [][ev'.a = "Expire" =>
       \A k \in Keys :
         IF ev'.ttl > 0 /\ Idle(entries[k], ev'.ttl) THEN ~entries'[k].present
         ELSE entries'[k] = entries[k]]_vars

View == <<entries, nextTok, clock, cfg>>
===============================================================================

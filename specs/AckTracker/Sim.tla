--------------------------------- MODULE Sim ---------------------------------
(* Behaviour generator: `tlc -simulate` on this module prints one JSON behaviour
   per line ("BEH {...}") when a run reaches Depth steps.  The behaviour carries,
   for every step, the call, the reply the specification determines and the
   projection of the abstract state. *)
EXTENDS AckTracker, Json, TLC
CONSTANT Depth
VARIABLE hist

SimInit == Init /\ hist = << [ev |-> ev, st |-> Proj] >>
\* One successor per action kind: arguments are drawn with RandomElement so that
\* `-simulate` chooses uniformly among action kinds, not among argument tuples.
Pick(S) == {RandomElement(S)}
PickTok == Pick(1..(IF nextTok > 1 THEN nextTok - 1 ELSE 1))
SimStep ==
  \/ \E s \in Pick(Sessions), m \in Pick(Msgs), at \in Pick({0, IF clock > 1 THEN clock - 1 ELSE 0}) : Bind(s, m, at)
  \/ \E s \in Pick(Sessions), m \in Pick(Msgs) : Bind(s, m, 0)
  \* aimed: pile another overlapping attempt onto a key that already has in-flight attempts
  \/ \E k \in Pick({k \in Keys : entries[k].att # {}} \cup {<<"none", 0>>}) :
        k[1] # "none" /\ \E at \in Pick({0, IF clock > 1 THEN clock - 1 ELSE 0}) : Bind(k[1], k[2], at)
  \/ \E k \in Pick({k \in Keys : Cardinality(entries[k].att) >= 2} \cup {<<"none", 0>>}) :
        k[1] # "none" /\ Bind(k[1], k[2], 0)
  \* aimed: roll back / finish the OLDEST attempt of a key with several overlapping attempts
  \/ \E k \in Pick({k \in Keys : Cardinality(entries[k].att) >= 2} \cup {<<"none", 0>>}) :
        k[1] # "none" /\ LET oldest == CHOOSE a \in entries[k].att : \A b \in entries[k].att : a[1] <= b[1]
                        IN Cancel(k[1], k[2], oldest[1])
  \/ \E k \in Pick({k \in Keys : Cardinality(entries[k].att) >= 3} \cup {<<"none", 0>>}) :
        k[1] # "none" /\ \E a \in Pick(entries[k].att) : Cancel(k[1], k[2], a[1])
  \/ \E k \in Pick({k \in Keys : Cardinality(entries[k].att) >= 2} \cup {<<"none", 0>>}) :
        k[1] # "none" /\ LET oldest == CHOOSE a \in entries[k].att : \A b \in entries[k].att : a[1] <= b[1]
                        IN Finish(k[1], k[2], oldest[1])
  \/ \E s1 \in Pick(Sessions), m1 \in Pick(Msgs), s2 \in Pick(Sessions), m2 \in Pick(Msgs) : BindBatch(s1, m1, s2, m2)
  \/ \E s \in Pick(Sessions), m \in Pick(Msgs), t \in PickTok : Finish(s, m, t)
  \/ \E k \in Pick({k \in Keys : entries[k].att # {}} \cup {<<"none", 0>>}) :
        k[1] # "none" /\ \E a \in Pick(entries[k].att) : Finish(k[1], k[2], a[1])
  \/ \E s1 \in Pick(Sessions), m1 \in Pick(Msgs), t1 \in PickTok, s2 \in Pick(Sessions), m2 \in Pick(Msgs), t2 \in PickTok :
        FinishBatch(s1, m1, t1, s2, m2, t2)
  \/ \E s \in Pick(Sessions), m \in Pick(Msgs), t \in PickTok : Cancel(s, m, t)
  \/ \E k \in Pick({k \in Keys : entries[k].att # {}} \cup {<<"none", 0>>}) :
        k[1] # "none" /\ \E a \in Pick(entries[k].att) : Cancel(k[1], k[2], a[1])
  \/ \E s \in Pick(Sessions), m \in Pick(Msgs) : Ack(s, m)
  \/ \E s \in Pick(Sessions) : SessionClosed(s)
  \/ \E ttl \in Pick(TTLs) : Expire(ttl)
  \/ Tick
  \/ (RandomElement(1..8) = 1 /\ Reset)
SimNext == SimStep /\ hist' = Append(hist, [ev |-> ev', st |-> Proj'])
Emit    == Len(hist) = Depth + 1 =>
             PrintT("BEH " \o ToJson([steps |-> hist, final |-> Outstanding]))
===============================================================================

SPECIFICATION TraceSpec
CONSTANTS
  Sessions = {"s1", "s2", "s3"}
  Msgs = {1, 2, 3}
  MaxPers = {0}
  MaxTok = 1000000
  MaxClock = 1000000
  TTLs = {0}
CONSTRAINT Track
INVARIANTS Conform TypeOK
PROPERTIES C32_CountExact C32_AckOnlyMatching C32_CancelKeepsCommitted C32_CloseExact C32_ExpireExact
POSTCONDITION Accepted
CHECK_DEADLOCK FALSE

INIT SimInit
NEXT SimNext
CONSTANTS
  Sessions = {"s1", "s2"}
  Msgs = {1, 2}
  MaxPers = {0, 1}
  MaxTok = 12
  MaxClock = 5
  TTLs = {0, 1, 2}
  Depth = 25
INVARIANT Emit
CHECK_DEADLOCK FALSE

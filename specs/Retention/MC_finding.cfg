\* NOT part of the check: the specification with the three deviations found in the code switched on.
\*   CapZeroUnbounded = TRUE  finding C10:committed-cap-zero-passed-to-store-as-unbounded (fixed in
\*                            /repo by 8a300f740): Append; Read(service, from 0) returns row 1 with hw = 0.
\*   LastUncapped = TRUE      finding C10:last-visible-read-ignores-committed-cap (known):
\*                            Append; Last(0) returns row 1 with hw = 0.
\*   FwdDropsSyncOnce = TRUE  finding C10:forwarded-read-drops-sync-once-flag (known): a SyncOnce row
\*                            appended, committed; SyncF returns it.
\* TLC reports a violation of C10_ReadWindow (3-state counterexample).
SPECIFICATION Spec
CONSTANTS
  Followers = {2}
  ISRs = {{1, 2}}
  MinISRs = {2}
  Stores = {"memory", "messagedb"}
  FwdModes = {"miss", "old", "cur"}
  PreLeos = {0}
  PreBars = {0}
  MaxLeo = 2
  MaxB = 2
  Trims = {0}
  Limits = {2}
  ReadFroms = {0, 2, 99}
  ReadMaxs = {0, 99}
  SyncStarts = {0, 2}
  SyncEnds = {0}
  CapZeroUnbounded = TRUE
  LastUncapped = TRUE
  FwdDropsSyncOnce = TRUE
VIEW View
INVARIANTS TypeOK C10_PhysBound
PROPERTIES C10_ReadWindow C10_Monotone C10_TrimCovered
CHECK_DEADLOCK FALSE

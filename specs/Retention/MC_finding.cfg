\* NOT part of the check: the specification with the code's behaviour at committed cap 0
\* (CapZeroUnbounded = TRUE, finding C10:committed-cap-zero-passed-to-store-as-unbounded).
\* TLC reports a violation of C10_ReadWindow: Append; Read(service, from 0) returns row 1 with hw = 0.
SPECIFICATION Spec
CONSTANTS
  Followers = {2}
  ISRs = {{1, 2}}
  MinISRs = {2}
  Stores = {"memory", "messagedb"}
  MaxLeo = 2
  MaxB = 2
  Trims = {0}
  Limits = {2}
  ReadFroms = {0, 2, 99}
  ReadMaxs = {0, 99}
  SyncStarts = {0, 2}
  SyncEnds = {0}
  CapZeroUnbounded = TRUE
  LastUncapped = TRUE
VIEW View
INVARIANTS TypeOK C10_PhysBound
PROPERTIES C10_ReadWindow C10_Monotone C10_TrimCovered
CHECK_DEADLOCK FALSE

------------------------------- MODULE Retention -------------------------------
(* Committed / retention boundaries of one channel on its leader (property C10).

   What is transcribed, one action per exported call:

     Append   pkg/channel service Append, CommitModeLocal (reactor/append.go, machine
              ApplyAppendStored + AdvanceHW): the store assigns log end + 1.
     Ack      transport.Server.HandleAck (reactor/leader_replication.go
              applyLeaderProgressAck + machine ApplyFollowerAck): follower progress.
     Meta     Service.ApplyMeta with an authoritative RetentionThroughSeq (machine/meta.go):
              the runtime keeps the maximum; the metadata source read by the read path is
              monotone (environment assumption of the slot metadata, not of this module).
     Apply    ApplyRetentionBoundary (reactor/retention.go handleApplyRetentionBoundary +
              retentionTrimDecision + trySubmitRetentionCheckpoint, worker runStoreRetention,
              store AdoptRetentionBoundary / TrimMessagesThrough, handleStoreRetentionResult),
              observed at quiescence (the retention-owned checkpoint has completed).
     Read     store.ReadCommitted with the caps passed explicitly (layer "store": memory.go /
              channel_adapter.go) and pkg/cluster/channels Service.ReadCommittedBatch
              (layer "service": readLocalCommitted computes the caps).
     Sync     internal/infra/cluster ChannelMessageReader.SyncMessages over the service layer
              (readCommittedRequest, SyncOnce filter, EndSeq filter, page cut).
     Head     pkg/cluster/channels Service.ReadConversationHead (readLocalConversationHead +
              readLastOrdinaryCommitted): newest ordinary row under the live committed watermark.
     Last     pkg/cluster/channels Service.ReadChannelLastVisible (readLocalLastVisible; exported,
              no caller left inside the repository).
     Read     layer "fwd": Service.ReadCommittedBatch issued on a NON-leader node: the origin sends
              its own view of the authoritative record (RetentionThroughSeq, MinISR, leader, epochs)
              to the leader (ForwardCommittedReads -> handleForwardCommittedReads), whose own
              metadata lookup either answers (floor = max of both records, the leader's MinISR) or
              answers not-found (fallback branch: the origin's floor and the origin's MinISR).
     SyncF    ChannelMessageReader.SyncMessages on a non-leader node (the page is read through the
              forwarded committed read; the SyncOnce filter runs on the origin).
     HeadF    Service.ReadConversationHead / ReadConversationHeads issued on a non-leader node
              (ForwardLastVisible with HeadUID -> handleForwardLastVisible, and
              ForwardConversationHeads -> handleForwardConversationHeads), same two lookup modes.

   cfg.pre = [n, c, b, k] describes the store the leader's runtime is LOADED from (reactor
   completeApplyMetaStoreLoad): n durable rows, checkpointed watermark c, adopted boundary b
   (announced by the metadata record as well), row k a SyncOnce row (0 = none); n = 0 is a fresh
   channel.  This is the state a leader is in after its own lifecycle checkpoint and a reload: a
   durable tail above the checkpointed watermark, which the retention-owned checkpoint alone
   (checkpoint = boundary) never produces.

   `match` is a partial function: match[f] = 0 means the leader knows no progress of f
   (machine.ChannelState.Progress has no entry; entries are created by the first
   acknowledgement with a positive offset).  Observation O1 of DESIGN.md: for such a member
   reactor/retention.go minISRMatchOffset substitutes RetentionThroughSeq, which the handler
   has just raised to the requested boundary, so the ISR gate is vacuous for it.  The
   properties below use the KNOWN-progress reading; StrictTrimOK is the strict reading and is
   reported as a diagnostic only.

   Every action records call and reply in `ev` (hidden by VIEW in exhaustive runs). *)
EXTENDS Integers, Sequences, FiniteSets, SequencesExt

CONSTANTS
  Followers,        \* follower node ids (the local node, the leader, is 1)
  ISRs,             \* ISR sets tried (each contains 1)
  MinISRs,          \* MinISR values tried
  Stores,           \* subset of {"memory", "messagedb"}
  FwdModes,         \* forwarded reads tried: "miss" (leader lookup not-found), "old" / "cur" (lookup answers, origin record oldest / current)
  PreLeos,          \* log lengths of the stores a runtime is loaded from (0 = fresh channel)
  PreBars,          \* positions tried for the one SyncOnce row of a loaded store (0 = none)
  MaxLeo,           \* bound on the log end
  MaxB,             \* retention boundaries requested / announced are <= MaxB (<= MaxLeo)
  Trims,            \* MaxTrimMessages values tried (0 = unlimited)
  Limits,           \* read limits tried
  ReadFroms,        \* FromSeq values tried by reads (99 = MaxUint64)
  ReadMaxs,         \* MaxSeq values tried by service-layer forward reads (0 = unset, 99 = MaxUint64)
  SyncStarts,       \* StartSeq values tried by SyncMessages
  SyncEnds,         \* EndSeq values tried by SyncMessages
  CapZeroUnbounded, \* TRUE: the code's behaviour at committed cap 0 before /repo 8a300f740 (finding, fixed); FALSE: intended
  LastUncapped,     \* TRUE: the code's ReadChannelLastVisible (no committed cap; finding); FALSE: intended
  FwdDropsSyncOnce  \* TRUE: the code's forwarded reads (the RPC codec drops Message.SyncOnce; finding); FALSE: intended

VARIABLES
  cfg,      \* [store, isr, minISR, pre] of this instance
  present,  \* sequences physically present in the store
  bar,      \* present sequences that are SyncOnce / recovery-barrier rows
  leo,      \* log end (store: max(last row, RetainedMaxSeq); reactor LEO)
  lprog,    \* Progress[local]: log end at the last stored append / metadata application
  hw,       \* committed watermark of the runtime
  ckpt,     \* durable checkpointed watermark (store checkpoint = reactor CheckpointHW at quiescence)
  match,    \* [Followers -> 0..MaxLeo], 0 = progress unknown
  ret,      \* runtime RetentionThroughSeq (authoritative logical boundary as the runtime knows it)
  metaRet,  \* RetentionThroughSeq of the metadata source used by the read path
  local,    \* store-adopted boundary (LocalRetentionThroughSeq)
  phys,     \* PhysicalRetentionThroughSeq
  ev        \* last call and reply (observation only)

vars == <<cfg, present, bar, leo, lprog, hw, ckpt, match, ret, metaRet, local, phys, ev>>

Local == 1
Inf   == 99          \* stands for MaxUint64 in read requests

Max2(a, b) == IF a > b THEN a ELSE b
Min2(a, b) == IF a < b THEN a ELSE b
MaxOf(S)  == IF S = {} THEN 0 ELSE CHOOSE x \in S : \A y \in S : y <= x
Asc(S)    == SetToSortSeq(S, <)
Desc(S)   == SetToSortSeq(S, >)
First(q, n) == SubSeq(q, 1, Min2(n, Len(q)))

NoPre == [n |-> 0, c |-> 0, b |-> 0, k |-> 0]
\* Loaded stores tried: boundary <= checkpoint <= log end.  With MinISR <= 1 every durable row is
\* committed (the read path caps by the log end), so only fully checkpointed stores are tried there:
\* the runtime's own watermark after a load is the checkpoint.
PresFor(minISR) ==
  {p \in [n : PreLeos, c : 0..MaxLeo, b : 0..MaxB, k : PreBars] :
      /\ p.b <= p.c /\ p.c <= p.n /\ p.k <= p.n
      /\ (minISR <= 1 => p.c = p.n)}
Bases == {c \in [store : Stores, isr : ISRs, minISR : MinISRs] : c.minISR <= Cardinality(c.isr)}
WithPre(c, p) == [store |-> c.store, isr |-> c.isr, minISR |-> c.minISR, pre |-> p]

InitC(c) ==
  /\ cfg = c
  /\ present = 1..c.pre.n /\ bar = {c.pre.k} \ {0}
  /\ leo = c.pre.n /\ lprog = c.pre.n /\ hw = c.pre.c /\ ckpt = c.pre.c
  /\ match = [f \in Followers |-> 0]
  /\ ret = c.pre.b /\ metaRet = c.pre.b /\ local = c.pre.b /\ phys = 0
  /\ ev = [a |-> "Init", cfg |-> [store |-> c.store, isr |-> Asc(c.isr), minISR |-> c.minISR, pre |-> c.pre]]

Init == \E c \in Bases : \E p \in PresFor(c.minISR) : InitC(WithPre(c, p))

-------------------------------------------------------------------------------
\* machine/progress.go AdvanceHW: the MinISR-th highest match among the ISR, never backwards.
Prog(lp, mt, n) == IF n = Local THEN lp ELSE mt[n]
Kth(lp, mt) ==
  CHOOSE v \in {Prog(lp, mt, n) : n \in cfg.isr} :
    /\ Cardinality({n \in cfg.isr : Prog(lp, mt, n) >= v}) >= cfg.minISR
    /\ Cardinality({n \in cfg.isr : Prog(lp, mt, n) > v}) < cfg.minISR
NewHW(lp, mt) == Max2(hw, Kth(lp, mt))

\* kind = "msg" | "bar" (a SyncOnce row, as the recovery barrier record is)
AppendRow(kind) ==
  /\ leo < MaxLeo
  /\ LET s == leo + 1 IN
       /\ present' = present \cup {s}
       /\ bar' = IF kind = "bar" THEN bar \cup {s} ELSE bar
       /\ leo' = s
       /\ lprog' = s
       /\ hw' = NewHW(s, match)
       /\ ev' = [a |-> "Append", kind |-> kind, res |-> [seq |-> s]]
  /\ UNCHANGED <<cfg, ckpt, match, ret, metaRet, local, phys>>

\* An acknowledgement above the log end is refused, offset 0 carries none.
Ack(f, off) ==
  /\ LET ok == off > 0 /\ off <= leo
         mt == IF ok THEN [match EXCEPT ![f] = Max2(@, off)] ELSE match
     IN /\ match' = mt
        /\ hw' = IF ok THEN NewHW(lprog, mt) ELSE hw
        /\ ev' = [a |-> "Ack", f |-> f, off |-> off, res |-> [hw |-> hw']]
  /\ UNCHANGED <<cfg, present, bar, leo, lprog, ckpt, ret, metaRet, local, phys>>

\* Authoritative metadata carrying retention r (possibly a stale delivery, r below the current one).
Meta(r) ==
  /\ ret' = Max2(ret, r)
  /\ metaRet' = Max2(metaRet, r)
  /\ lprog' = leo                      \* machine ApplyMeta: Progress[local] = LEO
  /\ ev' = [a |-> "Meta", r |-> r, res |-> [ret |-> ret']]
  /\ UNCHANGED <<cfg, present, bar, leo, hw, ckpt, match, local, phys>>

\* reactor/retention.go minISRMatchOffset with the substitution for unknown progress.
MinMatch(r, lv) ==
  LET v(n) == IF n = Local THEN lv ELSE IF match[n] > 0 THEN match[n] ELSE r
  IN CHOOSE x \in {v(n) : n \in cfg.isr} : \A n \in cfg.isr : x <= v(n)

\* ApplyRetentionBoundary(b) bounded by MaxTrimMessages = mt.
Apply(b, mt) ==
  LET r1   == Max2(ret, b)
      noop == b <= local /\ b <= phys
      \* retentionTrimDecision on the reactor state before the store task (leader role)
      okHW   == b <= hw
      okCkpt == b <= ckpt
      okLeo  == b <= leo
      okISR  == b <= MinMatch(r1, leo)
      allow  == b > phys /\ okHW /\ okCkpt /\ okLeo /\ okISR
      ckLag  == b > phys /\ okHW /\ ~okCkpt          \* BlockedReason checkpoint_lag
      \* store: AdoptRetentionBoundary, then TrimMessagesThrough when allowed
      cand == Asc({s \in present : s <= b})
      del  == IF ~allow THEN <<>> ELSE IF mt > 0 THEN First(cand, mt) ELSE cand
      dset == {del[i] : i \in DOMAIN del}
      more == Len(cand) > Len(del)
      dthr == IF Len(del) = 0 THEN 0 ELSE del[Len(del)]
      p1   == IF ~allow THEN phys
              ELSE IF cfg.store = "messagedb"
                     THEN IF ~more THEN Max2(phys, b) ELSE Max2(phys, dthr)
                     ELSE Max2(phys, dthr)
  IN
  \* The memory double addresses rows by position (recordBySeqLocked), so rows appended after a
  \* gap are unreadable there: boundaries above the log end are tried on MessageDB only.
  /\ cfg.store = "memory" => b <= leo
  /\ ret' = r1
  /\ IF noop
       THEN /\ UNCHANGED <<present, bar, leo, ckpt, local, phys>>
            /\ ev' = [a |-> "Apply", b |-> b, mt |-> mt,
                      res |-> [local |-> local, phys |-> phys, deleted |-> 0, through |-> 0]]
       ELSE /\ local' = Max2(local, b)
            /\ leo' = Max2(leo, b)                       \* RetainedMaxSeq keeps the log end above the boundary
            /\ ckpt' = IF ckLag THEN b ELSE ckpt        \* trySubmitRetentionCheckpoint
            /\ present' = present \ dset
            /\ bar' = bar \ dset
            /\ phys' = p1
            /\ ev' = [a |-> "Apply", b |-> b, mt |-> mt,
                      res |-> [local |-> local', phys |-> p1, deleted |-> Len(del), through |-> dthr]]
  /\ UNCHANGED <<cfg, lprog, hw, match, metaRet>>

-------------------------------------------------------------------------------
\* Reads (no state change).

\* store.ReadCommitted, forward (both stores): rows in [max(from,1,mn), mx] ascending.
StoreFwd(from, mn, mx, lim) ==
  LET start == Max2(Max2(from, 1), mn)
      top   == IF mx = 0 \/ mx > leo THEN leo ELSE mx
  IN IF top < mn THEN <<>> ELSE First(Asc({s \in present : start <= s /\ s <= top}), lim)

\* store.ReadCommitted, reverse.  The memory double clamps the start to MaxSeq and treats
\* from 0 as "log end"; the MessageDB adapter answers nothing below MinSeq (from 0 included)
\* and drops rows above MaxSeq after the page was cut.
StoreRev(from, mn, mx, lim) ==
  IF cfg.store = "memory"
    THEN LET f0 == IF from = 0 \/ from > leo THEN leo ELSE from
             f  == IF mx > 0 /\ f0 > mx THEN mx ELSE f0
         IN IF f < mn THEN <<>> ELSE First(Desc({s \in present : mn <= s /\ s <= f}), lim)
    ELSE IF from < mn THEN <<>>
         ELSE SelectSeq(First(Desc({s \in present : s <= from}), lim),
                        LAMBDA s : s >= mn /\ (mx = 0 \/ s <= mx))

\* pkg/cluster/channels readLocalCommitted: floor and committed cap computed by the caller.
Floor == Max2(metaRet, local)
Cap   == IF cfg.minISR <= 1 THEN leo ELSE ckpt
\* unb = TRUE is what the code did when the cap is 0 until /repo 8a300f740 (MaxSeq 0 reached the
\* store, which reads it as "no cap": finding C10:committed-cap-zero-passed-to-store-as-unbounded);
\* unb = FALSE is the intended, and now implemented, behaviour (nothing is visible).  The
\* deviation stays in the module so that a regression is recognised and named (ev.alt).
SvcF(fl, from, mx, lim, rev, unb) ==
  LET mn  == fl + 1
      mx1 == IF mx = 0 \/ mx > Cap THEN Cap ELSE mx
  IN IF Cap = 0 /\ ~unb THEN <<>>
     ELSE IF ~rev THEN IF from > Cap THEN <<>> ELSE StoreFwd(from, mn, mx1, lim)
     ELSE StoreRev(IF from > Cap THEN Cap ELSE from, mn, mx1, lim)
SvcU(from, mx, lim, rev, unb) == SvcF(Floor, from, mx, lim, rev, unb)
Svc(from, mx, lim, rev) == SvcU(from, mx, lim, rev, CapZeroUnbounded)

\* A read issued on a non-leader node.  The origin resolves the channel, finds another leader and
\* sends the read together with its own record: retention oret (the metadata source is monotone,
\* the origin may still hold an older record: oret <= metaRet), MinISR, expected leader and epochs.
\* handleForwardCommittedReads on the leader: its own lookup answers -> floor = max(oret, its
\* record, the store-adopted boundary), cap from ITS MinISR; its lookup answers not-found (miss)
\* and the request names it as leader -> floor = max(oret, store-adopted boundary), cap from the
\* MinISR the origin sent.  The environment assumption for the fallback is that the origin's
\* record is current (oret = metaRet); MinISR is a property of the channel, the same in every record.
FloorF(miss, oret) == IF miss THEN Max2(oret, local) ELSE Max2(Max2(oret, metaRet), local)
SvcFwd(from, mx, lim, rev, miss, oret) == SvcF(FloorF(miss, oret), from, mx, lim, rev, CapZeroUnbounded)

\* internal/infra/cluster message_reader.go
\* fl = floor of the service-layer read underneath; keep = FALSE: the SyncOnce filter finds no flag.
SyncReadG(fl, mode, start, end, lim, unb, keep) ==
  LET rev  == mode = "down" \/ (start = 0 /\ end = 0)
      mx0  == IF mode = "up" /\ end > 0 THEN end - 1
              ELSE IF mode = "down" /\ start > 0 THEN start ELSE Inf
      from == IF rev /\ start = 0 THEN Inf ELSE IF ~rev /\ start = 0 THEN 1 ELSE start
      mx   == IF rev /\ start = 0 THEN Inf ELSE mx0
      rd   == SvcF(fl, from, mx, lim + 1, rev, unb)
      vis  == IF keep THEN SelectSeq(rd, LAMBDA s : s \notin bar) ELSE rd
      flt  == IF end = 0 THEN vis
              ELSE IF mode = "down" THEN SelectSeq(vis, LAMBDA s : s > end)
              ELSE SelectSeq(vis, LAMBDA s : s < end)
      cut  == First(flt, lim)
  IN IF rev THEN Reverse(cut) ELSE cut
SyncReadU(mode, start, end, lim, unb) == SyncReadG(Floor, mode, start, end, lim, unb, TRUE)
SyncRead(mode, start, end, lim) == SyncReadU(mode, start, end, lim, CapZeroUnbounded)

Bars(q) == SelectSeq(q, LAMBDA s : s \in bar)

\* readLocalConversationHead: committed = store LEO (MinISR <= 1) or max(checkpoint, live HW).
HeadCap == IF cfg.minISR <= 1 THEN leo ELSE Max2(ckpt, hw)
Newest(S) == [found |-> S # {}, seq |-> MaxOf(S)]
HeadRead == Newest({s \in present \ bar : s > Floor /\ s <= HeadCap})

\* ReadChannelLastVisible.  Intended: as Head, above the caller's own floor as well.  The code
\* (known finding) looks only at the newest durable row: no committed cap, no SyncOnce filter,
\* no store-adopted boundary.
LastIntended(after) == Newest({s \in present \ bar : s > Max2(after, Floor) /\ s <= HeadCap})
LastCode(after) ==
  LET r == MaxOf(present) IN
  IF r > Max2(after, metaRet) THEN [found |-> TRUE, seq |-> r] ELSE [found |-> FALSE, seq |-> 0]

\* layer "store": the caller passes MinSeq = retention + 1 and MaxSeq = hw explicitly.
ReadStore(from, lim, rev) ==
  /\ hw >= 1
  /\ rev => from >= 1 /\ from <= hw
  /\ LET mn == ret + 1
         q  == IF rev THEN StoreRev(from, mn, hw, lim) ELSE StoreFwd(from, mn, hw, lim)
     IN ev' = [a |-> "Read", layer |-> "store", from |-> from, mn |-> mn, mx |-> hw, lim |-> lim, rev |-> rev,
               res |-> [seqs |-> q, bars |-> Bars(q)]]
  /\ UNCHANGED <<cfg, present, bar, leo, lprog, hw, ckpt, match, ret, metaRet, local, phys>>

\* layer "service": reverse requests as the callers issue them (MaxSeq = from or unbounded).
ReadSvc(from, mx, lim, rev) ==
  /\ rev => from >= 1 /\ mx \in {from, Inf}
  /\ LET q == Svc(from, mx, lim, rev)
         u == SvcU(from, mx, lim, rev, TRUE)
     IN ev' = [a |-> "Read", layer |-> "service", from |-> from, mn |-> 0, mx |-> mx, lim |-> lim, rev |-> rev,
               res |-> [seqs |-> q, bars |-> Bars(q)],
               alt |-> [seqs |-> u, bars |-> Bars(u)]]       \* the known deviation at cap 0 (= res otherwise)
  /\ UNCHANGED <<cfg, present, bar, leo, lprog, hw, ckpt, match, ret, metaRet, local, phys>>

Sync(mode, start, end, lim) ==
  /\ ev' = [a |-> "Sync", mode |-> mode, start |-> start, end |-> end, lim |-> lim,
            res |-> [seqs |-> SyncRead(mode, start, end, lim)],
            alt |-> [seqs |-> SyncReadU(mode, start, end, lim, TRUE)]]
  /\ UNCHANGED <<cfg, present, bar, leo, lprog, hw, ckpt, match, ret, metaRet, local, phys>>

HeadMsg ==
  /\ ev' = [a |-> "Head", res |-> [found |-> HeadRead.found, seq |-> HeadRead.seq,
                                   committed |-> HeadCap, retention |-> Floor]]
  /\ UNCHANGED <<cfg, present, bar, leo, lprog, hw, ckpt, match, ret, metaRet, local, phys>>

LastVis(after) ==
  /\ ev' = [a |-> "Last", after |-> after,
            res |-> IF LastUncapped THEN LastCode(after) ELSE LastIntended(after),
            alt |-> LastCode(after)]
  /\ UNCHANGED <<cfg, present, bar, leo, lprog, hw, ckpt, match, ret, metaRet, local, phys>>

\* layer "fwd": the same requests as layer "service", issued on a non-leader node.
ReadFwd(from, mx, lim, rev, miss, oret) ==
  /\ rev => from >= 1 /\ mx \in {from, Inf}
  /\ oret <= metaRet /\ (miss => oret = metaRet)
  \* The reply travels through the RPC codec of pkg/cluster/channels (codec.go appendMessage /
  \* readMessage), which does not carry Message.SyncOnce: the origin sees no SyncOnce row (finding
  \* C10:forwarded-read-drops-sync-once-flag; alt is that deviation, res the intended reply).
  /\ LET q == SvcFwd(from, mx, lim, rev, miss, oret)
     IN ev' = [a |-> "Read", layer |-> "fwd", from |-> from, mn |-> 0, mx |-> mx, lim |-> lim, rev |-> rev,
               miss |-> miss, oret |-> oret,
               res |-> [seqs |-> q, bars |-> IF FwdDropsSyncOnce THEN <<>> ELSE Bars(q)],
               alt |-> [seqs |-> q, bars |-> <<>>]]
  /\ UNCHANGED <<cfg, present, bar, leo, lprog, hw, ckpt, match, ret, metaRet, local, phys>>

\* SyncMessages on a non-leader node.  With the SyncOnce flag lost on the wire the ordinary reader
\* returns SyncOnce / barrier rows (alt; the finding named above).
SyncFwd(mode, start, end, lim, miss, oret) ==
  /\ oret <= metaRet /\ (miss => oret = metaRet)
  /\ LET fl == FloorF(miss, oret)
     IN ev' = [a |-> "SyncF", mode |-> mode, start |-> start, end |-> end, lim |-> lim, miss |-> miss, oret |-> oret,
               res |-> [seqs |-> SyncReadG(fl, mode, start, end, lim, CapZeroUnbounded, ~FwdDropsSyncOnce)],
               alt |-> [seqs |-> SyncReadG(fl, mode, start, end, lim, CapZeroUnbounded, FALSE)]]
  /\ UNCHANGED <<cfg, present, bar, leo, lprog, hw, ckpt, match, ret, metaRet, local, phys>>

\* Conversation head read on a non-leader node; batch = ReadConversationHeads.
HeadFwd(miss, oret, batch) ==
  /\ oret <= metaRet /\ (miss => oret = metaRet)
  /\ LET fl == FloorF(miss, oret)
         h  == Newest({s \in present \ bar : s > fl /\ s <= HeadCap})
     IN ev' = [a |-> "HeadF", miss |-> miss, oret |-> oret, batch |-> batch,
               res |-> [found |-> h.found, seq |-> h.seq, committed |-> HeadCap, retention |-> fl]]
  /\ UNCHANGED <<cfg, present, bar, leo, lprog, hw, ckpt, match, ret, metaRet, local, phys>>

-------------------------------------------------------------------------------
NAppend == \E k \in {"msg", "bar"} : AppendRow(k)
NAck    == \E f \in Followers, off \in 0..(leo + 1) : Ack(f, off)
NMeta   == \E r \in 0..MaxB : Meta(r)
NApply  == \E b \in 1..MaxB, mt \in Trims : Apply(b, mt)
NReadStore == \E from \in ReadFroms, lim \in Limits, rev \in BOOLEAN : ReadStore(from, lim, rev)
NReadSvc   == \E from \in ReadFroms, lim \in Limits, rev \in BOOLEAN :
                 \E mx \in IF rev THEN {from, Inf} ELSE ReadMaxs : ReadSvc(from, mx, lim, rev)
NSync      == \E mode \in {"up", "down"}, start \in SyncStarts, end \in SyncEnds, lim \in Limits :
                 Sync(mode, start, end, lim)

NHead      == HeadMsg
NLast      == \E after \in SyncStarts : LastVis(after)
\* <<miss, oret>> pairs tried by the exhaustive runs
FwdArgs == (IF "miss" \in FwdModes THEN {<<TRUE, metaRet>>} ELSE {})
           \cup (IF "old" \in FwdModes THEN {<<FALSE, 0>>} ELSE {})
           \cup (IF "cur" \in FwdModes THEN {<<FALSE, metaRet>>} ELSE {})
NReadFwd   == \E from \in ReadFroms, lim \in Limits, rev \in BOOLEAN, m \in FwdArgs :
                 \E mx \in (IF rev THEN {from, Inf} ELSE ReadMaxs) : ReadFwd(from, mx, lim, rev, m[1], m[2])
NSyncFwd   == \E mode \in {"up", "down"}, start \in SyncStarts, end \in SyncEnds, lim \in Limits, m \in FwdArgs :
                 SyncFwd(mode, start, end, lim, m[1], m[2])
NHeadFwd   == \E m \in FwdArgs, batch \in BOOLEAN : HeadFwd(m[1], m[2], batch)

Next == NAppend \/ NAck \/ NMeta \/ NApply \/ NReadStore \/ NReadSvc \/ NSync \/ NHead \/ NLast
          \/ NReadFwd \/ NSyncFwd \/ NHeadFwd

Spec == Init /\ [][Next]_vars

-------------------------------------------------------------------------------
\* Observable projection: RetentionView, the store's retention state and a raw scan of the rows.
Proj == [leo |-> leo, hw |-> hw, ckpt |-> ckpt, ret |-> ret, local |-> local, phys |-> phys,
         rows |-> Asc(present), bars |-> Asc(bar)]

-------------------------------------------------------------------------------
\* Property C10 on the design.

TypeOK ==
  /\ ckpt <= hw /\ hw <= leo /\ lprog <= leo
  /\ phys <= local /\ local <= ret /\ metaRet <= ret
  /\ bar \subseteq present
  /\ \A s \in present : s > phys /\ s <= leo
  /\ \A f \in Followers : match[f] <= leo

\* The logical boundary below which nothing may be returned: every boundary the channel knows.
LogicalRet == Max2(ret, Max2(metaRet, local))

Returned == IF ev.a \in {"Read", "Sync", "SyncF"} THEN {ev.res.seqs[i] : i \in DOMAIN ev.res.seqs}
            ELSE IF ev.a \in {"Head", "HeadF", "Last"} /\ ev.res.found THEN {ev.res.seq} ELSE {}

\* Reads never return a row above the committed watermark or at/below the retention boundary;
\* the ordinary-message reader never returns a barrier / SyncOnce row.
C10_ReadWindow ==
  [][ev'.a # "Init" => \A s \in Returned' :
        /\ s > LogicalRet /\ s <= hw
        /\ s \in present
        /\ ev'.a \in {"Sync", "SyncF", "Head", "HeadF", "Last"} => s \notin bar]_vars

\* No boundary ever moves backwards, whatever is requested.
C10_Monotone ==
  [][ev'.a # "Init" =>
       /\ ret' >= ret /\ metaRet' >= metaRet /\ local' >= local /\ phys' >= phys
       /\ hw' >= hw /\ ckpt' >= ckpt]_vars

\* Physical retention stays at or below every watermark that must cover it.
C10_PhysBound == phys <= hw /\ phys <= ckpt /\ phys <= leo

\* A trim step deletes only rows covered by HW, checkpoint, log end and (leader) by the progress
\* of every ISR member whose progress is known; the boundary it records obeys the same bound.
Deleted(p, q) == p \ q
KnownISR == {n \in cfg.isr \ {Local} : match[n] > 0}
C10_TrimCovered ==
  [][(ev'.a # "Init" /\ (phys' > phys \/ Deleted(present, present') # {})) =>
        LET top == Max2(phys', MaxOf(Deleted(present, present'))) IN
        /\ top <= hw /\ top <= ckpt /\ top <= leo
        /\ \A n \in KnownISR : top <= match[n]
        /\ top <= local']_vars

\* Strict reading of "every ISR member's progress" (O1): diagnostic only, NOT a property.
StrictTrimOK ==
  [][(ev'.a # "Init" /\ (phys' > phys \/ Deleted(present, present') # {})) =>
        \A n \in cfg.isr \ {Local} : Max2(phys', MaxOf(Deleted(present, present'))) <= match[n]]_vars

View == <<cfg, present, bar, leo, lprog, hw, ckpt, match, ret, metaRet, local, phys>>
===============================================================================

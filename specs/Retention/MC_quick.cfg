\* Exhaustive, quick tier: leader with one follower, log end <= 3, boundaries 1..3, both stores.
\* Measured: 10,576 distinct states, 333,884 transitions, depth 9 (about 15 s on an idle machine,
\* 40-70 s with the machine at load 30-50).
SPECIFICATION Spec
CONSTANTS
  Followers = {2}
  ISRs = {{1, 2}}
  MinISRs = {1, 2}
  Stores = {"memory", "messagedb"}
  MaxLeo = 3
  MaxB = 3
  Trims = {0, 1}
  Limits = {2}
  ReadFroms = {0, 2, 99}
  ReadMaxs = {0}
  SyncStarts = {0, 2}
  SyncEnds = {0}
  CapZeroUnbounded = FALSE
  LastUncapped = FALSE
VIEW View
INVARIANTS TypeOK C10_PhysBound
PROPERTIES C10_ReadWindow C10_Monotone C10_TrimCovered
CHECK_DEADLOCK FALSE

\* Exhaustive, quick tier: leader with one follower, log end <= 3, boundaries 1..3, both stores; a fresh
\* channel or a runtime loaded from a 3-row store (every checkpoint / boundary); forwarded reads with the
\* leader's lookup answering not-found (the other modes: thorough tier).
\* Measured: 13,370 distinct states, depth 9 (583,384 transitions; about 50 s at load 12-20, 140 s at load 70).
SPECIFICATION Spec
CONSTANTS
  Followers = {2}
  ISRs = {{1, 2}}
  MinISRs = {1, 2}
  Stores = {"memory", "messagedb"}
  FwdModes = {"miss"}
  PreLeos = {0, 3}
  PreBars = {0}
  MaxLeo = 3
  MaxB = 3
  Trims = {0, 1}
  Limits = {2}
  ReadFroms = {0, 2, 99}
  ReadMaxs = {0}
  SyncStarts = {0, 2}
  SyncEnds = {0}
  CapZeroUnbounded = FALSE
  LastUncapped = FALSE
  FwdDropsSyncOnce = FALSE
VIEW View
INVARIANTS TypeOK C10_PhysBound
PROPERTIES C10_ReadWindow C10_Monotone C10_TrimCovered
CHECK_DEADLOCK FALSE

\* Exhaustive, quick tier: leader with one follower, log end <= 3, boundaries 1..3, both stores.
\* Measured: 10,576 distinct states, about 400,000 transitions, depth 9 (about 20 s on an idle machine,
\* 90 s with the machine at load 50).
SPECIFICATION Spec
CONSTANTS
  Followers = {2}
  ISRs = {{1, 2}}
  MinISRs = {1, 2}
  Stores = {"memory", "messagedb"}
  MaxLeo = 3
  MaxB = 3
  Trims = {0, 1}
  Limits = {2}
  ReadFroms = {0, 2, 99}
  ReadMaxs = {0, 2}
  SyncStarts = {0, 2}
  SyncEnds = {0, 3}
  CapZeroUnbounded = FALSE
  LastUncapped = FALSE
VIEW View
INVARIANTS TypeOK C10_PhysBound
PROPERTIES C10_ReadWindow C10_Monotone C10_TrimCovered
CHECK_DEADLOCK FALSE

\* Exhaustive, thorough tier, read argument space: every forward / reverse / latest request of the
\* three layers (limits 1..3, every start / end / max in 0..4 and MaxUint64) in every reachable
\* state of the one-follower model with log end <= 3.
\* A fresh channel or a runtime loaded from a 3-row store.  Forwarded reads are left out here (FwdModes = {}):
\* they evaluate the same operator SvcF as the service layer with a floor that equals Floor under the stated
\* environment assumption; with FwdModes = {"miss"} this config has 18,958 states / 11.7 million transitions.
\* Measured before loaded stores were added: 15,644 distinct states, about 5.2 million transitions (3 min at load 50).
SPECIFICATION Spec
CONSTANTS
  Followers = {2}
  ISRs = {{1}, {1, 2}}
  MinISRs = {1, 2}
  Stores = {"memory", "messagedb"}
  FwdModes = {}
  PreLeos = {0, 3}
  PreBars = {0}
  MaxLeo = 3
  MaxB = 3
  Trims = {0, 1}
  Limits = {1, 2, 3}
  ReadFroms = {0, 1, 2, 3, 4, 99}
  ReadMaxs = {0, 1, 2, 3, 4, 99}
  SyncStarts = {0, 1, 2, 3, 4}
  SyncEnds = {0, 1, 2, 3, 4}
  CapZeroUnbounded = FALSE
  LastUncapped = FALSE
  FwdDropsSyncOnce = FALSE
VIEW View
INVARIANTS TypeOK C10_PhysBound
PROPERTIES C10_ReadWindow C10_Monotone C10_TrimCovered
CHECK_DEADLOCK FALSE

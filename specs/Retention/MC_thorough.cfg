\* Exhaustive, thorough tier, state machine: two followers, every ISR / MinISR combination, log end
\* <= 4, boundaries 1..4 in every order (regressions included), bounded trims, both stores; one
\* representative read of each kind per state (the read argument space is MC_reads.cfg).
\* A fresh channel or a runtime loaded from a 4-row store (every checkpoint / boundary); forwarded reads
\* with the leader's lookup answering not-found.
\* Measured: 1,097,815 distinct states, 39.4 million transitions, depth 12, every action covered
\* (4 workers at load 60-75: about 14 min; before loaded stores / forwarded reads: 952,425 states, 7 min at load 50).
SPECIFICATION Spec
CONSTANTS
  Followers = {2, 3}
  ISRs = {{1}, {1, 2}, {1, 2, 3}}
  MinISRs = {1, 2, 3}
  Stores = {"memory", "messagedb"}
  FwdModes = {"miss"}
  PreLeos = {0, 4}
  PreBars = {0}
  MaxLeo = 4
  MaxB = 4
  Trims = {0, 1}
  Limits = {2}
  ReadFroms = {0}
  ReadMaxs = {0}
  SyncStarts = {0}
  SyncEnds = {0}
  CapZeroUnbounded = FALSE
  LastUncapped = FALSE
  FwdDropsSyncOnce = FALSE
VIEW View
INVARIANTS TypeOK C10_PhysBound
PROPERTIES C10_ReadWindow C10_Monotone C10_TrimCovered
CHECK_DEADLOCK FALSE

\* Exhaustive, thorough tier, state machine: two followers, every ISR / MinISR combination, log end
\* <= 4, boundaries 1..4 in every order (regressions included), bounded trims, both stores; one
\* representative read of each kind per state (the read argument space is MC_reads.cfg).
\* Measured: 952,425 distinct states, about 29 million transitions, depth 10 (7 min at load 50).
SPECIFICATION Spec
CONSTANTS
  Followers = {2, 3}
  ISRs = {{1}, {1, 2}, {1, 2, 3}}
  MinISRs = {1, 2, 3}
  Stores = {"memory", "messagedb"}
  MaxLeo = 4
  MaxB = 4
  Trims = {0, 1}
  Limits = {2}
  ReadFroms = {0}
  ReadMaxs = {0}
  SyncStarts = {0}
  SyncEnds = {0}
  CapZeroUnbounded = FALSE
  LastUncapped = FALSE
VIEW View
INVARIANTS TypeOK C10_PhysBound
PROPERTIES C10_ReadWindow C10_Monotone C10_TrimCovered
CHECK_DEADLOCK FALSE

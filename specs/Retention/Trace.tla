-------------------------------- MODULE Trace --------------------------------
(* Trace validation: the NDJSON file written by the harness (one step per line, traces
   concatenated, each starting with an "Init" line) must be a behaviour of Retention.  The
   call arguments are bound from the log; the reply and the projection are then determined
   by the specification and compared in the invariant Conform, so a divergence is reported
   with the expected values.  The C10 properties are evaluated at every step. *)
EXTENDS Retention, Json, TLC
VARIABLE l

Log == ndJsonDeserialize("trace.ndjson")

\* Any instance will do: the first log line resets it (Init itself ranges over PresFor, which is
\* not enumerable with the bounds of Trace.cfg).
TraceInit == (\E c \in Bases : InitC(WithPre(c, NoPre))) /\ l = 1

\* The primed copy of InitC: a fresh channel or a runtime loaded from the logged store.
Reset0 ==
  LET c == Log[l].ev.cfg
      p == [n |-> c.pre.n, c |-> c.pre.c, b |-> c.pre.b, k |-> c.pre.k]
  IN
  /\ p.b <= p.c /\ p.c <= p.n /\ p.k <= p.n /\ (c.minISR <= 1 => p.c = p.n)
  /\ cfg' = [store |-> c.store, isr |-> {c.isr[i] : i \in DOMAIN c.isr}, minISR |-> c.minISR, pre |-> p]
  /\ present' = 1..p.n /\ bar' = {p.k} \ {0}
  /\ leo' = p.n /\ lprog' = p.n /\ hw' = p.c /\ ckpt' = p.c
  /\ match' = [f \in Followers |-> 0]
  /\ ret' = p.b /\ metaRet' = p.b /\ local' = p.b /\ phys' = 0
  /\ ev' = Log[l].ev

Step(e) ==
  CASE e.a = "Init"   -> Reset0
    [] e.a = "Append" -> AppendRow(e.kind)
    [] e.a = "Ack"    -> Ack(e.f, e.off)
    [] e.a = "Meta"   -> Meta(e.r)
    [] e.a = "Apply"  -> Apply(e.b, e.mt)
    [] e.a = "Read"   -> IF e.layer = "store" THEN ReadStore(e.from, e.lim, e.rev)
                         ELSE IF e.layer = "fwd" THEN ReadFwd(e.from, e.mx, e.lim, e.rev, e.miss, e.oret)
                         ELSE ReadSvc(e.from, e.mx, e.lim, e.rev)
    [] e.a = "Sync"   -> Sync(e.mode, e.start, e.end, e.lim)
    [] e.a = "SyncF"  -> SyncFwd(e.mode, e.start, e.end, e.lim, e.miss, e.oret)
    [] e.a = "Head"   -> HeadMsg
    [] e.a = "HeadF"  -> HeadFwd(e.miss, e.oret, e.batch)
    [] e.a = "Last"   -> LastVis(e.after)

TraceNext == l <= Len(Log) /\ l' = l + 1 /\ Step(Log[l].ev)

TraceSpec == TraceInit /\ [][TraceNext]_<<vars, l>>

\* Deterministic step: the logged reply and projection must be the specification's.  For the
\* store layer the caps the harness passed (taken from the real runtime's view) must be the
\* specification's retention + 1 and committed watermark.
Conform ==
  l > 1 /\ Log[l - 1].ev.a # "Init" =>
    /\ ev.res = Log[l - 1].ev.res
    /\ Proj = Log[l - 1].st
    /\ (ev.a = "Read" /\ ev.layer = "store") => (ev.mn = Log[l - 1].ev.mn /\ ev.mx = Log[l - 1].ev.mx)

\* Acceptance: every line was consumed.
HW       == TLCSet(1, IF l > TLCGet(1) THEN l ELSE TLCGet(1))
Track    == HW
Accepted == TLCGet(1) = Len(Log) + 1
ASSUME TLCSet(1, 0)
===============================================================================

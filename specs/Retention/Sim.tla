--------------------------------- MODULE Sim ---------------------------------
(* Behaviour generator: `tlc -simulate` on this module prints one JSON behaviour per line
   ("BEH {...}") when a run reaches Depth steps: for every step the call, the reply the
   specification determines and the projection of the abstract state. *)
EXTENDS Retention, Json, TLC
CONSTANT Depth
VARIABLES hist, draw

\* One successor per action kind: arguments are drawn with RandomElement so that `-simulate`
\* chooses uniformly among action kinds, not among argument tuples.
Pick(S) == {RandomElement(S)}
\* `-simulate` computes the set of initial states once: per [store, isr, minISR] four fresh
\* channels and four randomly drawn loaded stores (`draw` only keeps them apart).
SimInit ==
  /\ \E c \in Bases, d \in 1..8 :
        /\ draw = d
        /\ \E p \in (IF d <= 4 THEN {NoPre} ELSE Pick(PresFor(c.minISR) \ {NoPre})) : InitC(WithPre(c, p))
  /\ hist = << [ev |-> ev, st |-> Proj] >>
\* Pick from a possibly empty set: -1 stands for "nothing to pick".
PickOr(S) == Pick(IF S = {} THEN {-1} ELSE S)
ISRF == cfg.isr \cap Followers

SimStep ==
  \/ AppendRow("msg")
  \/ AppendRow("msg")
  \/ AppendRow("msg")
  \/ AppendRow("msg")
  \/ AppendRow("msg")
  \/ AppendRow("bar")
  \/ AppendRow("bar")
  \/ \E f \in Pick(Followers), off \in Pick(0..(leo + 1)) : Ack(f, off)
  \* aimed: an ISR follower catches up completely / partly
  \/ \E f \in PickOr(ISRF) : f # -1 /\ leo > 0 /\ Ack(f, leo)
  \/ \E f \in PickOr(ISRF), off \in PickOr(1..leo) : f # -1 /\ off # -1 /\ Ack(f, off)
  \/ \E r \in Pick(0..MaxB) : Meta(r)
  \/ \E b \in Pick(1..MaxB), mt \in Pick(Trims) : Apply(b, mt)
  \* aimed: a boundary the committed watermark already covers (checkpoint gate, then trim)
  \/ \E b \in PickOr(1..hw), mt \in Pick(Trims) : b # -1 /\ Apply(b, mt)
  \* aimed: the adopted boundary again (the retry after the retention-owned checkpoint)
  \/ \E mt \in Pick(Trims) : local >= 1 /\ Apply(local, mt)
  \* aimed: the boundary one above the physical one (bounded trims in progress)
  \/ phys + 1 <= MaxB /\ Apply(phys + 1, 0)
  \* aimed: a regressing request
  \/ \E b \in PickOr(1..(local - 1)), mt \in Pick(Trims) : b # -1 /\ Apply(b, mt)
  \/ \E from \in Pick(0..(leo + 1)), lim \in Pick(Limits) : ReadStore(from, lim, FALSE)
  \/ \E from \in PickOr(1..hw), lim \in Pick(Limits) : from # -1 /\ ReadStore(from, lim, TRUE)
  \/ \E from \in Pick(0..(leo + 1) \cup {Inf}), mx \in Pick(0..leo \cup {Inf}), lim \in Pick(Limits) :
        ReadSvc(from, mx, lim, FALSE)
  \* aimed: forward from the start with the cap left to the service
  \/ \E from \in Pick({0, 1}), lim \in Pick(Limits) : ReadSvc(from, Inf, lim, FALSE)
  \/ \E from \in Pick(1..(leo + 1) \cup {Inf}), lim \in Pick(Limits) :
        \E mx \in Pick({from, Inf}) : ReadSvc(from, mx, lim, TRUE)
  \* aimed: latest page
  \/ \E lim \in Pick(Limits) : ReadSvc(Inf, Inf, lim, TRUE)
  \* aimed: reverse read that has to stop at the floor
  \/ \E from \in Pick({ret + 1, ret + 2, ret + 3}), lim \in Pick(Limits) : ReadSvc(from, from, lim + 1, TRUE)
  \/ \E mode \in Pick({"up", "down"}), start \in Pick(0..(leo + 1)), end \in Pick(0..(leo + 1)), lim \in Pick(Limits) :
        Sync(mode, start, end, lim)
  \/ \E start \in Pick({ret, ret + 1, ret + 2, ret + 3}), lim \in Pick(Limits) : Sync("down", start, 0, lim)
  \/ \E start \in Pick({ret, ret + 1, ret + 2}), lim \in Pick(Limits) : Sync("up", start, 0, lim)
  \/ \E lim \in Pick(Limits) : Sync("down", 0, 0, lim)
  \/ HeadMsg
  \* reads issued on a non-leader node and forwarded to the leader, whose own metadata lookup
  \* answers (any older origin record) or answers not-found (current origin record)
  \/ \E from \in Pick(0..(leo + 1) \cup {Inf}), mx \in Pick(0..leo \cup {Inf}), lim \in Pick(Limits), miss \in Pick(BOOLEAN) :
        \E oret \in Pick(IF miss THEN {metaRet} ELSE 0..metaRet) : ReadFwd(from, mx, lim, FALSE, miss, oret)
  \/ \E from \in Pick(1..(leo + 1) \cup {Inf}), lim \in Pick(Limits), miss \in Pick(BOOLEAN) :
        \E mx \in Pick({from, Inf}), oret \in Pick(IF miss THEN {metaRet} ELSE 0..metaRet) :
           ReadFwd(from, mx, lim, TRUE, miss, oret)
  \* aimed: the whole log forward / the latest page with the cap left to the leader, lookup not-found
  \/ \E from \in Pick({0, 1}), lim \in Pick(Limits \cup {MaxLeo}) : ReadFwd(from, Inf, lim, FALSE, TRUE, metaRet)
  \/ \E lim \in Pick(Limits \cup {MaxLeo}) : ReadFwd(Inf, Inf, lim, TRUE, TRUE, metaRet)
  \* aimed: the same with the lookup answering and the oldest origin record
  \/ \E from \in Pick({0, 1}), lim \in Pick(Limits \cup {MaxLeo}) : ReadFwd(from, Inf, lim, FALSE, FALSE, 0)
  \/ \E lim \in Pick(Limits \cup {MaxLeo}) : ReadFwd(Inf, Inf, lim, TRUE, FALSE, 0)
  \/ \E miss \in Pick(BOOLEAN), batch \in Pick(BOOLEAN) :
        \E oret \in Pick(IF miss THEN {metaRet} ELSE 0..metaRet) : HeadFwd(miss, oret, batch)
  \/ \E mode \in Pick({"up", "down"}), start \in Pick(0..(leo + 1)), end \in Pick({0, 0, leo, leo + 1}), lim \in Pick(Limits), miss \in Pick(BOOLEAN) :
        \E oret \in Pick(IF miss THEN {metaRet} ELSE 0..metaRet) : SyncFwd(mode, start, end, lim, miss, oret)
  \* aimed: a page that contains or touches a barrier row, read on the non-leader node
  \/ \E b \in PickOr(bar), d \in Pick({0, 1}), lim \in Pick(Limits), miss \in Pick(BOOLEAN) :
        b # -1 /\ SyncFwd("down", b + d, 0, lim, miss, metaRet)
  \/ \E after \in Pick(0..(leo + 1)) : LastVis(after)
  \* aimed: pages that contain or touch a barrier row
  \/ \E b \in PickOr(bar), d \in Pick({0, 1}), lim \in Pick(Limits) : b # -1 /\ Sync("down", b + d, 0, lim)
  \/ \E b \in PickOr(bar), d \in Pick({0, 1}), lim \in Pick(Limits) : b # -1 /\ b - d >= 0 /\ Sync("up", b - d, 0, lim)
\* The last level is a single stuttering successor, so that the behaviour is printed once.
SimNext == /\ draw' = draw
           /\ IF Len(hist) = Depth + 1
                THEN UNCHANGED vars /\ hist' = Append(hist, hist[1])
                ELSE SimStep /\ hist' = Append(hist, [ev |-> ev', st |-> Proj'])
\* The invariant is evaluated on every candidate successor: print the prefix one level later.
Emit    == Len(hist) = Depth + 2 => PrintT("BEH " \o ToJson([steps |-> SubSeq(hist, 1, Depth + 1)]))
===============================================================================

SPECIFICATION TraceSpec
CONSTANTS
  Followers = {2, 3}
  ISRs = {{1}, {1, 2}, {1, 2, 3}}
  MinISRs = {1, 2, 3}
  Stores = {"memory", "messagedb"}
  FwdModes = {"miss", "old", "cur"}
  PreLeos = {0}
  PreBars = {0}
  MaxLeo = 1000000
  MaxB = 1000000
  Trims = {0}
  Limits = {1}
  ReadFroms = {0}
  ReadMaxs = {0}
  SyncStarts = {0}
  SyncEnds = {0}
  CapZeroUnbounded = FALSE
  LastUncapped = FALSE
  FwdDropsSyncOnce = FALSE
CONSTRAINT Track
INVARIANTS Conform C10_PhysBound
PROPERTIES C10_ReadWindow C10_Monotone C10_TrimCovered
POSTCONDITION Accepted
CHECK_DEADLOCK FALSE

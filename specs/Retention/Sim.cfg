INIT SimInit
NEXT SimNext
CONSTANTS
  Followers = {2, 3}
  ISRs = {{1}, {1, 2}, {1, 2, 3}}
  MinISRs = {1, 2, 3}
  Stores = {"memory", "messagedb"}
  FwdModes = {"miss", "old", "cur"}
  PreLeos = {0, 3, 5}
  PreBars = {0, 1, 2, 3, 4, 5}
  MaxLeo = 7
  MaxB = 7
  Trims = {0, 1, 2}
  Limits = {1, 2, 3}
  ReadFroms = {0}
  ReadMaxs = {0}
  SyncStarts = {0}
  SyncEnds = {0}
  CapZeroUnbounded = FALSE
  LastUncapped = FALSE
  FwdDropsSyncOnce = FALSE
  Depth = 25
INVARIANT Emit
CHECK_DEADLOCK FALSE

\* quick exhaustive config: code with the F1 repair. 3 nodes, Q=2, 2 authorities, <=2 entries, 1 command
\* acknowledged first proposal).  Used to derive the F1 replay schedule, not as a check.
SPECIFICATION Spec
CONSTANTS
  Node = {1, 2, 3}
  Q = 2
  MaxAuth = 2
  MaxLen = 2
  Cmds = {"a"}
  MaxDown = 1
  FixF1 = TRUE
  AlwaysBarrier = FALSE
  V_AckBelowQuorum = FALSE
  V_AckWithoutLocal = FALSE
  V_SelectMaxLEO = FALSE
  V_RepairBelowCommitted = FALSE
  V_NoBarrier = FALSE
VIEW view
INVARIANTS C01_WritableHoldsAcked
PROPERTIES C02_Mono C04_AuthorityMonotone C04_AckUnderCurrentAuthority
CHECK_DEADLOCK FALSE

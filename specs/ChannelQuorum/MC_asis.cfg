\* The pinned tree BEFORE the F1 repair: TLC must find the F1 counterexample (loss of an
\* acknowledged first proposal).  Used to derive the F1 replay schedule, not as a check.
SPECIFICATION Spec
CONSTANTS
  Node = {1, 2, 3}
  Q = 2
  MaxAuth = 2
  MaxLen = 2
  Cmds = {"a"}
  MaxDown = 1
  FixF1 = FALSE
  AlwaysBarrier = FALSE
  V_AckBelowQuorum = FALSE
  V_AckWithoutLocal = FALSE
  V_SelectMaxLEO = FALSE
  V_RepairBelowCommitted = FALSE
  V_NoBarrier = FALSE
VIEW view
INVARIANTS C01_AckedStays C01_NoReplace C02_Agreement C02_Bound
PROPERTIES C02_Mono
CHECK_DEADLOCK FALSE

SPECIFICATION TraceSpec
CONSTANTS
  Node = {1, 2, 3, 4, 5}
  Q = 3
  MaxAuth = 1000000
  MaxLen = 1000000
  Cmds = {}
  MaxDown = 2
  FixF1 = TRUE
  AlwaysBarrier = FALSE
  V_AckBelowQuorum = FALSE
  V_AckWithoutLocal = FALSE
  V_SelectMaxLEO = FALSE
  V_RepairBelowCommitted = FALSE
  V_NoBarrier = FALSE
CONSTRAINT Track
INVARIANTS Obligations C01_AckedStays C01_NoReplace C01_WritableHoldsAcked C02_Agreement C02_Bound C02_Chain C02_CommittedHeldByQuorum
PROPERTIES C02_MonoT
POSTCONDITION Accepted
CHECK_DEADLOCK FALSE

-------------------------------- MODULE Trace --------------------------------
(* Trace validation for ChannelQuorum: executions of three real replication.Runtime nodes
   (pkg/channel/replication) recorded at the ReplicaStore seam and at the Install/Commit API.

   The trace spec re-uses the durable variables (log, committed), the acknowledgement history and
   every C01..C04 formula of ChannelQuorum.  The owners' internal phases are not observable and are
   not constrained; what IS checked at every recorded step:
     * each store mutation that was APPLIED is one the exact-base store contract allows, and the
       replica state after it is the one the contract determines (C02: "a Sync that appends on a
       mismatched base", "a Replace not fenced by the inspected frontier / below committed");
     * C01_AckedStays, C01_NoReplace, C01_WritableHoldsAcked (acks recorded before the Install call),
       C02_Agreement, C02_Bound, C02_Mono, C02_Chain;
     * C03 receipt exactness / disjointness / retry stability / changed content never acknowledged;
     * C04 no receipt under an authority older than one whose Install already returned on that
       node, none under a write-fenced authority, no successful Install of an older authority.
   A mutation the store REJECTED is always accepted (rejecting more is a liveness matter).       *)
EXTENDS ChannelQuorum, Json, SequencesExt

VARIABLES l,         \* next line of the trace
          callAt,    \* [Node -> step at which the running Install was called]
          fence,     \* [Node -> highest authority whose Install returned after fencing]
          cmdSnap,   \* function: <<node, cmd>> -> fenced authority when the Commit was called
          receipts,  \* function: cmd -> [first, last] of its first receipt
          wfAuths,   \* authorities installed with a write fence set
          bad        \* "" or the name of a violated per-event obligation

tvars == <<vars, l, callAt, fence, cmdSnap, receipts, wfAuths, bad>>
dvars == <<log, committed, up, own, nextAuth, acked, usedCmds>>   \* vars without the step counter

Log == ndJsonDeserialize("trace.ndjson")

TraceInit ==
  /\ Init
  /\ l = 1
  /\ callAt = [n \in Node |-> 0]
  /\ fence = [n \in Node |-> 0]
  /\ cmdSnap = <<>>
  /\ receipts = <<>>
  /\ wfAuths = {}
  /\ bad = ""

\* entries are records [id, prev, t, c]; the store contract on digests
LastId(s) == IF Len(s) = 0 THEN "" ELSE s[Len(s)].id
ChainOK(prevId, ents) ==
  /\ ents[1].prev = prevId
  /\ \A i \in 2..Len(ents) : ents[i].prev = ents[i - 1].id

SyncExpect(r, base, prev, ents) ==
  LET leo == Len(log[r])
      k   == Len(ents)
      prevOK == base = 0 \/ (base <= leo /\ log[r][base].id = prev)
      same(i) == i > base /\ i <= base + k /\ log[r][i] = ents[i - base]
      dup  == \E i \in 1..leo : log[r][i].c = ents[1].c /\ ~same(i)
  IN IF leo < base THEN "rejected"
     ELSE IF ~prevOK THEN "rejected"
     ELSE IF leo >= base + k /\ SubSeq(log[r], base + 1, base + k) = ents THEN "already"
     ELSE IF dup THEN "rejected"
     ELSE IF leo = base /\ ChainOK(prev, ents) THEN "durable"
     ELSE "rejected"

\* st.part = TRUE: the mutation was not the last one of a multi-mutation store call, the store's
\* state right after it cannot be observed (the last mutation of the call carries the real state)
StOK(r, st) == \/ st.part
               \/ /\ st.leo = Len(log'[r])
                  /\ st.cm = committed'[r]
                  /\ st.tail = LastId(log'[r])

Keep == UNCHANGED <<callAt, fence, cmdSnap, receipts, wfAuths>>
Obl(name, ok) == bad' = IF ok THEN "" ELSE name

TSync(e) ==
  LET r == e.n
      exp == SyncExpect(r, e.base, e.prev, e.ents)
      \* an Unknown outcome (cancelled context, lost reply) may or may not have been written:
      \* the recorded post-state tells which; if it was written it must obey the contract
      wrote == e.res.out = "unknown" /\ ~e.st.part /\ (e.st.leo # Len(log[r]) \/ e.st.cm # committed[r]) IN
  /\ IF e.res.out \in {"durable", "already"} \/ wrote
       THEN /\ log' = [log EXCEPT ![r] = IF exp = "durable" THEN log[r] \o e.ents ELSE log[r]]
            /\ committed' = [committed EXCEPT ![r] = Max2(@, e.cm)]
            /\ Obl("C02_SyncAppliedAgainstContract",
                   (IF wrote THEN exp \in {"durable", "already"} ELSE exp = e.res.out) /\ StOK(r, e.st))
       ELSE /\ UNCHANGED <<log, committed>>
            /\ Obl("C02_RejectedSyncChangedState", StOK(r, e.st))
  /\ UNCHANGED <<up, own, nextAuth, acked, usedCmds>> /\ Keep

TReplace(e) ==
  LET r == e.n
      leo == Len(log[r])
      k == Len(e.ents)
      expOK == e.exp.leo = leo /\ e.exp.cm = committed[r] /\ e.exp.tail = LastId(log[r])
      ok == /\ expOK /\ e.keep <= leo /\ e.keep >= committed[r] /\ e.cm >= committed[r]
            /\ e.cm <= e.keep + k
            /\ (k > 0 => ChainOK(IF e.keep = 0 THEN "" ELSE log[r][e.keep].id, e.ents)) IN
  /\ IF e.res.out = "durable"
       THEN /\ log' = [log EXCEPT ![r] = SubSeq(log[r], 1, Min2(e.keep, leo)) \o e.ents]
            /\ committed' = [committed EXCEPT ![r] = e.cm]
            /\ Obl("C02_ReplaceAppliedAgainstContract", ok /\ StOK(r, e.st))
       ELSE /\ UNCHANGED <<log, committed>>
            /\ Obl("C02_RejectedReplaceChangedState", StOK(r, e.st))
  /\ UNCHANGED <<up, own, nextAuth, acked, usedCmds>> /\ Keep

\* An Install call does not by itself change what the node is: until it returns, the node stays
\* whatever it was (a same-authority re-install of a ready owner is an idempotent no-op in the code
\* and creates no new "became writable" point).
TInstallCall(e) ==
  /\ callAt' = [callAt EXCEPT ![e.n] = step + 1]
  /\ wfAuths' = IF e.wf THEN wfAuths \cup {e.auth} ELSE wfAuths
  /\ bad' = ""
  /\ UNCHANGED <<log, committed, up, own, nextAuth, acked, usedCmds, fence, cmdSnap, receipts>>

\* err classes: "stale" / "invalid" = refused before fencing; anything else may have fenced
TInstallRet(e) ==
  LET n == e.n
      noop == own[n].phase = "ready" /\ own[n].auth = e.auth IN
  /\ IF e.ok
       THEN /\ own' = IF noop THEN own
                      ELSE [own EXCEPT ![n] = [NoOwn EXCEPT !.auth = e.auth, !.phase = "ready", !.readyAt = callAt[n]]]
            /\ fence' = [fence EXCEPT ![n] = Max2(@, e.auth)]
            /\ Obl("C04_OlderAuthorityInstalled", e.auth >= fence[n] /\ e.auth \notin wfAuths)
       ELSE /\ own' = IF e.err \in {"stale", "invalid"} THEN own ELSE [own EXCEPT ![n].phase = "none"]
            /\ fence' = IF e.err \in {"stale", "invalid"} THEN fence ELSE [fence EXCEPT ![n] = Max2(@, e.auth)]
            /\ bad' = ""
  /\ UNCHANGED <<log, committed, up, nextAuth, acked, usedCmds, callAt, cmdSnap, receipts, wfAuths>>

TCommitCall(e) ==
  /\ cmdSnap' = (<<e.n, e.cmd>> :> fence[e.n]) @@ cmdSnap
  /\ bad' = ""
  /\ UNCHANGED <<dvars, callAt, fence, receipts, wfAuths>>

InRange(i, r) == i >= r.first /\ i <= r.last
TCommitRet(e) ==
  LET n == e.n
      rc == [first |-> e.first, last |-> e.last]
      known == e.cmd \in DOMAIN receipts IN
  IF ~e.ok THEN /\ bad' = "" /\ UNCHANGED <<dvars, callAt, fence, cmdSnap, receipts, wfAuths>>
  ELSE
  /\ acked' = acked \cup {[i |-> i, e |-> log[n][i], at |-> step + 1] : i \in {j \in e.first..e.last : j <= Len(log[n])}}
  /\ receipts' = IF known THEN receipts ELSE (e.cmd :> [first |-> e.first, last |-> e.last, variant |-> e.variant]) @@ receipts
  /\ bad' =
       \* a command identity acknowledged with one content is never acknowledged with another
       IF known /\ receipts[e.cmd].variant # e.variant THEN "C03_ChangedContentAcknowledged"
       ELSE IF ~(e.first >= 1 /\ e.last - e.first + 1 = e.nrec /\ e.last <= Len(log[n]))
         THEN "C03_ReceiptNotExact"
       ELSE IF \E i \in e.first..e.last : log[n][i].c # e.cmd THEN "C03_ReceiptNotItsCommand"
       \* the receipt is for exactly the submitted content (identical content <=> same range)
       ELSE IF \E i \in e.first..e.last : log[n][i].ph # e.phs[i - e.first + 1] THEN "C03_ReceiptForOtherContent"
       ELSE IF \E i \in 1..Len(log[n]) : log[n][i].c = e.cmd /\ ~InRange(i, rc) THEN "C03_CommandStoredTwice"
       ELSE IF known /\ (receipts[e.cmd].first # e.first \/ receipts[e.cmd].last # e.last) THEN "C03_RetryChangedRange"
       ELSE IF \E c2 \in DOMAIN receipts : c2 # e.cmd /\ ~(receipts[c2].last < e.first \/ receipts[c2].first > e.last)
         THEN "C03_ReceiptsOverlap"
       ELSE IF e.hw < e.last THEN "C03_ReceiptHWBelowLast"
       ELSE IF <<n, e.cmd>> \in DOMAIN cmdSnap /\ cmdSnap[<<n, e.cmd>>] > e.auth THEN "C04_AckUnderDeposedAuthority"
       ELSE IF e.auth # e.exp THEN "C04_AckForStaleExpectation"
       ELSE IF e.auth \in wfAuths THEN "C04_AckUnderWriteFence"
       ELSE IF \E i \in e.first..e.last : log[n][i].t # e.auth THEN "C04_ReceiptAuthorityMismatch"
       ELSE ""
  /\ UNCHANGED <<log, committed, up, own, nextAuth, usedCmds, callAt, fence, cmdSnap, wfAuths>>

TCrash(e) ==
  /\ up' = [up EXCEPT ![e.n] = FALSE]
  /\ own' = [own EXCEPT ![e.n] = NoOwn]
  /\ fence' = [fence EXCEPT ![e.n] = 0]
  /\ bad' = ""
  /\ UNCHANGED <<log, committed, nextAuth, acked, usedCmds, callAt, cmdSnap, receipts, wfAuths>>

TRestart(e) ==
  /\ up' = [up EXCEPT ![e.n] = TRUE]
  /\ bad' = ""
  /\ UNCHANGED <<log, committed, own, nextAuth, acked, usedCmds, callAt, fence, cmdSnap, receipts, wfAuths>>

TReset ==
  /\ log' = [n \in Node |-> <<>>] /\ committed' = [n \in Node |-> 0]
  /\ up' = [n \in Node |-> TRUE] /\ own' = [n \in Node |-> NoOwn]
  /\ nextAuth' = 1 /\ acked' = {} /\ usedCmds' = {}
  /\ callAt' = [n \in Node |-> 0] /\ fence' = [n \in Node |-> 0]
  /\ cmdSnap' = <<>> /\ receipts' = <<>> /\ wfAuths' = {} /\ bad' = ""

TraceNext ==
  /\ l <= Len(Log)
  /\ l' = l + 1
  /\ step' = step + 1
  /\ LET e == Log[l].ev IN
       CASE e.a = "Init"        -> TReset
         [] e.a = "Sync"        -> TSync(e)
         [] e.a = "Replace"     -> TReplace(e)
         [] e.a = "InstallCall" -> TInstallCall(e)
         [] e.a = "InstallRet"  -> TInstallRet(e)
         [] e.a = "CommitCall"  -> TCommitCall(e)
         [] e.a = "CommitRet"   -> TCommitRet(e)
         [] e.a = "Crash"       -> TCrash(e)
         [] e.a = "Restart"     -> TRestart(e)

TraceSpec == TraceInit /\ [][TraceNext]_tvars

\* per-event obligations (the name of the failed one is in `bad`)
Obligations == bad = ""
\* every replica's log is an unbroken predecessor chain
C02_Chain == \A n \in Node : \A i \in 1..Len(log[n]) :
               log[n][i].prev = (IF i = 1 THEN "" ELSE log[n][i - 1].id)
\* quorum proof: an offset inside any replica's committed frontier is durably held, with that very
\* entry, by a write quorum of replicas.  (An acknowledged entry is never removed again - C01 - so
\* the holders of a committed entry never drop below the quorum that proved it; with three voters
\* leader + one follower already is a quorum, the five-voter stage is where this bites.)
C02_CommittedHeldByQuorum ==
  \A n \in Node : \A k \in 1..Min2(committed[n], Len(log[n])) :
     Cardinality({m \in Node : Len(log[m]) >= k /\ log[m][k] = log[n][k]}) >= Q
C02_MonoT == [][\A n \in Node : committed'[n] >= committed[n] \/ Log[l].ev.a = "Init"]_tvars

HW       == TLCSet(1, IF l > TLCGet(1) THEN l ELSE TLCGet(1))
Track    == HW
Accepted == TLCGet(1) = Len(Log) + 1
ASSUME TLCSet(1, 0)
===============================================================================

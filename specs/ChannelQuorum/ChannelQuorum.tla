---------------------------- MODULE ChannelQuorum ----------------------------
(* Durable quorum log of ONE channel, pkg/channel/replication.

   Durable state per replica (what ReplicaStore holds): log[n], committed[n].
   Volatile state per node (quorumChannel in quorum_log.go): own[n] = authority, phase,
   cached frontier fp (the owner seals on its CACHED frontier, not on the store), hw,
   pending proposal, votes of the running round.  A node is at the same time a follower
   (its store accepts exact-base Syncs from any leader — followers do not fence) and
   possibly a (stale) leader.

   One action per critical section of the code:
     InstallProbe   fenceQuorumChannel + recoverQuorumPrefix (probe answered by a set R of voters)
     InstallRepair  repairQuorumPrefix: re-reads the local frontier, one atomic Replace per page
     InstallBarrier writeCurrentTermBarrier seal (skipped on an empty recovered log / same authority)
     Commit         seal a business proposal on the cached frontier
     LocalSync / FollowerSync / RoundConflict / RoundUnknown / Finish    runDurableRound + finishCommit
     Retry          retryPending
     Trailing       runtimeRepairOwner / deferred convergence: push one store entry to a follower
     Crash / Restart

   Flags describe the code as it is (all FALSE = the pinned tree before any repair):
     FixF1          recovery_owner.go recoveryEmptyPrefixProven + recovery_repair.go refuses to
                    replace a non-empty local log by an empty selection
     AlwaysBarrier  (hypothetical) write the authority barrier on an empty log too
   Variant flags V_* encode realistic mistakes; they are FALSE in every normal configuration and
   are used to produce schedules that must NOT reproduce on the real code (rehearsal).        *)
EXTENDS Integers, Sequences, FiniteSets, TLC

CONSTANTS Node, Q, MaxAuth, MaxLen, Cmds, MaxDown,
          FixF1, AlwaysBarrier,
          V_AckBelowQuorum,      \* Finish with Q-1 votes
          V_AckWithoutLocal,     \* Finish without the local vote
          V_SelectMaxLEO,        \* recovery selects the longest reported log
          V_RepairBelowCommitted,\* repair cuts below the local committed watermark
          V_NoBarrier            \* never write the authority barrier

VARIABLES log,        \* [Node -> Seq([t : authority, c : command])]   durable
          committed,  \* [Node -> Nat]                                  durable
          up,         \* [Node -> BOOLEAN]
          own,        \* [Node -> owner record]                         volatile
          nextAuth,   \* next authority the control plane will hand out
          acked,      \* history: set of [i, e, at] acknowledged business entries
          usedCmds,   \* commands already proposed (each command is proposed once; retries reuse it)
          step        \* history: number of steps taken (hidden by VIEW)

vars == <<log, committed, up, own, nextAuth, acked, usedCmds, step>>
view == <<log, committed, up, own, nextAuth, {[i |-> a.i, e |-> a.e] : a \in acked}, usedCmds>>

N == Cardinality(Node)
\* validateRecoveryTopology: a write quorum must be a majority, so that any two quorums intersect
ASSUME QuorumIntersects == Q \in 1..N /\ 2 * Q > N
NULL == [none |-> TRUE]
Prefix(s, i) == SubSeq(s, 1, i)
LEO(n) == Len(log[n])
Max2(a, b) == IF a > b THEN a ELSE b
Min2(a, b) == IF a < b THEN a ELSE b
TailAuth(s) == IF Len(s) = 0 THEN 0 ELSE s[Len(s)].t

NoOwn == [auth |-> 0, phase |-> "none", sel |-> <<>>, snap |-> <<>>, fp |-> <<>>, hw |-> 0,
          pend |-> NULL, votes |-> {}, localDone |-> FALSE, readyAt |-> 0]

\* k-th highest value of f over S  (quorumFrontier)
KthHighest(S, f(_), k) ==
  CHOOSE v \in {f(x) : x \in S} :
     /\ Cardinality({x \in S : f(x) >= v}) >= k
     /\ Cardinality({x \in S : f(x) > v}) < k

Init ==
  /\ log = [n \in Node |-> <<>>]
  /\ committed = [n \in Node |-> 0]
  /\ up = [n \in Node |-> TRUE]
  /\ own = [n \in Node |-> NoOwn]
  /\ nextAuth = 1
  /\ acked = {}
  /\ usedCmds = {}
  /\ step = 0

-----------------------------------------------------------------------------
\* recoverQuorumPrefix, transcribed.  An entry's identity is the whole prefix up to it (which is
\* what the predecessor hash chain gives under collision freedom).
CONFLICT   == <<[t |-> -1, c |-> "conflict"]>>
INCOMPLETE == <<[t |-> -2, c |-> "incomplete"]>>
Agree(R, i, p) == {r \in R : LEO(r) >= i /\ Prefix(log[r], i) = p}

\* recoveryEmptyPrefixProven: too few voters can hold a first entry for it to have a quorum
EmptyProven(R) == (N - Cardinality(R)) + Cardinality({r \in R : LEO(r) > 0}) < Q

Select(R) ==
  LET certC == KthHighest(R, LAMBDA r : committed[r], Q)
      qLEO  == KthHighest(R, LAMBDA r : LEO(r), Q)
      QP(i) == {p \in {Prefix(log[r], i) : r \in {x \in R : LEO(x) >= i}} : Cardinality(Agree(R, i, p)) >= Q}
      CP(i) == {p \in {Prefix(log[r], i) : r \in {x \in R : LEO(x) >= i /\ committed[x] >= i}} :
                   Cardinality({r \in Agree(R, i, p) : committed[r] >= i}) >= Q}
      RECURSIVE Walk(_, _)
      Walk(sel, i) == IF i > qLEO THEN sel
                      ELSE IF QP(i) = {}
                        THEN IF FixF1 /\ Len(sel) = 0 /\ ~EmptyProven(R) THEN INCOMPLETE ELSE sel
                      ELSE LET p == CHOOSE x \in QP(i) : TRUE IN
                           IF Prefix(p, Len(sel)) # sel THEN CONFLICT ELSE Walk(p, i + 1)
      longest == CHOOSE r \in R : \A x \in R : LEO(r) >= LEO(x)
  IN IF V_SelectMaxLEO THEN log[longest]
     ELSE IF certC > qLEO THEN CONFLICT
     ELSE IF qLEO = 0 THEN (IF FixF1 /\ ~EmptyProven(R) THEN INCOMPLETE ELSE <<>>)
     ELSE IF certC > 0
          THEN IF CP(certC) = {} THEN CONFLICT
               ELSE Walk(CHOOSE x \in CP(certC) : TRUE, certC + 1)
          ELSE Walk(<<>>, 1)

\* Install, step 1: fence (the authority advances even if the probe then fails) and probe.
\* Install holds the channel mutex, so it runs only when no round of this owner is in progress.
InstallProbe(n) ==
  /\ up[n] /\ nextAuth <= MaxAuth
  /\ own[n].phase \in {"none", "ready"}
  /\ \E R \in SUBSET {r \in Node : up[r]} :
       /\ n \in R /\ Cardinality(R) >= Q
       /\ LET s == Select(R) IN
            IF s = CONFLICT \/ s = INCOMPLETE
              THEN own' = [own EXCEPT ![n] = [NoOwn EXCEPT !.auth = nextAuth]]
              ELSE own' = [own EXCEPT ![n] = [NoOwn EXCEPT !.auth = nextAuth, !.phase = "repair", !.sel = s,
                         !.snap = [r \in {x \in R : LEO(x) >= Len(s) /\ Prefix(log[x], Len(s)) = s} |-> <<log[r], committed[r]>>]]]
  /\ nextAuth' = nextAuth + 1
  /\ step' = step + 1
  /\ UNCHANGED <<log, committed, up, acked, usedCmds>>

\* an Install that fails after fencing (timeout, donor gone, context cancelled) leaves the owner
\* fenced under the new authority and not ready
InstallFail(n) ==
  /\ up[n] /\ own[n].phase \in {"repair", "barrier", "bround"}
  /\ own' = [own EXCEPT ![n] = [NoOwn EXCEPT !.auth = own[n].auth]]
  /\ step' = step + 1
  /\ UNCHANGED <<log, committed, up, nextAuth, acked, usedCmds>>

\* Install, step 2: repairQuorumPrefix (single page in this model; the page boundary is explored
\* by the harness with a small RecoveryPageBytes).  It RE-READS the local frontier; the donor must
\* be an unchanged supporter of the proof.
InstallRepair(n) ==
  /\ up[n] /\ own[n].phase = "repair"
  /\ LET s == own[n].sel
         k == IF V_RepairBelowCommitted THEN 0 ELSE committed[n]
     IN /\ committed[n] <= Len(s) \/ V_RepairBelowCommitted
        /\ k > 0 => Prefix(log[n], k) = Prefix(s, k)
        /\ IF log[n] = s /\ committed[n] = Len(s)
             THEN UNCHANGED <<log, committed>>
             ELSE IF k + 1 <= Len(s)
               THEN /\ \E d \in DOMAIN own[n].snap : up[d] /\ own[n].snap[d] = <<log[d], committed[d]>>
                    /\ log' = [log EXCEPT ![n] = s]
                    /\ committed' = [committed EXCEPT ![n] = Len(s)]
               ELSE IF Len(s) = 0 /\ k = 0 /\ (~FixF1 \/ LEO(n) = 0)
               THEN /\ log' = [log EXCEPT ![n] = <<>>]
                    /\ committed' = [committed EXCEPT ![n] = 0]
               ELSE FALSE          \* ErrLogConflict: the step is InstallFail
        /\ own' = [own EXCEPT ![n].phase = "barrier", ![n].fp = s]
  /\ step' = step + 1
  /\ UNCHANGED <<up, nextAuth, acked, usedCmds>>

\* Install, step 3: the current-authority barrier is sealed on the frontier RETURNED by repair.
InstallBarrier(n) ==
  /\ up[n] /\ own[n].phase = "barrier"
  /\ LET rec == own[n].fp IN
     IF ~V_NoBarrier /\ (Len(rec) > 0 \/ AlwaysBarrier) /\ TailAuth(rec) # own[n].auth
       THEN /\ own[n].auth > TailAuth(rec)
            /\ Len(rec) < MaxLen
            /\ own' = [own EXCEPT ![n].phase = "bround",
                            ![n].pend = [base |-> Len(rec), e |-> [t |-> own[n].auth, c |-> "B"], cm |-> Len(rec)],
                            ![n].votes = {}, ![n].localDone = FALSE]
       ELSE own' = [own EXCEPT ![n].phase = "ready", ![n].hw = Len(rec), ![n].readyAt = step + 1]
  /\ step' = step + 1
  /\ UNCHANGED <<log, committed, up, nextAuth, acked, usedCmds>>

-----------------------------------------------------------------------------
\* ReplicaStore.Sync with an exact base: proposal p (one entry) sealed on the leader prefix fp.
SyncRes(r, p, fp) ==
  IF Len(log[r]) < p.base THEN "needfrom"
  ELSE IF Prefix(log[r], p.base) # fp THEN "conflict"
  ELSE IF Len(log[r]) = p.base THEN "durable"
  ELSE IF log[r][p.base + 1] = p.e THEN "already"
  ELSE "conflict"
SyncApply(r, p) == IF Len(log[r]) = p.base THEN Append(log[r], p.e) ELSE log[r]
Durable(res) == res \in {"durable", "already"}

Commit(n, c) ==
  /\ up[n] /\ own[n].phase = "ready" /\ own[n].pend = NULL
  /\ c \notin usedCmds
  /\ Len(own[n].fp) < MaxLen
  /\ own' = [own EXCEPT ![n].phase = "round",
                  ![n].pend = [base |-> Len(own[n].fp), e |-> [t |-> own[n].auth, c |-> c], cm |-> own[n].hw],
                  ![n].votes = {}, ![n].localDone = FALSE]
  /\ usedCmds' = usedCmds \cup {c}
  /\ step' = step + 1
  /\ UNCHANGED <<log, committed, up, nextAuth, acked>>

Retry(n) ==
  /\ up[n] /\ own[n].phase = "ready" /\ own[n].pend # NULL
  /\ own' = [own EXCEPT ![n].phase = "round", ![n].votes = {}, ![n].localDone = FALSE]
  /\ step' = step + 1
  /\ UNCHANGED <<log, committed, up, nextAuth, acked, usedCmds>>

InRound(n) == own[n].phase \in {"round", "bround"}

LocalSync(n) ==
  /\ up[n] /\ InRound(n) /\ ~own[n].localDone
  /\ LET p == own[n].pend
         res == SyncRes(n, p, own[n].fp) IN
       /\ Durable(res)
       /\ log' = [log EXCEPT ![n] = SyncApply(n, p)]
       /\ committed' = [committed EXCEPT ![n] = Max2(@, p.cm)]
       /\ own' = [own EXCEPT ![n].localDone = TRUE]
  /\ step' = step + 1
  /\ UNCHANGED <<up, nextAuth, acked, usedCmds>>

\* the local store answers Conflict: a business round drops its pending proposal
\* (ErrLogConflict after reconciliation), a barrier round fails the Install
RoundConflict(n) ==
  /\ up[n] /\ InRound(n) /\ ~own[n].localDone
  /\ SyncRes(n, own[n].pend, own[n].fp) = "conflict"
  /\ own' = IF own[n].phase = "round"
              THEN [own EXCEPT ![n].phase = "ready", ![n].pend = NULL, ![n].votes = {}, ![n].localDone = FALSE]
              ELSE [own EXCEPT ![n] = [NoOwn EXCEPT !.auth = own[n].auth]]
  /\ step' = step + 1
  /\ UNCHANGED <<log, committed, up, nextAuth, acked, usedCmds>>

\* the round gives up with an unknown outcome: a business proposal stays pending for an
\* identical retry, a barrier round fails the Install
RoundUnknown(n) ==
  /\ up[n] /\ InRound(n)
  /\ own' = IF own[n].phase = "round"
              THEN [own EXCEPT ![n].phase = "ready", ![n].votes = {}, ![n].localDone = FALSE]
              ELSE [own EXCEPT ![n] = [NoOwn EXCEPT !.auth = own[n].auth]]
  /\ step' = step + 1
  /\ UNCHANGED <<log, committed, up, nextAuth, acked, usedCmds>>

\* a follower applies the proposal; the reply reaches the leader or is lost
FollowerSync(n, f, delivered) ==
  /\ up[n] /\ up[f] /\ f # n /\ InRound(n) /\ f \notin own[n].votes
  /\ LET p == own[n].pend
         res == SyncRes(f, p, own[n].fp) IN
       /\ Durable(res)
       /\ log' = [log EXCEPT ![f] = SyncApply(f, p)]
       /\ committed' = [committed EXCEPT ![f] = Max2(@, p.cm)]
       /\ own' = IF delivered THEN [own EXCEPT ![n].votes = @ \cup {f}] ELSE own
  /\ step' = step + 1
  /\ UNCHANGED <<up, nextAuth, acked, usedCmds>>

\* finishCommit: receipt iff the local vote and a write quorum of votes are durable
Finish(n) ==
  /\ up[n] /\ InRound(n)
  /\ own[n].localDone \/ V_AckWithoutLocal
  /\ Cardinality(own[n].votes) + (IF own[n].localDone THEN 1 ELSE 0) >= (IF V_AckBelowQuorum THEN Q - 1 ELSE Q)
  /\ LET p == own[n].pend IN
       /\ acked' = IF own[n].phase = "round" THEN acked \cup {[i |-> p.base + 1, e |-> p.e, at |-> step + 1]} ELSE acked
       /\ own' = [own EXCEPT ![n].phase = "ready", ![n].pend = NULL, ![n].hw = p.base + 1,
                        ![n].fp = Append(own[n].fp, p.e),
                        ![n].votes = {}, ![n].localDone = FALSE,
                        ![n].readyAt = IF own[n].phase = "bround" THEN step + 1 ELSE @]
  /\ step' = step + 1
  /\ UNCHANGED <<log, committed, up, nextAuth, usedCmds>>

\* trailing convergence / NeedFrom repair: the current owner pushes its durable entry i to f
Trailing(n, f) ==
  /\ up[n] /\ up[f] /\ f # n /\ own[n].phase \in {"ready", "round"}
  /\ LET i == Len(log[f]) + 1 IN
       /\ i <= Len(log[n]) /\ i <= Len(own[n].fp)
       /\ Prefix(log[n], i) = Prefix(own[n].fp, i)
       /\ Prefix(log[n], i - 1) = log[f]
       /\ log' = [log EXCEPT ![f] = Append(@, log[n][i])]
       /\ committed' = [committed EXCEPT ![f] = Max2(@, Min2(committed[n], i))]
  /\ step' = step + 1
  /\ UNCHANGED <<up, own, nextAuth, acked, usedCmds>>

Crash(n) ==
  /\ up[n]
  /\ Cardinality({m \in Node : ~up[m]}) < MaxDown
  /\ up' = [up EXCEPT ![n] = FALSE]
  /\ own' = [own EXCEPT ![n] = NoOwn]
  /\ step' = step + 1
  /\ UNCHANGED <<log, committed, nextAuth, acked, usedCmds>>

Restart(n) ==
  /\ ~up[n]
  /\ up' = [up EXCEPT ![n] = TRUE]
  /\ step' = step + 1
  /\ UNCHANGED <<log, committed, own, nextAuth, acked, usedCmds>>

Next ==
  \/ \E n \in Node : InstallProbe(n) \/ InstallFail(n) \/ InstallRepair(n) \/ InstallBarrier(n) \/ LocalSync(n)
                      \/ RoundConflict(n) \/ RoundUnknown(n) \/ Retry(n) \/ Finish(n) \/ Crash(n) \/ Restart(n)
  \/ \E n \in Node, c \in Cmds : Commit(n, c)
  \/ \E n, f \in Node : FollowerSync(n, f, TRUE) \/ FollowerSync(n, f, FALSE) \/ Trailing(n, f)

Spec == Init /\ [][Next]_vars

-----------------------------------------------------------------------------
Has(l, a) == Len(l) >= a.i /\ l[a.i] = a.e

\* C01 (i): an acknowledged entry stays, with equal content, on enough replicas to survive
\* any outage of N - Q replicas
C01_AckedStays == \A a \in acked : Cardinality({n \in Node : Has(log[n], a)}) >= N - Q + 1
\* C01 (ii): a leader that is writable holds every entry acknowledged before it became writable
\* under an authority not newer than its own
C01_WritableHoldsAcked == \A n \in Node : own[n].phase \in {"ready", "round"} =>
     \A a \in acked : (a.at <= own[n].readyAt /\ a.e.t <= own[n].auth) => Has(log[n], a)
\* C01 (iii): never two different acknowledged entries at one index
C01_NoReplace == \A a, b \in acked : a.i = b.i => a.e = b.e

\* C02
C02_Agreement == \A m, n \in Node : LET k == Min2(committed[m], committed[n]) IN Prefix(log[m], k) = Prefix(log[n], k)
C02_Bound == \A n \in Node : committed[n] <= Len(log[n])
C02_Mono == [][\A n \in Node : committed'[n] >= committed[n]]_vars

\* C03 (single-record proposals): a receipt starts right after the previous log end of its
\* leader's frontier and commands never share a sequence
C03_ReceiptsDisjoint == \A a, b \in acked : a.e.c = b.e.c => a.i = b.i
C03_OneIndexOneCommand == \A a, b \in acked : a.i = b.i => a.e.c = b.e.c

\* C04: an owner's authority never decreases; a receipt is only produced under the owner's
\* current authority
C04_AuthorityMonotone == [][\A n \in Node : up'[n] /\ up[n] => own'[n].auth >= own[n].auth]_vars
C04_AckUnderCurrentAuthority ==
  [][\A a \in acked' \ acked : \E n \in Node : own[n].auth = a.e.t /\ own[n].phase = "round"]_vars

\* scenario predicates: ~S as an "invariant" makes TLC print a shortest behaviour reaching S
S_AckThenFailoverToLaggard ==
  \E a \in acked, n \in Node : own[n].phase = "ready" /\ own[n].auth > a.e.t /\ Has(log[n], a) /\ own[n].readyAt > a.at
     /\ \E m \in Node : ~up[m]
S_BarrierWritten == \E n \in Node : own[n].phase = "ready" /\ Len(own[n].fp) > 0 /\ own[n].fp[Len(own[n].fp)].c = "B"
=============================================================================

------------------------------- MODULE Presence -------------------------------
(* Authority presence directory (internal/runtime/presence/directory.go,
   expiry_index.go).

   Per hash slot the directory holds at most one *authority incarnation*: the
   installed identity `id` (abstraction of the RouteTarget fence
   (HashSlot, SlotID, LeaderNodeID, LeaderTerm, ConfigEpoch); RouteRevision and
   AuthorityEpoch are not part of the fence and are not modelled), the active
   routes, the pending conflict candidates, and per route identity the last owner
   sequence seen (`oseq`) and the explicit unregister tombstone (`tomb`, 0 = none).
   The whole incarnation is discarded by LoseAuthority and by BecomeAuthority with
   a different identity (tombstones are per incarnation).

   A connection (route identity) is a number c in Conns; its immutable attributes
   (uid, device flag / level / id, which decide conflicts) are configuration of
   one directory instance (`cfg.conns[c]`) carried by the Init event.
   `cfg.foreign` lists the authority identities whose LeaderNodeID differs from
   the directory's LocalNodeID: such targets are rejected even when installed.

   One action per exported Directory method; all methods run under the shard
   mutex, so the return of the call is the linearization point. *)
EXTENDS Integers, Sequences, FiniteSets, SequencesExt, FiniteSetsExt, TLC

CONSTANTS
  Slots,      \* hash slots (integers)
  Auths,      \* authority identities (positive integers; 0 = none installed)
  ProfileNames, \* names of the connection-attribute tables (ProfileTable) tried
  Foreigns,   \* set of subsets of Auths tried as cfg.foreign
  Seqs,       \* owner sequences tried by the exhaustive run
  Seens,      \* activity seconds tried (0 = route carries no activity time)
  MaxTok,     \* bound on pending tokens issued per incarnation
  Nows,       \* expiry clock values tried (0 = zero time)
  TTLs        \* TTL seconds tried

VARIABLES
  slot,       \* [Slots -> incarnation record]
  cfg,        \* [conns |-> attribute table, foreign |-> sorted seq of identities, auths |-> sorted seq of Auths]
  ev          \* last call and reply (observation only)

vars == <<slot, cfg, ev>>

\* Connection-attribute tables.  level: 1 = master, 0 = slave, other = never the
\* conflicting side.  All of u1's routes share flag 0 unless stated.
A(u, f, l, d) == [uid |-> u, flag |-> f, level |-> l, dev |-> d]
ProfileTable ==
  [P2 |-> << A("u1", 0, 1, "a"), A("u1", 0, 0, "a") >>,
   P3 |-> << A("u1", 0, 1, "a"), A("u1", 0, 0, "a"), A("u1", 0, 0, "b") >>,
   P4 |-> << A("u1", 0, 1, "a"), A("u1", 0, 0, "a"), A("u1", 0, 0, "b"), A("u2", 0, 1, "a") >>,
   Q4 |-> << A("u1", 0, 0, "a"), A("u1", 0, 0, "a"), A("u2", 0, 1, "a"), A("u2", 0, 1, "b") >>,
   S6 |-> << A("u1", 0, 1, "a"), A("u1", 0, 0, "a"), A("u1", 0, 0, "b"),
             A("u2", 0, 1, "a"), A("u2", 0, 1, "b"), A("u1", 1, 2, "a") >>,
   T6 |-> << A("u1", 0, 0, "a"), A("u1", 0, 0, "a"), A("u1", 0, 1, "b"),
             A("u2", 1, 0, "a"), A("u2", 1, 2, "a"), A("u1", 1, 1, "a") >>,
   \* many connections that (all but the last) never conflict: many routes active at once in one
   \* hash slot, hence many distinct activity seconds in its expiry index (SimBuckets.tla)
   W10 |-> << A("u1", 0, 2, "a"), A("u1", 1, 2, "a"), A("u2", 0, 0, "a"), A("u2", 0, 0, "b"),
              A("u3", 0, 0, "a"), A("u3", 1, 0, "a"), A("u4", 0, 2, "a"), A("u5", 0, 2, "a"),
              A("u5", 0, 0, "b"), A("u4", 0, 1, "b") >>]
Profiles == {ProfileTable[n] : n \in ProfileNames}

Conns      == 1..Len(cfg.conns)
Attr(c)    == cfg.conns[c]
ForeignSet == {cfg.foreign[i] : i \in 1..Len(cfg.foreign)}
Uids       == {Attr(c).uid : c \in Conns}
Max2(a, b) == IF a >= b THEN a ELSE b

Absent == [on |-> FALSE, seq |-> 0, seen |-> 0]
EmptySlotN(id, C) ==
  [id   |-> id,
   act  |-> [c \in C |-> Absent],
   oseq |-> [c \in C |-> 0],
   tomb |-> [c \in C |-> 0],
   pend |-> {},          \* set of [tok, c, seq, seen, ack]
   ntok |-> 0]
EmptySlot(id) == EmptySlotN(id, Conns)

Init ==
  /\ cfg \in {[conns |-> p, foreign |-> SetToSortSeq(f, <), auths |-> SetToSortSeq(Auths, <)] : p \in Profiles, f \in Foreigns}
  /\ slot = [hs \in Slots |-> EmptySlot(0)]
  /\ ev = [a |-> "Init", cfg |-> cfg]

-------------------------------------------------------------------------------
\* The target fence: exact identity match, and never a foreign leader.
Accepts(s, id) == s.id # 0 /\ s.id = id /\ id \notin ForeignSet

\* Device conflict rule (conflicts() in directory.go): same uid and device flag;
\* a master-level incoming route conflicts with every such route, a slave-level
\* one only with the same device id, any other level with none.
Conf(inc, ex) ==
  /\ Attr(inc).uid = Attr(ex).uid
  /\ Attr(inc).flag = Attr(ex).flag
  /\ \/ Attr(inc).level = 1
     \/ Attr(inc).level = 0 /\ Attr(inc).dev = Attr(ex).dev
ConflictsOf(s, c) == {k \in Conns \ {c} : s.act[k].on /\ Conf(c, k)}

\* Owner-sequence fence shared by register, commit and touch.
Stale(s, c, q) == (s.tomb[c] > 0 /\ q <= s.tomb[c]) \/ q < s.oseq[c]

Route(q, sn)  == [on |-> TRUE, seq |-> q, seen |-> sn]
SortConns(S)  == SetToSortSeq(S, <)

BecomeAuthority(hs, id) ==
  /\ slot' = IF slot[hs].id = id THEN slot ELSE [slot EXCEPT ![hs] = EmptySlot(id)]
  /\ ev' = [a |-> "Become", hs |-> hs, id |-> id, res |-> [err |-> "ok"]]
  /\ UNCHANGED cfg

LoseAuthority(hs) ==
  /\ slot' = [slot EXCEPT ![hs] = EmptySlot(0)]
  /\ ev' = [a |-> "Lose", hs |-> hs, res |-> [err |-> "ok"]]
  /\ UNCHANGED cfg

RegisterSlot(s, c, q, sn) ==
  IF Stale(s, c, q)
    THEN [s |-> s, err |-> "stale", tok |-> 0, conf |-> {}]
    ELSE LET s1 == [s EXCEPT !.oseq[c] = q]
             cf == ConflictsOf(s, c)
         IN IF cf = {}
              THEN [s |-> [s1 EXCEPT !.act[c] = Route(q, sn)], err |-> "ok", tok |-> 0, conf |-> {}]
              ELSE [s |-> [s1 EXCEPT !.ntok = s.ntok + 1,
                                     !.pend = @ \cup {[tok |-> s.ntok + 1, c |-> c, seq |-> q, seen |-> sn, ack |-> cf]}],
                    err |-> "ok", tok |-> s.ntok + 1, conf |-> cf]

Register(t, c, q, sn) ==
  /\ LET call == [a |-> "Register", t |-> t, c |-> c, seq |-> q, seen |-> sn] IN
     IF ~Accepts(slot[t.hs], t.id)
       THEN /\ slot' = slot
            /\ ev' = call @@ [res |-> [err |-> "not_leader", tok |-> 0, conf |-> <<>>]]
       ELSE LET r == RegisterSlot(slot[t.hs], c, q, sn) IN
            /\ r.tok <= MaxTok
            /\ slot' = [slot EXCEPT ![t.hs] = r.s]
            /\ ev' = call @@ [res |-> [err |-> r.err, tok |-> r.tok, conf |-> SortConns(r.conf)]]
  /\ UNCHANGED cfg

CommitSlot(s, tok) ==
  IF ~\E p \in s.pend : p.tok = tok
    THEN [s |-> s, err |-> "not_ready"]
    ELSE LET p    == CHOOSE p \in s.pend : p.tok = tok
             rest == s.pend \ {p}
         IN IF Stale(s, p.c, p.seq)
              THEN [s |-> [s EXCEPT !.pend = rest], err |-> "stale"]
            ELSE IF ~(ConflictsOf(s, p.c) \subseteq p.ack)
              THEN [s |-> s, err |-> "not_ready"]
            ELSE [s |-> [s EXCEPT !.pend = rest,
                                  !.act = [k \in Conns |-> IF k = p.c THEN Route(p.seq, p.seen)
                                                           ELSE IF k \in p.ack THEN Absent
                                                           ELSE s.act[k]]],
                  err |-> "ok"]

Commit(t, tok) ==
  /\ LET call == [a |-> "Commit", t |-> t, tok |-> tok] IN
     IF ~Accepts(slot[t.hs], t.id)
       THEN /\ slot' = slot
            /\ ev' = call @@ [res |-> [err |-> "not_leader"]]
       ELSE LET r == CommitSlot(slot[t.hs], tok) IN
            /\ slot' = [slot EXCEPT ![t.hs] = r.s]
            /\ ev' = call @@ [res |-> [err |-> r.err]]
  /\ UNCHANGED cfg

Abort(t, tok) ==
  /\ LET call == [a |-> "Abort", t |-> t, tok |-> tok]
         s    == slot[t.hs]
     IN
     IF ~Accepts(s, t.id)
       THEN /\ slot' = slot
            /\ ev' = call @@ [res |-> [err |-> "not_leader"]]
     ELSE IF ~\E p \in s.pend : p.tok = tok
       THEN /\ slot' = slot
            /\ ev' = call @@ [res |-> [err |-> "not_ready"]]
     ELSE /\ slot' = [slot EXCEPT ![t.hs].pend = {p \in @ : p.tok # tok}]
          /\ ev' = call @@ [res |-> [err |-> "ok"]]
  /\ UNCHANGED cfg

UnregisterSlot(s, c, q) ==
  [s EXCEPT !.tomb[c] = Max2(@, q),
            !.oseq[c] = Max2(@, q),
            !.act[c]  = IF @.on /\ @.seq <= q THEN Absent ELSE @,
            !.pend    = {p \in @ : ~(p.c = c /\ p.seq <= q)}]

Unregister(t, c, q) ==
  /\ LET call == [a |-> "Unregister", t |-> t, c |-> c, seq |-> q] IN
     IF ~Accepts(slot[t.hs], t.id)
       THEN /\ slot' = slot
            /\ ev' = call @@ [res |-> [err |-> "not_leader"]]
       ELSE /\ slot' = [slot EXCEPT ![t.hs] = UnregisterSlot(@, c, q)]
            /\ ev' = call @@ [res |-> [err |-> "ok"]]
  /\ UNCHANGED cfg

\* One touched route: fenced like a register; refreshes an active route (activity
\* never moves backward) or recreates a missing one when nothing conflicts.  The
\* owner sequence is recorded even when a conflict keeps the route out.
TouchOne(s, it) ==
  LET c == it.c  q == it.seq  sn == it.seen IN
  IF Stale(s, c, q) THEN s
  ELSE LET s1 == [s EXCEPT !.oseq[c] = q] IN
       IF s.act[c].on THEN [s1 EXCEPT !.act[c] = Route(q, Max2(sn, s.act[c].seen))]
       ELSE IF ConflictsOf(s, c) # {} THEN s1
       ELSE [s1 EXCEPT !.act[c] = Route(q, sn)]

RECURSIVE TouchAll(_, _)
TouchAll(s, items) == IF items = <<>> THEN s ELSE TouchAll(TouchOne(s, Head(items)), Tail(items))

Touch(t, items) ==
  /\ LET call == [a |-> "Touch", t |-> t, items |-> items] IN
     IF ~Accepts(slot[t.hs], t.id)
       THEN /\ slot' = slot
            /\ ev' = call @@ [res |-> [err |-> "not_leader"]]
       ELSE /\ slot' = [slot EXCEPT ![t.hs] = TouchAll(@, items)]
            /\ ev' = call @@ [res |-> [err |-> "ok"]]
  /\ UNCHANGED cfg

\* TTL expiry over every installed slot: removes exactly the active routes that
\* carry an activity time with seen + ttl strictly before now.  Owner sequences and
\* tombstones are untouched.
Due(r, now, ttl) == r.on /\ ttl > 0 /\ now # 0 /\ r.seen # 0 /\ r.seen + ttl < now

Expire(now, ttl) ==
  /\ LET gone == {<<hs, c>> \in Slots \X Conns : Due(slot[hs].act[c], now, ttl)} IN
       /\ slot' = [hs \in Slots |-> [slot[hs] EXCEPT !.act = [c \in Conns |-> IF <<hs, c>> \in gone THEN Absent ELSE @[c]]]]
       /\ ev' = [a |-> "Expire", now |-> now, ttl |-> ttl, res |-> [expired |-> Cardinality(gone)]]
  /\ UNCHANGED cfg

\* Lookups.  The routes of one uid as a sequence ordered by connection number (the
\* harness compares them as a set and checks the order for determinism separately).
RouteSeq(s, u) ==
  LET S == {c \in Conns : s.act[c].on /\ Attr(c).uid = u}
      q == SortConns(S)
  IN [i \in 1..Len(q) |-> [c |-> q[i], seq |-> s.act[q[i]].seq, seen |-> s.act[q[i]].seen]]

LookupRes(t, uids) ==
  IF ~Accepts(slot[t.hs], t.id)
    THEN [err |-> "not_leader", routes |-> <<>>]
    ELSE [err |-> "ok", routes |-> [i \in 1..Len(uids) |-> RouteSeq(slot[t.hs], uids[i])]]

\* `via` selects the exported lookup used by the harness (EndpointsByUIDs or
\* repeated EndpointsByUID); the specification gives both the same meaning.
Lookup(t, uids, via) ==
  /\ ev' = [a |-> "Lookup", t |-> t, uids |-> uids, via |-> via, res |-> LookupRes(t, uids)]
  /\ UNCHANGED <<slot, cfg>>

\* EndpointsByTargets with two groups: group-aligned, independently fenced replies.
LookupGroups(t1, u1, t2, u2) ==
  /\ ev' = [a |-> "LookupGroups", groups |-> << [t |-> t1, uids |-> u1], [t |-> t2, uids |-> u2] >>,
            res |-> << LookupRes(t1, u1), LookupRes(t2, u2) >>]
  /\ UNCHANGED <<slot, cfg>>

-------------------------------------------------------------------------------
Targets  == [hs : Slots, id : Auths]
UidLists == {<<u>> : u \in Uids} \cup {<<x[1], x[2]>> : x \in {y \in Uids \X Uids : y[1] # y[2]}}
Items1   == {<<[c |-> c, seq |-> q, seen |-> sn]>> : c \in Conns, q \in Seqs, sn \in Seens}

\* A rejected call changes nothing whatever its other arguments are, so the exhaustive
\* run tries a stale target with one representative argument tuple only.
MinOf(S)  == CHOOSE x \in S : \A y \in S : x <= y
Acc(t)    == Accepts(slot[t.hs], t.id)
Rep(c, q) == c = 1 /\ q = MinOf(Seqs)

Next ==
  \/ \E hs \in Slots, id \in Auths : BecomeAuthority(hs, id)
  \/ \E hs \in Slots : LoseAuthority(hs)
  \/ \E t \in Targets, c \in Conns, q \in Seqs, sn \in Seens :
        (Acc(t) \/ (Rep(c, q) /\ sn = MinOf(Seens))) /\ Register(t, c, q, sn)
  \/ \E t \in Targets, k \in 0..MaxTok : (Acc(t) \/ k = 0) /\ Commit(t, k)
  \/ \E t \in Targets, k \in 0..MaxTok : (Acc(t) \/ k = 0) /\ Abort(t, k)
  \/ \E t \in Targets, c \in Conns, q \in Seqs : (Acc(t) \/ Rep(c, q)) /\ Unregister(t, c, q)
  \/ \E t \in Targets, its \in Items1 :
        (Acc(t) \/ (Rep(its[1].c, its[1].seq) /\ its[1].seen = MinOf(Seens))) /\ Touch(t, its)
  \/ \E now \in Nows, ttl \in TTLs : Expire(now, ttl)
  \/ \E t \in Targets, us \in UidLists : Lookup(t, us, "uids")
  \/ \E t1 \in Targets, t2 \in Targets, us \in UidLists : LookupGroups(t1, us, t2, us)

Spec == Init /\ [][Next]_vars

-------------------------------------------------------------------------------
\* Observable projection.  `id` is the identity whose targets the slot accepts
\* (the harness finds it by probing a lookup with every identity); `routes` the
\* active routes; `active`/`by` what Snapshot() counts.
AcceptId(s) == IF s.id \in ForeignSet THEN 0 ELSE s.id
ActiveSeq(s) ==
  LET q == SortConns({c \in Conns : s.act[c].on})
  IN [i \in 1..Len(q) |-> [c |-> q[i], seq |-> s.act[q[i]].seq, seen |-> s.act[q[i]].seen]]
SlotSeq == SortConns(Slots)
Proj ==
  [slots  |-> [i \in 1..Len(SlotSeq) |->
                 LET s == slot[SlotSeq[i]] IN
                 [hs |-> SlotSeq[i], id |-> AcceptId(s),
                  routes |-> IF AcceptId(s) = 0 THEN <<>> ELSE ActiveSeq(s),
                  count |-> Cardinality({c \in Conns : s.act[c].on})]],
   active |-> Cardinality({x \in Slots \X Conns : slot[x[1]].act[x[2]].on})]

\* Destructive observation at the end of a replayed behaviour: per accepting slot the
\* live pending tokens (found by aborting every issued token) and per connection
\* the lowest owner sequence a register is not rejected as stale for.
Fence(s, c) == IF s.tomb[c] > 0 /\ s.tomb[c] >= s.oseq[c] THEN s.tomb[c] + 1 ELSE s.oseq[c]
Final ==
  [i \in 1..Len(SlotSeq) |->
     LET s == slot[SlotSeq[i]] IN
     IF AcceptId(s) = 0 THEN [hs |-> SlotSeq[i], pend |-> <<>>, fence |-> <<>>]
     ELSE [hs |-> SlotSeq[i],
           pend |-> SortConns({p.tok : p \in s.pend}),
           fence |-> [c \in Conns |-> Fence(s, c)]]]

-------------------------------------------------------------------------------
\* Property C33 on the design.

TypeOK ==
  \A hs \in Slots :
    LET s == slot[hs] IN
    /\ s.id \in Auths \cup {0}
    /\ s.id = 0 => s = EmptySlot(0)
    /\ \A c \in Conns : s.act[c].on => s.act[c].seq <= s.oseq[c]
    /\ \A p \in s.pend : p.tok \in 1..s.ntok /\ p.ack # {} /\ p.c \notin p.ack
    /\ \A p1, p2 \in s.pend : p1.tok = p2.tok => p1 = p2

\* Within one incarnation a connection is never active (nor pending) at or below its
\* unregister tombstone.
C33_NoResurrection ==
  \A hs \in Slots, c \in Conns :
    LET s == slot[hs] IN
    s.tomb[c] > 0 =>
      /\ s.act[c].on => s.act[c].seq > s.tomb[c]
      /\ \A p \in s.pend : p.c = c => p.seq > s.tomb[c]

\* Tombstones and owner-sequence fences only grow while the incarnation lives (a step
\* that keeps a non-zero identity keeps the incarnation).
C33_FencesMonotone ==
  [][\A hs \in Slots :
       (slot[hs].id # 0 /\ slot'[hs].id = slot[hs].id /\ ev'.a # "Lose") =>
         \A c \in Conns : /\ slot'[hs].tomb[c] >= slot[hs].tomb[c]
                          /\ Fence(slot'[hs], c) >= Fence(slot[hs], c)]_vars

\* An accepted unregister at sequence q fences the connection at q.
C33_UnregisterFences ==
  [][(ev'.a = "Unregister" /\ ev'.res.err = "ok") =>
       LET s == slot'[ev'.t.hs] c == ev'.c IN
       /\ s.tomb[c] >= ev'.seq
       /\ ~(s.act[c].on /\ s.act[c].seq <= ev'.seq)]_vars

\* A target other than the installed authority is rejected without changing state.
TargetOps == {"Register", "Commit", "Abort", "Unregister", "Touch", "Lookup"}
C33_StaleRejected ==
  [][/\ (ev'.a \in TargetOps /\ ~Accepts(slot[ev'.t.hs], ev'.t.id)) =>
          (ev'.res.err = "not_leader" /\ slot' = slot)
     /\ (ev'.a \in TargetOps /\ Accepts(slot[ev'.t.hs], ev'.t.id)) => ev'.res.err # "not_leader"
     /\ ev'.a = "LookupGroups" =>
          \A i \in 1..2 : (ev'.res[i].err = "not_leader") <=> ~Accepts(slot[ev'.groups[i].t.hs], ev'.groups[i].t.id)
     \* an operation touches only the hash slot its target names
     /\ ev'.a \in TargetOps => \A hs \in Slots \ {ev'.t.hs} : slot'[hs] = slot[hs]]_vars

\* TTL expiry removes exactly the routes idle for longer than the TTL.
C33_ExpireExact ==
  [][ev'.a = "Expire" =>
       /\ \A hs \in Slots, c \in Conns :
            LET r == slot[hs].act[c] IN
            slot'[hs].act[c] = IF r.on /\ ev'.ttl > 0 /\ ev'.now # 0 /\ r.seen # 0 /\ r.seen + ev'.ttl < ev'.now
                               THEN Absent ELSE r
       /\ \A hs \in Slots : /\ slot'[hs].tomb = slot[hs].tomb /\ slot'[hs].oseq = slot[hs].oseq
                            /\ slot'[hs].pend = slot[hs].pend /\ slot'[hs].id = slot[hs].id
       /\ ev'.res.expired = Cardinality({x \in Slots \X Conns : slot[x[1]].act[x[2]].on /\ ~slot'[x[1]].act[x[2]].on})]_vars

\* Lookups are a function of the state: exactly the active routes of each uid.
C33_LookupExact ==
  [][(ev'.a = "Lookup" /\ ev'.res.err = "ok") =>
       \A i \in 1..Len(ev'.uids) :
         {r.c : r \in {ev'.res.routes[i][j] : j \in 1..Len(ev'.res.routes[i])}}
           = {c \in Conns : slot[ev'.t.hs].act[c].on /\ Attr(c).uid = ev'.uids[i]}]_vars

View == <<slot, cfg>>
===============================================================================

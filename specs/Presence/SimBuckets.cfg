INIT SimInit
NEXT SimNext
CONSTANTS
  Slots = {1}
  Auths = {1, 2}
  ProfileNames = {"W10"}
  Foreigns = {{}}
  Seqs = {0, 1, 2, 3}
  Seens <- WideSeens
  MaxTok = 1000
  Nows = {0}
  TTLs = {0, 1, 2, 3, 5, 8}
  Depth = 40
INVARIANT Emit
CHECK_DEADLOCK FALSE

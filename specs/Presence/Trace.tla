-------------------------------- MODULE Trace --------------------------------
(* Trace validation: the NDJSON file written by the harness (one step per line,
   traces concatenated, each starting with an "Init" line that carries the
   directory configuration) must be a behaviour of Presence.  The call arguments
   are bound from the log; the reply and the projection are then determined by the
   specification and compared in the invariant Conform, so a divergence is
   reported with the expected values. *)
EXTENDS Presence, Json
VARIABLE l

Log == ndJsonDeserialize("trace.ndjson")

TraceInit == Init /\ l = 1

Reset0 ==
  /\ cfg' = Log[l].ev.cfg
  /\ slot' = [hs \in Slots |-> EmptySlotN(0, 1..Len(Log[l].ev.cfg.conns))]
  /\ ev' = Log[l].ev

Step(e) ==
  CASE e.a = "Init"         -> Reset0
    [] e.a = "Become"       -> BecomeAuthority(e.hs, e.id)
    [] e.a = "Lose"         -> LoseAuthority(e.hs)
    [] e.a = "Register"     -> Register(e.t, e.c, e.seq, e.seen)
    [] e.a = "Commit"       -> Commit(e.t, e.tok)
    [] e.a = "Abort"        -> Abort(e.t, e.tok)
    [] e.a = "Unregister"   -> Unregister(e.t, e.c, e.seq)
    [] e.a = "Touch"        -> Touch(e.t, e.items)
    [] e.a = "Expire"       -> Expire(e.now, e.ttl)
    [] e.a = "Lookup"       -> Lookup(e.t, e.uids, e.via)
    [] e.a = "LookupGroups" -> LookupGroups(e.groups[1].t, e.groups[1].uids, e.groups[2].t, e.groups[2].uids)

TraceNext == l <= Len(Log) /\ l' = l + 1 /\ Step(Log[l].ev)

TraceSpec == TraceInit /\ [][TraceNext]_<<vars, l>>

\* Deterministic step: the logged reply and projection must be the specification's.
Conform ==
  l > 1 /\ Log[l - 1].ev.a # "Init" =>
    /\ ev.res = Log[l - 1].ev.res
    /\ Proj = Log[l - 1].st

\* Acceptance: every line was consumed.
HW       == TLCSet(1, IF l > TLCGet(1) THEN l ELSE TLCGet(1))
Track    == HW
Accepted == TLCGet(1) = Len(Log) + 1
ASSUME TLCSet(1, 0)
===============================================================================

\* as MC_quick with owner sequences 0..2: 997,731 distinct states, 113.6M generated, ~5 min with 8 workers
SPECIFICATION Spec
CONSTANTS
  Slots = {1}
  Auths = {1, 2}
  ProfileNames = {"P3"}
  Foreigns = {{}, {2}}
  Seqs = {0, 1, 2}
  Seens = {0, 1}
  MaxTok = 2
  Nows = {0, 2, 3}
  TTLs = {0, 1}
VIEW View
INVARIANTS TypeOK C33_NoResurrection
PROPERTIES C33_FencesMonotone C33_UnregisterFences C33_StaleRejected C33_ExpireExact C33_LookupExact
CHECK_DEADLOCK FALSE

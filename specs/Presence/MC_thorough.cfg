\* 1 hash slot, identities {1,2} (2 optionally foreign to the node), 3 connections of one user,
\* owner sequences 0..2, activity seconds 0..1, 1 pending token per incarnation, zero time / zero TTL included:
\* 76,293 distinct states, 5.4M generated
SPECIFICATION Spec
CONSTANTS
  Slots = {1}
  Auths = {1, 2}
  ProfileNames = {"P3"}
  Foreigns = {{}, {2}}
  Seqs = {0, 1, 2}
  Seens = {0, 1}
  MaxTok = 1
  Nows = {0, 2, 3}
  TTLs = {0, 1}
VIEW View
INVARIANTS TypeOK C33_NoResurrection
PROPERTIES C33_FencesMonotone C33_UnregisterFences C33_StaleRejected C33_ExpireExact C33_LookupExact
CHECK_DEADLOCK FALSE

--------------------------------- MODULE Sim ---------------------------------
(* Behaviour generator: `tlc -simulate` on this module prints one JSON behaviour
   per line ("BEH {...}") when a run reaches Depth steps: for every step the call,
   the reply the specification determines and the projection of the abstract
   state; at the end the destructive observation Final. *)
EXTENDS Presence, Json
CONSTANT Depth
VARIABLE hist

SimInit == Init /\ hist = << [ev |-> ev, st |-> Proj] >>
\* One successor per disjunct: arguments are drawn with RandomElement so that
\* `-simulate` chooses uniformly among action kinds, not among argument tuples.
Pick(S) == {RandomElement(S)}
Coin(n) == RandomElement(1..n) = 1

Live      == {hs \in Slots : AcceptId(slot[hs]) # 0}
Cur(hs)   == [hs |-> hs, id |-> slot[hs].id]
\* a target for an installed, accepting slot (none: the disjunct is disabled)
AimT      == {Cur(hs) : hs \in Pick(Live \cup {0}) \ {0}}
ActiveC(hs) == {c \in Conns : slot[hs].act[c].on}
Near(q)   == {x \in {q - 1, q, q + 1} : x >= 0}
UidPick   == Pick(UidLists)
Item(c, q, sn) == [c |-> c, seq |-> q, seen |-> sn]
NoP == [tok |-> 0, c |-> 0, seq |-> 0, seen |-> 0, ack |-> {}]
PickPend(hs) == {p \in Pick(slot[hs].pend \cup {NoP}) : p.tok # 0}

SimStep ==
  \* authority changes (kept rare so that incarnations live long enough to matter)
  \/ \E hs \in Pick(Slots), id \in Pick(Auths) : Coin(4) /\ BecomeAuthority(hs, id)
  \/ \E hs \in Pick((Slots \ Live) \cup {0}) \ {0}, id \in Pick(Auths) : BecomeAuthority(hs, id)
  \/ \E hs \in Pick(Live \cup {0}) \ {0} : Coin(3) /\ BecomeAuthority(hs, slot[hs].id)   \* revision-only update
  \/ \E hs \in Pick(Slots) : Coin(6) /\ LoseAuthority(hs)
  \* register: any target / current target, fresh or stale sequences, aimed at a conflict
  \/ \E t \in Pick(Targets), c \in Pick(Conns), q \in Pick(Seqs), sn \in Pick(Seens) : Coin(3) /\ Register(t, c, q, sn)
  \/ \E t \in AimT, c \in Pick(Conns), q \in Pick(Seqs), sn \in Pick(Seens) : Register(t, c, q, sn)
  \/ \E t \in AimT, c \in Pick(Conns), sn \in Pick(Seens) :
        \E q \in Pick(Near(Fence(slot[t.hs], c))) : Register(t, c, q, sn)
  \/ \E t \in AimT, sn \in Pick(Seens) :
        \E c \in Pick({k \in Conns : ConflictsOf(slot[t.hs], k) # {}} \cup {0}) \ {0} :
          \E q \in Pick({Fence(slot[t.hs], c), Fence(slot[t.hs], c) + 1}) : Register(t, c, q, sn)
  \* commit / abort: any token, or a live one with the current target
  \/ \E t \in Pick(Targets), k \in Pick(0..3) : Coin(3) /\ Commit(t, k)
  \/ \E t \in AimT : \E p \in PickPend(t.hs) : Commit(t, p.tok)
  \/ \E t \in AimT : \E p \in PickPend(t.hs) : Commit(t, p.tok)
  \/ \E t \in Pick(Targets), k \in Pick(0..3) : Coin(4) /\ Abort(t, k)
  \/ \E t \in AimT : \E p \in PickPend(t.hs) : Coin(3) /\ Abort(t, p.tok)
  \* a stale target carrying a live token
  \/ \E hs \in Pick(Live \cup {0}) \ {0} : \E p \in PickPend(hs), id \in Pick(Auths) :
        Coin(2) /\ Commit([hs |-> hs, id |-> id], p.tok)
  \* unregister
  \/ \E t \in Pick(Targets), c \in Pick(Conns), q \in Pick(Seqs) : Coin(3) /\ Unregister(t, c, q)
  \/ \E t \in AimT : \E c \in Pick(ActiveC(t.hs) \cup {0}) \ {0} :
        \E q \in Pick(Near(slot[t.hs].act[c].seq)) : Unregister(t, c, q)
  \/ \E t \in AimT, c \in Pick(Conns) : \E q \in Pick(Near(slot[t.hs].oseq[c])) : Coin(2) /\ Unregister(t, c, q)
  \/ \E t \in AimT : \E p \in PickPend(t.hs) : \E q \in Pick(Near(p.seq)) : Coin(2) /\ Unregister(t, p.c, q)
  \* touch
  \/ \E t \in Pick(Targets), c \in Pick(Conns), q \in Pick(Seqs), sn \in Pick(Seens) : Coin(3) /\ Touch(t, << Item(c, q, sn) >>)
  \/ \E t \in AimT, c1 \in Pick(Conns), q1 \in Pick(Seqs), s1 \in Pick(Seens),
        c2 \in Pick(Conns), q2 \in Pick(Seqs), s2 \in Pick(Seens) :
        Touch(t, << Item(c1, q1, s1), Item(c2, q2, s2) >>)
  \/ \E t \in AimT : \E c \in Pick(ActiveC(t.hs) \cup {0}) \ {0}, sn \in Pick(Seens) :
        \E q \in Pick(Near(slot[t.hs].act[c].seq)) : Touch(t, << Item(c, q, sn) >>)
  \/ \E t \in AimT, c \in Pick(Conns), sn \in Pick(Seens) :
        \E q \in Pick(Near(Fence(slot[t.hs], c))) : Touch(t, << Item(c, q, sn) >>)
  \* expiry
  \/ \E now \in Pick(Nows), ttl \in Pick(TTLs) : Coin(2) /\ Expire(now, ttl)
  \/ \E now \in Pick(Nows), ttl \in Pick(TTLs \ {0}) : now # 0 /\ Expire(now, ttl)
  \* lookups
  \/ \E t \in Pick(Targets), us \in UidPick, v \in Pick({"uids", "uid"}) : Coin(2) /\ Lookup(t, us, v)
  \/ \E t \in AimT, us \in UidPick, v \in Pick({"uids", "uid"}) : Lookup(t, us, v)
  \/ \E t1 \in Pick(Targets), t2 \in AimT, u1 \in UidPick, u2 \in UidPick : Coin(2) /\ LookupGroups(t1, u1, t2, u2)
  \/ \E t1 \in AimT, t2 \in Pick(Targets), u1 \in UidPick, u2 \in UidPick : Coin(2) /\ LookupGroups(t1, u1, t2, u2)

SimNext == SimStep /\ hist' = Append(hist, [ev |-> ev', st |-> Proj'])
Emit    == Len(hist) = Depth + 1 =>
             PrintT("BEH " \o ToJson([steps |-> hist, final |-> Final]))
===============================================================================

\* 1 hash slot, identities {1,2}, 3 connections of one user (master a, slave a, slave b),
\* owner sequences 0..1, activity seconds 0..1, 2 pending tokens per incarnation:
\* 62,007 distinct states
SPECIFICATION Spec
CONSTANTS
  Slots = {1}
  Auths = {1, 2}
  ProfileNames = {"P3"}
  Foreigns = {{}}
  Seqs = {0, 1}
  Seens = {0, 1}
  MaxTok = 2
  Nows = {2, 3}
  TTLs = {1}
VIEW View
INVARIANTS TypeOK C33_NoResurrection
PROPERTIES C33_FencesMonotone C33_UnregisterFences C33_StaleRejected C33_ExpireExact C33_LookupExact
CHECK_DEADLOCK FALSE

\* as MC_quick (2 pending tokens per incarnation, owner sequences 0..1) with identity 2 optionally foreign,
\* zero time / zero TTL included: 93,012 distinct states
SPECIFICATION Spec
CONSTANTS
  Slots = {1}
  Auths = {1, 2}
  ProfileNames = {"P3"}
  Foreigns = {{}, {2}}
  Seqs = {0, 1}
  Seens = {0, 1}
  MaxTok = 2
  Nows = {0, 2, 3}
  TTLs = {0, 1}
VIEW View
INVARIANTS TypeOK C33_NoResurrection
PROPERTIES C33_FencesMonotone C33_UnregisterFences C33_StaleRejected C33_ExpireExact C33_LookupExact
CHECK_DEADLOCK FALSE

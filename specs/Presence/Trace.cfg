SPECIFICATION TraceSpec
CONSTANTS
  Slots = {1, 2}
  Auths = {1, 2, 3}
  ProfileNames = {"P3"}
  Foreigns = {{}}
  Seqs = {0}
  Seens = {0}
  MaxTok = 1000000
  Nows = {0}
  TTLs = {0}
CONSTRAINT Track
INVARIANTS Conform TypeOK C33_NoResurrection
PROPERTIES C33_FencesMonotone C33_UnregisterFences C33_StaleRejected C33_ExpireExact C33_LookupExact
POSTCONDITION Accepted
CHECK_DEADLOCK FALSE

------------------------------ MODULE SimBuckets ------------------------------
(* Second behaviour generator of Presence (sim stage "buckets"): the TTL expiry of a
   hash slot that holds MANY routes with MANY distinct activity seconds.

   Sim.tla spreads its steps over every action with a narrow clock (activity seconds
   0..5), so a hash slot rarely holds more than three distinct activity seconds; an
   expiry index that orders activity seconds wrongly only once it holds six or more of
   them (a heap that loses its order when an inner element is removed) is never
   exercised.  This generator keeps one incarnation alive, fills it with up to ten
   routes whose activity seconds are drawn from a wide domain in arbitrary order,
   moves routes between activity seconds (touches that leave a second which is neither
   the oldest nor the newest one, unregisters of such routes) and runs expiries whose
   cutoff lies between the activity seconds present, so that several are due and
   several are not.  Interleaved with these random steps it runs a scripted PROBE (variable
   `plan`): a route arrives late with an old activity second (older than the median
   present, not the oldest, not yet present), a route that is alone in one of the newer
   seconds leaves it (heartbeat to a newer second, or unregister), and the clock sweeps
   forward (expiry with the cutoff at the oldest second present, a few times).  An index
   that mis-files the late old second when the newer one is vacated fails to expire it
   when the sweep reaches it.  The properties are those of Presence (C33_ExpireExact states what
   every Expire step must do); the replies and projections printed here are the
   specification's and are compared call by call with the real directory. *)
EXTENDS Presence, Json
CONSTANT Depth
VARIABLES hist, plan

WideSeens == 0..60      \* activity seconds (0 = none); substituted for Seens in the cfg

SimInit == Init /\ hist = << [ev |-> ev, st |-> Proj] >> /\ plan = <<>>
Pick(S) == {RandomElement(S)}
Coin(n) == RandomElement(1..n) = 1
\* one element of S, or nothing (the disjunct is disabled) with probability 1/(|S|+1)
Some(S) == Pick(S \cup {0}) \ {0}

Live        == {hs \in Slots : AcceptId(slot[hs]) # 0}
Cur(hs)     == [hs |-> hs, id |-> slot[hs].id]
\* the current target of an installed, accepting slot (none installed: disabled)
AimT        == IF Live = {} THEN {} ELSE {Cur(hs) : hs \in Pick(Live)}
ActiveC(hs) == {c \in Conns : slot[hs].act[c].on}
IdleC(hs)   == Conns \ ActiveC(hs)
SeenOf(hs, c) == slot[hs].act[c].seen
SeenSet(hs) == {SeenOf(hs, c) : c \in ActiveC(hs)} \ {0}
MaxS(S)     == CHOOSE x \in S : \A y \in S : y <= x
MinS(S)     == CHOOSE x \in S : \A y \in S : x <= y
\* routes whose activity second is neither the oldest nor the newest one present
MidC(hs)    == {c \in ActiveC(hs) : /\ SeenOf(hs, c) # 0
                                    /\ SeenOf(hs, c) # MinS(SeenSet(hs))
                                    /\ SeenOf(hs, c) # MaxS(SeenSet(hs))}
Item(c, q, sn) == [c |-> c, seq |-> q, seen |-> sn]
NoP == [tok |-> 0, c |-> 0, seq |-> 0, seen |-> 0, ack |-> {}]
PickPend(hs) == {p \in Pick(slot[hs].pend \cup {NoP}) : p.tok # 0}
Few(hs)     == Cardinality(SeenSet(hs)) < 6
\* the probe
SortedSecs(hs) == SetToSortSeq(SeenSet(hs), <)
Median(hs)  == SortedSecs(hs)[(Len(SortedSecs(hs)) \div 2) + 1]
OldSecs(hs) == {x \in Seens : MinS(SeenSet(hs)) < x /\ x < Median(hs) /\ x \notin SeenSet(hs)}
IdleFree(hs) == {c \in IdleC(hs) : ConflictsOf(slot[hs], c) = {}}
Alone(hs, c) == \A k \in ActiveC(hs) \ {c} : SeenOf(hs, k) # SeenOf(hs, c)
UpperAlone(hs) == {c \in ActiveC(hs) : SeenOf(hs, c) >= Median(hs) /\ Alone(hs, c)}
CanProbe(hs) == Cardinality(SeenSet(hs)) >= 5 /\ IdleFree(hs) # {} /\ OldSecs(hs) # {}
RegOld(t) == \E c \in Pick(IdleFree(t.hs)), sn \in Pick(OldSecs(t.hs)) :
               \E q \in Pick({Fence(slot[t.hs], c), Fence(slot[t.hs], c) + 1}) : Register(t, c, q, sn)
Leave(t)  == \E c \in Pick(UpperAlone(t.hs)), d \in Pick(1..5), k \in Pick(1..3) :
               IF k = 1 THEN Unregister(t, c, slot[t.hs].act[c].seq)
                        ELSE Touch(t, << Item(c, slot[t.hs].act[c].seq, MaxS(SeenSet(t.hs)) + d) >>)
Sweep(t)  == \E ttl \in Pick(TTLs \ {0}) : Expire(MinS(SeenSet(t.hs)) + ttl + 1, ttl)

SimStep ==
  \* the incarnation: installed once, kept (a revision-only update now and then, rarely lost)
  \/ Slots \ Live # {} /\ \E hs \in Pick(Slots \ Live), id \in Pick(Auths) : BecomeAuthority(hs, id)
  \/ \E hs \in Some(Live) : Coin(8) /\ BecomeAuthority(hs, slot[hs].id)
  \/ \E hs \in Some(Live) : Coin(40) /\ LoseAuthority(hs)
  \* fill: a connection that is not active registers with any activity second, in any order
  \/ \E t \in AimT, sn \in Pick(Seens \ {0}) : \E c \in Some(IdleC(t.hs)) :
        \E q \in Pick({Fence(slot[t.hs], c), Fence(slot[t.hs], c) + 1}) : Register(t, c, q, sn)
  \/ \E t \in AimT, sn \in Pick(Seens \ {0}) : \E c \in Some(IdleC(t.hs)) :
        \E q \in Pick({Fence(slot[t.hs], c), Fence(slot[t.hs], c) + 1}) : Few(t.hs) /\ Register(t, c, q, sn)
  \/ \E t \in AimT, sn \in Pick(Seens \ {0}) : \E c \in Some(IdleC(t.hs)) :
        Few(t.hs) /\ Touch(t, << Item(c, Fence(slot[t.hs], c), sn) >>)      \* a touch recreates a missing route
  \/ \E t \in AimT : \E p \in PickPend(t.hs) : Commit(t, p.tok)
  \* an active route re-registers (reconnect) with another activity second
  \/ \E t \in AimT, sn \in Pick(Seens) : \E c \in Some(ActiveC(t.hs)) :
        Coin(2) /\ Register(t, c, slot[t.hs].act[c].seq + 1, sn)
  \* heartbeats: a route leaves an inner activity second for a newer one ...
  \/ \E t \in AimT, d \in Pick(1..5) : \E c \in Some(MidC(t.hs)) :
        \E q \in Pick({slot[t.hs].act[c].seq, slot[t.hs].act[c].seq + 1}) :
          Touch(t, << Item(c, q, MaxS(SeenSet(t.hs)) + d) >>)
  \* ... or any route any second (activity never moves backward), one to three per call
  \/ \E t \in AimT, s1 \in Pick(Seens), s2 \in Pick(Seens) :
        \E c1 \in Some(ActiveC(t.hs)), c2 \in Some(ActiveC(t.hs)) :
          Touch(t, << Item(c1, slot[t.hs].act[c1].seq, s1), Item(c2, slot[t.hs].act[c2].seq, s2) >>)
  \/ \E t \in AimT, s1 \in Pick(Seens) : \E c1 \in Some(ActiveC(t.hs)) :
        \E q \in Pick(Seqs \cup {slot[t.hs].act[c1].seq}) : Coin(2) /\ Touch(t, << Item(c1, q, s1) >>)
  \* a route of an inner activity second / any route goes away
  \/ \E t \in AimT : \E c \in Some(MidC(t.hs)) : Coin(2) /\ Unregister(t, c, slot[t.hs].act[c].seq)
  \/ \E t \in AimT : \E c \in Some(ActiveC(t.hs)) : Coin(4) /\ Unregister(t, c, slot[t.hs].act[c].seq)
  \* expiry with the cutoff at (d = 0: just before) an activity second that is present
  \/ \E t \in AimT, ttl \in Pick(TTLs \ {0}), d \in Pick({0, 1, 2}) : \E x \in Some(SeenSet(t.hs)) :
        ~Few(t.hs) /\ Expire(x + ttl + d, ttl)
  \/ \E t \in AimT, ttl \in Pick(TTLs \ {0}), d \in Pick({0, 1}) : \E x \in Some(SeenSet(t.hs)) :
        Coin(3) /\ Expire(x + ttl + d, ttl)
  \* the clock sweeps forward: the cutoff at the oldest activity second present
  \/ \E t \in AimT : SeenSet(t.hs) # {} /\ Coin(2) /\ Sweep(t)
  \* ... and immediately again (nothing more may be due), or with a cutoff before everything
  \/ ev.a = "Expire" /\ Coin(2) /\ Expire(ev.now, ev.ttl)
  \/ \E now \in Pick(Seens), ttl \in Pick(TTLs) : Coin(6) /\ Expire(now, ttl)
  \* lookups (the projection already reads every route after every step)
  \/ \E t \in AimT, us \in Pick(UidLists), v \in Pick({"uids", "uid"}) : Coin(6) /\ Lookup(t, us, v)

Script(n) == [i \in 1..n |-> IF i = 1 THEN "leave" ELSE "sweep"]
PlanStep ==
  IF plan = <<>>
    THEN \/ SimStep /\ plan' = <<>>
         \/ \E t \in AimT, n \in Pick(3..5) : CanProbe(t.hs) /\ RegOld(t) /\ plan' = Script(n)
         \/ \E t \in AimT, n \in Pick(3..5) : CanProbe(t.hs) /\ RegOld(t) /\ plan' = Script(n)
         \/ \E t \in AimT, n \in Pick(3..5) : CanProbe(t.hs) /\ RegOld(t) /\ plan' = Script(n)
    ELSE \E t \in AimT :
           IF Head(plan) = "leave" /\ UpperAlone(t.hs) # {} THEN Leave(t) /\ plan' = Tail(plan)
           ELSE IF Head(plan) = "sweep" /\ SeenSet(t.hs) # {} THEN Sweep(t) /\ plan' = Tail(plan)
           ELSE \E us \in Pick(UidLists) : Lookup(t, us, "uids") /\ plan' = <<>>

SimNext == PlanStep /\ hist' = Append(hist, [ev |-> ev', st |-> Proj'])
Emit    == Len(hist) = Depth + 1 =>
             PrintT("BEH " \o ToJson([steps |-> hist, final |-> Final]))
===============================================================================

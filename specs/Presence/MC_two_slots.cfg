\* 2 hash slots, identities {1,2}, 2 connections (master a, slave a), owner sequences 0..1,
\* activity seconds 0..1, 1 pending token per incarnation: cross-slot independence and expiry over slots
SPECIFICATION Spec
CONSTANTS
  Slots = {1, 2}
  Auths = {1, 2}
  ProfileNames = {"P2"}
  Foreigns = {{}}
  Seqs = {0, 1}
  Seens = {0, 1}
  MaxTok = 1
  Nows = {2, 3}
  TTLs = {1}
VIEW View
INVARIANTS TypeOK C33_NoResurrection
PROPERTIES C33_FencesMonotone C33_UnregisterFences C33_StaleRejected C33_ExpireExact C33_LookupExact
CHECK_DEADLOCK FALSE

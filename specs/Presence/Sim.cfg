INIT SimInit
NEXT SimNext
CONSTANTS
  Slots = {1, 2}
  Auths = {1, 2, 3}
  ProfileNames = {"P4", "Q4", "S6", "T6"}
  Foreigns = {{}, {3}}
  Seqs = {0, 1, 2, 3, 4}
  Seens = {0, 1, 2, 3, 4, 5}
  MaxTok = 1000
  Nows = {0, 1, 2, 3, 4, 5, 6, 7, 8}
  TTLs = {0, 1, 2, 3}
  Depth = 30
INVARIANT Emit
CHECK_DEADLOCK FALSE

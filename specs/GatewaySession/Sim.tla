--------------------------------- MODULE Sim ---------------------------------
(* Behaviour generator (spec -> code) for the gated harnesses.

   The harness runs the real Server with ONE send worker (so every session shares the one
   shard "all": this is where batches mix sessions and the queue saturates) and a handler
   whose calls park until the script releases them with a plan.  Each step below is the
   composition of GatewaySession steps that one command of the script brings about once the
   system is quiescent again (every shard parked in the handler or idle with an empty queue),
   together with everything the harness can then observe:

     Send(s)         feed one SEND; res.r = ok / closed (refused: queue full or draining);
                     res.started = the batch the idle worker entered the handler with.
                     ch = the channel the SEND is addressed to (an index into the harness's
                     channel table, which is in DESCENDING (type, id) order): pure input, no
                     C28 formula and no reply depends on it -- SENDACKs follow the SEND order
                     whatever the channels are.  Mostly (n-1) % NChan + 1, so that consecutive
                     SENDs of a session go to different channels in reverse sort order.
     SendBegin(s)    (Admission = "parked" only; the harness needs a session object whose ID()
                     can block) feed one SEND and hold the feeding goroutine inside
                     sendExecutor.submit, between the admission fence and the capacity
                     reservation; res.parked = FALSE if it was refused before (draining)
     SendEnd(s)      let that feed continue: res.r / res.started as for Send
     Release(order)  the parked handler call produces the results of the batch positions in
                     `order` (any order, possibly not all = the call fails afterwards); the
                     writer flushes SENDACKs from the head of each session; res.acks = the
                     SENDACKs written, in order; res.err = the call failed (a result missing,
                     or a write hit a closed session); then the sessions of a failed batch are
                     closed and the worker enters the handler with the next batch (res.started)
     Close(s)        the peer closes the connection
     Push(s, i)      another outbound frame: i = "p" Session.WriteFrame from a server
                     goroutine, i = "q" the reply to a PING on the read path
     DrainStart      DrainSends with an expired context, then a waiter with a live one;
                     st.drained tells whether the waiter has returned *)
EXTENDS GatewaySession, Json
CONSTANTS Depth, NChan
VARIABLE hist

X == "all"
Pick(S) == {RandomElement(S)}

SimProj(t) == [sess |-> [s \in Sessions |-> [r |-> t.h.nrecv[s], c |-> t.h.nacc[s], k |-> t.h.nack[s],
                                             w |-> t.h.nwr[s], x |-> t.h.closed[s]]],
               drained |-> t.drained, parked |-> t.disp[X], queued |-> Len(t.queue[X])]

AutoDispatch(t) == IF t.disp[X] = <<>> /\ t.doomed[X] = {} /\ t.queue[X] # <<>>
                     THEN DoDispatch(t, X, Min2(Len(t.queue[X]), cfg.bmax)) ELSE t
AutoDrain(t)    == IF CanDrainDone(t) THEN DoDrainDone(t) ELSE t

ChanOf(n) == IF RandomElement(1..3) = 1 THEN RandomElement(1..NChan) ELSE ((n - 1) % NChan) + 1

MSend(s) ==
  /\ CanFeed(st, s)
  /\ LET adm == CanAdmit(st, s)
         t1  == IF adm THEN DoAdmit(st, s) ELSE DoReject(st, s)
         t2  == AutoDispatch(t1)
     IN /\ st' = t2
        /\ ev' = [a |-> "Send", s |-> s, n |-> st.h.nrecv[s] + 1, ch |-> ChanOf(st.h.nrecv[s] + 1),
                  res |-> [r |-> IF adm THEN "ok" ELSE "closed",
                           started |-> IF t2.disp[X] # st.disp[X] THEN t2.disp[X] ELSE <<>>]]

\* the feed is held inside submit (the code as written: already registered with the drain)
MSendBegin(s) ==
  /\ Admission = "parked"
  /\ CanFeed(st, s)
  /\ LET n == st.h.nrecv[s] + 1 IN
     IF st.draining
       THEN /\ st' = DoReject(st, s)
            /\ ev' = [a |-> "SendBegin", s |-> s, n |-> n, ch |-> ChanOf(n), res |-> [parked |-> FALSE, r |-> "closed"]]
       ELSE /\ st' = DoFeedBegin(st, s)
            /\ ev' = [a |-> "SendBegin", s |-> s, n |-> n, ch |-> ChanOf(n), res |-> [parked |-> TRUE, r |-> "-"]]

MSendEnd(s) ==
  /\ st.adm[s] # "idle"
  /\ LET t1 == DoFeedEnd(st, s)
         t2 == AutoDispatch(t1)
         t3 == AutoDrain(t2)
     IN /\ st' = t3
        /\ ev' = [a |-> "SendEnd", s |-> s, n |-> st.h.nrecv[s],
                  res |-> [r |-> FeedEndRes(st, s),
                           started |-> IF t2.disp[X] # st.disp[X] THEN t2.disp[X] ELSE <<>>]]

RECURSIVE Flush(_, _)
Flush(t, acks) ==
  IF FlushSet(t, X) = {} THEN [t |-> t, acks |-> acks, broke |-> FALSE]
  ELSE LET i == CHOOSE j \in FlushSet(t, X) : TRUE IN
       IF t.h.closed[t.disp[X][i].s] THEN [t |-> t, acks |-> acks, broke |-> TRUE]
       ELSE Flush(DoWriteAck(t, X, i), Append(acks, t.disp[X][i]))

RECURSIVE Emitted(_, _, _, _)
Emitted(t, order, j, acks) ==
  IF j > Len(order) THEN [t |-> t, acks |-> acks, broke |-> FALSE]
  ELSE LET f == Flush(DoComplete(t, X, order[j]), acks) IN
       IF f.broke THEN f ELSE Emitted(f.t, order, j + 1, f.acks)

RECURSIVE CloseAll(_)
CloseAll(t) == IF t.doomed[X] = {} THEN t
               ELSE CloseAll(DoCloseDoomed(t, X, CHOOSE s \in t.doomed[X] : TRUE))

\* all sequences of distinct batch positions
Orders(n) == {o \in UNION {[1..k -> 1..n] : k \in 0..n} : \A a, b \in DOMAIN o : a # b => o[a] # o[b]}

MRelease(order) ==
  /\ st.disp[X] # <<>>
  /\ LET n      == Len(st.disp[X])
         r      == Emitted(st, order, 1, <<>>)
         failed == r.broke \/ Len(order) < n
         t1     == IF failed THEN CloseAll(DoHandlerFail(r.t, X)) ELSE DoHandlerDone(r.t, X)
         t2     == AutoDispatch(t1)
         t3     == AutoDrain(t2)
     IN /\ st' = t3
        /\ ev' = [a |-> "Release", order |-> order,
                  res |-> [acks |-> r.acks, err |-> failed, started |-> t2.disp[X]]]

MClose(s) == CanClose(st, s) /\ st' = DoClose(st, s) /\ ev' = [a |-> "Close", s |-> s]

MPush(s, i) ==
  /\ CanIssue(st, s, i)
  /\ i = "q" => ~st.h.closed[s] /\ st.adm[s] = "idle"   \* the PING travels on the read path
  /\ LET t1 == DoIssue(st, s, i)
         ok == ~st.h.closed[s]
         t2 == IF ok THEN DoIssueDone(DoPushWrite(t1, s, i), s, i) ELSE DoIssueDone(t1, s, i)
     IN st' = t2 /\ ev' = [a |-> "Push", s |-> s, i |-> i, n |-> st.pn[s][i] + 1, res |-> [ok |-> ok]]

MDrainStart ==
  /\ CanDrainStart(st)
  /\ st' = AutoDrain(DoDrainStart(st))
  /\ ev' = [a |-> "DrainStart"]

SimInit == Init /\ cfg.scap = cfg.cap /\ hist = << [ev |-> ev, st |-> SimProj(st)] >>

Feedable == {s \in Sessions : CanFeed(st, s)}
InBatch  == {st.disp[X][j].s : j \in 1..Len(st.disp[X])}
InAdm    == {s \in Sessions : st.adm[s] # "idle"}
None     == "-"
PickOr(S) == IF S = {} THEN {None} ELSE Pick(S)
Full2(n)  == {o \in Orders(n) : Len(o) = n}
Part(n)   == {o \in Orders(n) : Len(o) < n}

SimStep ==
  /\ UNCHANGED cfg
  /\ \/ \E s \in PickOr(Feedable) : s # None /\ MSend(s)
     \/ \E s \in PickOr(Feedable) : s # None /\ MSend(s)
     \* aimed: pile SENDs onto a session that already has one inside the parked handler call
     \/ \E s \in PickOr(Feedable \cap InBatch) : s # None /\ MSend(s)
     \/ st.disp[X] # <<>> /\ \E o \in Pick(Full2(Len(st.disp[X]))) : MRelease(o)
     \/ st.disp[X] # <<>> /\ RandomElement(1..2) = 1 /\ \E o \in Pick(Full2(Len(st.disp[X]))) : MRelease(o)
     \* aimed: a multi-item batch whose results arrive back to front
     \/ Len(st.disp[X]) >= 2 /\ MRelease([j \in 1..Len(st.disp[X]) |-> Len(st.disp[X]) + 1 - j])
     \/ st.disp[X] # <<>> /\ RandomElement(1..5) = 1 /\ \E o \in Pick(Part(Len(st.disp[X]))) : MRelease(o)
     \/ RandomElement(1..8) = 1 /\ \E s \in Pick(Sessions) : MClose(s)
     \* aimed: close a session that has an item inside the parked handler call
     \/ RandomElement(1..6) = 1 /\ \E s \in PickOr(InBatch) : s # None /\ MClose(s)
     \/ \E s \in Pick(Sessions), i \in Pick(Issuers) : MPush(s, i)
     \/ RandomElement(1..12) = 1 /\ MDrainStart
     \* aimed: saturation -- feed a session while the queue is full
     \/ Queued(st) >= cfg.cap /\ \E s \in PickOr(Feedable) : s # None /\ MSend(s)
     \* Admission = "parked": hold a feed inside submit, let it go on later
     \/ Admission = "parked" /\ \E s \in PickOr(Feedable) : s # None /\ MSendBegin(s)
     \/ Admission = "parked" /\ ~st.draining /\ \E s \in PickOr(Feedable) : s # None /\ MSendBegin(s)
     \/ \E s \in PickOr(InAdm) : s # None /\ MSendEnd(s)
     \* aimed (the counterexample of MC_split.cfg: FeedBegin, DrainStart, DrainWaitDone, FeedEnd,
     \* DispatchBatch): the drain starts while a feed is inside submit, then the feed goes on
     \/ InAdm # {} /\ MDrainStart
     \/ InAdm # {} /\ st.draining /\ \E s \in PickOr(InAdm) : s # None /\ MSendEnd(s)
     \* keeps a behaviour alive to Depth when nothing else is possible (ignored by the harness)
     \/ RandomElement(1..4) = 1 /\ st' = st /\ ev' = [a |-> "Nop"]
     \/ (Feedable = {} /\ InAdm = {} /\ st.disp[X] = <<>>) /\ st' = st /\ ev' = [a |-> "Nop"]
SimNext == SimStep /\ hist' = Append(hist, [ev |-> ev', st |-> SimProj(st')])
Emit    == Len(hist) = Depth + 1 => PrintT("BEH " \o ToJson([steps |-> hist]))
===============================================================================

SPECIFICATION TraceSpec
CONSTANTS
  Sessions = {"s1", "s2", "s3", "s4", "s5", "s6"}
  MaxSends = 1000000
  Issuers = {"p", "q", "r"}
  MaxPush = 1000000
  Caps = {1}
  ShardCaps = {1}
  BatchMaxes = {1}
  Modes = {"shared"}
  Admission = "atomic"
CONSTRAINT Track
INVARIANTS Conform
PROPERTIES C28_AckOrder C28_ExactlyOne C28_OutboundOrder C28_OutboundComplete C28_DrainFence C28_DrainCompletes
POSTCONDITION Accepted
CHECK_DEADLOCK FALSE

\* Gated schedules with a feed held inside sendExecutor.submit (needs a session object whose ID()
\* blocks: overlay harness only).  One session, two send workers (so that submit looks the shard
\* up through Session.ID()); the capacity is never reached (64 / 8 shards >= MaxSends).
INIT SimInit
NEXT SimNext
CONSTANTS
  Sessions = {"s1"}
  MaxSends = 6
  Issuers = {"p", "q"}
  MaxPush = 2
  Caps = {64}
  ShardCaps = {64}
  BatchMaxes = {2, 3}
  Modes = {"shared"}
  Admission = "parked"
  NChan = 4
  Depth = 25
INVARIANT Emit
CHECK_DEADLOCK FALSE

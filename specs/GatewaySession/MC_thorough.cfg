\* 2 sessions x 3 SENDs, one pushed frame per session, shared and separate shards, shard capacity 1|2, batches <= 2|3:
\* 26,737,718 generated / 5,891,212 distinct states, depth 41 (9.5 min with 6 workers at load 60).
SPECIFICATION Spec
CONSTANTS
  Sessions = {"s1", "s2"}
  MaxSends = 3
  Issuers = {"p"}
  MaxPush = 1
  Caps = {2}
  ShardCaps = {1, 2}
  BatchMaxes = {2, 3}
  Modes = {"shared", "separate"}
  Admission = "atomic"
VIEW View
INVARIANTS TypeOK QueuedWithinShardCap
PROPERTIES C28_AckOrder C28_ExactlyOne C28_OutboundOrder C28_OutboundComplete C28_DrainFence C28_DrainCompletes
CHECK_DEADLOCK FALSE

INIT SimInit
NEXT SimNext
CONSTANTS
  Sessions = {"s1", "s2", "s3"}
  MaxSends = 6
  Issuers = {"p", "q"}
  MaxPush = 3
  Caps = {2, 3}
  ShardCaps = {2, 3}
  BatchMaxes = {2, 3}
  Modes = {"shared"}
  Admission = "atomic"
  NChan = 4
  Depth = 25
INVARIANT Emit
CHECK_DEADLOCK FALSE

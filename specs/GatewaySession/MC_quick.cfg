\* 2 sessions x 3 SENDs, one shard, capacity 2, batches <= 2: 115,233 generated / 38,652 distinct states, depth 29 (about 25 s idle, 95 s at load 60).
SPECIFICATION Spec
CONSTANTS
  Sessions = {"s1", "s2"}
  MaxSends = 3
  Issuers = {"p"}
  MaxPush = 0
  Caps = {2}
  ShardCaps = {2}
  BatchMaxes = {2}
  Modes = {"shared"}
VIEW View
INVARIANTS TypeOK QueuedWithinShardCap
PROPERTIES C28_AckOrder C28_ExactlyOne C28_OutboundOrder C28_OutboundComplete C28_DrainFence C28_DrainCompletes
CHECK_DEADLOCK FALSE

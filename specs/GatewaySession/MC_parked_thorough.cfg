\* 367,310 generated / 118,984 distinct states, depth 35 (3 min with 4 workers at load 70).
\* Fine-grained admission (see MC_parked.cfg), thorough tier: 2 sessions x 3 SENDs, one shard, capacity 2, batches <= 2.
SPECIFICATION Spec
CONSTANTS
  Sessions = {"s1", "s2"}
  MaxSends = 3
  Issuers = {"p"}
  MaxPush = 0
  Caps = {2}
  ShardCaps = {2}
  BatchMaxes = {2}
  Modes = {"shared"}
  Admission = "parked"
VIEW View
INVARIANTS TypeOK QueuedWithinShardCap
PROPERTIES C28_AckOrder C28_ExactlyOne C28_OutboundOrder C28_OutboundComplete C28_DrainFence C28_DrainCompletes
CHECK_DEADLOCK FALSE

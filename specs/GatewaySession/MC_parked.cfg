\* 59,895 generated / 19,903 distinct states, depth 25 (about 50 s with 6 workers at load 50).
\* Fine-grained admission of the code as written (submit = [closed check + admitted.Add] , [reserve + enqueue],
\* the session may be closed and the drain may start in between): 2 sessions x 2 SENDs, one shard, capacity 2, batches <= 2.
SPECIFICATION Spec
CONSTANTS
  Sessions = {"s1", "s2"}
  MaxSends = 2
  Issuers = {"p"}
  MaxPush = 0
  Caps = {2}
  ShardCaps = {2}
  BatchMaxes = {2}
  Modes = {"shared"}
  Admission = "parked"
VIEW View
INVARIANTS TypeOK QueuedWithinShardCap
PROPERTIES C28_AckOrder C28_ExactlyOne C28_OutboundOrder C28_OutboundComplete C28_DrainFence C28_DrainCompletes
CHECK_DEADLOCK FALSE

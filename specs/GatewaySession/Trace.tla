-------------------------------- MODULE Trace --------------------------------
(* Trace validation for property C28 (code -> spec).

   The harnesses run the real gateway core Server (fake transport, several sessions fed from
   their own goroutines, a pusher goroutine, handler calls on the server's workers, DrainSends
   and closes at arbitrary points) and record, under one lock and therefore in one total order:

     Recv(s, n)            taken before the bytes of SEND frames up to client sequence n are
                           handed to the session (one feeder per session, sequences 1, 2, ...)
     RecvDone(s, n, r)     the feed returned; r = "ok" if the connection is still open
     HStart(items)         the handler was entered with this batch of SENDs ([s, n] each)
     HEnd(items, err)      the handler is about to return
     Write(s, k, i, n)     taken inside the connection's Write: k = "ack" (SENDACK for client
                           sequence n) or "push" (the n-th other frame of issuer i)
     Issue / IssueDone     around Session.WriteFrame for the other frames
     Close(s)              the connection was closed: taken inside the connection's Close when
                           the server closes it, and BEFORE the server is told when the peer
                           closes it (from then on the connection refuses writes).  The server's
                           close of a session is a sequence that ends with the connection's
                           Close; inbound data is already dropped during it, so a peer's close
                           stamped at its end would let the harness count SENDs as accepted
                           (feed returned, connection open) that the server never looked at.
     DrainStarted          a DrainSends call has returned (admission is certainly closed)
     DrainDone             a DrainSends call with a live context has returned nil
     Quiesce               nothing is running any more (all goroutines joined, drain done)

   Admission, batching and the writer's reorder buffer are internal and are not in the log.
   The trace spec advances the HISTORY st.h of GatewaySession with the same H<Event> operators
   the specification uses, leaves the internal fields untouched, and evaluates every C28
   formula at every step.  The projection HistProj is recomputed by the harness from its own
   counters and compared in Conform, so that every logged value is bound. *)
EXTENDS GatewaySession, Json
VARIABLE l

Log == ndJsonDeserialize("trace.ndjson")

TraceInit == Init /\ l = 1

Upd(hh, e) == st' = [st EXCEPT !.h = hh] /\ ev' = e /\ UNCHANGED cfg

LogStep(e) ==
  CASE e.a = "Init"         -> st' = S0 /\ ev' = e /\ UNCHANGED cfg
    [] e.a = "Recv"         -> Upd(HRecv(st.h, e.s, e.n), e)
    [] e.a = "RecvDone"     -> Upd(HRecvDone(st.h, e.s, e.n, e.res.r), e)
    [] e.a = "Close"        -> Upd(HClose(st.h, e.s), e)
    [] e.a = "HStart"       -> Upd(HStart(st.h, e.items), e)
    [] e.a = "HEnd"         -> Upd(HEnd(st.h, e.items), e)
    [] e.a = "Write"        -> IF e.k = "ack" THEN Upd(HWriteAck(st.h, e.s), e)
                               ELSE Upd(HWritePush(st.h, e.s, [i |-> e.i, n |-> e.n]), e)
    [] e.a = "Issue"        -> Upd(HIssue(st.h, e.s, [i |-> e.i, n |-> e.n]), e)
    [] e.a = "IssueDone"    -> Upd(HIssueDone(st.h, e.s, [i |-> e.i, n |-> e.n], e.ok), e)
    [] e.a = "DrainStarted" -> Upd(HDrainStarted(st.h), e)
    [] e.a = "DrainDone"    -> Upd(HDrainDone(st.h), e)
    [] e.a = "Quiesce"      -> Upd(st.h, e)

TraceNext == l <= Len(Log) /\ l' = l + 1 /\ LogStep(Log[l].ev)

TraceSpec == TraceInit /\ [][TraceNext]_<<vars, l>>

Conform == l > 1 /\ Log[l - 1].ev.a # "Init" => HistProj(st.h) = Log[l - 1].st

HW       == TLCSet(1, IF l > TLCGet(1) THEN l ELSE TLCGet(1))
Track    == HW
Accepted == TLCGet(1) = Len(Log) + 1
ASSUME TLCSet(1, 0)
===============================================================================

--------------------------- MODULE GatewaySession ---------------------------
(* Client sessions of the gateway: SEND admission, batched dispatch, SENDACK writing,
   outbound ordering, send draining and session close.

     pkg/gateway/core/server.go        onData -> dispatchSendFrameAsync, DrainSends, sessionState.close
     pkg/gateway/core/async_send.go    sendExecutor.submit / handleMailboxBatch / drain
     pkg/workqueue/sharded_mailbox.go  one FIFO per shard, one draining worker per shard at a time
     pkg/gateway/session/session.go    WriteFrame under writeMu
     internal/access/gateway/batch.go  OnSendBatch: results arrive in any order, SENDACKs are
                                       flushed per session from the head of the batch

   The state `st` is one record; every step is  Can<X>(st, ..) /\ st' = Do<X>(st, ..)  so that
   Sim.tla can compose steps.  `st.h` is the HISTORY: exactly what a harness can observe at the
   gateway's boundary (frames fed in, handler calls, frames reaching the connection's Write,
   Close of the connection, return of DrainSends).  The H<Event> operators are the only way the
   history changes; Trace.tla applies the same operators to the events recorded from the real
   code, and every C28 formula below speaks about `st.h` and the event `ev` only.

   SEND frames of a session carry the client sequence 1, 2, 3, ... in the order they are fed. *)
EXTENDS Integers, Sequences, FiniteSets, FiniteSetsExt, TLC

CONSTANTS
  Sessions,    \* session names (strings)
  MaxSends,    \* SEND frames per session
  Issuers,     \* threads that issue other outbound frames ("p" = push, "q" = reply on the read path)
  MaxPush,     \* such frames per session and issuer
  Caps,        \* global queue capacities tried        (RuntimeOptions.AsyncSendQueueCapacity)
  ShardCaps,   \* per-shard queue capacities tried
  BatchMaxes,  \* batch limits tried                    (SessionOptions.AsyncSendBatchMaxRecords)
  Modes,       \* subset of {"shared", "separate"}: all sessions on one shard / one shard each
  Admission    \* granularity of sendExecutor.submit (see "fine-grained admission" below):
               \*   "atomic"  the feed of one SEND is one step (closed check, registration, enqueue)
               \*   "parked"  the code as written, two steps: [closed check + admitted.Add(1)] under
               \*             admissionMu, later [capacity reservation + enqueue]
               \*   "split"   a DEFECT VARIANT kept for reference (MC_split.cfg): the closed check
               \*             alone, later [admitted.Add(1) + enqueue]; DrainStart may fall in between

VARIABLES cfg, st, ev
vars == <<cfg, st, ev>>
View == <<cfg, st>>

Shards == Sessions \cup {"all"}
Sh(s)  == IF cfg.mode = "shared" THEN "all" ELSE s
Frame  == [i : Issuers, n : 1..MaxPush]
Min2(a, b) == IF a < b THEN a ELSE b

-------------------------------------------------------------------------------
\* History (observable at the boundary) and its updates, one per recorded event.
H0 == [nrecv  |-> [s \in Sessions |-> 0],      \* SEND frames fed to the session (call started)
       nacc   |-> [s \in Sessions |-> 0],      \* ... accepted: the feed returned and the session was still open
       nack   |-> [s \in Sessions |-> 0],      \* SENDACK frames written to the connection
       nwr    |-> [s \in Sessions |-> 0],      \* all frames written to the connection
       closed |-> [s \in Sessions |-> FALSE],  \* the connection was closed
       ndisp  |-> 0,                           \* SEND frames handed to the handler so far
       active |-> {},                          \* handler calls in progress (each the sequence of its items)
       drain  |-> "no",                        \* "no" | "started" (a DrainSends call returned) | "done"
       fence  |-> [s \in Sessions |-> 0],      \* nrecv when draining started
       pend   |-> [s \in Sessions |-> {}],     \* other frames issued and not yet written
       pdone  |-> [s \in Sessions |-> {}],     \* ... whose WriteFrame call already returned nil
       ord    |-> [s \in Sessions |-> {}]]     \* <<g, f>>: the call for g had returned before f was issued

HRecv(h, s, n)        == [h EXCEPT !.nrecv[s] = n]
HRecvDone(h, s, n, r) == IF r = "ok" THEN [h EXCEPT !.nacc[s] = n] ELSE h
HClose(h, s)          == [h EXCEPT !.closed[s] = TRUE]
HStart(h, items)      == [h EXCEPT !.active = @ \cup {items}, !.ndisp = @ + Len(items)]
HEnd(h, items)        == [h EXCEPT !.active = @ \ {items}]
HWriteAck(h, s)       == [h EXCEPT !.nack[s] = @ + 1, !.nwr[s] = @ + 1]
HIssue(h, s, f)       == [h EXCEPT !.pend[s] = @ \cup {f},
                                   !.ord[s] = @ \cup {<<g, f>> : g \in h.pdone[s] \cap h.pend[s]}]
HWritePush(h, s, f)   == [h EXCEPT !.pend[s] = @ \ {f}, !.pdone[s] = @ \ {f}, !.nwr[s] = @ + 1,
                                   !.ord[s] = {p \in @ : p[1] # f /\ p[2] # f}]
HIssueDone(h, s, f, ok) ==
  IF ok THEN [h EXCEPT !.pdone[s] = IF f \in h.pend[s] THEN @ \cup {f} ELSE @]
        ELSE [h EXCEPT !.pend[s] = @ \ {f}, !.pdone[s] = @ \ {f},
                       !.ord[s] = {p \in @ : p[1] # f /\ p[2] # f}]
HDrainStarted(h)      == [h EXCEPT !.drain = "started", !.fence = h.nrecv]
HDrainDone(h)         == [h EXCEPT !.drain = "done"]

\* JSON-shaped projection of the history (recomputed by the harnesses from their own log).
HistProj(h) ==
  LET Sum(f) == FoldSet(LAMBDA s, acc : acc + f[s], 0, Sessions) IN
  [recv |-> Sum(h.nrecv), acc |-> Sum(h.nacc), ack |-> Sum(h.nack), wr |-> Sum(h.nwr),
   disp |-> h.ndisp, closed |-> Cardinality({s \in Sessions : h.closed[s]}),
   act |-> Cardinality(h.active)]

-------------------------------------------------------------------------------
S0 == [queue    |-> [x \in Shards |-> <<>>],      \* admitted, not yet entering dispatch (FIFO per shard)
       disp     |-> [x \in Shards |-> <<>>],      \* the batch inside the handler
       ready    |-> [x \in Shards |-> {}],        \* batch positions whose result was produced
       flushed  |-> [x \in Shards |-> {}],        \* batch positions whose SENDACK was written
       doomed   |-> [x \in Shards |-> {}],        \* sessions the worker closes after a failed handler call
       adm      |-> [s \in Sessions |-> "idle"],   \* a feed inside submit: idle | checked | registered
       draining |-> FALSE,                        \* sendExecutor.closed
       drained  |-> FALSE,
       pst      |-> [s \in Sessions |-> [i \in Issuers |-> "idle"]],  \* idle | issued | written
       pn       |-> [s \in Sessions |-> [i \in Issuers |-> 0]],
       h        |-> H0]

Init ==
  /\ cfg \in {c \in [cap : Caps, scap : ShardCaps, bmax : BatchMaxes, mode : Modes] : c.scap <= c.cap}
  /\ st = S0
  /\ ev = [a |-> "Init", cfg |-> cfg, adm |-> Admission]

Queued(t) == FoldSet(LAMBDA x, acc : acc + Len(t.queue[x]), 0, Shards)
Full(t, s) == Queued(t) >= cfg.cap \/ Len(t.queue[Sh(s)]) >= cfg.scap

\* --- inbound: one SEND frame fed to the session (Server.onData -> dispatchSendFrameAsync).
\* Admission = "atomic": sendExecutor.submit taken as one step (admission fence, capacity
\* reservation, enqueue); a harness sees its start (Recv) and its return (RecvDone) as two
\* events, hence two history updates.  The two-step view of submit follows below.
CanFeed(t, s)  == ~t.h.closed[s] /\ t.h.nrecv[s] < MaxSends /\ t.adm[s] = "idle"
CanAdmit(t, s) == CanFeed(t, s) /\ ~t.draining /\ ~Full(t, s)
DoAdmit(t, s)  ==
  LET n == t.h.nrecv[s] + 1 IN
  [t EXCEPT !.queue[Sh(s)] = Append(@, [s |-> s, n |-> n]),
            !.h = HRecvDone(HRecv(@, s, n), s, n, "ok")]

\* submit refused (admission closed or queue full): the gateway closes the session
CanReject(t, s) == CanFeed(t, s) /\ (t.draining \/ (Admission = "atomic" /\ Full(t, s)))
DoReject(t, s)  ==
  LET n == t.h.nrecv[s] + 1 IN
  [t EXCEPT !.h = HRecvDone(HClose(HRecv(@, s, n), s), s, n, "closed")]

\* --- fine-grained admission (Admission # "atomic").  submit is two critical sections with
\* code of the session object in between (asyncSendShardIndex reads Session.ID()):
\*   FeedBegin  admissionMu { closed? ; admitted.Add(1) }      -> adm = "registered"
\*   FeedEnd    reserve capacity, enqueue (or refuse: queue full; the registration is given back)
\* A registered SEND is owned by the drain: DrainSends does not return before it completed.
\* In the defect variant "split" FeedBegin is the closed check alone (adm = "checked") and the
\* registration happens in FeedEnd, so a drain that starts in between does not wait for it.
\* The session may be closed from outside while its feed is inside submit: the SEND is still
\* enqueued (submit does not look at the session), it is just not "accepted" (RecvDone = closed).
CanFeedBegin(t, s) == CanFeed(t, s) /\ ~t.draining
DoFeedBegin(t, s)  == [t EXCEPT !.adm[s] = IF Admission = "split" THEN "checked" ELSE "registered",
                                !.h = HRecv(@, s, t.h.nrecv[s] + 1)]
CanFeedEnd(t, s)   == t.adm[s] # "idle"
DoFeedEnd(t, s)    ==
  LET n == t.h.nrecv[s] IN
  IF Full(t, s)
    THEN [t EXCEPT !.adm[s] = "idle", !.h = HRecvDone(HClose(@, s), s, n, "closed")]
    ELSE [t EXCEPT !.adm[s] = "idle", !.queue[Sh(s)] = Append(@, [s |-> s, n |-> n]),
                   !.h = HRecvDone(@, s, n, IF t.h.closed[s] THEN "closed" ELSE "ok")]
FeedEndRes(t, s)   == IF Full(t, s) \/ t.h.closed[s] THEN "closed" ELSE "ok"

\* --- dispatch: the shard's worker takes the next batch and calls the handler ---
CanDispatch(t, x, k) == /\ t.disp[x] = <<>> /\ t.doomed[x] = {}
                        /\ k \in 1..Min2(Len(t.queue[x]), cfg.bmax)
DoDispatch(t, x, k)  ==
  LET b == SubSeq(t.queue[x], 1, k) IN
  [t EXCEPT !.queue[x] = SubSeq(@, k + 1, Len(@)), !.disp[x] = b,
            !.ready[x] = {}, !.flushed[x] = {}, !.h = HStart(@, b)]

\* --- the handler (SENDACK writer): results in any order, acknowledgements from the head ---
IsHead(t, x, i)  == \A j \in 1..(i - 1) : t.disp[x][j].s = t.disp[x][i].s => j \in t.flushed[x]
FlushSet(t, x)   == {i \in t.ready[x] \ t.flushed[x] : IsHead(t, x, i)}
AllPos(t, x)     == 1..Len(t.disp[x])

CanComplete(t, x, i) == i \in AllPos(t, x) \ t.ready[x] /\ FlushSet(t, x) = {}
DoComplete(t, x, i)  == [t EXCEPT !.ready[x] = @ \cup {i}]

CanWriteAck(t, x, i) == i \in FlushSet(t, x) /\ ~t.h.closed[t.disp[x][i].s]
DoWriteAck(t, x, i)  == [t EXCEPT !.flushed[x] = @ \cup {i}, !.h = HWriteAck(@, t.disp[x][i].s)]

CanHandlerDone(t, x) == t.disp[x] # <<>> /\ t.flushed[x] = AllPos(t, x)
DoHandlerDone(t, x)  == [t EXCEPT !.disp[x] = <<>>, !.ready[x] = {}, !.flushed[x] = {},
                                  !.h = HEnd(@, t.disp[x])]

\* the handler returns an error (a result could not be produced, or a write failed because the
\* session is closed): core closes every session that has an item in the batch
CanHandlerFail(t, x) == t.disp[x] # <<>> /\ t.flushed[x] # AllPos(t, x)
DoHandlerFail(t, x)  == [t EXCEPT !.disp[x] = <<>>, !.ready[x] = {}, !.flushed[x] = {},
                                  !.doomed[x] = {t.disp[x][j].s : j \in AllPos(t, x)},
                                  !.h = HEnd(@, t.disp[x])]
CanCloseDoomed(t, x, s) == s \in t.doomed[x]
DoCloseDoomed(t, x, s)  == [t EXCEPT !.doomed[x] = @ \ {s}, !.h = HClose(@, s)]

\* --- close from outside (peer closed, server policy, idle timeout ...) ---
CanClose(t, s) == ~t.h.closed[s]
DoClose(t, s)  == [t EXCEPT !.h = HClose(@, s)]

\* --- other outbound frames: Session.WriteFrame = check closed, lock, write, unlock ---
Fr(t, s, i) == [i |-> i, n |-> t.pn[s][i] + 1]
CanIssue(t, s, i)     == t.pst[s][i] = "idle" /\ t.pn[s][i] < MaxPush
DoIssue(t, s, i)      == [t EXCEPT !.pst[s][i] = "issued", !.h = HIssue(@, s, Fr(t, s, i))]
CanPushWrite(t, s, i) == t.pst[s][i] = "issued" /\ ~t.h.closed[s]
DoPushWrite(t, s, i)  == [t EXCEPT !.pst[s][i] = "written", !.h = HWritePush(@, s, Fr(t, s, i))]
CanIssueDone(t, s, i) == t.pst[s][i] = "written" \/ (t.pst[s][i] = "issued" /\ t.h.closed[s])
DoIssueDone(t, s, i)  == [t EXCEPT !.pst[s][i] = "idle", !.pn[s][i] = @ + 1,
                                   !.h = HIssueDone(@, s, Fr(t, s, i), t.pst[s][i] = "written")]

\* --- send draining (Server.DrainSends) ---
CanDrainStart(t) == ~t.draining
DoDrainStart(t)  == [t EXCEPT !.draining = TRUE, !.h = HDrainStarted(@)]
DrainIdle(t)     == /\ \A x \in Shards : t.queue[x] = <<>> /\ t.disp[x] = <<>> /\ t.doomed[x] = {}
                    /\ \A s \in Sessions : t.adm[s] # "registered"
CanDrainDone(t)  == t.draining /\ ~t.drained /\ DrainIdle(t)
DoDrainDone(t)   == [t EXCEPT !.drained = TRUE, !.h = HDrainDone(@)]

Quiescent(t) == /\ DrainIdle(t)
                /\ \A s \in Sessions : t.adm[s] = "idle" /\ \A i \in Issuers : t.pst[s][i] = "idle"

-------------------------------------------------------------------------------
\* Actions.  `ev` is the event a harness records for the step.  Next is a flat disjunction of
\* named actions (TLC reports coverage per disjunct).
Admit ==
  /\ Admission = "atomic"
  /\ \E s \in Sessions : CanAdmit(st, s) /\ st' = DoAdmit(st, s)
       /\ ev' = [a |-> "RecvDone", s |-> s, n |-> st.h.nrecv[s] + 1, res |-> [r |-> "ok"]]
  /\ UNCHANGED cfg
Reject ==
  /\ \E s \in Sessions : CanReject(st, s) /\ st' = DoReject(st, s)
       /\ ev' = [a |-> "RecvDone", s |-> s, n |-> st.h.nrecv[s] + 1, res |-> [r |-> "closed"]]
  /\ UNCHANGED cfg
FeedBegin ==
  /\ Admission # "atomic"
  /\ \E s \in Sessions : CanFeedBegin(st, s) /\ st' = DoFeedBegin(st, s)
       /\ ev' = [a |-> "Recv", s |-> s, n |-> st.h.nrecv[s] + 1]
  /\ UNCHANGED cfg
FeedEnd ==
  /\ \E s \in Sessions : CanFeedEnd(st, s) /\ st' = DoFeedEnd(st, s)
       /\ ev' = [a |-> "RecvDone", s |-> s, n |-> st.h.nrecv[s], res |-> [r |-> FeedEndRes(st, s)]]
  /\ UNCHANGED cfg
DispatchBatch ==
  /\ \E x \in Shards : \E k \in 1..MaxSends * Cardinality(Sessions) :
       CanDispatch(st, x, k) /\ st' = DoDispatch(st, x, k)
       /\ ev' = [a |-> "HStart", items |-> SubSeq(st.queue[x], 1, k)]
  /\ UNCHANGED cfg
Complete ==
  /\ \E x \in Shards : \E i \in AllPos(st, x) : CanComplete(st, x, i) /\ st' = DoComplete(st, x, i)
       /\ ev' = [a |-> "Complete", i |-> i]
  /\ UNCHANGED cfg
WriteAck ==
  /\ \E x \in Shards : \E i \in AllPos(st, x) : CanWriteAck(st, x, i) /\ st' = DoWriteAck(st, x, i)
       /\ ev' = [a |-> "Write", s |-> st.disp[x][i].s, k |-> "ack", i |-> "", n |-> st.disp[x][i].n]
  /\ UNCHANGED cfg
HandlerDone ==
  /\ \E x \in Shards : CanHandlerDone(st, x) /\ st' = DoHandlerDone(st, x)
       /\ ev' = [a |-> "HEnd", items |-> st.disp[x], err |-> FALSE]
  /\ UNCHANGED cfg
HandlerFail ==
  /\ \E x \in Shards : CanHandlerFail(st, x) /\ st' = DoHandlerFail(st, x)
       /\ ev' = [a |-> "HEnd", items |-> st.disp[x], err |-> TRUE]
  /\ UNCHANGED cfg
CloseDoomed ==
  /\ \E x \in Shards : \E s \in Sessions : CanCloseDoomed(st, x, s) /\ st' = DoCloseDoomed(st, x, s)
       /\ ev' = [a |-> "Close", s |-> s]
  /\ UNCHANGED cfg
CloseSession ==
  /\ \E s \in Sessions : CanClose(st, s) /\ st' = DoClose(st, s) /\ ev' = [a |-> "Close", s |-> s]
  /\ UNCHANGED cfg
IssueFrame ==
  /\ \E s \in Sessions, i \in Issuers : CanIssue(st, s, i) /\ st' = DoIssue(st, s, i)
       /\ ev' = [a |-> "Issue", s |-> s, i |-> i, n |-> st.pn[s][i] + 1]
  /\ UNCHANGED cfg
WriteFrame ==
  /\ \E s \in Sessions, i \in Issuers : CanPushWrite(st, s, i) /\ st' = DoPushWrite(st, s, i)
       /\ ev' = [a |-> "Write", s |-> s, k |-> "push", i |-> i, n |-> st.pn[s][i] + 1]
  /\ UNCHANGED cfg
IssueDone ==
  /\ \E s \in Sessions, i \in Issuers : CanIssueDone(st, s, i) /\ st' = DoIssueDone(st, s, i)
       /\ ev' = [a |-> "IssueDone", s |-> s, i |-> i, n |-> st.pn[s][i] + 1,
                 ok |-> st.pst[s][i] = "written"]
  /\ UNCHANGED cfg
DrainStart ==
  CanDrainStart(st) /\ st' = DoDrainStart(st) /\ ev' = [a |-> "DrainStarted"] /\ UNCHANGED cfg
DrainWaitDone ==
  CanDrainDone(st) /\ st' = DoDrainDone(st) /\ ev' = [a |-> "DrainDone"] /\ UNCHANGED cfg
\* an observation, not a step of the code: nothing is in progress anywhere
Quiesce ==
  Quiescent(st) /\ ev.a # "Quiesce" /\ st' = st /\ ev' = [a |-> "Quiesce"] /\ UNCHANGED cfg

Next == \/ Admit \/ Reject \/ FeedBegin \/ FeedEnd \/ DispatchBatch \/ Complete \/ WriteAck \/ HandlerDone \/ HandlerFail
        \/ CloseDoomed \/ CloseSession \/ IssueFrame \/ WriteFrame \/ IssueDone
        \/ DrainStart \/ DrainWaitDone \/ Quiesce

Spec == Init /\ [][Next]_vars

-------------------------------------------------------------------------------
\* Property C28.  All formulas read the history before the step (st.h) and the event (ev').
Open(s) == ~st.h.closed[s]

\* SENDACKs are written in the order of their SENDs, none twice, none skipped, none invented:
\* the k-th SENDACK a connection sees answers the k-th SEND fed to it.
C28_AckOrder ==
  [][ev'.a = "Write" /\ ev'.k = "ack" =>
       /\ ev'.n = st.h.nack[ev'.s] + 1
       /\ ev'.n <= st.h.nrecv[ev'.s]]_vars

\* Each accepted SEND received its SENDACK unless the session closed first (evaluated whenever
\* nothing is in progress: no feed, no queued or dispatched SEND, no pending close).
C28_ExactlyOne ==
  [][ev'.a = "Quiesce" => \A s \in Sessions : Open(s) => st.h.nack[s] = st.h.nacc[s]]_vars

\* Outbound frames are written in the order they were issued: a frame is written once, only
\* after it was issued, and never before a frame whose issuing call had already returned when
\* it was issued; an issued frame of a session that stays open is eventually written.
C28_OutboundOrder ==
  [][ev'.a = "Write" /\ ev'.k = "push" =>
       LET f == [i |-> ev'.i, n |-> ev'.n]  s == ev'.s IN
       /\ f \in st.h.pend[s]
       /\ ~\E g \in st.h.pend[s] : <<g, f>> \in st.h.ord[s]]_vars
C28_OutboundComplete ==
  [][ev'.a = "Quiesce" => \A s \in Sessions : Open(s) => st.h.pend[s] = {}]_vars

\* After draining started no SEND fed afterwards is dispatched, and once a DrainSends call has
\* reported completion (returned nil) no SEND is dispatched at all: a SEND dispatched then is
\* either new or was admitted earlier and had not completed when the drain said it had.
C28_DrainFence ==
  [][ev'.a = "HStart" /\ st.h.drain # "no" =>
       /\ st.h.drain # "done"
       /\ \A k \in 1..Len(ev'.items) : ev'.items[k].n <= st.h.fence[ev'.items[k].s]]_vars
\* ... while the SENDs accepted before complete: when the drain wait returns no handler call is
\* running and every accepted SEND of an open session has its SENDACK.
C28_DrainCompletes ==
  [][ev'.a = "DrainDone" =>
       /\ st.h.active = {}
       /\ \A s \in Sessions : Open(s) => st.h.nack[s] >= st.h.nacc[s]]_vars

\* State invariants of the model (design level).
TypeOK ==
  /\ \A s \in Sessions : /\ st.h.nack[s] <= st.h.nrecv[s] /\ st.h.nacc[s] <= st.h.nrecv[s]
                         /\ st.h.pdone[s] \subseteq st.h.pend[s]
  /\ \A x \in Shards : st.flushed[x] \subseteq st.ready[x] /\ st.ready[x] \subseteq AllPos(st, x)
  /\ Queued(st) <= cfg.cap
  /\ Admission = "atomic" => \A s \in Sessions : st.adm[s] = "idle"
QueuedWithinShardCap == \A x \in Shards : Len(st.queue[x]) <= cfg.scap
===============================================================================

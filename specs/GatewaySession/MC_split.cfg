\* DEFECT VARIANT, not part of the check (TLC is expected to report a violation of C28_DrainFence):
\* the closed check and admitted.Add(1) are two steps and DrainStart may fall in between.  The
\* counterexample (FeedBegin(s1), DrainStart, DrainWaitDone, FeedEnd(s1), DispatchBatch) is the
\* schedule the aimed disjunct of Sim.tla (SimRace.cfg) reproduces on the real code.
SPECIFICATION Spec
CONSTANTS
  Sessions = {"s1", "s2"}
  MaxSends = 2
  Issuers = {"p"}
  MaxPush = 0
  Caps = {2}
  ShardCaps = {2}
  BatchMaxes = {2}
  Modes = {"shared"}
  Admission = "split"
VIEW View
INVARIANTS TypeOK QueuedWithinShardCap
PROPERTIES C28_AckOrder C28_ExactlyOne C28_OutboundOrder C28_OutboundComplete C28_DrainFence C28_DrainCompletes
CHECK_DEADLOCK FALSE

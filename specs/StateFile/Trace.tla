-------------------------------- MODULE Trace --------------------------------
(* Method D: the system calls that strace OBSERVED the real Store.Save to issue on the
   state-file paths (NDJSON written by the harness, one call per line, in the observed
   order, "Begin v" / "Return v" marking the start and the return of the Save of version
   v) are replayed on the file-system crash model of StateFile, and between any two calls
   TLC also takes a KillCrash or a PowerLoss.  C19_OldOrNew is therefore checked in every
   crash state reachable along the observed order (this is what sees a missing fsync, a
   rename before the fsync, a missing directory fsync or a write into the final path).
   Crash states are leaves; the trace is accepted when the crash-free path consumes every
   line and no invariant failed anywhere. *)
EXTENDS StateFile, Json
VARIABLE l

Log == ndJsonDeserialize("trace.ndjson")

TraceInit == Init /\ l = 1

Reset0 ==
  /\ cdir' = [x \in Names |-> IF x = "main" THEN 1 ELSE 0]
  /\ ddir' = cdir'
  /\ pend' = <<>>
  /\ cdat' = [i \in Inodes |-> IF i = 1 THEN Full(0, 1) ELSE Empty]
  /\ ddat' = cdat'
  /\ nino' = 2 /\ ntmp' = 0
  /\ fd' = NoFd /\ pc' = "idle" /\ wn' = 0
  /\ lo' = 0 /\ hi' = 0 /\ saves' = 0 /\ crashes' = 0
  /\ mode' = "run"
  /\ ev' = [a |-> "Init"]

Book == <<ntmp, wn, saves, crashes, mode>>
OkRes == [ok |-> TRUE]

\* One observed call.  `pc` is "busy" between Begin and Return.
Step(e) ==
  CASE e.a = "Init" -> Reset0
    [] e.a = "Begin" ->
         /\ hi' = e.v /\ pc' = "busy"
         /\ UNCHANGED <<cdir, ddir, pend, cdat, ddat, nino, fd, lo>> /\ UNCHANGED Book
         /\ ev' = [a |-> "Begin", res |-> [ok |-> (e.v = lo + 1)]]
    [] e.a = "Return" ->
         /\ lo' = hi /\ pc' = "idle"
         /\ UNCHANGED <<cdir, ddir, pend, cdat, ddat, nino, fd, hi>> /\ UNCHANGED Book
         /\ ev' = [a |-> "Return", res |-> [ok |-> (e.v = hi)]]
    [] e.a = "Create" ->
         /\ FSCreate(e.h, e.name)
         /\ UNCHANGED <<pc, lo, hi>> /\ UNCHANGED Book
         /\ ev' = [a |-> "Create", res |-> OkRes]
    [] e.a = "OpenTrunc" ->
         /\ FSOpenTrunc(e.h, e.name)
         /\ UNCHANGED <<pc, lo, hi>> /\ UNCHANGED Book
         /\ ev' = [a |-> "OpenTrunc", res |-> OkRes]
    [] e.a = "Write" ->
         /\ FSWrite(e.h, hi, e.n)
         /\ UNCHANGED <<pc, lo, hi>> /\ UNCHANGED Book
         /\ ev' = [a |-> "Write", res |-> [ok |-> TRUE, done |-> (cdat'[fd[e.h]].k = e.n)]]
    [] e.a = "Fsync" ->
         /\ FSFsync(e.h)
         /\ UNCHANGED <<pc, lo, hi>> /\ UNCHANGED Book
         /\ ev' = [a |-> "Fsync", res |-> OkRes]
    [] e.a = "Close" ->
         /\ FSClose(e.h)
         /\ UNCHANGED <<pc, lo, hi>> /\ UNCHANGED Book
         /\ ev' = [a |-> "Close", res |-> OkRes]
    [] e.a = "Rename" ->
         /\ FSRename(e.from, e.to)
         /\ UNCHANGED <<pc, lo, hi>> /\ UNCHANGED Book
         /\ ev' = [a |-> "Rename", res |-> OkRes]
    [] e.a = "Unlink" ->
         /\ FSUnlink(e.name)
         /\ UNCHANGED <<pc, lo, hi>> /\ UNCHANGED Book
         /\ ev' = [a |-> "Unlink", res |-> OkRes]
    [] e.a = "FsyncDir" ->
         /\ FSFsyncDir
         /\ UNCHANGED <<pc, lo, hi>> /\ UNCHANGED Book
         /\ ev' = [a |-> "FsyncDir", res |-> OkRes]

TraceNext ==
  \/ mode = "run" /\ l <= Len(Log) /\ l' = l + 1 /\ Step(Log[l].ev)
  \/ l > 1 /\ l <= Len(Log) + 1 /\ KillCrash /\ UNCHANGED l
  \/ l > 1 /\ l <= Len(Log) + 1 /\ PowerLoss /\ UNCHANGED l

TraceSpec == TraceInit /\ [][TraceNext]_<<vars, l>>

\* The logged reply of the consumed call must be the specification's.
Conform ==
  (mode = "run" /\ l > 1 /\ Log[l - 1].ev.a # "Init") =>
    /\ ev.res = Log[l - 1].ev.res
    /\ Log[l - 1].st.seq = l - 1

HW       == TLCSet(1, IF l > TLCGet(1) THEN l ELSE TLCGet(1))
Track    == HW
Accepted == TLCGet(1) = Len(Log) + 1
ASSUME TLCSet(1, 0)
===============================================================================

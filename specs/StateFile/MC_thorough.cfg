\* measured: 16,172 distinct states, 21,756 generated, < 30 s; every action non-zero under -coverage 1
SPECIFICATION Spec
CONSTANTS
  MaxSaves = 3
  Chunks = {1, 2, 3}
  MaxCrashes = 2
VIEW View
INVARIANTS TypeOK C19_OldOrNew C19_RunningOldOrNew C19_ReturnedIsDurable
PROPERTIES C19_CorruptRejected
CHECK_DEADLOCK FALSE

------------------------------ MODULE StateFile ------------------------------
(* Atomic replacement of the Controller cluster-state file
   (pkg/controller/statefile/store.go: Store.Save / Store.Load, state.Decode).

   A small file-system crash model.  The process sees the page cache (`cdir`, `cdat`);
   the disk holds what is durable (`ddir`, `ddat`).  Directory operations (create, rename,
   unlink) reach the disk at a directory fsync, file data at a file fsync; anything else is
   "in flight" and may or may not have reached the disk when the power fails:

     KillCrash   the process dies, the page cache survives: the next Load sees the cache;
     PowerLoss   the cache is lost: the directory is the durable one plus any PREFIX of the
                 in-flight directory operations (ordered metadata journal), and every file
                 holds either its durable content or any prefix of the content written
                 since (independently per file).

   File content is abstract: [v, k, n] = k of the n chunks of the encoding of state version
   v.  state.Decode accepts a content exactly when it is complete and untouched (checksum);
   everything else is rejected (Decode = Invalid).

   FS* actions are single system calls; the design (`Next`) issues them in the order
   Store.Save does: CreateTemp, Write x n, Fsync, Close, Rename, FsyncDir (= Save returns),
   twice in a row, with a crash possible before every call, a recovery (Load) after it and
   the next Save on top of whatever the crash left behind (stale temp files).  Trace.tla
   issues them in the order strace OBSERVED the real Save to issue them instead.

   Property C19: whenever a crash happens, the main file decodes to the last state whose
   Save returned (`lo`) or to the state being saved (`hi`); never to something older, never
   to an incomplete or corrupted file; and a corrupted file is rejected by Load. *)
EXTENDS Integers, Sequences, FiniteSets, TLC

CONSTANTS
  MaxSaves,    \* consecutive saves explored
  Chunks,      \* set of chunk counts a Save may split its write into
  MaxCrashes   \* crashes per behaviour

Names  == {"main", "t1", "t2", "t3", "t4"}        \* "tN": the temp name of the N-th CreateTemp
Inodes == 1..6
Invalid == -1
NoFile  == -2

VARIABLES
  cdir,    \* cache view of the directory: [Names -> inode or 0]
  ddir,    \* durable directory
  pend,    \* directory operations not yet durable, oldest first
  cdat,    \* cache content of every inode: [v, k, n, bad]
  ddat,    \* durable content of every inode
  nino,    \* next free inode
  ntmp,    \* temp names used so far
  fd,      \* open file handles: [Handles -> inode or 0]
  pc,      \* where Save is: "idle" | "created" | "written" | "synced" | "closed" | "renamed"
  wn,      \* chunk count of the running Save
  lo, hi,  \* version of the last returned Save / of the running Save (= lo when idle)
  saves,   \* Saves started
  crashes, \* crashes so far
  mode,    \* "run" | "crashed"
  ev       \* last step (observation only)

vars == <<cdir, ddir, pend, cdat, ddat, nino, ntmp, fd, pc, wn, lo, hi, saves, crashes, mode, ev>>

Empty == [v |-> 0, k |-> 0, n |-> 0, bad |-> FALSE]
Full(v, n) == [v |-> v, k |-> n, n |-> n, bad |-> FALSE]
Handles == {1, 2}
NoFd == [h \in Handles |-> 0]

\* state.Decode of a file content: the version, or Invalid.
DecodeC(c) == IF c.n > 0 /\ c.k = c.n /\ ~c.bad THEN c.v ELSE Invalid
\* Store.Load through a directory view and a content view.
LoadIn(dir, dat) == IF dir["main"] = 0 THEN NoFile ELSE DecodeC(dat[dir["main"]])
LoadNow == LoadIn(cdir, cdat)

\* one directory operation applied to a directory
ApplyOp(dir, op) ==
  CASE op.op = "create" -> [dir EXCEPT ![op.a] = op.ino]
    [] op.op = "rename" -> [dir EXCEPT ![op.b] = dir[op.a], ![op.a] = 0]
    [] op.op = "unlink" -> [dir EXCEPT ![op.a] = 0]
RECURSIVE ApplyOps(_, _, _)
ApplyOps(dir, ops, j) == IF j = 0 THEN dir ELSE ApplyOp(ApplyOps(dir, ops, j - 1), ops[j])

-------------------------------------------------------------------------------
\* System calls.

\* openat(O_CREAT|O_EXCL) of a new name
FSCreate(h, name) ==
  /\ cdir[name] = 0 /\ nino \in Inodes
  /\ cdir' = [cdir EXCEPT ![name] = nino]
  /\ cdat' = [cdat EXCEPT ![nino] = Empty]
  /\ ddat' = [ddat EXCEPT ![nino] = Empty]
  /\ pend' = Append(pend, [op |-> "create", a |-> name, b |-> "", ino |-> nino])
  /\ fd' = [fd EXCEPT ![h] = nino]
  /\ nino' = nino + 1
  /\ UNCHANGED ddir

\* openat(O_TRUNC) of an existing name: the content is cut in place (nothing durable changes yet)
FSOpenTrunc(h, name) ==
  /\ cdir[name] # 0
  /\ cdat' = [cdat EXCEPT ![cdir[name]] = Empty]
  /\ fd' = [fd EXCEPT ![h] = cdir[name]]
  /\ UNCHANGED <<cdir, ddir, pend, ddat, nino>>

\* write of the next chunk of version v (n chunks in all) to the open file
FSWrite(h, v, n) ==
  /\ fd[h] # 0
  /\ LET c == cdat[fd[h]] IN
     cdat' = [cdat EXCEPT ![fd[h]] = [v |-> v, k |-> IF c.v = v /\ c.n = n THEN c.k + 1 ELSE 1, n |-> n, bad |-> FALSE]]
  /\ UNCHANGED <<cdir, ddir, pend, ddat, nino, fd>>

\* fsync of the open file: its data is durable (its directory entry is not)
FSFsync(h) ==
  /\ fd[h] # 0
  /\ ddat' = [ddat EXCEPT ![fd[h]] = cdat[fd[h]]]
  /\ UNCHANGED <<cdir, ddir, pend, cdat, nino, fd>>

FSClose(h) ==
  /\ fd' = [fd EXCEPT ![h] = 0]
  /\ UNCHANGED <<cdir, ddir, pend, cdat, ddat, nino>>

FSRename(a, b) ==
  /\ cdir[a] # 0
  /\ cdir' = [cdir EXCEPT ![b] = cdir[a], ![a] = 0]
  /\ pend' = Append(pend, [op |-> "rename", a |-> a, b |-> b, ino |-> 0])
  /\ UNCHANGED <<ddir, cdat, ddat, nino, fd>>

FSUnlink(a) ==
  /\ cdir' = [cdir EXCEPT ![a] = 0]
  /\ pend' = Append(pend, [op |-> "unlink", a |-> a, b |-> "", ino |-> 0])
  /\ UNCHANGED <<ddir, cdat, ddat, nino, fd>>

\* fsync of the directory: every directory operation so far is durable
FSFsyncDir ==
  /\ ddir' = cdir
  /\ pend' = <<>>
  /\ UNCHANGED <<cdir, cdat, ddat, nino, fd>>

-------------------------------------------------------------------------------
\* Crashes.

\* what a file may hold after a power loss
\* (durable content, or the durable content extended by a prefix of what was appended since;
\* a file rewritten in place may also hold any prefix of the new content)
Survivors(i) ==
  LET c == cdat[i]  d == ddat[i] IN
  IF c = d THEN {d}
  ELSE IF c.v = d.v /\ c.n = d.n /\ c.bad = d.bad /\ d.k <= c.k
         THEN {[c EXCEPT !.k = j] : j \in d.k..c.k}
  ELSE {d} \cup {[c EXCEPT !.k = j] : j \in 0..c.k}

KillCrash ==
  /\ mode = "run" /\ crashes < MaxCrashes
  /\ mode' = "crashed" /\ crashes' = crashes + 1
  /\ fd' = NoFd
  /\ UNCHANGED <<cdir, ddir, pend, cdat, ddat, nino, ntmp, pc, wn, lo, hi, saves>>
  /\ ev' = [a |-> "KillCrash"]

\* Only the content of the file that `main` names afterwards is ever looked at again (Save
\* never reopens a temp file), so only that file's survivor is chosen; the others keep
\* their durable content.
PowerLoss ==
  /\ mode = "run" /\ crashes < MaxCrashes
  /\ \E j \in 0..Len(pend) :
       LET dir == ApplyOps(ddir, pend, j)
           m   == dir["main"]
       IN \E c \in (IF m = 0 THEN {Empty} ELSE Survivors(m)) :
            /\ cdir' = dir /\ ddir' = dir
            /\ cdat' = [i \in Inodes |-> IF i = m THEN c ELSE ddat[i]]
            /\ ddat' = cdat'
  /\ pend' = <<>>
  /\ mode' = "crashed" /\ crashes' = crashes + 1
  /\ fd' = NoFd
  /\ UNCHANGED <<nino, ntmp, pc, wn, lo, hi, saves>>
  /\ ev' = [a |-> "PowerLoss"]

\* Restart: Load the main file; the next Save continues from what was loaded.  (After a
\* process kill the machine stays up; by the time the process is back the kernel has
\* written the cache out.)
Recover ==
  /\ mode = "crashed"
  /\ LoadNow >= 0
  /\ mode' = "run" /\ pc' = "idle" /\ wn' = 0
  /\ lo' = LoadNow /\ hi' = LoadNow
  /\ ddir' = cdir /\ ddat' = cdat /\ pend' = <<>>
  /\ UNCHANGED <<cdir, cdat, nino, ntmp, fd, saves, crashes>>
  /\ ev' = [a |-> "Recover", res |-> [v |-> LoadNow]]

\* A byte of the main file is damaged while nobody writes it; what Load then answers is
\* the end of the story (mode "damaged").
Corrupt ==
  /\ mode = "run" /\ pc = "idle" /\ cdir["main"] # 0
  /\ cdat' = [cdat EXCEPT ![cdir["main"]].bad = TRUE]
  /\ mode' = "damaged"
  /\ UNCHANGED <<cdir, ddir, pend, ddat, nino, ntmp, fd, pc, wn, lo, hi, saves, crashes>>
  /\ ev' = [a |-> "Corrupt", res |-> [load |-> LoadIn(cdir, cdat')]]

-------------------------------------------------------------------------------
\* The design: Store.Save, step by step.

TmpName(i) == CASE i = 1 -> "t1" [] i = 2 -> "t2" [] i = 3 -> "t3" [] OTHER -> "t4"
Keep == <<lo, saves, crashes, mode>>

CreateTemp ==
  /\ mode = "run" /\ pc = "idle" /\ saves < MaxSaves /\ ntmp < 4 /\ LoadNow >= 0
  /\ FSCreate(1, TmpName(ntmp + 1))
  /\ ntmp' = ntmp + 1 /\ saves' = saves + 1
  /\ hi' = lo + 1 /\ pc' = "created"
  /\ wn' \in Chunks
  /\ UNCHANGED <<lo, crashes, mode>>
  /\ ev' = [a |-> "CreateTemp"]

Write ==
  /\ mode = "run" /\ pc = "created"
  /\ FSWrite(1, hi, wn)
  /\ pc' = IF cdat'[fd[1]].k = wn THEN "written" ELSE "created"
  /\ UNCHANGED <<ntmp, wn, hi>> /\ UNCHANGED Keep
  /\ ev' = [a |-> "Write"]

Fsync ==
  /\ mode = "run" /\ pc = "written"
  /\ FSFsync(1) /\ pc' = "synced"
  /\ UNCHANGED <<ntmp, wn, hi>> /\ UNCHANGED Keep
  /\ ev' = [a |-> "Fsync"]

Close ==
  /\ mode = "run" /\ pc = "synced"
  /\ FSClose(1) /\ pc' = "closed"
  /\ UNCHANGED <<ntmp, wn, hi>> /\ UNCHANGED Keep
  /\ ev' = [a |-> "Close"]

Rename ==
  /\ mode = "run" /\ pc = "closed"
  /\ FSRename(TmpName(ntmp), "main") /\ pc' = "renamed"
  /\ UNCHANGED <<ntmp, wn, hi>> /\ UNCHANGED Keep
  /\ ev' = [a |-> "Rename"]

\* the directory fsync is the last call of Save: Save returns
FsyncDir ==
  /\ mode = "run" /\ pc = "renamed"
  /\ FSFsyncDir /\ pc' = "idle"
  /\ lo' = hi
  /\ UNCHANGED <<ntmp, wn, hi, saves, crashes, mode>>
  /\ ev' = [a |-> "FsyncDir"]

Init ==
  /\ cdir = [x \in Names |-> IF x = "main" THEN 1 ELSE 0]
  /\ ddir = cdir
  /\ pend = <<>>
  /\ cdat = [i \in Inodes |-> IF i = 1 THEN Full(0, 1) ELSE Empty]
  /\ ddat = cdat
  /\ nino = 2 /\ ntmp = 0
  /\ fd = NoFd /\ pc = "idle" /\ wn = 0
  /\ lo = 0 /\ hi = 0 /\ saves = 0 /\ crashes = 0
  /\ mode = "run"
  /\ ev = [a |-> "Init"]

Next ==
  \/ CreateTemp \/ Write \/ Fsync \/ Close \/ Rename \/ FsyncDir
  \/ KillCrash \/ PowerLoss \/ Recover \/ Corrupt

Spec == Init /\ [][Next]_vars

-------------------------------------------------------------------------------
\* Property C19.

TypeOK ==
  /\ mode \in {"run", "crashed", "damaged"}
  /\ lo <= hi /\ hi <= lo + 1

\* After any crash the state file decodes to the previous or the new complete state.
C19_OldOrNew == mode = "crashed" => LoadNow \in {lo, hi}

\* While running, the file the process would load is never anything but lo or hi either.
C19_RunningOldOrNew == mode = "run" => LoadNow \in {lo, hi}

\* A returned Save is durable: with nothing in progress the DISK already decodes to lo.
C19_ReturnedIsDurable == (mode = "run" /\ pc = "idle") => LoadIn(ddir, ddat) = lo

\* A corrupted / checksum-mismatched file is rejected, not loaded.
C19_CorruptRejected == [][ev'.a = "Corrupt" => ev'.res.load = Invalid]_vars

View == <<cdir, ddir, pend, cdat, ddat, nino, ntmp, fd, pc, wn, lo, hi, saves, crashes, mode>>
===============================================================================

\* measured: 359 distinct states, 454 generated, seconds
SPECIFICATION Spec
CONSTANTS
  MaxSaves = 2
  Chunks = {1, 2}
  MaxCrashes = 1
VIEW View
INVARIANTS TypeOK C19_OldOrNew C19_RunningOldOrNew C19_ReturnedIsDurable
PROPERTIES C19_CorruptRejected
CHECK_DEADLOCK FALSE

SPECIFICATION TraceSpec
CONSTANTS
  MaxSaves = 100
  Chunks = {1}
  MaxCrashes = 1
CONSTRAINT Track
INVARIANTS Conform TypeOK C19_OldOrNew C19_ReturnedIsDurable
POSTCONDITION Accepted
CHECK_DEADLOCK FALSE

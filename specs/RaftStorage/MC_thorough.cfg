\* One scope, indexes <= 4, terms <= 2.  21,230 distinct states, 2,564,545 generated; 69 s with 8 workers
\* on an idle machine (with SaveFails: 21,230 distinct, 2,517,151 generated).  (terms <= 3: 68,888 distinct / 12.7 M generated, about 43 CPU-minutes: too slow
\* for the tier; terms <= 3 with two voter sets: 108,552 distinct / 25.2 M generated.)
SPECIFICATION Spec
CONSTANTS
  Scopes = {"s1"}
  MaxIdx = 4
  MaxTerm = 2
  Votes = {0}
  CCs = {0, 2}
  VoterSets = {{1}}
  Datas = {1, 2}
  MaxBatch = 2
  StaleSuffix = FALSE
VIEW View
INVARIANTS TypeOK C14_Equivalent C14_NoEntryBelowCompaction C14_NoPhantomTerm C14_CacheIsReloadable
PROPERTIES C14_OnlyNamedDeviation C14_ObservationsAreReference C14_RefusedChangesNothing
CHECK_DEADLOCK FALSE

-------------------------------- MODULE Trace --------------------------------
(* Trace validation: the NDJSON file written by the harness (one step per line,
   traces concatenated, each starting with an "Init" line) must be a behaviour of
   RaftStorage.  The call arguments are bound from the log; the reply and the
   projection (every observation of every scope) are then determined by the
   specification and compared in the invariant Conform, so a divergence is
   reported with the expected values.  The C14 formulas are evaluated on the
   recorded run as well. *)
EXTENDS RaftStorage, Json, TLC
VARIABLE l

Log == ndJsonDeserialize("trace.ndjson")

TraceInit == Init /\ l = 1

Reset0 ==
  /\ disk'  = [s \in Scopes |-> Disk0]
  /\ cache' = [s \in Scopes |-> NoCache]
  /\ ref'   = [s \in Scopes |-> Ref0]
  /\ ev'    = Log[l].ev


SnapOf(j) == [i |-> j.i, t |-> j.t, v |-> ToSet(j.v), d |-> j.d]

Step(e) ==
  CASE e.a = "Init"              -> Reset0
    [] e.a = "Save"              -> Save(e.s, e.hasHS, e.hs, e.ents, e.hasSnap, SnapOf(e.snap))
    [] e.a = "ReplaceSnapshot"   -> ReplaceSnapshot(e.s, SnapOf(e.snap))
    [] e.a = "MarkApplied"       -> MarkApplied(e.s, e.i)
    [] e.a = "MarkConfigApplied" -> MarkConfigApplied(e.s, e.i)
    [] e.a = "SaveFails"         -> SaveFails(e.s)
    [] e.a = "Reopen"            -> Reopen
    [] e.a = "Entries"           -> GetEntries(e.s, e.lo, e.hi)
    [] e.a = "Term"              -> GetTerm(e.s, e.i)
    [] e.a = "FirstIndex"        -> GetFirstIndex(e.s)
    [] e.a = "LastIndex"         -> GetLastIndex(e.s)
    [] e.a = "InitialState"      -> GetInitialState(e.s)
    [] e.a = "Snapshot"          -> GetSnapshot(e.s)

TraceNext == l <= Len(Log) /\ l' = l + 1 /\ Step(Log[l].ev)

TraceSpec == TraceInit /\ [][TraceNext]_<<vars, l>>

\* Deterministic step: the logged reply and projection must be the specification's.
Conform ==
  l > 1 /\ Log[l - 1].ev.a # "Init" =>
    /\ ev.res = Log[l - 1].ev.res
    /\ Proj = Log[l - 1].st

\* Acceptance: every line was consumed.
HW       == TLCSet(1, IF l > TLCGet(1) THEN l ELSE TLCGet(1))
Track    == HW
Accepted == TLCGet(1) = Len(Log) + 1
ASSUME TLCSet(1, 0)
===============================================================================

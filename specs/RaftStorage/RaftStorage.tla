------------------------------ MODULE RaftStorage ------------------------------
(* Durable Raft log of pkg/raftlog (Pebble backed, several scopes in one DB),
   property C14.

   Two descriptions of every scope are carried side by side:

   * the MECHANISM, cut at the code's own seams (pebble_store.go / pebble_writer.go /
     pebble_reader.go): `disk` = the scope's Pebble records (hard state, snapshot
     manifest, one key per entry, the log metadata record first/last/applied/
     snapshot/conf state, the config-applied record) and `cache` = the writer's
     per-scope state cache (hard state, snapshot, entry tail, metadata) that lives
     only while the DB is open.  Save / ReplaceSnapshot / MarkApplied /
     MarkConfigApplied are saveOp.apply, markAppliedOp.apply ... on the cached state;
     every read goes to `disk` only.

   * the REFERENCE `ref`: an in-memory Raft storage with the semantics of etcd's
     raft.MemoryStorage driven the way pkg/slot/multiraft drives it next to the
     durable store (Ready.Snapshot -> ApplySnapshot, which forgets the whole log;
     local compaction -> CreateSnapshot + Compact, which keeps the suffix;
     entries -> Append with etcd's overwrite rule; SetHardState).

   C14 says that every observation computed from `disk` equals the observation
   computed from `ref`, at every point, cache present or dropped (Reopen).

   Where the code differs from the plan in DESIGN.md: pkg/raftlog has no Compact
   call and no ErrCompacted / ErrUnavailable.  Compaction is Save{Snapshot}; Term(i)
   of an index that is not held is 0; Entries(lo,hi) is the held part of [lo,hi).
   The reference's errors are mapped accordingly (error -> 0 / clamped range).

   Named deviation (constant StaleSuffix): Save{Snapshot} cannot tell an install from
   a compaction and always keeps the entries above the snapshot index.  For a
   snapshot below the last index whose term does not match the stored entry and
   which is not followed by entries in the same Save, the reference (raft.restore,
   MemoryStorage.ApplySnapshot) forgets the suffix, the code keeps it.  The shape is
   generated only when StaleSuffix = TRUE; C14_OnlyNamedDeviation states that it is
   the only step that can break the equivalence. *)
EXTENDS Integers, Sequences, FiniteSets, SequencesExt

CONSTANTS
  Scopes,      \* set of scope names, e.g. {"s1","s2"}
  MaxIdx,      \* largest log index
  MaxTerm,     \* largest term
  Votes,       \* vote values of a HardState
  CCs,         \* entry kinds: 0 = normal entry, n > 0 = conf change "add voter n"
  VoterSets,   \* voter sets a snapshot may carry
  Datas,       \* snapshot payload ids (> 0)
  MaxBatch,    \* entries per Save
  StaleSuffix  \* BOOLEAN: generate the named deviation

VARIABLES
  disk,    \* [Scopes -> durable records]
  cache,   \* [Scopes -> writer cache]
  ref,     \* [Scopes -> reference storage]
  ev       \* last call and reply (observation only)

vars == <<disk, cache, ref, ev>>

Idx  == 1..MaxIdx
Max2(a, b) == IF a >= b THEN a ELSE b
Min2(a, b) == IF a <= b THEN a ELSE b

None   == [t |-> 0, c |-> 0]                               \* absent entry key
NoSnap == [i |-> 0, t |-> 0, v |-> {}, d |-> 0]
HS0    == [term |-> 0, vote |-> 0, commit |-> 0]
Meta0  == [first |-> 1, last |-> 0, applied |-> 0, si |-> 0, st |-> 0, v |-> {}]

Disk0   == [hs |-> HS0, cfg |-> 0, man |-> NoSnap, kv |-> [i \in Idx |-> None], meta |-> Meta0]
NoCache == [has |-> FALSE, hs |-> HS0, snap |-> NoSnap, ents |-> <<>>, meta |-> Meta0]
Ref0    == [hs |-> HS0, snap |-> NoSnap, ents |-> <<>>, applied |-> 0, cfg |-> 0]

\* Entries are records [i, t, c]; sequences of them are ascending in i.
KvSeq(kv, lo, hi) ==
  LET ix == SetToSortSeq({i \in Idx : i >= lo /\ i < hi /\ kv[i] # None}, <)
  IN [k \in 1..Len(ix) |-> [i |-> ix[k], t |-> kv[ix[k]].t, c |-> kv[ix[k]].c]]

Above(es, n) == SelectSeq(es, LAMBDA e : e.i > n)
Below(es, n) == SelectSeq(es, LAMBDA e : e.i < n)
LastIdxOf(es) == IF Len(es) > 0 THEN es[Len(es)].i ELSE 0

\* deriveConfState (meta.go): voters of the snapshot plus every conf change that is
\* committed and above the snapshot.
Derive(snap, es, commit) ==
  snap.v \cup {es[k].c : k \in {j \in 1..Len(es) :
                 es[j].c # 0 /\ es[j].i > snap.i /\ es[j].i <= Max2(commit, snap.i)}}

-------------------------------------------------------------------------------
\* Mechanism.

\* loadScopeWriteState: what the writer reads from Pebble when the scope is not cached.
LoadCache(d) ==
  [has |-> TRUE, hs |-> d.hs, snap |-> d.man,
   ents |-> KvSeq(d.kv, d.man.i + 1, MaxIdx + 1), meta |-> d.meta]

StateOf(s) == IF cache[s].has THEN cache[s] ELSE LoadCache(disk[s])

\* saveOp.apply + updateScopeWriteMeta on the cached state c and the Pebble batch.
\* st = [hasHS, hs, ents, hasSnap, snap]; allow = allowSnapshotReplace.
Apply(d, c, st, allow) ==
  LET hs0     == IF st.hasHS THEN st.hs ELSE c.hs
      rejOld  == st.hasSnap /\ st.snap.i < c.snap.i
      rejSame == st.hasSnap /\ st.snap.i = c.snap.i /\ st.snap # c.snap
                   /\ (~allow \/ st.snap.i # c.meta.applied)
      \* snapshot part: manifest, DeleteRange(.. snap.i], FirstIndex, commit, cache trim
      kv1    == IF st.hasSnap THEN [i \in Idx |-> IF i <= st.snap.i THEN None ELSE d.kv[i]] ELSE d.kv
      first1 == IF st.hasSnap THEN st.snap.i + 1 ELSE c.meta.first
      hs1    == IF st.hasSnap /\ hs0.commit < st.snap.i THEN [hs0 EXCEPT !.commit = st.snap.i] ELSE hs0
      snap1  == IF st.hasSnap THEN st.snap ELSE c.snap
      ce1    == IF st.hasSnap THEN Above(c.ents, st.snap.i) ELSE c.ents
      \* entries part (meta.LastIndex is still the value before this Save)
      es     == IF st.hasSnap THEN Above(st.ents, st.snap.i) ELSE st.ents
      has    == Len(es) > 0
      f      == IF has THEN es[1].i ELSE 0
      first2 == IF has /\ (c.meta.last < first1 \/ f < first1) THEN f ELSE first1
      cut    == has /\ f <= c.meta.last                     \* suffix tombstone only when needed
      kv2    == IF has
                  THEN [i \in Idx |->
                          IF \E k \in 1..Len(es) : es[k].i = i
                            THEN LET k == CHOOSE k \in 1..Len(es) : es[k].i = i
                                 IN [t |-> es[k].t, c |-> es[k].c]
                            ELSE IF cut /\ i >= f THEN None ELSE kv1[i]]
                  ELSE kv1
      ce2    == IF has THEN Below(ce1, f) \o es ELSE ce1
      \* updateScopeWriteMeta
      last   == Max2(snap1.i, LastIdxOf(ce2))
      first3 == IF last < first2 THEN last + 1 ELSE first2
      meta2  == [first |-> first3, last |-> last, applied |-> c.meta.applied,
                 si |-> snap1.i, st |-> snap1.t, v |-> Derive(snap1, ce2, hs1.commit)]
  IN IF rejOld \/ rejSame
       THEN [ok |-> FALSE, d |-> d, c |-> c]
       ELSE [ok |-> TRUE,
             d |-> [hs |-> IF st.hasHS \/ st.hasSnap THEN hs1 ELSE d.hs, cfg |-> d.cfg,
                    man |-> snap1, kv |-> kv2, meta |-> meta2],
             c |-> [has |-> TRUE, hs |-> hs1, snap |-> snap1, ents |-> ce2, meta |-> meta2]]

\* pebbleStore.Save: planSnapshotSave on the durable view, then the worker.
SaveImpl(s, st) ==
  LET d == disk[s]
      planRej == st.hasSnap /\ d.man.i # 0 /\
                   (st.snap.i < d.man.i \/ (st.snap.i = d.man.i /\ st.snap # d.man))
  IN IF planRej THEN [ok |-> FALSE, d |-> d, c |-> cache[s]]
     ELSE LET r == Apply(d, StateOf(s), st, FALSE)
          IN IF r.ok THEN r ELSE [ok |-> FALSE, d |-> d, c |-> cache[s]]

\* pebbleStore.ReplaceSnapshot: only at the durable applied index.
ReplaceImpl(s, snap) ==
  LET d == disk[s] IN
  IF snap.i = 0 \/ snap.i # d.meta.applied THEN [ok |-> FALSE, d |-> d, c |-> cache[s]]
  ELSE LET r == Apply(d, StateOf(s), [hasHS |-> FALSE, hs |-> HS0, ents |-> <<>>,
                                     hasSnap |-> TRUE, snap |-> snap], TRUE)
       IN IF r.ok THEN r ELSE [ok |-> FALSE, d |-> d, c |-> cache[s]]

\* Observations of the durable store (pebble_store.go readers).
ObsFirst(d)   == d.meta.first
ObsLast(d)    == d.meta.last
ObsTerm(d, i) == IF i \in Idx /\ d.kv[i] # None THEN d.kv[i].t
                 ELSE IF d.meta.si = i THEN d.meta.st ELSE 0
ObsEntries(d, lo, hi) == KvSeq(d.kv, lo, hi)
ObsInitial(d) == [hs |-> d.hs, v |-> d.meta.v, applied |-> d.meta.applied, cfg |-> d.cfg]
ObsSnap(d)    == d.man

-------------------------------------------------------------------------------
\* Reference (etcd MemoryStorage semantics; errors mapped: ErrCompacted /
\* ErrUnavailable for Term -> 0, for Entries -> the held part of the range).

RefLast(r)    == r.snap.i + Len(r.ents)
RefFirst(r)   == r.snap.i + 1
RefTerm(r, i) == IF i = r.snap.i THEN r.snap.t
                 ELSE IF i > r.snap.i /\ i <= RefLast(r) THEN r.ents[i - r.snap.i].t ELSE 0
RefEntries(r, lo, hi) == SelectSeq(r.ents, LAMBDA e : e.i >= lo /\ e.i < hi)
RefInitial(r) == [hs |-> r.hs, v |-> Derive(r.snap, r.ents, r.hs.commit),
                  applied |-> r.applied, cfg |-> r.cfg]

\* A snapshot at an index the log holds with the same term is a compaction
\* (CreateSnapshot + Compact); any other newer snapshot is an install (ApplySnapshot).
Matches(r, snap) == snap.i > r.snap.i /\ snap.i <= RefLast(r) /\ RefTerm(r, snap.i) = snap.t

RefSnap(r, snap) ==   \* snap.i >= r.snap.i, accepted
  [r EXCEPT !.snap = snap,
            !.ents = IF snap.i = r.snap.i \/ Matches(r, snap) THEN Above(r.ents, snap.i) ELSE <<>>,
            !.hs   = IF r.hs.commit < snap.i THEN [r.hs EXCEPT !.commit = snap.i] ELSE r.hs]

RefSave(r, st) ==
  LET rej == st.hasSnap /\ (st.snap.i < r.snap.i \/ (st.snap.i = r.snap.i /\ st.snap # r.snap))
      r0  == IF st.hasHS THEN [r EXCEPT !.hs = st.hs] ELSE r
      r1  == IF st.hasSnap THEN RefSnap(r0, st.snap) ELSE r0
      es  == IF st.hasSnap THEN Above(st.ents, st.snap.i) ELSE st.ents
      r2  == IF Len(es) > 0 THEN [r1 EXCEPT !.ents = Below(r1.ents, es[1].i) \o es] ELSE r1
  IN IF rej THEN [ok |-> FALSE, r |-> r] ELSE [ok |-> TRUE, r |-> r2]

RefReplace(r, snap) ==
  IF snap.i = 0 \/ snap.i # r.applied \/ snap.i < r.snap.i THEN [ok |-> FALSE, r |-> r]
  ELSE [ok |-> TRUE, r |-> RefSnap(r, snap)]

-------------------------------------------------------------------------------
\* JSON shapes.
VSeq(v)     == SetToSortSeq(v, <)
SnapJ(sn)   == [i |-> sn.i, t |-> sn.t, v |-> VSeq(sn.v), d |-> sn.d]
InitJ(o)    == [hs |-> o.hs, v |-> VSeq(o.v), applied |-> o.applied, cfg |-> o.cfg]
ProjOf(d)   == [first |-> ObsFirst(d), last |-> ObsLast(d), init |-> InitJ(ObsInitial(d)),
                snap |-> SnapJ(ObsSnap(d)), ents |-> ObsEntries(d, 1, MaxIdx + 1),
                terms |-> [k \in 1..(MaxIdx + 2) |-> ObsTerm(d, k - 1)]]
Proj        == [s \in Scopes |-> ProjOf(disk[s])]

\* The same projection computed from the reference.
RefProjOf(r) == [first |-> RefFirst(r), last |-> RefLast(r), init |-> InitJ(RefInitial(r)),
                 snap |-> SnapJ(r.snap), ents |-> RefEntries(r, 1, MaxIdx + 1),
                 terms |-> [k \in 1..(MaxIdx + 2) |-> RefTerm(r, k - 1)]]

Equiv(s) == ProjOf(disk[s]) = RefProjOf(ref[s])

-------------------------------------------------------------------------------
\* Actions: one per exported call.

Init ==
  /\ disk  = [s \in Scopes |-> Disk0]
  /\ cache = [s \in Scopes |-> NoCache]
  /\ ref   = [s \in Scopes |-> Ref0]
  /\ ev    = [a |-> "Init", n |-> MaxIdx]

Save(s, hasHS, hs, ents, hasSnap, snap) ==
  LET st == [hasHS |-> hasHS, hs |-> hs, ents |-> ents, hasSnap |-> hasSnap, snap |-> snap]
      m  == SaveImpl(s, st)
      r  == RefSave(ref[s], st)
  IN /\ disk'  = [disk EXCEPT ![s] = m.d]
     /\ cache' = [cache EXCEPT ![s] = m.c]
     /\ ref'   = [ref EXCEPT ![s] = r.r]
     /\ ev'    = [a |-> "Save", s |-> s, hasHS |-> hasHS, hs |-> hs, ents |-> ents,
                  hasSnap |-> hasSnap, snap |-> SnapJ(snap), res |-> [ok |-> m.ok]]

ReplaceSnapshot(s, snap) ==
  LET m == ReplaceImpl(s, snap)
      r == RefReplace(ref[s], snap)
  IN /\ disk'  = [disk EXCEPT ![s] = m.d]
     /\ cache' = [cache EXCEPT ![s] = m.c]
     /\ ref'   = [ref EXCEPT ![s] = r.r]
     /\ ev'    = [a |-> "ReplaceSnapshot", s |-> s, snap |-> SnapJ(snap), res |-> [ok |-> m.ok]]

MarkApplied(s, i) ==
  LET c  == StateOf(s)
      m2 == [c.meta EXCEPT !.applied = i]
  IN /\ disk'  = [disk EXCEPT ![s].meta = m2]
     /\ cache' = [cache EXCEPT ![s] = [c EXCEPT !.meta = m2]]
     /\ ref'   = [ref EXCEPT ![s].applied = i]
     /\ ev'    = [a |-> "MarkApplied", s |-> s, i |-> i, res |-> [ok |-> TRUE]]

MarkConfigApplied(s, i) ==
  /\ disk'  = [disk EXCEPT ![s].cfg = i]
  /\ cache' = [cache EXCEPT ![s] = StateOf(s)]
  /\ ref'   = [ref EXCEPT ![s].cfg = i]
  /\ ev'    = [a |-> "MarkConfigApplied", s |-> s, i |-> i, res |-> [ok |-> TRUE]]

\* A Save / ReplaceSnapshot / MarkApplied that is acceptable but returns an error to its caller
\* because the Pebble batch that carried it was not committed (flushWriteRequests: the commit
\* failed, or another request of the same cross-scope batch was refused by the worker after this
\* request's saveOp.apply had already run on the writer's working copy of the cached state).
\* The caller saw an error, so the reference did not move; nothing of the attempted write may
\* survive: no record, no change of the committed writer cache (the working copy is dropped) -
\* now and through every later write on the scope.  The arguments of the attempted call are
\* irrelevant to the specification and are not part of the action.
SaveFails(s) ==
  /\ UNCHANGED <<disk, cache, ref>>
  /\ ev' = [a |-> "SaveFails", s |-> s, res |-> [ok |-> FALSE]]

\* Clean Close followed by Open of the same directory: the writer cache is gone.
Reopen ==
  /\ cache' = [s \in Scopes |-> NoCache]
  /\ UNCHANGED <<disk, ref>>
  /\ ev' = [a |-> "Reopen", res |-> [ok |-> TRUE]]

\* Observation calls (no state change).
GetEntries(s, lo, hi) ==
  /\ UNCHANGED <<disk, cache, ref>>
  /\ ev' = [a |-> "Entries", s |-> s, lo |-> lo, hi |-> hi, res |-> [ents |-> ObsEntries(disk[s], lo, hi)]]
GetTerm(s, i) ==
  /\ UNCHANGED <<disk, cache, ref>>
  /\ ev' = [a |-> "Term", s |-> s, i |-> i, res |-> [t |-> ObsTerm(disk[s], i)]]
GetFirstIndex(s) ==
  /\ UNCHANGED <<disk, cache, ref>>
  /\ ev' = [a |-> "FirstIndex", s |-> s, res |-> [i |-> ObsFirst(disk[s])]]
GetLastIndex(s) ==
  /\ UNCHANGED <<disk, cache, ref>>
  /\ ev' = [a |-> "LastIndex", s |-> s, res |-> [i |-> ObsLast(disk[s])]]
GetInitialState(s) ==
  /\ UNCHANGED <<disk, cache, ref>>
  /\ ev' = [a |-> "InitialState", s |-> s, res |-> InitJ(ObsInitial(disk[s]))]
GetSnapshot(s) ==
  /\ UNCHANGED <<disk, cache, ref>>
  /\ ev' = [a |-> "Snapshot", s |-> s, res |-> SnapJ(ObsSnap(disk[s]))]

-------------------------------------------------------------------------------
\* Raft-valid histories: what a Raft node (etcd raft driven by multiraft) can hand
\* to its storage, judged on the reference (the node's own view of its log).

\* Entry batches starting at an index of fs, contiguous, terms non-decreasing, not
\* below the term of the predecessor, not above the node's term.
EntChoices(r, fs, maxTerm) ==
  UNION { UNION { { [k \in 1..n |-> [i |-> f + k - 1, t |-> e[k].t, c |-> e[k].c]] :
                      e \in { e \in [1..n -> [t : 1..maxTerm, c : CCs]] :
                                /\ e[1].t >= RefTerm(r, f - 1)
                                /\ \A k \in 1..(n - 1) : e[k].t <= e[k + 1].t } } :
                  n \in {n \in 1..MaxBatch : f + n - 1 <= MaxIdx} } : f \in fs }

HSChoices(r, term, lo, hi) ==
  { [term |-> term, vote |-> v, commit |-> c] : v \in Votes, c \in Max2(lo, r.hs.commit)..hi }

\* The sub-actions take a chooser P: the identity in exhaustive runs (every valid
\* argument), a random pick in Sim.tla (one valid argument per step).
All(S) == S

\* (1) hard state and / or entries (append or overwrite of an uncommitted suffix).
SaveLog(s, P(_)) ==
  LET r == ref[s] IN
  \E hasHS \in P(BOOLEAN) :
  \E term \in P(IF hasHS THEN Max2(r.hs.term, 1)..MaxTerm ELSE {r.hs.term}) :
  \E ents \in P(EntChoices(r, (r.hs.commit + 1)..(RefLast(r) + 1), term) \cup {<<>>}) :
  \E hs \in P(IF hasHS THEN HSChoices(r, term, 0, IF Len(ents) > 0 THEN LastIdxOf(ents) ELSE RefLast(r))
              ELSE {HS0}) :
     /\ hasHS \/ Len(ents) > 0
     /\ ~hasHS => (Len(ents) > 0 => r.hs.commit <= LastIdxOf(ents))
     /\ Save(s, hasHS, hs, ents, FALSE, NoSnap)

\* (2) local compaction as compactLogAt does it: a snapshot of an applied (hence
\*     committed and held) index with the term of that entry, nothing else.
SaveCompact(s, P(_)) ==
  LET r == ref[s] IN
  \E i \in P((r.snap.i + 1)..Min2(r.hs.commit, RefLast(r))), v \in P(VoterSets), d \in P(Datas) :
     Save(s, FALSE, HS0, <<>>, TRUE, [i |-> i, t |-> RefTerm(r, i), v |-> v, d |-> d])

\* (3) snapshot install (Ready.Snapshot): above the commit index and not matching
\*     the log, with the hard state of the same Ready and possibly the entries that
\*     follow the snapshot.  `is` narrows the snapshot index and `bare` forbids entries
\*     (Sim aims with them).
SaveInstall(s, is, bare, P(_)) ==
  LET r == ref[s] IN
  \E term \in P(Max2(r.hs.term, 1)..MaxTerm) :
  \E i \in P(is \cap ((Max2(r.hs.commit, r.snap.i) + 1)..MaxIdx)) :
  \E t \in P({t \in 1..term : ~Matches(r, [i |-> i, t |-> t, v |-> {}, d |-> 0])}), v \in P(VoterSets), d \in P(Datas) :
  LET snap == [i |-> i, t |-> t, v |-> v, d |-> d]
      r1   == RefSnap(r, snap)
  IN \E ents \in P({es \in (IF bare THEN {} ELSE EntChoices(r1, {i + 1}, term)) \cup {<<>>} :
                       StaleSuffix \/ i >= RefLast(r) \/ Len(es) > 0}) :
     \E hs \in P(HSChoices(r, term, i, IF Len(ents) > 0 THEN LastIdxOf(ents) ELSE i)) :
        Save(s, TRUE, hs, ents, TRUE, snap)

\* (4) a snapshot that is not newer than the stored one: identical at the same index
\*     (idempotent), different at the same index or older (refused, nothing changes).
SaveOldSnap(s, P(_)) ==
  LET r == ref[s] IN
  /\ r.snap.i > 0
  /\ \E i \in P({r.snap.i, r.snap.i - 1} \ {0}), same \in P(BOOLEAN), d \in P(Datas), hasHS \in P(BOOLEAN) :
       LET snap == IF same /\ i = r.snap.i THEN r.snap
                   ELSE [i |-> i, t |-> r.snap.t, v |-> r.snap.v, d |-> d]
           hs   == [r.hs EXCEPT !.term = Min2(r.hs.term + 1, MaxTerm)]
       IN Save(s, hasHS, IF hasHS THEN hs ELSE HS0, <<>>, TRUE, snap)

\* The named deviation, recognised on the event and the state before it.
IsStaleInstall(r, e) ==
  /\ e.a = "Save" /\ e.hasSnap /\ e.res.ok
  /\ e.snap.i > r.snap.i /\ e.snap.i < RefLast(r)
  /\ RefTerm(r, e.snap.i) # e.snap.t
  /\ Above(e.ents, e.snap.i) = <<>>

ReplaceChoices(r) ==
  UNION { { [i |-> i, t |-> (IF RefTerm(r, i) # 0 THEN RefTerm(r, i) ELSE Max2(r.hs.term, 1)),
             v |-> v, d |-> d] : v \in VoterSets, d \in Datas } :
          i \in {r.applied, r.applied + 1} \ {0} }

Next ==
  \/ \E s \in Scopes : SaveLog(s, All) \/ SaveCompact(s, All) \/ SaveInstall(s, Idx, FALSE, All) \/ SaveOldSnap(s, All)
  \/ \E s \in Scopes : \E i \in ref[s].applied..ref[s].hs.commit : MarkApplied(s, i)
  \/ \E s \in Scopes : \E i \in {0, ref[s].applied} : MarkConfigApplied(s, i)
  \/ \E s \in Scopes : \E snap \in ReplaceChoices(ref[s]) : ReplaceSnapshot(s, snap)
  \/ \E s \in Scopes : SaveFails(s)
  \/ Reopen
  \/ \E s \in Scopes : \E lo \in 1..(MaxIdx + 1) : \E hi \in lo..(MaxIdx + 2) : GetEntries(s, lo, hi)
  \/ \E s \in Scopes : \E i \in 0..(MaxIdx + 1) : GetTerm(s, i)
  \/ \E s \in Scopes : GetFirstIndex(s) \/ GetLastIndex(s) \/ GetInitialState(s) \/ GetSnapshot(s)

Spec == Init /\ [][Next]_vars

-------------------------------------------------------------------------------
\* Property C14.

TypeOK ==
  \A s \in Scopes :
    /\ ref[s].hs.commit <= RefLast(ref[s])
    /\ ref[s].applied <= ref[s].hs.commit
    /\ \A k \in 1..Len(ref[s].ents) : ref[s].ents[k].i = ref[s].snap.i + k

\* The durable store answers every observation as the reference does (StaleSuffix = FALSE).
C14_Equivalent == \A s \in Scopes : Equiv(s)

\* With the deviation generated: it is the only step that can break the equivalence.
C14_OnlyNamedDeviation ==
  [][\A s \in Scopes : (Equiv(s) /\ ~(ev'.a = "Save" /\ ev'.s = s /\ IsStaleInstall(ref[s], ev'))) => Equiv(s)']_vars

\* Never an entry at or below the compaction point, never an entry outside [first, last].
C14_NoEntryBelowCompaction ==
  \A s \in Scopes : \A i \in Idx :
    disk[s].kv[i] # None => /\ i > disk[s].man.i
                            /\ i >= ObsFirst(disk[s]) /\ i <= ObsLast(disk[s])

\* Never a term for an index that is not held.
C14_NoPhantomTerm ==
  \A s \in Scopes : \A i \in 0..(MaxIdx + 1) :
    ObsTerm(disk[s], i) # 0 =>
      \/ (i = disk[s].man.i /\ i > 0)
      \/ (i >= ObsFirst(disk[s]) /\ i <= ObsLast(disk[s]))

\* The replies of the observation calls are the reference's.
C14_ObservationsAreReference ==
  [][\A s \in Scopes : (Equiv(s) /\ "s" \in DOMAIN ev' /\ ev'.s = s) =>
       /\ ev'.a = "Entries"      => ev'.res.ents = RefEntries(ref[s], ev'.lo, ev'.hi)
       /\ ev'.a = "Term"         => ev'.res.t = RefTerm(ref[s], ev'.i)
       /\ ev'.a = "FirstIndex"   => ev'.res.i = RefFirst(ref[s])
       /\ ev'.a = "LastIndex"    => ev'.res.i = RefLast(ref[s])
       /\ ev'.a = "InitialState" => ev'.res = InitJ(RefInitial(ref[s]))
       /\ ev'.a = "Snapshot"     => ev'.res = SnapJ(ref[s].snap)]_vars

\* Dropping the writer cache (reopen) is invisible: the cache, when present, is
\* exactly what the writer would reload from Pebble.
C14_CacheIsReloadable == \A s \in Scopes : cache[s].has => cache[s] = LoadCache(disk[s])

\* A refused call changes nothing.
C14_RefusedChangesNothing ==
  [][("res" \in DOMAIN ev' /\ "ok" \in DOMAIN ev'.res /\ ~ev'.res.ok) => (disk' = disk /\ ref' = ref)]_vars

View == <<disk, cache, ref>>
===============================================================================

SPECIFICATION Spec
CONSTANTS
  Scopes = {"s1"}
  MaxIdx = 3
  MaxTerm = 2
  Votes = {0}
  CCs = {0, 2}
  VoterSets = {{1}}
  Datas = {1, 2}
  MaxBatch = 2
  StaleSuffix = FALSE
VIEW View
INVARIANTS TypeOK C14_Equivalent C14_NoEntryBelowCompaction C14_NoPhantomTerm C14_CacheIsReloadable
PROPERTIES C14_OnlyNamedDeviation C14_ObservationsAreReference C14_RefusedChangesNothing
CHECK_DEADLOCK FALSE

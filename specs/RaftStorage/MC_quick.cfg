\* One scope, indexes <= 3, terms <= 2, batches of 1, one conf-change kind, two snapshot payloads.
\* 4,522 distinct states, 282,177 generated (with SaveFails); about 20 s with 4 workers on an idle machine (361,895 generated / 28 s with batches <= 2 before SaveFails).
SPECIFICATION Spec
CONSTANTS
  Scopes = {"s1"}
  MaxIdx = 3
  MaxTerm = 2
  Votes = {0}
  CCs = {0, 2}
  VoterSets = {{1}}
  Datas = {1, 2}
  MaxBatch = 1
  StaleSuffix = FALSE
VIEW View
INVARIANTS TypeOK C14_Equivalent C14_NoEntryBelowCompaction C14_NoPhantomTerm C14_CacheIsReloadable
PROPERTIES C14_OnlyNamedDeviation C14_ObservationsAreReference C14_RefusedChangesNothing
CHECK_DEADLOCK FALSE

\* The named deviation is generated (StaleSuffix = TRUE): the equivalence itself is not
\* claimed; what is claimed is that the stale-suffix install is the only step that breaks it,
\* and that the mechanism stays coherent (cache reloadable, nothing below the compaction point).
\* 4,978 distinct states, 457,471 generated; 24 s with 4 workers.
SPECIFICATION Spec
CONSTANTS
  Scopes = {"s1"}
  MaxIdx = 3
  MaxTerm = 2
  Votes = {0}
  CCs = {0, 2}
  VoterSets = {{1}}
  Datas = {1, 2}
  MaxBatch = 2
  StaleSuffix = TRUE
VIEW View
INVARIANTS C14_NoEntryBelowCompaction C14_NoPhantomTerm C14_CacheIsReloadable
PROPERTIES C14_OnlyNamedDeviation C14_ObservationsAreReference C14_RefusedChangesNothing
CHECK_DEADLOCK FALSE

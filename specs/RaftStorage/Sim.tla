--------------------------------- MODULE Sim ---------------------------------
(* Behaviour generator: `tlc -simulate` on this module prints one JSON behaviour
   per line ("BEH {...}") when a run reaches Depth steps.  Every step carries the
   call, the reply the specification determines and the projection (every
   observation of every scope) after the call. *)
EXTENDS RaftStorage, Json, TLC
CONSTANTS Depth,
          Faults   \* BOOLEAN: generate SaveFails steps (writes that return an error; the harness injects the failure)
VARIABLE hist

SimInit == Init /\ hist = << [ev |-> ev, st |-> Proj] >>

\* One successor per disjunct: arguments are drawn with RandomElement so that
\* `-simulate` chooses uniformly among call shapes, not among argument tuples.
Pick(S) == IF S = {} THEN {} ELSE {RandomElement(S)}

SimStep ==
  \* plain log traffic (twice: it is what builds the state the other shapes need)
  \/ \E s \in Pick(Scopes) : SaveLog(s, Pick)
  \/ \E s \in Pick(Scopes) : SaveLog(s, Pick)
  \* aimed: append at the end together with a hard state that commits part of it
  \/ \E s \in Pick(Scopes) :
       LET r == ref[s] IN
       \E term \in Pick(Max2(r.hs.term, 1)..MaxTerm) :
       \E ents \in Pick(EntChoices(r, {RefLast(r) + 1}, term)) :
       \E hs \in Pick(HSChoices(r, term, 0, LastIdxOf(ents))) :
          Save(s, TRUE, hs, ents, FALSE, NoSnap)
  \* aimed: a new term overwrites an uncommitted suffix
  \/ \E s \in Pick(Scopes) :
       LET r == ref[s] IN
       \E term \in Pick((r.hs.term + 1)..MaxTerm) :
       \E f \in Pick((r.hs.commit + 1)..RefLast(r)) :
       \E ents \in Pick({es \in EntChoices(r, {f}, term) : es[1].t = term}) :
       \E hs \in Pick(HSChoices(r, term, 0, LastIdxOf(ents))) :
          Save(s, TRUE, hs, ents, FALSE, NoSnap)
  \* aimed: commit everything
  \/ \E s \in Pick(Scopes) :
       LET r == ref[s] IN
       /\ r.hs.commit < RefLast(r)
       /\ Save(s, TRUE, [r.hs EXCEPT !.commit = RefLast(r)], <<>>, FALSE, NoSnap)
  \/ \E s \in Pick(Scopes) : SaveCompact(s, Pick)
  \/ \E s \in Pick(Scopes) : SaveInstall(s, Idx, FALSE, Pick)
  \/ \E s \in Pick(Scopes) : SaveInstall(s, Idx, TRUE, Pick)
  \* aimed: install below the last index, overwriting the suffix in the same Save
  \/ \E s \in Pick(Scopes) : SaveInstall(s, 1..(RefLast(ref[s]) - 1), FALSE, Pick)
  \* aimed: the same without entries (the named deviation; only when StaleSuffix)
  \/ \E s \in Pick(Scopes) : RandomElement(1..2) = 1 /\ SaveInstall(s, 1..(RefLast(ref[s]) - 1), TRUE, Pick)
  \/ \E s \in Pick(Scopes) : SaveOldSnap(s, Pick)
  \/ \E s \in Pick(Scopes) : \E i \in Pick(ref[s].applied..ref[s].hs.commit) : MarkApplied(s, i)
  \/ \E s \in Pick(Scopes) : ref[s].applied < ref[s].hs.commit /\ MarkApplied(s, ref[s].hs.commit)
  \/ \E s \in Pick(Scopes) : \E i \in Pick(0..ref[s].applied) : RandomElement(1..2) = 1 /\ MarkConfigApplied(s, i)
  \* aimed: replace at the applied index; rarely at a wrong index (refused)
  \/ \E s \in Pick(Scopes) : \E snap \in Pick({x \in ReplaceChoices(ref[s]) : x.i = ref[s].applied}) : ReplaceSnapshot(s, snap)
  \/ \E s \in Pick(Scopes) : \E snap \in Pick(ReplaceChoices(ref[s])) : RandomElement(1..4) = 1 /\ ReplaceSnapshot(s, snap)
  \/ Reopen
  \* a write that fails (twice: it needs a cached scope before it and further writes after it)
  \/ Faults /\ \E s \in Pick(Scopes) : SaveFails(s)
  \/ Faults /\ \E s \in Pick(Scopes) : SaveFails(s)
  \/ \E s \in Pick(Scopes) : \E lo \in Pick(1..(MaxIdx + 1)) : \E hi \in Pick(lo..(MaxIdx + 2)) : GetEntries(s, lo, hi)
  \/ \E s \in Pick(Scopes) : \E i \in Pick(0..(MaxIdx + 1)) : GetTerm(s, i)
  \/ \E s \in Pick(Scopes) : \E k \in Pick(1..4) :
       \/ k = 1 /\ GetFirstIndex(s)
       \/ k = 2 /\ GetLastIndex(s)
       \/ k = 3 /\ GetInitialState(s)
       \/ k = 4 /\ GetSnapshot(s)

SimNext == SimStep /\ hist' = Append(hist, [ev |-> ev', st |-> Proj'])
Emit    == Len(hist) = Depth + 1 =>
             PrintT("BEH " \o ToJson([steps |-> hist, final |-> Proj]))
===============================================================================

SPECIFICATION TraceSpec
CONSTANTS
  Scopes = {"s1", "s2", "s3"}
  MaxIdx = 8
  MaxTerm = 4
  Votes = {0}
  CCs = {0}
  VoterSets = {}
  Datas = {}
  MaxBatch = 1
  StaleSuffix = FALSE
CONSTRAINT Track
INVARIANTS Conform C14_NoEntryBelowCompaction C14_NoPhantomTerm C14_CacheIsReloadable
PROPERTIES C14_OnlyNamedDeviation C14_ObservationsAreReference C14_RefusedChangesNothing
POSTCONDITION Accepted
CHECK_DEADLOCK FALSE

INIT SimInit
NEXT SimNext
CONSTANTS
  Scopes = {"s1", "s2"}
  MaxIdx = 8
  MaxTerm = 3
  Votes = {0, 1, 2}
  CCs = {0, 2, 3}
  VoterSets = {{1}, {1, 2}, {1, 3}}
  Datas = {1, 2, 3}
  MaxBatch = 2
  StaleSuffix = FALSE
  Depth = 30
  Faults = TRUE
INVARIANT Emit
CHECK_DEADLOCK FALSE

\* Two scopes in one DB (the specification treats them as independent machines; this run shows that
\* no action of one scope touches the other's records).  55,696 distinct states, ~2 min with 4 workers.
SPECIFICATION Spec
CONSTANTS
  Scopes = {"s1", "s2"}
  MaxIdx = 2
  MaxTerm = 2
  Votes = {0}
  CCs = {0}
  VoterSets = {{1}}
  Datas = {1}
  MaxBatch = 1
  StaleSuffix = FALSE
VIEW View
INVARIANTS TypeOK C14_Equivalent C14_NoEntryBelowCompaction C14_NoPhantomTerm C14_CacheIsReloadable
PROPERTIES C14_OnlyNamedDeviation C14_ObservationsAreReference C14_RefusedChangesNothing
CHECK_DEADLOCK FALSE

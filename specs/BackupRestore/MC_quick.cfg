SPECIFICATION Spec
CONSTANTS
  ChanSeq <- MCChanSeq2
  MaxLen = 2
  Kinds = {"msg", "meta"}
  Apis = {"reader"}
  PageSizes = {1}
  BadVariants = {"dropLast", "hwLowFix"}
  MaxAppends = 1
  MaxAttempts = 2
VIEW View
INVARIANTS TypeOK C11_NothingAboveHW C11_NoOrphanRows C11_WarmFresh C11_OtherSlotKept
PROPERTIES C11_ImportConverges C11_RejectedUntouched C11_ReexportEqual C11_AppendAfterRestore
CHECK_DEADLOCK FALSE

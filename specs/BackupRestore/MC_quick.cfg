\* two channels, logs <= 2, no probes: 35,714 distinct / 184,506 generated states, depth 27, ~20 s with 4 workers on a loaded machine
SPECIFICATION Spec
CONSTANTS
  ChanSeq <- MCChanSeq2
  MaxLen = 2
  Cfgs <- MCCfgsSmall
  BadVariants = {"dropLast"}
  MaxAppends = 0
  MaxAttempts = 2
VIEW View
INVARIANTS TypeOK C11_NothingAboveHW C11_NoOrphanRows C11_WarmFresh C11_OtherSlotKept
PROPERTIES C11_ImportConverges C11_RejectedUntouched C11_ReexportEqual C11_AppendAfterRestore
CHECK_DEADLOCK FALSE

-------------------------------- MODULE Trace --------------------------------
(* Trace validation: the NDJSON file written by the harness's random driver (one step per
   line, traces concatenated, each starting with an "Init" line that carries the instance's
   kind, API and page size) must be a behaviour of BackupRestore.  The call arguments are
   bound from the log; reply and projection are then determined by the specification and
   compared in the invariant Conform.  Lines inside a multi-step call (the pages of an import
   that was abandoned or lost power, the steps of a cleanup that lost power) carry
   st = [mid |-> "y"]: the store cannot be read at that instant, only the reply is compared;
   the state is compared at the crash line that follows. *)
EXTENDS BackupRestore, Json
VARIABLE l

TraceChanSeq == << "c1", "c2" >>
TraceCfgs == {[kind |-> "msg", api |-> "reader", ps |-> 1]}   \* replaced by the Init line of every trace

Log == ndJsonDeserialize("trace.ndjson")

TraceInit == Init /\ l = 1

Reset0 ==
  /\ sLeo'  = [c \in Chans |-> 0]
  /\ sEnds' = [c \in Chans |-> {}]
  /\ sHw'   = [c \in Chans |-> 0]
  /\ sRet'  = [c \in Chans |-> NoRet]
  /\ mSrc'  = [k \in 1..MaxLen |-> 0]
  /\ mRt'   = FALSE
  /\ exp'   = NoExp
  /\ tMeta' = [c \in Chans |-> FALSE]
  /\ tRows' = [c \in Chans |-> {}]
  /\ tApp'  = [c \in Chans |-> <<>>]
  /\ warm'  = [c \in Chans |-> -1]
  /\ mTgt'  = [k \in 1..MaxLen |-> 0]
  /\ mTRt'  = FALSE
  /\ mOther' = TRUE
  /\ imp' = Idle
  /\ attempts' = 0
  /\ appends' = 0
  /\ Log[l].ev.maxLen = MaxLen
  /\ cfg' = Log[l].ev.cfg
  /\ ev' = Log[l].ev

Step(e) ==
  CASE e.a = "Init"         -> Reset0
    [] e.a = "SrcAppend"    -> SrcAppend(e.c, e.n)
    [] e.a = "SrcCommit"    -> SrcCommit(e.c, e.hw)
    [] e.a = "SrcAdopt"     -> SrcAdopt(e.c, e.through)
    [] e.a = "SrcTrim"      -> SrcTrim(e.c)
    [] e.a = "MetaPut"      -> MetaPut(e.k, e.v)
    [] e.a = "MetaPutRt"    -> MetaPutRt
    [] e.a = "MetaTgtPut"   -> MetaTgtPut(e.k, e.v)
    [] e.a = "MetaTgtPutRt" -> MetaTgtPutRt
    [] e.a = "Export"       -> Export
    [] e.a = "Verify"       -> Verify(e.v)
    [] e.a = "BeginImport"  -> BeginImport(e.v)
    [] e.a = "ImportPage"   -> ImportPage
    [] e.a = "Crash"        -> Crash(e.kind)
    [] e.a = "Restart"      -> Restart
    [] e.a = "DiscardRows"  -> DiscardRows(e.c, e.through)
    [] e.a = "DiscardMeta"  -> DiscardMeta(e.c)
    [] e.a = "Discard"      -> Discard
    [] e.a = "Touch"        -> Touch(e.c)
    [] e.a = "Append"       -> TgtAppend(e.c, e.k)
    [] e.a = "Reexport"     -> Reexport
    [] e.a = "Audit"        -> Audit

TraceNext == l <= Len(Log) /\ l' = l + 1 /\ Step(Log[l].ev)

TraceSpec == TraceInit /\ [][TraceNext]_<<vars, l>>

IsMid(st) == "mid" \in DOMAIN st

\* Deterministic step: the logged reply and projection must be the specification's.
Conform ==
  l > 1 /\ Log[l - 1].ev.a # "Init" =>
    /\ ev.res = Log[l - 1].ev.res
    /\ IsMid(Log[l - 1].st) \/ Proj = Log[l - 1].st

\* Acceptance: every line was consumed.
HW       == TLCSet(1, IF l > TLCGet(1) THEN l ELSE TLCGet(1))
Track    == HW
Accepted == TLCGet(1) = Len(Log) + 1
ASSUME TLCSet(1, 0)
===============================================================================

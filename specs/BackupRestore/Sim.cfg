INIT SimInit
NEXT SimNext
CONSTANTS
  ChanSeq <- SimChanSeq
  MaxLen = 3
  Cfgs <- SimCfgs
  BadVariants = {"trunc", "dropLast", "dropLastFix", "swapFix", "hwLowFix", "otherSlot"}
  MaxAppends = 3
  MaxAttempts = 6
  Depth = 24
INVARIANT Emit
CHECK_DEADLOCK FALSE

INIT SimInit
NEXT SimNext
CONSTANTS
  ChanSeq <- SimChanSeq
  MaxLen = 3
  Kinds = {"msg", "msg", "meta"}
  Apis = {"reader", "bytes"}
  PageSizes = {1, 2, 4}
  BadVariants = {"trunc", "dropLast", "dropLastFix", "swapFix", "hwLowFix", "otherSlot"}
  MaxAppends = 3
  MaxAttempts = 6
  Depth = 24
INVARIANT Emit
CHECK_DEADLOCK FALSE

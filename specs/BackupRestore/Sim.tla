--------------------------------- MODULE Sim ---------------------------------
(* Behaviour generator: `tlc -simulate` prints one JSON behaviour per line ("BEH {...}")
   when a run reaches Depth steps.  A behaviour builds a source history, exports it, and then
   restores it with rejected streams, abandoned imports, retries, cleanups and probes.
   Only whole calls of the real API appear: the crash-between-the-steps-of-a-discard actions
   (DiscardRows / DiscardMeta) are exercised by the harness's power-loss driver and checked
   through Trace.tla. *)
EXTENDS BackupRestore, Json
CONSTANT Depth
VARIABLE hist

SimChanSeq == << "c1", "c2" >>
\* page sizes 1 and 2 make the harness use 1024- and 512-row units (the code's install batch
\* is 1024 rows); 4 = a whole log fits one batch
SimCfgs == [kind : {"msg", "meta"}, api : {"reader", "bytes"}, ps : {1, 2, 4}]

SimInit == Init /\ hist = << [ev |-> ev, st |-> Proj] >>
Pick(S) == {RandomElement(S)}
Variants == BadVariants \cup {"ok"}

FixVariants == {"dropLastFix", "swapFix", "hwLowFix"}

\* the source phase is kept short so that most of a behaviour is spent restoring
SrcStep ==
  \/ \E c \in Pick(Chans), n \in Pick(1..2) : SrcAppend(c, n)
  \/ \E c \in Pick(Chans), n \in Pick(1..2) : SrcAppend(c, n)
  \/ \E c \in Pick(Chans), h \in Pick(1..MaxLen) : SrcCommit(c, h)
  \* aimed: commit exactly through the log end / through the end of a proposal
  \/ \E c \in Pick({c \in Chans : sLeo[c] > sHw[c]} \cup {"none"}) : c # "none" /\ SrcCommit(c, sLeo[c])
  \/ \E c \in Pick({c \in Chans : sLeo[c] > sHw[c]} \cup {"none"}) :
        c # "none" /\ \E h \in Pick({x \in sEnds[c] : x > sHw[c]}) : SrcCommit(c, h)
  \* aimed: adopt a boundary, mostly while nothing is uncommitted (an adopted boundary taken with
  \* an uncommitted suffix leads to the reported log-end finding and ends the replay there)
  \/ \E c \in Pick({c \in Chans : sHw[c] > sRet[c].local /\ sLeo[c] = sHw[c]} \cup {"none"}) :
        c # "none" /\ \E t \in Pick((sRet[c].local + 1) .. sHw[c]) : SrcAdopt(c, t)
  \/ \E c \in Pick({c \in Chans : sHw[c] > sRet[c].local /\ sLeo[c] = sHw[c]} \cup {"none"}) :
        c # "none" /\ \E t \in Pick((sRet[c].local + 1) .. sHw[c]) : SrcAdopt(c, t)
  \/ (RandomElement(1..4) = 1 /\
        \E c \in Pick({c \in Chans : sHw[c] > sRet[c].local} \cup {"none"}) :
           c # "none" /\ \E t \in Pick((sRet[c].local + 1) .. sHw[c]) : SrcAdopt(c, t))
  \/ \E c \in Pick({c \in Chans : sRet[c].local > sRet[c].phys} \cup {"none"}) : c # "none" /\ SrcTrim(c)
  \/ \E c \in Pick({c \in Chans : sRet[c].local > sRet[c].phys} \cup {"none"}) : c # "none" /\ SrcTrim(c)
  \/ \E k \in Pick(1..MaxLen), v \in Pick(0..2) : MetaPut(k, v)
  \/ \E k \in Pick(1..MaxLen), v \in Pick(1..2) : MetaPut(k, v)
  \/ \E k \in Pick(1..MaxLen), v \in Pick(1..2) : MetaPut(k, v)
  \/ MetaPutRt
  \/ \E k \in Pick(1..MaxLen), v \in Pick(1..2) : MetaTgtPut(k, v)
  \/ MetaTgtPutRt
  \/ (Len(hist) >= 5 /\ Export)
  \/ (Len(hist) >= 8 /\ Export)
  \/ (Len(hist) >= 8 /\ Export)

TgtStep ==
  \/ \E v \in Pick(Variants) : Verify(v)
  \* (the byte-slice message import installs the valid head of a checksum-valid stream: reported
  \* finding; such a step ends the replay of its behaviour, so it is drawn less often)
  \/ \E v \in Pick(Variants) :
        (Msg /\ cfg.api = "bytes" /\ v \in FixVariants => RandomElement(1..5) = 1) /\ BeginImport(v)
  \/ BeginImport("ok")
  \/ BeginImport("ok")
  \/ Discard
  \/ (RandomElement(1..3) = 1 /\ Restart)
  \/ \E c \in Pick(Chans) : Touch(c)
  \* aimed: warm a channel before anything was restored into it
  \/ \E c \in Pick({c \in ExpChans : ~tMeta[c] /\ warm[c] = -1} \cup {"none"}) : c # "none" /\ Touch(c)
  \/ \E c \in Pick(Chans), k \in Pick(1..(MaxLen + 1)) : TgtAppend(c, k)
  \/ \E c \in Pick(Chans), k \in Pick(1..(MaxLen + 1)) : TgtAppend(c, k)
  \* aimed: the key of a restored row / of a row above the watermark
  \/ \E c \in Pick(ExpChans \cup {"none"}) :
        c # "none" /\ \E k \in Pick(tRows[c] \cup {exp.ch[c].hw + 1}) : TgtAppend(c, k)
  \/ Reexport
  \/ Audit
  \/ Audit

\* while an import runs: mostly go on, sometimes abandon it
RunStep ==
  \/ ImportPage
  \/ ImportPage
  \/ ImportPage
  \/ \E kind \in Pick({"abort", "restart"}) : Crash(kind)

SimStep == IF imp.st = "run" THEN RunStep ELSE IF exp.ok THEN TgtStep ELSE SrcStep
\* The behaviour is printed once, by the single successor of its last state.
SimNext ==
  IF Len(hist) <= Depth
    THEN SimStep /\ hist' = Append(hist, [ev |-> ev', st |-> Proj'])
    ELSE UNCHANGED vars /\ hist' = Append(hist, [ev |-> [a |-> "End"], st |-> Proj])
Emit == Len(hist) = Depth + 2 => PrintT("BEH " \o ToJson([steps |-> SubSeq(hist, 1, Depth + 1)]))
===============================================================================

\* two channels, logs <= 3, page sizes 1 and 2, crash after any page, retry with and without cleanup (no probes: those are in the one-channel configurations): 1,706,904 distinct / 9,275,058 generated states, ~9 min with 4 workers on a loaded machine
SPECIFICATION Spec
CONSTANTS
  ChanSeq <- MCChanSeq2
  MaxLen = 3
  Cfgs <- MCCfgsMsg
  BadVariants = {"dropLast"}
  MaxAppends = 0
  MaxAttempts = 2
VIEW View
INVARIANTS TypeOK C11_NothingAboveHW C11_NoOrphanRows C11_WarmFresh C11_OtherSlotKept
PROPERTIES C11_ImportConverges C11_RejectedUntouched C11_ReexportEqual C11_AppendAfterRestore
CHECK_DEADLOCK FALSE

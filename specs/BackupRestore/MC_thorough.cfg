\* two channels, logs <= 3, page sizes 1 and 2, probes: measured below
SPECIFICATION Spec
CONSTANTS
  ChanSeq <- MCChanSeq2
  MaxLen = 3
  Cfgs <- MCCfgsMsg
  BadVariants = {"dropLast"}
  MaxAppends = 1
  MaxAttempts = 2
VIEW View
INVARIANTS TypeOK C11_NothingAboveHW C11_NoOrphanRows C11_WarmFresh C11_OtherSlotKept
PROPERTIES C11_ImportConverges C11_RejectedUntouched C11_ReexportEqual C11_AppendAfterRestore
CHECK_DEADLOCK FALSE

\* one channel, logs / key sets <= 3, every instance and every stream variant, 3 attempts: 188,901 distinct / 1,771,497 generated states, ~1 min with 4 workers
SPECIFICATION Spec
CONSTANTS
  ChanSeq <- MCChanSeq1
  MaxLen = 3
  Cfgs <- MCCfgsFull
  BadVariants = {"trunc", "dropLast", "dropLastFix", "swapFix", "hwLowFix", "otherSlot"}
  MaxAppends = 2
  MaxAttempts = 3
VIEW View
INVARIANTS TypeOK C11_NothingAboveHW C11_NoOrphanRows C11_WarmFresh C11_OtherSlotKept
PROPERTIES C11_ImportConverges C11_RejectedUntouched C11_ReexportEqual C11_AppendAfterRestore
CHECK_DEADLOCK FALSE

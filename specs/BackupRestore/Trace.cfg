SPECIFICATION TraceSpec
CONSTANTS
  ChanSeq <- TraceChanSeq
  MaxLen = 4
  Cfgs <- TraceCfgs
  BadVariants = {"trunc", "dropLast", "dropLastFix", "swapFix", "hwLowFix", "otherSlot"}
  MaxAppends = 1000000
  MaxAttempts = 1000000
CONSTRAINT Track
INVARIANTS Conform TypeOK C11_NothingAboveHW C11_NoOrphanRows C11_WarmFresh C11_OtherSlotKept
PROPERTIES C11_ImportConverges C11_RejectedUntouched C11_ReexportEqual C11_AppendAfterRestore
POSTCONDITION Accepted
CHECK_DEADLOCK FALSE

---------------------------------- MODULE MC ----------------------------------
(* Exhaustive model checking of BackupRestore: the channel order (a sequence cannot be
   written in a TLC configuration file) and nothing else. *)
EXTENDS BackupRestore
MCChanSeq1 == << "c1" >>
MCChanSeq2 == << "c1", "c2" >>
===============================================================================

---------------------------------- MODULE MC ----------------------------------
(* Exhaustive model checking of BackupRestore: the channel order and the instance records
   (neither can be written in a TLC configuration file) and nothing else.  For the message
   kind the API variant does not change the model (both install the same pages), so one is
   enough there; for the metadata kind "bytes" is the one-batch import. *)
EXTENDS BackupRestore
MCChanSeq1 == << "c1" >>
MCChanSeq2 == << "c1", "c2" >>
C(k, a, p) == [kind |-> k, api |-> a, ps |-> p]
MCCfgsSmall == {C("msg", "reader", 1), C("meta", "reader", 1), C("meta", "bytes", 1)}
MCCfgsOne   == {C("msg", "reader", 1), C("msg", "reader", 2), C("meta", "reader", 2)}
MCCfgsMsg   == {C("msg", "reader", 1), C("msg", "reader", 2)}
MCCfgsFull  == {C("msg", "reader", 1), C("msg", "reader", 2), C("msg", "bytes", 4),
                C("meta", "reader", 1), C("meta", "reader", 2), C("meta", "bytes", 1)}
===============================================================================

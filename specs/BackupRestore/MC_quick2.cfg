\* one channel, logs <= 3, probes (touch / append / audit), page sizes 1 and 2: 38,766 distinct / 259,507 generated states, ~20 s with 4 workers
SPECIFICATION Spec
CONSTANTS
  ChanSeq <- MCChanSeq1
  MaxLen = 3
  Cfgs <- MCCfgsOne
  BadVariants = {"dropLast", "hwLowFix"}
  MaxAppends = 1
  MaxAttempts = 2
VIEW View
INVARIANTS TypeOK C11_NothingAboveHW C11_NoOrphanRows C11_WarmFresh C11_OtherSlotKept
PROPERTIES C11_ImportConverges C11_RejectedUntouched C11_ReexportEqual C11_AppendAfterRestore
CHECK_DEADLOCK FALSE

---------------------------- MODULE BackupRestore ----------------------------
(* Backup and restore of one hash slot (property C11).

   Two store kinds share this module; the kind of an instance is chosen in Init (cfg.kind):

   "msg"   the node-local message store behind pkg/channel/store.MessageDBFactory
           (pkg/db/message): OpenBackupSnapshotWithStats at exact committed cuts,
           ImportBackupSnapshotReader / ImportBackupSnapshot, DiscardRestoreChannels.
   "meta"  the slot metadata store (pkg/db/meta): OpenBackupHashSlotSnapshot /
           ExportHashSlotSnapshot, ImportHashSlotSnapshotReaderForRestoreWithStats /
           ImportHashSlotSnapshot, DeleteHashSlotData.

   What the code does (and this module says), message kind
     * The content of row (c, seq) is fixed by the harness (id, sender, client number and
       payload are functions of (c, seq)), so a log is described by which sequences exist.
       A source channel has a log 1..leo made of exact proposals (sEnds = their last
       offsets), a committed watermark hw <= leo (rows above it are the uncommitted
       suffix), and a retention state [local, phys, rmax]: local = adopted boundary,
       phys = rows physically trimmed through, rmax = RetainedMaxSeq.
     * Export(cut) streams, per channel in key order, the checkpoint, every system entry
       at or below the cut (entry identities 1..hw, proposals ending <= hw, the retention
       state, verbatim) and the rows (phys, hw].  A cut strictly inside a proposal is
       refused.  The stream ends with a CRC-32 trailer.
     * An import first verifies the whole stream (checksum, then structure); a stream that
       fails leaves the target untouched.  It then installs page by page, every page one
       synchronous batch: per channel one metadata page (catalog entry, checkpoint, system
       entries; it also drops the registry's warm state of that channel) followed by row
       pages of cfg.ps rows (in the code 1024), each row with all its secondary indexes.
       Installing is Set-only: replaying the same stream over a partial result is
       idempotent.  Crash = the import is abandoned after any page ("abort": the call
       fails, the process lives on; "restart": close and reopen; a power-loss image is the
       same state because every page is synced).
     * DiscardRestoreChannels removes a channel in durable steps: the rows with their indexes
       from the front in batches (DiscardRows), then the whole partition and the catalog
       entry (DiscardMeta).
     * Probes on the target: Touch (open a channel store, load its log end, close it: the
       registry keeps that log end warm), Append (a non-exact leader append of one record
       whose idempotency key is that of row k), Reexport (cut recomputed from the target as
       the cluster layer does; compared byte for byte with the export), Audit (exact
       frontier, entry identities, proposals).

   Metadata kind: a hash slot holds users 1..MaxLen (value 0 = absent, 1, 2 = two token
   versions) and one runtime-meta row that a backup stream leaves out; the other hash slot
   of the same database must never be touched.  The stream import first deletes the slot
   (one page) and then installs cfg.ps entries per page; the byte-slice import does both
   in one batch.

   The properties (named C11_...) are at the end. *)
EXTENDS Integers, Sequences, FiniteSets, SequencesExt, FiniteSetsExt, TLC

CONSTANTS
  ChanSeq,    \* channel names (strings) in stream order (= order of their storage keys)
  MaxLen,     \* bound on a source log / number of metadata keys
  Cfgs,       \* instances tried: records [kind : {"msg","meta"}, api : {"reader","bytes"}, ps : page size]
  BadVariants,\* stream mutations tried (strings), see Applicable
  MaxAppends, \* bound on probe appends on the target
  MaxAttempts \* bound on import attempts

VARIABLES
  \* message source
  sLeo, sEnds, sHw, sRet,
  \* metadata source
  mSrc, mRt,
  \* the export (frozen copy of what the stream carries) and whether one was taken
  exp,
  \* message target
  tMeta, tRows, tApp, warm,
  \* metadata target
  mTgt, mTRt, mOther,
  \* import in progress, bookkeeping
  imp, attempts, appends, cfg, ev

Chans == {ChanSeq[i] : i \in 1..Len(ChanSeq)}

srcVars == <<sLeo, sEnds, sHw, sRet, mSrc, mRt>>
tgtVars == <<tMeta, tRows, tApp, warm, mTgt, mTRt, mOther>>
vars    == <<sLeo, sEnds, sHw, sRet, mSrc, mRt, exp, tMeta, tRows, tApp, warm,
             mTgt, mTRt, mOther, imp, attempts, appends, cfg, ev>>

Msg  == cfg.kind = "msg"
Meta == cfg.kind = "meta"

MaxOf(a, b) == IF a > b THEN a ELSE b
MinOf(a, b) == IF a < b THEN a ELSE b
SetMax(S)   == IF S = {} THEN 0 ELSE Max(S)
Sorted(S)  == SetToSortSeq(S, <)

NoRet  == [local |-> 0, phys |-> 0, rmax |-> 0]
NoExp  == [ok |-> FALSE]
Idle   == [st |-> "idle", pos |-> 0, api |-> "", n |-> 0]

Init ==
  /\ sLeo  = [c \in Chans |-> 0]
  /\ sEnds = [c \in Chans |-> {}]
  /\ sHw   = [c \in Chans |-> 0]
  /\ sRet  = [c \in Chans |-> NoRet]
  /\ mSrc  = [k \in 1..MaxLen |-> 0]
  /\ mRt   = FALSE
  /\ exp   = NoExp
  /\ tMeta = [c \in Chans |-> FALSE]
  /\ tRows = [c \in Chans |-> {}]
  /\ tApp  = [c \in Chans |-> <<>>]
  /\ warm  = [c \in Chans |-> -1]
  /\ mTgt  = [k \in 1..MaxLen |-> 0]
  /\ mTRt  = FALSE
  /\ mOther = TRUE
  /\ imp = Idle
  /\ attempts = 0
  /\ appends = 0
  /\ cfg \in Cfgs
  /\ ev = [a |-> "Init", cfg |-> cfg, maxLen |-> MaxLen]

Building == ~exp.ok /\ imp.st = "idle"      \* the source is frozen once an export exists

-------------------------------------------------------------------------------
\* Message source: history building (exported API of the channel store).

\* One exact proposal of n records appended after the log end.
SrcAppend(c, n) ==
  /\ Msg /\ Building
  /\ sLeo[c] + n <= MaxLen
  /\ sLeo'  = [sLeo EXCEPT ![c] = @ + n]
  /\ sEnds' = [sEnds EXCEPT ![c] = @ \cup {sLeo[c] + n}]
  /\ ev' = [a |-> "SrcAppend", c |-> c, n |-> n, res |-> [base |-> sLeo[c] + 1, last |-> sLeo[c] + n]]
  /\ UNCHANGED <<sHw, sRet, mSrc, mRt, exp, tgtVars, imp, attempts, appends, cfg>>

\* The committed watermark advances (monotonic checkpoint).
SrcCommit(c, h) ==
  /\ Msg /\ Building
  /\ h > sHw[c] /\ h <= sLeo[c]
  /\ sHw' = [sHw EXCEPT ![c] = h]
  /\ ev' = [a |-> "SrcCommit", c |-> c, hw |-> h, res |-> [hw |-> h]]
  /\ UNCHANGED <<sLeo, sEnds, sRet, mSrc, mRt, exp, tgtVars, imp, attempts, appends, cfg>>

\* Retention: adopt a boundary at or below the watermark, then trim through it.
SrcAdopt(c, t) ==
  /\ Msg /\ Building
  /\ t > sRet[c].local /\ t <= sHw[c]
  /\ sRet' = [sRet EXCEPT ![c] = [local |-> t, phys |-> @.phys,
                                  rmax |-> MaxOf(@.rmax, MaxOf(sLeo[c], t))]]
  /\ ev' = [a |-> "SrcAdopt", c |-> c, through |-> t, res |-> [rmax |-> sRet'[c].rmax]]
  /\ UNCHANGED <<sLeo, sEnds, sHw, mSrc, mRt, exp, tgtVars, imp, attempts, appends, cfg>>

SrcTrim(c) ==
  /\ Msg /\ Building
  /\ sRet[c].local > sRet[c].phys
  /\ sRet' = [sRet EXCEPT ![c] = [local |-> @.local, phys |-> @.local,
                                  rmax |-> MaxOf(@.rmax, sLeo[c])]]
  /\ ev' = [a |-> "SrcTrim", c |-> c,
            res |-> [deleted |-> sRet[c].local - sRet[c].phys, through |-> sRet[c].local]]
  /\ UNCHANGED <<sLeo, sEnds, sHw, mSrc, mRt, exp, tgtVars, imp, attempts, appends, cfg>>

\* Metadata source.
MetaPut(k, v) ==
  /\ Meta /\ Building
  /\ mSrc[k] # v
  /\ mSrc' = [mSrc EXCEPT ![k] = v]
  /\ ev' = [a |-> "MetaPut", k |-> k, v |-> v, res |-> [ok |-> TRUE]]
  /\ UNCHANGED <<sLeo, sEnds, sHw, sRet, mRt, exp, tgtVars, imp, attempts, appends, cfg>>

MetaPutRt ==
  /\ Meta /\ Building /\ ~mRt
  /\ mRt' = TRUE
  /\ ev' = [a |-> "MetaPutRt", res |-> [ok |-> TRUE]]
  /\ UNCHANGED <<sLeo, sEnds, sHw, sRet, mSrc, exp, tgtVars, imp, attempts, appends, cfg>>

\* Pre-existing content of the target's slot (must be replaced by a restore).
MetaTgtPut(k, v) ==
  /\ Meta /\ Building /\ attempts = 0
  /\ v # 0 /\ mTgt[k] = 0
  /\ mTgt' = [mTgt EXCEPT ![k] = v]
  /\ ev' = [a |-> "MetaTgtPut", k |-> k, v |-> v, res |-> [ok |-> TRUE]]
  /\ UNCHANGED <<srcVars, exp, tMeta, tRows, tApp, warm, mTRt, mOther, imp, attempts, appends, cfg>>

MetaTgtPutRt ==
  /\ Meta /\ Building /\ attempts = 0 /\ ~mTRt
  /\ mTRt' = TRUE
  /\ ev' = [a |-> "MetaTgtPutRt", res |-> [ok |-> TRUE]]
  /\ UNCHANGED <<srcVars, exp, tMeta, tRows, tApp, warm, mTgt, mOther, imp, attempts, appends, cfg>>

-------------------------------------------------------------------------------
\* Export.

Included   == {c \in Chans : sLeo[c] > 0}            \* channels with a catalog entry
Straddle(c) == sHw[c] # 0 /\ sHw[c] \notin sEnds[c]  \* the cut is strictly inside a proposal
ExpRows(e)  == (e.ret.phys + 1) .. e.hw

ChanExport(c) ==
  [hw |-> sHw[c], ls |-> sRet[c].local, ret |-> sRet[c],
   ends |-> {x \in sEnds[c] : x <= sHw[c]}]

MsgStats(x) ==
  [channels |-> Cardinality(DOMAIN x),
   messages |-> FoldSet(LAMBDA c, acc : acc + Cardinality(ExpRows(x[c])), 0, DOMAIN x)]
NoStats == [channels |-> 0, messages |-> 0]

MetaEntries(m) == {k \in 1..MaxLen : m[k] # 0}

\* The entry point (OpenBackupSnapshot or OpenBackupSnapshotWithStats) and the order in which
\* the channel cuts are handed over are not arguments of the model: the stream and its
\* statistics are a function of the cut alone.  The harness takes every export through both
\* entry points with the cuts in every order and requires identical bytes and statistics.
Export ==
  /\ Building
  /\ IF Msg
       THEN /\ Included # {}
            /\ IF \E c \in Included : Straddle(c)
                 THEN /\ exp' = exp
                      /\ ev' = [a |-> "Export", res |-> [err |-> "rejected", stats |-> NoStats]]
                 ELSE LET x == [c \in Included |-> ChanExport(c)] IN
                      /\ exp' = [ok |-> TRUE, ch |-> x]
                      /\ ev' = [a |-> "Export", res |-> [err |-> "", stats |-> MsgStats(x)]]
       ELSE /\ exp' = [ok |-> TRUE, m |-> mSrc, rt |-> (cfg.api = "bytes" /\ mRt)]
            /\ ev' = [a |-> "Export",
                      res |-> [err |-> "", stats |-> [channels |-> 0, messages |-> Cardinality(MetaEntries(mSrc))]]]
  /\ UNCHANGED <<srcVars, tgtVars, imp, attempts, appends, cfg>>

ExpChans == IF exp.ok /\ Msg THEN DOMAIN exp.ch ELSE {}

-------------------------------------------------------------------------------
\* Pages of the stream.  A page is a record [t, c, rows] (message kind) or [t, keys].

\* rows of channel c in ascending order, cut into pages of cfg.ps
RowPages(c) ==
  LET rs == Sorted(ExpRows(exp.ch[c]))
      n  == Len(rs)
      np == (n + cfg.ps - 1) \div cfg.ps
  IN [j \in 1..np |-> [t |-> "rows", c |-> c,
                       rows |-> {rs[i] : i \in ((j - 1) * cfg.ps + 1) .. MinOf(j * cfg.ps, n)}]]

RECURSIVE ChanPages(_)
ChanPages(cs) ==
  IF cs = <<>> THEN <<>>
  ELSE << [t |-> "meta", c |-> Head(cs), rows |-> {}] >> \o RowPages(Head(cs)) \o ChanPages(Tail(cs))

MetaPages ==
  LET ks == Sorted(MetaEntries(exp.m))
      n  == Len(ks)
  IN IF cfg.api = "bytes"
       THEN << [t |-> "all", keys |-> MetaEntries(exp.m)] >>
       ELSE << [t |-> "clear", keys |-> {}] >> \o
            [j \in 1..((n + cfg.ps - 1) \div cfg.ps) |->
               [t |-> "set", keys |-> {ks[i] : i \in ((j - 1) * cfg.ps + 1) .. MinOf(j * cfg.ps, n)}]]

Pages == IF ~exp.ok THEN <<>>
         ELSE IF Msg THEN ChanPages(SelectSeq(ChanSeq, LAMBDA c : c \in ExpChans))
         ELSE MetaPages

\* A stream mutation at record boundaries can be built only when the stream has the shape
\* it needs (the harness builds exactly these):
\*   trunc        cut after some record boundary, trailer lost
\*   dropLast     the bytes of the last page removed, old trailer kept
\*   dropLastFix  the same with the trailer recomputed (structure then disagrees with the counts)
\*   swapFix      two channel blocks, or two rows of one channel, exchanged; trailer recomputed
\*   hwLowFix     the checkpoint watermark of a channel lowered below its last row; trailer recomputed
\*   otherSlot    a well-formed stream of another hash slot
Applicable(v) ==
  /\ exp.ok
  /\ CASE v = "swapFix"  -> Msg /\ (Cardinality(ExpChans) >= 2
                                     \/ \E c \in ExpChans : Cardinality(ExpRows(exp.ch[c])) >= 2)
       [] v = "hwLowFix" -> Msg /\ \E c \in ExpChans : ExpRows(exp.ch[c]) # {}
       [] OTHER          -> TRUE

-------------------------------------------------------------------------------
\* Target state helpers (message kind).

AppSeqs(c)  == {exp.ch[c].hw + i : i \in 1..Len(tApp[c])}    \* rows appended after the import
LastRow(c)  == SetMax(tRows[c] \cup (IF tApp[c] # <<>> THEN AppSeqs(c) ELSE {}))
\* Log end of a target channel: last row, or the retained log end when the tail was trimmed.
\* The code takes RetainedMaxSeq as exported; the exported watermark bounds it here
\* ("nothing above the exported watermark").
TgtLeo(c) ==
  IF ~tMeta[c] THEN LastRow(c)
  ELSE MaxOf(LastRow(c), MinOf(exp.ch[c].ret.rmax, exp.ch[c].hw))

\* Idempotency keys present on the target: key k = key of source row k.
TgtKeys(c) == tRows[c] \cup {tApp[c][i] : i \in 1..Len(tApp[c])}

Complete ==
  /\ exp.ok
  /\ IF Msg
       THEN /\ \A c \in Chans : tMeta[c] = (c \in ExpChans)
            /\ \A c \in ExpChans : tRows[c] = ExpRows(exp.ch[c])
            /\ \A c \in Chans \ ExpChans : tRows[c] = {}
       ELSE mTgt = exp.m /\ mTRt = exp.rt

-------------------------------------------------------------------------------
\* Verification and import.

Stats == IF ~exp.ok THEN NoStats
         ELSE IF Msg THEN MsgStats(exp.ch)
         ELSE [channels |-> 0, messages |-> Cardinality(MetaEntries(exp.m))]

\* Verification only (ReplayBackupSnapshotReader / VerifyBackupHashSlotSnapshotReader).
Verify(v) ==
  /\ exp.ok /\ imp.st = "idle"
  /\ v = "ok" \/ (v \in BadVariants /\ Applicable(v))
  /\ ev' = [a |-> "Verify", v |-> v,
            res |-> IF v = "ok" THEN [err |-> "", stats |-> Stats] ELSE [err |-> "rejected", stats |-> NoStats]]
  /\ UNCHANGED <<srcVars, exp, tgtVars, imp, attempts, appends, cfg>>

\* An import call begins: the stream is verified; a bad stream is rejected with the target
\* as it was.  (The first attempt is the import, later ones are RetryImport.)
BeginImport(v) ==
  /\ exp.ok /\ imp.st = "idle" /\ attempts < MaxAttempts
  /\ v = "ok" \/ (v \in BadVariants /\ Applicable(v) /\ ~(Msg /\ v = "otherSlot"))
  /\ IF v = "ok"
       THEN /\ imp' = [st |-> "run", pos |-> 0, api |-> cfg.api, n |-> Len(Pages)]
            /\ attempts' = attempts + 1
            /\ ev' = [a |-> "BeginImport", v |-> v, retry |-> attempts > 0, res |-> [err |-> ""]]
       ELSE /\ imp' = imp
            /\ attempts' = attempts
            /\ ev' = [a |-> "BeginImport", v |-> v, retry |-> attempts > 0, res |-> [err |-> "rejected"]]
  /\ UNCHANGED <<srcVars, exp, tgtVars, appends, cfg>>

RetryImport(v) == attempts > 0 /\ BeginImport(v)

\* One page becomes durable.  The last page completes the call.
ImportPage ==
  /\ imp.st = "run" /\ imp.pos < imp.n
  /\ LET p    == Pages[imp.pos + 1]
         last == imp.pos + 1 = imp.n
     IN
       /\ IF Msg
            THEN /\ tMeta' = IF p.t = "meta" THEN [tMeta EXCEPT ![p.c] = TRUE] ELSE tMeta
                 /\ tRows' = IF p.t = "rows" THEN [tRows EXCEPT ![p.c] = @ \cup p.rows] ELSE tRows
                 /\ warm'  = IF p.t = "meta" THEN [warm EXCEPT ![p.c] = -1] ELSE warm
                 /\ UNCHANGED <<tApp, mTgt, mTRt, mOther>>
            ELSE /\ mTgt' = CASE p.t = "clear" -> [k \in 1..MaxLen |-> 0]
                              [] p.t = "set"   -> [k \in 1..MaxLen |-> IF k \in p.keys THEN exp.m[k] ELSE mTgt[k]]
                              [] p.t = "all"   -> exp.m
                 /\ mTRt' = CASE p.t = "clear" -> FALSE [] p.t = "all" -> exp.rt [] OTHER -> mTRt
                 /\ UNCHANGED <<tMeta, tRows, tApp, warm, mOther>>
       /\ imp' = IF last THEN Idle ELSE [imp EXCEPT !.pos = @ + 1]
       /\ ev' = [a |-> "ImportPage", i |-> imp.pos + 1, t |-> p.t,
                 res |-> [done |-> last, stats |-> IF last THEN Stats ELSE NoStats]]
  /\ UNCHANGED <<srcVars, exp, attempts, appends, cfg>>

\* The import is abandoned after the pages installed so far.
Crash(kind) ==
  /\ imp.st = "run"
  /\ kind \in {"abort", "restart"}
  /\ imp' = Idle
  /\ warm' = IF kind = "restart" THEN [c \in Chans |-> -1] ELSE warm
  /\ ev' = [a |-> "Crash", kind |-> kind, after |-> imp.pos, res |-> [ok |-> TRUE]]
  /\ UNCHANGED <<srcVars, exp, tMeta, tRows, tApp, mTgt, mTRt, mOther, attempts, appends, cfg>>

\* Close and reopen the target outside an import.
Restart ==
  /\ imp.st = "idle" /\ exp.ok
  /\ warm' = [c \in Chans |-> -1]
  /\ ev' = [a |-> "Restart", res |-> [ok |-> TRUE]]
  /\ UNCHANGED <<srcVars, exp, tMeta, tRows, tApp, mTgt, mTRt, mOther, imp, attempts, appends, cfg>>

-------------------------------------------------------------------------------
\* Cleanup of the target.

\* A discard call that lost power before it finished (the store is reopened, so nothing is
\* warm).  Rows are deleted from the front in batches of the install size: b = 0 means every
\* row is gone (appended ones included), otherwise the restored rows up to b are.  DiscardMeta
\* is what the repeated call still has to do for a channel without rows.
DiscardRows(c, b) ==
  /\ Msg /\ imp.st = "idle" /\ exp.ok
  /\ tMeta[c]
  /\ IF b = 0
       THEN /\ tRows[c] # {} \/ tApp[c] # <<>>
            /\ tRows' = [tRows EXCEPT ![c] = {}]
            /\ tApp'  = [tApp EXCEPT ![c] = <<>>]
       ELSE /\ \E r \in tRows[c] : r <= b
            /\ tRows' = [tRows EXCEPT ![c] = {r \in @ : r > b}]
            /\ tRows'[c] # {} \/ tApp[c] # <<>>
            /\ tApp'  = tApp
  /\ warm'  = [x \in Chans |-> -1]
  /\ ev' = [a |-> "DiscardRows", c |-> c, through |-> b, res |-> [ok |-> TRUE]]
  /\ UNCHANGED <<srcVars, exp, tMeta, mTgt, mTRt, mOther, imp, attempts, appends, cfg>>

DiscardMeta(c) ==
  /\ Msg /\ imp.st = "idle" /\ exp.ok
  /\ tMeta[c] /\ tRows[c] = {} /\ tApp[c] = <<>>
  /\ tMeta' = [tMeta EXCEPT ![c] = FALSE]
  /\ warm'  = [warm EXCEPT ![c] = -1]
  /\ ev' = [a |-> "DiscardMeta", c |-> c, res |-> [ok |-> TRUE]]
  /\ UNCHANGED <<srcVars, exp, tRows, tApp, mTgt, mTRt, mOther, imp, attempts, appends, cfg>>

\* One complete DiscardRestoreChannels / DeleteHashSlotData call.
Discard ==
  /\ imp.st = "idle" /\ exp.ok
  /\ IF Msg
       THEN /\ \E c \in Chans : tMeta[c]
            /\ tMeta' = [c \in Chans |-> FALSE]
            /\ tRows' = [c \in Chans |-> {}]
            /\ tApp'  = [c \in Chans |-> <<>>]
            /\ warm'  = [c \in Chans |-> IF tMeta[c] THEN -1 ELSE warm[c]]
            /\ UNCHANGED <<mTgt, mTRt, mOther>>
       ELSE /\ MetaEntries(mTgt) # {} \/ mTRt
            /\ mTgt' = [k \in 1..MaxLen |-> 0]
            /\ mTRt' = FALSE
            /\ UNCHANGED <<tMeta, tRows, tApp, warm, mOther>>
  /\ ev' = [a |-> "Discard", res |-> [ok |-> TRUE]]
  /\ UNCHANGED <<srcVars, exp, imp, attempts, appends, cfg>>

-------------------------------------------------------------------------------
\* Probes on the target.

\* Open a store handle of channel c, load its log end, close it: the registry keeps the
\* log end as warm state of the channel.
Touch(c) ==
  /\ Msg /\ imp.st = "idle" /\ exp.ok
  /\ MaxAppends > 0                     \* (a configuration without probes has none at all)
  /\ warm' = [warm EXCEPT ![c] = TgtLeo(c)]
  /\ ev' = [a |-> "Touch", c |-> c, res |-> [leo |-> TgtLeo(c)]]
  /\ UNCHANGED <<srcVars, exp, tMeta, tRows, tApp, mTgt, mTRt, mOther, imp, attempts, appends, cfg>>

\* A non-exact leader append of one record carrying the idempotency key of row k.  It lands
\* after the log end the store believes in (the warm one when present).
TgtAppend(c, k) ==
  /\ Msg /\ imp.st = "idle" /\ Complete /\ c \in ExpChans
  /\ appends < MaxAppends
  /\ LET leo == IF warm[c] # -1 THEN warm[c] ELSE TgtLeo(c)
         dup == k \in TgtKeys(c)
     IN
       /\ appends' = appends + 1
       /\ IF dup
            THEN /\ tApp' = tApp
                 /\ warm' = [warm EXCEPT ![c] = leo]          \* the handle it used is closed again
                 /\ ev' = [a |-> "Append", c |-> c, k |-> k, res |-> [err |-> "rejected", base |-> 0]]
            ELSE /\ tApp' = [tApp EXCEPT ![c] = Append(@, k)]
                 /\ warm' = [warm EXCEPT ![c] = leo + 1]
                 /\ ev' = [a |-> "Append", c |-> c, k |-> k, res |-> [err |-> "", base |-> leo + 1]]
  /\ UNCHANGED <<srcVars, exp, tMeta, tRows, mTgt, mTRt, mOther, imp, attempts, cfg>>

\* Export the target again at the cut recomputed from the target; byte comparison.  (A backup
\* stream of the metadata store does not carry runtime rows, so they do not show in it.)
SameStream ==
  IF Msg THEN Complete
  ELSE mTgt = exp.m /\ (cfg.api = "bytes" => mTRt = exp.rt)

Reexport ==
  /\ imp.st = "idle" /\ exp.ok
  /\ ev' = [a |-> "Reexport", res |-> [same |-> SameStream]]
  /\ UNCHANGED <<srcVars, exp, tgtVars, imp, attempts, appends, cfg>>

\* Exact frontier, entry identities and proposals of every restored channel.
Audit ==
  /\ Msg /\ imp.st = "idle" /\ Complete
  /\ \A c \in Chans : tApp[c] = <<>>
  /\ ev' = [a |-> "Audit",
            res |-> [c \in ExpChans |->
                       [leo |-> exp.ch[c].hw, hw |-> exp.ch[c].hw,
                        idents |-> Sorted(1 .. exp.ch[c].hw),
                        props |-> Sorted(exp.ch[c].ends)]]]
  /\ UNCHANGED <<srcVars, exp, tgtVars, imp, attempts, appends, cfg>>

-------------------------------------------------------------------------------
Next ==
  \/ \E c \in Chans, n \in 1..2 : SrcAppend(c, n)
  \/ \E c \in Chans, h \in 1..MaxLen : SrcCommit(c, h)
  \/ \E c \in Chans, t \in 1..MaxLen : SrcAdopt(c, t)
  \/ \E c \in Chans : SrcTrim(c)
  \/ \E k \in 1..MaxLen, v \in 0..2 : MetaPut(k, v)
  \/ MetaPutRt
  \/ \E k \in 1..MaxLen, v \in 1..2 : MetaTgtPut(k, v)
  \/ MetaTgtPutRt
  \/ Export
  \/ \E v \in BadVariants \cup {"ok"} : Verify(v)
  \/ \E v \in BadVariants \cup {"ok"} : BeginImport(v)
  \/ ImportPage
  \/ \E kind \in {"abort", "restart"} : Crash(kind)
  \/ Restart
  \/ \E c \in Chans, b \in 0..MaxLen : DiscardRows(c, b)
  \/ \E c \in Chans : DiscardMeta(c)
  \/ Discard
  \/ \E c \in Chans : Touch(c)
  \/ \E c \in Chans, k \in 1..(MaxLen + 1) : TgtAppend(c, k)
  \/ Reexport
  \/ Audit

Spec == Init /\ [][Next]_vars

-------------------------------------------------------------------------------
\* Projection: what the harness reads from the target after every step.

ChanProj(c) ==
  [cat  |-> tMeta[c],
   leo  |-> TgtLeo(c),
   hw   |-> IF tMeta[c] THEN MinOf(exp.ch[c].hw, TgtLeo(c)) ELSE 0,
   rows |-> Sorted(tRows[c] \cup (IF tApp[c] # <<>> THEN AppSeqs(c) ELSE {})),
   keys |-> [k \in 1..(MaxLen + 1) |->
               IF k \in tRows[c] THEN k
               ELSE IF \E i \in 1..Len(tApp[c]) : tApp[c][i] = k
                 THEN exp.ch[c].hw + (CHOOSE i \in 1..Len(tApp[c]) : tApp[c][i] = k)
                 ELSE 0],
   ids  |-> [s \in 1..MaxLen |-> IF s \in tRows[c] THEN s ELSE 0],
   ret  |-> IF tMeta[c] THEN << exp.ch[c].ret.local, exp.ch[c].ret.phys, exp.ch[c].ret.rmax >>
            ELSE << 0, 0, 0 >>]

Proj ==
  IF Msg THEN [kind |-> "msg", t |-> [c \in Chans |-> ChanProj(c)]]
  ELSE [kind |-> "meta", users |-> [k \in 1..MaxLen |-> mTgt[k]], rt |-> mTRt, other |-> mOther]

-------------------------------------------------------------------------------
\* Property C11 on the design.

TypeOK ==
  /\ \A c \in Chans : sHw[c] <= sLeo[c] /\ sRet[c].phys <= sRet[c].local /\ sRet[c].local <= sHw[c]
  /\ \A c \in Chans : sLeo[c] > 0 => sLeo[c] \in sEnds[c]
  /\ imp.st \in {"idle", "run"}
  /\ imp.st = "run" => exp.ok /\ imp.n = Len(Pages) /\ imp.pos < imp.n
  /\ Msg => mTgt = [k \in 1..MaxLen |-> 0] /\ ~mTRt
  /\ Meta => \A c \in Chans : ~tMeta[c] /\ tRows[c] = {}

\* The target holds nothing above the exported watermark (and nothing the export does
\* not carry) except what was appended to it after a complete restore.
C11_NothingAboveHW ==
  \A c \in Chans :
    /\ tRows[c] # {} => c \in ExpChans /\ tRows[c] \subseteq ExpRows(exp.ch[c])
    /\ tMeta[c] => c \in ExpChans
    /\ (tMeta[c] /\ tApp[c] = <<>>) => TgtLeo(c) <= exp.ch[c].hw

\* Rows never exist without the channel's catalog entry (cleanup finds every partial channel).
C11_NoOrphanRows == \A c \in Chans : (tRows[c] # {} \/ tApp[c] # <<>>) => tMeta[c]

\* Warm registry state is never stale.
C11_WarmFresh == \A c \in Chans : warm[c] # -1 => warm[c] = TgtLeo(c)

\* The metadata of the other hash slot is never touched.
C11_OtherSlotKept == mOther

\* An import that runs to its last page leaves exactly the exported content, whatever
\* happened before it (crashes, partial results, earlier content of the slot, retries).
C11_ImportConverges ==
  [][(ev'.a = "ImportPage" /\ ev'.res.done) => Complete']_vars

\* A stream that fails verification leaves the target as it was.
C11_RejectedUntouched ==
  [][(ev'.a \in {"BeginImport", "Verify"} /\ ev'.res.err = "rejected") =>
       (UNCHANGED tgtVars /\ imp' = imp)]_vars

\* Re-exporting a completely restored target reproduces the export; nothing else does.
C11_ReexportEqual ==
  [][ev'.a = "Reexport" => (ev'.res.same <=> SameStream) /\ (Complete => ev'.res.same)]_vars

\* After a complete restore the next append lands right after the exported watermark and
\* a key of a restored row is refused.
C11_AppendAfterRestore ==
  [][ev'.a = "Append" =>
       IF ev'.k \in TgtKeys(ev'.c) THEN ev'.res.err = "rejected"
       ELSE ev'.res.err = "" /\ ev'.res.base = exp.ch[ev'.c].hw + Len(tApp[ev'.c]) + 1]_vars

View == <<sLeo, sEnds, sHw, sRet, mSrc, mRt, exp, tMeta, tRows, tApp, warm,
          mTgt, mTRt, mOther, imp, attempts, appends, cfg>>
===============================================================================

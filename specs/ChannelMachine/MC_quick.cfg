SPECIFICATION Spec
CONSTANTS
  Nodes = {1, 2, 3}
  Locals = {1}
  Levels = {"machine", "reactor"}
  MaxOp = 2
  BatchIds = {1, 2}
  MaxOff = 2
  Epochs = {1}
  LEpochs = {1, 2}
  Leaders = {1, 2}
  ReplicaSets = {{1, 2, 3}}
  ISRs = {{1}, {1, 2, 3}}
  MinISRs = {1, 2}
  Statuses = {"active", "deleted"}
  Modes = {"quorum", "local"}
  Counts = {1, 2}
  Gens = {1}
  QLogs = {FALSE}
  StoreLeos = {0}
  StoreCks = {0}
  RGens = {1}
  MaxFut = 1
VIEW View
INVARIANTS TypeOK C06_Order
PROPERTIES C06_HWMonotone C06_QuorumReply C06_ReplyOnce C06_StaleFence C06_StaleMeta C06_AckGuard
CHECK_DEADLOCK FALSE
\* measured: 17,324 distinct / 1,135,660 generated states, depth 13 (about 10 s with 8 workers on an idle
\* 16-core machine; 45-130 s were observed while the machine ran at load 40-80)

--------------------------------- MODULE Sim ---------------------------------
(* Behaviour generator: `tlc -simulate` on this module prints one JSON behaviour
   per line ("BEH {...}") when a run reaches Depth steps.  The initial state fixes the
   binding level (machine / reactor / follower; at the follower level also the durable
   state before the load and whether a quorum log is configured); the disjuncts below are
   one successor per call kind, with aimed variants for the calls that only matter with
   the right argument (a fence change while a checkpoint or an apply is in flight, a leader
   switch or an older fence while the store load is in flight, ...). *)
EXTENDS ChannelMachine, Json, TLC
CONSTANTS Depth, Salt
VARIABLE hist

\* TLC draws the initial state of a run uniformly; the machine and reactor levels have one initial
\* state each, the follower level one per configuration, so the former are given Salt copies.
SimInit == /\ Init
           /\ \E k \in 1..Salt : /\ (cfg.level = "follower" => k = 1)
                                 /\ hist = << [ev |-> ev, st |-> Proj, salt |-> k] >>
Pick(S) == {RandomElement(S)}
PickOr(S, d) == IF S = {} THEN {d} ELSE {RandomElement(S)}
Coin(n) == RandomElement(1..n) = 1

Mach == cfg.level = "machine"
Reac == cfg.level = "reactor"
Fol  == cfg.level = "follower"
Loc  == cfg.local

Quorums == {q \in ISRs \X MinISRs : q[2] >= 1 /\ q[2] <= Cardinality(q[1])}
Mk(e, le, ld, rs, q, st) ==
  [epoch |-> e, lepoch |-> le, leader |-> ld, replicas |-> rs, isr |-> q[1], minISR |-> q[2], status |-> st]
RepFor(q) == {rs \in ReplicaSets : q[1] \subseteq rs}
\* the next metadata fence: a leader-epoch bump or an epoch bump
NextFences == {<<m.epoch, m.lepoch + 1>>, <<m.epoch + 1, 1>>} \ {<<0, 1>>}

SimMeta ==
  \* anything from the domain (mostly stale or invalid)
  \/ \E mt \in Pick(Metas) : Coin(3) /\ (Mach \/ (mt.leader = Loc /\ mt.status = "active")) /\ Meta(mt)
  \* a new fence that makes (or keeps) the local node the leader
  \/ \E f \in Pick(NextFences), q \in Pick(Quorums) : \E rs \in Pick(RepFor(q)) :
        Coin(5) /\ Meta(Mk(f[1], f[2], Loc, rs, q, "active"))
  \/ \E f \in Pick(NextFences), q \in Pick(Quorums) : \E rs \in Pick(RepFor(q)) :
        m.role # "leader" /\ Meta(Mk(f[1], f[2], Loc, rs, q, "active"))
  \* same fence, refreshed membership / quorum size (no append state is cleared)
  \/ \E q \in Pick(Quorums) : \E rs \in Pick(RepFor(q)) :
        m.role # "none" /\ Coin(2) /\ Meta(Mk(m.epoch, m.lepoch, m.leader, rs, q, IF Reac THEN "active" ELSE m.status))
  \* same fence, different leader (must be refused)
  \/ \E ld \in Pick(Leaders \ {m.leader}), q \in Pick(Quorums) : \E rs \in Pick(RepFor(q)) :
        m.role # "none" /\ Coin(4) /\ (Mach \/ ld = Loc) /\ Meta(Mk(m.epoch, m.lepoch, ld, rs, q, "active"))
  \* machine level only: lose leadership, change status
  \/ \E f \in Pick(NextFences), ld \in Pick(Leaders \ {Loc}), q \in Pick(Quorums) : \E rs \in Pick(RepFor(q)) :
        Mach /\ Coin(6) /\ Meta(Mk(f[1], f[2], ld, rs, q, "active"))
  \/ \E st \in Pick(Statuses), q \in Pick(Quorums) : \E rs \in Pick(RepFor(q)) :
        Mach /\ m.role # "none" /\ Coin(5) /\ Meta(Mk(m.epoch, m.lepoch, m.leader, rs, q, st))

W(o) == [op : {o}, mode : Modes, n : Counts \ {0}]
SimPropose ==
  \/ \E b \in Pick(BatchIds), w \in Pick(W(nextOp)) : Propose(b, <<w>>)
  \/ \E b \in Pick(BatchIds), w1 \in Pick(W(nextOp)), w2 \in Pick(W(nextOp + 1)) : Propose(b, <<w1, w2>>)
  \/ \E b \in Pick(BatchIds), w1 \in Pick(W(nextOp)), w2 \in Pick(W(nextOp + 1)), w3 \in Pick(W(nextOp + 2)) :
        Coin(2) /\ Propose(b, <<w1, w2, w3>>)
  \* refused shapes: pending op, duplicate op, empty waiter, empty batch
  \/ \E b \in Pick(BatchIds), o \in PickOr(DOMAIN m.pend, nextOp), k \in Pick(1..3) :
        Coin(3) /\ Propose(b, CASE k = 1 -> << [op |-> o, mode |-> "quorum", n |-> 1] >>
                                [] k = 2 -> << [op |-> nextOp, mode |-> "local", n |-> 1], [op |-> nextOp, mode |-> "quorum", n |-> 1] >>
                                [] k = 3 -> IF Coin(2) THEN << [op |-> nextOp, mode |-> "quorum", n |-> 0] >> ELSE << >>)

\* the matching fence with exactly one component changed
Near == {[Current EXCEPT !.epoch = @ + 1], [Current EXCEPT !.lepoch = @ + 1],
         [Current EXCEPT !.lepoch = IF @ > 0 THEN @ - 1 ELSE @ + 2],
         [Current EXCEPT !.op = @ + 1], [Current EXCEPT !.gen = 2]}

SimStored ==
  \/ \E f \in Pick(Near) : m.infl.present /\ Stored(f, m.leo + 1, m.leo + Total, FALSE)
  \* what a real store returns
  \/ m.infl.present /\ Stored(Current, m.leo + 1, m.leo + Total, FALSE)
  \/ m.infl.present /\ Stored(Current, m.leo + 1, m.leo + Total, FALSE)
  \* overlapping / short / far results
  \/ \E base \in Pick(1..MaxOff), short \in Pick({0, 0, 1}) :
        m.infl.present /\ Coin(2) /\ Stored(Current, base, base + Total - 1 - short, FALSE)
  \/ m.infl.present /\ Coin(3) /\ Stored(Current, 0, 0, TRUE)
  \/ \E f \in Pick(Fences \ {Current}), err \in Pick(BOOLEAN) :
        Coin(2) /\ Stored(f, m.leo + 1, m.leo + 1, err)

SimQuorum ==
  \/ \E f \in Pick(Near) : m.infl.present /\ Coin(2) /\ Quorum(f, m.leo + 1, m.leo + Total, m.leo + Total, FALSE)
  \/ m.infl.present /\ Quorum(Current, m.leo + 1, m.leo + Total, m.leo + Total, FALSE)
  \/ \E first \in Pick(0..MaxOff), d \in Pick({0, 1}), h \in Pick({0, 0, 1}) :
        m.infl.present /\ Coin(3) /\ Quorum(Current, first, first + Total - 1 - d, first + Total - 1 - d - h, FALSE)
  \/ m.infl.present /\ Coin(4) /\ Quorum(Current, 0, 0, 0, TRUE)
  \/ \E f \in Pick(Fences \ {Current}) : Coin(3) /\ Quorum(f, m.leo + 1, m.leo + 1, m.leo + 1, FALSE)

Targets == {m.pend[o].target : o \in DOMAIN m.pend} \ {0}
SimAck ==
  \/ \E f \in Pick(Nodes), off \in Pick(0..(m.leo + (IF Reac THEN 2 ELSE 0))) : Ack(f, off)
  \* a follower in the ISR acknowledging the log end or the target of a waiter
  \/ \E f \in PickOr(m.isr \ {Loc}, Loc), off \in Pick({m.leo} \cup {t \in Targets : t <= m.leo}) : Ack(f, off)
  \/ \E f \in PickOr(m.isr \ {Loc}, Loc), off \in Pick({m.leo} \cup {t \in Targets : t <= m.leo}) : Ack(f, off)
  \* the guard: just above the log end, from a replica
  \/ \E f \in PickOr(m.replicas \ {Loc}, Loc), d \in Pick({1, 1, 2}) : Reac /\ Ack(f, m.leo + d)

SimOther ==
  \/ \E o \in PickOr(DOMAIN m.pend, nextOp) : Coin(2) /\ Cancel(o)
  \/ m.infl.present /\ Coin(4) /\ Abort(m.infl.op)
  \/ \E b \in Pick(BatchIds) : Coin(4) /\ Abort(b)
  \/ \E v \in Pick(0..m.hw) : Coin(2) /\ Checkpoint(v)
  \/ m.hw > m.ckpt /\ Coin(2) /\ Checkpoint(m.hw)

SimAppend ==
  \/ \E mode \in Pick(Modes), n \in Pick(Counts \ {0}) : AppendReq(nextOp, mode, n)
  \/ \E mode \in Pick(Modes), n \in Pick(Counts \ {0}) : AppendReq(nextOp, mode, n)
  \/ \E n \in Pick(Counts \ {0}) : AppendReq(nextOp, "quorum", n)

-------------------------------------------------------------------------------
\* Follower level.  The reference fence is the one the runtime has, or is loading.
Ref == IF fx.phase = "loaded" THEN [epoch |-> m.epoch, lepoch |-> m.lepoch, leader |-> m.leader]
       ELSE IF fx.phase = "loading" THEN [epoch |-> fx.lmeta.epoch, lepoch |-> fx.lmeta.lepoch, leader |-> fx.lmeta.leader]
       ELSE [epoch |-> 1, lepoch |-> 0, leader |-> 0]
FNext == IF fx.phase = "absent" THEN {<<1, 1>>, <<1, 2>>, <<2, 1>>, <<2, 2>>}
         ELSE {<<Ref.epoch, Ref.lepoch + 1>>, <<Ref.epoch + 1, 1>>, <<Ref.epoch + 1, 2>>}
FOlder == {f \in (1..Ref.epoch) \X (1..3) : f[1] < Ref.epoch \/ f[2] < Ref.lepoch}
FQuorums(ld) == {q \in Quorums : ld \in q[1]}
FMk(e, le, ld, q, rg) == WithRG(Mk(e, le, ld, {1, 2, 3}, q, "active"), rg)
Others == Leaders \ {Loc}

SimFMeta ==
  \* the next fence under another node's leadership (the local node follows)
  \/ \E f \in Pick(FNext), ld \in Pick(Others), rg \in Pick(RGens) : \E q \in Pick(FQuorums(ld)) :
        FMeta(FMk(f[1], f[2], ld, q, rg))
  \/ \E f \in Pick(FNext), ld \in Pick(Others \ {Ref.leader}), rg \in Pick(RGens) : \E q \in Pick(FQuorums(ld)) :
        (fx.ck.on \/ fx.aps # {}) /\ FMeta(FMk(f[1], f[2], ld, q, rg))   \* while a checkpoint / apply is in flight
  \/ \E f \in Pick(FNext), ld \in Pick(Others \ {Ref.leader}), rg \in Pick(RGens) : \E q \in Pick(FQuorums(ld)) :
        fx.ck.on /\ FMeta(FMk(f[1], f[2], ld, q, rg))
  \* the next fence with the local node as leader (always in quorum mode, sometimes otherwise)
  \/ \E f \in Pick(FNext), rg \in Pick(RGens) : \E q \in Pick(FQuorums(Loc)) :
        (cfg.qlog \/ Coin(3)) /\ FMeta(FMk(f[1], f[2], Loc, q, rg))
  \* same fence, same leader: refreshed membership or route generation
  \/ \E rg \in Pick(RGens) : \E q \in Pick(FQuorums(Ref.leader)) :
        Ref.leader # 0 /\ Coin(2) /\ FMeta(FMk(Ref.epoch, Ref.lepoch, Ref.leader, q, rg))
  \* same fence, another leader (must be refused, also while the store load is in flight)
  \/ \E ld \in Pick(Leaders \ {Ref.leader}), rg \in Pick(RGens) : \E q \in Pick(FQuorums(ld)) :
        Ref.leader # 0 /\ (fx.phase = "loading" \/ Coin(3)) /\ FMeta(FMk(Ref.epoch, Ref.lepoch, ld, q, rg))
  \* an older fence (also while the store load is in flight)
  \/ \E f \in PickOr(FOlder, <<0, 0>>), ld \in Pick(Leaders), rg \in Pick(RGens) : \E q \in Pick(FQuorums(ld)) :
        FOlder # {} /\ (fx.phase = "loading" \/ Coin(3)) /\ FMeta(FMk(f[1], f[2], ld, q, rg))

\* answers of a leader that keep the follower's watermarks in order (see EnvHW)
Answers == {t \in (0..2) \X (0..MaxOff) \X (0..MaxOff) :
              /\ t[2] <= t[3] /\ t[3] >= m.leo + t[1] /\ t[3] <= m.leo + t[1] + 1
              /\ EnvHW(IF t[1] = 0 THEN Min2(m.leo, t[2]) ELSE Min2(Max2(fx.sleo, m.leo + t[1]), t[2]))}
CurPull == fx.phase = "loaded" /\ Fc(m) \in fx.pulls /\ FolActive(m) /\ fx.rs = "pulling"
Installs == {t \in (0..MaxOff) \X (0..MaxOff) : t[2] <= t[1] /\ EnvHW(t[2])}

SimFDone ==
  \/ LoadDone(FALSE)
  \/ Coin(6) /\ LoadDone(TRUE)
  \/ \E t \in PickOr(Answers, <<0, 0, 0>>) : CurPull /\ Answers # {} /\ PullResp(Fc(m), t[1], t[2], t[3])
  \* a caught-up follower learning a higher committed watermark (arms the checkpoint)
  \/ \E t \in PickOr({u \in Answers : u[1] = 0 /\ u[3] = m.leo /\ u[2] > m.hw}, <<0, 0, 0>>) :
        CurPull /\ t # <<0, 0, 0>> /\ PullResp(Fc(m), t[1], t[2], t[3])
  \/ \E t \in PickOr({u \in Answers : u[1] > 0}, <<0, 0, 0>>) :
        CurPull /\ t # <<0, 0, 0>> /\ PullResp(Fc(m), t[1], t[2], t[3])
  \* an answer to a pull of an earlier fence
  \/ \E f \in PickOr(fx.pulls \ {Fc(m)}, Fc(m)) : f \in fx.pulls /\ f # Fc(m) /\ PullResp(f, 1, 1, 1)
  \/ \E a \in PickOr(fx.aps, [epoch |-> 0, lepoch |-> 0]) :
        fx.aps # {} /\ ApplyDone([epoch |-> a.epoch, lepoch |-> a.lepoch])
  \/ Coin(5) /\ Tick
  \/ fx.rs \in {"parked", "lagging"} /\ Tick
  \/ fx.rs = "parked" /\ fx.due /\ Tick
  \/ CkptDone(FALSE)
  \/ Coin(4) /\ CkptDone(TRUE)
  \/ \E t \in PickOr(Installs, <<0, 0>>), i \in PickOr(fx.insts, [tok |-> 0]) :
        fx.insts # {} /\ Installs # {} /\ InstallDone(i.tok, t[1], t[2], FALSE)
  \/ \E i \in PickOr(fx.insts, [tok |-> 0]) : fx.insts # {} /\ Coin(4) /\ InstallDone(i.tok, 0, 0, TRUE)

\* nothing is outstanding: only new metadata can move the runtime
Quiet == /\ fx.phase # "loading" /\ fx.pulls = {} /\ fx.aps = {} /\ ~fx.ck.on /\ fx.insts = {}
         /\ fx.rs \notin {"parked", "lagging"}

SimStep ==
  \/ ~Fol /\ SimMeta
  \/ Mach /\ (SimPropose \/ SimStored \/ SimQuorum \/ SimOther)
  \/ Reac /\ SimAppend
  \/ ~Fol /\ SimAck
  \/ Fol /\ (Quiet \/ Coin(3)) /\ SimFMeta
  \/ Fol /\ SimFDone

SimNext == SimStep /\ hist' = Append(hist, [ev |-> ev', st |-> Proj'])
Emit    == Len(hist) = Depth + 1 => PrintT("BEH " \o ToJson([steps |-> hist]))
===============================================================================

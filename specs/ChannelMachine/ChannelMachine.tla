---------------------------- MODULE ChannelMachine ----------------------------
(* Channel runtime state machine (pkg/channel/machine, pure and exported) together
   with the reactor guard that bounds follower acknowledgements by the log end
   (pkg/channel/reactor/leader_replication.go).

   The abstract state `m` is a transcription of machine.ChannelState restricted to
   what property C06 speaks about: the metadata fence (epoch, leader epoch, leader,
   role, status), the membership used for the quorum (replicas, ISR, MinISR), the
   three watermarks, the replica progress table, the outstanding append waiters
   and the in-flight durable batch.  Record payloads, message ids, lease, retention
   and write-fence fields are not modelled.

   Every transition is written as an operator from a state to a state and a reply
   (suffix F) so that the reactor level append (propose + store completion inside
   one reactor turn) is the composition of two machine transitions.

   Two binding levels share this module; `cfg.level` selects which calls exist:
     "machine"  the exported methods of machine.ChannelState are called directly;
                ApplyFollowerAck is only ever called with an offset at or below the
                log end (that is what the reactor guarantees), and the checkpoint
                advance of the reactor (lifecycle_runtime.go, "if result > CheckpointHW")
                is an environment step.
     "reactor"  the calls go through reactor.Group: ApplyMeta, Append (propose, store,
                stored result) and follower acknowledgements with ANY offset through
                EventAck / EventPull.AckOffset, which is where the guard lives.

     "follower" the reactor's follower-side and checkpoint paths, which assign HW / LEO /
                CheckpointHW outside the pure machine (follower_replication.go,
                lifecycle_runtime.go, quorum_runtime.go, runtime_channel.go).  The reactor is
                driven with ApplyMeta and Tick events only; every blocking effect (store load,
                pull RPC, store apply, store checkpoint, quorum install) is an outstanding call
                whose completion is a separate action, so that a completion can be held back
                until after a metadata fence change.  See the section "Follower level".

   One action per exported call; every action records call and reply in `ev`
   (hidden by VIEW in exhaustive runs).  Property C06 is stated at the end. *)
EXTENDS Integers, Sequences, FiniteSets, SequencesExt

CONSTANTS
  Nodes,        \* replica ids, {1,2,3}
  Locals,       \* local node ids tried, {1}
  Levels,       \* subset of {"machine","reactor"}
  MaxOp,        \* waiter op ids are 1..MaxOp (issued in increasing order in exhaustive runs)
  BatchIds,     \* batch op ids used in store fences
  MaxOff,       \* bound on offsets fed in
  Epochs, LEpochs, Leaders, ReplicaSets, ISRs, MinISRs, Statuses,   \* metadata domain
  Modes,        \* subset of {"quorum","local","default"}
  Counts,       \* record counts per waiter
  Gens,         \* fence generations tried (1 is the generation of the state under test)
  QLogs,        \* follower level: subset of BOOLEAN, is a durable quorum log configured
  StoreLeos, StoreCks,  \* follower level: durable log end / checkpoint before the load (ck <= leo)
  RGens,        \* follower level: route generations carried by metadata (quorum authority)
  MaxFut        \* follower level: bound on ApplyMeta futures issued

VARIABLES
  m,        \* the channel state (record, see InitState)
  answered, \* history: waiter ops answered since they were last proposed
  nextOp,   \* history: smallest waiter op id never proposed
  cfg,      \* [local |-> node, level |-> "machine" | "reactor"], or for the follower level
            \* [local, level |-> "follower", qlog, sleo, sck] (durable state before the load)
  fx,       \* follower level: the reactor's state around the machine (see FxInit)
  ev        \* last call and reply (observation only)

vars == <<m, answered, nextOp, cfg, fx, ev>>

Gen    == 1
Max2(a, b) == IF a > b THEN a ELSE b
NoInfl == [present |-> FALSE, op |-> 0, wops |-> <<>>, counts |-> <<>>]
NoPend == [o \in {} |-> [target |-> 0, mode |-> "quorum", n |-> 0]]

InitState ==
  [role |-> "none", epoch |-> 0, lepoch |-> 0, leader |-> 0, replicas |-> {}, isr |-> {},
   minISR |-> 0, status |-> "none", ready |-> FALSE,
   leo |-> 0, hw |-> 0, ckpt |-> 0, progress |-> [n \in Nodes |-> 0],
   pend |-> NoPend,     \* op -> [target (0 = offsets not assigned yet), mode, n records]
   infl |-> NoInfl]     \* the durable batch waiting for its fenced store result

NoMeta == [epoch |-> 0, lepoch |-> 0, leader |-> 0, replicas |-> {}, isr |-> {}, minISR |-> 0,
           status |-> "none", rg |-> 0]
NoAuth == [epoch |-> 0, lepoch |-> 0, rg |-> 0, leader |-> 0, isr |-> {}, minISR |-> 0]
NoCk   == [on |-> FALSE, epoch |-> 0, lepoch |-> 0, v |-> 0]
NoInst == [on |-> FALSE, tok |-> 0, auth |-> NoAuth, futs |-> <<>>]

\* The reactor's state around one channel (only meaningful at the follower level).
FxInit(c) ==
  [phase |-> "absent",   \* "absent" | "loading" (async store load in flight) | "loaded"
   lmeta |-> NoMeta,     \* loading: the metadata the load will apply
   futs  |-> <<>>,       \* loading: ApplyMeta futures waiting for the load
   nf    |-> 1,          \* next future id
   rs    |-> "idle",     \* follower replication: "idle" | "pulling" | "applying" | "parked" | "lagging"
   lhw   |-> 0,          \* replication.lastLeaderHW
   due   |-> FALSE,      \* committedCheckpointDue is set
   ck    |-> NoCk,       \* the committed-HW checkpoint in flight (committedCheckpointOp) and its fence
   pulls |-> {},         \* fences [epoch, lepoch] of pull RPCs not answered yet
   aps   |-> {},         \* store applies not completed yet: [epoch, lepoch, base, n, lhw]
   rb    |-> FALSE,      \* HW has been assigned under the current metadata fence
   sleo  |-> IF "sleo" \in DOMAIN c THEN c.sleo ELSE 0,   \* durable log end
   sck   |-> IF "sck" \in DOMAIN c THEN c.sck ELSE 0,     \* durable checkpoint
   auth  |-> NoAuth,     \* quorum mode: authority proven by the last successful install
   inst  |-> NoInst,     \* quorum mode: the install the runtime is waiting for
   insts |-> {},         \* quorum mode: installs not completed yet: [tok, auth]
   ni    |-> 1]          \* next install token

Cfgs ==
  {[local |-> l, level |-> lv] : l \in Locals, lv \in Levels \ {"follower"}}
  \cup (IF "follower" \in Levels
          THEN {[local |-> l, level |-> "follower", qlog |-> q, sleo |-> s[1], sck |-> s[2]] :
                   l \in Locals, q \in QLogs, s \in {t \in StoreLeos \X StoreCks : t[2] <= t[1]}}
          ELSE {})

Init ==
  /\ cfg \in Cfgs
  /\ m = InitState
  /\ answered = {}
  /\ nextOp = 1
  /\ fx = FxInit(cfg)
  /\ ev = [a |-> "Init", cfg |-> cfg]

RECURSIVE SumTo(_, _)
SumTo(c, i) == IF i = 0 THEN 0 ELSE c[i] + SumTo(c, i - 1)

\* A sequence, sorted by op, of f(o) for o in S (reply and projection lists).
SeqBy(S, f(_)) == LET q == SetToSortSeq(S, <) IN [i \in 1..Len(q) |-> f(q[i])]

Norm(mode) == IF mode = "default" THEN "quorum" ELSE mode

-------------------------------------------------------------------------------
\* progress.go AdvanceHW: the MinISR-th highest match among the ISR, never backwards.
Kth(s) == CHOOSE v \in {s.progress[r] : r \in s.isr} :
            /\ Cardinality({r \in s.isr : s.progress[r] >= v}) >= s.minISR
            /\ Cardinality({r \in s.isr : s.progress[r] > v}) < s.minISR

AdvHW(s) ==
  IF s.minISR <= 0 \/ Cardinality(s.isr) < s.minISR THEN s
  ELSE IF Kth(s) > s.hw THEN [s EXCEPT !.hw = Kth(s)] ELSE s

\* append.go completeAppendWaiters over the candidate ops: a waiter with assigned
\* offsets is answered unless it is quorum mode and HW does not cover its target.
Ripe(s, o) ==
  /\ o \in DOMAIN s.pend
  /\ s.pend[o].target # 0
  /\ ~(s.pend[o].mode = "quorum" /\ s.hw < s.pend[o].target)

Complete(s, cand) ==
  LET done == {o \in cand : Ripe(s, o)} IN
  [s |-> [s EXCEPT !.pend = Restrict(s.pend, DOMAIN s.pend \ done)],
   replies |-> SeqBy(done, LAMBDA o : [op |-> o, ok |-> TRUE,
                                       first |-> s.pend[o].target - s.pend[o].n + 1,
                                       last |-> s.pend[o].target])]

\* append.go failInflightAppend
FailF(s) ==
  LET live == Range(s.infl.wops) \cap DOMAIN s.pend IN
  [s |-> [s EXCEPT !.pend = Restrict(s.pend, DOMAIN s.pend \ live), !.infl = NoInfl],
   replies |-> SeqBy(live, LAMBDA o : [op |-> o, ok |-> FALSE, first |-> 0, last |-> 0])]

\* assignStoredOffsets + assignInflightRecordsToWaiters: the i-th waiter of the batch owns
\* the i-th segment of the flattened records, whether or not earlier waiters were cancelled.
AssignF(s, base) ==
  LET w == s.infl.wops
      c == s.infl.counts
  IN [s EXCEPT !.pend = [o \in DOMAIN s.pend |->
        IF o \in Range(w)
          THEN LET i == CHOOSE i \in DOMAIN w : w[i] = o
               IN [s.pend[o] EXCEPT !.target = base + SumTo(c, i - 1) + c[i] - 1]
          ELSE s.pend[o]]]

Matches(s, f) ==
  /\ f.epoch = s.epoch /\ f.lepoch = s.lepoch /\ f.gen = Gen
  /\ s.infl.present /\ s.infl.op = f.op

\* meta.go ValidateMeta (identity checks not modelled: key and id are constant)
Stale(s, mt) ==
  \/ mt.epoch < s.epoch
  \/ mt.epoch = s.epoch /\ mt.lepoch < s.lepoch
  \/ mt.epoch = s.epoch /\ mt.lepoch = s.lepoch /\ mt.leader # s.leader
Invalid(mt) == mt.minISR <= 0 \/ mt.minISR > Cardinality(mt.isr)

\* meta.go ApplyMeta.  `cleared` = waiters dropped by clearAppendState.
MetaF(s, local, mt) ==
  IF Stale(s, mt) \/ Invalid(mt) THEN [s |-> s, ok |-> FALSE, cleared |-> {}]
  ELSE
    LET nextRole == IF mt.leader = local THEN "leader" ELSE "follower"
        clear == \/ s.epoch # mt.epoch \/ s.lepoch # mt.lepoch \/ s.leader # mt.leader
                 \/ s.role # nextRole \/ s.status # mt.status
        s1 == IF clear THEN [s EXCEPT !.infl = NoInfl, !.pend = NoPend] ELSE s
        s2 == [s1 EXCEPT !.epoch = mt.epoch, !.lepoch = mt.lepoch, !.leader = mt.leader,
                         !.replicas = mt.replicas, !.isr = mt.isr, !.minISR = mt.minISR,
                         !.status = mt.status]
        s3 == IF mt.status = "deleted" THEN [s2 EXCEPT !.ready = FALSE]
              ELSE [s2 EXCEPT !.role = nextRole,
                              !.progress = IF nextRole = "leader"
                                             THEN [@ EXCEPT ![local] = s.leo] ELSE @,
                              !.ready = mt.status \in {"active", "creating"}]
    IN [s |-> s3, ok |-> TRUE, cleared |-> IF clear THEN DOMAIN s.pend ELSE {}]

\* append.go ProposeAppendBatch; ws = sequence of [op, mode, n].
PropF(s, b, ws) ==
  LET ops == {ws[i].op : i \in DOMAIN ws}
      bad == \/ s.status \in {"deleted", "deleting"}
             \/ s.role # "leader"
             \/ ~s.ready
             \/ s.infl.present
             \/ \E i \in DOMAIN ws : ws[i].n = 0
             \/ Cardinality(ops) # Len(ws)
             \/ ops \cap DOMAIN s.pend # {}
  IN IF bad THEN [s |-> s, ok |-> FALSE, task |-> FALSE]
     ELSE IF Len(ws) = 0 THEN [s |-> s, ok |-> TRUE, task |-> FALSE]
     ELSE [s |-> [s EXCEPT
                    !.pend = [o \in DOMAIN s.pend \cup ops |->
                               IF o \in ops
                                 THEN LET i == CHOOSE i \in DOMAIN ws : ws[i].op = o
                                      IN [target |-> 0, mode |-> Norm(ws[i].mode), n |-> ws[i].n]
                                 ELSE s.pend[o]],
                    !.infl = [present |-> TRUE, op |-> b,
                              wops |-> [i \in DOMAIN ws |-> ws[i].op],
                              counts |-> [i \in DOMAIN ws |-> ws[i].n]]],
           ok |-> TRUE, task |-> TRUE]

\* append.go ApplyAppendStored
StoredF(s, local, f, base, last, err) ==
  IF ~Matches(s, f) THEN [s |-> s, replies |-> <<>>]
  ELSE IF err THEN FailF(s)
  ELSE LET s1 == AssignF(s, base)
           s2 == [s1 EXCEPT !.leo = Max2(s.leo, last)]
           s3 == IF s2.role = "leader"
                   THEN AdvHW([s2 EXCEPT !.progress[local] = s2.leo]) ELSE s2
           s4 == [s3 EXCEPT !.infl = NoInfl]
       IN Complete(s4, Range(s.infl.wops))

\* append.go ApplyQuorumCommitted
QuorumF(s, local, f, first, last, hw, err) ==
  IF ~Matches(s, f) THEN [s |-> s, replies |-> <<>>]
  ELSE IF err THEN FailF(s)
  ELSE LET cnt == SumTo(s.infl.counts, Len(s.infl.counts)) IN
       IF first = 0 \/ cnt = 0 \/ last < first \/ last - first + 1 # cnt \/ hw # last
         THEN FailF(s)
         ELSE LET s1 == AssignF(s, first)
                  s2 == [s1 EXCEPT !.leo = Max2(s.leo, last), !.hw = Max2(s.hw, hw),
                                   !.progress[local] = Max2(@, last), !.infl = NoInfl]
              IN Complete(s2, Range(s.infl.wops))

\* append.go ApplyFollowerAck
AckF(s, f, off) ==
  IF s.role # "leader" \/ f \notin s.replicas THEN [s |-> s, replies |-> <<>>]
  ELSE LET s1 == [s EXCEPT !.progress[f] = Max2(@, off)]
           s2 == AdvHW(s1)
       IN Complete(s2, DOMAIN s2.pend)

\* reactor: handleLeaderAck/applyLeaderProgressAck and handleLeaderPull/applyLeaderPullAckOffset.
\* A request from a non-leader view or a non-replica is refused; an offset above the
\* log end is refused (the guard); offset 0 carries no acknowledgement.
GuardedAckF(s, f, off) ==
  IF s.role # "leader" \/ f \notin s.replicas \/ off > s.leo
    THEN [s |-> s, rejected |-> TRUE, replies |-> <<>>]
  ELSE IF off = 0 THEN [s |-> s, rejected |-> FALSE, replies |-> <<>>]
  ELSE [s |-> AckF(s, f, off).s, rejected |-> FALSE, replies |-> AckF(s, f, off).replies]

\* reactor: handleAppend -> ProposeAppendBatch -> store append -> ApplyAppendStored, one
\* request per batch, the store assigning the next offsets.
AppendF(s, local, o, mode, n) ==
  LET p == PropF(s, 0, << [op |-> o, mode |-> mode, n |-> n] >>) IN
  IF ~p.ok THEN [s |-> s, ok |-> FALSE, replies |-> <<>>]
  ELSE LET r == StoredF(p.s, local, [epoch |-> s.epoch, lepoch |-> s.lepoch, op |-> 0, gen |-> Gen],
                        s.leo + 1, s.leo + n, FALSE)
       IN [s |-> r.s, ok |-> TRUE, replies |-> r.replies]

-------------------------------------------------------------------------------
\* Actions.

RepOps(replies) == {replies[i].op : i \in DOMAIN replies}
MetaEv(mt) == [epoch |-> mt.epoch, lepoch |-> mt.lepoch, leader |-> mt.leader,
               replicas |-> SetToSortSeq(mt.replicas, <), isr |-> SetToSortSeq(mt.isr, <),
               minISR |-> mt.minISR, status |-> mt.status]

\* ApplyMeta.  At the reactor level an accepted fence change also fails every outstanding
\* append future (failPendingAppendWaiters); at the machine level they are dropped silently.
Meta(mt) ==
  LET r == MetaF(m, cfg.local, mt)
      replies == IF cfg.level = "reactor"
                   THEN SeqBy(r.cleared, LAMBDA o : [op |-> o, ok |-> FALSE, first |-> 0, last |-> 0])
                   ELSE <<>>
  IN /\ m' = r.s
     /\ answered' = answered \cup RepOps(replies)
     /\ ev' = [a |-> "Meta", m |-> MetaEv(mt), res |-> [ok |-> r.ok, replies |-> replies]]
     /\ UNCHANGED <<nextOp, cfg, fx>>

Propose(b, ws) ==
  LET r == PropF(m, b, ws)
      ops == {ws[i].op : i \in DOMAIN ws}
  IN /\ m' = r.s
     /\ answered' = IF r.task THEN answered \ ops ELSE answered
     /\ nextOp' = IF r.task THEN Max2(nextOp, 1 + CHOOSE x \in ops : \A y \in ops : y <= x) ELSE nextOp
     /\ ev' = [a |-> "Propose", b |-> b, ws |-> ws,
               res |-> [ok |-> r.ok, task |-> r.task,      \* the fence carried by the store task
                        fence |-> IF r.task THEN [epoch |-> m.epoch, lepoch |-> m.lepoch, op |-> b, gen |-> Gen]
                                  ELSE [epoch |-> 0, lepoch |-> 0, op |-> 0, gen |-> 0]]]
     /\ UNCHANGED <<cfg, fx>>

Stored(f, base, last, err) ==
  LET r == StoredF(m, cfg.local, f, base, last, err) IN
  /\ m' = r.s
  /\ answered' = answered \cup RepOps(r.replies)
  /\ ev' = [a |-> "Stored", fence |-> f, base |-> base, last |-> last, err |-> err,
            res |-> [replies |-> r.replies]]
  /\ UNCHANGED <<nextOp, cfg, fx>>

Quorum(f, first, last, hw, err) ==
  LET r == QuorumF(m, cfg.local, f, first, last, hw, err) IN
  /\ m' = r.s
  /\ answered' = answered \cup RepOps(r.replies)
  /\ ev' = [a |-> "Quorum", fence |-> f, first |-> first, last |-> last, hw |-> hw, err |-> err,
            res |-> [replies |-> r.replies]]
  /\ UNCHANGED <<nextOp, cfg, fx>>

\* Machine level: the method itself, under the guarantee the reactor guard gives it.
\* Reactor level: the guarded entry point, any offset.
Ack(f, off) ==
  /\ cfg.level = "machine" => off <= m.leo
  /\ LET r == IF cfg.level = "machine"
                THEN [s |-> AckF(m, f, off).s, rejected |-> FALSE, replies |-> AckF(m, f, off).replies]
                ELSE GuardedAckF(m, f, off)
     IN /\ m' = r.s
        /\ answered' = answered \cup RepOps(r.replies)
        /\ ev' = [a |-> "Ack", f |-> f, off |-> off,
                  res |-> [rejected |-> r.rejected, replies |-> r.replies]]
  /\ UNCHANGED <<nextOp, cfg, fx>>

Cancel(o) ==
  /\ m' = [m EXCEPT !.pend = Restrict(m.pend, DOMAIN m.pend \ {o})]
  /\ ev' = [a |-> "Cancel", op |-> o, res |-> [ok |-> o \in DOMAIN m.pend]]
  /\ UNCHANGED <<answered, nextOp, cfg, fx>>

Abort(b) ==
  /\ m' = IF m.infl.present /\ m.infl.op = b
            THEN [m EXCEPT !.pend = Restrict(m.pend, DOMAIN m.pend \ Range(m.infl.wops)), !.infl = NoInfl]
            ELSE m
  /\ ev' = [a |-> "Abort", b |-> b, res |-> [ok |-> TRUE]]
  /\ UNCHANGED <<answered, nextOp, cfg, fx>>

\* Environment: a durable checkpoint of a committed watermark read earlier in this fence.
Checkpoint(v) ==
  /\ v <= m.hw
  /\ m' = IF v > m.ckpt THEN [m EXCEPT !.ckpt = v] ELSE m
  /\ ev' = [a |-> "Checkpoint", v |-> v, res |-> [ok |-> TRUE]]
  /\ UNCHANGED <<answered, nextOp, cfg, fx>>

\* Reactor level append.
AppendReq(o, mode, n) ==
  LET r == AppendF(m, cfg.local, o, mode, n) IN
  /\ m' = r.s
  /\ answered' = (IF r.ok THEN answered \ {o} ELSE answered) \cup RepOps(r.replies)
  /\ nextOp' = IF r.ok THEN Max2(nextOp, o + 1) ELSE nextOp
  /\ ev' = [a |-> "Append", op |-> o, mode |-> mode, n |-> n,
            res |-> [ok |-> r.ok, replies |-> r.replies]]
  /\ UNCHANGED <<cfg, fx>>


-------------------------------------------------------------------------------
\* Follower level: the reactor steps that assign HW / LEO / CheckpointHW outside the machine.
\*
\* The reactor is configured with hour-long replication, checkpoint and probe intervals, so that
\* every timed decision is taken in a Tick event (whose clock the harness advances) and every
\* immediate one (pull after metadata, apply after a pull answer, pull after an apply) in the
\* turn of the event that caused it.  Blocking effects run on the real worker pools and are
\* completed by the environment: LoadDone, PullResp, ApplyDone, CkptDone, InstallDone.

IsFol == cfg.level = "follower"
Min2(a, b) == IF a < b THEN a ELSE b
Fc(s) == [epoch |-> s.epoch, lepoch |-> s.lepoch]
Loaded == fx.phase = "loaded"
FolActive(s) == s.role = "follower" /\ s.status = "active"
FenceLess(a, b) == a.epoch < b.epoch \/ (a.epoch = b.epoch /\ a.lepoch < b.lepoch)
SameFence(a, b) == a.epoch = b.epoch /\ a.lepoch = b.lepoch
Fails(ids) == [i \in DOMAIN ids |-> [id |-> ids[i], ok |-> FALSE]]
Oks(ids)   == [i \in DOMAIN ids |-> [id |-> ids[i], ok |-> TRUE]]
FMetaEv(mt) == [epoch |-> mt.epoch, lepoch |-> mt.lepoch, leader |-> mt.leader,
                replicas |-> SetToSortSeq(mt.replicas, <), isr |-> SetToSortSeq(mt.isr, <),
                minISR |-> mt.minISR, status |-> mt.status, rg |-> mt.rg]

\* quorum_runtime.go: the authority a leader must install before it may commit.
AuthOf(mt) == [epoch |-> mt.epoch, lepoch |-> mt.lepoch, rg |-> mt.rg, leader |-> mt.leader,
               isr |-> mt.isr, minISR |-> mt.minISR]
NeedsInstall(s) == cfg.qlog /\ s.role = "leader" /\ s.status \in {"active", "creating"}
\* Metadata the control plane hands to a quorum-log node: a route generation, leader in the ISR.
QOk(mt) == cfg.qlog => mt.rg >= 1 /\ mt.leader \in mt.isr

\* startQuorumInstall on the loaded leader state s (ApplyMeta already done): join the install in
\* flight, reuse the proven authority, or submit a new install.
QStart(s, f, mt, ids) ==
  LET a == AuthOf(mt) IN
  IF f.inst.on
    THEN [s |-> [s EXCEPT !.ready = FALSE], f |-> [f EXCEPT !.inst.futs = @ \o ids], st |-> "wait", done |-> <<>>]
  ELSE IF f.auth = a
    THEN [s |-> [s EXCEPT !.ready = TRUE], f |-> f, st |-> "ok", done |-> Oks(ids)]
  ELSE [s |-> [s EXCEPT !.ready = FALSE],
        f |-> [f EXCEPT !.inst = [on |-> TRUE, tok |-> f.ni, auth |-> a, futs |-> ids],
                        !.insts = @ \cup {[tok |-> f.ni, auth |-> a]}, !.ni = @ + 1],
        st |-> "wait", done |-> <<>>]

\* runtime_channel.go handleApplyMeta on a loaded runtime: applyLoadedRuntimeMeta + applyLoadedMetaDecision.
FMetaLoaded(mt, id) ==
  LET r  == MetaF(m, cfg.local, mt)
      nr == IF mt.leader = cfg.local THEN "leader" ELSE "follower"
      mfence == \/ m.epoch # mt.epoch \/ m.lepoch # mt.lepoch \/ m.leader # mt.leader
                \/ m.role # nr \/ m.status # mt.status
      qfence == /\ cfg.qlog /\ mt.leader = cfg.local
                /\ IF fx.inst.on THEN fx.inst.auth # AuthOf(mt)
                                 ELSE fx.auth # NoAuth /\ fx.auth # AuthOf(mt)
      fenced == mfence \/ qfence
      f0 == [fx EXCEPT !.nf = id + 1]
  IN IF ~r.ok THEN [s |-> m, f |-> f0, st |-> "rej", done |-> <<>>]
     ELSE IF ~cfg.qlog THEN
       LET f1 == IF FolActive(r.s)
                   THEN IF fenced
                          THEN [f0 EXCEPT !.rs = "pulling", !.pulls = @ \cup {Fc(r.s)}, !.lhw = 0,
                                          !.rb = IF SameFence(m, mt) THEN @ ELSE FALSE]
                        ELSE IF f0.rs \in {"parked", "lagging"}
                          THEN [f0 EXCEPT !.rs = "pulling", !.pulls = @ \cup {Fc(r.s)}]
                        ELSE f0
                   ELSE [f0 EXCEPT !.rs = "idle", !.lhw = 0,
                                   !.rb = IF SameFence(m, mt) THEN @ ELSE FALSE]
       IN [s |-> r.s, f |-> f1, st |-> "ok", done |-> <<>>]
     ELSE
       LET cleared == IF fenced /\ f0.inst.on THEN Fails(f0.inst.futs) ELSE <<>>
           f1 == [f0 EXCEPT !.inst = IF fenced THEN NoInst ELSE @,
                            !.rb = IF SameFence(m, mt) THEN @ ELSE FALSE]
       IN IF NeedsInstall(r.s)
            THEN LET q == QStart(r.s, f1, mt, <<id>>)
                 IN [s |-> q.s, f |-> q.f, st |-> q.st, done |-> cleared]
            ELSE [s |-> r.s, f |-> f1, st |-> "ok", done |-> cleared]

\* ApplyMeta.  An absent channel starts an asynchronous store load and parks the caller's future;
\* metadata arriving during the load is compared with the metadata being loaded (handleApplyMetaToLoading):
\* older fence -> refused, newer fence -> replaces it and fails the parked futures, same fence and
\* same leader -> only waits for the load (its contents are not looked at: the first metadata of a
\* fence wins).  Same fence with ANOTHER leader is a same-epoch leader switch and is refused.
FMeta(mt) ==
  /\ IsFol /\ QOk(mt)
  /\ LET id == fx.nf IN
     CASE fx.phase = "absent" ->
            /\ m' = m
            /\ fx' = [fx EXCEPT !.phase = "loading", !.lmeta = mt, !.futs = <<id>>, !.nf = id + 1]
            /\ ev' = [a |-> "FMeta", id |-> id, m |-> FMetaEv(mt), res |-> [st |-> "wait", done |-> <<>>]]
       [] fx.phase = "loading" ->
            /\ m' = m
            /\ IF FenceLess(mt, fx.lmeta) \/ (SameFence(mt, fx.lmeta) /\ mt.leader # fx.lmeta.leader)
                 THEN /\ fx' = [fx EXCEPT !.nf = id + 1]
                      /\ ev' = [a |-> "FMeta", id |-> id, m |-> FMetaEv(mt), res |-> [st |-> "rej", done |-> <<>>]]
               ELSE IF FenceLess(fx.lmeta, mt)
                 THEN /\ fx' = [fx EXCEPT !.lmeta = mt, !.futs = <<id>>, !.nf = id + 1]
                      /\ ev' = [a |-> "FMeta", id |-> id, m |-> FMetaEv(mt),
                                res |-> [st |-> "wait", done |-> Fails(fx.futs)]]
               ELSE /\ fx' = [fx EXCEPT !.futs = Append(@, id), !.nf = id + 1]
                    /\ ev' = [a |-> "FMeta", id |-> id, m |-> FMetaEv(mt), res |-> [st |-> "wait", done |-> <<>>]]
       [] fx.phase = "loaded" ->
            LET r == FMetaLoaded(mt, id) IN
            /\ m' = r.s
            /\ fx' = r.f
            /\ ev' = [a |-> "FMeta", id |-> id, m |-> FMetaEv(mt), res |-> [st |-> r.st, done |-> r.done]]
  /\ UNCHANGED <<answered, nextOp, cfg>>

\* The store load completes (runtime_channel.go completeApplyMetaStoreLoad): the runtime starts from
\* the durable log end and checkpoint and applies the metadata kept for it.
LoadDone(err) ==
  /\ IsFol /\ fx.phase = "loading"
  /\ LET c0 == Min2(fx.sck, fx.sleo)
         s0 == [InitState EXCEPT !.leo = fx.sleo, !.hw = c0, !.ckpt = c0]
         r  == MetaF(s0, cfg.local, fx.lmeta)
         fl == [fx EXCEPT !.phase = "loaded", !.lmeta = NoMeta, !.futs = <<>>]
     IN IF err \/ ~r.ok
          THEN /\ m' = m
               /\ fx' = [fx EXCEPT !.phase = "absent", !.lmeta = NoMeta, !.futs = <<>>]
               /\ ev' = [a |-> "LoadDone", err |-> err, res |-> [done |-> Fails(fx.futs)]]
        ELSE IF NeedsInstall(r.s)
          THEN LET q == QStart(r.s, fl, fx.lmeta, fx.futs) IN
               /\ m' = q.s
               /\ fx' = q.f
               /\ ev' = [a |-> "LoadDone", err |-> err, res |-> [done |-> q.done]]
        ELSE /\ m' = r.s
             /\ fx' = IF FolActive(r.s) /\ ~cfg.qlog
                        THEN [fl EXCEPT !.rs = "pulling", !.pulls = @ \cup {Fc(r.s)}] ELSE fl
             /\ ev' = [a |-> "LoadDone", err |-> err, res |-> [done |-> Oks(fx.futs)]]
  /\ UNCHANGED <<answered, nextOp, cfg>>

\* What a leader can report to this follower without the follower's watermarks breaking C06: the
\* committed watermark the follower would adopt is not below its checkpoint and, once a watermark
\* has been adopted under this fence, not below it.  Answers outside this set are the subject of
\* the known findings (the reactor adopts min(LEO, leader HW) unconditionally).
EnvHW(x) == x >= m.ckpt /\ (fx.rb => x >= m.hw)

\* The leader answers the pull issued under fence f with n records after the follower's log end,
\* its committed watermark and its log end (follower_replication.go handleRPCPullResult,
\* applyFollowerPullResponse).  An answer for another fence than the current one is dropped.
PullResp(f, n, lhw, lleo) ==
  /\ IsFol /\ f \in fx.pulls
  /\ LET cur == Loaded /\ f = Fc(m) /\ FolActive(m) /\ fx.rs = "pulling"
         nh  == Min2(m.leo, lhw)
     IN IF ~cur
          THEN /\ m' = m
               /\ fx' = [fx EXCEPT !.pulls = @ \ {f}]
        ELSE /\ lhw <= lleo /\ lleo >= m.leo + n
             /\ EnvHW(IF n = 0 THEN nh ELSE Min2(Max2(fx.sleo, m.leo + n), lhw))
             /\ IF n = 0
                  THEN /\ m' = [m EXCEPT !.hw = nh]
                       /\ fx' = [fx EXCEPT !.pulls = @ \ {f}, !.lhw = lhw, !.rb = TRUE,
                                           !.due = IF nh > m.hw /\ nh > m.ckpt THEN TRUE ELSE @,
                                           !.rs = IF lleo > m.leo THEN "lagging" ELSE "parked"]
                  ELSE /\ m' = m
                       /\ fx' = [fx EXCEPT !.pulls = @ \ {f}, !.lhw = lhw, !.rs = "applying",
                                           !.aps = @ \cup {[epoch |-> f.epoch, lepoch |-> f.lepoch,
                                                            base |-> m.leo + 1, n |-> n, lhw |-> lhw]}]
  /\ ev' = [a |-> "PullResp", f |-> f, n |-> n, lhw |-> lhw, lleo |-> lleo, res |-> [ok |-> TRUE]]
  /\ UNCHANGED <<answered, nextOp, cfg>>

\* The store apply submitted under fence f completes (handleStoreApplyResult).  The records reach
\* the durable log whatever the fence; the runtime adopts the result only under the same fence.
ApplyDone(f) ==
  /\ IsFol /\ \E a \in fx.aps : a.epoch = f.epoch /\ a.lepoch = f.lepoch
  /\ LET a     == CHOOSE a \in fx.aps : a.epoch = f.epoch /\ a.lepoch = f.lepoch
         sleo1 == Max2(fx.sleo, a.base + a.n - 1)
         cks   == IF a.lhw > 0 THEN Min2(a.lhw, sleo1) ELSE 0      \* checkpoint covered by the apply
         f1    == [fx EXCEPT !.aps = @ \ {a}, !.sleo = sleo1, !.sck = Max2(@, cks)]
         cur   == Loaded /\ f = Fc(m) /\ FolActive(m) /\ fx.rs = "applying"
         hw1   == Min2(sleo1, fx.lhw)
         ck1   == Max2(m.ckpt, cks)
     IN IF ~cur
          THEN /\ m' = m
               /\ fx' = f1
        ELSE /\ m' = [m EXCEPT !.leo = sleo1, !.hw = hw1, !.ckpt = ck1]
             /\ fx' = [f1 EXCEPT !.rs = "pulling", !.pulls = @ \cup {f}, !.rb = TRUE,
                                 !.due = IF ck1 >= hw1 THEN FALSE ELSE @]
  /\ ev' = [a |-> "ApplyDone", f |-> f, res |-> [ok |-> TRUE]]
  /\ UNCHANGED <<answered, nextOp, cfg>>

\* A Tick event whose clock is past every deadline (tickFollowerReplication): a parked follower
\* submits the committed-HW checkpoint that is due (HW above the checkpoint, none in flight) and
\* then probes the leader; a lagging one pulls again.
Tick ==
  /\ IsFol
  /\ LET act == Loaded /\ FolActive(m) /\ ~cfg.qlog
         sub == act /\ fx.rs = "parked" /\ fx.due /\ m.hw > m.ckpt /\ ~fx.ck.on
     IN /\ fx' = IF act /\ fx.rs \in {"parked", "lagging"}
                   THEN [fx EXCEPT !.rs = "pulling", !.pulls = @ \cup {Fc(m)},
                                   !.due = IF sub THEN FALSE ELSE @,
                                   !.ck = IF sub THEN [on |-> TRUE, epoch |-> m.epoch, lepoch |-> m.lepoch, v |-> m.hw]
                                          ELSE @]
                   ELSE fx
        /\ ev' = [a |-> "Tick", res |-> [ck |-> sub, v |-> IF sub THEN m.hw ELSE 0]]
  /\ m' = m
  /\ UNCHANGED <<answered, nextOp, cfg>>

\* The checkpoint store call completes (lifecycle_runtime.go handleStoreCheckpointResult).  A result
\* whose fence is not the current one only releases the in-flight slot.
CkptDone(err) ==
  /\ IsFol /\ fx.ck.on
  /\ LET f   == [epoch |-> fx.ck.epoch, lepoch |-> fx.ck.lepoch]
         cur == Loaded /\ f = Fc(m)
         f1  == [fx EXCEPT !.ck = NoCk, !.sck = IF err THEN @ ELSE Max2(@, fx.ck.v)]
     IN /\ IF ~cur THEN m' = m /\ fx' = f1
           ELSE IF err THEN m' = m /\ fx' = [f1 EXCEPT !.due = IF m.hw > m.ckpt THEN TRUE ELSE @]
           ELSE m' = [m EXCEPT !.ckpt = Max2(@, fx.ck.v)] /\ fx' = f1
        /\ ev' = [a |-> "CkptDone", f |-> f, v |-> fx.ck.v, err |-> err, res |-> [ok |-> TRUE]]
  /\ UNCHANGED <<answered, nextOp, cfg>>

\* The quorum install with token tok completes (quorum_runtime.go handleQuorumInstallResult) with the
\* recovered log end and committed watermark.  A correct quorum log never recovers less than what
\* was committed: not below the checkpoint and, under an unchanged fence, not below the watermark.
InstallDone(tok, leo, hw, err) ==
  /\ IsFol /\ \E i \in fx.insts : i.tok = tok
  /\ LET i   == CHOOSE i \in fx.insts : i.tok = tok
         f   == [epoch |-> i.auth.epoch, lepoch |-> i.auth.lepoch]
         cur == Loaded /\ fx.inst.on /\ fx.inst.tok = tok /\ f = Fc(m)
         f1  == [fx EXCEPT !.insts = @ \ {i}]
     IN /\ IF ~cur THEN m' = m /\ fx' = f1 /\ ev' = [a |-> "InstallDone", tok |-> tok, f |-> f, leo |-> leo, hw |-> hw,
                                                     err |-> err, res |-> [done |-> <<>>]]
           ELSE IF err
             THEN /\ m' = [m EXCEPT !.ready = FALSE]
                  /\ fx' = [f1 EXCEPT !.inst = NoInst]
                  /\ ev' = [a |-> "InstallDone", tok |-> tok, f |-> f, leo |-> leo, hw |-> hw, err |-> err,
                            res |-> [done |-> Fails(fx.inst.futs)]]
           ELSE /\ hw <= leo /\ EnvHW(hw)
                /\ m' = [m EXCEPT !.leo = leo, !.hw = hw, !.ckpt = Max2(@, hw), !.ready = TRUE,
                                  !.progress[cfg.local] = leo]
                /\ fx' = [f1 EXCEPT !.inst = NoInst, !.auth = i.auth, !.rb = TRUE]
                /\ ev' = [a |-> "InstallDone", tok |-> tok, f |-> f, leo |-> leo, hw |-> hw, err |-> err,
                          res |-> [done |-> Oks(fx.inst.futs)]]
  /\ UNCHANGED <<answered, nextOp, cfg>>

-------------------------------------------------------------------------------
\* Input domains of the exhaustive runs.

Metas == {mt \in [epoch : Epochs, lepoch : LEpochs, leader : Leaders, replicas : ReplicaSets,
                  isr : ISRs, minISR : MinISRs, status : Statuses] : mt.isr \subseteq mt.replicas}

Waiter(o) == [op : {o}, mode : Modes, n : Counts]
\* Batches of fresh ops in issue order, plus the malformed shapes the method refuses.
Batches ==
  LET one == IF nextOp <= MaxOp THEN {<<w>> : w \in Waiter(nextOp)} ELSE {}
      two == IF nextOp + 1 <= MaxOp
               THEN {<<w1, w2>> : w1 \in Waiter(nextOp), w2 \in Waiter(nextOp + 1)} ELSE {}
      refused == {<<[op |-> o, mode |-> "quorum", n |-> 1]>> : o \in DOMAIN m.pend}
                 \cup {<< [op |-> MaxOp, mode |-> "quorum", n |-> 1], [op |-> MaxOp, mode |-> "local", n |-> 1] >>,
                       << [op |-> MaxOp, mode |-> "quorum", n |-> 0] >>, << >>}
  IN one \cup two \cup refused

Fence(e, le, b, g) == [epoch |-> e, lepoch |-> le, op |-> b, gen |-> g]
Current == Fence(m.epoch, m.lepoch, m.infl.op, Gen)
Fences == {Fence(e, le, b, g) : e \in Epochs, le \in LEpochs, b \in BatchIds, g \in Gens}
\* Every fence that differs from the matching one in exactly one component.
NearFences == {f \in Fences : Cardinality({k \in {"epoch", "lepoch", "op", "gen"} : f[k] # Current[k]}) = 1}
Total  == SumTo(m.infl.counts, Len(m.infl.counts))
Offs   == 0..MaxOff

IsMach == cfg.level = "machine"
IsReac == cfg.level = "reactor"

NMeta ==
  ~IsFol /\ \E mt \in Metas :
     /\ IsReac => mt.leader = cfg.local /\ mt.status = "active"
     /\ Meta(mt)
NPropose == IsMach /\ \E b \in BatchIds, ws \in Batches : Propose(b, ws)
\* results for the in-flight batch: any base, complete or one short, success or error
NStored ==
  IsMach /\ \E base \in 1..MaxOff, short \in {0, 1}, err \in BOOLEAN :
     /\ m.infl.present /\ base + Total - 1 <= MaxOff
     /\ Stored(Current, base, base + Total - 1 - short, err)
NStoredStale == IsMach /\ \E f \in NearFences : Stored(f, m.leo + 1, m.leo + 1, FALSE)
\* receipts for the in-flight batch: well formed, short, or with a lagging watermark
NQuorum ==
  IsMach /\ \E first \in Offs, short \in {0, 1}, d \in {0, 1} :
     /\ m.infl.present /\ first + Total - 1 - short - d >= 0 /\ first + Total - 1 <= MaxOff
     /\ Quorum(Current, first, first + Total - 1 - short, first + Total - 1 - short - d, FALSE)
NQuorumErr   == IsMach /\ m.infl.present /\ Quorum(Current, 0, 0, 0, TRUE)
NQuorumStale == IsMach /\ \E f \in NearFences : Quorum(f, m.leo + 1, m.leo + 1, m.leo + 1, FALSE)
NCancel      == IsMach /\ \E o \in 1..MaxOp : Cancel(o)
NAbort       == IsMach /\ \E b \in BatchIds : Abort(b)
NCheckpoint  == IsMach /\ \E v \in Offs : Checkpoint(v)
NAppend ==
  IsReac /\ \E o \in {nextOp} \cup DOMAIN m.pend, mode \in Modes, n \in Counts :
     o <= MaxOp /\ m.leo + n <= MaxOff /\ AppendReq(o, mode, n)
NAck == ~IsFol /\ \E f \in Nodes, off \in 0..(m.leo + 1) : Ack(f, off)

\* follower level
WithRG(mt, rg) == [epoch |-> mt.epoch, lepoch |-> mt.lepoch, leader |-> mt.leader, replicas |-> mt.replicas,
                   isr |-> mt.isr, minISR |-> mt.minISR, status |-> mt.status, rg |-> rg]
MinRG == CHOOSE x \in RGens : \A y \in RGens : x <= y
NFMeta ==
  IsFol /\ fx.nf <= MaxFut /\ \E mt \in Metas, rg \in RGens :
     /\ ~cfg.qlog => rg = MinRG
     /\ FMeta(WithRG(mt, rg))
NLoadDone == \E err \in BOOLEAN : LoadDone(err)
NPullResp ==
  IsFol /\ \E f \in fx.pulls :
     IF Loaded /\ f = Fc(m)
       THEN \E n \in Counts \cup {0}, lhw \in Offs, lleo \in Offs : m.leo + n <= MaxOff /\ PullResp(f, n, lhw, lleo)
       ELSE PullResp(f, 0, 0, 0)
NApplyDone == IsFol /\ \E a \in fx.aps : ApplyDone([epoch |-> a.epoch, lepoch |-> a.lepoch])
NTick == Tick
NCkptDone == \E err \in BOOLEAN : CkptDone(err)
NInstallDone ==
  IsFol /\ \E i \in fx.insts :
     IF fx.inst.on /\ fx.inst.tok = i.tok
       THEN \E leo \in Offs, hw \in Offs, err \in BOOLEAN : (err => leo = 0 /\ hw = 0) /\ InstallDone(i.tok, leo, hw, err)
       ELSE InstallDone(i.tok, 0, 0, FALSE)

Next ==
  \/ NMeta \/ NPropose \/ NStored \/ NStoredStale \/ NQuorum \/ NQuorumErr \/ NQuorumStale
  \/ NCancel \/ NAbort \/ NCheckpoint \/ NAppend \/ NAck
  \/ NFMeta \/ NLoadDone \/ NPullResp \/ NApplyDone \/ NTick \/ NCkptDone \/ NInstallDone

Spec == Init /\ [][Next]_vars

-------------------------------------------------------------------------------
\* Observable projection (all exported fields of the real state).
Proj ==
  [role |-> m.role, epoch |-> m.epoch, lepoch |-> m.lepoch, leader |-> m.leader,
   replicas |-> SetToSortSeq(m.replicas, <), isr |-> SetToSortSeq(m.isr, <),
   minISR |-> m.minISR, status |-> m.status, ready |-> m.ready,
   leo |-> m.leo, hw |-> m.hw, ckpt |-> m.ckpt,
   progress |-> SeqBy(Nodes, LAMBDA n : m.progress[n]),
   pend |-> SeqBy(DOMAIN m.pend, LAMBDA o : [op |-> o, target |-> m.pend[o].target,
                                             mode |-> m.pend[o].mode, n |-> m.pend[o].n]),
   infl |-> [op |-> m.infl.op, wops |-> m.infl.wops, counts |-> m.infl.counts],
   inv |-> (m.ckpt <= m.hw /\ m.hw <= m.leo),      \* CheckInvariants() = nil
   loaded |-> fx.phase = "loaded",                 \* follower level: the runtime exists
   sched |-> [rs |-> fx.rs, due |-> fx.due, ck |-> fx.ck.on, phase |-> fx.phase,   \* harness bookkeeping only
              inst |-> fx.inst.on]]

-------------------------------------------------------------------------------
\* Property C06 on the design.

TypeOK ==
  /\ m.role \in {"none", "leader", "follower"}
  /\ \A n \in Nodes : m.progress[n] <= m.leo            \* what keeps HW below the log end
  /\ m.infl.present => m.role = "leader" /\ Len(m.infl.wops) > 0
  /\ ~m.infl.present => m.infl = NoInfl
  /\ \A o \in DOMAIN m.pend : m.pend[o].mode \in {"quorum", "local"} /\ m.pend[o].n > 0
  /\ \A o \in DOMAIN m.pend : m.pend[o].target = 0 => m.infl.present /\ o \in Range(m.infl.wops)

\* checkpointed watermark <= committed watermark <= log end
C06_Order == m.ckpt <= m.hw /\ m.hw <= m.leo

\* the committed watermark never decreases within one metadata fence.  A follower (or a leader that
\* installs a quorum authority) inherits the watermark of the previous fence and replaces it by
\* the first one it learns under the new fence (fx.rb says that this has happened); from then on it
\* never decreases.  At the machine and reactor levels nothing ever lowers it.
C06_HWMonotone ==
  [][(m'.epoch = m.epoch /\ m'.lepoch = m.lepoch) /\ (cfg.level = "follower" => fx.rb) => m'.hw >= m.hw]_vars

Replies == IF ev.a # "Init" /\ "replies" \in DOMAIN ev.res THEN ev.res.replies ELSE <<>>

\* A quorum-mode append is answered successfully only once HW covers its last sequence.
\* (Mode of an answered op: its waiter in the state before, or the request itself for the
\* reactor level append, which proposes and completes in one step.)
ModeBefore(o) == IF o \in DOMAIN m.pend THEN m.pend[o].mode ELSE Norm(ev'.mode)
C06_QuorumReply ==
  [][\A i \in DOMAIN Replies' :
        Replies'[i].ok /\ ModeBefore(Replies'[i].op) = "quorum" => m'.hw >= Replies'[i].last]_vars

\* Every append is answered at most once: an answer consumes the waiter, one decision never
\* answers an op twice, and no op is answered again before it is proposed again.
C06_ReplyOnce ==
  [][/\ Cardinality(RepOps(Replies')) = Len(Replies')
     /\ RepOps(Replies') \cap answered = {} \/ ev'.a = "Append"
     /\ \A o \in RepOps(Replies') : o \notin DOMAIN m'.pend
     /\ \A o \in RepOps(Replies') : o \in DOMAIN m.pend \/ (ev'.a = "Append" /\ o = ev'.op)]_vars

\* A result with a stale fence changes nothing and answers nobody.
C06_StaleFence ==
  [][ev'.a \in {"Stored", "Quorum"} /\ ~Matches(m, ev'.fence) =>
        m' = m /\ ev'.res.replies = <<>>]_vars

\* Metadata with an older epoch or a same-epoch leader switch is rejected.
C06_StaleMeta ==
  [][ev'.a = "Meta" /\
       (\/ ev'.m.epoch < m.epoch
        \/ ev'.m.epoch = m.epoch /\ ev'.m.lepoch < m.lepoch
        \/ ev'.m.epoch = m.epoch /\ ev'.m.lepoch = m.lepoch /\ ev'.m.leader # m.leader)
     => ~ev'.res.ok /\ m' = m]_vars

\* Follower level: a worker result (pull answer, store apply, store checkpoint, quorum install) whose
\* fence is not the current one changes nothing and answers nobody.
FolResult(a) == a \in {"PullResp", "ApplyDone", "CkptDone", "InstallDone"}
FDone == IF ev.a # "Init" /\ "done" \in DOMAIN ev.res THEN ev.res.done ELSE <<>>
C06_StaleFenceF ==
  [][FolResult(ev'.a) /\ ~(fx.phase = "loaded" /\ ev'.f = [epoch |-> m.epoch, lepoch |-> m.lepoch])
        => m' = m /\ FDone' = <<>>]_vars

\* Follower level: metadata older than, or switching the leader within, the fence the runtime has
\* (or is loading) is refused and changes nothing.
C06_StaleMetaF ==
  [][ev'.a = "FMeta" /\ fx.phase # "absent" /\
       (LET ref == IF fx.phase = "loaded" THEN [epoch |-> m.epoch, lepoch |-> m.lepoch, leader |-> m.leader]
                   ELSE [epoch |-> fx.lmeta.epoch, lepoch |-> fx.lmeta.lepoch, leader |-> fx.lmeta.leader]
        IN \/ ev'.m.epoch < ref.epoch
           \/ ev'.m.epoch = ref.epoch /\ ev'.m.lepoch < ref.lepoch
           \/ ev'.m.epoch = ref.epoch /\ ev'.m.lepoch = ref.lepoch /\ ev'.m.leader # ref.leader)
     => ev'.res.st = "rej" /\ ev'.res.done = <<>> /\ m' = m /\ fx'.lmeta = fx.lmeta]_vars

\* Follower level: what keeps the order invariant: the runtime never knows more than the durable log,
\* a checkpoint in flight was a committed watermark, the durable checkpoint covers the runtime's.
FolTypeOK ==
  cfg.level = "follower" =>
    /\ m.leo <= fx.sleo \/ cfg.qlog
    /\ fx.rs \in {"idle", "pulling", "applying", "parked", "lagging"}
    /\ fx.rs = "pulling" => [epoch |-> m.epoch, lepoch |-> m.lepoch] \in fx.pulls
    /\ fx.rs # "idle" => fx.phase = "loaded" /\ m.role = "follower"
    /\ m.pend = NoPend /\ ~m.infl.present

\* The guard: an acknowledgement above the log end never reaches the state.
C06_AckGuard ==
  [][ev'.a = "Ack" /\ ev'.off > m.leo => ev'.res.rejected /\ m' = m]_vars

View == <<m, answered, nextOp, cfg, fx>>
===============================================================================

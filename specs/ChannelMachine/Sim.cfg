INIT SimInit
NEXT SimNext
CONSTANTS
  Nodes = {1, 2, 3}
  Locals = {1}
  Levels = {"machine", "reactor", "follower"}
  MaxOp = 1000
  BatchIds = {1, 2, 3}
  MaxOff = 9
  Epochs = {1, 2}
  LEpochs = {1, 2, 3}
  Leaders = {1, 2, 3}
  ReplicaSets = {{1, 2, 3}, {1, 2}}
  ISRs = {{1}, {1, 2}, {1, 2, 3}}
  MinISRs = {0, 1, 2, 3}
  Statuses = {"creating", "active", "deleting", "deleted"}
  Modes = {"quorum", "local", "default"}
  Counts = {0, 1, 2}
  Gens = {1, 2}
  QLogs = {FALSE, TRUE}
  StoreLeos = {0, 2}
  StoreCks = {0, 1}
  RGens = {1, 2}
  MaxFut = 1000
  Depth = 30
  Salt = 4
INVARIANT Emit
CHECK_DEADLOCK FALSE

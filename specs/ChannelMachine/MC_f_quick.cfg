SPECIFICATION Spec
CONSTANTS
  Nodes = {1, 2, 3}
  Locals = {1}
  Levels = {"follower"}
  MaxOp = 1
  BatchIds = {1}
  MaxOff = 2
  Epochs = {1}
  LEpochs = {1, 2}
  Leaders = {1, 2, 3}
  ReplicaSets = {{1, 2, 3}}
  ISRs = {{1, 2, 3}}
  MinISRs = {2}
  Statuses = {"active"}
  Modes = {"quorum"}
  Counts = {1, 2}
  Gens = {1}
  QLogs = {FALSE, TRUE}
  StoreLeos = {0, 1}
  StoreCks = {0, 1}
  RGens = {1, 2}
  MaxFut = 3
VIEW View
INVARIANTS TypeOK FolTypeOK C06_Order
PROPERTIES C06_HWMonotone C06_StaleFenceF C06_StaleMetaF C06_StaleMeta C06_StaleFence
CHECK_DEADLOCK FALSE
\* follower level only (the machine and reactor levels are checked by MC_quick.cfg).
\* measured: 17,310 distinct / 118,122 generated states, depth 17 (32-38 s with 4 workers at load ~40);
\* every follower action is taken (coverage run: NFMeta 3320, LoadDone 228, NPullResp 6133, NApplyDone 2078,
\* Tick 1513, CkptDone 2127, NInstallDone 1905 distinct successors)

SPECIFICATION Spec
CONSTANTS
  Nodes = {1, 2, 3}
  Locals = {1}
  Levels = {"follower"}
  MaxOp = 1
  BatchIds = {1}
  MaxOff = 3
  Epochs = {1}
  LEpochs = {1, 2, 3}
  Leaders = {1, 2, 3}
  ReplicaSets = {{1, 2, 3}}
  ISRs = {{1, 2, 3}}
  MinISRs = {2}
  Statuses = {"active"}
  Modes = {"quorum"}
  Counts = {1, 2}
  Gens = {1}
  QLogs = {FALSE, TRUE}
  StoreLeos = {0, 2}
  StoreCks = {0, 1}
  RGens = {1, 2}
  MaxFut = 4
VIEW View
INVARIANTS TypeOK FolTypeOK C06_Order
PROPERTIES C06_HWMonotone C06_StaleFenceF C06_StaleMetaF C06_StaleMeta C06_StaleFence
CHECK_DEADLOCK FALSE
\* follower level only.  measured: 1,647,624 distinct / 17,105,629 generated states, depth 22
\* (3 min 49 s with 4 workers at load ~40)

-------------------------------- MODULE Trace --------------------------------
(* Trace validation: the NDJSON file written by the harness (one step per line,
   traces concatenated, each starting with an "Init" line that carries the binding
   level) must be a behaviour of ChannelMachine.  The call arguments are bound from
   the log; reply and projection are then determined by the specification and
   compared in the invariant Conform, so a divergence is reported with the expected
   values.  A reactor or follower level trace logs only the part of the projection the
   exported reactor API exposes (RetentionView, RuntimeProbe); Conform compares the logged
   fields.  At the follower level the schedule of the reactor (which calls are outstanding)
   is state of the specification, so a completion in the log must be one the specification
   has outstanding. *)
EXTENDS ChannelMachine, Json, TLC
VARIABLE l

Log == ndJsonDeserialize("trace.ndjson")

TraceInit == Init /\ l = 1

Reset0 ==
  /\ m' = InitState
  /\ answered' = {}
  /\ nextOp' = 1
  /\ cfg' = Log[l].ev.cfg
  /\ fx' = FxInit(Log[l].ev.cfg)
  /\ ev' = Log[l].ev

MetaOf(x) == [epoch |-> x.epoch, lepoch |-> x.lepoch, leader |-> x.leader,
              replicas |-> Range(x.replicas), isr |-> Range(x.isr),
              minISR |-> x.minISR, status |-> x.status]

FMetaOf(x) == [epoch |-> x.epoch, lepoch |-> x.lepoch, leader |-> x.leader,
               replicas |-> Range(x.replicas), isr |-> Range(x.isr),
               minISR |-> x.minISR, status |-> x.status, rg |-> x.rg]

Step(e) ==
  CASE e.a = "Init"       -> Reset0
    [] e.a = "Meta"       -> Meta(MetaOf(e.m))
    [] e.a = "Propose"    -> Propose(e.b, e.ws)
    [] e.a = "Stored"     -> Stored(e.fence, e.base, e.last, e.err)
    [] e.a = "Quorum"     -> Quorum(e.fence, e.first, e.last, e.hw, e.err)
    [] e.a = "Ack"        -> Ack(e.f, e.off)
    [] e.a = "Cancel"     -> Cancel(e.op)
    [] e.a = "Abort"      -> Abort(e.b)
    [] e.a = "Checkpoint" -> Checkpoint(e.v)
    [] e.a = "Append"     -> AppendReq(e.op, e.mode, e.n)
    [] e.a = "FMeta"      -> e.id = fx.nf /\ FMeta(FMetaOf(e.m))
    [] e.a = "LoadDone"   -> LoadDone(e.err)
    [] e.a = "PullResp"   -> PullResp(e.f, e.n, e.lhw, e.lleo)
    [] e.a = "ApplyDone"  -> ApplyDone(e.f)
    [] e.a = "Tick"       -> Tick
    [] e.a = "CkptDone"   -> CkptDone(e.err)
    [] e.a = "InstallDone" -> InstallDone(e.tok, e.leo, e.hw, e.err)

TraceNext == l <= Len(Log) /\ l' = l + 1 /\ Step(Log[l].ev)

TraceSpec == TraceInit /\ [][TraceNext]_<<vars, l>>

\* Deterministic step: the logged reply and projection must be the specification's.
Conform ==
  l > 1 /\ Log[l - 1].ev.a # "Init" =>
    /\ ev.res = Log[l - 1].ev.res
    /\ \A k \in DOMAIN Log[l - 1].st : Proj[k] = Log[l - 1].st[k]

\* Acceptance: every line was consumed.
HW       == TLCSet(1, IF l > TLCGet(1) THEN l ELSE TLCGet(1))
Track    == HW
Accepted == TLCGet(1) = Len(Log) + 1
ASSUME TLCSet(1, 0)
===============================================================================

SPECIFICATION TraceSpec
CONSTANTS
  Nodes = {1, 2, 3}
  Locals = {1}
  Levels = {"machine"}
  MaxOp = 1000000
  BatchIds = {1}
  MaxOff = 1000000
  Epochs = {1}
  LEpochs = {1}
  Leaders = {1}
  ReplicaSets = {{1, 2, 3}}
  ISRs = {{1}}
  MinISRs = {1}
  Statuses = {"active"}
  Modes = {"quorum"}
  Counts = {1}
  Gens = {1}
CONSTRAINT Track
INVARIANTS Conform TypeOK C06_Order
PROPERTIES C06_HWMonotone C06_QuorumReply C06_ReplyOnce C06_StaleFence C06_StaleMeta C06_AckGuard
POSTCONDITION Accepted
CHECK_DEADLOCK FALSE

SPECIFICATION TraceSpec
CONSTANTS
  Nodes = {1, 2, 3}
  Locals = {1}
  Levels = {"machine"}
  MaxOp = 1000000
  BatchIds = {1}
  MaxOff = 1000000
  Epochs = {1}
  LEpochs = {1}
  Leaders = {1}
  ReplicaSets = {{1, 2, 3}}
  ISRs = {{1}}
  MinISRs = {1}
  Statuses = {"active"}
  Modes = {"quorum"}
  Counts = {1}
  Gens = {1}
  QLogs = {FALSE}
  StoreLeos = {0}
  StoreCks = {0}
  RGens = {1}
  MaxFut = 1000000
CONSTRAINT Track
INVARIANTS Conform TypeOK FolTypeOK C06_Order
PROPERTIES C06_HWMonotone C06_QuorumReply C06_ReplyOnce C06_StaleFence C06_StaleMeta C06_AckGuard C06_StaleFenceF C06_StaleMetaF
POSTCONDITION Accepted
CHECK_DEADLOCK FALSE

SPECIFICATION Spec
CONSTANTS
  Nodes = {1, 2, 3}
  Locals = {1}
  Levels = {"machine", "reactor"}
  MaxOp = 3
  BatchIds = {1, 2}
  MaxOff = 3
  Epochs = {1}
  LEpochs = {1, 2}
  Leaders = {1, 2}
  ReplicaSets = {{1, 2, 3}}
  ISRs = {{1}, {1, 2, 3}}
  MinISRs = {1, 2}
  Statuses = {"active", "deleting", "deleted"}
  Modes = {"quorum", "local", "default"}
  Counts = {1, 2}
  Gens = {1, 2}
  QLogs = {FALSE}
  StoreLeos = {0}
  StoreCks = {0}
  RGens = {1}
  MaxFut = 1
VIEW View
INVARIANTS TypeOK C06_Order
PROPERTIES C06_HWMonotone C06_QuorumReply C06_ReplyOnce C06_StaleFence C06_StaleMeta C06_AckGuard
CHECK_DEADLOCK FALSE
\* measured: 501,764 distinct / 48,292,729 generated states, depth 15 (23 min with 8 workers at load ~65;
\* about 5 min on an idle machine).  With ISRs = {{1},{1,2},{1,2,3}}: ~1.17 M distinct / 140 M generated.

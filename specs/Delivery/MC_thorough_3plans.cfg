\* 3 plans over 2 channels (durable, both recipients, outcomes ok | retry, 2 attempts, no failed
\* targets); channels on one shard and on two, routes on one owner and on two.
\* 1,031,252 states generated, 261,096 distinct, depth 33.
SPECIFICATION Spec
CONSTANTS
  Channels = {"c1", "c2"}
  UIDs = {"u1", "u2"}
  Sessions = {"a1", "a2"}
  MaxPlans = 3
  Durables = {TRUE}
  SeqSteps = {1}
  MaxAtts = {2}
  StopKinds = {"stop"}
  Outcomes = {"ok", "retry"}
  PresErrs = FALSE
  RcSets <- EveryoneOnly
  ShardMaps <- MCShardMaps
  OwnerMaps <- MCOwnerMaps
VIEW View
INVARIANTS TypeOK C31_Coverage C31_Drained
PROPERTIES C31_Obligations C31_Order C31_RetryExact
CHECK_DEADLOCK FALSE

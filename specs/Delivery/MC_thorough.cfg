\* 2 channels, 2 recipients (u1 with 2 routes, u2 without), 2 plans, durable and transient, failed
\* presence targets, outcomes ok | retry | drop, 2 attempts; channels on one shard and on two, routes on
\* one owner and on two.  1,908,584 states generated, 417,384 distinct, depth 25.
SPECIFICATION Spec
CONSTANTS
  Channels = {"c1", "c2"}
  UIDs = {"u1", "u2"}
  Sessions = {"a1", "a2"}
  MaxPlans = 2
  Durables = {TRUE, FALSE}
  SeqSteps = {1}
  MaxAtts = {2}
  StopKinds = {"stop"}
  Outcomes = {"ok", "retry", "drop"}
  PresErrs = TRUE
  RcSets <- EveryoneOnly
  ShardMaps <- MCShardMaps
  OwnerMaps <- MCOwnerMaps
VIEW View
INVARIANTS TypeOK C31_Coverage C31_Drained
PROPERTIES C31_Obligations C31_Order C31_RetryExact
CHECK_DEADLOCK FALSE

SPECIFICATION TraceSpec
CONSTANTS
  Channels = {"c1", "c2", "c3"}
  UIDs = {"u1", "u2", "u3"}
  Sessions = {"a1", "a2", "a3", "b1", "b2", "d1"}
  MaxPlans = 1000000
  Durables = {TRUE, FALSE}
  SeqSteps = {0, 1}
  MaxAtts = {1}
  StopKinds = {"stop", "quiesce"}
  Outcomes = {"ok", "retry", "drop"}
  PresErrs = TRUE
  RcSets <- AllRcSets
  ShardMaps <- MCShardSame
  OwnerMaps <- MCOwnerOne
CONSTRAINT Track
INVARIANTS Obligations WellFormed Conform C31_Coverage
POSTCONDITION Accepted
CHECK_DEADLOCK FALSE

------------------------------- MODULE Delivery -------------------------------
(* Online Delivery runtime (internal/runtime/delivery: runtime.go, plan_queue.go,
   runtime_ports.go), property C31.

   THE DESIGN (this module's Next).  Accepted plans enter the FIFO of the shard their channel
   hashes to (plan_queue.go: enqueue / shardIndex); every shard has exactly one worker
   (runtime.go: runWorker), which takes the head plan only when its previous plan is complete
   (dequeue -> runPlan -> processPlan returns).  Processing one plan: one presence call for all
   targets (PresBegin / PresEnd; a target may fail, its recipients are then neither pushed nor
   reported), one offline report for the durable plan's resolved recipients without a route
   (Offline), then per owner node, concurrently between owners and sequentially inside one owner,
   passes over the routes (PushBegin / PushEnd with outcome ok | retry | drop): pass k+1 contains
   exactly the routes that were "retry" in pass k, up to cfg.maxAtt passes (pushWithRetry,
   pushOwnerLocal / RemoteOwnerPusher).  Stop / Quiesce close admission at some point between
   the call and its return (Close) and return when every accepted plan is complete.

   THE PROPERTY (C31) is written once, as the obligations Ob* below: what an observer of the
   ports (presence resolver, owner-push / session-write, offline observer) may never see.  They
   speak only about pushes, offline reports and the answers/outcomes the ports gave, not about
   queues, shards or workers.  The exhaustive runs check that the design never violates an
   obligation (C31_Obligations) and is drained when a stop returns; Trace.tla evaluates the same
   obligations on histories recorded from the real runtime.

   One action per port call edge; every action records the edge in `ev` (hidden by VIEW). *)
EXTENDS Integers, Sequences, FiniteSets, SequencesExt

CONSTANTS
  Channels,   \* channel names, e.g. {"c1","c2"}
  UIDs,       \* recipient uids, subset of {"u1","u2","u3"}
  Sessions,   \* session (route) names, subset of {"a1","a2","a3","b1","b2","d1"}; the letter gives the uid
  MaxPlans,   \* bound on Enqueue calls
  Durables,   \* plan modes tried: TRUE = durable, FALSE = transient
  SeqSteps,   \* {1}: every plan of a channel is the next message; {0,1}: a message may span two plans
  MaxAtts,    \* values of RetryMaxAttempts tried
  ShardMaps,  \* set of records channel -> shard (which channels share a worker)
  OwnerMaps,  \* set of records session -> owner node
  StopKinds,  \* subset of {"stop","quiesce"}
  Outcomes,   \* push outcomes tried, subset of {"ok","retry","drop"}
  RcSets,     \* recipient sets tried (non-empty subsets of UIDs)
  PresErrs    \* TRUE: presence targets may fail

VARIABLES
  plans,    \* sequence of [c, seq, dur, rc]: every Enqueue call in call order; index = plan id
  phase,    \* per plan: "rej" (admission refused) | "queued" | "pres" (presence call open) | "run"
  perr,     \* per plan: recipients whose presence target failed
  routes,   \* per plan: the sessions the presence answer named
  rt,       \* per plan, per session: [st, att]  st: none | pend | fly | ok | drop | retry; att = pushes begun
  offl,     \* per plan, per uid: number of offline reports
  queue,    \* per shard: FIFO of queued plan ids
  life,     \* open | stopping (Stop called) | draining (admission closed) | closed (Stop returned)
  kind,     \* which call closed the runtime
  cfg,      \* [maxAtt, shard, owner] of this runtime instance
  pushLog,  \* per session: completed pushes [p, o] in completion order (history, for replay only)
  ev        \* last port edge (observation only)

vars == <<plans, phase, perr, routes, rt, offl, queue, life, kind, cfg, pushLog, ev>>

UidOf(s) == CASE s \in {"a1", "a2", "a3"} -> "u1"
              [] s \in {"b1", "b2"}       -> "u2"
              [] s \in {"d1"}             -> "u3"
\* order of routes inside one owner push (the harness builds presence answers in this order)
Rank(s) == CASE s = "a1" -> 1 [] s = "a2" -> 2 [] s = "a3" -> 3 [] s = "b1" -> 4 [] s = "b2" -> 5 [] s = "d1" -> 6

Ran(q)  == {q[i] : i \in DOMAIN q}
URank(u) == CASE u = "u1" -> 1 [] u = "u2" -> 2 [] u = "u3" -> 3
SessSeq(S) == SetToSortSeq(S, LAMBDA x, y : Rank(x) < Rank(y))
UidSeq(S)  == SetToSortSeq(S, LAMBDA x, y : URank(x) < URank(y))

NoRt == [st |-> "none", att |-> 0]
P    == DOMAIN plans
Acc(p) == phase[p] # "rej"

Online(p, u)  == \E s \in routes[p] : UidOf(s) = u
Resolved(p)   == plans[p].rc \ perr[p]
OffNeed(p)    == IF plans[p].dur THEN {u \in Resolved(p) : ~Online(p, u)} ELSE {}
OffPending(p) == \E u \in OffNeed(p) : offl[p][u] = 0
\* a route needs no further push: accepted, terminally dropped, or retryable with the attempts used up
Final(r)    == r.st \in {"none", "ok", "drop"} \/ (r.st = "retry" /\ r.att >= cfg.maxAtt)
Complete(p) == phase[p] = "run" /\ ~OffPending(p) /\ \A s \in Sessions : Final(rt[p][s])

-------------------------------------------------------------------------------
\* C31 as obligations on port edges.  First(checks) = name of the first violated one, "" if none.
First(checks) == IF checks = <<>> THEN ""
                 ELSE LET F[j \in 1..Len(checks)] ==
                            IF ~checks[j][2] THEN checks[j][1] ELSE IF j = Len(checks) THEN "" ELSE F[j + 1]
                      IN F[1]

\* a plan is processed at most once, and only if it was admitted
ObPresBegin(p) == First(<<
  <<"C31_RefusedOrUnknownPlanProcessed", p \in P /\ Acc(p)>>,
  <<"C31_PlanProcessedTwice", p \notin P \/ phase[p] = "queued">> >>)

\* reported offline once per plan: only recipients of a durable plan that have no online route
ObOffline(p, U) == First(<<
  <<"C31_OfflineBeforePresenceAnswer", p \in P /\ phase[p] = "run">>,
  <<"C31_OfflineForTransientPlan", p \notin P \/ plans[p].dur>>,
  <<"C31_OnlineRecipientOrStrangerReportedOffline",
      p \notin P \/ phase[p] # "run" \/ \A u \in U : u \in plans[p].rc /\ ~Online(p, u)>>,
  <<"C31_RecipientReportedOfflineTwice",
      p \notin P \/ \A u \in U : u \notin UIDs \/ offl[p][u] = 0>> >>)

SameChan(q, p) == plans[q].c = plans[p].c
\* pushes go only to routes of the plan's own presence answer; a route is pushed again only while its
\* last outcome is "retry" (exact-route retry: never the accepted or dropped siblings, never another
\* session); per session the pushes of one channel neither overlap nor go back in sequence
ObPushBegin(p, s) == First(<<
  <<"C31_PushBeforePresenceAnswer", p \in P /\ phase[p] = "run">>,
  <<"C31_PushToSessionNotInPresenceAnswer", p \notin P \/ s \in routes[p]>>,
  <<"C31_RouteRepushedAfterFinalOutcome", p \notin P \/ s \notin Sessions \/ rt[p][s].st \notin {"ok", "drop"}>>,
  <<"C31_SameRoutePushedConcurrently", p \notin P \/ s \notin Sessions \/ rt[p][s].st # "fly">>,
  <<"C31_PushesOfOneChannelOverlapAtSession",
      p \notin P \/ s \notin Sessions \/
      \A q \in P \ {p} : SameChan(q, p) /\ plans[q].seq # plans[p].seq => rt[q][s].st # "fly">>,
  <<"C31_PushOutOfSequenceOrder",
      p \notin P \/ s \notin Sessions \/
      \A q \in P : SameChan(q, p) /\ plans[q].seq > plans[p].seq => rt[q][s].att = 0>> >>)

\* when a stop / quiesce has returned nil (and at the end of a history): every admitted plan was
\* processed, every online route of a resolved recipient was pushed until accepted, dropped or out
\* of attempts, every resolved recipient of a durable plan without a route was reported offline
ObDrained == First(<<
  <<"C31_AdmittedPlanNotProcessed", \A p \in P : Acc(p) => phase[p] = "run">>,
  <<"C31_PushInFlightAfterDrain", \A p \in P : \A s \in Sessions : rt[p][s].st # "fly">>,
  <<"C31_OnlineRouteNeverPushed", \A p \in P : \A s \in routes[p] : rt[p][s].att >= 1>>,
  <<"C31_RetryableRouteAbandoned", \A p \in P : \A s \in Sessions : Final(rt[p][s])>>,
  <<"C31_OfflineRecipientNotReported", \A p \in P : phase[p] = "run" => ~OffPending(p)>> >>)

\* the obligation of an edge, evaluated in the state BEFORE the edge
ObOf(e) == CASE e.a = "PresBegin" -> ObPresBegin(e.p)
             [] e.a = "Offline"   -> ObOffline(e.p, Ran(e.uids))
             [] e.a = "PushBegin" -> ObPushBegin(e.p, e.s)
             [] OTHER             -> ""

-------------------------------------------------------------------------------
\* Effects of the edges on the bookkeeping (shared with Trace.tla).
EffEnq(c, sq, d, rc, ok) ==
  /\ plans'  = Append(plans, [c |-> c, seq |-> sq, dur |-> d, rc |-> rc])
  /\ phase'  = Append(phase, IF ok THEN "queued" ELSE "rej")
  /\ perr'   = Append(perr, {})
  /\ routes' = Append(routes, {})
  /\ rt'     = Append(rt, [s \in Sessions |-> NoRt])
  /\ offl'   = Append(offl, [u \in UIDs |-> 0])
EffPresBegin(p) == phase' = [phase EXCEPT ![p] = "pres"]
EffPresEnd(p, errs, R) ==
  /\ phase'  = [phase EXCEPT ![p] = "run"]
  /\ perr'   = [perr EXCEPT ![p] = errs]
  /\ routes' = [routes EXCEPT ![p] = R]
  /\ rt'     = [rt EXCEPT ![p] = [s \in Sessions |-> IF s \in R THEN [st |-> "pend", att |-> 0] ELSE NoRt]]
EffOffline(p, U)   == offl' = [offl EXCEPT ![p] = [u \in UIDs |-> IF u \in U THEN @[u] + 1 ELSE @[u]]]
EffPushBegin(p, s) == rt' = [rt EXCEPT ![p][s] = [st |-> "fly", att |-> @.att + 1]]
EffPushEnd(p, s, o) ==
  /\ rt' = [rt EXCEPT ![p][s].st = o]
  /\ pushLog' = [pushLog EXCEPT ![s] = Append(@, [p |-> p, o |-> o])]

-------------------------------------------------------------------------------
\* The design.
Shards     == {m[c] : m \in ShardMaps, c \in Channels}
ShardOf(p) == cfg.shard[plans[p].c]
OwnerOf(s) == cfg.owner[s]
Busy(sh)   == \E p \in P : ShardOf(p) = sh /\ phase[p] \in {"pres", "run"} /\ ~Complete(p)
LastSeq(c) == LET S == {plans[p].seq : p \in {q \in P : Acc(q) /\ plans[q].c = c}} IN
              IF S = {} THEN 0 ELSE CHOOSE m \in S : \A x \in S : x <= m

Init ==
  /\ plans = <<>> /\ phase = <<>> /\ perr = <<>> /\ routes = <<>> /\ rt = <<>> /\ offl = <<>>
  /\ queue = [sh \in Shards |-> <<>>]
  /\ life = "open" /\ kind = "none"
  /\ cfg \in [maxAtt : MaxAtts, shard : ShardMaps, owner : OwnerMaps]
  /\ pushLog = [s \in Sessions |-> <<>>]
  /\ ev = [a |-> "Init", cfg |-> cfg]

\* EnqueueRecipientDeliveryPlan.  Admission is open until the stop closes it (Close).
Enqueue(c, d, rc, step) ==
  /\ Len(plans) < MaxPlans
  /\ step = 0 => LastSeq(c) > 0
  /\ LET ok == life \in {"open", "stopping"}
         sq == LastSeq(c) + step
         p  == Len(plans) + 1
     IN /\ EffEnq(c, sq, d, rc, ok)
        /\ queue' = IF ok THEN [queue EXCEPT ![cfg.shard[c]] = Append(@, p)] ELSE queue
        /\ ev' = [a |-> "Enq", p |-> p, c |-> c, seq |-> sq, dur |-> d, rc |-> UidSeq(rc), res |-> [ok |-> ok]]
  /\ UNCHANGED <<life, kind, cfg, pushLog>>

\* The shard's worker takes the head plan when its previous plan is complete; processing starts
\* with the presence call.
TakePlan(p) ==
  /\ p \in P /\ phase[p] = "queued"
  /\ LET sh == ShardOf(p) IN queue[sh] # <<>> /\ Head(queue[sh]) = p /\ ~Busy(sh)
  /\ EffPresBegin(p)
  /\ queue' = [queue EXCEPT ![ShardOf(p)] = Tail(@)]
  /\ ev' = [a |-> "PresBegin", p |-> p]
  /\ UNCHANGED <<plans, perr, routes, rt, offl, life, kind, cfg, pushLog>>

\* The presence resolver answers: failed targets (errs) and the routes of the other recipients.
PresenceAnswer(p, errs, R) ==
  /\ p \in P /\ phase[p] = "pres"
  /\ errs \subseteq plans[p].rc
  /\ \A s \in R : UidOf(s) \in plans[p].rc \ errs
  /\ EffPresEnd(p, errs, R)
  /\ ev' = [a |-> "PresEnd", p |-> p, errs |-> UidSeq(errs), routes |-> SessSeq(R)]
  /\ UNCHANGED <<plans, offl, queue, life, kind, cfg, pushLog>>

\* One offline batch per durable plan, before the owner pushes start.
ReportOffline(p) ==
  /\ p \in P /\ phase[p] = "run" /\ OffPending(p)
  /\ EffOffline(p, OffNeed(p))
  /\ ev' = [a |-> "Offline", p |-> p, uids |-> UidSeq(OffNeed(p))]
  /\ UNCHANGED <<plans, phase, perr, routes, rt, queue, life, kind, cfg, pushLog>>

\* Owner loop: the routes of one owner are pushed one at a time, pass by pass; the next route is the
\* first (in route order) among those with the fewest attempts that still need a push.
Cand(p, o)  == {s \in routes[p] : OwnerOf(s) = o /\ rt[p][s].st \in {"pend", "retry"} /\ ~Final(rt[p][s])}
InFly(p, o) == \E s \in routes[p] : OwnerOf(s) = o /\ rt[p][s].st = "fly"
NextRoute(p, o) ==
  LET C  == Cand(p, o)
      m  == CHOOSE a \in {rt[p][s].att : s \in C} : \A s \in C : a <= rt[p][s].att
      C1 == {s \in C : rt[p][s].att = m}
  IN CHOOSE s \in C1 : \A t \in C1 : Rank(s) <= Rank(t)

PushBegin(p, s) ==
  /\ p \in P /\ phase[p] = "run" /\ ~OffPending(p)
  /\ s \in routes[p]
  /\ ~InFly(p, OwnerOf(s)) /\ Cand(p, OwnerOf(s)) # {} /\ s = NextRoute(p, OwnerOf(s))
  /\ EffPushBegin(p, s)
  /\ ev' = [a |-> "PushBegin", p |-> p, s |-> s]
  /\ UNCHANGED <<plans, phase, perr, routes, offl, queue, life, kind, cfg, pushLog>>

PushEnd(p, s, o) ==
  /\ p \in P /\ s \in Sessions /\ rt[p][s].st = "fly"
  /\ EffPushEnd(p, s, o)
  /\ ev' = [a |-> "PushEnd", p |-> p, s |-> s, o |-> o]
  /\ UNCHANGED <<plans, phase, perr, routes, offl, queue, life, kind, cfg>>

StopCall(k) ==
  /\ life = "open"
  /\ life' = "stopping" /\ kind' = k
  /\ ev' = [a |-> "StopCall", kind |-> k]
  /\ UNCHANGED <<plans, phase, perr, routes, rt, offl, queue, cfg, pushLog>>

\* Stop / Quiesce take the lifecycle lock and close admission (internal; not a port edge).
Close ==
  /\ life = "stopping"
  /\ life' = "draining"
  /\ ev' = [a |-> "Close"]
  /\ UNCHANGED <<plans, phase, perr, routes, rt, offl, queue, kind, cfg, pushLog>>

\* ... and return when the workers have drained every shard.
StopRet ==
  /\ life = "draining"
  /\ \A p \in P : Acc(p) => Complete(p)
  /\ life' = "closed"
  /\ ev' = [a |-> "StopRet", kind |-> kind, res |-> "ok"]
  /\ UNCHANGED <<plans, phase, perr, routes, rt, offl, queue, kind, cfg, pushLog>>

SessOf(U) == {s \in Sessions : UidOf(s) \in U}

\* (the first plan goes to one fixed channel: channel names are interchangeable)
DoEnqueue  == \E c \in (IF plans = <<>> THEN {CHOOSE x \in Channels : x = "c1"} ELSE Channels),
                 d \in Durables, rc \in RcSets, step \in SeqSteps : Enqueue(c, d, rc, step)
DoTake     == \E p \in P : TakePlan(p)
DoPresence == \E p \in P : \E errs \in (IF PresErrs THEN SUBSET plans[p].rc ELSE {{}}) : \E R \in SUBSET SessOf(plans[p].rc \ errs) :
                 PresenceAnswer(p, errs, R)
DoOffline  == \E p \in P : ReportOffline(p)
DoPushB    == \E p \in P, s \in Sessions : PushBegin(p, s)
DoPushE    == \E p \in P, s \in Sessions, o \in Outcomes : PushEnd(p, s, o)
DoStopCall == \E k \in StopKinds : StopCall(k)

Next == DoEnqueue \/ DoTake \/ DoPresence \/ DoOffline \/ DoPushB \/ DoPushE \/ DoStopCall \/ Close \/ StopRet

Spec == Init /\ [][Next]_vars

-------------------------------------------------------------------------------
TypeOK ==
  /\ Len(phase) = Len(plans) /\ Len(perr) = Len(plans) /\ Len(routes) = Len(plans)
  /\ Len(rt) = Len(plans) /\ Len(offl) = Len(plans)
  /\ \A p \in P :
       /\ phase[p] \in {"rej", "queued", "pres", "run"}
       /\ \A s \in Sessions : rt[p][s].st # "none" <=> s \in routes[p]
       /\ phase[p] # "run" => routes[p] = {} /\ perr[p] = {}
  \* a queued plan sits in exactly its shard's FIFO, in admission order
  /\ \A sh \in Shards : \A i \in DOMAIN queue[sh] :
       /\ phase[queue[sh][i]] = "queued" /\ ShardOf(queue[sh][i]) = sh
       /\ \A j \in DOMAIN queue[sh] : i < j => queue[sh][i] < queue[sh][j]
  /\ \A p \in P : phase[p] = "queued" => \E i \in DOMAIN queue[ShardOf(p)] : queue[ShardOf(p)][i] = p
  \* one worker per shard: at most one plan of a shard is being processed
  /\ \A p, q \in P : p # q /\ ShardOf(p) = ShardOf(q) /\ phase[p] \in {"pres", "run"} /\ phase[q] \in {"pres", "run"}
        => Complete(p) \/ Complete(q)

\* The design never shows an observer of the ports what C31 forbids.
C31_Obligations == [][ObOf(ev') = ""]_vars

\* Order, stated directly: a push to a session begins only when no later message of the channel was
\* ever pushed to that session and no other message of the channel is being pushed to it.
C31_Order ==
  [][ev'.a = "PushBegin" =>
       \A q \in P \ {ev'.p} : SameChan(q, ev'.p) =>
          /\ (plans[q].seq # plans[ev'.p].seq => rt[q][ev'.s].st # "fly")
          /\ (plans[q].seq > plans[ev'.p].seq => rt[q][ev'.s].att = 0)]_vars

\* Exact-route retry: a second or later push of a route happens only after that very route was "retry".
C31_RetryExact ==
  [][ev'.a = "PushBegin" =>
       /\ ev'.s \in routes[ev'.p]
       /\ (rt[ev'.p][ev'.s].att >= 1 => rt[ev'.p][ev'.s].st = "retry")
       /\ \A s \in Sessions \ {ev'.s} : rt'[ev'.p][s] = rt[ev'.p][s]]_vars

\* Coverage: a complete plan pushed every online route of every resolved recipient and reported every
\* other resolved recipient of a durable plan offline exactly once; never both, never twice.
C31_Coverage ==
  \A p \in P :
    /\ \A u \in UIDs : offl[p][u] <= 1 /\ (offl[p][u] = 1 => plans[p].dur /\ u \in plans[p].rc /\ ~Online(p, u))
    /\ Complete(p) =>
         \A u \in Resolved(p) :
           IF Online(p, u) THEN \A s \in routes[p] : UidOf(s) = u => rt[p][s].att >= 1
           ELSE offl[p][u] = (IF plans[p].dur THEN 1 ELSE 0)

\* A stop that returned left nothing behind.
C31_Drained == life = "closed" => ObDrained = ""

\* Configurations of the exhaustive runs (cfg files substitute these for ShardMaps / OwnerMaps).
MCShardSame  == {[c \in Channels |-> 1]}
MCShardSplit == {[c \in Channels |-> IF c = "c1" THEN 1 ELSE 2]}
MCShardMaps  == MCShardSame \cup MCShardSplit
MCOwnerOne   == {[s \in Sessions |-> 1]}
MCOwnerSplit == {[s \in Sessions |-> IF s \in {"a1", "b1"} THEN 1 ELSE 2]}
MCOwnerMaps  == MCOwnerOne \cup MCOwnerSplit

AllRcSets   == SUBSET UIDs \ {{}}
EveryoneOnly == {UIDs}

\* VIEW of the exhaustive runs: `ev` and `pushLog` are observations; of a complete plan only "was this
\* session pushed at all" is kept per route (nothing else of it is read by any action, obligation or
\* property: Final, the order obligations and C31_Coverage depend on att >= 1 and st # "fly" only).
AbsRt(p) == IF Complete(p) THEN [s \in Sessions |-> IF rt[p][s].att >= 1 THEN [st |-> "ok", att |-> 1] ELSE NoRt]
            ELSE rt[p]
View == <<plans, phase, perr, routes, [p \in P |-> AbsRt(p)], offl, queue, life, kind, cfg>>
===============================================================================

--------------------------------- MODULE Sim ---------------------------------
(* Behaviour generator (spec -> code, Method A): `tlc -simulate` prints one JSON behaviour of the
   DESIGN per line ("BEH {...}").  A behaviour is a legal schedule of port edges: which plan is
   enqueued when, what the presence resolver answers, in which order pushes complete and with which
   outcome, where the stop falls.  The harness drives the real runtime through it by holding the
   fake ports' calls and releasing them in this order. *)
EXTENDS Delivery, Json, TLC
CONSTANT Depth
VARIABLES hist, fin

Pick(S) == {RandomElement(S)}
\* a random element of S, or the sentinel when S is empty
PickP(S) == Pick(IF S = {} THEN {0} ELSE S)
PickX(S) == Pick(IF S = {} THEN {<<0, "none">>} ELSE S)

SimOwnerMaps == {[s \in Sessions |-> 1],
                 [s \in Sessions |-> IF s \in {"a1", "b1"} THEN 1 ELSE 2],
                 [s \in Sessions |-> CASE s = "a1" -> 2 [] s = "a2" -> 2 [] OTHER -> 1],
                 [s \in Sessions |-> CASE s = "a1" -> 1 [] s = "a2" -> 2 [] OTHER -> 3]}

Proj  == [plans |-> Len(plans)]
FinalObs == [complete |-> life = "closed",
          log |-> pushLog,
          off |-> [p \in P |-> UidSeq({u \in UIDs : offl[p][u] > 0})]]

SimInit == Init /\ hist = << [ev |-> ev, st |-> Proj] >> /\ fin = FALSE

TakeOK(p)     == phase[p] = "queued" /\ queue[ShardOf(p)] # <<>> /\ Head(queue[ShardOf(p)]) = p /\ ~Busy(ShardOf(p))
PushOK(p, s)  == /\ phase[p] = "run" /\ ~OffPending(p) /\ s \in routes[p]
                 /\ ~InFly(p, OwnerOf(s)) /\ Cand(p, OwnerOf(s)) # {} /\ s = NextRoute(p, OwnerOf(s))
Live          == {p \in P : Acc(p) /\ ~Complete(p)}

\* No Enqueue between a stop's call and the moment its admission gate is known to be closed: whether
\* such a call is admitted depends on a race the driver cannot steer (the exhaustive runs cover both).
SimStep ==
  \/ life # "stopping" /\ \E c \in Pick(Channels), d \in Pick(Durables), rc \in Pick(RcSets) :
        \E step \in Pick(IF LastSeq(c) = 0 THEN {1} ELSE SeqSteps) : Enqueue(c, d, rc, step)
  \* aimed: another plan for a channel that still has a plan queued or in progress
  \/ life # "stopping" /\ \E p \in PickP(Live) : p # 0 /\ \E d \in Pick(Durables), rc \in Pick(RcSets), step \in Pick(SeqSteps) :
        Enqueue(plans[p].c, d, rc, step)
  \/ \E p \in PickP({p \in P : TakeOK(p)}) : p # 0 /\ TakePlan(p)
  \/ \E p \in PickP({p \in P : phase[p] = "pres"}) : p # 0 /\
        \E errs \in Pick(IF RandomElement(1..4) = 1 THEN SUBSET plans[p].rc ELSE {{}}) :
          \E R \in Pick(SUBSET SessOf(plans[p].rc \ errs)) : PresenceAnswer(p, errs, R)
  \* aimed: everybody online on every session
  \/ \E p \in PickP({p \in P : phase[p] = "pres"}) : p # 0 /\ PresenceAnswer(p, {}, SessOf(plans[p].rc))
  \/ \E p \in PickP({p \in P : phase[p] = "run" /\ OffPending(p)}) : p # 0 /\ ReportOffline(p)
  \/ \E x \in PickX({y \in P \X Sessions : PushOK(y[1], y[2])}) : x[1] # 0 /\ PushBegin(x[1], x[2])
  \/ \E x \in PickX({y \in P \X Sessions : rt[y[1]][y[2]].st = "fly"}) :
        x[1] # 0 /\ \E o \in Pick(Outcomes) : PushEnd(x[1], x[2], o)
  \/ (plans # <<>> /\ RandomElement(1..8) = 1 /\ DoStopCall)
  \/ (Len(plans) = MaxPlans /\ DoStopCall)
  \/ Close
  \/ StopRet

SimNext ==
  /\ ~fin
  /\ \/ SimStep /\ hist' = Append(hist, [ev |-> ev', st |-> Proj']) /\ fin' = FALSE
     \* the history ends after the stop has returned (possibly after refused enqueues)
     \/ life = "closed" /\ fin' = TRUE /\ UNCHANGED <<vars, hist>>

Emit == (fin \/ Len(hist) = Depth + 1) => PrintT("BEH " \o ToJson([steps |-> hist, final |-> FinalObs]))
===============================================================================

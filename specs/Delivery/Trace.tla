-------------------------------- MODULE Trace --------------------------------
(* Validation of histories recorded from the REAL runtime (code -> spec, Methods A and B).

   The harness drives delivery.Runtime through its exported API with fake ports (presence
   resolver, remote owner pusher, local session writer, offline observer).  Every port edge and
   every API call is stamped with one global counter; the file is in stamp order, histories
   concatenated, each starting with an "Init" line.  Events:

     Init      {cfg}                         a new Runtime (cfg.maxAtt = RetryMaxAttempts)
     Enq       {p, c, seq, dur, rc, res.ok}  EnqueueRecipientDeliveryPlan, stamped at the CALL,
                                             reply filled in at the return; the calls of one
                                             channel are sequential and in sequence order
     PresBegin {p} / PresEnd {p, errs, routes}   the presence resolver was called for plan p / answered
     Offline   {p, uids}                     the offline observer was called
     PushBegin {p, s} / PushEnd {p, s, o}    one exact route reached the session writer (local owner)
                                             or the remote owner pusher / was answered ok | retry | drop
     StopCall  {kind} / StopRet {kind, res}  Stop or Quiesce
     End       (st = what the fakes counted) every call has returned

   This module is a deterministic monitor.  It rebuilds the bookkeeping of Delivery.tla from the
   events (the Eff operators) and evaluates the SAME obligations (the Ob operators) the exhaustive runs prove of the design;
   the violated obligation is named in `bad`.  Nothing about queues, shards, workers, owner
   batching or the relative order of unrelated calls is demanded: a history is rejected only for
   what C31 forbids.  `wf` guards the recording itself (the fakes' own answers are consistent). *)
EXTENDS Delivery, Json, TLC

VARIABLES l, bad, wf
tvars == <<vars, l, bad, wf>>

Log == ndJsonDeserialize("trace.ndjson")

Fresh ==
  /\ plans' = <<>> /\ phase' = <<>> /\ perr' = <<>> /\ routes' = <<>> /\ rt' = <<>> /\ offl' = <<>>
  /\ life' = "open" /\ kind' = "none"
  /\ pushLog' = [s \in Sessions |-> <<>>]

TraceInit ==
  /\ l = 1
  /\ plans = <<>> /\ phase = <<>> /\ perr = <<>> /\ routes = <<>> /\ rt = <<>> /\ offl = <<>>
  /\ queue = [sh \in Shards |-> <<>>]
  /\ life = "open" /\ kind = "none"
  /\ cfg = [maxAtt |-> 1]
  /\ pushLog = [s \in Sessions |-> <<>>]
  /\ ev = [a |-> "none"]
  /\ bad = "" /\ wf = TRUE

Keep(vs) == UNCHANGED vs

OnInit(e) ==
  /\ Fresh
  /\ cfg' = e.cfg
  /\ bad' = ""
  /\ wf' = (e.cfg.maxAtt \in 1..16)

\* Calls of one channel are issued one after the other with non-decreasing sequence numbers (among
\* the admitted ones); that is the producer's side of the ordering contract and the harness's duty.
SeqsOf(c) == {plans[p].seq : p \in {q \in P : Acc(q) /\ plans[q].c = c}}
OnEnq(e) ==
  LET ok == /\ e.p = Len(plans) + 1 /\ e.c \in Channels /\ e.seq >= 1
            /\ Ran(e.rc) # {} /\ Ran(e.rc) \subseteq UIDs
            /\ \A x \in SeqsOf(e.c) : x <= e.seq
  IN IF ~ok THEN /\ wf' = FALSE /\ Keep(<<plans, phase, perr, routes, rt, offl, life, kind, cfg, pushLog, bad>>)
     ELSE /\ EffEnq(e.c, e.seq, e.dur, Ran(e.rc), e.res.ok)
          /\ Keep(<<life, kind, cfg, pushLog, bad, wf>>)

\* an edge with an obligation: name it in `bad` (the history is rejected there), else apply the effect
Obliged(e, eff, same) ==
  LET ob == ObOf(e) IN
  IF ob # "" THEN /\ bad' = ob /\ Keep(<<plans, phase, perr, routes, rt, offl, life, kind, cfg, pushLog, wf>>)
  ELSE /\ eff /\ Keep(same) /\ Keep(<<life, kind, cfg, bad, wf>>)

OnPresBegin(e) == Obliged(e, EffPresBegin(e.p), <<plans, perr, routes, rt, offl, pushLog>>)
OnOffline(e)   == Obliged(e, EffOffline(e.p, Ran(e.uids)), <<plans, phase, perr, routes, rt, pushLog>>)
OnPushBegin(e) == Obliged(e, EffPushBegin(e.p, e.s), <<plans, phase, perr, routes, offl, pushLog>>)

OnPresEnd(e) ==
  LET ok == /\ e.p \in P /\ phase[e.p] = "pres"
            /\ Ran(e.errs) \subseteq plans[e.p].rc
            /\ Ran(e.routes) \subseteq Sessions
            /\ \A s \in Ran(e.routes) : UidOf(s) \in plans[e.p].rc \ Ran(e.errs)
  IN IF ~ok THEN /\ wf' = FALSE /\ Keep(<<plans, phase, perr, routes, rt, offl, life, kind, cfg, pushLog, bad>>)
     ELSE /\ EffPresEnd(e.p, Ran(e.errs), Ran(e.routes))
          /\ Keep(<<plans, offl, life, kind, cfg, pushLog, bad, wf>>)

OnPushEnd(e) ==
  LET ok == e.p \in P /\ e.s \in Sessions /\ rt[e.p][e.s].st = "fly" /\ e.o \in {"ok", "retry", "drop"}
  IN IF ~ok THEN /\ wf' = FALSE /\ Keep(<<plans, phase, perr, routes, rt, offl, life, kind, cfg, pushLog, bad>>)
     ELSE /\ EffPushEnd(e.p, e.s, e.o)
          /\ Keep(<<plans, phase, perr, routes, offl, life, kind, cfg, bad, wf>>)

OnStopCall(e) ==
  /\ life' = (IF life = "open" THEN "stopping" ELSE life) /\ kind' = e.kind
  /\ wf' = (wf /\ e.kind \in {"stop", "quiesce"})
  /\ Keep(<<plans, phase, perr, routes, rt, offl, cfg, pushLog, bad>>)

\* Stop / Quiesce returned nil: everything admitted is delivered (ObDrained).
OnStopRet(e) ==
  /\ life' = (IF e.res = "ok" THEN "closed" ELSE life)
  /\ bad' = (IF e.res = "ok" THEN ObDrained ELSE "")
  /\ wf' = (wf /\ life # "open" /\ e.res \in {"ok", "timeout"})
  /\ Keep(<<plans, phase, perr, routes, rt, offl, kind, cfg, pushLog>>)

OnEnd(e) ==
  /\ bad' = ObDrained
  /\ wf' = (wf /\ life = "closed")
  /\ Keep(<<plans, phase, perr, routes, rt, offl, life, kind, cfg, pushLog>>)

Step(e) ==
  CASE e.a = "Init"      -> OnInit(e)
    [] e.a = "Enq"       -> OnEnq(e)
    [] e.a = "PresBegin" -> OnPresBegin(e)
    [] e.a = "PresEnd"   -> OnPresEnd(e)
    [] e.a = "Offline"   -> OnOffline(e)
    [] e.a = "PushBegin" -> OnPushBegin(e)
    [] e.a = "PushEnd"   -> OnPushEnd(e)
    [] e.a = "StopCall"  -> OnStopCall(e)
    [] e.a = "StopRet"   -> OnStopRet(e)
    [] e.a = "End"       -> OnEnd(e)

TraceNext == l <= Len(Log) /\ l' = l + 1 /\ Step(Log[l].ev) /\ ev' = Log[l].ev /\ UNCHANGED queue
TraceSpec == TraceInit /\ [][TraceNext]_tvars

\* C31: no obligation is ever violated.
Obligations == bad = ""
WellFormed  == wf

\* What the fakes counted at the end of a history is what the monitor rebuilt.
PairSum(F(_, _), A, B) ==
  LET RECURSIVE Go(_)
      Go(T) == IF T = {} THEN 0 ELSE LET x == CHOOSE x \in T : TRUE IN F(x[1], x[2]) + Go(T \ {x})
  IN Go(A \X B)
EndProj == [plans   |-> Len(plans),
            begun   |-> PairSum(LAMBDA p, s : rt[p][s].att, P, Sessions),
            ok      |-> PairSum(LAMBDA p, s : IF rt[p][s].st = "ok" THEN 1 ELSE 0, P, Sessions),
            offline |-> PairSum(LAMBDA p, u : offl[p][u], P, UIDs)]
Conform == (l > 1 /\ Log[l - 1].ev.a = "End") => EndProj = Log[l - 1].st

\* Acceptance: every line was consumed.
HW       == TLCSet(1, IF l > TLCGet(1) THEN l ELSE TLCGet(1))
Track    == HW
Accepted == TLCGet(1) = Len(Log) + 1
ASSUME TLCSet(1, 0)
===============================================================================

INIT SimInit
NEXT SimNext
CONSTANTS
  Channels = {"c1", "c2"}
  UIDs = {"u1", "u2", "u3"}
  Sessions = {"a1", "a2", "b1"}
  MaxPlans = 4
  Durables = {TRUE, FALSE}
  SeqSteps = {0, 1}
  MaxAtts = {1, 2, 3}
  StopKinds = {"stop", "quiesce"}
  Outcomes = {"ok", "retry", "drop"}
  PresErrs = TRUE
  RcSets <- AllRcSets
  ShardMaps <- MCShardMaps
  OwnerMaps <- SimOwnerMaps
  Depth = 80
INVARIANT Emit
CHECK_DEADLOCK FALSE

\* 2 plans with every recipient set ({u1}, {u2}, {u1,u2}) and a message that may span two plans (same
\* sequence number); stop and quiesce.  Run with -coverage 1 by the thorough tier.
\* 553,620 states generated, 158,284 distinct (stop only: 318,820 / 94,000), depth 25.
SPECIFICATION Spec
CONSTANTS
  Channels = {"c1", "c2"}
  UIDs = {"u1", "u2"}
  Sessions = {"a1", "a2"}
  MaxPlans = 2
  Durables = {TRUE}
  SeqSteps = {0, 1}
  MaxAtts = {2}
  StopKinds = {"stop", "quiesce"}
  Outcomes = {"ok", "retry"}
  PresErrs = FALSE
  RcSets <- AllRcSets
  ShardMaps <- MCShardMaps
  OwnerMaps <- MCOwnerMaps
VIEW View
INVARIANTS TypeOK C31_Coverage C31_Drained
PROPERTIES C31_Obligations C31_Order C31_RetryExact
CHECK_DEADLOCK FALSE

\* 2 channels, 2 recipients (u1 with 2 routes, u2 without), 2 plans, durable, no failed presence
\* targets, outcomes ok | retry, 2 attempts; channels on one shard and on two, routes on one owner and
\* on two.  68,124 states generated, 18,764 distinct, depth 25.
SPECIFICATION Spec
CONSTANTS
  Channels = {"c1", "c2"}
  UIDs = {"u1", "u2"}
  Sessions = {"a1", "a2"}
  MaxPlans = 2
  Durables = {TRUE}
  SeqSteps = {1}
  MaxAtts = {2}
  StopKinds = {"stop"}
  Outcomes = {"ok", "retry"}
  PresErrs = FALSE
  RcSets <- EveryoneOnly
  ShardMaps <- MCShardMaps
  OwnerMaps <- MCOwnerMaps
VIEW View
INVARIANTS TypeOK C31_Coverage C31_Drained
PROPERTIES C31_Obligations C31_Order C31_RetryExact
CHECK_DEADLOCK FALSE

-------------------------------- MODULE Trace --------------------------------
(* Trace validation: the NDJSON file written by the harness (one step per line,
   traces concatenated, each starting with an "Init" line that carries the
   reference-run data of one command log) must be a behaviour of ControllerFSM.
   Call arguments are bound from the log; reply and projection are determined by
   the specification from cfg and compared in Conform; the reference data is
   constrained by the C18_Ref* invariants. *)
EXTENDS ControllerFSM, Json, TLC
VARIABLE l

Log == ndJsonDeserialize("trace.ndjson")

TraceInit == Init /\ l = 1

Reset0 ==
  /\ cfg' = Log[l].ev.cfg
  /\ mem' = 0
  /\ disk' = -1
  /\ next' = 1
  /\ ev' = Log[l].ev

Step(e) ==
  CASE e.a = "Init"       -> Reset0
    [] e.a = "ApplyBatch" -> ApplyBatch(e.i, e.j, e.fail, e.via)
    [] e.a = "Restart"    -> Restart
    [] e.a = "Reset"      -> Reset
    [] e.a = "Restore"    -> Restore(e.k)

TraceNext == l <= Len(Log) /\ l' = l + 1 /\ Step(Log[l].ev)

TraceSpec == TraceInit /\ [][TraceNext]_<<vars, l>>

Conform ==
  l > 1 =>
    /\ Log[l - 1].ev.a # "Init" => ev.res = Log[l - 1].ev.res
    /\ Proj = Log[l - 1].st

HW       == TLCSet(1, IF l > TLCGet(1) THEN l ELSE TLCGet(1))
Track    == HW
Accepted == TLCGet(1) = Len(Log) + 1
ASSUME TLCSet(1, 0)
===============================================================================

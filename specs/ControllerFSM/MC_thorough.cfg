\* every class sequence of length <= 6, every schedule: 39,189 distinct / 1.65M generated (~2 min on an idle machine with 6 workers)
SPECIFICATION Spec
CONSTANTS
  Ns = {1, 2, 3, 4, 5, 6}
  AllowFail = TRUE
VIEW View
INVARIANTS TypeOK C18_RefShape C18_RefRevision C18_RefLogical C18_RefCounted C18_RefUntouched C18_RefValid C18_PublishedIsPersisted GapFree
PROPERTIES C18_PartitionIndependent C18_ReplayChangesNothing C18_RevisionArithmetic C18_FailedSavePublishesNothing
CHECK_DEADLOCK FALSE

INIT SimInit
NEXT SimNext
CONSTANTS
  Ns = {3, 4, 5, 6}
  AllowFail = TRUE
  Depth = 12
INVARIANT Emit
CHECK_DEADLOCK FALSE

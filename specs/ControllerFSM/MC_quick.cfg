\* every class sequence of length <= 3, every schedule: 285 distinct / 6,183 generated, seconds
SPECIFICATION Spec
CONSTANTS
  Ns = {1, 2, 3}
  AllowFail = TRUE
VIEW View
INVARIANTS TypeOK C18_RefShape C18_RefRevision C18_RefLogical C18_RefCounted C18_RefUntouched C18_RefValid C18_PublishedIsPersisted GapFree
PROPERTIES C18_PartitionIndependent C18_ReplayChangesNothing C18_RevisionArithmetic C18_FailedSavePublishesNothing
CHECK_DEADLOCK FALSE

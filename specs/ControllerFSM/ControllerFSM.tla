---------------------------- MODULE ControllerFSM ----------------------------
(* Controller state machine (pkg/controller/fsm/fsm.go) over its state file
   (pkg/controller/statefile): how a committed command log is delivered.

   Differential model.  The *content* of the cluster state is not modelled.  A
   configuration `cfg` describes one committed log of n commands by what a
   reference run (fresh machine, one command at a time, no restart) observed:

     cls[p]    class of command p: "changed" (revision + 1), "updated" (durable
               change without a revision, node health), "noop", "rejected"
     idx[p]    its Raft index (strictly increasing)
     rev, lfp, dfp, valid   per reference state S_0 .. S_n (position k+1 holds S_k):
               revision, fingerprint id of the logical state, fingerprint id of the
               durable state (applied index excluded), result of Validate

   S_k is "the state after commands 1..k".  Commands before the first "changed"
   one (the initialising command, InitAt) leave the empty state S_0 untouched, so
   the canonical state id is 0 before InitAt.

   The model describes what ApplyBatch does with a delivery schedule: any batch
   partition, re-delivery of entries that were already applied (replay), process
   restarts (new machine + Load), Reset (warm state cleared, history replayed from
   the start), Restore (snapshot install) and a failing save.  It predicts, from
   cfg alone, the per-entry result class and revision, the published state id and
   the persisted state id after every call.  The harness compares the real
   fsm.StateMachine + statefile.Store with these predictions (TLC-generated
   schedules) and TLC validates recorded runs; the reference data itself is
   constrained by the C18_Ref* invariants. *)
EXTENDS Integers, Sequences, FiniteSets

CONSTANTS
  Ns,        \* log lengths tried
  AllowFail  \* BOOLEAN: schedules may include a failing save

VARIABLES
  mem,    \* id of the published (in-memory) state: 0 or InitAt..n
  disk,   \* id of the persisted state, -1 = no state file
  next,   \* next position Raft has not yet delivered to this machine (replay may start earlier)
  cfg,    \* the log as seen by the reference run (see above)
  ev      \* last call and its observable reply

vars == <<mem, disk, next, cfg, ev>>

Classes == {"changed", "updated", "noop", "rejected"}
N == cfg.n
Pos == 1..N

Max(a, b) == IF a > b THEN a ELSE b
\* Position of the initialising command (N + 1 if the log never initialises).
InitAtOf(cls) ==
  LET C == {p \in DOMAIN cls : cls[p] = "changed"} IN
  IF C = {} THEN Len(cls) + 1 ELSE CHOOSE p \in C : \A q \in C : p <= q
InitAt == InitAtOf(cfg.cls)
Canon(k) == IF k < InitAt THEN 0 ELSE k

\* Derived from the classes alone.
RevOf(cls, k)  == Cardinality({p \in 1..k : cls[p] = "changed"})
LastIn(cls, k, C) ==
  LET S == {p \in 1..k : cls[p] \in C} IN IF S = {} THEN 0 ELSE CHOOSE p \in S : \A q \in S : q <= p
Rev(k) == RevOf(cfg.cls, k)
App(k) == IF k >= InitAt THEN cfg.idx[k] ELSE 0

\* Logs of the exhaustive runs: every class sequence in which nothing but the
\* first "changed" command leaves the empty state, with self-consistent reference data.
CfgOf(cls) ==
  LET n == Len(cls) IN
  [n |-> n, cls |-> cls, idx |-> [p \in 1..n |-> p],
   rev   |-> [k \in 1..(n + 1) |-> RevOf(cls, k - 1)],
   lfp   |-> [k \in 1..(n + 1) |-> LastIn(cls, k - 1, {"changed"})],
   dfp   |-> [k \in 1..(n + 1) |-> LastIn(cls, k - 1, {"changed", "updated"})],
   valid |-> [k \in 1..(n + 1) |-> TRUE]]
ClsSeqs(n) == {c \in [1..n -> Classes] : \A p \in 1..n : p < InitAtOf(c) => c[p] \in {"noop", "rejected"}}
Cfgs == UNION {{CfgOf(c) : c \in ClsSeqs(n)} : n \in Ns}

Init ==
  /\ cfg \in Cfgs
  /\ mem = 0
  /\ disk = -1
  /\ next = 1
  /\ ev = [a |-> "Init", cfg |-> cfg]

-------------------------------------------------------------------------------
\* ApplyBatch(entries i..j).  `fail` = the state file cannot be replaced during
\* this call.  `via` = "apply" uses StateMachine.Apply (single entry).
ApplyBatch(i, j, fail, via) ==
  /\ i \in 1..next /\ j \in (i - 1)..N
  /\ via = "apply" => i = j
  /\ fail => AllowFail
  /\ LET active  == mem >= InitAt                     \* revision at the start of the batch # 0
         skip(p) == active /\ p <= mem                 \* replay guard: index <= AppliedRaftIndex
         top     == IF active THEN Max(mem, j) ELSE Canon(j)
         saves   == top >= InitAt                      \* resulting revision # 0: save once, publish
         failed  == fail /\ saves
         entries == [x \in 1..(j - i + 1) |->
                       LET p == i + x - 1 IN
                       IF skip(p) THEN [cls |-> "already", rev |-> Rev(mem)]
                       ELSE [cls |-> cfg.cls[p], rev |-> Rev(p)]]
     IN
       /\ mem'  = IF failed THEN mem ELSE top
       /\ disk' = IF saves /\ ~failed THEN top ELSE disk
       /\ next' = IF failed THEN next ELSE Max(next, j + 1)
       /\ ev' = [a |-> "ApplyBatch", i |-> i, j |-> j, fail |-> fail, via |-> via,
                 res |-> [err |-> failed, entries |-> entries, finalSame |-> TRUE]]
  /\ UNCHANGED cfg

\* Process restart: a new machine loads the state file; Raft replays from the
\* persisted applied index (from its own marker when there is no state file yet).
Restart ==
  /\ mem' = IF disk = -1 THEN 0 ELSE disk
  /\ next' = IF disk = -1 THEN next ELSE disk + 1
  /\ ev' = [a |-> "Restart", res |-> [err |-> FALSE]]
  /\ UNCHANGED <<disk, cfg>>

\* Reset: warm state cleared, history is replayed from the first entry.
Reset ==
  /\ mem' = 0
  /\ next' = 1
  /\ ev' = [a |-> "Reset", res |-> [err |-> FALSE]]
  /\ UNCHANGED <<disk, cfg>>

\* Restore(S_k): install a recovered snapshot; saved when its revision is non-zero.
Restore(k) ==
  /\ k \in 0..N
  /\ mem' = Canon(k)
  /\ disk' = IF k >= InitAt THEN k ELSE disk
  /\ next' = k + 1
  /\ ev' = [a |-> "Restore", k |-> k, res |-> [err |-> FALSE]]
  /\ UNCHANGED cfg

Next ==
  \/ \E i \in 1..(N + 1), j \in 0..N, fail \in BOOLEAN, via \in {"batch", "apply"} : ApplyBatch(i, j, fail, via)
  \/ Restart
  \/ Reset
  \/ \E k \in 0..N : Restore(k)

Spec == Init /\ [][Next]_vars

-------------------------------------------------------------------------------
\* Observable projection: Snapshot() and the state file, each identified against
\* the reference states; `same`: a published state (revision # 0) is exactly -- not only up to
\* normalisation -- the state a restart would load from the state file (C18_PublishedIsPersisted
\* at the level of the stored representation: a restart changes nothing).
StateView(k) == [sid |-> k, rev |-> Rev(k), app |-> App(k), valid |-> TRUE]
Proj == [snap |-> StateView(mem),
         disk |-> IF disk = -1 THEN [sid |-> -1, rev |-> 0, app |-> 0, valid |-> TRUE]
                  ELSE StateView(disk),
         same |-> (mem # 0 => disk = mem)]

-------------------------------------------------------------------------------
\* Property C18.

TypeOK ==
  /\ mem \in {0} \cup (InitAt..N)
  /\ disk \in {-1} \cup (InitAt..N)
  /\ next \in 1..(N + 1)

\* --- the reference run (facts about the real code when cfg comes from a trace) ---
C18_RefShape ==
  /\ \A p \in Pos : cfg.cls[p] \in Classes
  /\ \A p \in Pos : p > 1 => cfg.idx[p] > cfg.idx[p - 1]
  /\ cfg.rev[1] = 0
\* Each command that changes logical state increases the revision by exactly one,
\* every other command leaves the revision alone.
C18_RefRevision ==
  \A p \in Pos : cfg.rev[p + 1] = cfg.rev[p] + (IF cfg.cls[p] = "changed" THEN 1 ELSE 0)
C18_RefLogical ==
  \A p \in Pos : cfg.lfp[p + 1] # cfg.lfp[p] => cfg.cls[p] = "changed"
\* ... and only such a command does: a command that leaves the logical state as it was (e.g. the
\* stored record proposed again with its list fields in another order) is not counted.
C18_RefCounted ==
  \A p \in Pos : cfg.cls[p] = "changed" => cfg.lfp[p + 1] # cfg.lfp[p]
\* Rejected and no-op commands leave the state untouched.
C18_RefUntouched ==
  \A p \in Pos : cfg.cls[p] \in {"noop", "rejected"} =>
     cfg.lfp[p + 1] = cfg.lfp[p] /\ cfg.dfp[p + 1] = cfg.dfp[p]
\* Every published state passes cluster-state validation.
C18_RefValid == \A k \in 1..(N + 1) : cfg.valid[k]

\* --- the delivery schedule ---
\* What is published has been persisted; what is persisted is initialised.
C18_PublishedIsPersisted == mem # 0 => disk = mem
\* No gap: the next entry applied is always the successor of the published state.
GapFree == (mem = 0 => next <= InitAt) /\ (mem # 0 => next = mem + 1)

IsBatch == ev'.a = "ApplyBatch"
\* The state after a successful batch depends on the highest entry only, not on the partition.
C18_PartitionIndependent ==
  [][IsBatch /\ ~ev'.res.err =>
       mem' = IF mem >= InitAt THEN Max(mem, ev'.j) ELSE Canon(ev'.j)]_vars
\* Re-applying already-applied entries changes nothing.
C18_ReplayChangesNothing ==
  [][IsBatch /\ mem >= InitAt /\ ev'.j <= mem =>
       /\ mem' = mem
       /\ \A x \in DOMAIN ev'.res.entries : ev'.res.entries[x].cls = "already"
                                            /\ ev'.res.entries[x].rev = Rev(mem)]_vars
\* The revision reported for an entry that is applied is the number of state-changing
\* commands up to and including it.
C18_RevisionArithmetic ==
  [][IsBatch =>
       \A x \in DOMAIN ev'.res.entries :
          LET p == ev'.i + x - 1 IN
          ev'.res.entries[x].cls # "already" =>
             ev'.res.entries[x].rev = Rev(p - 1) + (IF cfg.cls[p] = "changed" THEN 1 ELSE 0)]_vars
\* A failed save publishes nothing.
C18_FailedSavePublishesNothing ==
  [][IsBatch /\ ev'.res.err => mem' = mem /\ disk' = disk]_vars

View == <<mem, disk, next, cfg>>
===============================================================================

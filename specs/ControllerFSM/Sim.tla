--------------------------------- MODULE Sim ---------------------------------
(* Schedule generator: `tlc -simulate` prints one JSON behaviour per line
   ("BEH {...}") when a run reaches Depth steps.  A behaviour is a log shape
   (cfg: length and per-command classes) plus a delivery schedule with the reply
   and projection the specification predicts after every call.  The harness builds
   a real command log with these classes and runs the schedule on the real code. *)
EXTENDS ControllerFSM, Json, TLC
CONSTANT Depth
VARIABLE hist

SimInit == Init /\ hist = << [ev |-> ev, st |-> Proj] >>
Pick(S) == {RandomElement(S)}
Min(a, b) == IF a < b THEN a ELSE b
SimStep ==
  \* in-order delivery in batches of 1..4
  \/ next <= N /\ \E j \in Pick(next..Min(N, next + 3)) : ApplyBatch(next, j, FALSE, "batch")
  \/ next <= N /\ \E j \in Pick(next..N) : ApplyBatch(next, j, FALSE, "batch")
  \/ next <= N /\ ApplyBatch(next, next, FALSE, "apply")
  \* replay: the batch starts at or before an entry that was already delivered
  \/ \E i \in Pick(1..next) : \E j \in Pick((i - 1)..N) : ApplyBatch(i, j, FALSE, "batch")
  \/ \E i \in Pick(1..Min(N, next)) : \E j \in Pick(i..Min(N, next)) : ApplyBatch(i, j, FALSE, "batch")
  \/ \E i \in Pick(1..Min(N, next)) : ApplyBatch(i, i, FALSE, "apply")
  \* the state file cannot be replaced
  \/ \E i \in Pick(1..Min(N, next)) : \E j \in Pick(i..N) : ApplyBatch(i, j, TRUE, "batch")
  \/ Restart
  \/ Restart
  \/ (RandomElement(1..3) = 1 /\ Reset)
  \/ (RandomElement(1..3) = 1 /\ \E k \in Pick(0..N) : Restore(k))
SimNext == SimStep /\ hist' = Append(hist, [ev |-> ev', st |-> Proj'])
Emit    == Len(hist) = Depth + 1 => PrintT("BEH " \o ToJson([steps |-> hist]))
===============================================================================

SPECIFICATION TraceSpec
CONSTANTS
  Ns = {1}
  AllowFail = TRUE
CONSTRAINT Track
INVARIANTS Conform TypeOK C18_RefShape C18_RefRevision C18_RefLogical C18_RefCounted C18_RefUntouched C18_RefValid C18_PublishedIsPersisted GapFree
PROPERTIES C18_PartitionIndependent C18_ReplayChangesNothing C18_RevisionArithmetic C18_FailedSavePublishesNothing
POSTCONDITION Accepted
CHECK_DEADLOCK FALSE

----------------------------- MODULE StreamFraming -----------------------------
(* The gateway's stream decoder over chunk arrivals -- property C23, first sentence:
   "Given any concatenation of encoded frames delivered in arbitrary chunk splits, the
    gateway decoder yields exactly the original frames in order and never reports
    progress on an incomplete frame."

   Code: pkg/gateway/protocol/wkproto/adapter.go (Adapter.Decode: loop over DecodeFrame
   until no complete frame is left), pkg/protocol/codec/protocol.go (DecodeFrame,
   decodeFramer, decodeLength), pkg/gateway/core/server.go (the caller: appends every
   chunk to the inbound buffer, calls Decode, drops `consumed` bytes).

   The wire is a scaled-down byte string in which every boundary-relative position class of
   a frame has exactly one representative offset.  Frame kinds:
     "P"  header only (PING / PONG: one byte, no length)                          size 1
     "S"  header, one length byte, body                                            size 4
     "L"  header, multi-byte length prefix (continuation bit), body                size 6
   with a two-byte body ("S") or three-byte body ("L": two interior offsets, so that one body
   can be cut twice) in the model.  Position classes of a cut (after how much of frame f
   the chunk ends):  H after the header byte, L inside the length prefix, P after the length
   prefix and before the body, D inside the body, B at the frame boundary.  The harness
   expands every class to all concrete byte offsets of that class in really encoded frames.

   Variables: wire (frame kinds), delivered (bytes handed to the decoder so far), consumed
   (bytes the decoder reported as consumed), out (frames yielded, by index). *)
EXTENDS Integers, Sequences, FiniteSets

CONSTANTS
  Kinds,      \* subset of {"P", "S", "L"}
  MaxFrames   \* wires of 1..MaxFrames frames

VARIABLES wire, delivered, consumed, out, ev
vars == <<wire, delivered, consumed, out, ev>>

LenLen(k)  == CASE k = "P" -> 0 [] k = "S" -> 1 [] k = "L" -> 2
BodyLen(k) == CASE k = "P" -> 0 [] k = "S" -> 2 [] k = "L" -> 3
Size(k)    == 1 + LenLen(k) + BodyLen(k)

RECURSIVE StartOf(_, _)
\* Offset (bytes before) frame i of wire w; StartOf(w, Len(w) + 1) is the total length.
StartOf(w, i) == IF i = 1 THEN 0 ELSE StartOf(w, i - 1) + Size(w[i - 1])
Total(w) == StartOf(w, Len(w) + 1)
Boundaries(w) == {StartOf(w, i) : i \in 1..(Len(w) + 1)}
\* Frame that contains byte number o (1-based) of the wire.
FrameAt(w, o) == CHOOSE i \in 1..Len(w) : StartOf(w, i) < o /\ o <= StartOf(w, i + 1)
\* Class of a cut after byte o.
ClassAt(w, o) ==
  LET f == FrameAt(w, o)  off == o - StartOf(w, f)  k == w[f] IN
  IF off = Size(k) THEN "B"
  ELSE IF off = 1 THEN "H"
  ELSE IF off < 1 + LenLen(k) THEN "L"
  ELSE IF off = 1 + LenLen(k) THEN "P"
  ELSE "D"

\* ---- the decoder ---------------------------------------------------------------------------
\* Adapter.Decode(in) with in = bytes (pos, del]: `for consumed < len(in)` DecodeFrame ... .
\* Returns the new consumed offset and the frames yielded.
RECURSIVE Scan(_, _, _, _)
Scan(w, del, pos, acc) ==
  IF pos >= del THEN [pos |-> pos, frames |-> acc]                    \* nothing left
  ELSE
    LET f == FrameAt(w, pos + 1)  k == w[f]  avail == del - pos IN
    IF k = "P" THEN Scan(w, del, pos + 1, Append(acc, f))             \* PING/PONG: 1 byte
    \* decodeLength: every length byte up to the one without continuation bit must be present
    ELSE IF avail < 1 + LenLen(k) THEN [pos |-> pos, frames |-> acc]  \* errDecodeLength: wait
    \* `if len(data) < msgLen { return nil, 0, nil }`
    ELSE IF avail < Size(k) THEN [pos |-> pos, frames |-> acc]
    ELSE Scan(w, del, pos + Size(k), Append(acc, f))
DecodeRes(w, del, pos) == Scan(w, del, pos, <<>>)

Wires == UNION {[1..n -> Kinds] : n \in 1..MaxFrames}

Proj == [out |-> Len(out), pending |-> delivered - consumed > 0]

Init ==
  /\ wire \in Wires
  /\ delivered = 0 /\ consumed = 0 /\ out = <<>>
  /\ ev = [a |-> "Init", wire |-> wire]

\* A chunk arrives: the inbound buffer now ends after byte `to` of the wire.
Deliver(to) ==
  /\ to \in (delivered + 1)..Total(wire)
  /\ delivered' = to
  /\ ev' = [a |-> "Deliver", f |-> FrameAt(wire, to), cls |-> ClassAt(wire, to)]
  /\ UNCHANGED <<wire, consumed, out>>

\* One call of Adapter.Decode on the unconsumed part of the buffer; the caller drops the
\* consumed bytes.
Decode ==
  /\ LET r == DecodeRes(wire, delivered, consumed) IN
       /\ consumed' = r.pos
       /\ out' = out \o r.frames
       /\ ev' = [a |-> "Decode", res |-> [frames |-> r.frames]]
  /\ UNCHANGED <<wire, delivered>>

Next == (\E to \in 1..Total(wire) : Deliver(to)) \/ Decode
Spec == Init /\ [][Next]_vars
View == <<wire, delivered, consumed, out>>

TypeOK ==
  /\ wire \in Wires
  /\ delivered \in 0..Total(wire) /\ consumed \in 0..delivered
  /\ out \in Seq(1..Len(wire))

\* ---- property C23 (first sentence) -----------------------------------------------------------
\* The frames yielded so far are a prefix of the original frames, in order ...
C23_InOrder == out = [i \in 1..Len(out) |-> i]
\* ... the decoder never reports progress on an incomplete frame: what it has consumed is
\* exactly the bytes of the frames it has yielded (a frame boundary within the delivered bytes).
C23_BoundaryOnly ==
  /\ consumed \in Boundaries(wire) /\ consumed <= delivered
  /\ consumed = StartOf(wire, Len(out) + 1)
C23_NoProgressOnIncomplete ==
  [][(ev'.a = "Decode" /\ ev'.res.frames = <<>>) => consumed' = consumed]_vars
\* ... and exactly the original frames: after a Decode every completely delivered frame has
\* been yielded (so once everything is delivered, all frames are out).
CompleteFrames == Cardinality({i \in 1..Len(wire) : StartOf(wire, i + 1) <= delivered})
C23_AllCompleteFramesYielded ==
  [][ev'.a = "Decode" => Len(out') = CompleteFrames']_vars
===============================================================================

--------------------------------- MODULE Sim ---------------------------------
(* Behaviour generator for StreamFraming (spec -> code).  Two sources of "BEH {json}" lines:

   1. Exhaustive enumeration (evaluated once, as an ASSUME), two families: every wire of
      1..EnumFramesA frames over Kinds with every split shape of at most EnumCutsA cuts, and the
      same for EnumFramesB / EnumCutsB (a cut = an interior offset of the scaled-down wire, i.e.
      one boundary-relative position class of one frame), with a Decode after every chunk and
      one more Decode at the end (which must yield nothing).
   2. `-simulate` random walks of Next: several chunks between two Decodes, repeated Decodes. *)
EXTENDS StreamFraming, Json, TLC, SequencesExt, FiniteSetsExt
CONSTANTS Depth, EnumFramesA, EnumCutsA, EnumFramesB, EnumCutsB
VARIABLE hist

\* ---- 1. enumeration -------------------------------------------------------------------------
EnumWires(frames) == UNION {[1..n -> Kinds] : n \in 1..frames}
CutSets(w, cuts) == {c \in SUBSET (1..(Total(w) - 1)) : Cardinality(c) <= cuts}
RECURSIVE Feed(_, _, _, _)
\* stops: ascending sequence of offsets ending with Total(w); pos: consumed so far; n: frames out.
Feed(w, stops, pos, n) ==
  IF stops = <<>> THEN
     << [ev |-> [a |-> "Decode", res |-> [frames |-> <<>>]], st |-> [out |-> n, pending |-> FALSE]] >>
  ELSE
     LET to == Head(stops)
         r  == DecodeRes(w, to, pos)
         n2 == n + Len(r.frames)
     IN << [ev |-> [a |-> "Deliver", f |-> FrameAt(w, to), cls |-> ClassAt(w, to)],
            st |-> [out |-> n, pending |-> TRUE]],
           [ev |-> [a |-> "Decode", res |-> [frames |-> r.frames]],
            st |-> [out |-> n2, pending |-> to - r.pos > 0]] >>
        \o Feed(w, Tail(stops), r.pos, n2)
EnumBeh(w, cuts) ==
  [steps |-> << [ev |-> [a |-> "Init", wire |-> w], st |-> [out |-> 0, pending |-> FALSE]] >>
             \o Feed(w, SetToSortSeq(cuts \cup {Total(w)}, <), 0, 0)]
ASSUME \A w \in EnumWires(EnumFramesA) : \A c \in CutSets(w, EnumCutsA) : PrintT("BEH " \o ToJson(EnumBeh(w, c)))
ASSUME \A w \in EnumWires(EnumFramesB) : \A c \in CutSets(w, EnumCutsB) : PrintT("BEH " \o ToJson(EnumBeh(w, c)))

\* ---- 2. random walks ----------------------------------------------------------------------
Pick(S) == {RandomElement(S)}
SimInit == Init /\ hist = << [ev |-> ev, st |-> Proj] >>
Rest == (delivered + 1)..Total(wire)
SimStep ==
  \/ Rest # {} /\ \E to \in Pick(Rest) : Deliver(to)
  \* aimed: a short chunk (the next one or two bytes), so that cuts inside prefixes are frequent
  \/ Rest # {} /\ \E to \in Pick({delivered + 1, IF delivered + 2 <= Total(wire) THEN delivered + 2 ELSE delivered + 1}) : Deliver(to)
  \/ Decode
  \/ Decode
SimNext == SimStep /\ hist' = Append(hist, [ev |-> ev', st |-> Proj'])
\* A run is emitted when everything has been delivered and decoded (or at Depth steps).
Done == delivered = Total(wire) /\ consumed = delivered /\ ev.a = "Decode" /\ ev.res.frames = <<>>
Emit == (Len(hist) = Depth + 1 \/ Done) => PrintT("BEH " \o ToJson([steps |-> hist]))
Stop == ~Done
===============================================================================

INIT SimInit
NEXT SimNext
CONSTANTS
  Kinds = {"P", "S", "L"}
  MaxFrames = 5
  Depth = 30
  EnumFramesA = 2
  EnumCutsA = 2
  EnumFramesB = 3
  EnumCutsB = 1
INVARIANT Emit
CONSTRAINT Stop
CHECK_DEADLOCK FALSE

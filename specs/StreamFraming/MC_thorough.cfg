\* Wires of 1..5 frames over the three kinds, every chunking (Deliver to any later offset),
\* Decode at any time.
SPECIFICATION Spec
CONSTANTS
  Kinds = {"P", "S", "L"}
  MaxFrames = 5
VIEW View
INVARIANTS TypeOK C23_InOrder C23_BoundaryOnly
PROPERTIES C23_NoProgressOnIncomplete C23_AllCompleteFramesYielded
CHECK_DEADLOCK FALSE

INIT SimInit
NEXT SimNext
CONSTANTS
  Kinds = {"P", "S", "L"}
  MaxFrames = 5
  Depth = 30
  EnumFramesA = 2
  EnumCutsA = 3
  EnumFramesB = 3
  EnumCutsB = 2
INVARIANT Emit
CONSTRAINT Stop
CHECK_DEADLOCK FALSE

\* C29 quick: 2 channels, 3 items, 1 key + keyless, 2 payloads, <=1 injected failure, 1-2 batches in flight.
\* 18,638 distinct states (38,744 generated), ~10 s idle / 25-70 s on the loaded box, 8 workers (MaxCancel = 1 here: 55,249 distinct, 5 min loaded; item contexts have their own config MC_cancel.cfg).
SPECIFICATION Spec
CONSTANTS
  NChans = 2
  NKeys = 1
  NPays = 2
  MaxItems = 3
  MaxBatch = 2
  MaxFail = 1
  MaxStops = 0
  MaxCancel = 0
  Inflights = {1, 2}
  Hws = {99}
  Caps = {99}
  Effs = {FALSE}
  Unbounded = 99
  Canonical = TRUE
  StrictOrder = FALSE
VIEW View
INVARIANTS TypeOK C29_InflightBound C29_CanceledOnlyIfCancelled C29_Aligned C29_NoSecondMessage C29_RetryOriginal C29_ChangedPayloadNeverSucceeds C29_Order C41_DoneMeansDrained C41_NothingDiscarded
PROPERTIES C29_ExactlyOne C41_NoAdmitAfterStop C41_TimeoutKeepsWork
CHECK_DEADLOCK FALSE

SPECIFICATION TraceSpec
CONSTANTS
  NChans = 3
  NKeys = 3
  NPays = 2
  MaxItems = 1000000
  MaxBatch = 8
  MaxFail = 1000000
  MaxStops = 1000000
  MaxCancel = 1000000
  Inflights = {1, 2}
  Hws = {2, 3, 4, 99}
  Caps = {1, 2, 3, 99}
  Effs = {FALSE, TRUE}
  Unbounded = 99
  Canonical = FALSE
  StrictOrder = FALSE
CONSTRAINT Track
INVARIANTS ObligationsC41 WellFormed SuccessNamesStoredRecord
POSTCONDITION Accepted
CHECK_DEADLOCK FALSE

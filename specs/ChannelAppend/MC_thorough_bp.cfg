\* C29 thorough, backpressure: 1 channel, 4 items, backlog limits {1,2}, admission capacities {1,2,unbounded}, a Stop.
\* 300,450 distinct states (842,652 generated), 1 min, 8 workers.
SPECIFICATION Spec
CONSTANTS
  NChans = 1
  NKeys = 1
  NPays = 1
  MaxItems = 4
  MaxBatch = 2
  MaxFail = 1
  MaxStops = 1
  MaxCancel = 0
  Inflights = {1, 2}
  Hws = {1, 2}
  Caps = {1, 2, 99}
  Effs = {FALSE}
  Unbounded = 99
  Canonical = TRUE
  StrictOrder = FALSE
VIEW View
INVARIANTS TypeOK C29_InflightBound C29_CanceledOnlyIfCancelled C29_Aligned C29_NoSecondMessage C29_RetryOriginal C29_ChangedPayloadNeverSucceeds C29_Order C41_DoneMeansDrained C41_NothingDiscarded
PROPERTIES C29_ExactlyOne C41_NoAdmitAfterStop C41_TimeoutKeepsWork
CHECK_DEADLOCK FALSE

\* C29 item contexts: 1 channel, 4 items, 2 keys, 1 payload, batches of up to 3, recovery by idempotency conflict only,
\* at most 1 item given up by its submitter while its request is at the Appender, 1 batch in flight, strict order.
\* 32,782 distinct states (56,771 generated), ~2.5 min on the loaded box with 6 workers.
SPECIFICATION Spec
CONSTANTS
  NChans = 1
  NKeys = 2
  NPays = 1
  MaxItems = 4
  MaxBatch = 3
  MaxFail = 0
  MaxStops = 0
  MaxCancel = 1
  Inflights = {1}
  Hws = {99}
  Caps = {99}
  Effs = {FALSE}
  Unbounded = 99
  Canonical = TRUE
  StrictOrder = TRUE
VIEW View
INVARIANTS TypeOK C29_InflightBound C29_CanceledOnlyIfCancelled C29_Aligned C29_NoSecondMessage C29_RetryOriginal C29_ChangedPayloadNeverSucceeds C29_Order C41_DoneMeansDrained C41_NothingDiscarded
PROPERTIES C29_ExactlyOne C41_NoAdmitAfterStop C41_TimeoutKeepsWork
CHECK_DEADLOCK FALSE

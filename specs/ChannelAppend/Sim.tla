--------------------------------- MODULE Sim ---------------------------------
(* Schedule generator (spec -> code, Method A).  `tlc -simulate` prints one JSON behaviour per run.

   The harness owns the Appender, the idempotency store and the post-commit port, so it decides
   WHEN a parked append is answered and HOW (ok / conflict as the log dictates, or an injected
   failure), when an effect ends, when callers submit and stop and when a short Stop deadline
   expires.  Everything else the real writer does by itself as soon as it can.  Behaviours are
   therefore generated under the same policy: while a spontaneous step of the pipeline is
   enabled (Prepare, AppendStart, Lookup, EffStart, a drained Stop returning) one of them is
   taken; only in a quiescent state does the driver take its next step.  Every interleaving
   that is left out here is covered by the exhaustive runs (design) and by Method B (traces). *)
EXTENDS ChannelAppend, Json
CONSTANTS Depth,
          Scripted   \* TRUE: replay the hand-written caller scripts of Scenarios instead of random callers
VARIABLES hist, fin,
          scen,      \* name of the scenario ("" in random mode)
          script     \* caller commands still to run

Pick(S) == {RandomElement(S)}
Some(S) == IF S = {} THEN {} ELSE Pick(S)

Spont ==
  \/ (\E c \in Chans : Prepare(c, Len(inbox[c]))) \/ AppendStartAny \/ LookupAny \/ EffStartAny
  \/ \E s \in 1..Len(stops) : StopReturn(s, "done")

Cancellable == {i \in 1..Len(items) : ~items[i].x /\ \E x \in 1..Len(infl[items[i].c]) :
                   infl[items[i].c][x].ph = "start" /\ i \in Ran(infl[items[i].c][x].uniq)}
Parked == {<<c, x>> \in Chans \X (1..2) : x <= Len(infl[c]) /\ infl[c][x].ph \in {"start", "rstart"}}
OneItem == {<<[k |-> k, p |-> p]>> : k \in Keys \cup {NoKey}, p \in Pays}

Driver ==
  \* fresh traffic
  \/ \E c \in Pick(Chans), its \in Pick(BatchShapes) : Submit(c, its)
  \/ \E c \in Pick(Chans), its \in Pick(OneItem) : Submit(c, its)
  \* aimed: retry an earlier send with the same / a changed payload, alone or next to a fresh item
  \/ \E i \in Some(1..Len(items)) : Submit(items[i].c, <<[k |-> items[i].k, p |-> items[i].p]>>)
  \/ \E i \in Some({i \in 1..Len(items) : items[i].k # NoKey}), p \in Pick(Pays) :
        Submit(items[i].c, <<[k |-> items[i].k, p |-> p]>>)
  \/ \E i \in Some({i \in 1..Len(items) : items[i].k # NoKey}), x \in Pick(ItemShapes), first \in Pick(BOOLEAN) :
        LET me == [k |-> items[i].k, p |-> items[i].p] IN
        Submit(items[i].c, IF first THEN <<me, x>> ELSE <<x, me>>)
  \* aimed: the same logical send twice in one batch (coalescing), possibly with a changed payload
  \/ \E c \in Pick(Chans), k \in Pick(Keys), p \in Pick(Pays), q \in Pick(Pays) :
        Submit(c, <<[k |-> k, p |-> p], [k |-> k, p |-> q]>>)
  \* the Appender answers a parked request (twice as likely as an injected failure)
  \/ \E cx \in Some(Parked), o \in {"ok", "conflict"} : AppendEnd(cx[1], cx[2], o)
  \/ \E cx \in Some(Parked), o \in {"ok", "conflict"} : AppendEnd(cx[1], cx[2], o)
  \/ \E cx \in Some(Parked), o \in Pick({"failBefore", "failAfter"}) : AppendEnd(cx[1], cx[2], o)
  \/ EffEndAny
  \* a submitter gives up on an item that is at the Appender; the shard's cleanup drops an idle writer
  \/ \E i \in Some(Cancellable) : CancelItem(i)
  \/ \E c \in Some({c \in Chans : Reclaimable(c)}) : Reclaim(c)
  \* stop: short and long deadlines at any point, a deadline expiring
  \/ (RandomElement(1..3) = 1 /\ StopCall("short"))
  \/ (RandomElement(1..4) = 1 /\ StopCall("long"))
  \/ \E s \in Some({s \in 1..Len(stops) : stops[s].st = "begun" /\ stops[s].dl = "short"}) : StopReturn(s, "timeout")

\* ---- scripted callers ------------------------------------------------------------------------
\* A scenario is a configuration and a list of CALLER commands; everything the pipeline does by
\* itself, every reply and every expected observation is computed by the specification.
I(k, p) == [k |-> k, p |-> p]
Sub(c, its)    == [op |-> "submit", c |-> c, its |-> its]
End(c, x, out) == [op |-> "end", c |-> c, x |-> x, out |-> out]      \* out "auto": ok / conflict as the log dictates
EffDone(c)     == [op |-> "effend", c |-> c]
Stop(dl)       == [op |-> "stop", dl |-> dl]
Expire(s)      == [op |-> "timeout", s |-> s]
Cancel(i)      == [op |-> "cancel", i |-> i]
Recl(c)        == [op |-> "reclaim", c |-> c]
Cfg(i, h, cp, e) == [inflight |-> i, hw |-> h, cap |-> cp, eff |-> e]

Scenarios == {
  [name |-> "coalesce-in-batch", cfg |-> Cfg(1, 99, 99, FALSE), cmds |->
     << Sub(1, <<I(1,1), I(1,1), I(2,1), I(1,1)>>), End(1, 1, "auto"), Stop("long") >>],
  [name |-> "coalesce-twice-in-batch", cfg |-> Cfg(1, 99, 99, FALSE), cmds |->
     << Sub(1, <<I(1,1), I(1,1), I(2,1), I(0,1), I(2,1)>>), End(1, 1, "auto"), Sub(2, <<I(1,1), I(2,2), I(1,1), I(0,1), I(2,2), I(1,1)>>),
        End(2, 1, "auto") >>],
  [name |-> "coalesce-then-fail", cfg |-> Cfg(1, 99, 99, FALSE), cmds |->
     << Sub(1, <<I(2,1), I(1,1), I(1,1)>>), End(1, 1, "failBefore"), Sub(1, <<I(1,1), I(2,1)>>), End(1, 1, "auto") >>],
  [name |-> "retry-returns-original", cfg |-> Cfg(1, 99, 99, FALSE), cmds |->
     << Sub(1, <<I(1,1)>>), End(1, 1, "auto"), Sub(1, <<I(1,1), I(0,1)>>), End(1, 1, "auto"), End(1, 1, "auto"),
        Sub(1, <<I(1,1)>>), End(1, 1, "auto") >>],
  [name |-> "changed-payload-fails", cfg |-> Cfg(1, 99, 99, FALSE), cmds |->
     << Sub(1, <<I(1,1)>>), End(1, 1, "auto"), Sub(1, <<I(1,2)>>), End(1, 1, "auto") >>],
  [name |-> "changed-payload-next-to-recovered", cfg |-> Cfg(1, 99, 99, FALSE), cmds |->
     << Sub(1, <<I(1,1), I(2,1)>>), End(1, 1, "auto"), Sub(1, <<I(1,1), I(2,2), I(0,1)>>), End(1, 1, "auto"), End(1, 1, "auto") >>],
  [name |-> "same-key-two-payloads-in-batch", cfg |-> Cfg(1, 99, 99, FALSE), cmds |->
     << Sub(1, <<I(1,1), I(1,2)>>), End(1, 1, "auto"), Sub(1, <<I(1,1)>>), End(1, 1, "auto") >>],
  [name |-> "fail-before-then-retry", cfg |-> Cfg(1, 99, 99, FALSE), cmds |->
     << Sub(1, <<I(1,1)>>), End(1, 1, "failBefore"), Sub(1, <<I(1,1)>>), End(1, 1, "auto") >>],
  [name |-> "reply-lost-recovered", cfg |-> Cfg(1, 99, 99, FALSE), cmds |->
     << Sub(1, <<I(1,1), I(2,1)>>), End(1, 1, "failAfter"), Sub(1, <<I(1,1)>>), End(1, 1, "auto") >>],
  [name |-> "retry-fails-after-recovery", cfg |-> Cfg(1, 99, 99, FALSE), cmds |->
     << Sub(1, <<I(1,1)>>), End(1, 1, "auto"), Sub(1, <<I(1,1), I(2,1)>>), End(1, 1, "auto"), End(1, 1, "failBefore"),
        Sub(1, <<I(2,1)>>), End(1, 1, "auto") >>],
  [name |-> "merge-while-in-flight", cfg |-> Cfg(1, 99, 99, FALSE), cmds |->
     << Sub(1, <<I(0,1)>>), Sub(1, <<I(1,1)>>), Sub(2, <<I(1,1)>>), Sub(1, <<I(1,1), I(0,1)>>), End(1, 1, "auto"),
        End(2, 1, "auto"), End(1, 1, "auto") >>],
  [name |-> "two-in-flight-ordered", cfg |-> Cfg(2, 99, 99, FALSE), cmds |->
     << Sub(1, <<I(0,1)>>), Sub(1, <<I(0,1)>>), Sub(1, <<I(0,1)>>), Sub(1, <<I(0,1)>>), End(1, 1, "auto"), End(1, 1, "auto"),
        End(1, 1, "auto") >>],
  [name |-> "two-in-flight-late-first-completion", cfg |-> Cfg(2, 99, 99, FALSE), cmds |->
     << Sub(1, <<I(1,1)>>), End(1, 1, "auto"), Sub(1, <<I(1,1), I(2,1)>>), Sub(1, <<I(0,1)>>), End(1, 1, "auto"),
        End(1, 2, "auto"), End(1, 1, "auto") >>],
  [name |-> "stop-expired-deadline-keeps-queued", cfg |-> Cfg(1, 99, 99, FALSE), cmds |->
     << Sub(1, <<I(1,1)>>), Sub(1, <<I(2,1), I(0,1)>>), Sub(2, <<I(0,1)>>), Stop("short"), Expire(1), Sub(1, <<I(0,1)>>),
        Stop("short"), Expire(2), End(2, 1, "auto"), Stop("long"), End(1, 1, "auto"), End(1, 1, "auto") >>],
  [name |-> "second-stop-same-drain", cfg |-> Cfg(1, 99, 99, TRUE), cmds |->
     << Sub(1, <<I(0,1)>>), Stop("long"), Stop("long"), Sub(2, <<I(0,1)>>), End(1, 1, "auto"), Stop("short"), Expire(3), EffDone(1) >>],
  [name |-> "stop-waits-for-effects", cfg |-> Cfg(1, 99, 99, TRUE), cmds |->
     << Sub(1, <<I(1,1), I(1,1), I(0,1)>>), End(1, 1, "auto"), Stop("short"), Expire(1), EffDone(1), Stop("long"), EffDone(1) >>],
  [name |-> "channel-busy", cfg |-> Cfg(1, 2, 99, FALSE), cmds |->
     << Sub(1, <<I(0,1)>>), Sub(1, <<I(0,1)>>), Sub(1, <<I(1,1)>>), Sub(1, <<I(0,1), I(0,1)>>), End(1, 1, "auto"), Sub(1, <<I(1,1)>>),
        End(1, 1, "auto"), End(1, 1, "auto") >>],
  \* item contexts: a miss of a recovered batch whose submitter gave up while the first attempt was at
  \* the Appender is answered "canceled" in its own position, the other misses are retried
  [name |-> "cancelled-miss-before-active-miss", cfg |-> Cfg(1, 99, 99, FALSE), cmds |->
     << Sub(1, <<I(1,1)>>), End(1, 1, "auto"), Sub(1, <<I(1,1), I(2,1), I(0,1)>>), Cancel(3), End(1, 1, "auto"), End(1, 1, "auto"),
        Sub(1, <<I(2,1)>>), End(1, 1, "auto") >>],
  [name |-> "cancelled-misses-around-active-miss", cfg |-> Cfg(1, 99, 99, FALSE), cmds |->
     << Sub(1, <<I(2,1)>>), End(1, 1, "auto"), Sub(1, <<I(0,1), I(0,2), I(2,1), I(1,1), I(0,1)>>), Cancel(2), Cancel(6), End(1, 1, "auto"),
        End(1, 1, "auto") >>],
  [name |-> "cancelled-last-miss-and-all-misses", cfg |-> Cfg(1, 99, 99, FALSE), cmds |->
     << Sub(1, <<I(1,1)>>), End(1, 1, "auto"), Sub(1, <<I(1,1), I(0,1), I(2,1)>>), Cancel(4), End(1, 1, "auto"), End(1, 1, "auto"),
        Sub(1, <<I(1,1), I(0,1)>>), Cancel(6), End(1, 1, "auto") >>],
  [name |-> "cancel-ignored-without-recovery", cfg |-> Cfg(1, 99, 99, FALSE), cmds |->
     << Sub(1, <<I(1,1), I(2,1)>>), Cancel(1), End(1, 1, "failBefore"), Sub(2, <<I(1,1), I(0,1)>>), Cancel(4), End(2, 1, "auto") >>],
  [name |-> "cancelled-miss-two-in-flight", cfg |-> Cfg(2, 99, 99, FALSE), cmds |->
     << Sub(1, <<I(1,1)>>), End(1, 1, "auto"), Sub(1, <<I(1,1), I(2,1), I(0,1)>>), Sub(1, <<I(0,2)>>), Cancel(3), End(1, 1, "auto"),
        End(1, 1, "auto"), End(1, 1, "auto") >>],
  \* writer reclaim: the shard's cleanup runs while an append of another channel is held at the
  \* Appender; the channel's next send must still wait for that append
  [name |-> "reclaim-while-append-in-flight", cfg |-> Cfg(1, 99, 99, FALSE), cmds |->
     << Sub(1, <<I(0,1)>>), Sub(2, <<I(0,1)>>), End(2, 1, "auto"), Recl(2), Sub(1, <<I(0,1)>>), Sub(2, <<I(0,1)>>), End(2, 1, "auto"),
        End(1, 1, "auto"), End(1, 1, "auto"), Recl(1), Recl(2), Sub(1, <<I(0,1)>>), End(1, 1, "auto") >>],
  [name |-> "reclaim-with-effects-and-retry", cfg |-> Cfg(1, 99, 99, TRUE), cmds |->
     << Sub(1, <<I(1,1)>>), Sub(2, <<I(1,1)>>), End(2, 1, "auto"), EffDone(2), Recl(2), Sub(1, <<I(1,1), I(0,1)>>), End(1, 1, "auto"),
        EffDone(1), End(1, 1, "auto"), End(1, 1, "auto"), EffDone(1), Recl(1), Sub(1, <<I(1,1)>>), End(1, 1, "auto") >>],
  [name |-> "admission-backpressure", cfg |-> Cfg(1, 99, 2, FALSE), cmds |->
     << Sub(1, <<I(0,1)>>), Sub(2, <<I(0,1)>>), Sub(1, <<I(0,1)>>), End(1, 1, "auto"), Sub(1, <<I(0,1)>>), End(2, 1, "auto"),
        End(1, 1, "auto") >>]
}
NScen == Cardinality(Scenarios)

RunCmd(cmd) ==
  CASE cmd.op = "submit"  -> Submit(cmd.c, cmd.its)
    [] cmd.op = "end"     -> /\ cmd.x <= Len(infl[cmd.c])
                             /\ AppendEnd(cmd.c, cmd.x,
                                  IF cmd.out # "auto" THEN cmd.out
                                  ELSE IF Conflict(cmd.c, ReqTags(infl[cmd.c][cmd.x])) THEN "conflict" ELSE "ok")
    [] cmd.op = "effend"  -> EffEnd(cmd.c)
    [] cmd.op = "stop"    -> StopCall(cmd.dl)
    [] cmd.op = "timeout" -> StopReturn(cmd.s, "timeout")
    [] cmd.op = "cancel"  -> CancelItem(cmd.i)
    [] cmd.op = "reclaim" -> Reclaim(cmd.c)

Step ==
  IF SpontEnabled THEN Spont /\ UNCHANGED script
  ELSE IF Scripted THEN script # <<>> /\ RunCmd(Head(script)) /\ script' = Tail(script)
  ELSE Driver /\ UNCHANGED script

SimInit ==
  /\ IF Scripted
       THEN \E sc \in Scenarios : InitWith(sc.cfg) /\ scen = sc.name /\ script = sc.cmds
       ELSE Init /\ scen = "" /\ script = <<>>
  /\ hist = << [ev |-> ev, st |-> Proj] >> /\ fin = 0
SimNext ==
  \/ /\ fin = 0 /\ Step
     /\ hist' = Append(hist, [ev |-> ev', st |-> Proj'])
     /\ UNCHANGED <<fin, scen>>
  \* nothing left to do: the behaviour ends early
  \/ /\ fin = 0 /\ ~ENABLED Step
     /\ fin' = 1 /\ UNCHANGED <<vars, hist, scen, script>>

Out(steps) == "BEH " \o ToJson([steps |-> steps, final |-> [scen |-> scen, nscen |-> NScen, left |-> Len(script)]])
\* Invariants are evaluated on every candidate successor: print the common prefix one level later.
Emit ==
  /\ (fin = 0 /\ Len(hist) = Depth + 2) => PrintT(Out(SubSeq(hist, 1, Depth + 1)))
  /\ (fin = 1 /\ Len(hist) <= Depth + 1) => PrintT(Out(hist))
===============================================================================

\* Not registered: a small configuration with every feature switched on, run once with
\* `-coverage 1` to show that no action of Next has a zero count.  98,574 distinct states; distinct:generated
\* per action: Submit 914:82125, Prepare 3840:23072, AppendStart 6030:16032, AppendEnd 14392:34168, Lookup 12309:30768,
\* EffStart 9897:25276, EffEnd 13336:25276, StopCall 18100:47406, StopReturn 19752:27465.
SPECIFICATION Spec
CONSTANTS
  NChans = 1
  NKeys = 1
  NPays = 2
  MaxItems = 3
  MaxBatch = 2
  MaxFail = 1
  MaxStops = 1
  MaxCancel = 0
  Inflights = {1, 2}
  Hws = {2}
  Caps = {2, 99}
  Effs = {TRUE}
  Unbounded = 99
  Canonical = TRUE
  StrictOrder = FALSE
VIEW View
INVARIANTS TypeOK C29_InflightBound C29_CanceledOnlyIfCancelled C29_Aligned C29_NoSecondMessage C29_RetryOriginal C29_ChangedPayloadNeverSucceeds C29_Order C41_DoneMeansDrained C41_NothingDiscarded
PROPERTIES C29_ExactlyOne C41_NoAdmitAfterStop C41_TimeoutKeepsWork
CHECK_DEADLOCK FALSE

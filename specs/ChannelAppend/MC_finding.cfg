\* NOT registered (fails by design): with StrictOrder = TRUE TLC exhibits the known finding
\* C29:retry-after-recovery-reorders-inflight2 (two batches in flight, the bounded recovery retry of
\* the first is a new request behind the second).
SPECIFICATION Spec
CONSTANTS
  NChans = 1
  NKeys = 1
  NPays = 1
  MaxItems = 4
  MaxBatch = 2
  MaxFail = 0
  MaxStops = 0
  MaxCancel = 0
  Inflights = {2}
  Hws = {99}
  Caps = {99}
  Effs = {FALSE}
  Unbounded = 99
  Canonical = TRUE
  StrictOrder = TRUE
VIEW View
INVARIANTS C29_Order
CHECK_DEADLOCK FALSE

INIT SimInit
NEXT SimNext
CONSTANTS
  NChans = 2
  NKeys = 2
  NPays = 2
  MaxItems = 7
  MaxBatch = 2
  MaxFail = 2
  MaxStops = 3
  MaxCancel = 3
  Inflights = {1, 2}
  Hws = {3, 99}
  Caps = {2, 99}
  Effs = {FALSE, TRUE}
  Unbounded = 99
  Canonical = FALSE
  StrictOrder = FALSE
  Depth = 40
  Scripted = FALSE
INVARIANT Emit
CHECK_DEADLOCK FALSE

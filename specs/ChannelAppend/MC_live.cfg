\* 57,841 distinct states (203,406 generated), 1-5 min.
\* Liveness (C41): every admitted item eventually has a terminal result and a Stop with a long
\* deadline eventually returns nil, under weak fairness of the pipeline's own steps, of the
\* Appender / store answering and of effects finishing.  No state constraint, no VIEW: every
\* growing value is bounded by an action guard.
SPECIFICATION LiveSpec
CONSTANTS
  NChans = 2
  NKeys = 1
  NPays = 1
  MaxItems = 2
  MaxBatch = 2
  MaxFail = 1
  MaxStops = 2
  MaxCancel = 0
  Inflights = {1, 2}
  Hws = {99}
  Caps = {99}
  Effs = {TRUE}
  Unbounded = 99
  Canonical = TRUE
  StrictOrder = FALSE
INVARIANTS TypeOK C41_DoneMeansDrained C41_NothingDiscarded
PROPERTIES C41_Terminal C41_LongStopReturns C41_TimeoutKeepsWork C41_NoAdmitAfterStop
CHECK_DEADLOCK FALSE

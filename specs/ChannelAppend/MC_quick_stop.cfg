\* C41 quick: 2 channels, 2 items, 2 Stops (short/long), with and without post-commit effects, 1-2 batches in flight.
\* 26,702 distinct states (92,140 generated), ~40 s on the loaded box.
SPECIFICATION Spec
CONSTANTS
  NChans = 2
  NKeys = 1
  NPays = 1
  MaxItems = 2
  MaxBatch = 2
  MaxFail = 1
  MaxStops = 2
  MaxCancel = 0
  Inflights = {1, 2}
  Hws = {99}
  Caps = {99}
  Effs = {FALSE, TRUE}
  Unbounded = 99
  Canonical = TRUE
  StrictOrder = FALSE
VIEW View
INVARIANTS TypeOK C29_InflightBound C29_CanceledOnlyIfCancelled C29_Aligned C29_NoSecondMessage C29_RetryOriginal C29_ChangedPayloadNeverSucceeds C29_Order C41_DoneMeansDrained C41_NothingDiscarded
PROPERTIES C29_ExactlyOne C41_NoAdmitAfterStop C41_TimeoutKeepsWork
CHECK_DEADLOCK FALSE

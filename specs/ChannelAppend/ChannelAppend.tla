---------------------------- MODULE ChannelAppend ----------------------------
(* The local send pipeline of /repo/internal/runtime/channelappend (properties C29 and C41).

   One action per critical section / port call of the code:

     Submit        Group.SubmitLocal: admission decision under Group.mu (stopping flag, shard
                   admission counter) and enqueue into the writer inbox (group.go, writer.go enqueue)
     Prepare       channelWriter.advance: takeInboxLocked .. admitPreparedInboxLocked (the snapshot of the
                   inbox taken at the start of the pass is admitted; later arrivals wait for the next
                   pass); the channel backlog check canAdmit() answers ErrChannelBusy per submitted
                   batch (writer.go, state.go)
     AppendStart   nextAppendLocked + appendEffect.run up to the Appender call: all pending items form
                   one batch, equal (key, payload) items are coalesced to one owner (append.go
                   newIdempotentAppendBatch); the request is now at the Appender port
     AppendEnd     the Appender answers: "ok" (records stored), "conflict" (an idempotency key is
                   already stored / duplicated in the request: the store refuses the whole request,
                   pkg/db/message/append.go), "failBefore" / "failAfter" (unexpected append failure,
                   nothing stored / stored but the reply is lost).  The log with its idempotency
                   index IS the fake Appender of the harness.
     Lookup        one payload-hash-checked IdempotencyStore.LookupSend of the recovery pass
                   (append.go appendBatchErrorCompletionsOrRecoveriesAndRetry / ...OrRecoveries)
                   the last lookup may put the bounded second attempt (misses only) at the Appender
     (Settle)      applyAppendCompletion, part of the AppendEnd / Lookup step that finishes a batch:
                   completions are drained in append-sequence order, the in-flight slot is released,
                   every original item's future slot is completed
     EffStart/End  post-commit effect (PersistAfter port) of a freshly committed message, one
                   at a time per channel in commit order (state.go nextCommitEffect)
     StopCall      Group.Stop(ctx) is called with a short or a long deadline and sets `stopping`
                   (the first call starts the one background drain)
     StopReturn    Stop returns: "timeout" (caller deadline expired, nothing else happens) or
                   "done" (the drain finished: group.go finishStop closes stopDone)
     CancelItem    environment: the submitter's context of one item (SendBatchItem.Context) is
                   cancelled while the item is part of a first-attempt request at the Appender.
                   The code looks at item contexts when it cuts a batch (activeAppendItems) and
                   when it filters the misses of a recovered batch before the bounded second
                   attempt (append.go appendBatchErrorCompletionsOrRecoveriesAndRetry): a
                   cancelled miss gets the terminal result "canceled" in its own position and
                   is left out of the retry; every other outcome ignores the cancellation
     Reclaim       environment: the shard's opportunistic cleanup (shard.go getOrCreate ->
                   reclaimIdleWritersLocked, run by a first-ever send to another channel of the
                   shard once WriterIdleRetention has passed) drops the channel's writer.  The
                   code's own condition (writer.go idleExpired): no inbox, no pending work, NO
                   append in flight, no undrained completion, no post-commit backlog.  Nothing
                   observable changes: the next send to the channel creates a new writer

   Message ids are abstracted to the id of the item whose record was stored ("owner").
   Not modelled: routing (Router only groups items by channel and folds results back by position;
   the harness checks that through the same observables), write-fenced targets (pre-append
   lookup), item deadlines and item contexts cancelled at other points than CancelItem (before
   admission, while waiting for an append slot), realtime NoPersist sends, recipient fan-out, the
   post-commit retry FIFO (pool overload), handoff reservations (capacity is never reached). *)
EXTENDS Naturals, Sequences, FiniteSets, SequencesExt, TLC

CONSTANTS
  NChans,      \* channels 1..NChans
  NKeys,       \* idempotency keys (FromUID, ClientMsgNo) 1..NKeys per channel; 0 = no client message number
  NPays,       \* payloads 1..NPays
  MaxItems,    \* items admitted in one behaviour
  MaxBatch,    \* items per SubmitLocal call
  MaxFail,     \* injected (unexpected) append failures
  MaxStops,    \* Stop calls
  MaxCancel,   \* items whose submitter gives up (CancelItem)
  Inflights,   \* values of AppendInflightBatchesPerChannel
  Hws,         \* values of ChannelBacklogHighWatermark
  Caps,        \* values of the shard admission capacity (admitted, unfinished futures)
  Effs,        \* post-commit effect configured?
  Unbounded,   \* the value of Hws that stands for "no backlog limit"
  Canonical,   \* TRUE: callers introduce channels / keys / payloads in canonical order (symmetry reduction)
  StrictOrder  \* TRUE: C29_Order is also demanded of messages committed by the recovery retry
               \* while another batch of the channel is in flight (see C29_Order)

VARIABLES
  cfg,       \* [inflight, hw, cap, eff]
  items,     \* sequence of admitted items [c, k, p, b, orig, x]; the index is the item id
             \* (x: the submitter cancelled the item's context)
  nbat,      \* number of admitted batches
  inbox,     \* [Chans -> Seq(batch record [first, n])]   admitted, not yet prepared
  pend,      \* [Chans -> Seq(item id)]                   prepared, waiting for an append slot
  infl,      \* [Chans -> Seq(append batch)]              dispatched, not yet drained (slot held)
  log,       \* [Chans -> Seq([mid, k, p, att])]          the Appender's channel log (att: request attempt)
  res,       \* sequence over item ids of results [t, mid, seq]
  effq,      \* [Chans -> Seq(item id)]   fresh commits waiting for their post-commit effect
  effrun,    \* [Chans -> item id or 0]   effect in progress
  effdone,   \* set of item ids whose effect finished
  stops,     \* sequence of [dl, st]   dl \in {"short","long"}, st \in {"called","begun","timeout","done"}
  stopping,  \* Group.stopping
  fails,     \* injected failures so far
  ev         \* last action and its reply (hidden from the exhaustive runs by VIEW)

Chans == 1..NChans
Keys  == 1..NKeys
NoKey == 0
Pays  == 1..NPays

vars == <<cfg, items, nbat, inbox, pend, infl, log, res, effq, effrun, effdone, stops, stopping, fails, ev>>
View == <<cfg, items, nbat, inbox, pend, infl, log, res, effq, effrun, effdone, stops, stopping, fails>>

----------------------------------------------------------------------------
\* Results. Uniform record shape (JSON friendly).
RNone      == [t |-> "none", mid |-> 0, seq |-> 0]
ROk(m, s)  == [t |-> "ok",   mid |-> m, seq |-> s]
RFail      == [t |-> "fail", mid |-> 0, seq |-> 0]
RBusy      == [t |-> "busy", mid |-> 0, seq |-> 0]
RMiss      == [t |-> "miss", mid |-> 0, seq |-> 0]   \* internal: lookup miss, not yet terminal
RCanceled  == [t |-> "canceled", mid |-> 0, seq |-> 0]   \* the submitter's own context error

Ran(s) == {s[j] : j \in 1..Len(s)}
MinOf(S) == CHOOSE h \in S : \A g \in S : h <= g
SeqSum(s) == LET RECURSIVE F(_) F(j) == IF j = 0 THEN 0 ELSE s[j] + F(j - 1) IN F(Len(s))

\* ---- the Appender's log (this IS the harness's fake Appender) ----------------------------
LogKeys(c)     == {log[c][j].k : j \in 1..Len(log[c])} \ {NoKey}
\* position of the record stored under key k (0 = none); keys are unique in a log
KeyPos(c, k)   == IF k = NoKey \/ k \notin LogKeys(c) THEN 0
                  ELSE CHOOSE j \in 1..Len(log[c]) : log[c][j].k = k
\* payload-hash-checked idempotency lookup
LookupOf(c, k, p) == LET j == KeyPos(c, k) IN
                     IF j > 0 /\ log[c][j].p = p THEN ROk(log[c][j].mid, j) ELSE RMiss
\* the store refuses a request that carries a stored key or the same key twice
Conflict(c, tags) ==
  \/ \E j \in 1..Len(tags) : items[tags[j]].k # NoKey /\ items[tags[j]].k \in LogKeys(c)
  \/ \E j, h \in 1..Len(tags) : j < h /\ items[tags[j]].k # NoKey /\ items[tags[j]].k = items[tags[h]].k
Stored(c, tags, att) == log[c] \o [j \in 1..Len(tags) |->
                          [mid |-> tags[j], k |-> items[tags[j]].k, p |-> items[tags[j]].p, att |-> att]]

\* ---- in-batch coalescing (append.go newIdempotentAppendBatch) --------------------------------
SameSend(x, y) == items[x].k # NoKey /\ items[x].k = items[y].k /\ items[x].p = items[y].p
\* owner of the j-th item of the batch: the first item of the batch with the same (key, payload)
OwnerIn(orig, j) == LET cands == {h \in 1..j : h = j \/ SameSend(orig[h], orig[j])}
                    IN orig[CHOOSE h \in cands : \A g \in cands : h <= g]
Uniq(orig) == SelectSeq(orig, LAMBDA x : \E j \in 1..Len(orig) : orig[j] = x /\ OwnerIn(orig, j) = x)
IndexIn(s, x) == CHOOSE j \in 1..Len(s) : s[j] = x

\* ---- derived --------------------------------------------------------------------------------
InflItems(c) == SeqSum([j \in 1..Len(infl[c]) |-> Len(infl[c][j].orig)])
BatchOpen(b) == \E i \in 1..Len(items) : items[i].b = b /\ res[i].t = "none"
OpenFutures  == Cardinality({b \in 1..nbat : BatchOpen(b)})
Drained == /\ \A c \in Chans : inbox[c] = <<>> /\ pend[c] = <<>> /\ infl[c] = <<>>
                               /\ effq[c] = <<>> /\ effrun[c] = 0
           /\ \A i \in 1..Len(items) : res[i].t # "none"

CfgSet == [inflight : Inflights, hw : Hws, cap : Caps, eff : Effs]

TypeOK ==
  /\ cfg \in CfgSet
  /\ nbat \in 0..MaxItems /\ fails \in 0..MaxFail
  /\ Len(items) <= MaxItems
  /\ \A i \in 1..Len(items) : items[i].c \in Chans /\ items[i].k \in Keys \cup {NoKey} /\ items[i].p \in Pays
  /\ Len(res) = Len(items)
  /\ \A i \in 1..Len(res) : res[i].t \in {"none", "ok", "fail", "busy", "canceled"}
  /\ stopping \in BOOLEAN
  /\ Len(stops) <= MaxStops

\* at most the configured number of append batches of a channel are in flight
C29_InflightBound == \A c \in Chans : Len(infl[c]) <= cfg.inflight

InitWith(c0) ==
  /\ cfg = c0
  /\ items = <<>> /\ nbat = 0 /\ res = <<>> /\ fails = 0
  /\ inbox = [c \in Chans |-> <<>>] /\ pend = [c \in Chans |-> <<>>] /\ infl = [c \in Chans |-> <<>>]
  /\ log = [c \in Chans |-> <<>>]
  /\ effq = [c \in Chans |-> <<>>] /\ effrun = [c \in Chans |-> 0] /\ effdone = {}
  /\ stops = <<>> /\ stopping = FALSE
  /\ ev = [a |-> "Init", cfg |-> c0]
Init == \E c0 \in CfgSet : InitWith(c0)

----------------------------------------------------------------------------
\* Channels, keys of a channel and payloads of a key are interchangeable: callers introduce them
\* in canonical order (a symmetry reduction written as a guard; keyless payloads do not matter).
MaxOf(S) == IF S = {} THEN 0 ELSE CHOOSE h \in S : \A g \in S : g <= h
Rejecting == stopping \/ OpenFutures >= cfg.cap
Canon(c, its) == ~Canonical \/
  \* a call that is turned away leaves no trace: one representative
  /\ Rejecting => (c = 1 /\ its = <<[k |-> NoKey, p |-> 1]>>)
  /\ c = 1 \/ \E i \in 1..Len(items) : items[i].c = c - 1
  /\ \A j \in 1..Len(its) :
       LET k == its[j].k
           usedK == {items[i].k : i \in {i \in 1..Len(items) : items[i].c = c}} \cup {its[h].k : h \in 1..(j - 1)}
           usedP == {items[i].p : i \in {i \in 1..Len(items) : items[i].c = c /\ items[i].k = k}}
                      \cup {its[h].p : h \in {h \in 1..(j - 1) : its[h].k = k}}
       IN /\ k = NoKey => its[j].p = 1
          /\ k > 1 => (k - 1) \in usedK
          /\ k # NoKey => its[j].p <= 1 + MaxOf(usedP)

\* Group.SubmitLocal(target of c, its)   its: sequence of [k, p].  The batch enters the writer inbox.
Submit(c, its) ==
  LET n == Len(its) IN
  /\ n \in 1..MaxBatch
  /\ Canon(c, its)
  /\ IF stopping THEN
       /\ ev' = [a |-> "Submit", c |-> c, b |-> 0, first |-> 0, its |-> its, res |-> "notReady"]
       /\ UNCHANGED <<items, nbat, inbox, res>>
     ELSE IF OpenFutures >= cfg.cap THEN
       /\ ev' = [a |-> "Submit", c |-> c, b |-> 0, first |-> 0, its |-> its, res |-> "backpressured"]
       /\ UNCHANGED <<items, nbat, inbox, res>>
     ELSE
       /\ Len(items) + n <= MaxItems
       /\ items' = items \o [j \in 1..n |-> [c |-> c, k |-> its[j].k, p |-> its[j].p, b |-> nbat + 1,
                                             orig |-> KeyPos(c, its[j].k), x |-> FALSE]]
       /\ res' = res \o [j \in 1..n |-> RNone]
       /\ nbat' = nbat + 1
       /\ inbox' = [inbox EXCEPT ![c] = Append(@, [first |-> Len(items) + 1, n |-> n])]
       /\ ev' = [a |-> "Submit", c |-> c, b |-> nbat + 1, first |-> Len(items) + 1, its |-> its, res |-> "ok"]
  /\ UNCHANGED <<cfg, pend, infl, log, effq, effrun, effdone, stops, stopping, fails>>

\* one writer pass admits the whole inbox, batch by batch (canAdmit is all-or-nothing per batch)
RECURSIVE AdmitAll(_, _, _, _)
AdmitAll(bs, p, busy, base) ==
  IF bs = <<>> THEN [p |-> p, busy |-> busy]
  ELSE LET b  == Head(bs)
           is == [j \in 1..b.n |-> b.first + j - 1]
       IN IF Len(p) + base + b.n <= cfg.hw
            THEN AdmitAll(Tail(bs), p \o is, busy, base)
            ELSE AdmitAll(Tail(bs), p, busy \o is, base)

\* One writer pass (channelWriter.advance): the inbox is detached under the lock, prepared outside
\* it and admitted under the lock again; batches submitted in between wait for the next pass.
\* Prepare(c, k) is the admission of a snapshot holding the k oldest batches of the inbox.
Prepare(c, k) ==
  /\ k \in 1..Len(inbox[c])
  /\ LET r == AdmitAll(SubSeq(inbox[c], 1, k), pend[c], <<>>, InflItems(c)) IN
     /\ pend' = [pend EXCEPT ![c] = r.p]
     /\ res' = [i \in 1..Len(res) |-> IF i \in Ran(r.busy) THEN RBusy ELSE res[i]]
     /\ ev' = [a |-> "Prepare", c |-> c, k |-> k, busy |-> r.busy]
  /\ inbox' = [inbox EXCEPT ![c] = SubSeq(@, k + 1, Len(@))]
  /\ UNCHANGED <<cfg, items, nbat, infl, log, effq, effrun, effdone, stops, stopping, fails>>

\* an append batch is named by its first item
AppendStart(c) ==
  /\ pend[c] # <<>>
  /\ Len(infl[c]) < cfg.inflight
  /\ LET orig == pend[c]
         uq   == Uniq(orig) IN
     /\ infl' = [infl EXCEPT ![c] = Append(@, [n |-> orig[1], orig |-> orig, uniq |-> uq, ph |-> "start",
                                               r |-> [j \in 1..Len(uq) |-> RNone],
                                               fresh |-> {}, cur |-> 0, rec |-> FALSE])]
     /\ ev' = [a |-> "AppendStart", c |-> c, n |-> orig[1], att |-> 1, tags |-> uq]
  /\ pend' = [pend EXCEPT ![c] = <<>>]
  /\ UNCHANGED <<cfg, items, nbat, inbox, log, res, effq, effrun, effdone, stops, stopping, fails>>

\* tags of the request currently at the Appender for batch b
Misses(b) == SelectSeq(b.uniq, LAMBDA u : b.r[IndexIn(b.uniq, u)].t = "miss")
ReqTags(b) == IF b.ph = "start" THEN b.uniq ELSE Misses(b)

\* The Appender preserves same-channel request order: a first-attempt request is answered only
\* when every earlier first-attempt request of the channel has been answered.
InOrder(c, x) == \A y \in 1..(x - 1) : infl[c][y].ph # "start"

\* applyAppendCompletion: completions are drained in append-sequence order.  s is the new
\* in-flight sequence of c; every leading finished batch completes its items' future slots,
\* hands fresh commits to the post-commit queue and releases its slot, in one critical section.
LeadDone(s) == LET K == {k \in 0..Len(s) : \A j \in 1..k : s[j].ph = "done"} IN CHOOSE k \in K : \A g \in K : g <= k
BatchOut(b, i) == b.r[IndexIn(b.uniq, OwnerIn(b.orig, IndexIn(b.orig, i)))]
RECURSIVE FreshOf(_, _)
FreshOf(s, k) == IF k = 0 THEN <<>> ELSE FreshOf(s, k - 1) \o SelectSeq(s[k].uniq, LAMBDA u : u \in s[k].fresh)
Settle(c, s) ==
  LET k == LeadDone(s) IN
  /\ infl' = [infl EXCEPT ![c] = SubSeq(s, k + 1, Len(s))]
  /\ res' = [i \in 1..Len(res) |->
               IF \E j \in 1..k : i \in Ran(s[j].orig)
                 THEN BatchOut(s[CHOOSE j \in 1..k : i \in Ran(s[j].orig)], i) ELSE res[i]]
  /\ effq' = [effq EXCEPT ![c] = IF cfg.eff THEN @ \o FreshOf(s, k) ELSE @]
Settled(s) == [j \in 1..LeadDone(s) |->
                 [n |-> s[j].n, its |-> s[j].orig, res |-> [h \in 1..Len(s[j].orig) |-> BatchOut(s[j], s[j].orig[h])]]]

\* the Appender answers the request of the x-th in-flight batch of c
AppendEnd(c, x, out) ==
  /\ x \in 1..Len(infl[c])
  /\ LET b    == infl[c][x]
         att  == IF b.ph = "start" THEN 1 ELSE 2
         tags == ReqTags(b)
         cf   == Conflict(c, tags)
         ok   == [j \in 1..Len(b.uniq) |->
                    IF b.uniq[j] \in Ran(tags) THEN ROk(b.uniq[j], Len(log[c]) + IndexIn(tags, b.uniq[j])) ELSE b.r[j]]
         nextPh == IF att = 1 THEN "lk" ELSE "rlk"
         cur1 == IF att = 1 THEN 1 ELSE MinOf({h \in 1..Len(b.uniq) : b.r[h].t = "miss"})
         failed == [b EXCEPT !.ph = nextPh, !.cur = cur1]
         b2   == IF out = "ok" THEN [b EXCEPT !.ph = "done", !.r = ok, !.fresh = @ \cup Ran(tags)] ELSE failed
         s2   == [infl[c] EXCEPT ![x] = b2]
     IN
     /\ b.ph \in {"start", "rstart"}
     /\ b.ph = "start" => InOrder(c, x)
     /\ CASE out = "ok"       -> ~cf /\ log' = [log EXCEPT ![c] = Stored(c, tags, att)] /\ UNCHANGED fails
          [] out = "conflict" -> cf /\ UNCHANGED <<log, fails>>
          [] out = "failBefore" -> fails < MaxFail /\ fails' = fails + 1 /\ UNCHANGED log
          \* stored, reply lost.  Only requests whose items all carry an idempotency key: the
          \* recovery pass re-appends keyless siblings of such a failure (it takes every failure
          \* with one recovered item for a conflict), which C29 does not speak about.
          [] out = "failAfter" -> /\ fails < MaxFail /\ ~cf /\ \A j \in 1..Len(tags) : items[tags[j]].k # NoKey
                                  /\ fails' = fails + 1
                                  /\ log' = [log EXCEPT ![c] = Stored(c, tags, att)]
     /\ Settle(c, s2)
     /\ ev' = [a |-> "AppendEnd", c |-> c, n |-> b.n, att |-> att, out |-> out, done |-> Settled(s2)]
  /\ UNCHANGED <<cfg, items, nbat, inbox, pend, effrun, effdone, stops, stopping>>

\* Indexes of b.uniq the current recovery pass still has to look up after index j, given results r.
NeedAfter(b, r, j) == {h \in (j + 1)..Len(b.uniq) : b.ph = "lk" \/ r[h].t = "miss"}

\* one recovery lookup (keyless items miss without a store call).  The last lookup of the first
\* pass either finishes the batch (nothing recovered: every miss is terminal) or puts the bounded
\* second attempt for the misses at the Appender (ev.retry = its tags).
Lookup(c, x) ==
  /\ x \in 1..Len(infl[c])
  /\ LET b == infl[c][x] IN
     /\ b.ph \in {"lk", "rlk"}
     /\ b.cur \in 1..Len(b.uniq)
     /\ LET j    == b.cur
            it   == items[b.uniq[j]]
            ans  == LookupOf(c, it.k, it.p)
            rj   == IF ans.t = "ok" THEN ans ELSE IF b.ph = "lk" THEN RMiss ELSE RFail
            r0   == [b.r EXCEPT ![j] = rj]
            rec2 == b.rec \/ ans.t = "ok"
            rest == NeedAfter(b, r0, j)
            last == rest = {}
            \* the retry filter: a miss whose submitter has given up meanwhile is answered with its
            \* own context error and left out of the bounded second attempt (only when there is one)
            r2   == IF last /\ b.ph = "lk" /\ rec2
                      THEN [h \in 1..Len(r0) |-> IF r0[h].t = "miss" /\ items[b.uniq[h]].x THEN RCanceled ELSE r0[h]]
                      ELSE r0
            misses == \E h \in 1..Len(r2) : r2[h].t = "miss"
            ph2  == IF ~last THEN b.ph
                    ELSE IF b.ph = "rlk" THEN "done"
                    ELSE IF rec2 /\ misses THEN "rstart" ELSE "done"
            r3   == IF ph2 = "done" THEN [h \in 1..Len(r2) |-> IF r2[h].t = "miss" THEN RFail ELSE r2[h]] ELSE r2
            b2   == [b EXCEPT !.r = r3, !.cur = IF last THEN 0 ELSE MinOf(rest), !.rec = rec2, !.ph = ph2]
            s2   == [infl[c] EXCEPT ![x] = b2]
        IN
        /\ Settle(c, s2)
        /\ ev' = [a |-> "Lookup", c |-> c, n |-> b.n, i |-> b.uniq[j], k |-> it.k, p |-> it.p,
                  called |-> (it.k # NoKey), res |-> IF ans.t = "ok" THEN ans ELSE RMiss,
                  retry |-> IF ph2 = "rstart" THEN Misses(b2) ELSE <<>>, done |-> Settled(s2)]
  /\ UNCHANGED <<cfg, items, nbat, inbox, pend, log, effrun, effdone, stops, stopping, fails>>

EffStart(c) ==
  /\ effq[c] # <<>> /\ effrun[c] = 0
  /\ effrun' = [effrun EXCEPT ![c] = Head(effq[c])]
  /\ effq' = [effq EXCEPT ![c] = Tail(@)]
  /\ ev' = [a |-> "EffStart", c |-> c, mid |-> Head(effq[c])]
  /\ UNCHANGED <<cfg, items, nbat, inbox, pend, infl, log, res, effdone, stops, stopping, fails>>

EffEnd(c) ==
  /\ effrun[c] # 0
  /\ effdone' = effdone \cup {effrun[c]}
  /\ effrun' = [effrun EXCEPT ![c] = 0]
  /\ ev' = [a |-> "EffEnd", c |-> c, mid |-> effrun[c]]
  /\ UNCHANGED <<cfg, items, nbat, inbox, pend, infl, log, res, effq, stops, stopping, fails>>

\* The submitter of item i cancels the item's context while i is part of a first-attempt request
\* parked at the Appender (the only point where the harness can do it deterministically; an item
\* that is coalesced onto another one has no say: the owner's context counts).
CancelItem(i) ==
  /\ i \in 1..Len(items) /\ ~items[i].x
  /\ Cardinality({h \in 1..Len(items) : items[h].x}) < MaxCancel
  /\ \E x \in 1..Len(infl[items[i].c]) :
        infl[items[i].c][x].ph = "start" /\ i \in Ran(infl[items[i].c][x].uniq)
  /\ items' = [items EXCEPT ![i].x = TRUE]
  /\ ev' = [a |-> "CancelItem", i |-> i]
  /\ UNCHANGED <<cfg, nbat, inbox, pend, infl, log, res, effq, effrun, effdone, stops, stopping, fails>>

\* The shard drops the writer of channel c (see the header).  Enabled only when the writer owns
\* nothing; nothing observable changes.
Reclaimable(c) == /\ inbox[c] = <<>> /\ pend[c] = <<>> /\ infl[c] = <<>>
                  /\ effq[c] = <<>> /\ effrun[c] = 0
Reclaim(c) ==
  /\ Reclaimable(c)
  /\ ev' = [a |-> "Reclaim", c |-> c]
  /\ UNCHANGED <<cfg, items, nbat, inbox, pend, infl, log, res, effq, effrun, effdone, stops, stopping, fails>>

\* Group.Stop(ctx) is called: its first statement sets `stopping` (the first call also starts
\* the one background drain, which is simply the pipeline running on with admission closed)
StopCall(dl) ==
  /\ Len(stops) < MaxStops
  /\ stops' = Append(stops, [dl |-> dl, st |-> "begun"])
  /\ stopping' = TRUE
  /\ ev' = [a |-> "StopCall", s |-> Len(stops) + 1, dl |-> dl]
  /\ UNCHANGED <<cfg, items, nbat, inbox, pend, infl, log, res, effq, effrun, effdone, fails>>

StopReturn(s, r) ==
  /\ s \in 1..Len(stops) /\ stops[s].st = "begun"
  /\ \/ r = "done" /\ Drained
     \/ r = "timeout" /\ stops[s].dl = "short"
  /\ stops' = [stops EXCEPT ![s].st = r]
  /\ ev' = [a |-> "StopReturn", s |-> s, res |-> r]
  /\ UNCHANGED <<cfg, items, nbat, inbox, pend, infl, log, res, effq, effrun, effdone, stopping, fails>>

----------------------------------------------------------------------------
ItemShapes == [k : Keys \cup {NoKey}, p : Pays]
BatchShapes == UNION {[1..n -> ItemShapes] : n \in 1..MaxBatch}
Outs == {"ok", "conflict", "failBefore", "failAfter"}

SubmitAny      == \E c \in Chans, its \in BatchShapes : Submit(c, its)
PrepareAny     == \E c \in Chans, k \in 1..MaxItems : Prepare(c, k)
AppendStartAny == \E c \in Chans : AppendStart(c)
AppendEndAny   == \E c \in Chans, x \in 1..cfg.inflight, o \in Outs : AppendEnd(c, x, o)
LookupAny      == \E c \in Chans, x \in 1..cfg.inflight : Lookup(c, x)
EffStartAny    == \E c \in Chans : EffStart(c)
EffEndAny      == \E c \in Chans : EffEnd(c)
CancelAny      == \E i \in 1..MaxItems : CancelItem(i)
ReclaimAny     == \E c \in Chans : Reclaim(c)
StopCallAny    == \E dl \in {"short", "long"} : StopCall(dl)
StopReturnAny  == \E s \in 1..MaxStops, r \in {"done", "timeout"} : StopReturn(s, r)

Next ==
  \/ SubmitAny \/ PrepareAny \/ AppendStartAny \/ AppendEndAny \/ LookupAny
  \/ EffStartAny \/ EffEndAny \/ StopCallAny \/ StopReturnAny
  \/ CancelAny \/ ReclaimAny

\* Fairness: the writer's own steps, the Appender / store answering, effects finishing, and a
\* Stop returning once the drain has finished.  No fairness on callers (Submit, StopCall) nor on
\* a deadline expiring.
Fair ==
  /\ WF_vars(PrepareAny) /\ WF_vars(AppendStartAny) /\ WF_vars(AppendEndAny) /\ WF_vars(LookupAny)
  /\ WF_vars(EffStartAny) /\ WF_vars(EffEndAny)
  /\ WF_vars(\E s \in 1..MaxStops : StopReturn(s, "done"))

Spec     == Init /\ [][Next]_vars
LiveSpec == Init /\ [][Next]_vars /\ Fair

----------------------------------------------------------------------------
\* ---- C29 ------------------------------------------------------------------------------------
\* the record a successful result names exists and is this item's logical send (own position:
\* a result that belongs to another item of the batch names a record of another send)
Belongs(i) == LET it == items[i] r == res[i] IN
  /\ r.seq \in 1..Len(log[it.c])
  /\ log[it.c][r.seq].mid = r.mid
  /\ \/ r.mid = i
     \/ it.k # NoKey /\ log[it.c][r.seq].k = it.k /\ log[it.c][r.seq].p = it.p
C29_Aligned == \A i \in 1..Len(items) : res[i].t = "ok" => Belongs(i)

\* no second message: one record per idempotency key and per owner
C29_NoSecondMessage ==
  \A c \in Chans : \A j, h \in 1..Len(log[c]) : j # h =>
     /\ log[c][j].mid # log[c][h].mid
     /\ log[c][j].k = NoKey \/ log[c][j].k # log[c][h].k

\* a send whose key was already stored when it was submitted returns the original (id, seq) if the
\* payload is equal, and never succeeds if the payload differs
C29_RetryOriginal ==
  \A i \in 1..Len(items) : items[i].orig > 0 /\ res[i].t \in {"ok", "fail"} =>
     LET o == log[items[i].c][items[i].orig] IN
     IF o.p = items[i].p THEN res[i] = ROk(o.mid, items[i].orig) ELSE res[i].t = "fail"
\* equal key with a different payload never yields a (new) success, whenever it was stored
C29_ChangedPayloadNeverSucceeds ==
  \A i \in 1..Len(items) : res[i].t = "ok" => log[items[i].c][res[i].seq].p = items[i].p

\* new successes of one channel carry strictly increasing sequences in submission order.
\* Fresh(i): the stored record is i's own.  With more than one batch in flight the bounded retry
\* of a recovered batch is a NEW request behind later batches (known finding, see MC_finding.cfg);
\* unless StrictOrder, items stored by such a retry are exempt.
Fresh(i) == res[i].t = "ok" /\ res[i].mid = i
ByRetry(i) == Fresh(i) /\ log[items[i].c][res[i].seq].att = 2
C29_Order ==
  \A i, j \in 1..Len(items) :
     i < j /\ items[i].c = items[j].c /\ Fresh(i) /\ Fresh(j)
       /\ (StrictOrder \/ cfg.inflight = 1 \/ (~ByRetry(i) /\ ~ByRetry(j)))
       => res[i].seq < res[j].seq

\* "canceled" is only ever the answer to an item whose submitter did cancel it -- or, as the code
\* has it, to an identical send (same key and payload) that may have been coalesced onto such an
\* item: the waiters of a coalesced request receive their owner's completion (append.go
\* expandCompletions), the owner's context error included
GaveUpFor(i) == \E h \in 1..Len(items) :
  /\ items[h].x
  /\ h = i \/ (items[h].c = items[i].c /\ items[h].k # NoKey /\ items[h].k = items[i].k /\ items[h].p = items[i].p)
C29_CanceledOnlyIfCancelled == \A i \in 1..Len(items) : res[i].t = "canceled" => GaveUpFor(i)

\* every item gets exactly one result: a result, once given, never changes
C29_ExactlyOne == [][\A i \in 1..Len(items) : res[i].t # "none" => res'[i] = res[i]]_vars

\* ---- C41 ------------------------------------------------------------------------------------
C41_NoAdmitAfterStop == [][stopping => (nbat' = nbat /\ Len(items') = Len(items))]_vars
\* a Stop whose deadline expired changes nothing but its own return
C41_TimeoutKeepsWork ==
  [][\A s \in 1..Len(stops) : (stops[s].st # "timeout" /\ stops'[s].st = "timeout") =>
        UNCHANGED <<items, inbox, pend, infl, log, res, effq, effrun, effdone, stopping>>]_vars
\* any Stop (first or later) returns nil only when the one drain has finished
C41_DoneMeansDrained == (\E s \in 1..Len(stops) : stops[s].st = "done") => Drained
\* no admitted item is discarded: whatever is admitted stays owned by exactly one stage until it has a result
Owned(i) == LET c == items[i].c IN
  \/ \E j \in 1..Len(inbox[c]) : i \in inbox[c][j].first..(inbox[c][j].first + inbox[c][j].n - 1)
  \/ i \in Ran(pend[c])
  \/ \E j \in 1..Len(infl[c]) : i \in Ran(infl[c][j].orig)
C41_NothingDiscarded == \A i \in 1..Len(items) : res[i].t = "none" => Owned(i)
\* liveness: every admitted item eventually has a terminal result; a long Stop eventually returns nil
C41_Terminal == \A i \in 1..MaxItems : (i <= Len(items)) ~> (i <= Len(items) /\ res[i].t # "none")
C41_LongStopReturns == \A s \in 1..MaxStops :
  (s <= Len(stops) /\ stops[s].dl = "long") ~> (s <= Len(stops) /\ stops[s].st = "done")

\* the pipeline has a step of its own to take (Prepare, AppendStart, Lookup, EffStart, a Stop
\* returning after the drain): the harness cannot hold these back
SpontEnabled ==
  \/ \E c \in Chans :
       \/ inbox[c] # <<>>
       \/ pend[c] # <<>> /\ Len(infl[c]) < cfg.inflight
       \/ \E x \in 1..Len(infl[c]) : infl[c][x].ph \in {"lk", "rlk"}
       \/ effq[c] # <<>> /\ effrun[c] = 0
  \/ Drained /\ \E s \in 1..Len(stops) : stops[s].st = "begun"

\* ---- projection --------------------------------------------------------------------------------
Proj == [res |-> res,
         log |-> [c \in Chans |-> [j \in 1..Len(log[c]) |-> [mid |-> log[c][j].mid, k |-> log[c][j].k, p |-> log[c][j].p]]],
         effdone |-> SetToSortSeq(effdone, <), stopping |-> stopping, q |-> ~SpontEnabled,
         \* not observables: the harness waits for these internal gauges to settle (never compared)
         sync |-> [adm |-> OpenFutures, pend |-> SeqSum([c \in Chans |-> Len(pend[c])]),
                   infl |-> SeqSum([c \in Chans |-> InflItems(c)])]]
=============================================================================

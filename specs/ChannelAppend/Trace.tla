-------------------------------- MODULE Trace --------------------------------
(* Validation of histories recorded from the REAL pipeline (code -> spec, Method B): several
   goroutines of Group.SubmitLocal / Router.SendBatch traffic, random append failures and
   latencies, Stop with short and long deadlines at random points.  One global sequence (file
   order).  Events:

     Init        {cfg}                         a new Group (new history)
     Submit      {c, first, its, res}          SubmitLocal; admitted batches are recorded at the CALL
                                               (their effects happen inside it), rejected ones at the
                                               RETURN; calls of one channel are serialized by the harness
     AppendStart {c, n, att, tags}             a request reached the Appender (items by id)
     AppendEnd   {c, n, att, out}              ... and was answered, recorded inside the log's
                                               critical section: ok | conflict | failBefore | failAfter | ctx
     Lookup      {c, k, p, res}                an IdempotencyStore.LookupSend and its answer
     EffStart / EffEnd {c, mid}                the post-commit effect of a stored message
     Cancel      {i}                           the submitter cancelled item i's context (recorded before
                                               the cancellation takes effect)
     Result      {i, res}                      a caller read item i's slot of its batch's results
     StopCall    {s, dl}  /  StopReturn {s, res, undone}
     End         {late, stuck}                 all callers and all Stops have returned

   Which batches the writer merges, when it prepares and when it drains completions is not
   observable through the ports and is not reconstructed.  This module is a deterministic
   monitor: it rebuilds the specification's `items`, `res` and `log` (re-running the log
   operators Conflict / Stored / LookupOf on the recorded requests, which also checks the Go
   fake against them) and evaluates the SAME C29 / C41 formulas as the exhaustive runs, plus
   the per-event obligations below (named in `bad` when violated).
   Sound conclusions from record order: an event recorded inside a call precedes that call's
   return; a Submit stamped at its call after a StopReturn was recorded was called after Stop
   had set `stopping`; `orig` (key already stored when the item was submitted) uses only
   requests answered before the Submit call. *)
EXTENDS ChannelAppend, Json

VARIABLES l,
  open,      \* requests at the Appender: set of [c, n, att, tags]
  disp,      \* items that were part of a first-attempt request
  fresh,     \* items whose record was stored by a request answered "ok"
  effOpen,   \* effects in progress
  stopRet,   \* some Stop has returned
  bad,       \* "" or the violated obligation
  wf         \* the recording itself is consistent (harness self-check)

tvars == <<vars, l, open, disp, fresh, effOpen, stopRet, bad, wf>>

Log == ndJsonDeserialize("trace.ndjson")

Idle == /\ inbox = [c \in Chans |-> <<>>] /\ pend = [c \in Chans |-> <<>>] /\ infl = [c \in Chans |-> <<>>]
        /\ effq = [c \in Chans |-> <<>>] /\ effrun = [c \in Chans |-> 0] /\ fails = 0
KeepIdle == UNCHANGED <<inbox, pend, infl, effq, effrun, fails>>

TraceInit ==
  /\ l = 1
  /\ cfg = [inflight |-> 1, hw |-> Unbounded, cap |-> Unbounded, eff |-> FALSE]
  /\ items = <<>> /\ nbat = 0 /\ res = <<>> /\ log = [c \in Chans |-> <<>>]
  /\ effdone = {} /\ stops = <<>> /\ stopping = FALSE
  /\ Idle
  /\ ev = [a |-> "none"]
  /\ open = {} /\ disp = {} /\ fresh = {} /\ effOpen = {} /\ stopRet = FALSE /\ bad = "" /\ wf = TRUE

First(checks) == IF checks = <<>> THEN ""
                 ELSE LET F[j \in 1..Len(checks)] ==
                            IF ~checks[j][2] THEN checks[j][1] ELSE IF j = Len(checks) THEN "" ELSE F[j + 1]
                      IN F[1]

DoInit(e) ==
  /\ cfg' = e.cfg
  /\ items' = <<>> /\ nbat' = 0 /\ res' = <<>> /\ log' = [c \in Chans |-> <<>>]
  /\ effdone' = {} /\ stops' = <<>> /\ stopping' = FALSE
  /\ open' = {} /\ disp' = {} /\ fresh' = {} /\ effOpen' = {} /\ stopRet' = FALSE /\ bad' = ""
  /\ wf' = (e.cfg \in CfgSet)
  /\ KeepIdle

DoSubmit(e) ==
  LET n == Len(e.its) IN
  /\ IF e.res = "ok"
       THEN /\ items' = items \o [j \in 1..n |-> [c |-> e.c, k |-> e.its[j].k, p |-> e.its[j].p, b |-> nbat + 1,
                                                  orig |-> KeyPos(e.c, e.its[j].k), x |-> FALSE]]
            /\ res' = res \o [j \in 1..n |-> RNone]
            /\ nbat' = nbat + 1
            /\ wf' = (wf /\ e.first = Len(items) + 1 /\ e.c \in Chans)
            \* C41: after a stop begins no new send is admitted
            /\ bad' = First(<< <<"C41_AdmittedAfterStopHadReturned", ~stopRet>> >>)
       ELSE /\ UNCHANGED <<items, res, nbat, bad>>
            /\ wf' = (wf /\ e.res \in {"notReady", "backpressured"})
  /\ UNCHANGED <<cfg, log, effdone, stops, stopping, open, disp, fresh, effOpen, stopRet>>
  /\ KeepIdle

TagsOK(c, tags) == \A j \in 1..Len(tags) : tags[j] \in 1..Len(items) /\ items[tags[j]].c = c
Distinct(tags)  == \A j, h \in 1..Len(tags) : j # h => tags[j] # tags[h]

DoAppendStart(e) ==
  LET known == TagsOK(e.c, e.tags)
      here  == {o \in open : o.c = e.c} IN
  /\ bad' = First(<<
       \* only admitted items of this channel ever reach the Appender
       <<"C41_ItemNeverAdmittedReachedTheAppender", known>>,
       \* no item is appended twice (first attempts are disjoint; the retry repeats first-attempt items)
       <<"C29_ItemInTwoAppendRequests", ~known \/ (Distinct(e.tags) /\
            IF e.att = 1 THEN \A j \in 1..Len(e.tags) : e.tags[j] \notin disp
                         ELSE \A j \in 1..Len(e.tags) : e.tags[j] \in disp)>>,
       \* at most the configured number of requests of a channel at the Appender
       <<"C29_InflightBoundExceeded", Cardinality(here) < cfg.inflight>> >>)
  /\ open' = open \cup {[c |-> e.c, n |-> e.n, att |-> e.att, tags |-> e.tags]}
  /\ disp' = IF e.att = 1 THEN disp \cup Ran(e.tags) ELSE disp
  /\ wf' = (wf /\ e.att \in {1, 2} /\ Len(e.tags) > 0)
  /\ UNCHANGED <<cfg, items, res, nbat, log, effdone, stops, stopping, fresh, effOpen, stopRet>>
  /\ KeepIdle

DoAppendEnd(e) ==
  LET os == {o \in open : o.n = e.n} IN
  IF os = {} \/ ~TagsOK(e.c, (CHOOSE o \in os : TRUE).tags)
    THEN /\ wf' = (wf /\ os # {})       \* foreign items were reported at AppendStart
         /\ open' = open \ os
         /\ UNCHANGED <<cfg, items, res, nbat, log, effdone, stops, stopping, disp, fresh, effOpen, stopRet, bad>>
         /\ KeepIdle
    ELSE
      LET o  == CHOOSE o \in os : TRUE
          cf == Conflict(e.c, o.tags)
          keyed == \A j \in 1..Len(o.tags) : items[o.tags[j]].k # NoKey
          stores == e.out \in {"ok", "failAfter"} IN
      /\ wf' = (wf /\ CASE e.out = "ok" -> ~cf
                        [] e.out = "conflict" -> cf
                        [] e.out = "failAfter" -> ~cf /\ keyed
                        [] OTHER -> TRUE)
      /\ log' = IF stores THEN [log EXCEPT ![e.c] = Stored(e.c, o.tags, o.att)] ELSE log
      /\ fresh' = IF e.out = "ok" THEN fresh \cup Ran(o.tags) ELSE fresh
      /\ open' = open \ os
      \* the runtime context of accepted work is never cancelled while it is at the Appender
      /\ bad' = First(<< <<"C41_AppendCancelledWhileInFlight", e.out # "ctx">> >>)
      /\ UNCHANGED <<cfg, items, res, nbat, effdone, stops, stopping, disp, effOpen, stopRet>>
      /\ KeepIdle

DoLookup(e) ==
  \* the recovery lookup is payload-hash-checked: p = 0 means the query carried no payload hash
  /\ bad' = First(<< <<"C29_LookupWithoutPayloadHash", e.p \in Pays>> >>)
  /\ wf' = (wf /\ e.c \in Chans /\ e.res.t \in {"ok", "miss"}
               /\ (e.res.t = "miss" => e.res = RMiss)
               /\ (e.p \in Pays => LookupOf(e.c, e.k, e.p) = e.res))
  /\ UNCHANGED <<cfg, items, res, nbat, log, effdone, stops, stopping, open, disp, fresh, effOpen, stopRet>>
  /\ KeepIdle

DoResult(e) ==
  LET i == e.i
      r == e.res IN
  IF i \notin 1..Len(items)
    THEN /\ wf' = FALSE
         /\ UNCHANGED <<cfg, items, res, nbat, log, effdone, stops, stopping, open, disp, fresh, effOpen, stopRet, bad>>
         /\ KeepIdle
    ELSE
      /\ wf' = (wf /\ (r.t # "ok" => r.mid = 0 /\ r.seq = 0))
      /\ bad' = First(<<
           \* exactly one result per item
           <<"C29_SecondResultForItem", res[i].t = "none">>,
           \* C41: an admitted item is never cancelled / turned away by a stop ("canceled" is the
           \* answer to an item only when its own submitter gave up: CancelItem)
           <<"C41_AdmittedItemCancelledOrTurnedAway", r.t \notin {"notReady", "backpressured"} /\ (r.t = "canceled" => GaveUpFor(i))>>,
           \* C41: ... nor discarded with a backlog error no limit explains
           <<"C41_AdmittedItemDiscardedAsBusyWithoutLimit", r.t = "busy" => cfg.hw # Unbounded>>,
           <<"C29_ItemWithoutAlignedResult", r.t \in {"ok", "fail", "busy", "canceled"}>> >>)
      /\ res' = IF r.t \in {"ok", "fail", "busy", "canceled"} /\ res[i].t = "none" THEN [res EXCEPT ![i] = r] ELSE res
      /\ UNCHANGED <<cfg, items, nbat, log, effdone, stops, stopping, open, disp, fresh, effOpen, stopRet>>
      /\ KeepIdle

DoCancel(e) ==
  /\ wf' = (wf /\ e.i \in 1..Len(items))
  /\ items' = IF e.i \in 1..Len(items) THEN [items EXCEPT ![e.i].x = TRUE] ELSE items
  /\ UNCHANGED <<cfg, res, nbat, log, effdone, stops, stopping, open, disp, fresh, effOpen, stopRet, bad>>
  /\ KeepIdle

DoEffStart(e) ==
  /\ effOpen' = effOpen \cup {e.mid}
  /\ wf' = (wf /\ e.mid \in fresh)
  /\ UNCHANGED <<cfg, items, res, nbat, log, effdone, stops, stopping, open, disp, fresh, stopRet, bad>>
  /\ KeepIdle

DoEffEnd(e) ==
  /\ effOpen' = effOpen \ {e.mid}
  /\ effdone' = effdone \cup {e.mid}
  /\ wf' = (wf /\ e.mid \in effOpen)
  /\ bad' = First(<< <<"C41_EffectCancelledWhileRunning", ~e.cancelled>> >>)
  /\ UNCHANGED <<cfg, items, res, nbat, log, stops, stopping, open, disp, fresh, stopRet>>
  /\ KeepIdle

DoStopCall(e) ==
  /\ stops' = Append(stops, [dl |-> e.dl, st |-> "begun"])
  /\ stopping' = TRUE
  /\ wf' = (wf /\ e.s \in 1..1000)
  /\ UNCHANGED <<cfg, items, res, nbat, log, effdone, open, disp, fresh, effOpen, stopRet, bad>>
  /\ KeepIdle

\* Stop returned nil: the one drain is over.  Nothing is at the Appender, every stored message had
\* its effect, every future the callers hold is complete (`undone`, counted by the harness right
\* after the return).  The same holds for every later Stop (it waits on the same drain).
DoStopReturn(e) ==
  /\ stopRet' = TRUE
  /\ bad' = IF e.res # "done" THEN "" ELSE First(<<
       <<"C41_StopReturnedWithFuturesUnfinished", e.undone = 0>>,
       <<"C41_StopReturnedWithAppendInFlight", open = {}>>,
       <<"C41_StopReturnedBeforeEffectsFinished", cfg.eff => (effOpen = {} /\ fresh \subseteq effdone)>> >>)
  /\ wf' = (wf /\ stopping /\ e.res \in {"done", "timeout"})
  /\ UNCHANGED <<cfg, items, res, nbat, log, effdone, stops, stopping, open, disp, fresh, effOpen>>
  /\ KeepIdle

DoEnd(e) ==
  /\ bad' = First(<<
       <<"C41_CallerNeverGotItsResults", e.stuck = 0>>,
       <<"C41_FutureUnfinishedAfterStopReturned", e.late = 0>>,
       <<"C41_AdmittedItemWithoutResult", \A i \in 1..Len(items) : res[i].t # "none">> >>)
  /\ wf' = (wf /\ open = {} /\ stopRet)
  /\ UNCHANGED <<cfg, items, res, nbat, log, effdone, stops, stopping, open, disp, fresh, effOpen, stopRet>>
  /\ KeepIdle

Step(e) ==
  CASE e.a = "Init"        -> DoInit(e)
    [] e.a = "Submit"      -> DoSubmit(e)
    [] e.a = "AppendStart" -> DoAppendStart(e)
    [] e.a = "AppendEnd"   -> DoAppendEnd(e)
    [] e.a = "Lookup"      -> DoLookup(e)
    [] e.a = "Result"      -> DoResult(e)
    [] e.a = "Cancel"      -> DoCancel(e)
    [] e.a = "EffStart"    -> DoEffStart(e)
    [] e.a = "EffEnd"      -> DoEffEnd(e)
    [] e.a = "StopCall"    -> DoStopCall(e)
    [] e.a = "StopReturn"  -> DoStopReturn(e)
    [] e.a = "End"         -> DoEnd(e)

TraceNext == l <= Len(Log) /\ l' = l + 1 /\ Step(Log[l].ev) /\ ev' = [a |-> Log[l].ev.a]
TraceSpec == TraceInit /\ [][TraceNext]_tvars

\* the per-event obligations, split by the property they belong to (checks C29 and C41 share this module)
C29Names == {"C29_SecondResultForItem", "C29_ItemWithoutAlignedResult", "C29_ItemInTwoAppendRequests",
             "C29_InflightBoundExceeded", "C29_LookupWithoutPayloadHash"}
ObligationsC29 == bad \notin C29Names
ObligationsC41 == bad = "" \/ bad \in C29Names
WellFormed  == wf
\* a success names a record that is stored in the item's channel log (part of C29_Aligned; also what
\* makes a success a truthful terminal result for C41)
SuccessNamesStoredRecord ==
  \A i \in 1..Len(items) : res[i].t = "ok" =>
     res[i].seq \in 1..Len(log[items[i].c]) /\ log[items[i].c][res[i].seq].mid = res[i].mid
\* sequences follow submission order (the recorded Submit order of a channel) when the writer is
\* configured for one batch in flight; with more, the order in which the harness's Appender
\* receives concurrent requests is not the writer's to decide (checked by Method A instead)
C29_OrderOneInflight == cfg.inflight = 1 => C29_Order

\* Acceptance: every line was consumed.
HW       == TLCSet(1, IF l > TLCGet(1) THEN l ELSE TLCGet(1))
Track    == HW
Accepted == TLCGet(1) = Len(Log) + 1
ASSUME TLCSet(1, 0)
===============================================================================

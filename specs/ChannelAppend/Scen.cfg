INIT SimInit
NEXT SimNext
CONSTANTS
  NChans = 2
  NKeys = 2
  NPays = 2
  MaxItems = 12
  MaxBatch = 6
  MaxFail = 2
  MaxStops = 3
  MaxCancel = 3
  Inflights = {1, 2}
  Hws = {2, 99}
  Caps = {2, 99}
  Effs = {FALSE, TRUE}
  Unbounded = 99
  Canonical = FALSE
  StrictOrder = FALSE
  Depth = 60
  Scripted = TRUE
INVARIANT Emit
CHECK_DEADLOCK FALSE

\* BoundedBatchPool as the code is (F6 fixed, F5 open): the three close configurations other than CancelRunningOnClose-only; 2 producers x 3 Submit, QueueSize 3, 2 workers, batches of 2 with MaxWait.
SPECIFICATION Spec
CONSTANTS
  NP = 2
  ItemsPer = 3
  QueueSize = 3
  Workers = 2
  MaxItems = 2
  MaxWait = TRUE
  CloseModes <- ModesButF5
  FixF5 = FALSE
  FixF6 = TRUE
INVARIANTS TypeOK C37_AtMostOnce C37_RejectedNeverRuns C37_OnlyAdmittedRuns C37_CancelOnlyIfConfigured C37_CancelOnlyAfterClose C37_CloseWaits SlotsCoverQueue
CHECK_DEADLOCK TRUE

-------------------------------- MODULE WQMailbox --------------------------------
(* ShardedMailbox (pkg/workqueue/sharded_mailbox.go), transcribed step by step.

   Per shard: a bounded queue, the `scheduled` flag and `closed` flag under shard.mu.  Submit
   enqueues under shard.mu and, on the false->true edge of `scheduled`, adds one to the mailbox
   WaitGroup and invokes the shard on the ants executor (at most Workers drains in flight).  A
   drain (drainScheduledShard) takes items until it sees the queue empty under shard.mu, calling the
   handler with ordered batches, and then - in a deferred function, i.e. in a LATER critical section -
   runs finishShardDrain: scheduled = false; re-schedule if the queue is non-empty, else wg.Done().

   FixF3 = TRUE is the code as it is now (/repo commit 4a6260676): finishShardDrain re-schedules
   whenever the queue is non-empty (and the runtime context is alive, i.e. Close has not finished or
   given up).  FixF3 = FALSE is the code before the fix: re-schedule only if
   `len(queue) > 0 && !shard.closed && !parent.closed` (finding F3, MC_f3.cfg: an item admitted
   between the drain's last emptiness check and finishShardDrain was abandoned when Close intervened).

   ReschedKeepsFlag = TRUE is the code as it is: the critical section of finishShardDrain that decides
   to re-schedule sets `scheduled` back to true before it unlocks, so the follow-up drain owns the
   shard.  ReschedKeepsFlag = FALSE is the variant "clear the flag, re-invoke, do not set it again"
   (MC_f7.cfg): the follow-up drain runs while the shard looks unscheduled, the next Submit schedules a
   second drain, and with Workers >= 2 two handlers of one shard overlap or run out of order
   (C37_Order after 20 states, C37_NoOverlap after 21).
   Its counterexample is the gated schedule "mailbox-resched-overlap" of the harness. *)
EXTENDS WorkQueue, TLC

CONSTANTS NP, ItemsPer,
          Shards,      \* cfg.Shards
          QueueSize,   \* cfg.QueueSizePerShard
          Workers,     \* cfg.Workers
          BatchMax,    \* cfg.BatchMaxItems
          FixF3,
          ReschedKeepsFlag

Producers == 1..NP
Items     == 1..(NP * ItemsPer)
SS        == 1..Shards
WS        == 1..Workers

VARIABLES
  shardOf,              \* hash placement of the items (chosen once; any placement)
  closed,               \* m.closed (atomic.Bool)
  sclosed, queue, scheduled,   \* per shard: shard.closed, shard.queue, shard.scheduled
  wg,                   \* m.wg counter
  invoked,              \* per shard: pending pool.Invoke(shard) calls (incl. overload retries)
  wpc, wshard, wbatch,  \* executor worker: pc, shard being drained, batch in hand
  ppc, pk,
  cpc, ci,              \* Close: pc, shard loop index
  active, horder, enq,  \* history per shard: handler calls in progress, handled order, admission order
  res, runs, fin, closeRet

vars == <<shardOf, closed, sclosed, queue, scheduled, wg, invoked, wpc, wshard, wbatch, ppc, pk,
          cpc, ci, active, horder, enq, res, runs, fin, closeRet>>
shardv == <<sclosed, queue, scheduled, wg, invoked>>
workv  == <<wpc, wshard, wbatch>>
histv  == <<active, horder, enq, res, runs, fin, closeRet>>

ItemOf(p) == (p - 1) * ItemsPer + pk[p]
Range(s)  == {s[k] : k \in 1..Len(s)}
NoCancel  == [i \in Items |-> 0]

Init ==
  /\ shardOf \in {f \in [Items -> SS] : f[1] = 1}
  /\ closed = FALSE
  /\ sclosed = [s \in SS |-> FALSE] /\ queue = [s \in SS |-> <<>>] /\ scheduled = [s \in SS |-> FALSE]
  /\ wg = 0 /\ invoked = [s \in SS |-> 0]
  /\ wpc = [w \in WS |-> "idle"] /\ wshard = [w \in WS |-> 0] /\ wbatch = [w \in WS |-> <<>>]
  /\ ppc = [p \in Producers |-> "idle"] /\ pk = [p \in Producers |-> 1]
  /\ cpc = "idle" /\ ci = 1
  /\ active = [s \in SS |-> 0] /\ horder = [s \in SS |-> <<>>] /\ enq = [s \in SS |-> <<>>]
  /\ res = [i \in Items |-> "none"] /\ runs = [i \in Items |-> 0] /\ fin = {} /\ closeRet = FALSE

\* ---- SubmitHash --------------------------------------------------------------------------
Return(p, code) ==
  /\ res' = [res EXCEPT ![ItemOf(p)] = code]
  /\ ppc' = [ppc EXCEPT ![p] = "idle"]
  /\ pk'  = [pk EXCEPT ![p] = @ + 1]

\* if m.closed.Load() { return ErrClosed }
M_Check(p) ==
  /\ ppc[p] = "idle" /\ pk[p] <= ItemsPer
  /\ IF closed THEN Return(p, "closed")
               ELSE ppc' = [ppc EXCEPT ![p] = "lock"] /\ UNCHANGED <<res, pk>>
  /\ UNCHANGED <<shardOf, closed, shardv, workv, cpc, ci, active, horder, enq, runs, fin, closeRet>>

\* shard.mu.Lock(); closed? full? enqueue; if !scheduled { scheduled = true; wg.Add(1) }; Unlock()
M_Lock(p) ==
  /\ ppc[p] = "lock"
  /\ LET i == ItemOf(p)  s == shardOf[i] IN
     IF sclosed[s] \/ closed
       THEN Return(p, "closed") /\ UNCHANGED <<queue, scheduled, wg, enq>>
     ELSE IF Len(queue[s]) >= QueueSize
       THEN Return(p, "full") /\ UNCHANGED <<queue, scheduled, wg, enq>>
     ELSE /\ queue' = [queue EXCEPT ![s] = Append(@, i)]
          /\ enq' = [enq EXCEPT ![s] = Append(@, i)]
          /\ IF scheduled[s]
               THEN Return(p, "ok") /\ UNCHANGED <<scheduled, wg>>
               ELSE /\ scheduled' = [scheduled EXCEPT ![s] = TRUE] /\ wg' = wg + 1
                    /\ res' = [res EXCEPT ![i] = "ok"]
                    /\ ppc' = [ppc EXCEPT ![p] = "invoke"] /\ UNCHANGED pk
  /\ UNCHANGED <<shardOf, closed, sclosed, invoked, workv, cpc, ci, active, horder, runs, fin, closeRet>>

\* if shouldSchedule { m.invokeShard(shard) }; return nil
M_Invoke(p) ==
  /\ ppc[p] = "invoke"
  /\ invoked' = [invoked EXCEPT ![shardOf[ItemOf(p)]] = @ + 1]
  /\ ppc' = [ppc EXCEPT ![p] = "idle"] /\ pk' = [pk EXCEPT ![p] = @ + 1]
  /\ UNCHANGED <<shardOf, closed, sclosed, queue, scheduled, wg, workv, cpc, ci, histv>>

\* ---- executor: pool.Invoke(shard) is accepted when a worker is free (overload: retried) ----
IdleWorkers == {w \in WS : wpc[w] = "idle"}
W_Begin(s) ==
  /\ invoked[s] > 0 /\ IdleWorkers # {}
  /\ LET w == CHOOSE x \in IdleWorkers : \A y \in IdleWorkers : x <= y IN
       /\ wpc' = [wpc EXCEPT ![w] = "next"] /\ wshard' = [wshard EXCEPT ![w] = s]
  /\ invoked' = [invoked EXCEPT ![s] = @ - 1]
  /\ UNCHANGED <<shardOf, closed, sclosed, queue, scheduled, wg, wbatch, ppc, pk, cpc, ci, histv>>

\* nextItem: receive, or (under shard.mu) see the queue empty and leave the loop
W_Next(w) ==
  /\ wpc[w] = "next"
  /\ LET s == wshard[w] IN
     IF queue[s] # <<>>
       THEN /\ wbatch' = [wbatch EXCEPT ![w] = <<Head(queue[s])>>]
            /\ queue' = [queue EXCEPT ![s] = Tail(@)]
            /\ wpc' = [wpc EXCEPT ![w] = IF BatchMax > 1 THEN "collect" ELSE "handle"]
       ELSE wpc' = [wpc EXCEPT ![w] = "fin"] /\ UNCHANGED <<wbatch, queue>>
  /\ UNCHANGED <<shardOf, closed, sclosed, scheduled, wg, invoked, wshard, ppc, pk, cpc, ci, histv>>

\* collectBatch: receive further ready items (one per step) or stop collecting
\* (BatchMaxWait expiring / closedCh make stopping possible at any point)
W_Collect(w) ==
  /\ wpc[w] = "collect"
  /\ LET s == wshard[w] IN
     \/ /\ Len(wbatch[w]) < BatchMax /\ queue[s] # <<>>
        /\ wbatch' = [wbatch EXCEPT ![w] = Append(@, Head(queue[s]))]
        /\ queue' = [queue EXCEPT ![s] = Tail(@)]
        /\ UNCHANGED wpc
     \/ /\ wpc' = [wpc EXCEPT ![w] = "handle"] /\ UNCHANGED <<wbatch, queue>>
  /\ UNCHANGED <<shardOf, closed, sclosed, scheduled, wg, invoked, wshard, ppc, pk, cpc, ci, histv>>

\* handler(ctx, MailboxBatch{Shard, Items}) is entered ...
W_HStart(w) ==
  /\ wpc[w] = "handle"
  /\ LET s == wshard[w]  b == wbatch[w] IN
       /\ active' = [active EXCEPT ![s] = @ + 1]
       /\ horder' = [horder EXCEPT ![s] = @ \o b]
       /\ runs' = [i \in Items |-> IF i \in Range(b) THEN runs[i] + 1 ELSE runs[i]]
  /\ wpc' = [wpc EXCEPT ![w] = "hend"]
  /\ UNCHANGED <<shardOf, closed, shardv, wshard, wbatch, ppc, pk, cpc, ci, enq, res, fin, closeRet>>

\* ... and returns
W_HEnd(w) ==
  /\ wpc[w] = "hend"
  /\ active' = [active EXCEPT ![wshard[w]] = @ - 1]
  /\ fin' = fin \cup Range(wbatch[w])
  /\ wbatch' = [wbatch EXCEPT ![w] = <<>>]
  /\ wpc' = [wpc EXCEPT ![w] = "next"]
  /\ UNCHANGED <<shardOf, closed, shardv, wshard, ppc, pk, cpc, ci, horder, enq, res, runs, closeRet>>

\* deferred finishShardDrain: one critical section of shard.mu
W_Fin(w) ==
  /\ wpc[w] = "fin"
  /\ LET s == wshard[w]
         needs == queue[s] # <<>> /\ (FixF3 \/ (~sclosed[s] /\ ~closed)) IN
       IF needs
         THEN /\ invoked' = [invoked EXCEPT ![s] = @ + 1]     \* scheduled = true again; invokeShard
              /\ scheduled' = [scheduled EXCEPT ![s] = ReschedKeepsFlag]
              /\ UNCHANGED wg
         ELSE /\ scheduled' = [scheduled EXCEPT ![s] = FALSE]
              /\ wg' = wg - 1                                  \* wg.Done()
              /\ UNCHANGED invoked
  /\ wpc' = [wpc EXCEPT ![w] = "idle"] /\ wshard' = [wshard EXCEPT ![w] = 0]
  /\ UNCHANGED <<shardOf, closed, sclosed, queue, wbatch, ppc, pk, cpc, ci, histv>>

\* ---- Close -------------------------------------------------------------------------------
\* m.closed.Store(true); close(closedCh)
C_Closed ==
  /\ cpc = "idle"
  /\ closed' = TRUE /\ cpc' = "shards"
  /\ UNCHANGED <<shardOf, shardv, workv, ppc, pk, ci, histv>>

\* for each shard { lock; shard.closed = true; unlock }
C_Shard ==
  /\ cpc = "shards"
  /\ sclosed' = [sclosed EXCEPT ![ci] = TRUE]
  /\ ci' = ci + 1
  /\ cpc' = IF ci = Shards THEN "wait" ELSE "shards"
  /\ UNCHANGED <<shardOf, closed, queue, scheduled, wg, invoked, workv, ppc, pk, histv>>

\* m.wg.Wait(); release executor; return nil
C_Wait ==
  /\ cpc = "wait"
  /\ wg = 0
  /\ cpc' = "ret" /\ closeRet' = TRUE
  /\ UNCHANGED <<shardOf, closed, shardv, workv, ppc, pk, ci, active, horder, enq, res, runs, fin>>

ProducersDone == \A p \in Producers : pk[p] > ItemsPer /\ ppc[p] = "idle"
Terminated == ProducersDone /\ cpc = "ret" /\ (\A w \in WS : wpc[w] = "idle") /\ (\A s \in SS : invoked[s] = 0)

Next ==
  \/ \E p \in Producers : M_Check(p) \/ M_Lock(p) \/ M_Invoke(p)
  \/ \E s \in SS : W_Begin(s)
  \/ \E w \in WS : W_Next(w) \/ W_Collect(w) \/ W_HStart(w) \/ W_HEnd(w) \/ W_Fin(w)
  \/ C_Closed \/ C_Shard \/ C_Wait
  \/ (Terminated /\ UNCHANGED vars)

Spec == Init /\ [][Next]_vars

\* ---- properties --------------------------------------------------------------------------
TypeOK ==
  /\ closed \in BOOLEAN /\ wg \in 0..Shards
  /\ \A s \in SS : Len(queue[s]) <= QueueSize /\ invoked[s] \in 0..2 /\ active[s] \in 0..2
  /\ res \in [Items -> Codes] /\ runs \in [Items -> 0..2] /\ fin \subseteq Items

C37_AtMostOnce        == AtMostOnce(Items, runs, NoCancel)
C37_RejectedNeverRuns == RejectedNeverRuns(Items, res, runs, NoCancel)
C37_OnlyAdmittedRuns  == \A i \in Items : runs[i] > 0 => res[i] = "ok"
C37_CloseWaits        == CloseWaits(Items, closeRet, res, fin, NoCancel)
C37_NoOverlap         == NoOverlap(SS, active)
\* a shard hands its items to the handler in admission order and only its own items
C37_Order             == \A s \in SS : IsPrefix(horder[s], enq[s])
\* the scheduled-flag protocol: one WaitGroup unit and at most one drain (pending or running) per
\* scheduled shard
OneDrainPerShard ==
  \A s \in SS :
    LET drains == invoked[s] + Cardinality({w \in WS : wshard[w] = s}) IN
      /\ drains <= 1
      /\ scheduled[s] => drains = 1 \/ \E p \in Producers : ppc[p] = "invoke" /\ shardOf[ItemOf(p)] = s
===============================================================================

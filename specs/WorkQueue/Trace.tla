-------------------------------- MODULE Trace --------------------------------
(* Validation of histories recorded from the REAL primitives of /repo/pkg/workqueue
   (code -> spec).  The harness records, with one global sequence (file order), what callers
   can observe:

     Init      {kind, cfg: {cancel, shards}}        a new primitive (new history)
     Call      {p, item, shard}                     producer p is about to call Submit(item)
     Ret       {p, item, code}                      Submit returned "ok" | "full" | "closed"
     HStart    {shard, res: {items}}                the handler was entered with these items
     HEnd      {shard, res: {items}}                ... and is about to return
     Cancel    {res: {item}}                        the cancel hook was called for item
     CloseCall / CloseRet                           Close is about to be called / returned nil
     End                                            every producer and Close have returned

   The internal steps of the protocols (WQPool/WQBatch/WQWorker/WQMailbox) are not observable
   without hooks and are not reconstructed: this module is a deterministic monitor that rebuilds
   the history vocabulary of WorkQueue.tla (res, runs, canc, fin, closeRet, active) from the
   events and evaluates THE SAME property operators the protocol models are checked against.
   What is sound to conclude from record order:
     * a record written inside a call (HStart, HEnd, Cancel) precedes the return of that call;
       correct code makes Close return after them, so any of them after CloseRet is a violation;
     * Ret("ok") recorded before CloseRet was admitted before Close returned;
     * Ret(y) recorded before Call(x) means y was submitted before x (real-time order), which is
       the only submission order the property can speak of for concurrent producers. *)
EXTENDS WorkQueue, Json, TLC

VARIABLES l,
  cancelCfg, mailbox,
  called, shard, pred,          \* items submitted so far, their shard, their same-shard predecessors
  res, runs, canc, fin,
  open,                         \* handler invocations in progress (set of item sequences)
  active,                       \* per shard: handler invocations in progress
  closeCalled, closeRet, ended,
  late,                         \* a handler / cancel-hook record appeared after CloseRet
  orderOK,                      \* no item was handled before a real-time predecessor of its shard
  foreign,                      \* the handler / hook was given an item nobody submitted, or a wrong shard
  wf                            \* well-formedness of the recording itself

vars == <<l, cancelCfg, mailbox, called, shard, pred, res, runs, canc, fin, open, active,
          closeCalled, closeRet, ended, late, orderOK, foreign, wf>>

Log == ndJsonDeserialize("trace.ndjson")

Range(s) == {s[k] : k \in 1..Len(s)}
MaxShards == 8

Fresh ==
  /\ called' = {} /\ shard' = <<>> /\ pred' = <<>>
  /\ res' = <<>> /\ runs' = <<>> /\ canc' = <<>> /\ fin' = {}
  /\ open' = {} /\ active' = [s \in 0..MaxShards |-> 0]
  /\ closeCalled' = FALSE /\ closeRet' = FALSE /\ ended' = FALSE
  /\ late' = FALSE /\ orderOK' = TRUE /\ foreign' = FALSE /\ wf' = TRUE

TraceInit ==
  /\ l = 1
  /\ cancelCfg = FALSE /\ mailbox = FALSE
  /\ called = {} /\ shard = <<>> /\ pred = <<>>
  /\ res = <<>> /\ runs = <<>> /\ canc = <<>> /\ fin = {}
  /\ open = {} /\ active = [s \in 0..MaxShards |-> 0]
  /\ closeCalled = FALSE /\ closeRet = FALSE /\ ended = FALSE
  /\ late = FALSE /\ orderOK = TRUE /\ foreign = FALSE /\ wf = TRUE

DoInit(e) ==
  /\ Fresh
  /\ cancelCfg' = e.cfg.cancel
  /\ mailbox' = (e.kind = "mailbox")

DoCall(e) ==
  LET i == e.item IN
  /\ wf' = (wf /\ i \notin called /\ ~ended)
  /\ called' = called \cup {i}
  /\ shard' = (i :> e.shard) @@ shard
  /\ pred'  = (i :> {y \in called : shard[y] = e.shard /\ res[y] = "ok" /\ runs[y] = 0}) @@ pred
  /\ res'   = (i :> "none") @@ res
  /\ runs'  = (i :> 0) @@ runs
  /\ canc'  = (i :> 0) @@ canc
  /\ UNCHANGED <<cancelCfg, mailbox, fin, open, active, closeCalled, closeRet, ended, late, orderOK, foreign>>

DoRet(e) ==
  LET i == e.item IN
  /\ IF i \in called /\ res[i] = "none" /\ e.code \in {"ok", "full", "closed"}
       THEN res' = [res EXCEPT ![i] = e.code] /\ UNCHANGED wf
       ELSE wf' = FALSE /\ UNCHANGED res
  /\ UNCHANGED <<cancelCfg, mailbox, called, shard, pred, runs, canc, fin, open, active,
                 closeCalled, closeRet, ended, late, orderOK, foreign>>

DoHStart(e) ==
  LET b     == e.res.items
      known == Range(b) \subseteq called
      s     == e.shard IN
  /\ IF known /\ Len(b) > 0
       THEN /\ runs' = [i \in called |-> runs[i] + Cardinality({k \in 1..Len(b) : b[k] = i})]
            /\ foreign' = (foreign \/ \E i \in Range(b) : shard[i] # s)
            /\ orderOK' = (orderOK /\
                 (mailbox => \A k \in 1..Len(b) :
                    \A y \in pred[b[k]] : runs[y] > 0 \/ \E j \in 1..(k - 1) : b[j] = y))
       ELSE foreign' = TRUE /\ UNCHANGED <<runs, orderOK>>
  /\ open' = open \cup {b}
  /\ wf' = (wf /\ b \notin open /\ s \in 0..MaxShards)
  /\ active' = [active EXCEPT ![s] = @ + 1]
  /\ late' = (late \/ closeRet)
  /\ UNCHANGED <<cancelCfg, mailbox, called, shard, pred, res, canc, fin, closeCalled, closeRet, ended>>

DoHEnd(e) ==
  LET b == e.res.items IN
  /\ IF b \in open
       THEN /\ open' = open \ {b}
            /\ fin' = fin \cup (Range(b) \cap called)
            /\ active' = [active EXCEPT ![e.shard] = @ - 1]
            /\ UNCHANGED wf
       ELSE wf' = FALSE /\ UNCHANGED <<open, fin, active>>
  /\ late' = (late \/ closeRet)
  /\ UNCHANGED <<cancelCfg, mailbox, called, shard, pred, res, runs, canc, closeCalled, closeRet,
                 ended, orderOK, foreign>>

DoCancel(e) ==
  LET i == e.res.item IN
  /\ IF i \in called
       THEN canc' = [canc EXCEPT ![i] = @ + 1] /\ UNCHANGED foreign
       ELSE foreign' = TRUE /\ UNCHANGED canc
  /\ late' = (late \/ closeRet \/ ~closeCalled)
  /\ UNCHANGED <<cancelCfg, mailbox, called, shard, pred, res, runs, fin, open, active,
                 closeCalled, closeRet, ended, orderOK, wf>>

DoCloseCall ==
  /\ closeCalled' = TRUE /\ wf' = (wf /\ ~closeCalled)
  /\ UNCHANGED <<cancelCfg, mailbox, called, shard, pred, res, runs, canc, fin, open, active,
                 closeRet, ended, late, orderOK, foreign>>

DoCloseRet ==
  /\ closeRet' = TRUE /\ wf' = (wf /\ closeCalled /\ ~closeRet)
  /\ UNCHANGED <<cancelCfg, mailbox, called, shard, pred, res, runs, canc, fin, open, active,
                 closeCalled, ended, late, orderOK, foreign>>

DoEnd ==
  /\ ended' = TRUE
  /\ wf' = (wf /\ closeRet /\ open = {} /\ \A i \in called : res[i] # "none")
  /\ UNCHANGED <<cancelCfg, mailbox, called, shard, pred, res, runs, canc, fin, open, active,
                 closeCalled, closeRet, late, orderOK, foreign>>

Step(e) ==
  CASE e.a = "Init"      -> DoInit(e)
    [] e.a = "Call"      -> DoCall(e)
    [] e.a = "Ret"       -> DoRet(e)
    [] e.a = "HStart"    -> DoHStart(e)
    [] e.a = "HEnd"      -> DoHEnd(e)
    [] e.a = "Cancel"    -> DoCancel(e)
    [] e.a = "CloseCall" -> DoCloseCall
    [] e.a = "CloseRet"  -> DoCloseRet
    [] e.a = "End"       -> DoEnd

TraceNext == l <= Len(Log) /\ l' = l + 1 /\ Step(Log[l].ev)

TraceSpec == TraceInit /\ [][TraceNext]_vars

\* ---- the property, on the reconstructed history -------------------------------------------
C37_AtMostOnce             == AtMostOnce(called, runs, canc)
C37_RejectedNeverRuns      == RejectedNeverRuns(called, res, runs, canc)
C37_OnlySubmittedRuns      == ~foreign
C37_CancelOnlyIfConfigured == CancelOnlyIfConfigured(called, cancelCfg, canc)
C37_CloseWaits             == CloseWaits(called, closeRet, res, fin, canc) /\ ~late
C37_NoOverlap              == mailbox => NoOverlap(0..MaxShards, active)
C37_Order                  == orderOK
WellFormed                 == wf

\* Acceptance: every line was consumed.
HW       == TLCSet(1, IF l > TLCGet(1) THEN l ELSE TLCGet(1))
Track    == HW
Accepted == TLCGet(1) = Len(Log) + 1
ASSUME TLCSet(1, 0)
===============================================================================

\* BoundedPool as the code is (admission lock, FixF4): 2 producers x 2 Submit/SubmitWait, QueueSize 2, 1 worker, Close anywhere.
SPECIFICATION Spec
CONSTANTS
  NP = 2
  ItemsPer = 2
  QueueSize = 2
  Workers = 1
  WaitSet = {TRUE, FALSE}
  FixF4 = TRUE
INVARIANTS TypeOK C37_AtMostOnce C37_RejectedNeverRuns C37_OnlyAdmittedRuns C37_CloseWaits SlotsCoverQueue
CHECK_DEADLOCK TRUE

\* ShardedMailbox BEFORE /repo commit 4a6260676 (FixF3 = FALSE): TLC finds F3 - invariant C37_CloseWaits is violated (17 states).
SPECIFICATION Spec
CONSTANTS
  NP = 2
  ItemsPer = 2
  Shards = 2
  QueueSize = 2
  Workers = 2
  BatchMax = 1
  FixF3 = FALSE
  ReschedKeepsFlag = TRUE
INVARIANTS TypeOK C37_AtMostOnce C37_RejectedNeverRuns C37_OnlyAdmittedRuns C37_CloseWaits C37_NoOverlap C37_Order OneDrainPerShard
CHECK_DEADLOCK TRUE
